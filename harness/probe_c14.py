import warnings; warnings.filterwarnings("ignore")
import numpy as np, io, contextlib
from corr_world import *
class HeurWrapper(ScriptedWrapper):
    def __init__(self):
        super().__init__(); self.calls = []; self.k = 0
    def set_main_variables(self): self.calls.append("set_main")
    def generate_problem(self, o): self.objective = o; self.calls.append("generate")
    def solve(self, **kw):
        self.k += 1; self.calls.append("solve%d" % self.k)
        n, m = Point.counter, Expression.counter
        rng = np.random.default_rng(self.k)
        A = rng.integers(-2, 3, size=(n, n)).astype(float); self.optimal_G = A.T @ A
        self.optimal_F = rng.integers(-3, 4, size=(m,)).astype(float)
        return "scripted", "none", float(self.optimal_F[self.objective.counter])
    def _recover_dual_values(self):
        self.calls.append("recover(after solve%d)" % self.k)
        n = Point.counter; res = np.eye(n) * self.k
        return [res] + [float(100 * self.k + i) for i, _ in enumerate(self._list_of_constraints_sent_to_solver)], res
    def prepare_heuristic(self, wc, tol): self.calls.append("prepare(%g,%g)" % (wc, tol))
    def heuristic(self, W): self.calls.append("heuristic(shape=%s, trace=%g)" % (W.shape, np.trace(W)))
for heur in [None, "trace", "logdet2"]:
    for mode in ["dual", "primal"]:
        pep = PEP(); f = pep.declare_function(PF.SmoothStronglyConvexFunction, mu=.1, L=1.)
        xs = f.stationary_point(); x0 = pep.set_initial_point(); c0 = ((x0 - xs) ** 2 <= 1); pep.set_initial_condition(c0)
        x1 = x0 - f.gradient(x0); pep.set_performance_metric((x1 - xs) ** 2)
        w = HeurWrapper()
        with contextlib.redirect_stdout(io.StringIO()):
            ret = pep._solve_with_wrapper(w, verbose=0, return_primal_or_dual=mode, dimension_reduction_heuristic=heur)
        print(heur, mode, "ret=", ret, "c0.dual=", c0.eval_dual(), "residual[0,0]=", pep.residual[0, 0], "F_obj=", pep.F_value[pep.objective.counter])
        print("   ", w.calls)
