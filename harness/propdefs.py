"""Per-property definitions: Lean targets and theorems, correspondence streams, direct oracles on
the implementation, known-finding replays, searches."""
import os, re, json, subprocess, sys
import vlib
from vlib import VERIF, HARNESS, LEAN, PY

# ------------------------------------------------------------------ theorem extraction
def thms_in(rel, only=None, exclude=()):
    """fully qualified names of the theorems of a Lean file (namespace-aware)"""
    src = vlib.strip_comments(open(os.path.join(LEAN, rel)).read())
    stack, out = [], []
    for l in src.splitlines():
        m = re.match(r"^namespace\s+(\S+)", l)
        if m: stack.append(m.group(1)); continue
        m = re.match(r"^end\s+(\S+)", l)
        if m and stack and stack[-1] == m.group(1): stack.pop(); continue
        m = re.match(r"^(?:@\[[^\]]*\]\s*)?(?:private\s+|protected\s+)?theorem\s+([^\s:({\[]+)", l)
        if m:
            name = ".".join(stack + [m.group(1)])
            if only and not any(re.search(o, name) for o in only): continue
            if any(re.search(e, name) for e in exclude): continue
            out.append(name)
    return out


def mod(rel): return rel[:-5].replace("/", ".")

TB_COMMON = [
    "Lean 4.33 kernel; axioms propext, Classical.choice, Quot.sound only (audited by #print axioms on every listed theorem, every run)",
    "Mathlib v4.33 as installed",
    "translators T1 (symbolic tracing of the real class-formula code), T2 (AST inventory) and T3 (symbolic execution of every primitive step), re-run on every check; harness/driver canonicalisers",
    "hand-written executable model (lean/PepitModel) tied to /repo by the correspondence streams of this run",
    "Python floats modelled as exact rationals (rounding not modelled)",
]
ASSUME_COMMON = [
    "solver output, numpy.linalg, pandas and cvxpy internals are contract-only parameters of the model",
    "the model is validated against the implementation on generated programs only (differential testing bounds what it sees)",
]


def stream(name, which, quick, thorough, script="corr_world.py", env=None, offset=0):
    return dict(name=name, which=which, quick=quick, thorough=thorough, script=script, env=env or {}, offset=offset)


def oracle(name, quick, thorough, stubs=False):
    """a direct property oracle on the implementation, run in its own interpreter (oracles.py)"""
    def fn(tier, seed, procs):
        n = quick if tier == "quick" else thorough
        env = vlib.env_for_repo([os.path.join(HARNESS, "stubs")] if stubs else [])
        try:
            r = subprocess.run([PY, "-W", "ignore", os.path.join(HARNESS, "oracles.py"), name, str(n), str(seed), str(procs)],
                               capture_output=True, text=True, env=env, timeout=6000)
        except subprocess.TimeoutExpired:
            return dict(name=name, evaluations=0, distinct=0, failures=[], crashed="timeout")
        for l in r.stdout.splitlines():
            if l.startswith("@@JSON@@"):
                d = json.loads(l[8:]); d["name"] = name; return d
        return dict(name=name, evaluations=0, distinct=0, failures=[], crashed=(r.stdout + r.stderr)[-1500:])
    fn.__name__ = name
    return fn


PROPS = {}


def prop(pid, files, extra=(), streams=(), direct=(), trusted=(), assumptions=(), rule=None, only=None, exclude=()):
    theorems = []
    for f in files:
        theorems += thms_in(f, only=only, exclude=exclude)
    theorems += list(extra)
    seen = set(); theorems = [t for t in theorems if not (t in seen or seen.add(t))]
    mods = [mod(f) for f in files]
    PROPS[pid] = dict(lean_targets=mods, audit_imports=mods, theorems=theorems, streams=list(streams), direct=list(direct),
                      trusted_base=TB_COMMON + list(trusted), assumptions=ASSUME_COMMON + list(assumptions))
    if rule: PROPS[pid]["rule"] = rule


prop("C01", ["PepitVerif/Props/C01.lean", "PepitVerif/Props/C01Check.lean", "PepitVerif/Math/CvxSem.lean", "PepitVerif/Math/Certificate.lean"],
     streams=[stream("resolve (scripted solver, tagged duals, returned dual value, function-level LMIs, primal mode)", "resolve", 150, 3000),
              stream("tree (symmetrize_dict / prune_dict / constant / remaining terms of check_feasibility on random expressions)", "tree", 150, 3000, offset=73),
              stream("collect+cvx (the real CvxpyWrapper: kinds and residuals of the cvxpy constraints it builds, _recover_dual_values on tagged duals, vs Cvx.emit / Cvx.recover)", "collect", 100, 2000, env={"PEPV_TEE": "1", "STUBS": "1"}, offset=83)],
     direct=[oracle("c01_certificate", 48, 400)],
     trusted=["scripted wrapper (Wrapper subclass) standing for the solver in symbolic streams"],
     assumptions=["that the numbers a real solver returns satisfy KKT is runtime behaviour: monitored by the numeric oracle, not proved"])

prop("C02", ["PepitVerif/Props/C02.lean", "PepitVerif/Props/C13.lean"], only=[r"C02\.", "expr_latest", "eval_pure"],
     streams=[stream("resolve (eval of points/expressions/constraints after scripted solves)", "resolve", 150, 3000, offset=7),
              stream("collect (the objective is the minimum of the CURRENT metrics: epigraph constraints sent at each solve)", "collect", 100, 2000, env={"PEPV_TEE": "1", "STUBS": "1"}, offset=109),
              stream("flow (the value returned in primal mode, with and without a dimension-reduction stage, is the objective of the instance that is returned)", "flow", 150, 2000, script="corr_c14.py", offset=211)],
     direct=[oracle("c02_instance", 32, 300)],
     assumptions=["eigendecomposition/QR accuracy and feasibility up to solver tolerance are floating-point facts: monitored numerically, not proved"])

prop("C03", ["PepitVerif/Props/C03.lean", "PepitVerif/Props/C03LMI.lean", "PepitVerif/Props/C03Quad.lean", "PepitVerif/Math/ClassForms.lean", "PepitVerif/Math/Convex.lean"],
     streams=[stream("cls (class constraints of all 24 classes: names, senses, decompositions, LMIs)", "cls", 600, 4000),
              stream("collect (class constraints as generated at solve time: partitions, composites, block-smooth functions sampled through multiples)", "collect", 100, 2000, env={"PEPV_TEE": "1", "STUBS": "1"}, offset=151)],
     direct=[oracle("c03_members", 260, 2600)],
     trusted=["class membership predicates in first-order form (the equivalence with 'gradient is L-Lipschitz' is textbook and not re-proved)"])

prop("C04", ["PepitVerif/Props/C04.lean", "PepitVerif/Props/C04Suff.lean", "PepitVerif/Math/PairsSem.lean", "PepitVerif/Math/ClassForms.lean"],
     streams=[stream("cls (glue: which lists, skip rule, symmetry, tables) on random interleavings", "cls", 600, 4000, offset=11),
              stream("collect (class constraints of every leaf function reach the solver, also for functions sampled once)", "collect", 100, 2000, env={"PEPV_TEE": "1", "STUBS": "1"}, offset=113)],
     direct=[oracle("c04_orders", 30, 400), oracle("c04_counts", 120, 2000)],
     trusted=["hand transcription of the documented conditions (Canon.*)"],
     assumptions=["sufficiency of the interpolation conditions is proved for ConvexFunction, ConvexLipschitzFunction, StronglyConvexFunction, ConvexSupportFunction and ConvexIndicatorFunction (C04Suff.lean); for the smooth classes (conjugation argument) and the operator classes (Kirszbraun-type extensions) it is literature-trusted, not proved"])

prop("C05", ["PepitVerif/Props/C05.lean", "PepitVerif/Math/MatricesSem.lean", "PepitVerif/Math/SparseSem.lean"],
     streams=[stream("collect+tee (sent list, dense matrices, MOSEK Task call list)", "collect", 120, 2500, env={"PEPV_TEE": "1", "STUBS": "1"}),
              stream("examples (REAL programs: the operations every shipped example performs, traced at run time over 760 parameter tuples — what each example declares is what its solve sends; example run = replay on the library = Lean model)", "examples", 48, 760, offset=163)],
     direct=[oracle("c05_translators", 300, 6000), oracle("c05_sent", 40, 600), oracle("c11_backends", 32, 300, stubs=True)],
     trusted=["stand-in mosek module (records Task calls; harness/stubs/mosek)"])

prop("C06", ["PepitVerif/Props/C06.lean", "PepitVerif/Math/AlgebraSem.lean", "PepitVerif/Math/WellFormed.lean", "PepitVerif/Math/Interp.lean"],
     streams=[stream("tree (random operator trees incl. right-hand operators, cancellations, zero scalars)", "tree", 300, 8000)],
     direct=[oracle("c06_trees", 300, 6000), oracle("c06_kinds", 1, 1)])

prop("C07", ["PepitVerif/Props/C07.lean", "PepitVerif/Math/OracleInv.lean", "PepitVerif/Math/OracleFresh.lean", "PepitVerif/Math/OneValue.lean", "PepitVerif/Math/DictEqv.lean", "PepitVerif/Math/AFunSpec.lean", "PepitVerif/Math/DistributeSpec.lean", "PepitVerif/Math/AddPointSpec.lean", "PepitVerif/Math/RemainderSem.lean", "PepitVerif/Math/AFunSem.lean"],
     streams=[stream("oracle (call sequences on leaf/composite functions; World = AFun = implementation)", "oracle", 300, 8000),
              stream("steps (what the primitive steps record on leaf and composite functions, incl. mirror maps sharing a leaf with the objective)", "steps", 150, 3000, offset=139)],
     direct=[oracle("c07_fuzz", 300, 6000)],
     assumptions=["exact arithmetic: the rounding of remainder / weight is not modelled", "run_inv covers every sequence of oracle/gradient/value/stationary_point/fixed_point calls (each valid when made); the primitive steps are covered by the steps stream only", "run_inv assumes Struct: a composite flagged non-differentiable has a non-differentiable term of non-zero weight (false for h = f1 + 0*f2 with f2 non-differentiable)"])

prop("C08", ["PepitVerif/Props/C08.lean", "PepitVerif/Props/C08Gen.lean", "PepitVerif/Math/StepsSem.lean"],
     streams=[stream("steps (all 8 steps, every option, leaf/composite functions, leaf/combination starts)", "steps", 300, 6000, offset=59),
              stream("collect (side constraints recorded by steps on composite functions reach the solver, also when the same combination is written twice)", "collect", 100, 2000, env={"PEPV_TEE": "1", "STUBS": "1"}, offset=149),
              stream("examples (REAL programs: the operations every shipped example performs, traced at run time over 760 parameter tuples — the primitive steps as the examples call them; example run = replay on the library = Lean model)", "examples", 48, 760, offset=167)],
     direct=[oracle("c08_steps", 300, 5000)],
     assumptions=["real_sound is proved for the proximal, linear-optimisation, inexact-gradient, exact line-search (smooth functions) and Bregman gradient steps; Bregman proximal, ε-subgradient and inexact-prox real sides are not formalised"])

prop("C09", ["PepitVerif/Props/C09.lean", "PepitVerif/Math/Certificate.lean", "PepitVerif/Props/C10.lean", "PepitVerif/Props/C08Gen.lean", "PepitVerif/Props/C09Methods.lean"], only=[r"C09\.", r"C09M\.", r"C08Gen\.", "cert_sound", "trace_mul_nonneg", "gd_no_run_beats_bound", "gd_contraction_n", "gd_contraction_upper", "subgradient_bound", "subg_telescope", "pg_contraction", "prox_nonexpansive"],
     streams=[stream("steps (recorded relations of the steps the examples are built from)", "steps", 100, 2000, offset=61),
              stream("cls (class constraints the examples rely on)", "cls", 100, 2000, offset=67),
              stream("collect+cvx (what the pipeline sends and records as sent; the real cvxpy wrapper)", "collect", 80, 1500, env={"PEPV_TEE": "1", "STUBS": "1"}, offset=89),
              stream("resolve (returned dual value rebuilt from the recorded list of sent constraints)", "resolve", 80, 1500, offset=97),
              stream("examples (REAL programs: the operations every shipped example performs, traced at run time over 760 parameter tuples — the model every example hands to the solver is the one the Lean pipeline model builds from the same operations; example run = replay on the library = Lean model)", "examples", 64, 760, offset=173),
              stream("methods (the example scripts whose whole user-level model is specified in Lean, Model/Methods.lean — gradient-descent contraction, subgradient method, proximal gradient, gradient flow of a strongly convex function, the potential function of gradient descent, gradient flow of a convex function, the second potential function of gradient descent, accelerated gradient flow of a convex function, one Polyak step in distance and in function values — at parameter values drawn over the documented ranges: the objects the REAL script builds = the Lean specification the C09Methods theorems are about)", "methods", 24, 400, offset=191)],
     direct=[oracle("c09_runs", 33, 440), oracle("c03_members", 260, 2600)],
     
     trusted=["independent NumPy implementations of 10 method families (harness/oracles5.py), transcribed from the documented algorithms"],
     assumptions=["that each example script implements the method its docstring names is not visible to Lean: sampled by real runs only",
                  "solver accuracy (CLARABEL ~1e-8) enters the comparison with tolerance 1e-5 relative"])

prop("C10", ["PepitVerif/Props/C10.lean", "PepitVerif/Props/C09Methods.lean", "PepitVerif/Math/ClassForms.lean"],
     streams=[stream("tree (expression algebra the examples are written in)", "tree", 100, 1000, offset=71),
              stream("cls (class constraints the examples rely on, all parameter regimes)", "cls", 100, 1500, offset=101),
              stream("examples (REAL programs: the operations every shipped example performs, traced at run time over 760 parameter tuples — suite tuples and neighbouring tuples of every example; example run = replay on the library = Lean model)", "examples", 64, 760, offset=179),
              stream("methods (the example scripts whose whole user-level model is specified in Lean, Model/Methods.lean — gradient-descent contraction, subgradient method, proximal gradient, gradient flow of a strongly convex function, the potential function of gradient descent, gradient flow of a convex function, the second potential function of gradient descent, accelerated gradient flow of a convex function, one Polyak step in distance and in function values — at parameter values drawn over the documented ranges: the objects the REAL script builds = the Lean specification the C09Methods theorems are about)", "methods", 24, 400, offset=193),
              stream("collect+cvx (an equivalent formulation may lean on what an LMI enforces: the real cvxpy wrapper couples every entry, above and below the diagonal)", "collect", 80, 1500, env={"PEPV_TEE": "1", "STUBS": "1"}, offset=197)],
     direct=[oracle("c10_examples", 40, 103), oracle("c10_refs", 57, 600), oracle("c10_sweeps", 19, 190), oracle("c10_equivalent", 14, 14), oracle("c10_neighbours", 660, 700)],
     trusted=["hand transcription of 19 published closed forms and their validity ranges (lean/PepitModel/Ref.lean), validated against the pinned tree",
              "frozen reference tables harness/ref_table.json and harness/ref_neighbours.json (claim tight/upper per example at the suite tuples and at neighbouring tuples: other iteration counts, scaled parameters) generated from the pinned tree"],
     assumptions=["'SDP optimum = closed form for all parameters' is a theorem of the literature per family and is not formalised: this property is decided mostly by correspondence on parameter grids"])

prop("C11", ["PepitVerif/Props/C11.lean"],
     streams=[stream("collect+tee (Task call list of the real MosekWrapper on the stand-in vs model; dense data)", "collect", 150, 3000, env={"PEPV_TEE": "1", "STUBS": "1"}, offset=53)],
     direct=[oracle("c11_backends", 32, 300, stubs=True), oracle("c11_heuristic", 8, 80, stubs=True)],
     trusted=["stand-in mosek module (harness/stubs/mosek): records Task calls and solves the recorded task through cvxpy, reporting duals in MOSEK's documented convention for maximisation problems (transcribed from the manual); real MOSEK is absent"],
     assumptions=["the semantics of MOSEK's Task API (appendsparsesymmat lower-triangle reading, bound keys, dual signs) are a transcription, not verified against real MOSEK"])

prop("C14", ["PepitVerif/Props/C14.lean"],
     streams=[stream("flow (call and data flow of _solve_with_wrapper under a scripted wrapper, all option combinations)", "flow", 200, 3000, script="corr_c14.py"),
              stream("collect+cvxheur (contract of the real CvxpyWrapper's prepare_heuristic / heuristic)", "collect", 100, 2000, env={"PEPV_TEE": "1", "STUBS": "1"}, offset=127)],
     direct=[oracle("c14_dimred", 32, 320)],
     assumptions=["the solver returns an optimal point of the problem it is given (oracle contract); monitored numerically with CLARABEL"])

prop("C12", ["PepitVerif/Props/C12.lean"],
     streams=[stream("collect in one interpreter history (every program starts with PEP(); the model starts fresh)", "collect", 150, 3000, offset=23),
              stream("cls in one interpreter history", "cls", 100, 2000, offset=29),
              stream("tree in one interpreter history (module-level null_point / null_expression as operands and accumulators)", "tree", 150, 3000, offset=103),
              stream("flow (the calls made to the solver, incl. the dimension-reduction stage, are the same whatever the verbosity)", "flow", 150, 2000, script="corr_c14.py", offset=157),
              stream("examples (REAL programs: the operations every shipped example performs, traced at run time over 760 parameter tuples — all examples one after the other in one interpreter, each against a fresh model; example run = replay on the library = Lean model)", "examples", 48, 760, offset=181)],
     direct=[oracle("c12_history", 12, 150), oracle("c12_types", 150, 150)])

prop("C13", ["PepitVerif/Props/C13.lean", "PepitVerif/Props/C13Hist.lean"],
     streams=[stream("resolve (histories of solves, edits, evaluations of held objects)", "resolve", 200, 4000, offset=31),
              stream("collect (what a second solve sends after the model was edited: partition constraints, new samples, changed class parameters)", "collect", 150, 3000, offset=107)],
     direct=[oracle("c13_resolve", 32, 240)])

prop("C15", ["PepitVerif/Props/C15.lean", "PepitVerif/Math/PartitionSem.lean", "PepitVerif/Props/C13Hist.lean"],
     streams=[stream("cls (block-smooth functions, partitions with 1-3 blocks, 4-12 in the large programs)", "cls", 250, 4000, env={"PEPV_CLS_FOCUS": "BlockSmoothConvexFunction"}, offset=37),
              stream("collect (partition constraints sent)", "collect", 100, 2000, offset=41)],
     direct=[oracle("c15_blocks", 100, 2000)])

prop("C16", ["PepitVerif/Props/C16.lean", "PepitVerif/Props/C16Gen.lean"],
     streams=[stream("resolve (eval / eval_dual before, between and after failed solves)", "resolve", 200, 4000, offset=43),
              stream("flow (failing first solve and invalid option values in _solve_with_wrapper)", "flow", 150, 2000, script="corr_c14.py", offset=79)],
     direct=[oracle("c16_unsolved", 40, 400)])

prop("C17", ["PepitVerif/Props/C17.lean", "PepitVerif/Math/PairsSem.lean"], only=[r"C17\.", "mem_pairsTwo", "pairIdx_same"],
     streams=[stream("cls (tables of constraints for every class, named and unnamed points)", "cls", 250, 4000, offset=47),
              stream("resolve (dual tables after scripted solves, edits and re-solves)", "resolve", 150, 3000, offset=131),
              stream("collect (every constraint stored in a table reaches the solver)", "collect", 100, 2000, env={"PEPV_TEE": "1", "STUBS": "1"}, offset=137)],
     direct=[oracle("c17_tables", 120, 1200)])


# ------------------------------------------------------------------ known findings
def replay_finding(k):
    """re-run the witness of an open known finding on the implementation; True if it still fails"""
    env = vlib.env_for_repo([os.path.join(HARNESS, "stubs")])
    r = subprocess.run([PY, "-W", "ignore", os.path.join(HARNESS, "oracles.py"), "finding", k["id"], "0", "1"],
                       capture_output=True, text=True, env=env, timeout=900)
    for l in r.stdout.splitlines():
        if l.startswith("@@JSON@@"):
            return bool(json.loads(l[8:])["still_fails"])
    return None


def covered_by_known(v, known):
    tags = set(v.get("tags", []))
    for k in known:
        if k["status"] == "open" and k.get("tag") in tags:
            return True
    return False


# ------------------------------------------------------------------ search (only when something broke)
def search(pid, broken, streams, tier, seed, procs):
    """look for a concrete failing input of the property on the implementation.  The direct
    oracles already ran with their normal budget; here they are re-run with a larger budget and
    other seeds, and every mismatching program of a stream is handed to the program oracle."""
    found = []
    P = PROPS[pid]
    # 1. programs on which model and implementation disagree: evaluate the property on them
    progs = [b for s in streams for b in s.get("bad", [])][:10]
    if progs:
        p = os.path.join(vlib.WORK, "badprogs_%s_%d.json" % (pid, os.getpid()))
        json.dump(progs, open(p, "w"))
        env = vlib.env_for_repo([os.path.join(HARNESS, "stubs")])
        r = subprocess.run([PY, "-W", "ignore", os.path.join(HARNESS, "oracles.py"), "programs", pid, p, str(procs)],
                           capture_output=True, text=True, env=env, timeout=3000)
        for l in r.stdout.splitlines():
            if l.startswith("@@JSON@@"):
                found += json.loads(l[8:]).get("failures", [])
    # 2. direct oracles with a larger budget and fresh seeds
    if not found:
        for fn in P.get("direct", []):
            for s2 in (seed + 1, seed + 2):
                res = fn("thorough" if tier == "quick" else tier, s2, procs)
                found += res.get("failures", [])
                if found: break
            if found: break
    return found


def replay(pid, path):
    d = json.load(open(path))
    print(json.dumps({k: d[k] for k in d if k in ("property", "kind", "what", "observed", "expected", "broken_obligation")}, indent=1)[:3000])
    if d.get("kind") != "failing-input" or "oracle" not in d:
        print("nothing to execute: this replay names the obligation that no longer checks"); return 0
    env = vlib.env_for_repo([os.path.join(HARNESS, "stubs")])
    r = subprocess.run([PY, "-W", "ignore", os.path.join(HARNESS, "oracles.py"), "replay", path, "0", "1"], env=env)
    return r.returncode
