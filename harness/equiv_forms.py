"""Equivalent formulations of shipped examples (same signature as the example, return (pepit, theory)): the worst-case
value must not move.  Used by the c10_equivalent oracle beside tests/additional_complexified_examples_tests."""
from PEPit import PEP, Expression
from PEPit.functions import ConvexFunction, SmoothStronglyConvexFunction
from PEPit.primitive_steps import proximal_step


def _prox_point(gamma, n, where, wrapper="cvxpy", solver=None, verbose=1):
    problem = PEP()
    func = problem.declare_function(ConvexFunction)
    xs = func.stationary_point(); fs = func(xs)
    x0 = problem.set_initial_point()
    e = (x0 - xs) ** 2
    if where == "pep": problem.add_psd_matrix([[1, e], [e, 1]])
    elif where == "function": func.add_psd_matrix([[1, e], [e, 1]])
    elif where in ("asym_upper", "asym_lower"):
        # the initial condition leans on the symmetry an LMI enforces: one of the two mirrored entries is an auxiliary leaf `t`,
        # the other one is `e`; a PSDMatrix is "constrained to be symmetric PSD", so t == e and e**2 <= 1
        t = Expression()
        problem.add_psd_matrix([[1, t], [e, 1]] if where == "asym_upper" else [[1, e], [t, 1]])
    elif where == "function_constraint": func.add_constraint(e <= 1)
    elif where == "twice": c = (e <= 1); problem.set_initial_condition(c); func.add_constraint(c)
    x = x0
    for _ in range(n): x, _, fx = proximal_step(x, func, gamma)
    problem.set_performance_metric(fx - fs)
    v = problem.solve(wrapper=wrapper, solver=solver, verbose=max(verbose, 0))
    return v, 1 / (4 * gamma * n)


def wc_proximal_point_lmi_on_function(gamma, n, **kw): return _prox_point(gamma, n, "function", **kw)
def wc_proximal_point_lmi_on_pep(gamma, n, **kw): return _prox_point(gamma, n, "pep", **kw)
def wc_proximal_point_condition_on_function(gamma, n, **kw): return _prox_point(gamma, n, "function_constraint", **kw)
def wc_proximal_point_condition_twice(gamma, n, **kw): return _prox_point(gamma, n, "twice", **kw)
def wc_proximal_point_lmi_asymmetric_upper(gamma, n, **kw): return _prox_point(gamma, n, "asym_upper", **kw)
def wc_proximal_point_lmi_asymmetric_lower(gamma, n, **kw): return _prox_point(gamma, n, "asym_lower", **kw)


def wc_gradient_descent_epigraph(L, gamma, n, wrapper="cvxpy", solver=None, verbose=1):
    """gradient descent on smooth convex functions, the metric given through an auxiliary expression t <= f(x_n) - f_*
    held by a function-level constraint with a constant shift (t + 1 <= f(x_n) - f_* + 1)"""
    from PEPit.functions import SmoothConvexFunction
    problem = PEP()
    func = problem.declare_function(SmoothConvexFunction, L=L)
    xs = func.stationary_point(); fs = func(xs)
    x0 = problem.set_initial_point(); problem.set_initial_condition((x0 - xs) ** 2 <= 1)
    x = x0
    for _ in range(n): x = x - gamma * func.gradient(x)
    t = Expression()
    func.add_constraint(t + 1 <= func(x) - fs + 1)
    problem.set_performance_metric(t)
    v = problem.solve(wrapper=wrapper, solver=solver, verbose=max(verbose, 0))
    return v, L / (2 * (2 * n * L * gamma + 1))
