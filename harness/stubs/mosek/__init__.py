"""Stand-in for the `mosek` module: records Task calls; optimize() solves the recorded task with cvxpy
and reports the solution in MOSEK's documented conventions (maximisation: slack duals <= 0, barsj NSD)."""
import numpy as np

class Error(Exception): pass
class _E:
    def __init__(self, **kw): self.__dict__.update(kw)
boundkey = _E(fr="fr", up="up", lo="lo", fx="fx", ra="ra")
soltype = _E(itr="itr")
objsense = _E(maximize="maximize", minimize="minimize")
streamtype = _E(log="log", msg="msg")
feature = _E(pton="pton")
prosta = _E(prim_and_dual_feas="prim_and_dual_feas", dual_infeas="dual_infeas", prim_infeas="prim_infeas", unknown="unknown")

class Env:
    def Task(self, *a): return Task()
    def checkoutlicense(self, f): pass
    def expirylicenses(self): return 100

class Task:
    def __init__(self):
        self.calls = []
        self.bardims = []; self.numvar = 0; self.numcon = 0
        self.varbound = {}; self.conbound = {}
        self.symmats = []          # (dim, i, j, v)
        self.baraij = {}           # (row, barvar) -> [(symmat idx, weight)]
        self.aij = {}              # (row, var) -> val
        self.c = {}; self.barc = {}
        self.sense = "minimize"
        self.sol = None
    def _rec(self, name, *a): self.calls.append((name,) + tuple(a))
    def set_Stream(self, *a): pass
    def appendbarvars(self, dims): self._rec("appendbarvars", list(dims)); self.bardims += list(dims)
    def appendvars(self, n):
        self._rec("appendvars", n)
        for i in range(self.numvar, self.numvar + n): self.varbound[i] = ("fx", 0.0, 0.0)   # MOSEK default: fixed at 0
        self.numvar += n
    def putvarbound(self, i, key, lo, up): self._rec("putvarbound", int(i), key); self.varbound[int(i)] = (key, lo, up)
    def getnumcon(self): return self.numcon
    def getmaxnumvar(self): return self.numvar
    def appendcons(self, n):
        self._rec("appendcons", n)
        for i in range(self.numcon, self.numcon + n): self.conbound[i] = ("fx", 0.0, 0.0)
        self.numcon += n
    def appendsparsesymmat(self, dim, subi, subj, val):
        subi, subj, val = list(map(int, subi)), list(map(int, subj)), list(map(float, val))
        assert all(i >= j for i, j in zip(subi, subj)), "only lower triangular"
        assert len(set(zip(subi, subj))) == len(subi), "duplicate entries"
        self.symmats.append((int(dim), subi, subj, val)); self._rec("appendsparsesymmat", int(dim), subi, subj, val)
        return len(self.symmats) - 1
    def putbaraij(self, i, j, sub, w):
        self._rec("putbaraij", int(i), int(j), list(sub), list(w))
        assert all(self.symmats[s][0] == self.bardims[j] for s in sub), "dimension mismatch barvar %d" % j
        self.baraij[(int(i), int(j))] = list(zip(sub, w))
    def putaijlist(self, subi, subj, val):
        self._rec("putaijlist", [int(x) for x in subi], [int(x) for x in subj], [float(x) for x in val])
        for i, j, v in zip(subi, subj, val): self.aij[(int(i), int(j))] = float(v)
    def putconbound(self, i, key, lo, up): self._rec("putconbound", int(i), key, float(lo), float(up)); self.conbound[int(i)] = (key, float(lo), float(up))
    def putclist(self, subj, val):
        self._rec("putclist", [int(x) for x in subj], [float(x) for x in val])
        for j, v in zip(subj, val): self.c[int(j)] = float(v)
    def putbarcj(self, j, sub, w): self._rec("putbarcj", int(j), list(sub), list(w)); self.barc[int(j)] = list(zip(sub, w))
    def putobjsense(self, s): self._rec("putobjsense", s); self.sense = s
    def solutionsummary(self, *a): pass
    def _mat(self, idx):
        dim, si, sj, v = self.symmats[idx]
        M = np.zeros((dim, dim))
        for i, j, x in zip(si, sj, v):
            M[i, j] += x
            if i != j: M[j, i] += x
        return M
    def optimize(self, **kw):
        import cvxpy as cp
        self._rec("optimize")
        X = [cp.Variable((d, d), symmetric=True) for d in self.bardims]
        x = cp.Variable(self.numvar)
        cons = [Xj >> 0 for Xj in X]
        rows = []
        for i in range(self.numcon):
            e = 0
            for (r, j), lst in self.baraij.items():
                if r == i:
                    for s, w in lst: e = e + w * cp.sum(cp.multiply(self._mat(s), X[j]))
            for (r, j), v in self.aij.items():
                if r == i: e = e + v * x[j]
            key, lo, up = self.conbound[i]
            if key == "up": con = (e <= up)
            elif key == "fx": con = (e == lo)
            elif key == "lo": con = (e >= lo)
            else: raise NotImplementedError(key)
            rows.append(con); cons.append(con)
        vb = []
        for j in range(self.numvar):
            key, lo, up = self.varbound[j]
            if key == "fx": cons.append(x[j] == lo)
        obj = sum(v * x[j] for j, v in self.c.items())
        for j, lst in self.barc.items():
            for s, w in lst: obj = obj + w * cp.sum(cp.multiply(self._mat(s), X[j]))
        prob = cp.Problem(cp.Maximize(obj) if self.sense == "maximize" else cp.Minimize(obj), cons)
        prob.solve(solver="CLARABEL")
        self.status = prob.status
        if prob.status not in ("optimal", "optimal_inaccurate"):
            self.sol = dict(xx=np.zeros(self.numvar), barx=[np.zeros((d, d)) for d in self.bardims], y=np.zeros(self.numcon), bars=[np.zeros((d, d)) for d in self.bardims]); return
        # convert duals: cvxpy (maximize): `e <= up` dual lam >= 0 ; `e == b` dual nu with Lagrangian obj - nu (e - b) (sign per cvxpy)
        y = np.zeros(self.numcon)
        sgn = 1.0 if self.sense == "maximize" else -1.0
        for i, con in enumerate(rows):
            y[i] = sgn * float(con.dual_value)
        bars = [-sgn * cons[j].dual_value for j in range(len(X))]   # maximisation: S_bar is NSD
        self.sol = dict(xx=np.array(x.value), barx=[Xj.value for Xj in X], y=y, bars=bars)
    @staticmethod
    def _tril(M):
        n = M.shape[0]; out = []
        for j in range(n):
            for i in range(j, n): out.append(M[i, j])
        return np.array(out)
    def getbarxj(self, st, j): return self._tril(self.sol["barx"][j])
    def getbarsj(self, st, j): return self._tril(self.sol["bars"][j])
    def getxx(self, st): return self.sol["xx"]
    def gety(self, st): return self.sol["y"]
    def getprosta(self, st): return prosta.prim_and_dual_feas if self.status.startswith("optimal") else prosta.dual_infeas
