"""Direct property oracles on the implementation (independent of the Lean model).

They serve two purposes: (a) supporting validation in every check, (b) the *search* for a concrete
failing input once a proof obligation or a correspondence stream no longer checks.  None of them
stands in for a theorem.   usage: oracles.py <name> <n> <seed> <procs>   -> one @@JSON@@ line."""
import warnings; warnings.filterwarnings("ignore")
import sys, os, json, random, itertools, math, io, contextlib, traceback, subprocess, operator, copy
from fractions import Fraction as Fr
import numpy as np

HERE = os.path.dirname(os.path.abspath(__file__))


from ocommon import *
from ocommon import Fr


# ------------------------------------------------------------------ C06
def c06_trees(n, seed, procs):
    """random operator trees: the decomposition of every built object, evaluated exactly at random
    integer leaf vectors/values, must equal the same operations carried out on the values;
    operands must be unchanged by every operation; comparisons must denote left - right."""
    from PEPit import Point, Expression
    fails, samples, distinct = [], [], set()
    for it in range(n):
        rnd = random.Random(seed * 7919 + it)
        fresh()
        nl = rnd.randint(2, 4); dim = 3
        P = [Point() for _ in range(nl)]; E = [Expression() for _ in range(rnd.randint(1, 2))]
        V = {p.counter: [Fr(rnd.randint(-3, 3)) for _ in range(dim)] for p in P}
        F = {e.counter: Fr(rnd.randint(-4, 4)) for e in E}
        pts = [(p, V[p.counter], "p%d" % i) for i, p in enumerate(P)]
        exs = [(e, F[e.counter], "e%d" % i) for i, e in enumerate(E)]
        log = []
        def snap(o): return dict(o.decomposition_dict) if o.decomposition_dict is not None else None
        for step in range(rnd.randint(3, 14)):
            r = rnd.random(); c = rnd.choice(SC); cf = float(c) if rnd.random() < .7 else (int(c) if c.denominator == 1 else float(c))
            try:
                if r < .14:
                    (a, va, na), (b, vb, nb) = rnd.choice(pts), rnd.choice(pts); sa, sb = snap(a), snap(b)
                    o, vo, no = a + b, [x + y for x, y in zip(va, vb)], "(%s+%s)" % (na, nb); ops = [(a, sa), (b, sb)]; kind = "p"
                elif r < .26:
                    (a, va, na), (b, vb, nb) = rnd.choice(pts), rnd.choice(pts); sa, sb = snap(a), snap(b)
                    o, vo, no = a - b, [x - y for x, y in zip(va, vb)], "(%s-%s)" % (na, nb); ops = [(a, sa), (b, sb)]; kind = "p"
                elif r < .36:
                    (a, va, na) = rnd.choice(pts); sa = snap(a)
                    o = cf * a if rnd.random() < .5 else a * cf
                    vo, no = [c * x for x in va], "(%s*%s)" % (c, na); ops = [(a, sa)]; kind = "p"
                elif r < .42:
                    (a, va, na) = rnd.choice(pts); sa = snap(a)
                    c = rnd.choice(DIV); cf = float(c)
                    if c == 0:
                        try:
                            a / cf
                            fails.append(dict(what="division of a point by zero does not raise", oracle="c06_trees", input=dict(seed=seed, it=it), tags=["c06"]))
                        except ZeroDivisionError: pass
                        continue
                    o, vo, no = a / cf, [x / c for x in va], "(%s/%s)" % (na, c); ops = [(a, sa)]; kind = "p"
                elif r < .46:
                    (a, va, na) = rnd.choice(pts); sa = snap(a)
                    o, vo, no = -a, [-x for x in va], "(-%s)" % na; ops = [(a, sa)]; kind = "p"
                elif r < .58:
                    (a, va, na), (b, vb, nb) = rnd.choice(pts), rnd.choice(pts); sa, sb = snap(a), snap(b)
                    o, vo, no = a * b, dot(va, vb), "<%s,%s>" % (na, nb); ops = [(a, sa), (b, sb)]; kind = "e"
                elif r < .64:
                    (a, va, na) = rnd.choice(pts); sa = snap(a)
                    o, vo, no = a ** 2, dot(va, va), "|%s|^2" % na; ops = [(a, sa)]; kind = "e"
                elif r < .72:
                    (a, va, na), (b, vb, nb) = rnd.choice(exs), rnd.choice(exs); sa, sb = snap(a), snap(b)
                    if rnd.random() < .5: o, vo, no = a + b, va + vb, "(%s+%s)" % (na, nb)
                    else: o, vo, no = a - b, va - vb, "(%s-%s)" % (na, nb)
                    ops = [(a, sa), (b, sb)]; kind = "e"
                elif r < .80:
                    (a, va, na) = rnd.choice(exs); sa = snap(a); w = rnd.randint(0, 3)
                    if w == 0: o, vo, no = a + cf, va + c, "(%s+%s)" % (na, c)
                    elif w == 1: o, vo, no = cf + a, va + c, "(%s+%s)" % (c, na)
                    elif w == 2: o, vo, no = a - cf, va - c, "(%s-%s)" % (na, c)
                    else: o, vo, no = cf - a, c - va, "(%s-%s)" % (c, na)
                    ops = [(a, sa)]; kind = "e"
                elif r < .88:
                    (a, va, na) = rnd.choice(exs); sa = snap(a); w = rnd.randint(0, 3)
                    if w == 0: o, vo, no = cf * a, c * va, "(%s*%s)" % (c, na)
                    elif w == 1: o, vo, no = a * cf, c * va, "(%s*%s)" % (na, c)
                    elif w == 2: o, vo, no = -a, -va, "(-%s)" % na
                    else:
                        c = rnd.choice(DIV[:-1]); cf = float(c)
                        o, vo, no = a / cf, va / c, "(%s/%s)" % (na, c)
                    ops = [(a, sa)]; kind = "e"
                else:
                    # comparison: constraint expression must denote left - right (<=, ==) or right - left (>=)
                    (a, va, na) = rnd.choice(exs); sa = snap(a)
                    if rnd.random() < .5:
                        (b, vb, nb) = rnd.choice(exs); sb = snap(b); rhs, vr, nr, ops = b, vb, nb, [(a, sa), (b, sb)]
                    else:
                        rhs, vr, nr, ops = cf, c, str(c), [(a, sa)]
                    w = rnd.choice(["<=", ">=", "=="])
                    con = (a <= rhs) if w == "<=" else ((a >= rhs) if w == ">=" else (a == rhs))
                    want = (va - vr) if w in ("<=", "==") else (vr - va)
                    got = eval_e(con.expression, V, F)
                    sense = con.equality_or_inequality
                    if got != want or sense != ("equality" if w == "==" else "inequality"):
                        fails.append(dict(what="comparison %s %s %s denotes %s (sense %s), expected %s" % (na, w, nr, got, sense, want),
                                          oracle="c06_trees", input=dict(seed=seed, it=it, tree=log + ["%s %s %s" % (na, w, nr)]), observed=str(got), expected=str(want), tags=["c06"]))
                    for (x, s0) in ops:
                        if snap(x) != s0:
                            fails.append(dict(what="operand altered by comparison", oracle="c06_trees", input=dict(seed=seed, it=it, tree=log), tags=["c06"]))
                    continue
            except ZeroDivisionError:
                continue
            log.append(no)
            got = eval_p(o, V) if kind == "p" else eval_e(o, V, F)
            if got != vo:
                fails.append(dict(what="object %s denotes %s, expected %s" % (no, [str(g) for g in got] if kind == "p" else got, [str(g) for g in vo] if kind == "p" else vo),
                                  oracle="c06_trees", input=dict(seed=seed, it=it, tree=list(log)), observed=str(got), expected=str(vo), tags=["c06"]))
            for (x, s0) in ops:
                if snap(x) != s0:
                    fails.append(dict(what="operand altered by operation producing %s" % no, oracle="c06_trees", input=dict(seed=seed, it=it, tree=list(log)), tags=["c06"]))
            (pts if kind == "p" else exs).append((o, vo, no))
        # augmented assignments on aliased operands, and coefficients of very different magnitudes
        (a, va, na), (b, vb, nb) = rnd.choice(pts), rnd.choice(pts)
        (ea, vea, nea), (eb, veb, neb) = rnd.choice(exs), rnd.choice(exs)
        sa, sea = snap(a), snap(ea)
        x = a; x += b
        y = ea; y += eb
        z = ea; z -= eb
        w = a; w *= 2.0
        if snap(a) != sa or snap(ea) != sea or a.get_is_leaf() != (a in P) :
            fails.append(dict(what="augmented assignment (+=, -=, *=) altered the aliased operand %s / %s" % (na, nea), oracle="c06_trees", input=dict(seed=seed, it=it, tree=list(log) + ["x=%s; x+=%s" % (na, nb), "y=%s; y+=%s" % (nea, neb)]), tags=["c06"]))
        if eval_p(x, V) != [p_ + q_ for p_, q_ in zip(va, vb)] or eval_e(y, V, F) != vea + veb or eval_e(z, V, F) != vea - veb:
            fails.append(dict(what="augmented assignment does not denote the sum/difference", oracle="c06_trees", input=dict(seed=seed, it=it, tree=list(log)), tags=["c06"]))
        tiny = 2.0 ** -rnd.choice([40, 50, 60])
        lp, lq = P[0], P[-1]
        t1 = lp - tiny * lq if lp is not lq else lp * tiny
        want = {lp.counter: Fr(1), lq.counter: Fr(-tiny)} if lp is not lq else {lp.counter: Fr(tiny)}
        t2 = (tiny * E[0] + 0) * (1 / tiny)
        if pdict(t1) != want or edict(t2) != {("f", E[0].counter): Fr(1)} or edict((t1 * lp) <= 1 if False else (t1 * lp)).get(("ip", lq.counter, lp.counter) if lp is not lq else ("ip", lp.counter, lp.counter)) in (None, 0):
            fails.append(dict(what="a coefficient of magnitude %g is lost: p - %g*q has decomposition %s" % (tiny, tiny, {k: float(v) for k, v in pdict(t1).items()}), oracle="c06_trees",
                              input=dict(seed=seed, it=it, expr="p - %g*q, (%g*e + 0)/%g" % (tiny, tiny, tiny)), observed=str(pdict(t1)), expected=str(want), tags=["c06"]))
        distinct.add(tuple(log))
        if it < 2: samples.append(log[:12])
        if len(fails) > 5: break
    return dict(evaluations=n, distinct=len([d for d in distinct if len(d) >= 3]), failures=fails[:5], samples=samples)


def c06_kinds(n, seed, procs):
    """operator x operand-kind table: non-numeric kinds (and Point/Expression mismatches) must raise;
    numeric-like kinds must raise or act with the right meaning"""
    from PEPit import Point, Expression, Constraint
    from PEPit.functions import ConvexFunction
    pep = fresh()
    p, q, e, f = Point(), Point(), Expression(), Expression()
    fn = pep.declare_function(ConvexFunction)
    con = (e <= f)
    nonnum = {"None": None, "str": "s", "list": [1], "dict": {}, "tuple": (1, 2), "Constraint": con, "Function": fn, "complex": 1j}
    num = {"np.int64": np.int64(3), "np.float64": np.float64(2.5), "bool": True, "np.bool": np.bool_(True), "int": 3, "float": 2.5,
           # fixed-width numpy scalars and exact rationals: refused, or accepted with the meaning of the NUMBER (a coefficient that
           # stays a 16 / 32-bit scalar wraps around or rounds in the arithmetic done on the result afterwards)
           "np.int32": np.int32(3), "np.int16": np.int16(3), "np.uint8": np.uint8(3), "np.float32": np.float32(2.5), "np.float16": np.float16(2.5),
           "Fraction": Fr(5, 2)}
    ops = {"+": operator.add, "-": operator.sub, "*": operator.mul, "/": operator.truediv, "**": operator.pow,
           "<=": operator.le, ">=": operator.ge, "==": operator.eq, "<": operator.lt, ">": operator.gt}
    fails, cells = [], 0
    for rname, r in (("Point", p), ("Expression", e)):
        other = {"Point": q, "Expression": f}
        for on, o in ops.items():
            kinds = dict(nonnum)
            # cross kinds: Point with Expression always undocumented; same kind only for + - (and * for points, comparisons for expressions)
            kinds["Expression" if rname == "Point" else "Point"] = other["Expression" if rname == "Point" else "Point"]
            if rname == "Point" and on in ("/", "**", "<=", ">=", "<", ">"): kinds["Point"] = q
            if rname == "Expression" and on in ("*", "/", "**"): kinds["Expression"] = f
            for kn, k in kinds.items():
                for side in ("L", "R"):
                    cells += 1
                    try:
                        res = o(r, k) if side == "L" else o(k, r)
                    except Exception:
                        continue
                    if res is NotImplemented or isinstance(res, (bool, np.bool_)):
                        continue   # Python's default identity comparison (e.g. point == None -> False): no PEPit object produced
                    fails.append(dict(what="%s %s %s (%s operand) returns a %s instead of raising" % (rname, on, kn, side, type(res).__name__),
                                      oracle="c06_kinds", input=dict(receiver=rname, op=on, operand=kn, side=side), tags=["c06", "kinds:%s%s%s" % (rname, on, kn)]))
            for kn, k in num.items():
                for side in ("L", "R"):
                    cells += 1
                    try:
                        res = o(r, k) if side == "L" else o(k, r)
                    except Exception:
                        continue
                    if isinstance(res, (bool, np.bool_)) or res is NotImplemented: continue
                    # meaning check at values p=[2,1], e=5
                    V = {p.counter: [Fr(2), Fr(1)], q.counter: [Fr(1), Fr(3)]}; F = {e.counter: Fr(5), f.counter: Fr(7)}
                    kv = Fr(float(k)); rv = V[p.counter] if rname == "Point" else F[e.counter]
                    try:
                        if on == "**":
                            ok = rname == "Point" and side == "L" and kv == 2 and eval_e(res, V, F) == dot(rv, rv)
                        elif isinstance(res, Constraint):
                            a, b = (rv, kv) if side == "L" else (kv, rv)
                            want = {"<=": a - b, "<": a - b, "==": a - b, ">=": b - a, ">": b - a}[on]
                            got = eval_e(res.expression, V, F)
                            ok = (got == want or (on == "==" and got == -want)) and (res.equality_or_inequality == "equality") == (on == "==")
                        elif rname == "Point":
                            want = {"*": [kv * x for x in rv], "/": [x / kv for x in rv]}.get(on)
                            ok = want is not None and (side == "L" or on == "*") and all(abs(float(g - w)) < 1e-12 for g, w in zip(eval_p(res, V), want))
                        else:
                            a, b = (rv, kv) if side == "L" else (kv, rv)
                            want = {"+": a + b, "-": a - b, "*": a * b, "/": (a / b if side == "L" else None)}.get(on)
                            ok = want is not None and abs(float(eval_e(res, V, F) - want)) < 1e-12
                        if ok and not isinstance(res, Constraint) and on != "**":
                            # the object obtained keeps its meaning under further arithmetic at other magnitudes: times 2^32 (in two
                            # steps), times 1 + 2^-30, divided by 2^20
                            ev = (lambda o_: eval_p(o_, V)) if rname == "Point" else (lambda o_: [eval_e(o_, V, F)])
                            base = ev(res)
                            for fn_, fac in ((lambda o_: (o_ * 65536) * 65536, Fr(2 ** 32)), (lambda o_: o_ * (1 + 2.0 ** -30), 1 + Fr(1, 2 ** 30)), (lambda o_: o_ / 1048576, Fr(1, 2 ** 20))):
                                got2 = ev(fn_(res))
                                if any(abs(float(g - fac * b)) > 1e-12 * max(1.0, abs(float(fac * b))) for g, b in zip(got2, base)): ok = False
                    except Exception as ex:
                        ok = False
                    if not ok:
                        fails.append(dict(what="%s %s %s (%s operand) returns an object of another meaning" % (rname, on, kn, side),
                                          oracle="c06_kinds", input=dict(receiver=rname, op=on, operand=kn, side=side), tags=["c06", "kinds:%s%s%s" % (rname, on, kn)]))
    return dict(evaluations=cells, distinct=cells, failures=fails[:5], samples=[dict(receiver="Point", op="**", operand="Expression", expected="raises")], exhaustive=True)


# ------------------------------------------------------------------ C05
def rand_expression(rnd, P, E):
    """an Expression with repeated / mirrored / diagonal keys, constants, zero coefficients"""
    e = None
    for _ in range(rnd.randint(1, 6)):
        r = rnd.random(); c = float(rnd.choice(SC))
        if rnd.random() < .12: c = float(rnd.choice([Fr(1, 2 ** 30), Fr(-1, 2 ** 40), Fr(2 ** 20), Fr(3, 2 ** 34)]))     # magnitudes a tolerance-based clean-up would erase
        if r < .5:
            a, b = rnd.choice(P), rnd.choice(P); t = c * (a * b)
        elif r < .7:
            t = c * rnd.choice(E)
        elif r < .8:
            a = rnd.choice(P); t = c * a ** 2
        else:
            t = None; const = c
        if t is None: e = (e + const) if e is not None else (rnd.choice(E) * 0 + const)
        else: e = t if e is None else (e + t if rnd.random() < .7 else e - t)
    return e


def c05_translators(n, seed, procs):
    """dense and sparse matrix data of random expressions must denote the expression: evaluated at
    random integer symmetric G and F, both must equal the direct evaluation of the decomposition"""
    from PEPit import Point, Expression
    from PEPit.tools.expressions_to_matrices import expression_to_matrices, expression_to_sparse_matrices
    fails, samples, distinct = [], [], set()
    for it in range(n):
        rnd = random.Random(seed * 104729 + it)
        fresh()
        P = [Point() for _ in range(rnd.randint(1, 4))]; E = [Expression() for _ in range(rnd.randint(1, 3))]
        if rnd.random() < .3: P.append(rnd.choice(P) * 2.0 - rnd.choice(P))       # composite points widen the key patterns
        e = rand_expression(rnd, P, E)
        if rnd.random() < .1: e = rnd.choice(E)                                   # leaf expression shortcut
        npt, ne = Point.counter, Expression.counter
        A = [[rnd.randint(-3, 3) for _ in range(npt)] for _ in range(npt)]
        G = [[Fr(A[i][j] + A[j][i]) for j in range(npt)] for i in range(npt)]
        Fv = [Fr(rnd.randint(-4, 4)) for _ in range(ne)]
        # per key (unordered pair of points / leaf expression / constant): the weight the expression gives it, exactly; floating
        # point may round when several addends of very different magnitude land on one key (tolerance relative to the addends
        # of THAT key only, so that an isolated tiny coefficient may never disappear)
        wantk, addk = {}, {}
        def put(k, c):
            wantk[k] = wantk.get(k, Fr(0)) + Fr(c); addk[k] = addk.get(k, Fr(0)) + abs(Fr(c))
        if e.get_is_leaf(): put(("f", e.counter), 1)
        else:
            for k, c in e.decomposition_dict.items():
                if isinstance(k, Expression): put(("f", k.counter), c)
                elif isinstance(k, tuple): put(("g",) + tuple(sorted((k[0].counter, k[1].counter))), c)
                else: put(("one",), c)
        def value(wk):
            t = Fr(0)
            for k, c in wk.items():
                t += c * (Fv[k[1]] if k[0] == "f" else G[k[1]][k[2]] if k[0] == "g" else 1)
            return t
        want = value(wantk)
        Gw, Fw, cons = expression_to_matrices(e)
        densek = {}
        for i in range(npt):
            for j in range(i, npt):
                c = Fr(float(Gw[i, j])) + (Fr(float(Gw[j, i])) if j != i else 0)
                if c != 0 or ("g", i, j) in wantk: densek[("g", i, j)] = c
        for i in range(ne):
            if Fw[i] != 0 or ("f", i) in wantk: densek[("f", i)] = Fr(float(Fw[i]))
        if cons != 0 or ("one",) in wantk: densek[("one",)] = Fr(float(cons))
        Ai, Aj, Av, ai, av, alpha = expression_to_sparse_matrices(e)
        sparsek = {}
        for i, j, v in zip(Ai, Aj, Av):
            i, j = int(i), int(j); k = ("g", min(i, j), max(i, j))
            sparsek[k] = sparsek.get(k, Fr(0)) + Fr(float(v)) * (1 if i == j else 2)
        for i, v in zip(ai, av): sparsek[("f", int(i))] = sparsek.get(("f", int(i)), Fr(0)) + Fr(float(v))
        if alpha != 0 or ("one",) in wantk: sparsek[("one",)] = Fr(float(alpha))
        def agree(gotk):
            for k in set(gotk) | set(wantk):
                if abs(gotk.get(k, Fr(0)) - wantk.get(k, Fr(0))) > Fr(1, 2 ** 49) * addk.get(k, Fr(0)): return False
            return True
        dense = value(densek) if not agree(densek) else want
        sparse = value(sparsek) if not agree(sparsek) else want
        lower_ok = all(int(i) >= int(j) for i, j in zip(Ai, Aj)); dup_ok = len({(int(i), int(j)) for i, j in zip(Ai, Aj)}) == len(Ai)
        sym_ok = bool(np.array_equal(Gw, Gw.T))
        key = str(sorted((str(k) if not isinstance(k, tuple) else "ip" + str((k[0].counter, k[1].counter)) if False else type(k).__name__) for k in (e.decomposition_dict or {})))
        distinct.add((len(e.decomposition_dict or {}), key, npt))
        desc = dict(seed=seed, it=it, expr={str(k): v for k, v in edict(e).items()} if not e.get_is_leaf() else "leaf", G=[[str(x) for x in r] for r in G], F=[str(x) for x in Fv])
        if dense != want or not sym_ok:
            fails.append(dict(what="dense matrices denote %s, expression denotes %s (symmetric=%s)" % (dense, want, sym_ok), oracle="c05_translators", input=desc, observed=str(dense), expected=str(want), tags=["c05"]))
        if sparse != want or not lower_ok or not dup_ok:
            fails.append(dict(what="sparse triplets denote %s, expression denotes %s (lower=%s, nodup=%s)" % (sparse, want, lower_ok, dup_ok), oracle="c05_translators", input=desc, observed=str(sparse), expected=str(want), tags=["c05"]))
        if it < 2: samples.append(desc["expr"])
        if len(fails) > 5: break
    return dict(evaluations=n, distinct=len(distinct), failures=fails[:5], samples=samples)


# ------------------------------------------------------------------ C07
def c07_fuzz(n, seed, procs):
    """random call sequences on leaf and composite functions (zero and cancelling weights, explicit
    zero multiples of points): one value per point, one gradient per point for differentiable
    functions, composite triplets = weighted sums of term triplets, stationary points have zero gradient"""
    from PEPit import PEP, Point
    from PEPit.functions import ConvexFunction, SmoothConvexFunction
    fails, samples, distinct, known_fails = [], [], set(), []
    def key(x): return tuple(sorted(pdict(x).items()))
    def addd(a, b, w):
        out = dict(a)
        for k, v in b.items(): out[k] = out.get(k, 0) + w * v
        return {k: v for k, v in out.items() if v != 0}
    def close(a, b): return all(abs(float(a.get(k, 0)) - float(b.get(k, 0))) < 1e-9 for k in set(a) | set(b))
    for it in range(n):
        rnd = random.Random(seed * 15485863 + it)
        pep = PEP()
        funcs = []
        expected = []       # the weights over leaf functions each function object should denote, computed independently
        for i in range(rnd.randint(2, 3)):
            funcs.append(pep.declare_function(ConvexFunction) if rnd.random() < .5 else pep.declare_function(SmoothConvexFunction, L=1.))
            expected.append({i: Fr(1)})
        def comb(wa, ia, wb, ib):
            out = {}
            for w_, i_ in ((wa, ia), (wb, ib)):
                for k_, v_ in expected[i_].items(): out[k_] = out.get(k_, 0) + Fr(w_) * v_
            return out
        pts = [pep.set_initial_point() for _ in range(2)]
        W = [1, 2, -1, .5, 4, -2, 0]
        log = []
        for step in range(rnd.randint(4, 14)):
            r = rnd.random()
            if r < .25:
                a, b = rnd.choice(funcs), rnd.choice(funcs); wa, wb = rnd.choice(W), rnd.choice(W)
                if rnd.random() < .3:      # written directly, operands possibly identical leaves: f + f, f - f, f + g
                    sub = rnd.random() < .3; b = rnd.choice([a, b])
                    expected.append(comb(1, funcs.index(a), -1 if sub else 1, funcs.index(b)))
                    funcs.append(a - b if sub else a + b); log.append("f%d=f%d%sf%d" % (len(funcs) - 1, funcs.index(a), "-" if sub else "+", funcs.index(b)))
                else:
                    expected.append(comb(wa, funcs.index(a), wb, funcs.index(b)))
                    funcs.append(wa * a + wb * b); log.append("f%d=%s*f%d+%s*f%d" % (len(funcs) - 1, wa, funcs.index(a), wb, funcs.index(b)))
            elif r < .35:
                a, b = rnd.choice(pts), rnd.choice(pts); w = rnd.choice([1, -1, .5, 2, 0])
                pts.append(a * rnd.choice([1, 0]) + w * b if rnd.random() < .7 else w * b); log.append("pt")
            elif r < .6:
                f = rnd.choice(funcs); x = rnd.choice(pts); g, v = f.oracle(x); pts.append(g); log.append("oracle f%d p%d" % (funcs.index(f), pts.index(x)))
            elif r < .75:
                f = rnd.choice(funcs); x = rnd.choice(pts); pts.append(f.gradient(x)); log.append("grad f%d p%d" % (funcs.index(f), pts.index(x)))
            elif r < .9:
                f = rnd.choice(funcs); x = rnd.choice(pts); f.value(x); log.append("value f%d p%d" % (funcs.index(f), pts.index(x)))
            elif r < .95:
                f = rnd.choice(funcs); pts.append(f.stationary_point()); log.append("stat f%d" % funcs.index(f))
            else:
                f = rnd.choice(funcs); x, _, _ = f.fixed_point(); pts.append(x); log.append("fixed f%d" % funcs.index(f))
        distinct.add(tuple(log))
        errs = []; zero_fails = []
        for fi, f in enumerate(funcs):
            seen = {}
            for (x, g, v) in f.list_of_points:
                k = key(x); ev = edict(v)
                if k in seen and not close(seen[k], ev): errs.append("two values at one point for f%d" % fi)
                seen.setdefault(k, ev)
            if f.reuse_gradient:
                ks = [key(x) for (x, g, v) in f.list_of_points]
                if len(ks) != len(set(ks)): errs.append("differentiable f%d recorded twice at one point" % fi)
            for (x, g, v) in f.list_of_stationary_points:
                if pdict(g): errs.append("stationary point of f%d with non-zero gradient" % fi)
            if f.get_is_leaf(): continue
            dec = {t: Fr(w) for t, w in f.decomposition_dict.items() if w != 0}
            got = {funcs.index(t): w for t, w in dec.items()}; want = {k_: v_ for k_, v_ in expected[fi].items() if v_ != 0}
            if got != want: errs.append("f%d denotes the weights %s over the leaf functions, it was written as %s" % (fi, {k_: str(v_) for k_, v_ in got.items()}, {k_: str(v_) for k_, v_ in want.items()}))
            if not dec:
                # the zero function: the weighted sum of no samples is (0, 0); stationary_point() / fixed_point() record a free
                # value leaf (and g = x) instead: known finding KF-C07-zero-function-point
                for (x, g, v) in f.list_of_points:
                    if pdict(g) or edict(v):
                        zero_fails.append("triplet recorded on the zero function f%d is not the (empty) sum of its terms' triplets" % fi); break
                continue
            for (x, g, v) in f.list_of_points:
                cands = [(w, [(pdict(gg), edict(vv)) for (xx, gg, vv) in t.list_of_points if key(xx) == key(x)]) for t, w in dec.items()]
                if any(len(c) == 0 for _, c in cands): errs.append("term of composite f%d not evaluated at a recorded point" % fi); continue
                if math.prod(len(c) for _, c in cands) > 4000: continue
                ok = False
                for combo in itertools.product(*[c for _, c in cands]):
                    G, Vv = {}, {}
                    for (w, _), (gd, vd) in zip(cands, combo): G = addd(G, gd, w); Vv = addd(Vv, vd, w)
                    if close(G, pdict(g)) and close(Vv, edict(v)): ok = True; break
                if not ok: errs.append("triplet of composite f%d is not the weighted sum of its terms' triplets" % fi)
        for e in errs[:1]:
            fails.append(dict(what=e, oracle="c07_fuzz", input=dict(seed=seed, it=it, calls=log), tags=["c07"]))
        if not errs and not known_fails:
            for e in zero_fails[:1]:
                known_fails.append(dict(what=e, oracle="c07_fuzz", input=dict(seed=seed, it=it, calls=log), tags=["c07", "c07-zero-function-point"]))
        if it < 2: samples.append(log)
        if len(fails) > 5: break
    return dict(evaluations=n, distinct=len(distinct), failures=fails[:5] + known_fails[:1], samples=samples)


# ------------------------------------------------------------------ dispatcher
def _unknown_first(fails):
    """failures that carry the tag of an open known finding go last, so that they never crowd out a new one"""
    try:
        kf = json.load(open(os.path.join(os.path.dirname(os.path.dirname(os.path.abspath(__file__))), "KNOWN_FINDINGS.json")))
        tags = {f.get("tag") for f in kf.get("findings", []) if f.get("status", "open") == "open"}
    except Exception:
        tags = set()
    return sorted(fails, key=lambda f: bool(tags & set(f.get("tags", []))))


def run_parallel(fn_name, n, seed, procs):
    """split an oracle over processes (each interpreter has its own PEPit class state)"""
    procs = max(1, min(procs, n // 20 or 1))
    if procs == 1:
        return ORACLES[fn_name](n, seed, 1)
    per = (n + procs - 1) // procs
    ps = [subprocess.Popen([sys.executable, "-W", "ignore", os.path.abspath(__file__), fn_name, str(per), str(seed * 1000 + i), "1"],
                           stdout=subprocess.PIPE, stderr=subprocess.PIPE, text=True, env=os.environ) for i in range(procs)]
    agg = dict(evaluations=0, distinct=0, failures=[], samples=[])
    for p in ps:
        out, err = p.communicate()
        got = False
        for l in out.splitlines():
            if l.startswith("@@JSON@@"):
                d = json.loads(l[8:]); got = True
                agg["evaluations"] += d["evaluations"]; agg["distinct"] += d["distinct"]; agg["failures"] += d["failures"]
                agg["samples"] = agg["samples"] or d.get("samples", [])
                for k in d:
                    if k not in agg: agg[k] = d[k]
        if not got: agg["crashed"] = (out + err)[-1500:]
    agg["failures"] = _unknown_first(agg["failures"])[:5]
    return agg


ORACLES = dict(c06_trees=c06_trees, c06_kinds=c06_kinds, c05_translators=c05_translators, c07_fuzz=c07_fuzz)
PARALLEL = {"c06_trees", "c05_translators", "c07_fuzz", "c03_members", "c04_orders", "c15_blocks", "c17_tables", "c16_unsolved"}

try:
    import oracles2
    ORACLES.update(oracles2.ORACLES); PARALLEL |= set(getattr(oracles2, "PARALLEL", ()))
except ImportError:
    oracles2 = None


if __name__ == "__main__":
    name = sys.argv[1]
    try:
        if name == "finding":
            import findings
            emit(dict(still_fails=findings.replay(sys.argv[2])))
        elif name == "programs":
            import findings
            emit(findings.programs(sys.argv[2], json.load(open(sys.argv[3]))))
        elif name == "replay":
            d = json.load(open(sys.argv[2]))
            import findings
            sys.exit(findings.rerun(d))
        else:
            n, seed, procs = int(sys.argv[2]), int(sys.argv[3]), int(sys.argv[4])
            if name in PARALLEL and procs > 1 and n >= 40:
                emit(run_parallel(name, n, seed, procs))
            else:
                emit(ORACLES[name](n, seed, procs))
    except SystemExit:
        raise
    except Exception:
        emit(dict(evaluations=0, distinct=0, failures=[], crashed=traceback.format_exc()[-2000:]))
