"""Worked-example oracles (C09, C10): real solves of the shipped examples with CLARABEL."""
import warnings; warnings.filterwarnings("ignore")
import sys, os, json, random, math, subprocess, importlib
from fractions import Fraction as Fr
import numpy as np

HERE = os.path.dirname(os.path.abspath(__file__))
DRIVER = os.environ.get("PEPV_DRIVER") or os.path.join(HERE, "..", "lean", ".lake", "build", "bin", "driver")


def _table():
    return json.load(open(os.path.join(HERE, "ref_table.json")))


def _close(a, b, rel=1e-3, ab=2e-6):
    return abs(a - b) <= rel * max(abs(a), abs(b)) + ab


def c10_examples(n, seed, procs):
    """every shipped example at its documented/suite parameter tuple: value vs the closed form it returns,
    under the claim recorded for it (tight: relative 1e-3; upper bound: not exceeded), and the closed form
    itself vs the frozen reference value"""
    from examples_run import run_many
    tab = _table()
    rnd = random.Random(seed)
    idx = list(range(len(tab)))
    if n < len(tab):
        rnd.shuffle(idx); idx = sorted(idx[:n])
    jobs = [(tab[i]["module"], tab[i]["func"], tab[i]["args"]) for i in idx]
    res = run_many(jobs, procs)
    fails, samples, distinct = [], [], set()
    for i, r in zip(idx, res):
        t = tab[i]; name = t["module"].split("examples.")[-1]
        desc = dict(example=name, args=t["args"], claim=t["claim"])
        distinct.add(name + json.dumps(t["args"], sort_keys=True))
        if r["err"]:
            if "SolverError" in r["err"]: continue
            fails.append(dict(what="example %s raises %s" % (name, r["err"]), oracle="c10_examples", input=desc, tags=["c10"])); continue
        p, th = r["pepit"], r["theory"]
        if t["claim"] in ("tight", "tight-undocumented", "upper"):
            if th is None or not _close(th, t["baseline_theory"], rel=1e-9, ab=1e-12):
                fails.append(dict(what="closed form reported by %s is %r; the published/frozen value at this tuple is %r" % (name, th, t["baseline_theory"]),
                                  oracle="c10_examples", input=desc, observed=th, expected=t["baseline_theory"], tags=["c10"]))
                th = t["baseline_theory"]
            if p is None:
                fails.append(dict(what="example %s returns no value; closed form %r" % (name, th), oracle="c10_examples", input=desc, tags=["c10"])); continue
            if t["claim"].startswith("tight") and not _close(p, th):
                fails.append(dict(what="%s: computed %.9g differs from the tight closed form %.9g" % (name, p, th), oracle="c10_examples", input=desc, observed=p, expected=th, tags=["c10"]))
            if t["claim"] == "upper" and p > th * (1 + 1e-3) + 2e-6:
                fails.append(dict(what="%s: computed %.9g exceeds the stated upper bound %.9g" % (name, p, th), oracle="c10_examples", input=desc, observed=p, expected=th, tags=["c10"]))
        if len(samples) < 3: samples.append(dict(desc, pepit=p, closed_form=th))
    return dict(evaluations=len(idx), distinct=len(distinct), failures=fails[:6], samples=samples)


# ---- parameter samplers for the families with a Lean closed form (Model/Ref.lean); every tuple is
# ---- re-checked against the documented domain by the Lean side (`ref outside-domain` is skipped)
def _grid(rnd):
    L = rnd.choice([1.0, 2.0, 3.0, 0.5]); mu = rnd.choice([0.1, 0.25, 0.5]) * L; n = rnd.randint(1, 6)
    fam = {
        "unconstrained_convex_minimization.gradient_descent": lambda: (dict(L=L, gamma=rnd.choice([1.0, 0.5, 0.75, 0.25]) / L, n=n), ["L", "gamma", "n"]),
        "tutorials.gradient_descent_contraction": lambda: (dict(L=L, mu=mu, gamma=rnd.choice([1.0, 0.5, 1.5, 2 / (1 + mu / L), 1.9]) / L, n=rnd.randint(1, 3)), ["L", "mu", "gamma", "n"]),
        "unconstrained_convex_minimization.proximal_point": lambda: (dict(gamma=rnd.choice([0.1, 1.0, 3.0, 0.5]), n=n), ["gamma", "n"]),
        "unconstrained_convex_minimization.subgradient_method": lambda: (lambda M, k: (dict(M=M, n=k, gamma=1 / (M * math.sqrt(k + 1))), ["M", "n"]))(rnd.choice([1.0, 2.0, 0.5]), rnd.randint(1, 8)),
        "fixed_point_problems.halpern_iteration": lambda: (dict(n=rnd.randint(1, 12)), ["n"]),
        "composite_convex_minimization.proximal_gradient": lambda: (dict(L=L, mu=mu, gamma=rnd.choice([1.0, 0.5, 1.5, 1.9]) / L, n=rnd.randint(1, 3)), ["L", "mu", "gamma", "n"]),
        "unconstrained_convex_minimization.accelerated_gradient_convex": lambda: (dict(mu=0, L=L, n=rnd.randint(1, 8)), ["L", "n"]),
        "composite_convex_minimization.accelerated_proximal_gradient": lambda: (dict(mu=0, L=L, n=rnd.randint(1, 6)), ["L", "n"]),
        "unconstrained_convex_minimization.optimized_gradient": lambda: (dict(L=L, n=rnd.randint(1, 6)), ["L", "n"]),
        "unconstrained_convex_minimization.optimized_gradient_for_gradient": lambda: (dict(L=L, n=rnd.randint(1, 6)), ["L", "n"]),
        "unconstrained_convex_minimization.conjugate_gradient": lambda: (dict(L=L, n=rnd.randint(1, 4)), ["L", "n"]),
        "unconstrained_convex_minimization.gradient_exact_line_search": lambda: (dict(L=L, mu=mu, n=rnd.randint(1, 3)), ["L", "mu", "n"]),
        "unconstrained_convex_minimization.inexact_gradient_descent": lambda: (dict(L=L, mu=mu, epsilon=rnd.choice([0.1, 0.3, 0.0]), n=rnd.randint(1, 3)), ["L", "mu", "epsilon", "n"]),
        "fixed_point_problems.krasnoselskii_mann_constant_step_sizes": lambda: (lambda k: dict(n=k, gamma=rnd.choice([0.5, 0.75, 0.6] if rnd.random() < .5 else [0.5 * (1 + math.sqrt(k / (k + 1))) + 0.6 * (1 - 0.5 * (1 + math.sqrt(k / (k + 1)))), 0.99, 1.0])))(rnd.randint(1, 6)) and None or (lambda k: (dict(n=k, gamma=(rnd.choice([0.5, 0.75, 0.6]) if rnd.random() < .5 else rnd.choice([0.5 * (1 + math.sqrt(k / (k + 1))) * 0.4 + 0.6, 0.99, 1.0]))), ["gamma", "n"]))(rnd.randint(1, 6)),
        "monotone_inclusions_variational_inequalities.optimal_strongly_monotone_proximal_point": lambda: (dict(n=rnd.randint(1, 5), mu=rnd.choice([0.05, 0.23, 0.5, 1.0])), ["mu", "n"]),
        "composite_convex_minimization.bregman_proximal_point": lambda: (dict(gamma=rnd.choice([3.0, 1.0, 0.5]), n=rnd.randint(1, 6)), ["gamma", "n"]),
        "unconstrained_convex_minimization.heavy_ball_momentum_qg_convex": lambda: (dict(L=L, n=rnd.randint(1, 6)), ["L", "n"]),
        "nonconvex_optimization.gradient_descent": lambda: (dict(L=L, gamma=1 / L, n=rnd.randint(1, 6)), ["L", "n"]),
        "stochastic_and_randomized_convex_minimization.sgd": lambda: (dict(L=L, mu=mu, gamma=1 / L, v=rnd.choice([1.0, 2.0, 0.5, 3.0]), R=rnd.choice([1.0, 0.5, 2.0]), n=rnd.randint(2, 4)), ["L", "mu", "v", "R"]),
        "composite_convex_minimization.douglas_rachford_splitting_contraction": lambda: (dict(mu=mu, L=L, alpha=rnd.choice([3.0, 1.0, 0.5]), theta=1, n=rnd.randint(1, 2)), ["mu", "L", "alpha", "n"]),
    }
    return fam


def c10_refs(n, seed, procs):
    """families with an independent closed form in Lean (Model/Ref.lean): the example's computed value on a
    parameter grid inside the documented validity range (membership decided by the Lean domain predicate) vs
    the Lean closed form (relative 1e-3), and the example's own closed form vs the Lean one"""
    from examples_run import run_many
    fails, samples, distinct = [], [], set()
    cases = []
    rnd = random.Random(seed * 7727 + 5)
    names = sorted(_grid(rnd).keys())
    for it in range(n):
        name = names[(it + seed) % len(names)]
        args, order = _grid(rnd)[name]()
        cases.append((name, args, order))
    lines = ["ref %s %s" % (nm, " ".join(str(Fr(float(a[k]))) for k in order)) for nm, a, order in cases]
    out = subprocess.run([DRIVER], input="\n".join(lines) + "\n", capture_output=True, text=True).stdout.splitlines()
    jobs, keep = [], []
    for (nm, a, order), o in zip(cases, out):
        if not o.startswith("ref ") or o.split()[1] in ("outside-domain", "unknown", "arity"): continue
        ref = int(o.split()[1]) / 1e12
        mod = "PEPit.examples." + nm
        func = "wc_" + nm.split(".")[-1]
        jobs.append((mod, func, a)); keep.append((nm, a, ref))
    res = run_many(jobs, procs)
    for (nm, a, ref), r in zip(keep, res):
        desc = dict(example=nm, args=a, lean_closed_form=ref)
        distinct.add(nm + json.dumps(a, sort_keys=True))
        if r["err"]:
            if "SolverError" in r["err"]: continue
            fails.append(dict(what="example %s raises %s inside its documented range" % (nm, r["err"]), oracle="c10_refs", input=desc, tags=["c10"])); continue
        if r["pepit"] is None or not _close(r["pepit"], ref):
            fails.append(dict(what="%s: computed %r differs from the published closed form %.9g" % (nm, r["pepit"], ref), oracle="c10_refs", input=desc, observed=r["pepit"], expected=ref, tags=["c10"]))
        if r["theory"] is None or not _close(r["theory"], ref, rel=1e-6):
            fails.append(dict(what="%s: closed form returned by the example %r differs from the published one %.9g" % (nm, r["theory"], ref), oracle="c10_refs", input=desc, observed=r["theory"], expected=ref, tags=["c10"]))
        if len(samples) < 3: samples.append(dict(desc, pepit=r["pepit"]))
    return dict(evaluations=len(keep), distinct=len(distinct), failures=fails[:6], samples=samples, skipped_outside_domain=len(cases) - len(keep))


def c10_equivalent(n, seed, procs):
    """equivalent formulations (split function, redundant LMI, useless partition; tests/additional_complexified_examples_tests)
    give the value of the plain example"""
    from examples_run import run_many
    sys.path.insert(0, os.environ.get("PEPIT_REPO", "/repo"))
    pairs = [
        ("tests.additional_complexified_examples_tests.proximal_point", "wc_proximal_point_complexified", "PEPit.examples.unconstrained_convex_minimization.proximal_point", "wc_proximal_point", dict(gamma=1.5, n=3)),
        ("tests.additional_complexified_examples_tests.proximal_point_LMI", "wc_proximal_point_complexified3", "PEPit.examples.unconstrained_convex_minimization.proximal_point", "wc_proximal_point", dict(gamma=1.5, n=3)),
        ("tests.additional_complexified_examples_tests.proximal_point_useless_partition", "wc_proximal_point_complexified2", "PEPit.examples.unconstrained_convex_minimization.proximal_point", "wc_proximal_point", dict(gamma=1.5, n=3)),
        ("tests.additional_complexified_examples_tests.proximal_gradient", "wc_proximal_gradient_complexified", "PEPit.examples.composite_convex_minimization.proximal_gradient", "wc_proximal_gradient", dict(L=1, mu=.1, gamma=1, n=2)),
        ("tests.additional_complexified_examples_tests.proximal_gradient_useless_partition", "wc_proximal_gradient_complexified2", "PEPit.examples.composite_convex_minimization.proximal_gradient", "wc_proximal_gradient", dict(L=1, mu=.1, gamma=1, n=2)),
        ("tests.additional_complexified_examples_tests.gradient_exact_line_search", "wc_gradient_exact_line_search_complexified", "PEPit.examples.unconstrained_convex_minimization.gradient_exact_line_search", "wc_gradient_exact_line_search", dict(L=3, mu=.1, n=1)),
        ("tests.additional_complexified_examples_tests.gradient_descent_useless_blocks", "wc_gradient_descent_useless_blocks", "PEPit.examples.unconstrained_convex_minimization.gradient_descent", "wc_gradient_descent", dict(L=1, gamma=1.0, n=3)),
        # formulations of our own (harness/equiv_forms.py): the initial condition as an LMI with constant entries on the PEP / on the
        # function, as a function-level constraint, registered twice; the metric through an epigraph variable
        ("equiv_forms", "wc_proximal_point_lmi_on_function", "PEPit.examples.unconstrained_convex_minimization.proximal_point", "wc_proximal_point", dict(gamma=1.5, n=3)),
        ("equiv_forms", "wc_proximal_point_lmi_on_pep", "PEPit.examples.unconstrained_convex_minimization.proximal_point", "wc_proximal_point", dict(gamma=2.5, n=2)),
        ("equiv_forms", "wc_proximal_point_condition_on_function", "PEPit.examples.unconstrained_convex_minimization.proximal_point", "wc_proximal_point", dict(gamma=1.0, n=3)),
        ("equiv_forms", "wc_proximal_point_condition_twice", "PEPit.examples.unconstrained_convex_minimization.proximal_point", "wc_proximal_point", dict(gamma=0.7, n=4)),
        ("equiv_forms", "wc_proximal_point_lmi_asymmetric_upper", "PEPit.examples.unconstrained_convex_minimization.proximal_point", "wc_proximal_point", dict(gamma=1.25, n=2)),
        ("equiv_forms", "wc_proximal_point_lmi_asymmetric_lower", "PEPit.examples.unconstrained_convex_minimization.proximal_point", "wc_proximal_point", dict(gamma=0.8, n=3)),
        ("equiv_forms", "wc_gradient_descent_epigraph", "PEPit.examples.unconstrained_convex_minimization.gradient_descent", "wc_gradient_descent", dict(L=2, gamma=0.5, n=3)),
    ]
    rnd = random.Random(seed)
    jobs = []
    for (m1, f1, m2, f2, a) in pairs:
        a = dict(a)
        if "n" in a: a["n"] = max(1, a["n"] + rnd.choice([0, 0, 1, -1]))
        jobs += [(m1, f1, a), (m2, f2, a)]
    res = run_many(jobs, procs)
    fails, samples = [], []
    for k, (m1, f1, m2, f2, a) in enumerate(pairs):
        r1, r2 = res[2 * k], res[2 * k + 1]
        desc = dict(variant=(f1 if m1 == "equiv_forms" else m1.split(".")[-1]), plain=m2.split(".")[-1], args=jobs[2 * k][2])
        if r1["err"] or r2["err"]:
            if r1["err"] and "TypeError" in r1["err"] and "argument" in r1["err"]: continue   # signature differs: not comparable
            if "SolverError" in (r1["err"] or "") + (r2["err"] or ""): continue
            fails.append(dict(what="equivalent formulation %s raises %s" % (desc["variant"], r1["err"] or r2["err"]), oracle="c10_equivalent", input=desc, tags=["c10"])); continue
        if r1["pepit"] is None or r2["pepit"] is None or not _close(r1["pepit"], r2["pepit"]):
            fails.append(dict(what="equivalent formulation %s gives %r, plain example %r" % (desc["variant"], r1["pepit"], r2["pepit"]), oracle="c10_equivalent", input=desc, tags=["c10"]))
        if len(samples) < 3: samples.append(dict(desc, variant_value=r1["pepit"], plain_value=r2["pepit"]))
    return dict(evaluations=len(pairs), distinct=len(pairs), failures=fails[:5], samples=samples)


def _sweep_job(job):
    """several parameter tuples of one example, one after the other in ONE interpreter"""
    from examples_run import run_example
    mod, func, tuples = job
    return [run_example(mod, func, a) for a in tuples]


def c10_sweeps(n, seed, procs):
    """parameter sweeps the way a user runs them: several tuples of the same example in one interpreter,
    in two different orders; every value must equal the Lean closed form whatever was computed before"""
    from multiprocessing import Pool
    rnd = random.Random(seed * 5003 + 3)
    names = sorted(_grid(rnd).keys())
    jobs, metas = [], []
    for it in range(n):
        name = names[(it + seed) % len(names)]
        tuples = []
        for _ in range(3):
            a, order = _grid(rnd)[name]()
            tuples.append((a, order))
        if rnd.random() < .5: tuples = tuples[::-1]
        jobs.append(("PEPit.examples." + name, "wc_" + name.split(".")[-1], [a for a, _ in tuples])); metas.append((name, tuples))
    lines = ["ref %s %s" % (nm, " ".join(str(Fr(float(a[k]))) for k in order)) for nm, tuples in metas for a, order in tuples]
    out = subprocess.run([DRIVER], input="\n".join(lines) + "\n", capture_output=True, text=True).stdout.splitlines()
    with Pool(max(1, procs)) as p:
        res = p.map(_sweep_job, jobs, chunksize=1)
    fails, samples, distinct, k, ev = [], [], set(), 0, 0
    for (nm, tuples), rr in zip(metas, res):
        for (a, order), r in zip(tuples, rr):
            o = out[k]; k += 1
            if not o.startswith("ref ") or o.split()[1] in ("outside-domain", "unknown", "arity"): continue
            ref = int(o.split()[1]) / 1e12; ev += 1
            desc = dict(example=nm, args=a, sweep=[t for t, _ in tuples], lean_closed_form=ref)
            distinct.add(nm + json.dumps([t for t, _ in tuples], sort_keys=True))
            if r["err"]:
                if "SolverError" in r["err"]: continue
                fails.append(dict(what="%s raises %s during a sweep" % (nm, r["err"]), oracle="c10_sweeps", input=desc, tags=["c10"])); continue
            if r["pepit"] is None or not _close(r["pepit"], ref):
                fails.append(dict(what="%s: inside a parameter sweep the computed value is %r, the published closed form %.9g" % (nm, r["pepit"], ref), oracle="c10_sweeps", input=desc, observed=r["pepit"], expected=ref, tags=["c10"]))
            if r["theory"] is None or not _close(r["theory"], ref, rel=1e-6):
                fails.append(dict(what="%s: closed form returned inside a sweep %r differs from the published one %.9g" % (nm, r["theory"], ref), oracle="c10_sweeps", input=desc, tags=["c10"]))
        if len(samples) < 2: samples.append(dict(example=nm, sweep=[t for t, _ in tuples]))
    return dict(evaluations=ev, distinct=len(distinct), failures=fails[:6], samples=samples)


def c10_neighbours(n, seed, procs):
    """every shipped example away from its suite tuple: other iteration counts (even, odd, not a power of two) and
    scaled parameters, frozen from the pinned tree in ref_neighbours.json with the claim observed there; the computed
    value must still be (tight:) the closed form the example returns / (upper:) not above it, and that closed form
    must be the frozen one"""
    from examples_run import run_many
    path = os.path.join(HERE, "ref_neighbours.json")
    if not os.path.exists(path): return dict(evaluations=0, distinct=0, failures=[], samples=[])
    tab = json.load(open(path))
    far = os.path.join(HERE, "ref_far.json")          # tuples FAR from the suite's (mk_neighbours.py far): other regimes of the closed forms, L != 1, many iterations
    if os.path.exists(far): tab = tab + json.load(open(far))
    edge = os.path.join(HERE, "ref_edge.json")        # tuples at the boundary of the ranges (mk_neighbours.py edge): n = 0, 1, 2 and mu = 0
    if os.path.exists(edge): tab = tab + json.load(open(edge))
    rnd = random.Random(seed * 911 + 7)
    idx = list(range(len(tab)))
    if n < len(tab):
        idx = [i for i in idx if tab[i].get("seconds", 0) <= 30]          # the slowest tuples (16 iterations of the large examples) are left to the thorough tier
        # stratified: every example module first, cheapest tuples first inside a module
        by = {}
        for i in idx: by.setdefault(tab[i]["module"], []).append(i)
        mods = sorted(by); rnd.shuffle(mods)
        idx = []
        k = 0
        while len(idx) < n and any(by.values()):
            m = mods[k % len(mods)]; k += 1
            if by[m]: idx.append(by[m].pop(rnd.randrange(len(by[m]))))
        idx = sorted(idx)
    jobs = [(tab[i]["module"], tab[i]["func"], tab[i]["args"]) for i in idx]
    res = run_many(jobs, procs)
    fails, samples, distinct = [], [], set()
    for i, r in zip(idx, res):
        t = tab[i]; name = t["module"].split("examples.")[-1]
        desc = dict(example=name, args=t["args"], claim=t["claim"])
        distinct.add(name + json.dumps(t["args"], sort_keys=True))
        if r["err"]:
            if "SolverError" in r["err"]: continue
            fails.append(dict(what="example %s raises %s at a tuple it accepted on the pinned tree" % (name, r["err"]), oracle="c10_neighbours", input=desc, tags=["c10"])); continue
        p, th = r["pepit"], r["theory"]
        if th is None or not _close(th, t["baseline_theory"], rel=1e-9, ab=1e-12):
            fails.append(dict(what="closed form reported by %s is %r; the published/frozen value at this tuple is %r" % (name, th, t["baseline_theory"]),
                              oracle="c10_neighbours", input=desc, observed=th, expected=t["baseline_theory"], tags=["c10"]))
            th = t["baseline_theory"]
        if p is None:
            fails.append(dict(what="example %s returns no value; closed form %r" % (name, th), oracle="c10_neighbours", input=desc, tags=["c10"])); continue
        if t["claim"] == "tight" and not _close(p, th, rel=2e-3, ab=4e-6):
            fails.append(dict(what="%s: computed %.9g differs from the tight closed form %.9g" % (name, p, th), oracle="c10_neighbours", input=desc, observed=p, expected=th, tags=["c10"]))
        if t["claim"] == "upper" and p > th * (1 + 2e-3) + 4e-6:
            fails.append(dict(what="%s: computed %.9g exceeds the stated upper bound %.9g" % (name, p, th), oracle="c10_neighbours", input=desc, observed=p, expected=th, tags=["c10"]))
        if len(samples) < 3: samples.append(dict(desc, pepit=p, closed_form=th))
    return dict(evaluations=len(idx), distinct=len(distinct), failures=fails[:6], samples=samples)


ORACLES = dict(c10_examples=c10_examples, c10_refs=c10_refs, c10_equivalent=c10_equivalent, c10_sweeps=c10_sweeps, c10_neighbours=c10_neighbours)
try:
    import oracles5
    ORACLES.update(oracles5.ORACLES)
except ImportError:
    pass
