"""./check Cxx [--tier quick|thorough] [--replay path]

Decides one property: translate (Gen files from /repo) -> lake build -> audit (#print axioms,
forbidden-token grep) -> correspondence streams (model vs implementation) -> known findings ->
(only when something broke) search for a concrete failing input on the implementation ->
evidence.  Exit 0: property held on everything explored; exit 1 + VIOLATION line: violation;
exit 2: infrastructure problem / time-out (never reported as a violation)."""
import sys, os, json, time, argparse, subprocess, traceback, concurrent.futures as cf
sys.path.insert(0, os.path.dirname(os.path.abspath(__file__)))
import vlib
from vlib import VERIF, HARNESS, LEAN, PY, REPO


def run_chunk(args):
    """one chunk of a correspondence stream in its own interpreter"""
    script, which, n, seed0, env_extra = args
    env = vlib.env_for_repo([os.path.join(HARNESS, "stubs")] if env_extra.get("STUBS") else [])
    env.update({k: v for k, v in env_extra.items() if k != "STUBS"})
    try:
        r = subprocess.run([PY, "-W", "ignore", os.path.join(HARNESS, script), "json", which, str(n), str(seed0)],
                           capture_output=True, text=True, env=env, timeout=3000)
    except subprocess.TimeoutExpired:
        return dict(stream=which, crashed="timeout", programs=0, seed0=seed0)
    for l in r.stdout.splitlines():
        if l.startswith("@@JSON@@"):
            return json.loads(l[8:])
    return dict(stream=which, crashed=(r.stdout + r.stderr)[-2000:], programs=0, seed0=seed0)


def run_stream(spec, tier, seed, procs):
    """spec: dict(name, script, which, quick, thorough, env)"""
    n = spec[tier]
    chunks = max(1, min(procs, n // 25 or 1))
    per = (n + chunks - 1) // chunks
    base = seed * 100003 + spec.get("offset", 0)
    jobs = [(spec.get("script", "corr_world.py"), spec["which"], min(per, n - i * per), base + i * per, spec.get("env", {}))
            for i in range(chunks) if n - i * per > 0]
    with cf.ThreadPoolExecutor(max_workers=procs) as ex:
        reps = list(ex.map(run_chunk, jobs))
    agg = dict(name=spec["name"], programs=0, lines=0, bit_exact=0, mismatching_lines=0, bad=[], hashes=set(),
               ops={}, errors={}, crashed=[], sample=None)
    for r in reps:
        if r.get("crashed"):
            agg["crashed"].append(r["crashed"]); continue
        agg["programs"] += r["programs"]; agg["lines"] += r["lines"]; agg["bit_exact"] += r["bit_exact"]
        agg["mismatching_lines"] += r["mismatching_lines"]; agg["bad"] += r["bad"]; agg["hashes"] |= set(r["hashes"])
        for k, v in r["ops"].items(): agg["ops"][k] = agg["ops"].get(k, 0) + v
        for k, v in r["errors"].items(): agg["errors"][k] = agg["errors"].get(k, 0) + v
        for k, v in (r.get("distribution") or {}).items():
            d_ = agg.setdefault("distribution", {})
            d_[k] = max(d_.get(k, 0), v) if k.endswith(("_max", "_lines")) else d_.get(k, 0) + v
        if agg["sample"] is None: agg["sample"] = r["sample"]
    agg["distinct"] = len(agg["hashes"]); del agg["hashes"]
    return agg


def main():
    ap = argparse.ArgumentParser()
    ap.add_argument("pid")
    ap.add_argument("--tier", default=os.environ.get("VERIF_TIER", "quick"), choices=["quick", "thorough"])
    ap.add_argument("--replay", default=None)
    a = ap.parse_args()
    pid, tier = a.pid, a.tier
    seed = int(os.environ.get("VERIF_SEED", "0") or 0)
    procs = int(os.environ.get("VERIF_PROCS", "0") or 0) or min(16, os.cpu_count() or 4)
    import propdefs
    if pid not in propdefs.PROPS:
        print("unknown property", pid); sys.exit(2)
    P = propdefs.PROPS[pid]
    if a.replay:
        sys.exit(propdefs.replay(pid, a.replay))
    t0 = time.time()
    broken = []        # (kind, name, detail)   kind in translate|build|audit|stream|numeric
    notes = []
    # ---------------- 1/2 translate + build (serialised across concurrently running checks)
    with vlib.Lock():
        ok, msg, changed = vlib.translate()
        if not ok:
            broken.append(("translate", "translators T1/T2", msg[-1500:]))
        if changed:
            notes.append("regenerated: " + ", ".join(changed))
        targets = list(P["lean_targets"]) + ["driver"]
        bok, log, bt = vlib.lake_build(targets)
        if bok is None:
            print("INFRA: lake build timed out"); sys.exit(2)
        if not bok:
            errs = vlib.first_errors(log)
            broken.append(("build", ", ".join(vlib.failed_modules(log)) or "lake build", "\n".join(errs)))
            # the driver may still be buildable even when a proof is not: streams need it
            d_ok, dlog, _ = vlib.lake_build(["driver"])
            driver_ok = bool(d_ok)
        else:
            driver_ok = True
    # ---------------- 3 audit
    forbidden = vlib.grep_forbidden()
    if forbidden:
        broken.append(("audit", "forbidden tokens", "\n".join(forbidden[:10])))
    audit_res = {}
    if bok:
        audit_res, _ = vlib.audit(pid, P["audit_imports"], P["theorems"])
        for t, (tok, info) in audit_res.items():
            if not tok:
                broken.append(("audit", t, str(info)[:600]))
    obligations = len(P["theorems"])
    discharged = sum(1 for t in P["theorems"] if audit_res.get(t, (False,))[0])
    if tier == "thorough" and bok and P.get("leanchecker", True):
        r = subprocess.run(["lake", "env", "leanchecker"] + P["lean_targets"], cwd=LEAN, capture_output=True, text=True, timeout=3000)
        if r.returncode != 0:
            broken.append(("audit", "leanchecker", (r.stdout + r.stderr)[-800:]))
        else:
            notes.append("leanchecker re-checked %s" % ", ".join(P["lean_targets"]))
    # ---------------- 4 correspondence streams and direct oracles
    streams = []
    if driver_ok:
        for spec in P.get("streams", []):
            agg = run_stream(spec, tier, seed, procs)
            streams.append(agg)
            if agg["crashed"]:
                broken.append(("stream", spec["name"], "harness crashed: " + str(agg["crashed"][0])[-800:]))
            if agg["mismatching_lines"]:
                b = agg["bad"][0]
                broken.append(("stream", spec["name"], "seed %s line `%s`\n impl : %s\n model: %s" % (b["seed"], b["line"], b["impl"][:500], b["model"][:500])))
    else:
        broken.append(("build", "driver", "model does not compile: correspondence streams not run"))
    direct = []
    violations = []    # confirmed failing inputs on the implementation: dict(what, replay payload)
    for fn in P.get("direct", []):
        try:
            res = fn(tier, seed, procs)
        except Exception:
            res = dict(name=getattr(fn, "__name__", "direct"), evaluations=0, distinct=0, failures=[], crashed=traceback.format_exc()[-1500:])
        direct.append(res)
        if res.get("crashed"):
            broken.append(("numeric", res["name"], res["crashed"]))
        for f in res.get("failures", []):
            violations.append(f)
    # ---------------- 5 known findings
    known = vlib.known_findings(pid)
    kf_lines = []
    for k in known:
        if k["status"] != "open":
            continue
        try:
            still = propdefs.replay_finding(k)
        except Exception:
            still = None; notes.append("known finding %s: replay crashed: %s" % (k["id"], traceback.format_exc()[-300:]))
        if still:
            kf_lines.append("KNOWN-FINDING: property=%s %s [%s]" % (pid, k["what_fails"], k["id"]))
        elif still is False:
            notes.append("known finding %s no longer reproduces" % k["id"])
    # violations that match a known finding's predicate are not new
    allknown = [k for p_ in propdefs.PROPS for k in vlib.known_findings(p_)]
    new_violations = [v for v in violations if not propdefs.covered_by_known(v, allknown)]
    # ---------------- 6 decision
    rc = 0
    out_lines = list(kf_lines)
    if new_violations:
        for v in new_violations[:3]:
            p = vlib.write_replay(pid, seed, tier, "failing-input", v)
            out_lines.append("VIOLATION property=%s replay=%s" % (pid, p))
        rc = 1
    elif broken:
        # something no longer checks: search the implementation for a concrete failing input
        found = []
        try:
            found = propdefs.search(pid, broken, streams, tier, seed, procs) or []
        except Exception:
            notes.append("search crashed: " + traceback.format_exc()[-800:])
        found = [v for v in found if not propdefs.covered_by_known(v, allknown)]
        if found:
            for v in found[:3]:
                v = dict(v); v["broken_obligation"] = ["%s: %s" % (k, n) for k, n, _ in broken]
                p = vlib.write_replay(pid, seed, tier, "failing-input", v)
                out_lines.append("VIOLATION property=%s replay=%s" % (pid, p))
        else:
            payload = dict(broken_obligation=[dict(kind=k, name=n, detail=d) for k, n, d in broken],
                           note="a proof obligation or a correspondence no longer checks; no concrete failing input was found by the search")
            p = vlib.write_replay(pid, seed, tier, "no-failing-input-found", payload)
            out_lines.append("VIOLATION property=%s replay=%s no-failing-input-found" % (pid, p))
        rc = 1
    wall = time.time() - t0
    # ---------------- 7 evidence
    evals = sum(s["programs"] for s in streams) + sum(d.get("evaluations", 0) for d in direct)
    distinct = sum(s["distinct"] for s in streams) + sum(d.get("distinct", 0) for d in direct)
    samples = []
    for s in streams:
        if s.get("sample"): samples.append(dict(stream=s["name"], program=s["sample"][:40]))
    for d in direct:
        for smp in d.get("samples", [])[:2]: samples.append(dict(oracle=d["name"], case=smp))
    samples.append(dict(obligations=P["theorems"][:12]))
    cov = dict(obligations=obligations, discharged=discharged,
               checker_cmd="cd /verif/lean && lake build %s && lake env lean ../.work/Audit_%s.lean   (#print axioms on every listed theorem)" % (" ".join(P["lean_targets"]), pid),
               trusted_base=P["trusted_base"],
               theorems={t: (audit_res.get(t, (False, "not audited"))[1]) for t in P["theorems"]},
               evaluations=evals, distinct_nontrivial=distinct,
               rule=P.get("rule", "programs generated from one PRNG seeded by VERIF_SEED; distinct = distinct program texts with more than 4 ops; non-trivial = at least one function/evaluation op"),
               samples=samples,
               streams=[{k: v for k, v in s.items() if k not in ("bad", "sample")} for s in streams],
               direct=[{k: v for k, v in d.items() if k not in ("failures", "samples")} for d in direct],
               broken=[dict(kind=k, name=n, detail=d[:400]) for k, n, d in broken],
               known_findings=[k["id"] for k in known if k["status"] == "open"],
               notes=notes, build_s=round(bt, 1))
    vlib.write_evidence(pid, tier, seed, cov, P["assumptions"], wall, len(new_violations) if rc else 0)
    for l in out_lines: print(l)
    print("%s %s tier=%s seed=%d obligations=%d/%d streams=%s direct=%s wall=%.0fs" % (
        "OK" if rc == 0 else "FAIL", pid, tier, seed, discharged, obligations,
        [(s["name"], s["programs"], s["mismatching_lines"]) for s in streams],
        [(d["name"], d.get("evaluations"), len(d.get("failures", []))) for d in direct], wall))
    sys.exit(rc)


if __name__ == "__main__":
    try:
        main()
    except subprocess.TimeoutExpired as ex:
        print("INFRA: timeout", ex); sys.exit(2)
