"""helpers shared by the oracle modules"""
import warnings; warnings.filterwarnings("ignore")
import sys, os, json, io, contextlib
from fractions import Fraction as Fr
import numpy as np

SOLVER = os.environ.get("PEPV_SOLVER", "CLARABEL")


def emit(d):
    print("@@JSON@@" + json.dumps(d, default=str)); sys.stdout.flush()


def fresh():
    from PEPit import PEP
    return PEP()


def quiet_solve(pep, **kw):
    """solve with an accurate solver; returns value or None; SolverError -> 'inconclusive'"""
    kw.setdefault("verbose", 0)
    buf = io.StringIO()
    def accurate(v):
        # PEPit passes on whatever the solver returns; a status other than "optimal" (e.g. SCS "optimal_inaccurate" after
        # max_iters on an ill-conditioned logdet problem: primal residual 24) is a failure of the SOLVER: inconclusive
        prob = getattr(getattr(pep, "wrapper", None), "prob", None)
        st = getattr(prob, "status", "optimal")
        return v if (v is None or st == "optimal") else "inconclusive"
    with contextlib.redirect_stdout(buf):
        try:
            return accurate(pep.solve(solver=SOLVER, **kw))
        except Exception as ex:
            if type(ex).__name__ in ("SolverError",):
                try:
                    return accurate(pep.solve(solver="SCS", eps=1e-8, **kw))
                except Exception:
                    return "inconclusive"
            raise


# ------------------------------------------------------------------ helpers: exact evaluation of decompositions
def pdict(p):
    return {k.counter: Fr(v) for k, v in p.decomposition_dict.items() if v != 0}


def edict(e):
    from PEPit import Expression
    d = {}
    for k, v in e.decomposition_dict.items():
        if v == 0: continue
        if isinstance(k, Expression): kk = ("f", k.counter)
        elif isinstance(k, tuple): kk = ("ip", k[0].counter, k[1].counter)
        else: kk = ("one",)
        d[kk] = d.get(kk, 0) + Fr(v)
    return d


def eval_p(p, V):
    """value of a Point under leaf vectors V[counter] (lists of Fractions)"""
    dim = len(next(iter(V.values()))) if V else 0
    out = [Fr(0)] * dim
    for k, c in p.decomposition_dict.items():
        out = [a + Fr(c) * b for a, b in zip(out, V[k.counter])]
    return out


def dot(a, b): return sum(x * y for x, y in zip(a, b))


def eval_e(e, V, F):
    from PEPit import Expression
    s = Fr(0)
    for k, c in e.decomposition_dict.items():
        if isinstance(k, Expression): s += Fr(c) * F[k.counter]
        elif isinstance(k, tuple): s += Fr(c) * dot(V[k[0].counter], V[k[1].counter])
        else: s += Fr(c)
    return s


SC = [Fr(1), Fr(2), Fr(-1), Fr(1, 2), Fr(0), Fr(-3, 2), Fr(4), Fr(1, 4), Fr(3)]
DIV = [Fr(2), Fr(-1), Fr(1, 2), Fr(4), Fr(1, 4), Fr(-2), Fr(0)]    # divisions stay exact in binary floating point


CLASSES = {  # class -> admissible parameter tuples (dyadic; the first one is the historical default).  Edge values on
    # purpose: mu = 0, beta = 0, rho = 0, mu = L where allowed, L = 1 (factors that disappear), negative mu of symmetric operators,
    # and the value 0 of a diameter / Lipschitz constant / operator norm (singleton, constant function, null operator) where no formula divides by it
    "ConvexFunction": [[]], "StronglyConvexFunction": [["1/4"], ["0"], ["1"], ["2"]], "ConvexLipschitzFunction": [["3/2"], ["1"], ["1/2"], ["4"], ["0"]],
    "ConvexIndicatorFunction": [["5/2"], ["1"], ["1/2"], ["0"]], "ConvexSupportFunction": [["3/2"], ["1"], ["4"], ["0"]], "ConvexQGFunction": [["2"], ["1"], ["1/2"]],
    "RsiEbFunction": [["1/4", "2"], ["1", "1"], ["1/2", "4"], ["0", "2"]], "SmoothConvexFunction": [["2"], ["1"], ["1/2"], ["4"]],
    "SmoothConvexLipschitzFunction": [["2", "3/2"], ["1", "1"], ["4", "1/2"]],
    "SmoothFunction": [["2"], ["1"], ["1/4"]], "SmoothStronglyConvexFunction": [["1/4", "2"], ["0", "1"], ["1/2", "4"], ["1", "2"]],
    "SmoothStronglyConvexQuadraticFunction": [["1/4", "2"], ["0", "1"], ["1", "4"], ["1/2", "1"]],
    "CocoerciveOperator": [["1/4"], ["1"], ["2"], ["0"]], "CocoerciveStronglyMonotoneOperator": [["1/4", "1/2"], ["0", "1/2"], ["1/4", "0"], ["0", "0"], ["1", "1"]],
    "LinearOperator": [["2"], ["1"], ["1/2"], ["0"]],
    "LipschitzOperator": [["2"], ["1"], ["1/4"], ["0"]], "LipschitzStronglyMonotoneOperator": [["1/4", "2"], ["0", "1"], ["1", "2"], ["1", "1"]], "MonotoneOperator": [[]],
    "NegativelyComonotoneOperator": [["1/8"], ["1"], ["0"]], "NonexpansiveOperator": [[]], "SkewSymmetricLinearOperator": [["2"], ["1"], ["1/2"], ["0"]],
    "StronglyMonotoneOperator": [["1/4"], ["1"], ["0"]], "SymmetricLinearOperator": [["1/4", "2"], ["0", "1"], ["-1", "1"], ["1", "1"], ["-1/2", "2"], ["0", "0"], ["-1", "0"]],
}


def param_kwargs(cname, tup):
    """keyword arguments of a class for one tuple of CLASSES (same mapping as the line protocol)"""
    import inspect
    import PEPit.functions as PF, PEPit.operators as PO
    C = getattr(PF, cname, None) or getattr(PO, cname)
    names = [p for p in inspect.signature(C.__init__).parameters if p in ("mu", "L", "M", "D", "beta", "rho")]
    return {p: float(Fr(v)) for p, v in zip(names, tup)}


def random_params(rnd, cname):
    return param_kwargs(cname, rnd.choice(CLASSES.get(cname, [[]])))


def expr_magnitude(expr):
    """sum of |coefficient| x |value of the key| of an evaluated expression: the size of the numbers whose cancellation
    produces its value.  A residual far below 1e-6 of it is rounding of the solver on a badly scaled model, not a violation."""
    import numpy as np
    from PEPit import Expression
    if expr.get_is_leaf(): return abs(float(expr.eval()))
    tot = 0.0
    for k, c in expr.decomposition_dict.items():
        if isinstance(k, tuple): tot += abs(c) * abs(float(np.dot(k[0].eval(), k[1].eval())))
        elif isinstance(k, Expression): tot += abs(c) * abs(float(k.eval()))
        else: tot += abs(c)
    return tot


def worst_violation(pep, min_eig):
    """largest violation among the constraints and LMIs the PEP recorded as sent, evaluated at the returned instance, ignoring
    residuals below 1e-6 of the magnitudes involved in the constraint (solver rounding on badly scaled data)"""
    import numpy as np
    worst = 0.0
    for c in pep._list_of_constraints_sent_to_wrapper:
        v = float(c.expression.eval()); v = v if c.equality_or_inequality == "inequality" else abs(v)
        if v > worst and v > 1e-6 * expr_magnitude(c.expression): worst = v
    for m in pep._list_of_psd_sent_to_wrapper:
        M = np.asarray(m.eval(), dtype=float); v = -min_eig(M)
        if v > worst and v > 1e-6 * float(np.abs(M).max() if M.size else 0.0): worst = v
    return worst
