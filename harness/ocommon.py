"""helpers shared by the oracle modules"""
import warnings; warnings.filterwarnings("ignore")
import sys, os, json, io, contextlib
from fractions import Fraction as Fr
import numpy as np

SOLVER = os.environ.get("PEPV_SOLVER", "CLARABEL")


def emit(d):
    print("@@JSON@@" + json.dumps(d, default=str)); sys.stdout.flush()


def fresh():
    from PEPit import PEP
    return PEP()


def quiet_solve(pep, **kw):
    """solve with an accurate solver; returns value or None; SolverError -> 'inconclusive'"""
    kw.setdefault("verbose", 0)
    buf = io.StringIO()
    with contextlib.redirect_stdout(buf):
        try:
            return pep.solve(solver=SOLVER, **kw)
        except Exception as ex:
            if type(ex).__name__ in ("SolverError",):
                try:
                    return pep.solve(solver="SCS", eps=1e-8, **kw)
                except Exception:
                    return "inconclusive"
            raise


# ------------------------------------------------------------------ helpers: exact evaluation of decompositions
def pdict(p):
    return {k.counter: Fr(v) for k, v in p.decomposition_dict.items() if v != 0}


def edict(e):
    from PEPit import Expression
    d = {}
    for k, v in e.decomposition_dict.items():
        if v == 0: continue
        if isinstance(k, Expression): kk = ("f", k.counter)
        elif isinstance(k, tuple): kk = ("ip", k[0].counter, k[1].counter)
        else: kk = ("one",)
        d[kk] = d.get(kk, 0) + Fr(v)
    return d


def eval_p(p, V):
    """value of a Point under leaf vectors V[counter] (lists of Fractions)"""
    dim = len(next(iter(V.values()))) if V else 0
    out = [Fr(0)] * dim
    for k, c in p.decomposition_dict.items():
        out = [a + Fr(c) * b for a, b in zip(out, V[k.counter])]
    return out


def dot(a, b): return sum(x * y for x, y in zip(a, b))


def eval_e(e, V, F):
    from PEPit import Expression
    s = Fr(0)
    for k, c in e.decomposition_dict.items():
        if isinstance(k, Expression): s += Fr(c) * F[k.counter]
        elif isinstance(k, tuple): s += Fr(c) * dot(V[k[0].counter], V[k[1].counter])
        else: s += Fr(c)
    return s


SC = [Fr(1), Fr(2), Fr(-1), Fr(1, 2), Fr(0), Fr(-3, 2), Fr(4), Fr(1, 4), Fr(3)]
DIV = [Fr(2), Fr(-1), Fr(1, 2), Fr(4), Fr(1, 4), Fr(-2), Fr(0)]    # divisions stay exact in binary floating point
