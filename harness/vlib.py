"""Common machinery of the checks: translate -> build -> audit -> streams -> findings -> evidence."""
import os, sys, re, json, time, subprocess, fcntl, hashlib, shutil

VERIF = os.path.dirname(os.path.dirname(os.path.abspath(__file__)))
HARNESS = os.path.join(VERIF, "harness")
LEAN = os.path.join(VERIF, "lean")
REPO = os.environ.get("PEPIT_REPO", "/repo")
PY = "/venv/bin/python"
WORK = os.path.join(VERIF, ".work")
DRIVER = os.path.join(LEAN, ".lake", "build", "bin", "driver")
ALLOWED_AXIOMS = {"propext", "Classical.choice", "Quot.sound"}
FORBIDDEN = re.compile(r"\bsorry\b|\badmit\b|^\s*axiom\s|native_decide|bv_decide|implemented_by|\bunsafe\s|maxHeartbeats\s+0")

os.makedirs(WORK, exist_ok=True)


def env_for_repo(extra_path=()):
    e = dict(os.environ)
    e["PYTHONPATH"] = os.pathsep.join([REPO, HARNESS, os.path.join(HARNESS, "translators")] + list(extra_path))
    e["PYTHONWARNINGS"] = "ignore"
    e["PEPIT_VERIF"] = "1"
    e.setdefault("OMP_NUM_THREADS", "1")
    e.setdefault("OPENBLAS_NUM_THREADS", "1")
    return e


class Lock:
    def __enter__(self):
        self.f = open(os.path.join(VERIF, ".lock"), "w")
        fcntl.flock(self.f, fcntl.LOCK_EX)
        return self
    def __exit__(self, *a):
        fcntl.flock(self.f, fcntl.LOCK_UN); self.f.close()


def repo_head():
    try:
        h = subprocess.run(["git", "-C", REPO, "rev-parse", "HEAD"], capture_output=True, text=True).stdout.strip()
        d = subprocess.run(["git", "-C", REPO, "status", "--porcelain"], capture_output=True, text=True).stdout.strip()
        return h + ("+dirty" if d else "")
    except Exception:
        return "unknown"


# ------------------------------------------------------------------ translate
GEN_FILES = {"GenClasses.lean": "PepitModel/GenClasses.lean", "GenInventory.lean": "PepitModel/GenInventory.lean",
             "GenSteps.lean": "PepitModel/GenSteps.lean", "GenMisc.lean": "PepitModel/GenMisc.lean"}


def translate():
    """run the translators against REPO; install changed Gen files. returns (ok, message, changed)"""
    out = os.path.join(WORK, "gen.%d" % os.getpid())
    shutil.rmtree(out, ignore_errors=True); os.makedirs(out)
    r = subprocess.run([PY, os.path.join(HARNESS, "translators", "gen_all.py"), REPO, out],
                       capture_output=True, text=True, env=env_for_repo(), timeout=600)
    if r.returncode != 0:
        shutil.rmtree(out, ignore_errors=True)
        return False, "translator failed:\n" + (r.stdout + r.stderr)[-3000:], []
    changed = []
    for name, rel in GEN_FILES.items():
        src = os.path.join(out, name)
        if not os.path.exists(src):
            continue
        dst = os.path.join(LEAN, rel)
        new = open(src).read()
        old = open(dst).read() if os.path.exists(dst) else None
        if new != old:
            open(dst, "w").write(new); changed.append(rel)
    for extra in ("classes.json", "inventory.json", "steps.json", "misc.json"):
        if os.path.exists(os.path.join(out, extra)):
            shutil.copy(os.path.join(out, extra), os.path.join(WORK, extra))
    shutil.rmtree(out, ignore_errors=True)
    return True, "ok", changed


# ------------------------------------------------------------------ build
def lake_build(targets, timeout=2400):
    t0 = time.time()
    try:
        r = subprocess.run(["lake", "build"] + list(targets), cwd=LEAN, capture_output=True, text=True, timeout=timeout)
    except subprocess.TimeoutExpired:
        return None, "lake build timed out", time.time() - t0
    log = r.stdout + r.stderr
    return r.returncode == 0, log, time.time() - t0


def first_errors(log, n=6):
    out = []
    for l in log.splitlines():
        if l.startswith("error:") or " error: " in l:
            out.append(l.strip()[:400])
            if len(out) >= n: break
    return out


def failed_modules(log):
    mods = []
    m = re.search(r"Some required targets logged failures:\n((?:- .*\n?)+)", log)
    if m:
        mods = [l[2:].strip() for l in m.group(1).splitlines() if l.startswith("- ")]
    return mods


# ------------------------------------------------------------------ audit
def strip_comments(src):
    src = re.sub(r"/-.*?-/", "", src, flags=re.S)
    return "\n".join(l.split("--")[0] for l in src.splitlines())


def grep_forbidden():
    hits = []
    for root, _, files in os.walk(LEAN):
        if ".lake" in root: continue
        for f in files:
            if not f.endswith(".lean"): continue
            p = os.path.join(root, f)
            for n, l in enumerate(strip_comments(open(p).read()).splitlines(), 1):
                if FORBIDDEN.search(l):
                    hits.append("%s:%d: %s" % (os.path.relpath(p, LEAN), n, l.strip()[:120]))
    return hits


def audit(pid, imports, theorems):
    """#print axioms on every property theorem; returns dict name -> (ok, axioms or message)"""
    path = os.path.join(WORK, "Audit_%s.lean" % pid)
    with open(path, "w") as f:
        for i in imports: f.write("import %s\n" % i)
        f.write("\n")
        for t in theorems: f.write("#print axioms %s\n" % t)
    r = subprocess.run(["lake", "env", "lean", path], cwd=LEAN, capture_output=True, text=True, timeout=1200)
    out = r.stdout + r.stderr
    res = {}
    for t in theorems:
        m = re.search(r"'%s' depends on axioms: \[([^\]]*)\]" % re.escape(t), out)
        if m:
            ax = [a.strip() for a in m.group(1).replace("\n", " ").split(",") if a.strip()]
            res[t] = (set(ax) <= ALLOWED_AXIOMS, ax)
        elif re.search(r"'%s' does not depend on any axioms" % re.escape(t), out):
            res[t] = (True, [])
        else:
            res[t] = (False, "not found / does not check: " + out[-600:])
    return res, out


# ------------------------------------------------------------------ evidence / replay / findings
def write_evidence(pid, tier, seed, coverage, assumptions, wall, violations, level="proof"):
    os.makedirs(os.path.join(VERIF, "evidence"), exist_ok=True)
    ev = dict(property_id=pid, tier=tier, seed=int(seed), level=level, coverage=coverage,
              assumptions=assumptions, wall_s=round(wall, 2), violations=int(violations),
              repo_head=repo_head())
    with open(os.path.join(VERIF, "evidence", "%s.json" % pid), "w") as f:
        json.dump(ev, f, indent=1, default=str)


def write_replay(pid, seed, tier, kind, payload):
    d = os.path.join(VERIF, "replays"); os.makedirs(d, exist_ok=True)
    n = 0
    while os.path.exists(os.path.join(d, "%s-%s-%d.json" % (pid, seed, n))): n += 1
    p = os.path.join(d, "%s-%s-%d.json" % (pid, seed, n))
    doc = dict(property=pid, kind=kind, seed=seed, tier=tier, repo_head=repo_head(),
               how_to_replay="cd /verif && ./check %s --replay %s" % (pid, p))
    doc.update(payload)
    json.dump(doc, open(p, "w"), indent=1, default=str)
    return p


def known_findings(pid):
    p = os.path.join(VERIF, "KNOWN_FINDINGS.json")
    if not os.path.exists(p): return []
    return [k for k in json.load(open(p))["findings"] if k["property"] == pid]


def phash(lines):
    return hashlib.sha1("\n".join(lines).encode()).hexdigest()[:16]
