"""Tracer of the shipped worked examples: run a real `wc_*` function of /repo/PEPit/examples with the public classes
wrapped at run time, record every operation the EXAMPLE CODE performs on the library (operator overloads, oracle calls,
primitive steps, declarations: the outermost calls only; what the library does inside them is the model's business) as
lines of the correspondence protocol, stop at `problem.solve`, and capture what the real pipeline then sends.

The op list is afterwards replayed (a) on the real library through `corr_world.Impl` and (b) on the Lean world model; the
three dumps of the solver input must agree: example run = replay on the library = model.  This is the tie between the
model and the programs the library ships (properties C05 / C08 / C09 / C10 / C12)."""
import warnings; warnings.filterwarnings("ignore")
import importlib, inspect, numbers, hashlib, io, contextlib, sys, os
from fractions import Fraction as Fr
import numpy as np
import PEPit
from PEPit import PEP, Point, Expression, Constraint, Function, BlockPartition, PSDMatrix
import PEPit.primitive_steps as PS
import PEPit.functions as PF, PEPit.operators as PO


class Untraceable(Exception):
    pass


class StopTracing(Exception):
    pass


def showrat(v):
    f = Fr(v)
    return str(f.numerator) if f.denominator == 1 else "%d/%d" % (f.numerator, f.denominator)


def scal(v):
    if isinstance(v, bool): raise Untraceable("boolean scalar")
    if isinstance(v, numbers.Integral): return showrat(Fr(int(v)))
    if isinstance(v, numbers.Real):
        v = float(v)
        if v != v or v in (float("inf"), float("-inf")): raise Untraceable("non-finite scalar")
        return showrat(Fr(v))
    raise Untraceable("operand of type %s" % type(v).__name__)


def is_scalar(v): return isinstance(v, numbers.Real) and not isinstance(v, bool)


class Tracer:
    STEP_NAMES = ["proximal_step", "inexact_gradient_step", "exact_linesearch_step", "linear_optimization_step",
                  "bregman_gradient_step", "bregman_proximal_step", "epsilon_subgradient_step", "inexact_proximal_step"]

    def __init__(self):
        self.lines = []; self.names = {}; self.keep = []; self.depth = 0; self.cnt = {}
        self.saved = []; self.pep = None; self.sent = None; self.solve_kwargs = None; self.active = False

    # ---- names
    def new(self, kind, obj):
        if id(obj) in self.names: return self.names[id(obj)]     # the same object returned again (stored value, same block)
        k = self.cnt.get(kind, 0); self.cnt[kind] = k + 1
        n = "%s%d" % (kind, k)
        self.names[id(obj)] = n; self.keep.append(obj)
        return n

    def ref(self, obj):
        n = self.names.get(id(obj))
        if n is not None: return n
        if isinstance(obj, Function):
            for o in list(self.keep):
                if isinstance(o, Function) and getattr(o, "T", None) is obj:
                    n = self.new("f", obj); self.lines.append("fn.adjoint %s %s" % (n, self.names[id(o)])); return n
        raise Untraceable("operand %r was not produced by a traced call" % type(obj).__name__)

    def emit(self, line): self.lines.append(line)

    # ---- patching
    def patch(self, owner, name, handler, post=True):
        orig = owner.__dict__[name] if isinstance(owner, type) else getattr(owner, name)
        raw = orig.__func__ if isinstance(orig, staticmethod) else orig
        tr = self

        def w(*a, **k):
            if not tr.active or tr.depth > 0: return raw(*a, **k)
            tr.depth += 1
            try:
                if not post:
                    handler(a, k, None)
                res = raw(*a, **k)
            finally:
                tr.depth -= 1
            if post and res is not NotImplemented:
                handler(a, k, res)
            return res
        w.__name__ = getattr(raw, "__name__", name)
        self.saved.append((owner, name, orig))
        setattr(owner, name, staticmethod(w) if isinstance(orig, staticmethod) else w)

    def unpatch(self):
        for owner, name, orig in reversed(self.saved):
            if orig is None: delattr(owner, name)
            else: setattr(owner, name, orig)
        self.saved = []

    # ---- handlers
    def install(self, module):
        T = self; R = self.ref; E = self.emit

        # Point
        def p_init(a, k, res):
            obj = a[0]
            if k.get("is_leaf", True) is False or (len(a) > 1 and a[1] is False): raise Untraceable("non-leaf Point constructed directly")
            nm = k.get("name")
            n = T.new("p", obj)
            E("pt.leaf %s" % n if nm is None else "pt.leafn %s %s" % (n, nm))
        self.patch(Point, "__init__", p_init)
        self.patch(Point, "__add__", lambda a, k, r: E("pt.add %s %s %s" % (T.new("p", r), R(a[0]), R(a[1]))))
        self.patch(Point, "__sub__", lambda a, k, r: E("pt.sub %s %s %s" % (T.new("p", r), R(a[0]), R(a[1]))))
        self.patch(Point, "__neg__", lambda a, k, r: E("pt.neg %s %s" % (T.new("p", r), R(a[0]))))
        self.patch(Point, "__rmul__", lambda a, k, r: E("pt.smul %s %s %s" % (T.new("p", r), scal(a[1]), R(a[0]))))

        def p_mul(a, k, r):
            if isinstance(a[1], Point): E("ex.ip %s %s %s" % (T.new("e", r), R(a[0]), R(a[1])))
            else: E("pt.smul %s %s %s" % (T.new("p", r), scal(a[1]), R(a[0])))
        self.patch(Point, "__mul__", p_mul)
        self.patch(Point, "__truediv__", lambda a, k, r: E("pt.div %s %s %s" % (T.new("p", r), R(a[0]), scal(a[1]))))

        def p_pow(a, k, r):
            if a[1] != 2: raise Untraceable("power %r" % (a[1],))
            E("ex.sq %s %s" % (T.new("e", r), R(a[0])))
        self.patch(Point, "__pow__", p_pow)

        # Expression
        def e_init(a, k, res):
            if k.get("is_leaf", True) is False or (len(a) > 1 and a[1] is False): raise Untraceable("non-leaf Expression constructed directly")
            if k.get("name") is not None: raise Untraceable("named leaf expression")
            E("ex.leaf %s" % T.new("e", a[0]))
        self.patch(Expression, "__init__", e_init)

        def e_bin(op_e, op_c):
            def h(a, k, r):
                if isinstance(a[1], Expression): E("%s %s %s %s" % (op_e, T.new("e", r), R(a[0]), R(a[1])))
                else: E("%s %s %s %s" % (op_c, T.new("e", r), R(a[0]), scal(a[1])))
            return h
        self.patch(Expression, "__add__", e_bin("ex.add", "ex.addc"))
        self.patch(Expression, "__radd__", lambda a, k, r: E("ex.addc %s %s %s" % (T.new("e", r), R(a[0]), scal(a[1]))))
        self.patch(Expression, "__sub__", e_bin("ex.sub", "ex.subc"))
        self.patch(Expression, "__rsub__", lambda a, k, r: E("ex.rsubc %s %s %s" % (T.new("e", r), scal(a[1]), R(a[0]))))
        self.patch(Expression, "__neg__", lambda a, k, r: E("ex.neg %s %s" % (T.new("e", r), R(a[0]))))
        self.patch(Expression, "__rmul__", lambda a, k, r: E("ex.smul %s %s %s" % (T.new("e", r), scal(a[1]), R(a[0]))))
        self.patch(Expression, "__mul__", lambda a, k, r: E("ex.smul %s %s %s" % (T.new("e", r), scal(a[1]), R(a[0]))))
        self.patch(Expression, "__truediv__", lambda a, k, r: E("ex.div %s %s %s" % (T.new("e", r), R(a[0]), scal(a[1]))))

        def e_cmp(op):
            def h(a, k, r):
                if isinstance(a[1], Expression): E("cons.%s %s %s %s" % (op, T.new("c", r), R(a[0]), R(a[1])))
                else: E("cons.%sc %s %s %s" % (op, T.new("c", r), R(a[0]), scal(a[1])))
            return h
        for m, op in (("__le__", "le"), ("__lt__", "le"), ("__ge__", "ge"), ("__gt__", "ge"), ("__eq__", "eq")):
            self.patch(Expression, m, e_cmp(op))

        # Function
        self.patch(Function, "__add__", lambda a, k, r: E("fn.add %s %s %s" % (T.new("f", r), R(a[0]), R(a[1]))))
        self.patch(Function, "__sub__", lambda a, k, r: E("fn.sub %s %s %s" % (T.new("f", r), R(a[0]), R(a[1]))))
        self.patch(Function, "__neg__", lambda a, k, r: E("fn.smul %s -1 %s" % (T.new("f", r), R(a[0]))))
        self.patch(Function, "__rmul__", lambda a, k, r: E("fn.smul %s %s %s" % (T.new("f", r), scal(a[1] if len(a) > 1 else k["other"]), R(a[0]))))
        self.patch(Function, "__mul__", lambda a, k, r: E("fn.smul %s %s %s" % (T.new("f", r), scal(a[1]), R(a[0]))))
        self.patch(Function, "__truediv__", lambda a, k, r: E("fn.div %s %s %s" % (T.new("f", r), R(a[0]), scal(a[1]))))

        def f_oracle(a, k, r):
            f, x = R(a[0]), R(a[1]); E("fn.oracle %s %s %s %s" % (f, x, T.new("p", r[0]), T.new("e", r[1])))
        self.patch(Function, "oracle", f_oracle)

        def f_grad(a, k, r):
            if k.get("name") is not None or len(a) > 2: raise Untraceable("named gradient")
            f, x = R(a[0]), R(a[1]); E("fn.gradient %s %s %s" % (f, x, T.new("p", r)))
        self.patch(Function, "gradient", f_grad); self.patch(Function, "subgradient", f_grad)

        def f_val(a, k, r):
            if k.get("name") is not None or len(a) > 2: raise Untraceable("named value")
            f, x = R(a[0]), R(a[1]); E("fn.value %s %s %s" % (f, x, T.new("e", r)))
        self.patch(Function, "value", f_val); self.patch(Function, "__call__", f_val)

        def f_stat(a, k, r):
            if k.get("name") is not None: raise Untraceable("named stationary point")
            f = R(a[0])
            full = k.get("return_gradient_and_function_value", a[1] if len(a) > 1 else False)
            if full:
                E("fn.stat3 %s %s %s %s" % (f, T.new("p", r[0]), T.new("p", r[1]), T.new("e", r[2])))
            else:
                # the value leaf exists but was not handed to the example: it gets a name nobody refers to
                E("fn.stat %s %s %s" % (f, T.new("p", r), "e_unused%d" % len(T.lines)))
        self.patch(Function, "stationary_point", f_stat)
        for mod_ in (PF, PO):
            for _, c in inspect.getmembers(mod_, inspect.isclass):
                if issubclass(c, Function) and c is not Function and "stationary_point" in c.__dict__:
                    self.patch(c, "stationary_point", f_stat)

        def f_fixed(a, k, r):
            if k.get("name") is not None: raise Untraceable("named fixed point")
            x, g, v = r
            E("fn.fixed2 %s %s %s" % (R(a[0]), T.new("p", x), T.new("e", v)))
        self.patch(Function, "fixed_point", f_fixed)

        def f_addcons(a, k, r):
            if k.get("name") is not None or len(a) > 2: raise Untraceable("named constraint")
            E("fn.addcons %s %s" % (R(a[0]), R(a[1])))
        self.patch(Function, "add_constraint", f_addcons)
        self.patch(Function, "add_point", lambda a, k, r: E("fn.addpoint %s %s %s %s" % (R(a[0]), R(a[1][0]), R(a[1][1]), R(a[1][2]))))
        for m in ("add_psd_matrix", "set_name"):
            self.patch(Function, m, lambda a, k, r, m=m: (_ for _ in ()).throw(Untraceable("Function.%s" % m)), post=False)

        # attribute assignments the examples make on functions: `A.v = ...` (infimal displacement vector), class parameters
        def f_setattr(obj, name, value):
            if T.active and T.depth == 0 and id(obj) in T.names:
                if name == "v" and isinstance(value, Point): E("fn.setv %s %s" % (R(obj), R(value)))
                elif name in ("mu", "L", "M", "D", "beta", "rho"):
                    order = [p for p in inspect.signature(type(obj).__init__).parameters if p in ("mu", "L", "M", "D", "beta", "rho")]
                    E("fn.setparam %s %d %s" % (R(obj), order.index(name), scal(value)))
                else: raise Untraceable("assignment to %s.%s" % (type(obj).__name__, name))
            object.__setattr__(obj, name, value)
        self.saved.append((Function, "__setattr__", None)); Function.__setattr__ = f_setattr

        # PEP
        def pep_init(a, k, r):
            T.pep = a[0]; T.names = {}; T.keep = []; T.cnt = {}; T.lines = ["reset"]
            T.names[id(PEPit.null_point)] = "nullP"; T.names[id(PEPit.null_expression)] = "nullE"
        self.patch(PEP, "__init__", pep_init)

        def pep_decl(a, k, r):
            cls = a[1] if len(a) > 1 else k["function_class"]
            kw = {kk: vv for kk, vv in k.items() if kk != "function_class"}
            cname = cls.__name__
            if getattr(PF, cname, None) is not cls and getattr(PO, cname, None) is not cls: raise Untraceable("class %s" % cname)
            if kw.get("name") is not None: raise Untraceable("named function")
            sig = inspect.signature(cls.__init__).parameters
            order = [p for p in sig if p in ("mu", "L", "M", "D", "beta", "rho")]
            known = set(order) | {"reuse_gradient", "name", "partition"}
            if set(kw) - known: raise Untraceable("parameter %s of %s" % (sorted(set(kw) - known), cname))
            n = T.new("f", r)
            inf = "0"; vals = []
            if cname == "BlockSmoothConvexFunction":
                vals = [scal(v) for v in kw["L"]]
                E("fn.decl %s %s 0 0 %s partition=%s" % (n, cname, " ".join(vals), R(kw["partition"]))); return
            for p in order:
                v = kw[p] if p in kw else sig[p].default
                if v is inspect.Parameter.empty: raise Untraceable("missing parameter %s" % p)
                if p in ("D", "M") and cname in ("ConvexIndicatorFunction", "ConvexSupportFunction") and v == np.inf:
                    inf = "1"; continue
                vals.append(scal(v))
            reuse = "1" if kw.get("reuse_gradient", False) else "0"
            E(("fn.decl %s %s %s %s %s" % (n, cname, reuse, inf, " ".join(vals))).rstrip())
        self.patch(PEP, "declare_function", pep_decl)

        def pep_x0(a, k, r):
            nm = k.get("name", a[1] if len(a) > 1 else None)
            n = T.new("p", r); E("pt.leaf %s" % n if nm is None else "pt.leafn %s %s" % (n, nm))
        self.patch(PEP, "set_initial_point", pep_x0)

        def pep_addc(a, k, r):
            if k.get("name") is not None or len(a) > 2: raise Untraceable("named constraint")
            E("pep.addcons %s" % R(a[1] if len(a) > 1 else (k.get("condition") or k.get("constraint"))))
        self.patch(PEP, "set_initial_condition", pep_addc); self.patch(PEP, "add_constraint", pep_addc)

        def pep_metric(a, k, r):
            if k.get("name") is not None or len(a) > 2: raise Untraceable("named metric")
            E("pep.metric %s" % R(a[1] if len(a) > 1 else k["expression"]))
        self.patch(PEP, "set_performance_metric", pep_metric)

        def pep_psd(a, k, r):
            if k.get("name") is not None or len(a) > 2: raise Untraceable("named LMI")
            M = a[1] if len(a) > 1 else k["matrix_of_expressions"]
            rows = [list(row) for row in M]
            cells = []
            for row in rows:
                for c in row:
                    if not isinstance(c, Expression): raise Untraceable("scalar LMI entry")
                    cells.append(R(c))
            E("pep.psd %d %s" % (len(rows), " ".join(cells)))
        self.patch(PEP, "add_psd_matrix", pep_psd, post=False)
        self.patch(PEP, "declare_block_partition", lambda a, k, r: E("part.decl %s %d" % (T.new("b", r), int(a[0] if a else k["d"]))))

        def pep_solve(a, k, r):
            T.solve_kwargs = dict(k)
            from corr_world import ScriptedWrapper
            w = ScriptedWrapper()
            with contextlib.redirect_stdout(io.StringIO()):
                a[0]._solve_with_wrapper(w, verbose=0)
            T.sent = w.sent
            raise StopTracing()
        self.patch(PEP, "solve", pep_solve, post=False)

        # partitions
        self.patch(BlockPartition, "get_block", lambda a, k, r: E("part.block %s %s %s %d" % (T.new("p", r), R(a[0]), R(a[1]), int(a[2]))))
        self.patch(BlockPartition, "add_constraint", lambda a, k, r: E("part.addcons %s %s" % (R(a[0]), R(a[1]))))

        # primitive steps: the example module holds its own references
        def s_prox(a, k, r): E("step.prox %s %s %s %s %s %s" % (R(a[0]), R(a[1]), scal(a[2]), T.new("p", r[0]), T.new("p", r[1]), T.new("e", r[2])))

        def s_inexgrad(a, k, r):
            args = dict(zip(["x0", "f", "gamma", "epsilon", "notion"], a)); args.update(k)
            notion = args.get("notion", "absolute")
            if notion not in ("absolute", "relative"): raise Untraceable("notion")
            E("step.inexgrad %s %s %s %s %s %s %s %s" % (R(args["x0"]), R(args["f"]), scal(args["gamma"]), scal(args["epsilon"]),
                                                        "1" if notion == "relative" else "0", T.new("p", r[0]), T.new("p", r[1]), T.new("e", r[2])))

        def s_els(a, k, r):
            args = dict(zip(["x0", "f", "directions"], a)); args.update(k)
            E("step.els %s %s %s %s %s %s" % (R(args["x0"]), R(args["f"]), T.new("p", r[0]), T.new("p", r[1]), T.new("e", r[2]),
                                              " ".join(R(d) for d in args["directions"])))

        def s_linopt(a, k, r): E("step.linopt %s %s %s %s %s" % (R(a[0]), R(a[1]), T.new("p", r[0]), T.new("p", r[1]), T.new("e", r[2])))

        def s_breggrad(a, k, r):
            args = dict(zip(["gx0", "sx0", "mirror_map", "gamma"], a)); args.update(k)
            E("step.breggrad %s %s %s %s %s %s %s" % (R(args["gx0"]), R(args["sx0"]), R(args["mirror_map"]), scal(args["gamma"]),
                                                     T.new("p", r[0]), T.new("p", r[1]), T.new("e", r[2])))

        def s_bregprox(a, k, r):
            args = dict(zip(["sx0", "mirror_map", "min_function", "gamma"], a)); args.update(k)
            E("step.bregprox %s %s %s %s %s %s %s %s %s" % (R(args["sx0"]), R(args["mirror_map"]), R(args["min_function"]), scal(args["gamma"]),
                                                           T.new("p", r[0]), T.new("p", r[1]), T.new("e", r[2]), T.new("p", r[3]), T.new("e", r[4])))

        def s_epssub(a, k, r):
            E("step.epssub %s %s %s %s %s %s %s" % (R(a[0]), R(a[1]), scal(a[2]), T.new("p", r[0]), T.new("p", r[1]), T.new("e", r[2]), T.new("e", r[3])))

        def s_inexprox(a, k, r):
            args = dict(zip(["x0", "f", "gamma", "opt"], a)); args.update(k)
            opt = {"PD_gapI": "1", "PD_gapII": "2", "PD_gapIII": "3"}.get(args.get("opt", "PD_gapII"))
            if opt is None: raise Untraceable("opt")
            E("step.inexprox %s %s %s %s %s" % (R(args["x0"]), R(args["f"]), scal(args["gamma"]), opt,
                                                " ".join(T.new("p" if isinstance(o, Point) else "e", o) for o in r)))
        H = dict(proximal_step=s_prox, inexact_gradient_step=s_inexgrad, exact_linesearch_step=s_els, linear_optimization_step=s_linopt,
                 bregman_gradient_step=s_breggrad, bregman_proximal_step=s_bregprox, epsilon_subgradient_step=s_epssub,
                 inexact_proximal_step=s_inexprox)
        mods = [module] + [m for m in sys.modules.values() if m is not None and getattr(m, "__name__", "").startswith("PEPit.examples.")]
        for mod in mods:
            for nm, h in H.items():
                if nm in getattr(mod, "__dict__", {}) and getattr(mod.__dict__[nm], "__module__", "").startswith("PEPit.primitive_steps"):
                    self.patch(mod, nm, h)


def trace(module, func, args):
    """returns dict(lines=[...], sent=<canonical dump of what the example's own solve sent>, error=None | reason)"""
    import corr_world as cw
    mod = importlib.import_module(module)
    fn = getattr(mod, func)
    a = dict(args); a["verbose"] = -1
    for k in ("wrapper", "solver"):
        if k in inspect.signature(fn).parameters: a.setdefault(k, "cvxpy" if k == "wrapper" else None)
    t = Tracer()
    err = None
    try:
        t.install(mod)
        t.active = True
        with contextlib.redirect_stdout(io.StringIO()):
            fn(**a)
        err = "the example returned without calling solve"
    except StopTracing:
        pass
    except Untraceable as ex:
        err = "untraceable: %s" % ex
    except Exception as ex:
        err = "%s: %s" % (type(ex).__name__, str(ex)[:200])
    finally:
        t.active = False
        t.unpatch()
    if err: return dict(lines=t.lines, sent=None, error=err)
    sent = " ## ".join(("C:" + cw.show_cons(c)) if k == "C" else ("P:" + cw.show_psd(c)) for k, c in t.sent)
    return dict(lines=t.lines, sent=sent, error=None, n_sent=len(t.sent))


if __name__ == "__main__":
    import json
    calls = json.load(open(os.path.join(os.path.dirname(os.path.abspath(__file__)), "example_calls.json")))
    ok = bad = 0
    for c in calls:
        args = {k: v for k, v in c["args"].items() if k not in ("wrapper", "solver", "verbose")}
        r = trace(c["module"], c["func"], args)
        if r["error"]:
            bad += 1; print("FAIL %-60s %s" % (c["func"], r["error"]))
        else:
            ok += 1
            if len(sys.argv) > 1: print("ok   %-60s %d ops, %d sent" % (c["func"], len(r["lines"]), r["n_sent"]))
    print("traced", ok, "untraceable", bad)
