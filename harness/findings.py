"""Witnesses of the known findings (KNOWN_FINDINGS.json), evaluation of the property on programs on
which model and implementation disagree, and re-execution of failing-input replays."""
import warnings; warnings.filterwarnings("ignore")
import sys, os, json, io, contextlib, random
import numpy as np
from ocommon import fresh, quiet_solve, pdict, edict


def _gd_model(radius=1.0):
    from PEPit import PEP
    import PEPit.functions as PF
    pep = PEP(); f = pep.declare_function(PF.SmoothStronglyConvexFunction, mu=.1, L=1.)
    xs = f.stationary_point(); x0 = pep.set_initial_point(); pep.set_initial_condition((x0 - xs) ** 2 <= radius)
    x1 = x0 - f.gradient(x0); m = (x1 - xs) ** 2; pep.set_performance_metric(m)
    return pep, m, (x0, xs)


def kf_c13_stale_cache():
    pep, m, (x0, xs) = _gd_model()
    quiet_solve(pep); v1 = float(m.eval())
    pep.list_of_constraints[0] = ((x0 - xs) ** 2 <= 4.0)
    t2 = quiet_solve(pep)
    return abs(float(m.eval()) - v1) < 1e-9 and abs(t2 - 4 * v1) < 1e-3      # held metric still reports the first solve


def kf_c13_objective_leaf():
    from PEPit import Expression
    pep, m, _ = _gd_model()
    quiet_solve(pep); n1 = Expression.counter; quiet_solve(pep)
    return Expression.counter == n1 + 1


def kf_c13_partition_growth():
    from PEPit import PEP
    import PEPit.functions as PF
    pep = PEP(); part = pep.declare_block_partition(d=2)
    f = pep.declare_function(PF.BlockSmoothConvexFunction, L=[1., 1.], partition=part)
    xs = f.stationary_point(); x0 = pep.set_initial_point(); pep.set_initial_condition((x0 - xs) ** 2 <= 1)
    g0 = f.gradient(x0); x1 = x0 - part.get_block(g0, 0); pep.set_performance_metric(f(x1) - f(xs))
    quiet_solve(pep); n1 = len(pep._list_of_constraints_sent_to_wrapper); quiet_solve(pep)
    return len(pep._list_of_constraints_sent_to_wrapper) > n1


def _scripted(pep):
    import corr_world as cw
    from PEPit import Expression
    pep.set_performance_metric(Expression())
    w = cw.SolvingWrapper(3)
    try:
        with contextlib.redirect_stdout(io.StringIO()):
            pep._solve_with_wrapper(w, verbose=0)
    except AssertionError:
        pass


def kf_c17_blocksmooth():
    from PEPit import PEP, Point
    import PEPit.functions as PF
    pep = PEP(); part = pep.declare_block_partition(d=2)
    f = pep.declare_function(PF.BlockSmoothConvexFunction, L=[1., 2.], partition=part)
    f.oracle(Point()); f.oracle(Point())
    _scripted(pep)
    try:
        f.get_class_constraints_duals(); return False
    except AttributeError:
        return True


def kf_c17_linop():
    from PEPit import PEP, Point
    import PEPit.operators as PO
    pep = PEP(); M = pep.declare_function(PO.LinearOperator, L=1.)
    x = Point(); y = M.gradient(x); M.T.gradient(y)
    _scripted(pep)
    return len(M.list_of_class_constraints) > 0 and len(M.tables_of_constraints) == 0 and all(c.get_name() is None for c in M.list_of_class_constraints)


def kf_c01_nonsym_lmi():
    """3 gradient steps on the shipped quadratic class: the LMI is not symmetric as written and the
    exposed multipliers do not close the identity (entry-equality multipliers are dropped)"""
    from PEPit import PEP, Point
    import PEPit.functions as PF
    from PEPit.tools.dict_operations import symmetrize_dict, prune_dict
    pep = PEP(); f = pep.declare_function(PF.SmoothStronglyConvexQuadraticFunction, mu=.1, L=1.)
    xs = f.stationary_point(); x0 = pep.set_initial_point(); pep.set_initial_condition((x0 - xs) ** 2 <= 1)
    x = x0
    for _ in range(3): x = x - 1.2 * f.gradient(x)
    pep.set_performance_metric((x - xs) ** 2)
    tau = quiet_solve(pep)
    comb = -np.dot(Point.list_of_leaf_points, np.dot(pep.residual, Point.list_of_leaf_points))
    for m in pep._list_of_psd_sent_to_wrapper: comb = comb - np.sum(m.eval_dual() * m.matrix_of_expressions)
    for c in pep._list_of_constraints_sent_to_wrapper: comb = comb + c.eval_dual() * c.expression
    d = prune_dict(symmetrize_dict((pep.objective - comb).decomposition_dict))
    resid = sum(abs(v) for k, v in d.items() if k != 1)
    return resid > 1e-3


def kf_c04_skew_diagonal():
    from PEPit import PEP
    import PEPit.operators as PO
    pep = PEP(); A = pep.declare_function(PO.SkewSymmetricLinearOperator, L=1.)
    x0 = pep.set_initial_point(); pep.set_initial_condition(x0 ** 2 <= 1)
    pep.set_performance_metric(x0 * A.gradient(x0))
    t = quiet_solve(pep)
    return t is not None and t != "inconclusive" and t > 0.5          # <x, Ax> = 0 for every skew-symmetric operator


def kf_c16_mosek_status():
    """MOSEK path (stand-in module): the problem status returned by the wrapper is never inspected, so an
    unbounded model yields a number instead of None"""
    sys.path.insert(0, os.path.join(os.path.dirname(os.path.abspath(__file__)), "stubs"))
    try:
        from PEPit.wrappers.mosek_wrapper import MosekWrapper
        pep, m, _ = _gd_model()
        pep.list_of_constraints.clear()                                 # no initial condition: unbounded
        w = MosekWrapper(verbose=0)
        with contextlib.redirect_stdout(io.StringIO()):
            try:
                r = pep._solve_with_wrapper(w, verbose=0)
            except AssertionError:
                return True                                             # went on to evaluate a non-solution
            except Exception:
                return None
        return r is not None
    finally:
        sys.path.pop(0)


def kf_c07_zero_function_point():
    """stationary_point() of the zero function records a free leaf as its value (true value 0): maximising it is unbounded"""
    from PEPit import PEP
    import PEPit.functions as PF
    pep = PEP(); f1 = pep.declare_function(PF.ConvexFunction); f0 = f1 - f1
    xs, gs, fs = f0.stationary_point(return_gradient_and_function_value=True)
    x, gx, fx = f0.fixed_point()
    free_value = bool(edict(fs)) and len(f1.list_of_points) == 0          # a leaf expression nothing relates to the (empty) sum
    free_fixed = bool(pdict(gx))                                          # g = x although the sum of no terms is 0
    return free_value and free_fixed


WITNESS = {
    "KF-C07-zero-function-point": kf_c07_zero_function_point,
    "KF-C13-stale-cache": kf_c13_stale_cache, "KF-C13-objective-leaf": kf_c13_objective_leaf,
    "KF-C13-partition-growth": kf_c13_partition_growth, "KF-C17-blocksmooth-tables": kf_c17_blocksmooth,
    "KF-C17-linear-operator-tables": kf_c17_linop, "KF-C17-linear-operator-names": kf_c17_linop, "KF-C01-nonsymmetric-lmi": kf_c01_nonsym_lmi,
    "KF-C04-skew-diagonal": kf_c04_skew_diagonal, "KF-C16-mosek-status": kf_c16_mosek_status,
}


def replay(fid):
    return WITNESS[fid]()


# ------------------------------------------------------------------ property evaluated on given programs
def programs(pid, progs):
    """progs: mismatching programs of a correspondence stream (op lines).  The property is evaluated on
    the implementation's state after running each program (whatever the model says)."""
    import corr_world as cw
    import oracles
    fails = []
    for b in progs:
        impl = cw.Impl()
        trace = []
        for l in b["program"]:
            try: o = impl.run(l)
            except Exception as ex: o = "EXC %s" % type(ex).__name__
            trace.append((l, o))
        v = check_state(pid, impl, b)
        for what in v:
            fails.append(dict(what=what, oracle="programs", input=dict(program=b["program"], first_difference=dict(line=b["line"], impl=b["impl"][:400], model=b["model"][:400])), tags=[pid.lower()]))
    return dict(failures=fails[:5])


def check_state(pid, impl, b):
    """property-specific invariants on the objects a program created"""
    from PEPit import Point, Expression, Function, Constraint
    out = []
    objs = impl.o
    funcs = [o for o in objs.values() if isinstance(o, Function)]
    if pid == "C07":
        def key(x): return tuple(sorted(pdict(x).items()))
        for f in funcs:
            seen = {}
            for (x, g, v) in f.list_of_points:
                k = key(x); ev = edict(v)
                if k in seen and seen[k] != ev: out.append("a function has two different values at one point")
                seen.setdefault(k, ev)
            if f.reuse_gradient:
                ks = [key(x) for (x, g, v) in f.list_of_points]
                if len(ks) != len(set(ks)): out.append("a differentiable function recorded two samples at one point")
            for (x, g, v) in f.list_of_stationary_points:
                if pdict(g): out.append("a stationary point has a non-zero gradient")
    if pid in ("C06",):
        # every dumped object must denote what its defining line says: re-evaluate the whole program numerically
        import random as _r
        rnd = _r.Random(1)
        from fractions import Fraction as Fr
        V, F = {}, {}
        def val(o):
            if isinstance(o, Point):
                for k in o.decomposition_dict: V.setdefault(k.counter, [Fr(rnd.randint(-3, 3)) for _ in range(3)])
                return oracles.eval_p(o, V)
            for k in o.decomposition_dict:
                if isinstance(k, Expression): F.setdefault(k.counter, Fr(rnd.randint(-3, 3)))
                elif isinstance(k, tuple):
                    for kk in k: V.setdefault(kk.counter, [Fr(rnd.randint(-3, 3)) for _ in range(3)])
            return oracles.eval_e(o, V, F)
        vals = {}
        for l in b["program"]:
            t = l.split()
            try:
                if t[0] == "pt.add": ok = val(objs[t[1]]) == [x + y for x, y in zip(val(objs[t[2]]), val(objs[t[3]]))]
                elif t[0] == "pt.sub": ok = val(objs[t[1]]) == [x - y for x, y in zip(val(objs[t[2]]), val(objs[t[3]]))]
                elif t[0] == "pt.smul": ok = val(objs[t[1]]) == [Fr(t[2]) * x for x in val(objs[t[3]])]
                elif t[0] == "pt.neg": ok = val(objs[t[1]]) == [-x for x in val(objs[t[2]])]
                elif t[0] == "ex.ip": ok = val(objs[t[1]]) == oracles.dot(val(objs[t[2]]), val(objs[t[3]]))
                elif t[0] == "ex.sq": ok = val(objs[t[1]]) == oracles.dot(val(objs[t[2]]), val(objs[t[2]]))
                elif t[0] == "ex.add": ok = val(objs[t[1]]) == val(objs[t[2]]) + val(objs[t[3]])
                elif t[0] == "ex.sub": ok = val(objs[t[1]]) == val(objs[t[2]]) - val(objs[t[3]])
                elif t[0] == "ex.addc": ok = val(objs[t[1]]) == val(objs[t[2]]) + Fr(t[3])
                elif t[0] == "ex.subc": ok = val(objs[t[1]]) == val(objs[t[2]]) - Fr(t[3])
                elif t[0] == "ex.rsubc": ok = val(objs[t[1]]) == Fr(t[2]) - val(objs[t[3]])
                elif t[0] == "ex.smul": ok = val(objs[t[1]]) == Fr(t[2]) * val(objs[t[3]])
                elif t[0] == "ex.neg": ok = val(objs[t[1]]) == -val(objs[t[2]])
                else: continue
            except KeyError:
                continue
            if not ok: out.append("object built by `%s` does not denote the operation on its operands" % l)
    return out[:3]


def rerun(d):
    """re-execute a failing-input replay through the oracle that produced it"""
    import oracles
    name = d.get("oracle")
    if name == "programs":
        r = programs(d["property"], [dict(program=d["input"]["program"], line="", impl="", model="")])
        print("failures:", [f["what"] for f in r["failures"]]); return 1 if r["failures"] else 0
    inp = d.get("input", {})
    if name in oracles.ORACLES and "seed" in inp and "it" in inp:
        # regenerate exactly that case: oracles derive case `it` from (seed, it)
        res = oracles.ORACLES[name](inp["it"] + 1, inp["seed"], 1)
        hits = [f for f in res["failures"] if f.get("input", {}).get("it") == inp["it"]]
        print("failures:", [f["what"] for f in hits]); return 1 if hits else 0
    if name in oracles.ORACLES:
        res = oracles.ORACLES[name](d.get("n", 50), d.get("seed", 0), 1)
        print("failures:", [f["what"] for f in res["failures"]]); return 1 if res["failures"] else 0
    print("no executable oracle recorded in this replay"); return 0
