"""Translator T3 (primitive steps): run every real step of /repo/PEPit/primitive_steps, every option, on leaf inputs
with SYMBOLIC step parameters (`Sym` floats carrying the expression tree of their computation) and emit

  * steps.json     : what the step returned, the triplets it recorded on which function, the side constraints
  * GenSteps.lean  : the same as Lean data, keyed by the creation counters of the leaves:
        Gen.Steps.<variant>.retP<i> / retE<i>   decomposition of the i-th returned object (PDict / EDict)
        Gen.Steps.<variant>.trips               recorded triplets  (function index, x, g, f)
        Gen.Steps.<variant>.cons                side constraints   (function index, isEq, lhs - rhs)
        Gen.Steps.<variant>.newP / newE         number of leaf points / leaf expressions the step created

`Props/C08Gen.lean` proves, for every variant, that these REGENERATED definitions denote the relation the step
documents (so a changed coefficient, sign, operand or a dropped / extra record breaks a Lean obligation)."""
import sys, os, json, warnings
from fractions import Fraction as Fr
warnings.filterwarnings("ignore")
from symfloat import Sym, coef_expr
from PEPit import PEP, Point, Expression
from PEPit.functions import ConvexFunction
import PEPit.primitive_steps as PS

GAMMA, EPS = 0.75, 0.375


def pform(p):
    out = []
    for k, v in p.decomposition_dict.items():
        assert k.get_is_leaf()
        out.append((k.counter, coef_expr(v), float(v)))
    return out


def ekey(k):
    if isinstance(k, Expression): return ("f", k.counter)
    if isinstance(k, tuple): return ("ip", k[0].counter, k[1].counter)
    return ("one",)


def eform(e):
    return [(ekey(k), coef_expr(v), float(v)) for k, v in e.decomposition_dict.items()]


def self_check(expr, val):
    """the emitted Lean term, evaluated with exact rationals at the concrete parameter values, is the float the code computed"""
    env = {"γ": Fr(GAMMA), "ε": Fr(EPS)}
    py = expr.replace("^", "**")
    got = eval(py, {"__builtins__": {}}, env)
    if abs(float(got) - val) > 1e-12 * max(1.0, abs(val)):
        raise ValueError("symbolic coefficient %s evaluates to %s, the code computed %r" % (expr, got, val))


def run_variant(name, build):
    """build(pep) -> (callable performing the step, list of functions the step may record on, parameter names)"""
    pep = PEP()
    call, funs, params = build(pep)
    nP0, nE0 = Point.counter, Expression.counter
    before = [(len(f.list_of_points), len(f.list_of_constraints), len(f.list_of_psd), len(f.list_of_stationary_points)) for f in funs]
    ret = call()
    rets = []
    for r in ret:
        if isinstance(r, Point): rets.append(dict(kind="P", form=pform(r)))
        elif isinstance(r, Expression): rets.append(dict(kind="E", form=eform(r)))
        else: raise TypeError("step %s returns a %r" % (name, type(r)))
    trips, cons = [], []
    for fi, (f, (np0, nc0, nm0, ns0)) in enumerate(zip(funs, before)):
        for (x, g, v) in f.list_of_points[np0:]:
            trips.append(dict(fun=fi, x=pform(x), g=pform(g), f=eform(v)))
        for c in f.list_of_constraints[nc0:]:
            cons.append(dict(fun=fi, isEq=(c.equality_or_inequality == "equality"), form=eform(c.expression), name=c.get_name()))
        if len(f.list_of_psd) != nm0: raise ValueError("step %s records an LMI" % name)
        if len(f.list_of_stationary_points) != ns0: raise ValueError("step %s records a stationary point" % name)
    if pep.list_of_constraints or pep.list_of_psd or pep.list_of_performance_metrics:
        raise ValueError("step %s records something on the PEP itself" % name)
    for grp in [r["form"] for r in rets] + [t[k] for t in trips for k in ("x", "g", "f")] + [c["form"] for c in cons]:
        for _, expr, val in grp: self_check(expr, val)
    return dict(name=name, params=params, inputsP=nP0, inputsE=nE0, newP=Point.counter - nP0, newE=Expression.counter - nE0,
                rets=rets, trips=trips, cons=cons)


g = lambda: Sym(GAMMA, "γ")
e = lambda: Sym(EPS, "ε")


def variants():
    def one_fun(step, npts, *args, **kw):
        def build(pep):
            f = pep.declare_function(ConvexFunction)
            pts = [Point() for _ in range(npts)]
            return (lambda: step(*[a(pts, f) for a in args], **kw)), [f], None
        return build
    P = lambda i: (lambda pts, f: pts[i])
    Fn = lambda pts, f: f
    G = lambda pts, f: g()
    Ep = lambda pts, f: e()
    V = [
        ("proximal", one_fun(PS.proximal_step, 1, P(0), Fn, G), ["γ"]),
        ("inexgrad_abs", one_fun(PS.inexact_gradient_step, 1, P(0), Fn, G, Ep, notion="absolute"), ["γ", "ε"]),
        ("inexgrad_rel", one_fun(PS.inexact_gradient_step, 1, P(0), Fn, G, Ep, notion="relative"), ["γ", "ε"]),
        ("linesearch2", one_fun(PS.exact_linesearch_step, 3, P(0), Fn, lambda pts, f: [pts[1], pts[2]]), []),
        ("linesearch0", one_fun(PS.exact_linesearch_step, 1, P(0), Fn, lambda pts, f: []), []),
        ("linesearch30", one_fun(PS.exact_linesearch_step, 31, P(0), Fn, lambda pts, f: pts[1:]), []),        # more directions than letters, than 16
        ("linopt", one_fun(PS.linear_optimization_step, 1, P(0), Fn), []),
        ("epssub", one_fun(PS.epsilon_subgradient_step, 1, P(0), Fn, G), ["γ"]),
        ("inexprox1", one_fun(PS.inexact_proximal_step, 1, P(0), Fn, G, opt="PD_gapI"), ["γ"]),
        ("inexprox2", one_fun(PS.inexact_proximal_step, 1, P(0), Fn, G, opt="PD_gapII"), ["γ"]),
        ("inexprox3", one_fun(PS.inexact_proximal_step, 1, P(0), Fn, G, opt="PD_gapIII"), ["γ"]),
    ]

    def breggrad(pep):
        h = pep.declare_function(ConvexFunction)
        gx0, sx0 = Point(), Point()
        return (lambda: PS.bregman_gradient_step(gx0, sx0, h, g())), [h], None

    def bregprox(pep):
        h = pep.declare_function(ConvexFunction); f = pep.declare_function(ConvexFunction)
        sx0 = Point()
        return (lambda: PS.bregman_proximal_step(sx0, h, f, g())), [h, f], None
    V += [("breggrad", breggrad, ["γ"]), ("bregprox", bregprox, ["γ"])]
    out = []
    for name, b, params in V:
        def build(pep, b=b, params=params):
            call, funs, _ = b(pep)
            return call, funs, params
        out.append((name, build))
    return out


INVALID = dict(
    inexact_gradient_step=("notion", ("abs", "rel", "", "e", "Absolute", "relative ", " absolute", "absoluterelative", "solute", None, 1)),
    inexact_proximal_step=("opt", ("PD_gap", "PD_gapIV", "gapI", "", "pd_gapi", "PD_gapI ", "I", "PD_gapIIII", None, 2)))


def invalid_options():
    """every near miss of a documented option value (substring, other case, padding, concatenation, non-string) makes the
    step raise; returns the list of (step, option, value, outcome)"""
    out = []
    for step, (opt, vals) in INVALID.items():
        for v in vals:
            pep = PEP(); f = pep.declare_function(ConvexFunction); x0 = Point()
            kw = {opt: v}
            try:
                if step == "inexact_gradient_step": PS.inexact_gradient_step(x0, f, gamma=.5, epsilon=.25, **kw)
                else: PS.inexact_proximal_step(x0, f, gamma=.5, **kw)
                out.append((step, opt, repr(v), "accepted"))
            except (ValueError, TypeError, AssertionError) as ex:
                out.append((step, opt, repr(v), type(ex).__name__))
    return out


def lean_ekey(k):
    if k[0] == "f": return ".f %d" % k[1]
    if k[0] == "ip": return ".ip %d %d" % (k[1], k[2])
    return ".one"


def lean_pd(form): return "[" + ", ".join("(%d, %s)" % (k, c) for k, c, _ in form) + "]"
def lean_ed(form): return "[" + ", ".join("(%s, %s)" % (lean_ekey(k), c) for k, c, _ in form) + "]"


def main(repo, out):
    res = [run_variant(n, b) for n, b in variants()]
    json.dump(res, open(os.path.join(out, "steps.json"), "w"), indent=1)
    L = ["import PepitModel.Algebra", "set_option linter.unusedVariables false", "",
         "/-! GENERATED by translator T3 (gen_steps.py) from the working tree of /repo. Do not edit.",
         "Every primitive step, every option, run on leaf inputs with symbolic parameters; keys are the creation",
         "counters of the leaf points / leaf expressions (inputs first, then the leaves the step creates). -/", "",
         "namespace Gen.Steps", ""]
    for r in res:
        ns = r["name"]
        args = (" (" + " ".join(r["params"]) + " : Coef)") if r["params"] else ""
        L.append("/-! ### %s : %d input point(s); creates %d leaf point(s), %d leaf expression(s) -/" % (ns, r["inputsP"], r["newP"], r["newE"]))
        L.append("def %s.inputsP : Nat := %d" % (ns, r["inputsP"]))
        L.append("def %s.newP : Nat := %d" % (ns, r["newP"]))
        L.append("def %s.newE : Nat := %d" % (ns, r["newE"]))
        L.append("def %s.nret : Nat := %d" % (ns, len(r["rets"])))
        for i, t in enumerate(r["rets"]):
            if t["kind"] == "P": L.append("def %s.retP%d%s : PDict := %s" % (ns, i, args, lean_pd(t["form"])))
            else: L.append("def %s.retE%d%s : EDict := %s" % (ns, i, args, lean_ed(t["form"])))
        L.append("def %s.trips%s : List (Nat × PDict × PDict × EDict) :=\n  [%s]" % (ns, args, ",\n   ".join(
            "(%d, %s, %s, %s)" % (t["fun"], lean_pd(t["x"]), lean_pd(t["g"]), lean_ed(t["f"])) for t in r["trips"])))
        L.append("def %s.cons%s : List (Nat × Bool × EDict) :=\n  [%s]" % (ns, args, ",\n   ".join(
            "(%d, %s, %s)" % (c["fun"], "true" if c["isEq"] else "false", lean_ed(c["form"])) for c in r["cons"])))
        L.append("")
    inv = invalid_options()
    L.append("/-! ### option values that are NOT documented (near misses of the documented strings): outcome of the call -/")
    L.append("def invalidOptions : List (String × String × String × String) :=\n  [%s]" % ",\n   ".join(
        '("%s", "%s", "%s", "%s")' % (a, b, c.replace('"', "'"), d) for a, b, c, d in inv))
    L.append("")
    L.append("end Gen.Steps")
    open(os.path.join(out, "GenSteps.lean"), "w").write("\n".join(L) + "\n")
    return res


if __name__ == "__main__":
    res = main(sys.argv[1], sys.argv[2])
    for r in res:
        print("%-14s newP=%d newE=%d rets=%s trips=%d cons=%d" % (r["name"], r["newP"], r["newE"], "".join(t["kind"] for t in r["rets"]), len(r["trips"]), len(r["cons"])))
