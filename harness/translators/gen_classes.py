"""Translator T1 (classes): run the real class code of /repo on named symbolic samples and
parameters, emit (a) JSON description, (b) Lean definitions `Gen.<Class>.<cond>`."""
import sys, json, inspect, warnings
warnings.filterwarnings("ignore")
import numpy as np
from symfloat import Sym, coef_expr
from PEPit import PEP, Point, Expression, Function, PSDMatrix
import PEPit.functions as PF, PEPit.operators as PO

PARAM_VALUES = dict(mu=0.3, L=2.0, M=1.5, D=2.5, beta=0.4, rho=0.2)
PSYMS = ["xi", "gi", "xj", "gj", "xs", "v", "gik", "gjk"]
FSYMS = ["fi", "fj", "fs"]


def key_of(k):
    if isinstance(k, tuple):
        return ("ip", k[0].name, k[1].name)
    if isinstance(k, Expression):
        return ("f", k.name)
    return ("one",)


def qform(expr):
    """decomposition of an Expression over named leaves -> list of (key, lean coef, float)"""
    out = []
    if expr.get_is_leaf():
        return [(("f", expr.name), "(1)", 1.0)]
    for k, v in expr.decomposition_dict.items():
        kk = key_of(k)
        if any(n is None for n in kk[1:]):
            raise ValueError("unnamed leaf in generated formula: %r" % (kk,))
        out.append((kk, coef_expr(v), float(v)))
    return out


def all_classes():
    return [(n, c) for mod in (PF, PO) for n, c in inspect.getmembers(mod, inspect.isclass)
            if issubclass(c, Function) and c is not Function]


def instantiate(pep, cname, cls, inf_params=()):
    sig = inspect.signature(cls.__init__).parameters
    kw, params = {}, []
    for p in sig:
        if p in PARAM_VALUES:
            if p in inf_params:
                kw[p] = np.inf
            else:
                kw[p] = Sym(PARAM_VALUES[p], p); params.append(p)
    if cname == "BlockSmoothConvexFunction":
        part = pep.declare_block_partition(d=2)
        kw = dict(partition=part, L=[Sym(1.0, "L0"), Sym(3.0, "L1")]); params = ["L0", "L1"]
    return pep.declare_function(cls, **kw), params


def named_sample(tag):
    return Point(name="x" + tag), Point(name="g" + tag), Expression(name="f" + tag)


def trace_class(cname, cls, inf_params=()):
    pep = PEP()
    f, params = instantiate(pep, cname, cls, inf_params)
    glue, conds, lmis = [], {}, []
    o1, o2 = f.add_constraints_from_one_list_of_points, f.add_constraints_from_two_lists_of_points

    def which(lst):
        if lst is f.list_of_points: return "all"
        if lst is f.list_of_stationary_points: return "stationary"
        if getattr(f, "T", None) is not None and lst is f.T.list_of_points: return "adjoint"
        return "other"

    def w1(list_of_points, constraint_name, set_class_constraint_i):
        glue.append(dict(kind="one", list1=which(list_of_points), name=constraint_name,
                         method=set_class_constraint_i.__name__))
        return o1(list_of_points, constraint_name, set_class_constraint_i)

    def w2(list_of_points_1, list_of_points_2, constraint_name, set_class_constraint_i_j, symmetry=False):
        glue.append(dict(kind="two", list1=which(list_of_points_1), list2=which(list_of_points_2),
                         name=constraint_name, method=set_class_constraint_i_j.__name__, symmetry=bool(symmetry)))
        return o2(list_of_points_1, list_of_points_2, constraint_name, set_class_constraint_i_j, symmetry=symmetry)

    f.add_constraints_from_one_list_of_points, f.add_constraints_from_two_lists_of_points = w1, w2
    # stationary point named xs / fs
    if not f.list_of_stationary_points:
        f.stationary_point()
    xs, gs, fs_ = f.list_of_stationary_points[0]
    xs.name = "xs"; fs_.name = "fs"
    if cname == "NonexpansiveOperator":
        f.v = Point(name="v")
    xi, gi, fi = named_sample("i"); xj, gj, fj = named_sample("j")
    f.add_point((xi, gi, fi)); f.add_point((xj, gj, fj))
    if cname == "LinearOperator":
        f.T.add_point((xj, gj, fj))         # adjoint sample (u, v, h) named as the j-sample
    n_leaf_before = Point.counter
    f.set_class_constraints()
    # name block leaves created by the block-smooth class
    if cname == "BlockSmoothConvexFunction":
        bd = f.partition.blocks_dict
        bd[gi][0].name = "gik"; bd[gj][0].name = "gjk"
    # per-condition formulas through the recorded methods, on the named samples
    for g in glue:
        m = getattr(f, g["method"])
        c = m(xi, gi, fi) if g["kind"] == "one" else m(xi, gi, fi, xj, gj, fj)
        conds[g["name"]] = dict(sense=c.equality_or_inequality, form=qform(c.expression))
    special = {}
    idx = {id(t): n for n, t in enumerate(f.list_of_points)}
    i_idx = [n for n, t in enumerate(f.list_of_points) if t[0] is xi][0]
    j_idx = [n for n, t in enumerate(f.list_of_points) if t[0] is xj][0]
    if cname == "BlockSmoothConvexFunction":
        # constraint for (i, j, block 0)
        for c in f.list_of_class_constraints:
            if c.get_name().endswith("block_0(xi, xj)"):
                special["smoothness_convexity_block"] = dict(sense=c.equality_or_inequality, form=qform(c.expression),
                                                             note="block k: symbols gik, gjk; parameter L0 = L[k]")
    if cname == "LinearOperator" and "adjoint" not in conds:
        c = f.list_of_class_constraints[0]       # x_i * v_j == y_i * u_j for (first sample of M, first sample of T)
        # find the one pairing (xi, .) with the adjoint sample (xj as u, gj as v)
        for c in f.list_of_class_constraints:
            names = {n for k in c.expression.decomposition_dict for n in (key_of(k)[1:])}
            if names == {"xi", "gj", "gi", "xj"}:
                special["adjoint"] = dict(sense=c.equality_or_inequality, form=qform(c.expression),
                                          note="(xi, gi) sample of M; (xj, gj) = (u, v) sample of M^T")
    for n, m in enumerate(f.list_of_class_psd):
        ii, jj = (i_idx, j_idx)
        if cname == "LinearOperator" and n == 1:
            # second LMI is over the adjoint samples: only one of them -> entry (0, 0) in symbols of j
            lmis.append(dict(index=n, over="adjoint", entry_jj=qform(m[0, 0])))
            continue
        if cname == "LinearOperator":
            # first LMI over M samples: stationary, i, j
            pass
        lmis.append(dict(index=n, over="all", entry_ij=qform(m[ii, jj]), entry_ji=qform(m[jj, ii]),
                         entry_ii=qform(m[ii, ii])))
    return dict(cls=cname, params=params, inf_params=list(inf_params), glue=glue, conds=conds,
                special=special, lmis=lmis, reuse_gradient=bool(f.reuse_gradient))


def lean_key(k):
    if k[0] == "ip": return ".ip .%s .%s" % (k[1], k[2])
    if k[0] == "f": return ".f .%s" % k[1]
    return ".one"


def lean_qform(name, params, form, doc):
    args = (" (" + " ".join(params) + " : Coef)") if params else ""
    items = ",\n    ".join("(%s, %s)" % (lean_key(k), c) for k, c, _ in form)
    return "/-- %s -/\ndef %s%s : QForm :=\n  [ %s ]\n\n" % (doc, name, args, items)


def main(out_json, out_lean):
    res = []
    for cname, cls in all_classes():
        res.append(trace_class(cname, cls))
        if cname == "ConvexIndicatorFunction":
            res.append(trace_class(cname, cls, inf_params=("D",)))
        if cname == "ConvexSupportFunction":
            res.append(trace_class(cname, cls, inf_params=("M",)))
    json.dump(res, open(out_json, "w"), indent=1)
    lean = "import PepitModel.QForm\nset_option linter.unusedVariables false\n\n/-! GENERATED by translator T1 (gen_classes.py) from the working tree of /repo. Do not edit. -/\n\nnamespace Gen\n\n"
    for r in res:
        if r["inf_params"]:
            continue
        ns = r["cls"]
        for cn, c in list(r["conds"].items()) + list(r["special"].items()):
            lean += lean_qform("%s.%s" % (ns, cn), r["params"], c["form"],
                               "%s, condition `%s` (%s)" % (ns, cn, c["sense"]))
        for l in r["lmis"]:
            if "entry_ij" in l:
                lean += lean_qform("%s.lmi%d_entry" % (ns, l["index"]), r["params"], l["entry_ij"],
                                   "%s, LMI %d, entry (i, j)" % (ns, l["index"]))
            else:
                lean += lean_qform("%s.lmi%d_entry_jj" % (ns, l["index"]), r["params"], l["entry_jj"],
                                   "%s, LMI %d over adjoint samples, diagonal entry" % (ns, l["index"]))
    # glue table: per class (finite-parameter variant and, where relevant, the inf variant)
    lean += "/-- which list a condition ranges over (`adjoint`: the samples of the transpose of a linear operator) -/\ninductive ListSel where\n  | all | stationary | adjoint\n  deriving Repr, DecidableEq\n\n"
    lean += "/-- one call of `add_constraints_from_one_list_of_points` / `..._two_lists_of_points` -/\nstructure CondSpec where\n  name : String\n  two : Bool\n  l1 : ListSel\n  l2 : ListSel\n  symmetry : Bool\n  isEq : Bool\n  form : List Coef → QForm\n\n"
    def sel(x):
        if x not in ("all", "stationary", "adjoint"): raise ValueError("condition over an unknown list: %r" % (x,))
        return "." + x
    for r in res:
        ns = r["cls"]; suffix = "_inf" if r["inf_params"] else ""
        entries = []
        for g in r["glue"]:
            c = r["conds"][g["name"]]
            np_ = len(r["params"])
            if r["inf_params"]:
                # formulas of the inf variant do not depend on the infinite parameter: regenerate inline
                items = ", ".join("(%s, %s)" % (lean_key(k), cc) for k, cc, _ in c["form"])
                form = "fun _ => [%s]" % items
            else:
                args = " ".join("(ps.getD %d 0)" % i for i in range(np_))
                form = "fun ps => %s.%s %s" % (ns, g["name"], args) if np_ else "fun _ => %s.%s" % (ns, g["name"])
            entries.append("{ name := \"%s\", two := %s, l1 := %s, l2 := %s, symmetry := %s, isEq := %s, form := %s }" % (
                g["name"], "true" if g["kind"] == "two" else "false", sel(g["list1"]), sel(g.get("list2", g["list1"])),
                "true" if g.get("symmetry") else "false", "true" if c["sense"] == "equality" else "false", form))
        lean += "def %s.glue%s : List CondSpec :=\n  [ %s ]\n\n" % (ns, suffix, ",\n    ".join(entries))
    lean += "end Gen\n"
    open(out_lean, "w").write(lean)
    return res


if __name__ == "__main__":
    res = main(sys.argv[1], sys.argv[2])
    for r in res:
        print("%-42s params=%-12s conds=%s special=%s lmis=%d" % (r["cls"] + ("[inf:%s]" % ",".join(r["inf_params"]) if r["inf_params"] else ""),
              r["params"], [g["name"] for g in r["glue"]], list(r["special"]), len(r["lmis"])))
