"""float subclass that carries the expression tree of its computation (translator T1)."""
import fractions


class Sym(float):
    def __new__(cls, val, expr):
        o = float.__new__(cls, val)
        o.expr = expr
        return o

    @staticmethod
    def lift(x):
        if isinstance(x, Sym):
            return x
        if isinstance(x, bool):
            x = int(x)
        if isinstance(x, int):
            return Sym(float(x), "(%d)" % x)
        if isinstance(x, float):
            fr = fractions.Fraction(x)
            if fr.denominator == 1:
                return Sym(x, "(%d)" % fr.numerator)
            return Sym(x, "(%d/%d)" % (fr.numerator, fr.denominator))
        return NotImplemented

    def _bin(self, other, op, sym, rev=False):
        o = Sym.lift(other)
        if o is NotImplemented:
            return NotImplemented
        a, b = (o, self) if rev else (self, o)
        return Sym(op(float(a), float(b)), "(%s %s %s)" % (a.expr, sym, b.expr))

    def __add__(s, o): return s._bin(o, lambda a, b: a + b, "+")
    def __radd__(s, o): return s._bin(o, lambda a, b: a + b, "+", True)
    def __sub__(s, o): return s._bin(o, lambda a, b: a - b, "-")
    def __rsub__(s, o): return s._bin(o, lambda a, b: a - b, "-", True)
    def __mul__(s, o): return s._bin(o, lambda a, b: a * b, "*")
    def __rmul__(s, o): return s._bin(o, lambda a, b: a * b, "*", True)
    def __truediv__(s, o): return s._bin(o, lambda a, b: a / b, "/")
    def __rtruediv__(s, o): return s._bin(o, lambda a, b: a / b, "/", True)
    def __neg__(s): return Sym(-float(s), "(-%s)" % s.expr)

    def __pow__(s, n):
        if isinstance(n, Sym) or not isinstance(n, int):
            raise TypeError("symbolic exponent")
        return Sym(float(s) ** n, "(%s ^ %d)" % (s.expr, n))


def coef_expr(v):
    """Lean term (over Coef = Rat) of a coefficient found in a decomposition dict."""
    if isinstance(v, Sym):
        return v.expr
    s = Sym.lift(v)
    if s is NotImplemented:
        raise TypeError("unexpected coefficient type %r" % type(v))
    return s.expr
