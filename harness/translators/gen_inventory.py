"""Translator T2: static inventory of class-level / module-level mutable state of PEPit and of what
`PEP._reset_classes` resets (AST only, nothing is executed)."""
import ast, sys, os, json

CORE = ["point.py", "expression.py", "constraint.py", "psd_matrix.py", "function.py", "block_partition.py",
        "pep.py", "wrapper.py", "wrappers/cvxpy_wrapper.py", "wrappers/mosek_wrapper.py", "wrappers/__init__.py",
        "tools/dict_operations.py", "tools/expressions_to_matrices.py"]


def scan(repo):
    class_attrs, module_objs, mutations, reset = [], [], [], []
    mutable_attrs, shadowed = [], []
    files = list(CORE)
    for sub in ("functions", "operators", "primitive_steps"):
        for f in sorted(os.listdir(os.path.join(repo, "PEPit", sub))):
            if f.endswith(".py"): files.append(sub + "/" + f)
    class_names = set()
    trees = {}
    for rel in files:
        src = open(os.path.join(repo, "PEPit", rel)).read()
        trees[rel] = ast.parse(src)
        for node in trees[rel].body:
            if isinstance(node, ast.ClassDef): class_names.add(node.name)
    for rel, tree in trees.items():
        for node in tree.body:
            if isinstance(node, ast.ClassDef):
                for st in node.body:
                    if isinstance(st, ast.Assign):
                        for t in st.targets:
                            if isinstance(t, ast.Name):
                                class_attrs.append((node.name, t.id, ast.unparse(st.value)))
                                v = st.value
                                # a mutable container created once at class level is shared by every instance (and by every
                                # model of the process) unless __init__ rebinds it on the instance
                                if isinstance(v, (ast.List, ast.Dict, ast.Set, ast.ListComp, ast.DictComp, ast.SetComp)) or \
                                        (isinstance(v, ast.Call) and isinstance(v.func, ast.Name) and v.func.id in ("list", "dict", "set", "defaultdict", "OrderedDict", "deque")):
                                    mutable_attrs.append((node.name, t.id))
                    elif isinstance(st, ast.FunctionDef) and st.name == "__init__":
                        # attributes unconditionally rebound on the instance by __init__ (top-level statements of its body)
                        for s2 in st.body:
                            if isinstance(s2, ast.Assign):
                                for t in s2.targets:
                                    if isinstance(t, ast.Attribute) and isinstance(t.value, ast.Name) and t.value.id == "self":
                                        shadowed.append((node.name, t.attr))
            elif isinstance(node, ast.Assign) and rel in CORE:
                for t in node.targets:
                    if isinstance(t, ast.Name) and t.id != "__all__":
                        module_objs.append((rel, t.id, ast.unparse(node.value)[:60]))
        for node in ast.walk(tree):
            # ClassName.attr = / += / -=
            tgt = None
            if isinstance(node, ast.Assign): tgt = node.targets
            elif isinstance(node, ast.AugAssign): tgt = [node.target]
            if tgt:
                for t in tgt:
                    if isinstance(t, ast.Attribute) and isinstance(t.value, ast.Name) and t.value.id in class_names:
                        mutations.append((t.value.id, t.attr, rel))
            # ClassName.attr.append(...)
            if isinstance(node, ast.Call) and isinstance(node.func, ast.Attribute) and node.func.attr in ("append", "extend", "insert", "pop", "clear", "remove"):
                v = node.func.value
                if isinstance(v, ast.Attribute) and isinstance(v.value, ast.Name) and v.value.id in class_names:
                    mutations.append((v.value.id, v.attr, rel))
    # reset list
    for node in ast.walk(trees["pep.py"]):
        if isinstance(node, ast.FunctionDef) and node.name == "_reset_classes":
            for st in ast.walk(node):
                if isinstance(st, ast.Assign):
                    for t in st.targets:
                        if isinstance(t, ast.Attribute) and isinstance(t.value, ast.Name):
                            reset.append((t.value.id, t.attr, ast.unparse(st.value)))
    # is `self._reset_classes()` a top-level (unconditional) statement of PEP.__init__ ?
    uncond = False
    for node in ast.walk(trees["pep.py"]):
        if isinstance(node, ast.ClassDef) and node.name == "PEP":
            for st in node.body:
                if isinstance(st, ast.FunctionDef) and st.name == "__init__":
                    for s2 in st.body:
                        if isinstance(s2, ast.Expr) and isinstance(s2.value, ast.Call) and isinstance(s2.value.func, ast.Attribute) \
                                and s2.value.func.attr == "_reset_classes" and isinstance(s2.value.func.value, ast.Name) and s2.value.func.value.id == "self":
                            uncond = True
    scan.reset_unconditional = uncond
    scan.mutable_attrs, scan.shadowed = mutable_attrs, shadowed
    return class_attrs, module_objs, mutations, reset


def main(repo, out_json, out_lean):
    class_attrs, module_objs, mutations, reset = scan(repo)
    mutated = sorted({(c, a) for c, a, _ in mutations})
    declared = sorted({(c, a) for c, a, _ in class_attrs})
    # class-level state = declared at class level AND mutated through the class somewhere
    # ... or a mutable container created at class level that __init__ does not rebind on the instance
    shared = sorted({x for x in scan.mutable_attrs if x not in set(scan.shadowed)})
    state = sorted({x for x in declared if x in mutated} | set(shared))
    resetset = sorted({(c, a) for c, a, _ in reset})
    json.dump(dict(class_attrs=class_attrs, module_objs=module_objs, mutations=mutations, reset=reset, state=state), open(out_json, "w"), indent=1)
    def lst(xs): return "[" + ", ".join('("%s", "%s")' % x for x in xs) + "]"
    lean = "/-! GENERATED by translator T2 (gen_inventory.py) from the working tree of /repo. Do not edit. -/\n\nnamespace Gen.Inventory\n\n"
    lean += "/-- class attributes declared at class level and mutated through the class somewhere in PEPit -/\ndef classState : List (String × String) :=\n  %s\n\n" % lst(state)
    lean += "/-- mutable containers created at class level and not rebound by `__init__` (shared by all instances) -/\ndef sharedContainers : List (String × String) :=\n  %s\n\n" % lst(shared)
    lean += "/-- `self._reset_classes()` is an unconditional top-level statement of `PEP.__init__` -/\ndef resetInInit : Bool := %s\n\n" % ("true" if scan.reset_unconditional else "false")
    lean += "/-- every `Class.attr` mutated through the class anywhere (declared at class level or not) -/\ndef mutated : List (String × String) :=\n  %s\n\n" % lst(mutated)
    lean += "/-- the attributes `PEP._reset_classes` assigns -/\ndef reset : List (String × String) :=\n  %s\n\n" % lst(resetset)
    lean += "/-- initial values at class level and values assigned by the reset, as source text -/\ndef initial : List (String × String × String) :=\n  [%s]\n\n" % ", ".join('("%s", "%s", "%s")' % (c, a, v.replace('"', "'")) for c, a, v in class_attrs if (c, a) in state)
    lean += "def resetValues : List (String × String × String) :=\n  [%s]\n\n" % ", ".join('("%s", "%s", "%s")' % (c, a, v.replace('"', "'")) for c, a, v in reset)
    lean += "/-- module-level objects of the core modules -/\ndef moduleObjects : List (String × String) :=\n  %s\n\n" % lst([(r, n) for r, n, _ in module_objs])
    lean += "end Gen.Inventory\n"
    open(out_lean, "w").write(lean)
    return state, mutated, resetset, module_objs


if __name__ == "__main__":
    state, mutated, resetset, module_objs = main(sys.argv[1], sys.argv[2], sys.argv[3])
    print("class state:", state); print("mutated:", mutated); print("reset:", resetset); print("module objects:", [(r, n) for r, n, _ in module_objs])
