"""Run every translator against the working tree of the repository: gen_all.py <repo> <outdir>."""
import sys, os, warnings
warnings.filterwarnings("ignore")
sys.path.insert(0, os.path.dirname(os.path.abspath(__file__)))
repo, out = sys.argv[1], sys.argv[2]
import gen_classes, gen_inventory
gen_classes.main(os.path.join(out, "classes.json"), os.path.join(out, "GenClasses.lean"))
gen_inventory.main(repo, os.path.join(out, "inventory.json"), os.path.join(out, "GenInventory.lean"))
for extra in ("gen_steps", "gen_misc"):
    try:
        mod = __import__(extra)
    except ImportError:
        continue
    mod.main(repo, out)
print("translators ok")
