"""run shipped worked examples with an accurate solver; helper of the C09 / C10 oracles"""
import warnings; warnings.filterwarnings("ignore")
import json, importlib, sys, os, time, io, contextlib


def patch_solver():
    import PEPit.pep as pp
    if not getattr(pp.PEP, "_pepv_patched", False):
        orig = pp.PEP.solve
        def solve(self, *a, **kw):
            if kw.get("solver", None) is None: kw["solver"] = os.environ.get("PEPV_SOLVER", "CLARABEL")
            try:
                return orig(self, *a, **kw)
            except Exception as ex:
                if type(ex).__name__ == "SolverError":
                    kw["solver"] = "SCS"; kw.setdefault("eps", 1e-8)
                    return orig(self, *a, **kw)
                raise
        pp.PEP.solve = solve; pp.PEP._pepv_patched = True


def run_example(module, func, args):
    patch_solver()
    a = dict(args); a["verbose"] = -1
    t = time.time()
    try:
        fn = getattr(importlib.import_module(module), func)
        with contextlib.redirect_stdout(io.StringIO()):
            r = fn(**a)
        p, th = r[0], r[1]
        return dict(pepit=None if p is None else float(p), theory=None if th is None else float(th), s=time.time() - t, err=None)
    except Exception as e:
        return dict(pepit=None, theory=None, s=time.time() - t, err=type(e).__name__ + ": " + str(e)[:120])


def _job(j):
    return run_example(*j)


def run_many(jobs, procs):
    from multiprocessing import Pool
    if procs <= 1: return [_job(j) for j in jobs]
    with Pool(procs) as p:
        return p.map(_job, jobs, chunksize=1)


if __name__ == "__main__":
    # build the reference table from the current tree: mk_table <out>
    calls = json.load(open(os.path.join(os.path.dirname(os.path.abspath(__file__)), "example_calls.json")))
    jobs = [(c["module"], c["func"], {k: v for k, v in c["args"].items() if k not in ("wrapper", "solver", "verbose")}) for c in calls]
    res = run_many(jobs, int(sys.argv[2]) if len(sys.argv) > 2 else 12)
    out = []
    for c, j, r in zip(calls, jobs, res):
        doc = getattr(importlib.import_module(c["module"]), c["func"]).__doc__ or ""
        rel = None
        if r["pepit"] is not None and r["theory"] is not None:
            rel = abs(r["pepit"] - r["theory"]) / max(abs(r["theory"]), 1e-12) if r["theory"] != 0 else abs(r["pepit"])
        out.append(dict(module=c["module"], func=c["func"], args=j[2], pepit=r["pepit"], theory=r["theory"], rel=rel, err=r["err"],
                        doc_tight=("tight" in doc.lower()), doc_upper=("upper" in doc.lower()), s=round(r["s"], 2)))
    json.dump(out, open(sys.argv[1], "w"), indent=1)
    for o in out:
        print("%-55s %-28s pepit=%-12s theory=%-12s rel=%s %s" % (o["module"].split(".")[-1], str(o["args"])[:28], o["pepit"] and round(o["pepit"], 7), o["theory"] and round(o["theory"], 7), None if o["rel"] is None else "%.1e" % o["rel"], o["err"] or ""))
