"""C09: independent NumPy implementations of the modelled methods, run on concrete members of the declared
classes from admissible starting points; the observed performance must not exceed the value the
library returns for that setting (solver tolerance allowed)."""
import warnings; warnings.filterwarnings("ignore")
import sys, os, json, random, math
import numpy as np

HERE = os.path.dirname(os.path.abspath(__file__))


def spd(rng, lo, hi, n):
    Q, _ = np.linalg.qr(rng.normal(size=(n, n)))
    ev = rng.uniform(lo, hi, size=n); ev[0] = lo; ev[-1] = hi
    return Q @ np.diag(ev) @ Q.T


def unit(rng, n):
    v = rng.normal(size=n); return v / np.linalg.norm(v)


def huber(L, delta):
    def f(x):
        r = np.linalg.norm(x); return L * (0.5 * r * r if r <= delta else delta * (r - 0.5 * delta))
    def g(x):
        r = np.linalg.norm(x); return L * (x if r <= delta else delta * x / r)
    return f, g


def smooth_convex_members(rng, L, mu=0.0, dim=3):
    """(f, grad, minimiser, fmin) for L-smooth mu-strongly convex functions"""
    out = []
    A = spd(rng, mu, L, dim); xs = rng.normal(size=dim)
    out.append((lambda x: 0.5 * (x - xs) @ A @ (x - xs), lambda x: A @ (x - xs), xs, 0.0))
    a = L if rng.random() < .5 else rng.uniform(max(mu, 0.0), L)
    out.append((lambda x: 0.5 * a * x @ x, lambda x: a * x, np.zeros(1), 0.0))          # 1-D extreme curvature
    if mu == 0:
        for delta in (rng.uniform(0.05, 1.0), 1.0 / (2 * rng.integers(1, 8) + 1)):
            hf, hg = huber(L, float(delta)); out.append((hf, hg, np.zeros(dim), 0.0))
    else:
        # mu/2 |x|^2 + Huber with curvature L - mu
        hf, hg = huber(L - mu, float(rng.uniform(0.05, 1.0)))
        out.append((lambda x: 0.5 * mu * x @ x + hf(x), lambda x: mu * x + hg(x), np.zeros(dim), 0.0))
    return out


def nonexpansive_members(rng, dim=3):
    out = []
    Q, _ = np.linalg.qr(rng.normal(size=(dim, dim)))
    out.append((lambda x: Q @ x, np.zeros(dim)))                       # isometry, fixed point 0
    th = rng.uniform(0.1, 3.1); R = np.array([[math.cos(th), -math.sin(th)], [math.sin(th), math.cos(th)]])
    out.append((lambda x: R @ x, np.zeros(2)))                         # planar rotation (worst case for Halpern / KM)
    out.append((lambda x: -x, np.zeros(dim)))
    c = rng.normal(size=dim)
    out.append((lambda x: c + (x - c) * 0.5, c))
    return out


def start(rng, xs, radius=1.0):
    d = unit(rng, len(xs)); return xs + radius * d * (1.0 if rng.random() < .7 else rng.uniform(0.2, 1.0))


# ------------------------------------------------------------------ methods (transcribed from the documented algorithms)
def m_gradient_descent(rng, a):
    L, gam, n = a["L"], a["gamma"], a["n"]; best = 0.0
    for f, g, xs, fs in smooth_convex_members(rng, L):
        x = start(rng, xs)
        for _ in range(n): x = x - gam * g(x)
        best = max(best, f(x) - fs)
    return best


def m_gd_contraction(rng, a):
    L, mu, gam, n = a["L"], a["mu"], a["gamma"], a["n"]; best = 0.0
    for f, g, xs, fs in smooth_convex_members(rng, L, mu):
        x = rng.normal(size=len(xs)); y = x + unit(rng, len(xs))
        for _ in range(n): x, y = x - gam * g(x), y - gam * g(y)
        best = max(best, float((x - y) @ (x - y)))
    return best


def m_accelerated_gradient_convex(rng, a):
    L, n = a["L"], a["n"]; best = 0.0
    for f, g, xs, fs in smooth_convex_members(rng, L):
        x0 = start(rng, xs); xn, y = x0, x0
        for i in range(n):
            xo = xn; xn = y - g(y) / L; y = xn + i / (i + 3) * (xn - xo)
        best = max(best, f(xn) - fs)
    return best


def m_heavy_ball(rng, a):
    mu, L, al, be, n = a["mu"], a["L"], a["alpha"], a["beta"], a["n"]; best = 0.0
    for f, g, xs, fs in smooth_convex_members(rng, L, mu):
        d = unit(rng, len(xs))
        # scale the start so that f(x0) - f* = 1 (the documented initial condition f(x0) - f* <= 1)
        lo, hi = 0.0, 1.0
        while f(xs + hi * d) - fs < 1: hi *= 2
        for _ in range(80):
            mid = (lo + hi) / 2
            if f(xs + mid * d) - fs < 1: lo = mid
            else: hi = mid
        x0 = xs + lo * d; xn, xo = x0, x0
        for _ in range(n):
            xx = xn - al * g(xn) + be * (xn - xo); xo, xn = xn, xx
        best = max(best, f(xn) - fs)
    return best


def m_subgradient(rng, a):
    M, n, gam = a["M"], a["n"], a["gamma"]; best = 0.0
    mems = []
    for dim in (1, 3):
        mems.append((lambda x: M * np.linalg.norm(x), lambda x: (M * x / np.linalg.norm(x)) if np.linalg.norm(x) > 0 else M * unit(rng, len(x)), np.zeros(dim), 0.0))
    w = unit(rng, 3)
    mems.append((lambda x: M * abs(w @ x), lambda x: M * w * (1 if w @ x >= 0 else -1), np.zeros(3), 0.0))
    for f, g, xs, fs in mems:
        x = start(rng, xs); vals = [f(x)]
        for _ in range(n):
            x = x - gam * g(x); vals.append(f(x))
        best = max(best, min(vals) - fs)
    return best


def m_halpern(rng, a):
    n = a["n"]; best = 0.0
    for A, xs in nonexpansive_members(rng):
        x0 = start(rng, xs); x = x0
        for i in range(n): x = x0 / (i + 2) + (1 - 1 / (i + 2)) * A(x)
        best = max(best, float((x - A(x)) @ (x - A(x))))
    return best


def m_km(rng, a):
    n, gam = a["n"], a["gamma"]; best = 0.0
    for A, xs in nonexpansive_members(rng):
        x = start(rng, xs)
        for _ in range(n): x = (1 - gam) * x + gam * A(x)
        r = 0.5 * (x - A(x)); best = max(best, float(r @ r))
    return best


def m_proximal_point(rng, a):
    gam, n = a["gamma"], a["n"]; best = 0.0
    mems = []
    c = rng.uniform(0.2, 3.0)
    # f = c |x|_1 : prox = soft threshold; f = c ||x||: prox = block soft threshold; quadratic: resolvent
    mems.append((lambda x: c * np.abs(x).sum(), lambda x, t: np.sign(x) * np.maximum(np.abs(x) - t * c, 0), np.zeros(3)))
    mems.append((lambda x: c * np.linalg.norm(x), lambda x, t: x * max(0.0, 1 - t * c / max(np.linalg.norm(x), 1e-300)), np.zeros(3)))
    Aq = spd(rng, 0.0, rng.uniform(0.5, 5.0), 3); xq = rng.normal(size=3)
    mems.append((lambda x: 0.5 * (x - xq) @ Aq @ (x - xq), lambda x, t: xq + np.linalg.solve(np.eye(3) + t * Aq, x - xq), xq))
    for f, prox, xs in mems:
        x = start(rng, xs)
        for _ in range(n): x = prox(x, gam)
        best = max(best, f(x) - f(xs))
    return best


def m_proximal_gradient(rng, a):
    L, mu, gam, n = a["L"], a["mu"], a["gamma"], a["n"]; best = 0.0
    for trial in range(3):
        A = spd(rng, mu, L, 3); b = rng.normal(size=3); lam = rng.uniform(0.0, 1.0)
        g1 = lambda x: A @ x + b
        prox = lambda x, t: np.sign(x) * np.maximum(np.abs(x) - t * lam, 0)
        xs = np.zeros(3)
        for _ in range(20000): xs = prox(xs - g1(xs) / L, 1 / L)
        x = start(rng, xs)
        for _ in range(n): x = prox(x - gam * g1(x), gam)
        best = max(best, float((x - xs) @ (x - xs)))
    return best


def m_frank_wolfe(rng, a):
    L, D, n = a["L"], a["D"], a["n"]; best = 0.0
    R = D / 2
    for trial in range(3):
        A = spd(rng, 0.0, L, 3); c = rng.normal(size=3) * rng.choice([0.3, 2.0])
        f = lambda x: 0.5 * (x - c) @ A @ (x - c); g = lambda x: A @ (x - c)
        lmo = lambda d: -R * d / max(np.linalg.norm(d), 1e-300)                 # argmin over the ball of radius D/2
        xs = np.zeros(3)
        for _ in range(20000):                                                  # projected gradient to locate the constrained minimum
            xs = xs - g(xs) / L; r = np.linalg.norm(xs); xs = xs if r <= R else xs * R / r
        x = unit(rng, 3) * R * rng.uniform(0, 1)
        for i in range(n):
            y = lmo(g(x)); lam = 2 / (i + 2); x = (1 - lam) * x + lam * y
        best = max(best, f(x) - f(xs))
    return best


def m_sgd(rng, a):
    """one SGD step in expectation over n quadratics whose gradients at the common minimiser have mean 0 and
    mean squared norm v^2"""
    L, mu, gam, v, R, n = a["L"], a["mu"], a["gamma"], a["v"], a["R"], a["n"]; best = 0.0
    for dim in (1, 3):
        As = [spd(rng, mu, L, dim) if dim > 1 else np.array([[rng.choice([mu, L])]]) for _ in range(n)]
        gs = rng.normal(size=(n, dim)); gs -= gs.mean(axis=0)              # sum of gradients at x* is zero
        sc = math.sqrt(np.mean((gs ** 2).sum(axis=1)))
        if sc > 0: gs *= v / sc
        xs = rng.normal(size=dim)
        grads = [lambda x, A=A, g=g: A @ (x - xs) + g for A, g in zip(As, gs)]
        x0 = xs + R * unit(rng, dim)
        best = max(best, float(np.mean([((x0 - gam * g(x0) - xs) ** 2).sum() for g in grads])))
    return best


METHODS = [
    ("unconstrained_convex_minimization.gradient_descent", "wc_gradient_descent", m_gradient_descent,
     lambda r: (lambda L: dict(L=L, gamma=r.choice([1.0, 0.5, 1.5, 0.25]) / L, n=r.randint(1, 5)))(r.choice([1.0, 2.0, 0.5]))),
    ("tutorials.gradient_descent_contraction", "wc_gradient_descent_contraction", m_gd_contraction,
     lambda r: (lambda L: dict(L=L, mu=r.choice([0.1, 0.3]) * L, gamma=r.choice([1.0, 0.5, 1.5, 1.9]) / L, n=r.randint(1, 3)))(r.choice([1.0, 2.0]))),
    ("unconstrained_convex_minimization.accelerated_gradient_convex", "wc_accelerated_gradient_convex", m_accelerated_gradient_convex,
     lambda r: dict(mu=0, L=r.choice([1.0, 2.0]), n=r.randint(1, 6))),
    ("unconstrained_convex_minimization.heavy_ball_momentum", "wc_heavy_ball_momentum", m_heavy_ball,
     lambda r: (lambda mu, L: dict(mu=mu, L=L, alpha=1 / (2 * L), beta=math.sqrt((1 - 1 / (2 * L) * mu) * (1 - L * 1 / (2 * L))), n=r.randint(1, 3)))(0.1, 1.0)),
    ("unconstrained_convex_minimization.subgradient_method", "wc_subgradient_method", m_subgradient,
     lambda r: (lambda M, n: dict(M=M, n=n, gamma=r.choice([1.0, 0.5, 2.0]) / (M * math.sqrt(n + 1))))(r.choice([1.0, 2.0]), r.randint(1, 6))),
    ("fixed_point_problems.halpern_iteration", "wc_halpern_iteration", m_halpern, lambda r: dict(n=r.randint(1, 8))),
    ("fixed_point_problems.krasnoselskii_mann_constant_step_sizes", "wc_krasnoselskii_mann_constant_step_sizes", m_km,
     lambda r: dict(n=r.randint(1, 8), gamma=r.choice([0.5, 0.75, 0.9, 0.97, 0.6, 1.0]))),
    ("unconstrained_convex_minimization.proximal_point", "wc_proximal_point", m_proximal_point,
     lambda r: dict(gamma=r.choice([0.1, 1.0, 3.0]), n=r.randint(1, 5))),
    ("composite_convex_minimization.proximal_gradient", "wc_proximal_gradient", m_proximal_gradient,
     lambda r: (lambda L: dict(L=L, mu=0.1 * L, gamma=r.choice([1.0, 0.5, 1.5]) / L, n=r.randint(1, 3)))(r.choice([1.0, 2.0]))),
    ("stochastic_and_randomized_convex_minimization.sgd", "wc_sgd", m_sgd,
     lambda r: (lambda L: dict(L=L, mu=0.1 * L, gamma=1 / L, v=r.choice([1.0, 2.0, 3.0, 0.5]), R=r.choice([1.0, 0.5, 2.0]), n=r.randint(2, 3)))(r.choice([1.0, 2.0]))),
    ("composite_convex_minimization.frank_wolfe", "wc_frank_wolfe", m_frank_wolfe,
     lambda r: dict(L=r.choice([1.0, 2.0]), D=r.choice([1.0, 2.0]), n=r.randint(1, 5))),
]


def c09_runs(n, seed, procs):
    """for n (method, parameter) settings inside the documented ranges: the library's bound vs the best
    performance observed over real members (quadratics with extreme curvature, Huber functions, norms,
    rotations/isometries, soft-threshold proxes, ball-constrained quadratics) from admissible starts"""
    from examples_run import run_many
    rnd = random.Random(seed * 3301 + 1)
    settings = []
    for it in range(n):
        name, func, sim, samp = METHODS[(it + seed) % len(METHODS)]
        settings.append((name, func, sim, samp(rnd)))
    res = run_many([("PEPit.examples." + nm, fn, a) for nm, fn, _, a in settings], procs)
    fails, samples, distinct = [], [], set()
    for k, ((nm, fn, sim, a), r) in enumerate(zip(settings, res)):
        desc = dict(method=nm, args=a)
        distinct.add(nm + json.dumps(a, sort_keys=True))
        if r["err"]:
            # SolverError: inconclusive; ValueError/AssertionError: the example rejects the tuple (outside its documented range)
            if any(k in r["err"] for k in ("SolverError", "ValueError", "AssertionError")): continue
            fails.append(dict(what="%s raises %s" % (nm, r["err"]), oracle="c09_runs", input=desc, tags=["c09"])); continue
        tau = r["pepit"]
        if tau is None: continue            # no finite guarantee claimed for this setting
        rng = np.random.default_rng(seed * 1000 + k)
        perf = max(sim(rng, a) for _ in range(6))
        if perf > tau * (1 + 1e-5) + 1e-6:
            fails.append(dict(what="%s: a real run reaches %.9g, the returned bound is %.9g" % (nm, perf, tau), oracle="c09_runs", input=desc, observed=perf, expected="<= %.9g" % tau, tags=["c09"]))
        if len(samples) < 4: samples.append(dict(desc, bound=tau, best_real_run=perf))
    return dict(evaluations=len(settings), distinct=len(distinct), failures=fails[:6], samples=samples)


ORACLES = dict(c09_runs=c09_runs)
