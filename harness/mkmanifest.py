"""writes /verif/MANIFEST.json from the property registry"""
import json, sys, os
sys.path.insert(0, os.path.dirname(os.path.abspath(__file__)))
import propdefs

TEXT = {
 "C01": ("Lean theorems for all lists of sent items: dual routing of the cvxpy wrapper (recover_spec/routing) and weak duality (cert_sound, trace_mul_nonneg_of_posSemidef); the executable model of solve/assign_dual_values/check_feasibility is tied to the code by scripted-solver streams (tagged multipliers), and a numeric oracle rebuilds the identity from the exposed multipliers after real solves. Partial: solver KKT accuracy is monitored, not proved.", "6 C01"),
 "C02": ("Lean theorems: Gram bridge (evalGF at a Gram matrix = denotation), the executable evaluation of the model computes evalGF of the injected solution, objective = smallest metric; model tied to eval() by scripted-solve streams; numeric oracle after real solves (P^T P vs clipped G, combinations, feasibility, primal <= dual). Partial: floating-point/eigendecomposition accuracy is monitored.", "6 C02"),
 "C03": ("Soundness theorems for every scalar condition and every LMI of the 24 shipped classes, stated on formulas REGENERATED from the source by symbolic tracing (translator T1) and proved equal to canonical forms; cls stream ties the glue; concrete members sampled as support.", "6 C03"),
 "C04": ("Completeness and order-independence theorems for the two pair enumerators (definitions shared with the executable world model), one Gen = Canon (documented form) theorem per regenerated formula; order oracle compares constraint multisets under permuted declaration orders. Partial: sufficiency (converse interpolation) is literature-trusted.", "6 C04"),
 "C05": ("dense_correct / sparse_correct / sparse_lower for every duplicate-free decomposition and symmetric G; collect+tee stream compares the sent list, dense matrices and the MOSEK Task call list of the real wrappers with the model; translator oracle evaluates the real matrices exactly.", "6 C05"),
 "C06": ("Homomorphism, comparison and well-formedness theorems on the literal dictionary compositions of the overloads; tree stream is bit-exact model = implementation; direct oracles: exact evaluation of random trees and the full operator x operand-kind table.", "6 C06"),
 "C07": ("run_inv: for every world of declared leaf/composite functions and EVERY finite sequence of oracle / gradient / value calls, every triplet recorded on a composite is the weighted sum of triplets recorded at the same point on its terms and all stored dictionaries stay well formed (induction over the call list; oracleA_inv, addPointA_composite_inv, distribute_spec, classify_perm, combine specs), on the value-level function machine that the oracle stream runs beside the handle-level world and the implementation. Partial: stationary_point / fixed_point / steps only by one-step theorems and streams; value uniqueness not closed as a global invariant; exact arithmetic.", "6 C07"),
 "C08": ("den_* theorems on the step formula functions the executable step models are built from (returned-point relations, side constraints of every option), real_sound for proximal / linear-optimisation / inexact-gradient steps; steps stream compares returned points, recorded samples, constraints, names, counters with the real steps; exact-evaluation oracle re-derives the documented relations independently. Partial: line-search, Bregman and inexact-prox real sides not formalised.", "6 C08"),
 "C09": ("pipeline_sound: for every real execution (actual vectors in any inner-product space) at whose Gram matrix the sent constraints hold, performance <= tau under the certificate identity (cert_sound + Matrix.posSemidef_gram); constraint validity for members comes from the C03/C08 theorems. Supported by independent NumPy runs of 10 method families on concrete members. Partial: fidelity of each example script to its named method is only sampled.", "6 C09"),
 "C10": ("Mostly correspondence: 19 published closed forms transcribed as executable Lean definitions with decidable validity ranges, compared with the examples on parameter grids inside those ranges; all 103 suite calls against a frozen claim table; equivalent formulations. Lean proves only that the gradient-descent contraction rate is attained by real members and small algebraic facts; SDP-optimum = closed-form is NOT formalised.", "6 C10"),
 "C11": ("row_holds_iff / dense_holds_iff / backends_same_constraint (both back-ends impose evalGF(expr) <= 0 / = 0), lmi_row_iff (coupling rows), mrecover_spec (MOSEK dual routing for all item lists); the real MosekWrapper's Task call list is compared with the model on a stand-in mosek module; numeric oracle runs both back-ends. Partial: real MOSEK is absent.", "6 C11"),
 "C14": ("duals_from_first_solve / recover_once_after_first_solve / primal_from_last_solve on the flow model (compared call by call with _solve_with_wrapper under a scripted wrapper for every option), and the optimisation argument (heuristic_feasible, primal_within_tol, trace_nonincreasing) for an optimal-solver oracle; numeric oracle with real solves on well and badly scaled models. Partial: solver optimality is an assumption.", "6 C14"),
 "C12": ("reset_covers / reset_restores_initial / model_covers_state / module_objects_known decided by the kernel on the inventory REGENERATED from the source (translator T2), history_independent on the model; streams run thousands of programs in one interpreter against a model that starts fresh; fresh-subprocess oracle.", "6 C12"),
 "C13": ("Theorems on the evaluation/caching state machine (fresh objects evaluate to the latest solution; cached ones are stale: kernel-checked witness); scripted histories of solves/edits/evaluations; real re-solves. Partial, with three known findings.", "6 C13"),
 "C15": ("blocks_sum_back, one_block_identity, ortho_complete, ortho_only, real_projection_sound on the literal model of BlockPartition; cls/collect streams; direct oracle on random decompositions.", "6 C15"),
 "C16": ("Error-kind theorems on the evaluation model (every accessor raises ValueError before any solve); unsolved/failed-solve streams; direct oracle over object kinds, unbounded and infeasible models, invalid options.", "6 C16"),
 "C17": ("tableTwo_entry / dualTable_entry / pairsTwo_eq_table on the table definitions the world model executes; cls stream compares every table; scripted-dual oracle. Partial, with known findings (block-smooth, linear operator).", "6 C17"),
}
checks = []
for pid in sorted(propdefs.PROPS):
    P = propdefs.PROPS[pid]
    text, ref = TEXT.get(pid, ("Lean theorems + correspondence", "6"))
    checks.append(dict(property_id=pid, quick_cmd="./check %s --tier quick" % pid, thorough_cmd="./check %s --tier thorough" % pid,
                       evidence_file="evidence/%s.json" % pid, replay_cmd_template="./check %s --replay {path}" % pid,
                       engine="lean4-proof+correspondence",
                       level_claimed=dict(category="proof", text=text, design_ref="DESIGN.md section " + ref),
                       level_note="; ".join(P["assumptions"]) + ". Trusted base: " + "; ".join(P["trusted_base"][:4]),
                       technique="machine-checked proof in Lean 4 (kernel-checked theorems about an executable model; model tied to the code by regenerated definitions and differential correspondence streams)"))
allp = [json.loads(l)["id"] for l in open("/verif/properties.jsonl")]
na = [dict(property_id=p, reason="check under construction in this build round (Lean model and theorems not yet committed); see DESIGN.md section 6") for p in allp if p not in propdefs.PROPS]
m = dict(version=1,
         setup_cmd="cd lean && lake build PepitModel PepitVerif driver",
         hooks=dict(guard="PEPIT_VERIF", enable="no source hooks: all observation is through public attributes, runtime wrapping from the harness, a scripted Wrapper subclass and a stand-in mosek module (harness/stubs); PEPIT_VERIF=1 is exported by the harness but read by nothing in /repo",
                    baseline_off_cmd="cd /repo && /venv/bin/python -m pytest -ra -q -p no:cacheprovider --timeout=900 --continue-on-collection-errors",
                    source_commits=[], add_only=True),
         engines=[dict(name="lean4-proof+correspondence", path="lean/ + harness/", serves_properties=sorted(propdefs.PROPS), kind_free_text="Lean 4 development (model, generated definitions, theorems) + Python correspondence harness and translators")],
         checks=checks, not_applicable=na,
         notes="Every check: translate (Gen files from /repo) -> lake build -> #print axioms audit -> correspondence streams -> known findings -> search on breakage -> evidence. KNOWN_FINDINGS.json lists open findings and fixed: entries.")
json.dump(m, open("/verif/MANIFEST.json", "w"), indent=1)
print("checks", len(checks), "not_applicable", [x["property_id"] for x in na])
