"""Seeded-change tooling.
  seedtool.py verify <Cxx> <k>      confirm a candidate in a scratch worktree (demo fails with / passes without, suite green)
  seedtool.py detect <name> [props] apply /verif/seeded/<name>/patch.diff to /repo, run the quick checks, undo
  seedtool.py store  <Cxx> <k>      copy a verified candidate to /verif/seeded/<Cxx>-<k>/"""
import sys, os, json, subprocess, shutil, time, re, glob

PY = "/venv/bin/python"
SEEDWORK = "/tmp/seedwork"
VERIF = os.path.dirname(os.path.dirname(os.path.abspath(__file__)))
KNOWN_FAIL = {"test_gradient_descent_lc"}


def sh(cmd, cwd=None, timeout=None, env=None):
    return subprocess.run(cmd, cwd=cwd, capture_output=True, text=True, timeout=timeout, env=env, shell=isinstance(cmd, str))


def verify(pid, k):
    src = os.path.join(SEEDWORK, pid, "out", str(k))
    wt = "/tmp/sv/%s_%s" % (pid, k)
    os.makedirs("/tmp/sv", exist_ok=True)
    sh(["git", "-C", "/repo", "worktree", "remove", "--force", wt]); shutil.rmtree(wt, ignore_errors=True)
    r = sh(["git", "-C", "/repo", "worktree", "add", "--detach", wt, "HEAD"])
    res = dict(pid=pid, k=k, head=sh(["git", "-C", "/repo", "rev-parse", "HEAD"]).stdout.strip())
    try:
        for f in os.listdir(src):
            if f.endswith(".py") and f != "demo.py": shutil.copy(os.path.join(src, f), wt)      # helper modules of the demo (e.g. fake mosek)
        shutil.copy(os.path.join(src, "demo.py"), os.path.join(wt, "demo_seed.py"))
        env = dict(os.environ, PYTHONWARNINGS="ignore")
        d0 = sh([PY, "demo_seed.py"], cwd=wt, timeout=1800, env=env)
        res["demo_clean_rc"] = d0.returncode; res["demo_clean_tail"] = (d0.stdout + d0.stderr)[-400:]
        a = sh(["git", "apply", os.path.join(src, "patch.diff")], cwd=wt)
        res["apply_rc"] = a.returncode; res["apply_err"] = a.stderr[-300:]
        if a.returncode == 0:
            d1 = sh([PY, "demo_seed.py"], cwd=wt, timeout=1800, env=env)
            res["demo_patched_rc"] = d1.returncode; res["demo_patched_tail"] = (d1.stdout + d1.stderr)[-800:]
            for f in os.listdir(src):          # helper modules of the demo (e.g. a fake mosek) must not leak into the suite
                if f.endswith(".py") and os.path.exists(os.path.join(wt, f)) and f != "demo.py": os.remove(os.path.join(wt, f))
            os.remove(os.path.join(wt, "demo_seed.py"))
            t0 = time.time()
            s = sh([PY, "-m", "pytest", "-q", "-p", "no:cacheprovider", "--timeout=900", "tests", "-x", "--deselect",
                    "tests/test_examples.py::TestExamplesCVXPY::test_gradient_descent_lc", "--deselect",
                    "tests/test_examples.py::TestExamplesMosek::test_gradient_descent_lc"], cwd=wt, timeout=3600, env=env)
            res["suite_rc"] = s.returncode; res["suite_tail"] = s.stdout.strip().splitlines()[-1] if s.stdout.strip() else s.stderr[-300:]
            res["suite_s"] = round(time.time() - t0)
        res["ok"] = bool(res.get("apply_rc") == 0 and res.get("demo_clean_rc") == 0 and res.get("demo_patched_rc") not in (0, None) and res.get("suite_rc") == 0)
    finally:
        sh(["git", "-C", "/repo", "worktree", "remove", "--force", wt]); shutil.rmtree(wt, ignore_errors=True)
    json.dump(res, open(os.path.join(src, "verify.json"), "w"), indent=1)
    print(json.dumps({k_: res[k_] for k_ in res if k_ in ("pid", "k", "ok", "demo_clean_rc", "demo_patched_rc", "suite_rc", "suite_tail", "apply_rc")}))
    return res


def store(pid, k):
    src = os.path.join(SEEDWORK, pid, "out", str(k))
    v = json.load(open(os.path.join(src, "verify.json")))
    assert v["ok"], "not verified"
    dst = os.path.join(VERIF, "seeded", "%s-%s" % (pid, k)); os.makedirs(dst, exist_ok=True)
    for f in os.listdir(src):
        if f.endswith((".diff", ".py", ".md")): shutil.copy(os.path.join(src, f), dst)
    notes = open(os.path.join(src, "notes.md")).read() if os.path.exists(os.path.join(src, "notes.md")) else ""
    meta = dict(property=pid, breaks=pid, source="independent sub-agent given only the property text and a scratch worktree",
                needs_to_manifest=notes[:1500], base_commit=v["head"],
                confirmed=dict(what_ran=["git apply patch.diff in a scratch worktree of /repo HEAD", "python demo.py on the clean tree (exit 0) and on the patched tree (exit != 0)",
                                         "pytest -q --timeout=900 tests (the two baseline always-failing tests deselected) on the patched tree: all pass"],
                               demo_clean_rc=v["demo_clean_rc"], demo_patched_rc=v["demo_patched_rc"], suite=v["suite_tail"], demo_patched_tail=v["demo_patched_tail"][-500:]),
                detection=None)
    json.dump(meta, open(os.path.join(dst, "meta.json"), "w"), indent=1)
    print("stored", dst)


def detect(name, props=None, tier="quick"):
    d = os.path.join(VERIF, "seeded", name)
    meta = json.load(open(os.path.join(d, "meta.json")))
    props = props or [meta["property"]]
    st = sh(["git", "-C", "/repo", "status", "--porcelain"]).stdout.strip()
    assert not st, "/repo not clean: " + st
    a = sh(["git", "-C", "/repo", "apply", os.path.join(d, "patch.diff")])
    assert a.returncode == 0, a.stderr
    out = {}
    evbak = "/tmp/seed_evidence_backup"; shutil.rmtree(evbak, ignore_errors=True)
    shutil.copytree(os.path.join(VERIF, "evidence"), evbak)      # evidence must describe runs against /repo itself, never a mutated tree
    try:
        for p in props:
            t0 = time.time()
            r = sh([os.path.join(VERIF, "check"), p, "--tier", tier], cwd=VERIF, timeout=7200, env=dict(os.environ, VERIF_SEED=os.environ.get("VERIF_SEED", "0")))
            lines = [l for l in r.stdout.splitlines() if l.startswith("VIOLATION") or l.startswith("OK ") or l.startswith("FAIL ")]
            rp = None
            m = re.search(r"replay=(\S+)", r.stdout)
            if m and os.path.exists(m.group(1)):
                rp = json.load(open(m.group(1)))
                rp = dict(kind=rp.get("kind"), what=rp.get("what"), broken=rp.get("broken_obligation"))
            out[p] = dict(rc=r.returncode, lines=lines, replay=rp, wall_s=round(time.time() - t0))
            print(p, "rc=%d" % r.returncode, lines[:2], (str(rp)[:300] if rp else ""))
    finally:
        sh(["git", "-C", "/repo", "checkout", "--", "."])
        # translators may have rewritten Gen files for the mutated tree: restore them from the clean tree
        sh([PY, "-c", "import sys; sys.path.insert(0, %r); import vlib; print(vlib.translate())" % os.path.join(VERIF, "harness")])
        shutil.rmtree(os.path.join(VERIF, "evidence"), ignore_errors=True); shutil.copytree(evbak, os.path.join(VERIF, "evidence")); shutil.rmtree(evbak, ignore_errors=True)
    meta["detection"] = dict(tier=tier, results=out, detected=any(v["rc"] == 1 for v in out.values()))
    json.dump(meta, open(os.path.join(d, "meta.json"), "w"), indent=1)
    return out


if __name__ == "__main__":
    cmd = sys.argv[1]
    if cmd == "verify": verify(sys.argv[2], sys.argv[3])
    elif cmd == "store": store(sys.argv[2], sys.argv[3])
    elif cmd == "detect": detect(sys.argv[2], sys.argv[3:] or None)
