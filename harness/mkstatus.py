"""Regenerate the two tables of DESIGN.md section 0 (between the AUTO markers) from propdefs, the evidence
files, KNOWN_FINDINGS.json and seeded/*/meta.json.  Run after the checks and after `seedtool.py detect`."""
import json, os, re, glob, sys
sys.path.insert(0, os.path.dirname(os.path.abspath(__file__)))
import propdefs

VERIF = os.path.dirname(os.path.dirname(os.path.abspath(__file__)))


def prop_table():
    kf = json.load(open(os.path.join(VERIF, "KNOWN_FINDINGS.json")))
    rows = ["| id | Lean obligations (audited theorems) | correspondence streams | direct oracles (search / support) | open findings |", "|---|---|---|---|---|"]
    for pid in sorted(propdefs.PROPS):
        p = propdefs.PROPS[pid]
        ev = os.path.join(VERIF, "evidence", pid + ".json")
        ob = json.load(open(ev))["coverage"].get("obligations", "?") if os.path.exists(ev) else "?"
        streams = ", ".join(s["which"] + ("@" + s["script"][:-3] if s.get("script", "corr_world.py") != "corr_world.py" else "") for s in p["streams"]) or "—"
        direct = ", ".join(o.__name__ for o in p["direct"]) or "—"
        open_ = ", ".join(f["id"] for f in kf.get("findings", []) if f.get("property") == pid and f.get("status", "open") == "open") or "—"
        rows.append("| %s | %s | %s | %s | %s |" % (pid, ob, streams, direct, open_))
    return "\n".join(rows)


def seed_table():
    rows = ["| seed | base | outcome (quick tier) | what the check reports |", "|---|---|---|---|"]
    for d in sorted(glob.glob(os.path.join(VERIF, "seeded", "C*"))):
        m = json.load(open(os.path.join(d, "meta.json")))
        name = os.path.basename(d)
        if m.get("status") == "superseded":
            rows.append("| %s | %s | superseded | %s |" % (name, m.get("base_commit", "")[:7], m.get("superseded_by", "")[:150])); continue
        det = m.get("detection") or {}
        res = det.get("results", {})
        out, what = "not run", ""
        for p, r in res.items():
            rp = r.get("replay") or {}
            if r.get("rc") == 1:
                if rp.get("kind") == "failing-input": out = "failing input"; what = str(rp.get("what", ""))
                else:
                    out = "no-failing-input-found"
                    b = (rp.get("broken") or [{}])[0]; what = "%s `%s` no longer checks" % (b.get("kind", ""), b.get("name", ""))
            elif out == "not run": out = "MISSED (rc=%s)" % r.get("rc")
        what = re.sub(r"\s+", " ", what).replace("|", "/")[:150]
        rows.append("| %s | %s | %s | %s |" % (name, m.get("base_commit", "")[:7], out, what))
    return "\n".join(rows)


def seed_layers():
    build, stream, oracle, missed, sup = [], [], [], [], []
    for d in sorted(glob.glob(os.path.join(VERIF, "seeded", "C*"))):
        m = json.load(open(os.path.join(d, "meta.json"))); name = os.path.basename(d)
        if m.get("status") == "superseded": sup.append(name); continue
        res = (m.get("detection") or {}).get("results", {})
        hit = [r for r in res.values() if r.get("rc") == 1]
        if not hit: missed.append(name); continue
        rp = hit[0].get("replay") or {}
        if rp.get("kind") == "failing-input": oracle.append(name)
        else:
            kinds = {b.get("kind") for b in (rp.get("broken") or [])}
            (build if "build" in kinds or "audit" in kinds else stream).append(name)
    tot = len(build) + len(stream) + len(oracle) + len(missed)
    lines = ["%d of %d seeded changes are reported by the quick check of their own property." % (tot - len(missed), tot),
             "* concrete failing input on the real code (found by a direct oracle, or by the search after a proof / stream broke): %d — %s" % (len(oracle), ", ".join(oracle)),
             "* `no-failing-input-found`, a Lean obligation no longer builds (regenerated definitions): %d — %s" % (len(build), ", ".join(build) or "none"),
             "* `no-failing-input-found`, a correspondence stream differs: %d — %s" % (len(stream), ", ".join(stream) or "none"),
             "* not reported: %d — %s" % (len(missed), ", ".join(missed) or "none"),
             "* superseded by a later `fix:` commit: %s" % (", ".join(sup) or "none")]
    return "\n".join(lines)


def main():
    p = os.path.join(VERIF, "DESIGN.md"); s = open(p).read()
    for tag, fn in (("PROPTABLE", prop_table), ("SEEDTABLE", seed_table), ("SEEDLAYERS", seed_layers)):
        a, b = "<!-- AUTO:%s:BEGIN -->" % tag, "<!-- AUTO:%s:END -->" % tag
        assert a in s and b in s, tag
        s = s[:s.index(a) + len(a)] + "\n" + fn() + "\n" + s[s.index(b):]
    open(p, "w").write(s)
    print("DESIGN.md tables regenerated")


if __name__ == "__main__":
    main()
