"""Regenerate the two tables of DESIGN.md section 0 (between the AUTO markers) from propdefs, the evidence
files, KNOWN_FINDINGS.json and seeded/*/meta.json.  Run after the checks and after `seedtool.py detect`."""
import json, os, re, glob, sys
sys.path.insert(0, os.path.dirname(os.path.abspath(__file__)))
import propdefs

VERIF = os.path.dirname(os.path.dirname(os.path.abspath(__file__)))


def prop_table():
    kf = json.load(open(os.path.join(VERIF, "KNOWN_FINDINGS.json")))
    rows = ["| id | Lean obligations (audited theorems) | correspondence streams | direct oracles (search / support) | open findings |", "|---|---|---|---|---|"]
    for pid in sorted(propdefs.PROPS):
        p = propdefs.PROPS[pid]
        ev = os.path.join(VERIF, "evidence", pid + ".json")
        ob = json.load(open(ev))["coverage"].get("obligations", "?") if os.path.exists(ev) else "?"
        streams = ", ".join(s["which"] + ("@" + s["script"][:-3] if s.get("script", "corr_world.py") != "corr_world.py" else "") for s in p["streams"]) or "—"
        direct = ", ".join(o.__name__ for o in p["direct"]) or "—"
        open_ = ", ".join(f["id"] for f in kf.get("findings", []) if f.get("property") == pid and f.get("status", "open") == "open") or "—"
        rows.append("| %s | %s | %s | %s | %s |" % (pid, ob, streams, direct, open_))
    return "\n".join(rows)


def seed_table():
    rows = ["| seed | base | outcome (quick tier) | what the check reports |", "|---|---|---|---|"]
    for d in sorted(glob.glob(os.path.join(VERIF, "seeded", "C*"))):
        m = json.load(open(os.path.join(d, "meta.json")))
        name = os.path.basename(d)
        if m.get("status") == "superseded":
            rows.append("| %s | %s | superseded | %s |" % (name, m.get("base_commit", "")[:7], m.get("superseded_by", "")[:150])); continue
        det = m.get("detection") or {}
        res = det.get("results", {})
        out, what = "not run", ""
        for p, r in res.items():
            rp = r.get("replay") or {}
            if r.get("rc") == 1:
                if rp.get("kind") == "failing-input": out = "failing input"; what = str(rp.get("what", ""))
                else:
                    out = "no-failing-input-found"
                    b = (rp.get("broken") or [{}])[0]; what = "%s `%s` no longer checks" % (b.get("kind", ""), b.get("name", ""))
            elif out == "not run": out = "MISSED (rc=%s)" % r.get("rc")
        what = re.sub(r"\s+", " ", what).replace("|", "/")[:150]
        rows.append("| %s | %s | %s | %s |" % (name, m.get("base_commit", "")[:7], out, what))
    return "\n".join(rows)


def main():
    p = os.path.join(VERIF, "DESIGN.md"); s = open(p).read()
    for tag, fn in (("PROPTABLE", prop_table), ("SEEDTABLE", seed_table)):
        a, b = "<!-- AUTO:%s:BEGIN -->" % tag, "<!-- AUTO:%s:END -->" % tag
        assert a in s and b in s, tag
        s = s[:s.index(a) + len(a)] + "\n" + fn() + "\n" + s[s.index(b):]
    open(p, "w").write(s)
    print("DESIGN.md tables regenerated")


if __name__ == "__main__":
    main()
