"""Correspondence stream for C14: control and data flow of PEP._solve_with_wrapper under a scripted
wrapper that answers every solve with a different solution and every dual recovery with multipliers
tagged by the solve number.  usage: corr_c14.py json flow <n> <seed0>"""
import warnings; warnings.filterwarnings("ignore")
import sys, os, json, random, io, contextlib, subprocess, hashlib
import numpy as np
from PEPit import PEP, Point, Expression
import PEPit.functions as PF, PEPit.operators as PO
from corr_world import ScriptedWrapper, DRIVER


class HeurWrapper(ScriptedWrapper):
    def __init__(self, fail=False, fail_at=0):
        super().__init__(); self.calls = []; self.k = 0; self.fail = fail; self.first_value = None; self.expected_tol = None
        self.heur = None; self.expected_reg = None
        self.fail_at = fail_at          # number of the solve (>= 2: a solve of the dimension-reduction stage) on which the solver reports no value
    def set_main_variables(self): pass
    def generate_problem(self, o): self.objective = o
    def solve(self, **kw):
        self.k += 1; self.calls.append("solve%d" % self.k)
        if self.fail: return "scripted", "none", None
        if self.k == self.fail_at:
            self.optimal_G = self.optimal_F = None          # what the cvxpy back-end holds after an infeasible / failed solve
            return "scripted-infeasible", "none", None
        n, m = Point.counter, Expression.counter
        rng = np.random.default_rng(self.k)
        A = rng.integers(-2, 3, size=(n, n)).astype(float); self.optimal_G = A.T @ A
        self.optimal_F = rng.integers(-3, 4, size=(m,)).astype(float) + 10.0 * self.k
        v = float(self.optimal_F[self.objective.counter])
        if self.k == 1: self.first_value = v
        return "scripted", "none", v
    def _recover_dual_values(self):
        self.calls.append("recover%d" % self.k)
        n = Point.counter; res = np.eye(n) * self.k
        duals = [res]
        for i, it in enumerate(self._list_of_constraints_sent_to_solver):
            duals.append(float(100 * self.k + i) if not hasattr(it, "shape") else np.eye(it.shape[0]) * self.k)
        return duals, res
    def prepare_heuristic(self, wc, tol):
        # contract of the flow model: the heuristic problem is prepared with the value of the FIRST solve and with the
        # tolerance the user passed, unchanged (absolute tolerance)
        ok = (wc == self.first_value) and (tol == self.expected_tol)
        self.calls.append("prepare" if ok else "prepare[wc=%r,tol=%r;expected wc=%r,tol=%r]" % (wc, tol, self.first_value, self.expected_tol)); self.prep = (wc, tol)
    def heuristic(self, W):
        # contract of the flow model: `trace` hands the identity; round k of `logdetN` hands the inverse of (the Gram matrix of the
        # previous solve with its eigenvalues below the documented threshold set to 0) + eig_regularization * I, with the
        # regularisation the user passed, unchanged (0 included)
        ok = True
        try:
            n = Point.counter
            if self.heur == "trace": ok = np.array_equal(np.asarray(W), np.identity(n))
            elif self.expected_reg is not None and self.optimal_G is not None:
                S = (self.optimal_G + self.optimal_G.T) / 2; ev, V = np.linalg.eigh(S)
                thr = max(np.max(ev) / 1e3, 2 * np.max(-ev)); ev2 = (ev >= thr) * ev
                want = np.linalg.inv(V @ np.diag(ev2) @ V.T + self.expected_reg * np.eye(n))
                ok = np.allclose(np.asarray(W), want, rtol=1e-7, atol=1e-9 * np.abs(want).max())
        except np.linalg.LinAlgError:
            ok = True           # singular with regularisation 0: the library raises before calling us; not reached
        self.calls.append("heuristic" if ok else "heuristic[W is not the documented weight matrix for eig_regularization=%r]" % self.expected_reg)


def build(rnd):
    pep = PEP()
    k = rnd.randint(0, 2)
    if k == 0:
        f = pep.declare_function(PF.SmoothStronglyConvexFunction, mu=.1, L=1.)
    elif k == 1:
        f = pep.declare_function(PF.ConvexFunction) + pep.declare_function(PF.SmoothConvexFunction, L=2.)
    else:
        f = pep.declare_function(PO.LipschitzOperator, L=1.)
    xs = f.stationary_point(); x0 = pep.set_initial_point(); c0 = ((x0 - xs) ** 2 <= 1); pep.set_initial_condition(c0)
    x = x0
    for _ in range(rnd.randint(1, 2)): x = x - rnd.choice([.5, 1.]) * f.gradient(x)
    pep.set_performance_metric((x - xs) ** 2)
    import zlib
    if zlib.crc32(repr(rnd.getstate()[1][:3]).encode()) % 3 == 0:
        pep.set_performance_metric((x0 - xs) ** 2 + 1)          # several metrics: the value is the minimum, not the metric declared last
    if rnd.random() < .4:
        t = Expression(); pep.add_psd_matrix([[(x - xs) ** 2, t], [t, 1 + 0 * t]])
    return pep, c0


def one(seed):
    rnd = random.Random(seed)
    heur = rnd.choice(["none", "trace", "logdet0", "logdet1", "logdet2", "logdet3", "logdetx", "nuclear", "logdet"])
    import zlib as _z
    if _z.crc32(("biglogdet/%d" % seed).encode()) % 9 == 0:
        # many rounds (two-digit counts): every round must be issued, the instance kept is the one of the LAST solve
        heur = ["logdet10", "logdet12", "logdet19", "logdet31"][_z.crc32(("rounds/%d" % seed).encode()) % 4]
    mode = rnd.choice(["dual", "dual", "primal", "both"])
    fail = rnd.random() < .1
    pep, c0 = build(rnd)
    # one program in five: the solver fails on a solve of the dimension-reduction stage (solve 2, 3, 4 or 11)
    fail_at = [2, 3, 2, 4, 11][_z.crc32(("failat/%d" % seed).encode()) % 5] if (_z.crc32(("failheur/%d" % seed).encode()) % 5 == 0 and not fail) else 0
    w = HeurWrapper(fail=fail, fail_at=fail_at)
    w.expected_tol = rnd.choice([1e-5, 1e-4, 1e-3, 1e-2])
    # boundary values of the two numeric options, decided without a random draw: tolerance 0 / 0.0 (the heuristic problem keeps
    # the optimum exactly), regularisation given explicitly (1e-2, 1e-5) or left to its default 1e-3
    bz = _z.crc32(("tolzero/%d" % seed).encode()) % 6
    if bz == 0: w.expected_tol = 0
    elif bz == 1: w.expected_tol = 0.0
    reg = [None, None, 1e-2, 1e-5, 1][_z.crc32(("reg/%d" % seed).encode()) % 5]
    w.heur = heur; w.expected_reg = 1e-3 if reg is None else reg
    regkw = {} if reg is None else {"eig_regularization": reg}
    verbose = rnd.choice([0, 0, 1, 2, -1])          # the calls made to the solver must not depend on the verbosity
    raises = False; ret = None
    # two programs in five go through the public front-end `PEP.solve(wrapper=<name>, ...)` with the registry of wrappers
    # pointing at the scripted wrapper: the front-end (name resolution, fallback to cvxpy when the requested back-end is not
    # installed or not licensed) must hand every option on unchanged, so the flow is the one of `_solve_with_wrapper`
    import importlib.util, PEPit.pep as pepmod
    front = None
    if rnd.random() < .4:
        names = ["cvxpy", "CVXPY", "Cvxpy"] + (["mosek", "MOSEK"] if importlib.util.find_spec("mosek") is None else [])
        front = rnd.choice(names)
    try:
        with contextlib.redirect_stdout(io.StringIO()):
            if front is None:
                ret = pep._solve_with_wrapper(w, verbose=verbose, return_primal_or_dual=mode, tol_dimension_reduction=w.expected_tol,
                                              dimension_reduction_heuristic=None if heur == "none" else heur, **regkw)
            else:
                saved = dict(pepmod.WRAPPERS)
                try:
                    pepmod.WRAPPERS["cvxpy"] = lambda verbose=0: w
                    ret = pep.solve(wrapper=front, verbose=max(verbose, 0), return_primal_or_dual=mode, tol_dimension_reduction=w.expected_tol,
                                    dimension_reduction_heuristic=None if heur == "none" else heur, **regkw)
                finally:
                    pepmod.WRAPPERS.clear(); pepmod.WRAPPERS.update(saved)
    except ValueError:
        raises = True
    except Exception as ex:
        return "flow %s %s" % (heur, mode) + (" failat=%d" % fail_at if fail_at else ""), "calls=%s RAISES %s" % (",".join(w.calls), type(ex).__name__)
    if fail:
        line = "flowfail"
        got = "calls=%s duals=0 primal=0 raises=%s" % (",".join(w.calls), "true" if raises else "false")
        return line, got
    # data flow: which solve's multipliers / instance ended up in the objects
    try: duals = int(round(c0.eval_dual())) // 100
    except Exception: duals = -1
    try: res = int(round(pep.residual[0, 0]))
    except Exception: res = -1
    if res != duals: duals = -100 - res
    primal = -1
    import re
    heur_valid = heur in ("none", "trace") or re.fullmatch(r"logdet\d+", heur)
    if heur_valid:
        try: primal = int(round((pep.F_value[pep.objective.counter] + 3) // 10))
        except Exception: primal = -1
        try:
            ev = int(round((pep.objective.eval() + 3) // 10))
            if ev != primal: primal = -200 - ev
        except Exception: pass
        # in primal mode the value RETURNED is the objective of the last solve (the minimum of the metrics), nothing else
        if mode == "primal" and not raises and primal >= 0 and (ret is None or abs(ret - pep.objective.eval()) > 1e-9): primal = -300
    else:
        primal = 1          # invalid heuristic: raised before any instance was stored; the model says "first solve"
    got = "calls=%s duals=%d primal=%d raises=%s" % (",".join(w.calls), duals, primal, "true" if raises else "false")
    return "flow %s %s" % (heur, mode) + (" failat=%d" % fail_at if fail_at else ""), got


def report(which, n, seed0):
    lines, exp = [], []
    for s in range(seed0, seed0 + n):
        l, g = one(s); lines.append(l); exp.append(g)
    r = subprocess.run([DRIVER], input="\n".join(lines) + "\n", capture_output=True, text=True)
    out = r.stdout.splitlines()
    bad = [i for i in range(len(lines)) if i >= len(out) or out[i] != exp[i]]
    import collections
    return dict(stream=which, programs=n, seed0=seed0, lines=len(lines), bit_exact=len(lines) - len(bad), mismatching_lines=len(bad),
                bad=[dict(seed=seed0 + i, line=lines[i], impl=exp[i], model=(out[i] if i < len(out) else "<missing>"), program=[lines[i]]) for i in bad[:10]],
                n_bad_programs=len(bad), hashes=sorted({hashlib.sha1((lines[i] + exp[i]).encode()).hexdigest()[:16] for i in range(len(lines))}),
                ops=dict(collections.Counter(l.split()[1] if len(l.split()) > 1 else l for l in lines)), errors={}, sample=[lines[0], exp[0]] if lines else [])


if __name__ == "__main__":
    if sys.argv[1] == "json":
        print("@@JSON@@" + json.dumps(report(sys.argv[2], int(sys.argv[3]), int(sys.argv[4]))))
    else:
        r = report("flow", int(sys.argv[1]), 0); print({k: v for k, v in r.items() if k not in ("hashes",)})
