"""More direct oracles (numeric ones use an accurate solver; solver noise must never raise an alarm:
thresholds are 1e-5 .. 1e-4 with CLARABEL residuals ~1e-8, and inconclusive solves are skipped)."""
import warnings; warnings.filterwarnings("ignore")
import sys, os, json, random, math, io, contextlib, subprocess, itertools
from fractions import Fraction as Fr
import numpy as np
from ocommon import fresh, quiet_solve, pdict, edict, eval_p, eval_e, dot, SC, random_params, CLASSES

HERE = os.path.dirname(os.path.abspath(__file__))


# ------------------------------------------------------------------ concrete members (C03)
def _rand_spd(rng, mu, L, n):
    Q, _ = np.linalg.qr(rng.normal(size=(n, n)))
    ev = rng.uniform(mu, L, size=n); ev[0] = mu; ev[-1] = L
    return Q @ np.diag(ev) @ Q.T


def members(rng, DIM=4):
    import PEPit.functions as PF, PEPit.operators as PO
    out = []
    mu, L = float(rng.choice([0.1, 0.3, 1.0])), float(rng.choice([2.0, 3.5]))
    A = _rand_spd(rng, mu, L, DIM); b = rng.normal(size=DIM); xs = -np.linalg.solve(A, b)
    quad = lambda x: (A @ x + b, 0.5 * x @ A @ x + b @ x)
    def huber(Lh, delta=1.0):
        def f(x):
            n = np.linalg.norm(x); return Lh * (0.5 * n ** 2 if n <= delta else delta * (n - 0.5 * delta))
        def g(x):
            n = np.linalg.norm(x); return Lh * (x if n <= delta else delta * x / n)
        return lambda x: (g(x), f(x))
    hub = huber(L)
    out.append(("SSC quad", PF.SmoothStronglyConvexFunction, dict(mu=mu, L=L), quad, xs))
    out.append(("SC quad", PF.SmoothConvexFunction, dict(L=L), quad, xs))
    out.append(("SC huber", PF.SmoothConvexFunction, dict(L=L), hub, np.zeros(DIM)))
    out.append(("Convex huber", PF.ConvexFunction, dict(), hub, np.zeros(DIM)))
    out.append(("StronglyConvex quad", PF.StronglyConvexFunction, dict(mu=mu), quad, xs))
    B = _rand_spd(rng, -L, L, DIM)
    out.append(("Smooth indefinite quad", PF.SmoothFunction, dict(L=L), lambda x: (B @ x, 0.5 * x @ B @ x), np.zeros(DIM)))
    out.append(("Smooth cos", PF.SmoothFunction, dict(L=1.0), lambda x: (-np.sin(x), np.sum(np.cos(x))), np.zeros(DIM)))
    def nrm(x):
        n = np.linalg.norm(x); return (x / n if n > 0 else np.zeros(DIM), n)
    out.append(("ConvexLipschitz norm", PF.ConvexLipschitzFunction, dict(M=1.0), nrm, None))
    out.append(("SCL huber", PF.SmoothConvexLipschitzFunction, dict(L=L, M=L * 1.0), hub, np.zeros(DIM)))
    out.append(("QG huber", PF.ConvexQGFunction, dict(L=L), hub, np.zeros(DIM)))
    cshift = rng.normal(size=DIM) * 2
    out.append(("QG shifted huber", PF.ConvexQGFunction, dict(L=L), (lambda x: (hub(x - cshift)[0], hub(x - cshift)[1])), cshift))
    out.append(("RsiEb quad", PF.RsiEbFunction, dict(mu=mu, L=L), quad, xs))
    out.append(("Quadratic class", PF.SmoothStronglyConvexQuadraticFunction, dict(mu=mu, L=L), quad, xs))
    # indicator of the ball of radius R: normal cone elements; support function of the ball
    R = 1.5
    def ind_ball(x):
        # project, return a normal-cone element at the projection (PEPit samples indicator at feasible points)
        return None
    out.append(("Monotone grad", PO.MonotoneOperator, dict(), lambda x: (A @ x + b, 0.), None))
    S = rng.normal(size=(DIM, DIM)); S = S - S.T
    out.append(("Monotone skew+sym", PO.MonotoneOperator, dict(), lambda x: ((A + S) @ x, 0.), None))
    out.append(("StronglyMonotone", PO.StronglyMonotoneOperator, dict(mu=mu), lambda x: ((A + S) @ x, 0.), None))
    out.append(("Cocoercive grad", PO.CocoerciveOperator, dict(beta=1 / L), lambda x: (A @ x + b, 0.), None))
    out.append(("CocoerciveSM grad", PO.CocoerciveStronglyMonotoneOperator, dict(mu=mu, beta=1 / L), lambda x: (A @ x + b, 0.), None))
    Ln = float(np.linalg.norm(A + S, 2))
    out.append(("Lipschitz", PO.LipschitzOperator, dict(L=Ln), lambda x: ((A + S) @ x, 0.), None))
    out.append(("LipschitzSM", PO.LipschitzStronglyMonotoneOperator, dict(mu=mu, L=Ln), lambda x: ((A + S) @ x, 0.), None))
    Rm, _ = np.linalg.qr(rng.normal(size=(DIM, DIM)))
    out.append(("Nonexpansive rot", PO.NonexpansiveOperator, dict(), lambda x: (Rm @ x, 0.), None))
    rho = 0.2 * mu
    Minv = np.linalg.inv((A + S) - rho * np.eye(DIM))
    out.append(("NegComonotone", PO.NegativelyComonotoneOperator, dict(rho=rho), lambda x: (Minv @ x, 0.), None))
    out.append(("SymmetricLinear", PO.SymmetricLinearOperator, dict(mu=mu, L=L), lambda x: (A @ x, 0.), None))
    Sk = S / np.linalg.norm(S, 2) * 1.5
    out.append(("SkewLinear", PO.SkewSymmetricLinearOperator, dict(L=1.5), lambda x: (Sk @ x, 0.), None))
    Mg = rng.normal(size=(DIM, DIM)); Lm = float(np.linalg.norm(Mg, 2))
    out.append(("Linear", PO.LinearOperator, dict(L=Lm), (lambda x: (Mg @ x, 0.), lambda u: (Mg.T @ u, 0.)), None))
    # ball indicator / support
    out.append(("Indicator ball", PF.ConvexIndicatorFunction, dict(D=2 * R), ("indicator", R), None))
    out.append(("Support ball", PF.ConvexSupportFunction, dict(M=R), ("support", R), None))
    return out


def _check_member(rng, name, cls, kw, orc, xs, order, DIM=4):
    from PEPit import PEP, Point, Expression
    import PEPit.functions as PF, PEPit.operators as PO
    pep = PEP()
    f = pep.declare_function(cls, **kw)
    trip = []
    def add(fn, xv, gv, fv, stat=False):
        x = Point(); fx = Expression()
        g = Point(is_leaf=False, decomposition_dict=dict()) if stat else Point()
        fn.add_point((x, g, fx)); trip.append((x, g, fx, xv, gv, fv))
    npts = int(rng.integers(2, 5))
    pts = [rng.normal(size=DIM) * rng.choice([0.3, 1, 3]) for _ in range(npts)]
    if rng.random() < .3: pts.append(pts[0].copy())          # repeated point
    if isinstance(orc, tuple) and orc[0] == "indicator":
        R = orc[1]
        for p in pts:
            n = np.linalg.norm(p)
            if n >= R: xv = p / n * R; gv = xv * float(rng.uniform(0, 2))      # boundary: outward normal
            else: xv = p; gv = np.zeros(DIM)
            add(f, xv, gv, 0.0)
    elif isinstance(orc, tuple) and orc[0] == "support":
        R = orc[1]
        for p in pts:
            n = np.linalg.norm(p); gv = p / n * R if n > 0 else np.zeros(DIM)
            add(f, p, gv, R * n)
    elif cls is PO.LinearOperator:
        for p in pts: add(f, p, orc[0](p)[0], 0.0)
        for p in [rng.normal(size=DIM) for _ in range(int(rng.integers(1, 3)))]: add(f.T, p, orc[1](p)[0], 0.0)
    else:
        if cls is PF.SmoothStronglyConvexQuadraticFunction:
            x, g, fx = f.list_of_stationary_points[0]; gv, fv = orc(xs); trip.append((x, g, fx, xs, gv, fv))
        seq = [("p", p) for p in pts]
        own_stat = cls in (PF.ConvexQGFunction, PF.RsiEbFunction) and order == 1 and rng.random() < .5
        if xs is not None and cls is not PF.SmoothStronglyConvexQuadraticFunction and not own_stat:
            k = 0 if order == 0 else int(rng.integers(1, len(seq) + 1))
            seq = seq[:k] + [("s", xs)] + seq[k:]
        for kind, xv in seq:
            gv, fv = orc(xv); add(f, xv, gv, fv, stat=(kind == "s"))
    f.set_class_constraints()
    known = {id(t[0]) for t in trip}
    for (x, g, fx) in f.list_of_stationary_points:
        if id(x) not in known and xs is not None and not isinstance(orc, tuple):
            # the class supplied its own stationary sample: it stands for the true minimiser
            gv, fv = orc(xs)
            if x.get_is_leaf(): x._value = np.asarray(xs, dtype=float)
            elif x._value is None: x._value = sum((w * np.zeros(DIM) for w in [0.0]), np.zeros(DIM)) if not x.decomposition_dict else None
            if fx.get_is_leaf(): fx._value = float(fv)
    for (x, g, fx, xv, gv, fv) in trip:
        x._value = np.asarray(xv, dtype=float)
        if g.get_is_leaf(): g._value = np.asarray(gv, dtype=float)
        elif g._value is None: g._value = np.zeros(DIM)
        fx._value = float(fv)
    worst, where, nb = -1e9, None, 0
    for c in f.list_of_class_constraints:
        v = float(c.eval()); nb += 1
        viol = v if c.equality_or_inequality == "inequality" else abs(v)
        if viol > worst: worst, where = viol, c.get_name()
    for m in f.list_of_class_psd:
        M = m.eval().astype(float); nb += 1
        v = max(float(np.abs(M - M.T).max()), float(-np.linalg.eigvalsh((M + M.T) / 2).min()))
        if v > worst: worst, where = v, "LMI"
    return worst, where, nb


def c03_members(n, seed, procs):
    """real members of the shipped classes sampled at random points (stationary point first or in
    the middle, repeated points): every generated class constraint / LMI must hold at the true values"""
    fails, samples, ev, kinds = [], [], 0, set()
    rng = np.random.default_rng(seed)
    while ev < n:
        ms = members(rng)
        for (name, cls, kw, orc, xs) in ms:
            for order in (0, 1):
                ev += 1
                try:
                    worst, where, nb = _check_member(rng, name, cls, kw, orc, xs, order)
                except ZeroDivisionError:
                    continue
                kinds.add((name, order))
                scale = 1.0
                if worst > 1e-7:
                    fails.append(dict(what="class constraint %s of %s violated by a real member (%s): %.3e" % (where, cls.__name__, name, worst),
                                      oracle="c03_members", input=dict(seed=seed, member=name, params={k: float(v) for k, v in kw.items()}, order=order),
                                      observed=worst, expected="<= 1e-7", tags=["c03", "c03:" + cls.__name__]))
                if len(samples) < 2: samples.append(dict(member=name, cls=cls.__name__, params={k: float(v) for k, v in kw.items()}, constraints=nb, worst=worst))
            if len(fails) > 5 or ev >= n: break
        if len(fails) > 5: break
    return dict(evaluations=ev, distinct=len(kinds), failures=fails[:5], samples=samples)


# ------------------------------------------------------------------ declaration orders (C04)
ORDER_CLASSES = [("ConvexFunction", {}), ("StronglyConvexFunction", dict(mu=.25)), ("SmoothConvexFunction", dict(L=2.)),
                 ("SmoothStronglyConvexFunction", dict(mu=.25, L=2.)), ("SmoothFunction", dict(L=2.)), ("ConvexLipschitzFunction", dict(M=1.5)),
                 ("ConvexQGFunction", dict(L=2.)), ("RsiEbFunction", dict(mu=.25, L=2.)), ("ConvexIndicatorFunction", dict(D=2.5)),
                 ("ConvexSupportFunction", dict(M=1.5)), ("SmoothConvexLipschitzFunction", dict(L=2., M=1.5)),
                 ("MonotoneOperator", {}), ("StronglyMonotoneOperator", dict(mu=.25)), ("CocoerciveOperator", dict(beta=.25)),
                 ("LipschitzOperator", dict(L=2.)), ("NonexpansiveOperator", {}), ("NegativelyComonotoneOperator", dict(rho=.125)),
                 ("CocoerciveStronglyMonotoneOperator", dict(mu=.25, beta=.5)), ("LipschitzStronglyMonotoneOperator", dict(mu=.25, L=2.)),
                 ("SymmetricLinearOperator", dict(mu=.25, L=2.)), ("SkewSymmetricLinearOperator", dict(L=2.)),
                 ("SmoothStronglyConvexQuadraticFunction", dict(mu=.25, L=2.))]


def _canon_expr(e, names, eq):
    from PEPit import Expression
    items = {}
    if e.get_is_leaf(): items[("f", names[("e", e.counter)])] = Fr(1)
    else:
        for k, v in e.decomposition_dict.items():
            if v == 0: continue
            if isinstance(k, Expression): kk = ("f", names[("e", k.counter)])
            elif isinstance(k, tuple):
                a, b = names[("p", k[0].counter)], names[("p", k[1].counter)]
                kk = ("ip",) + tuple(sorted((a, b)))
            else: kk = ("one",)
            items[kk] = items.get(kk, 0) + Fr(v)
    items = {k: v for k, v in items.items() if v != 0}
    lst = sorted(items.items(), key=lambda kv: str(kv[0]))
    if eq and lst and lst[0][1] < 0: lst = [(k, -v) for k, v in lst]
    return str(lst)


def _declare(cname, kw, order, nsamp, with_stat):
    """declare one function, record `nsamp` samples (+ a stationary one) in the given order; returns canonical constraint multiset"""
    from PEPit import PEP, Point, Expression
    import PEPit.functions as PF, PEPit.operators as PO
    pep = PEP()
    cls = getattr(PF, cname, None) or getattr(PO, cname)
    f = pep.declare_function(cls, **kw)
    names = {}
    if cname == "SmoothStronglyConvexQuadraticFunction":
        x, g, v = f.list_of_stationary_points[0]; names[("p", x.counter)] = "xS"; names[("e", v.counter)] = "fS"
    for s in order:
        if s == "S":
            if cname == "SmoothStronglyConvexQuadraticFunction": continue
            x = Point(); v = Expression(); g = Point(is_leaf=False, decomposition_dict=dict())
            names[("p", x.counter)] = "xS"; names[("e", v.counter)] = "fS"
        else:
            x = Point(); g = Point(); v = Expression()
            names[("p", x.counter)] = "x%d" % s; names[("p", g.counter)] = "g%d" % s; names[("e", v.counter)] = "f%d" % s
        f.add_point((x, g, v))
    n_before = (Point.counter, Expression.counter)
    f.set_class_constraints()
    # leaves created during generation (QG/RsiEb create a stationary point when none was declared)
    for p in Point.list_of_leaf_points:
        names.setdefault(("p", p.counter), "new_p")
    for e in Expression.list_of_leaf_expressions:
        names.setdefault(("e", e.counter), "new_e")
    cons = sorted(_canon_expr(c.expression, names, c.equality_or_inequality == "equality") + ("|eq" if c.equality_or_inequality == "equality" else "|le")
                  for c in f.list_of_class_constraints)
    # drop trivially true constraints (empty expression): `0 <= 0`
    cons = [c for c in cons if not c.startswith("[]")]
    lmis = []
    for m in f.list_of_class_psd:
        ents = {}
        samples = [t[0] for t in f.list_of_points]
        lab = [names[("p", x.counter)] for x in samples]
        for i in range(m.shape[0]):
            for j in range(m.shape[1]):
                ents[(lab[i], lab[j])] = _canon_expr(m[i, j], names, False)
        lmis.append(str(sorted(ents.items())))
    return cons, sorted(lmis)


def c04_counts(n, seed, procs):
    """completeness by counting: samples are recorded (some at the same point, some stationary), and for each
    condition of the class the number of generated constraints must be the number of required pairs of
    distinct samples: n (one list), n(n-1) or n(n-1)/2 (one list against itself), |stationary| x |all| minus the
    pairs made of one sample (stationary against all)"""
    from PEPit import PEP, Point, Expression
    import PEPit.functions as PF, PEPit.operators as PO
    glue_file = os.path.join(HERE, "..", ".work", "classes.json")
    glue = {c["cls"]: c for c in json.load(open(glue_file)) if not c["inf_params"]} if os.path.exists(glue_file) else {}
    fails, samples, distinct = [], [], set()
    for it in range(n):
        rnd = random.Random(seed * 2741 + it)
        cname, kw = rnd.choice([c for c in ORDER_CLASSES if c[0] in glue and c[0] != "SmoothStronglyConvexQuadraticFunction"])
        kw = random_params(rnd, cname)          # every admissible parameter tuple, edge values included (mu = 0, beta = 0, mu = L, ...)
        pep = PEP(); cls = getattr(PF, cname, None) or getattr(PO, cname)
        f = pep.declare_function(cls, **kw)
        pts = []
        seq = []
        for _ in range(rnd.randint(12, 40) if it % 6 == 5 else rnd.randint(1, 5)):      # one case in six is large: counts with two digits
            r = rnd.random()
            if r < .2:
                x = Point(); f.add_point((x, Point(is_leaf=False, decomposition_dict=dict()), Expression())); pts.append(x); seq.append("stat")
            elif r < .45 and pts:
                x = rnd.choice(pts); f.oracle(x); seq.append("again")          # repeated evaluation at a recorded point (incl. stationary ones)
            else:
                x = Point(); f.oracle(x); pts.append(x); seq.append("new")
        if cname in ("ConvexQGFunction", "RsiEbFunction") and not f.list_of_stationary_points: continue
        allp = list(f.list_of_points); stat = list(f.list_of_stationary_points)
        f.set_class_constraints()
        desc = dict(seed=seed, it=it, cls=cname, params=kw, calls=seq, samples=len(allp), stationary=len(stat))
        distinct.add((cname, tuple(seq)))
        names = [c.get_name() or "" for c in f.list_of_class_constraints]
        for g in glue[cname]["glue"]:
            l1 = allp if g["list1"] == "all" else stat
            if g["kind"] == "one": want = len(l1)
            else:
                l2 = allp if g["list2"] == "all" else stat
                want = sum(1 for i, a in enumerate(l1) for j, b in enumerate(l2) if a is not b and not (g.get("symmetry") and i > j))
            if g["name"] == "infimal_displacement_vector" and getattr(f, "v", None) is None: continue
            fid = f.get_name() or "Function_{}".format(f.counter)
            got = sum(1 for nm in names if nm.startswith("IC_%s_%s(" % (fid, g["name"])))
            if got != want:
                fails.append(dict(what="%s, condition %s: %d constraints generated for %d required pairs of distinct samples" % (cname, g["name"], got, want),
                                  oracle="c04_counts", input=desc, observed=got, expected=want, tags=["c04", "c04:" + cname]))
        if it < 2: samples.append(desc)
        if len(fails) > 5: break
    return dict(evaluations=n, distinct=len(distinct), failures=fails[:5], samples=samples)


def c04_orders(n, seed, procs):
    """the same samples recorded in two different orders must generate the same multiset of class
    constraints (as statements about named samples; equalities up to sign) and the same LMIs up to a
    simultaneous row/column permutation"""
    fails, samples, distinct = [], [], set()
    for it in range(n):
        rnd = random.Random(seed * 6151 + it)
        cname, kw = rnd.choice(ORDER_CLASSES)
        kw = random_params(rnd, cname)
        ns = rnd.randint(9, 14) if it % 6 == 5 else rnd.randint(1, 4)
        base = list(range(ns)) + (["S"] if rnd.random() < .7 else [])
        o1 = base[:]; rnd.shuffle(o1)
        o2 = base[:]; rnd.shuffle(o2)
        if o1 == o2: o2 = o2[::-1]
        try:
            c1, l1 = _declare(cname, kw, o1, ns, "S" in base)
            c2, l2 = _declare(cname, kw, o2, ns, "S" in base)
        except Exception as ex:
            fails.append(dict(what="declaring samples of %s in order %s raised %s" % (cname, o1, type(ex).__name__), oracle="c04_orders",
                              input=dict(cls=cname, orders=[o1, o2]), tags=["c04"]))
            continue
        distinct.add((cname, tuple(map(str, o1)), tuple(map(str, o2))))
        if c1 != c2 or l1 != l2:
            only1 = [c for c in c1 if c not in c2][:2]; only2 = [c for c in c2 if c not in c1][:2]
            fails.append(dict(what="%s: recording the same samples in orders %s and %s gives different constraint sets" % (cname, o1, o2),
                              oracle="c04_orders", input=dict(cls=cname, params=kw, orders=[o1, o2]),
                              observed=dict(only_in_first=only1, only_in_second=only2, n1=len(c1), n2=len(c2), lmi_equal=(l1 == l2)),
                              tags=["c04", "c04:" + cname]))
        if it < 2: samples.append(dict(cls=cname, orders=[list(map(str, o1)), list(map(str, o2))], constraints=len(c1)))
        if len(fails) > 5: break
    return dict(evaluations=n, distinct=len(distinct), failures=fails[:5], samples=samples)


# ------------------------------------------------------------------ block partitions (C15)
def c15_blocks(n, seed, procs):
    """blocks sum back to the point (also for combination points nobody keeps a reference to, and for
    points built after those were freed), asking again returns the same objects, one block = identity, and
    the constraints generated at solve time are exactly <x_i^k, x_j^l> = 0 for k > l over all decomposed
    points -- also when more points are decomposed between two generations"""
    import gc
    from PEPit import PEP, Point
    fails, samples, distinct = [], [], set()
    def sumback(blocks):
        tot = {}
        for b in blocks:
            for kk, vv in pdict(b).items(): tot[kk] = tot.get(kk, 0) + vv
        return {k: v for k, v in tot.items() if v != 0}
    for it in range(n):
        rnd = random.Random(seed * 3571 + it)
        pep = PEP()
        d = rnd.randint(1, 4)
        direct = rnd.random() < .5
        if direct:
            from PEPit import BlockPartition
            part = BlockPartition(d=d)           # the documented direct constructor
        else:
            part = pep.declare_block_partition(d=d)
        leaves = [Point() for _ in range(rnd.randint(1, 3))]
        pts = list(leaves)
        for _ in range(rnd.randint(0, 2)):
            pts.append(float(rnd.choice(SC)) * rnd.choice(pts) + float(rnd.choice(SC)) * rnd.choice(pts))
        chosen = []
        for _ in range(rnd.randint(1, 3)):
            x = rnd.choice(pts); part.get_block(x, rnd.randrange(d))
            if not any(x is c for c in chosen): chosen.append(x)
        desc = dict(seed=seed, it=it, d=d, decomposed=[str(pdict(x)) for x in chosen])
        def bad(msg, **kw): fails.append(dict(what=msg, oracle="c15_blocks", input=desc, tags=["c15"], **kw))
        for x in chosen:
            bl = [part.get_block(x, k) for k in range(d)]; again = [part.get_block(x, k) for k in range(d)]
            if any(a is not b for a, b in zip(bl, again)): bad("asking again for the blocks of a point returns other objects")
            if sumback(bl) != pdict(x): bad("blocks do not sum back to the point", observed=str(sumback(bl)), expected=str(pdict(x)))
            if d == 1 and pdict(bl[0]) != pdict(x): bad("one-block partition is not the identity")
        ntmp = rnd.randint(0, 5)
        for _ in range(ntmp):           # temporaries: decomposed, checked, dropped
            a_, b_ = rnd.choice(leaves), rnd.choice(leaves); c_ = float(rnd.choice([2, 3, -1, 4, 5]))
            want = pdict(a_ - c_ * b_)
            got = sumback([part.get_block(a_ - c_ * b_, 0)] if d == 1 else (lambda t: [part.get_block(t, k) for k in range(d)])(a_ - c_ * b_))
            if got != want: bad("blocks of an unreferenced combination point do not sum back to it", observed=str(got), expected=str(want))
        gc.collect()
        for _ in range(3):              # points built after temporaries died must get blocks of their own
            fp = rnd.choice(leaves) * 1.0 - float(rnd.choice([2, 3, 7])) * rnd.choice(leaves)
            got = sumback([part.get_block(fp, k) for k in range(d)])
            if got != pdict(fp): bad("blocks returned for a newly built point are those of another point", observed=str(got), expected=str(pdict(fp)))
            chosen.append(fp)
        def expected():
            vals = list(part.blocks_dict.values()); out = []
            for xi in vals:
                for xj in vals:
                    for k in range(d):
                        for l in range(k): out.append(str(sorted(edict(xi[k] * xj[l]).items())) + "equality")
            return out
        before = len(part.list_of_constraints)
        part.add_partition_constraints()
        got = sorted(str(sorted(edict(c.expression).items())) + c.equality_or_inequality for c in part.list_of_constraints[before:])
        want = sorted(expected())
        if got != want: bad("orthogonality constraints differ from {<x_i^k, x_j^l> = 0 : k > l}: %d generated, %d expected" % (len(got), len(want)))
        if rnd.random() < .6:           # second generation after one more point was decomposed (a second solve)
            extra = rnd.choice(leaves) + 2.0 * rnd.choice(leaves); part.get_block(extra, 0)
            part.add_partition_constraints()
            got_set = {str(sorted(edict(c.expression).items())) + c.equality_or_inequality for c in part.list_of_constraints[before:]}
            missing = set(expected()) - got_set
            if missing: bad("after decomposing one more point and generating again, %d orthogonality relation(s) between old and new points are missing" % len(missing))
        if rnd.random() < .4:           # what a solve sends: every orthogonality relation of every partition, however it was created
            import corr_world as cw
            pep.set_performance_metric(leaves[0] ** 2)
            w = cw.ScriptedWrapper()
            with contextlib.redirect_stdout(io.StringIO()):
                pep._solve_with_wrapper(w, verbose=0)
            sent = {str(sorted(edict(c.expression).items())) + c.equality_or_inequality for k_, c in w.sent if k_ == "C"}
            missing = set(expected()) - sent
            if missing: bad("%d orthogonality relation(s) of a partition created with %s do not reach the solver" % (len(missing), "BlockPartition(d=%d)" % d if direct else "declare_block_partition"))
        distinct.add((d, len(chosen), ntmp, tuple(desc["decomposed"])))
        if it < 2: samples.append(desc)
        if len(fails) > 5: break
    return dict(evaluations=n, distinct=len(distinct), failures=fails[:5], samples=samples)


# ------------------------------------------------------------------ small random models for numeric oracles
def build_model(rnd, kind=None):
    """a small solvable PEP; returns (pep, info). Kinds cover functions, operators, LMIs, partitions,
    composites, several metrics."""
    from PEPit import PEP, Point, Expression
    import PEPit.functions as PF, PEPit.operators as PO
    from PEPit.primitive_steps import proximal_step
    kinds = ["gd_ssc", "gd_sc", "pgd", "ppa_op", "gd_quad", "lmi_user", "two_metrics", "blocks", "qg", "linop", "composite", "lmi_function", "lmi_two_sources", "lmi_nonsym", "dup_constraint", "tiny_multiplier"]
    kind = kind or rnd.choice(kinds)
    pep = PEP(); info = dict(kind=kind)
    mu, L = rnd.choice([0.1, 0.25, 0.5]), rnd.choice([1.0, 2.0]); gamma = rnd.choice([0.5, 1.0, 1.5]) / L; n = rnd.randint(1, 2)
    # one model in six is LONG (5 to 9 iterations: Gram matrices of 8 to 22 rows, multipliers and residual eigenvalues spread over
    # several orders of magnitude), one in eight has a large curvature constant (L = 40 or 100, gradients of order L)
    if rnd.random() < 1 / 6 and kind != "composite": n = rnd.randint(5, 9)      # (a composite F = f1 + c f2 is (1 + c) L-smooth: gamma = 1.5 / L diverges on it, 9 steps reach 1e5)
    if rnd.random() < 1 / 8:
        L = rnd.choice([40.0, 100.0]); gamma = rnd.choice([0.5, 1.0, 1.5]) / L
    info.update(mu=mu, L=L, gamma=gamma, n=n)
    if kind == "tiny_multiplier":
        # a flat function on a large ball: the active initial condition carries the whole constant of the proof with a
        # multiplier L^2 / 4 of order 1e-9 (the worst-case squared gradient norm is L^2 R^2 / 4 = 1/4)
        Ls = rnd.choice([1e-4, 2e-4]); R = 1.0 / Ls
        f = pep.declare_function(PF.SmoothConvexFunction, L=Ls)
        xs = f.stationary_point(); x0 = pep.set_initial_point(); pep.set_initial_condition((x0 - xs) ** 2 <= R ** 2)
        x1 = x0 - 1 / Ls * f.gradient(x0)
        pep.set_performance_metric(f.gradient(x1) ** 2)
        info.update(L=Ls, R=R)
        return pep, info
    if kind == "dup_constraint":
        # the same Constraint object (with a constant term) registered on the PEP and on a function: it is declared twice
        f = pep.declare_function(PF.SmoothStronglyConvexFunction, mu=mu, L=L)
        xs = f.stationary_point(); x0 = pep.set_initial_point()
        c = ((x0 - xs) ** 2 <= rnd.choice([1, 2, 0.5]))
        pep.set_initial_condition(c); f.add_constraint(c)
        x = x0
        for _ in range(n): x = x - gamma * f.gradient(x)
        pep.set_performance_metric((x - xs) ** 2)
        return pep, info
    if kind in ("lmi_function", "lmi_two_sources", "lmi_nonsym"):
        # one gradient step; the metric is an auxiliary expression t tied to ||x1 - xs||^2 through LMIs with a constant entry
        f = pep.declare_function(PF.SmoothStronglyConvexFunction, mu=mu, L=L)
        xs = f.stationary_point(); x0 = pep.set_initial_point(); pep.set_initial_condition((x0 - xs) ** 2 <= 1)
        x1 = x0 - gamma * f.gradient(x0); a = (x1 - xs) ** 2
        t = Expression()
        if kind == "lmi_function":
            f.add_psd_matrix([[a, t], [t, 1.0 + 0 * a]]); pep.set_performance_metric(t)
        elif kind == "lmi_two_sources":
            u = Expression()
            pep.add_psd_matrix([[a, t], [t, 1.0 + 0 * a]]); f.add_psd_matrix([[t + 1, u], [u, 1.0 + 0 * a]]); pep.set_performance_metric(u)
        else:
            u = Expression()
            # the entry below the diagonal is written differently AND constrained on its own: M symmetric forces t == u <= 1/4
            pep.add_psd_matrix([[a, t], [u, 1.0 + 0 * a]]); pep.add_constraint(t <= 2); pep.add_constraint(u <= 0.25); pep.set_performance_metric(t)
        return pep, info
    if kind in ("gd_ssc", "gd_sc", "two_metrics", "lmi_user", "gd_quad", "qg", "composite"):
        if kind == "gd_sc": f = pep.declare_function(PF.SmoothConvexFunction, L=L)
        elif kind == "gd_quad": f = pep.declare_function(PF.SmoothStronglyConvexQuadraticFunction, mu=mu, L=L)
        elif kind == "qg": f = pep.declare_function(PF.ConvexQGFunction, L=L)
        elif kind == "composite":
            f1 = pep.declare_function(PF.SmoothStronglyConvexFunction, mu=mu, L=L); f2 = pep.declare_function(PF.SmoothConvexFunction, L=L)
            f = f1 + rnd.choice([1, 0.5, 2]) * f2
        else: f = pep.declare_function(PF.SmoothStronglyConvexFunction, mu=mu, L=L)
        if rnd.random() < .5 and kind != "gd_quad":
            x0 = pep.set_initial_point(); xs = f.stationary_point()
        else:
            xs = f.stationary_point(); x0 = pep.set_initial_point()
        fs = f(xs)
        pep.set_initial_condition((x0 - xs) ** 2 <= 1)
        x = x0
        for _ in range(n): x = x - gamma * f.gradient(x)
        if kind in ("gd_sc", "qg"): pep.set_performance_metric(f(x) - fs)
        else: pep.set_performance_metric((x - xs) ** 2)
        if kind == "two_metrics": pep.set_performance_metric(2 * (f(x) - fs) / L + 0.1)
        if kind == "lmi_user":
            t = Expression(); a = (x - xs) ** 2
            pep.add_psd_matrix([[a, t], [t, Expression() * 0 + 1.0]]) if False else pep.add_psd_matrix([[a, t], [t, 1.0 + 0 * a]])
            info["lmi"] = "[[a,t],[t,1]]"
    elif kind == "pgd":
        f1 = pep.declare_function(PF.SmoothStronglyConvexFunction, mu=mu, L=L); f2 = pep.declare_function(PF.ConvexFunction)
        F = f1 + f2; xs = F.stationary_point(); x0 = pep.set_initial_point()
        pep.set_initial_condition((x0 - xs) ** 2 <= 1)
        x = x0
        for _ in range(n):
            y = x - gamma * f1.gradient(x); x, _, _ = proximal_step(y, f2, gamma)
        pep.set_performance_metric((x - xs) ** 2)
    elif kind == "ppa_op":
        A = pep.declare_function(PO.StronglyMonotoneOperator, mu=mu) if rnd.random() < .5 else pep.declare_function(PO.CocoerciveOperator, beta=1 / L)
        xs = A.stationary_point(); x0 = pep.set_initial_point(); pep.set_initial_condition((x0 - xs) ** 2 <= 1)
        x = x0
        for _ in range(n): x, _, _ = proximal_step(x, A, gamma)
        pep.set_performance_metric((x - xs) ** 2)
    elif kind == "blocks":
        d = rnd.randint(1, 2)
        part = pep.declare_block_partition(d=d)
        f = pep.declare_function(PF.BlockSmoothConvexFunction, L=[L] * d, partition=part)
        xs = f.stationary_point(); fs = f(xs); x0 = pep.set_initial_point(); pep.set_initial_condition((x0 - xs) ** 2 <= 1)
        g0 = f.gradient(x0); x1 = x0 - (1 / L) * part.get_block(g0, 0)
        pep.set_performance_metric(f(x1) - fs)
        info["d"] = d
    elif kind == "linop":
        M = pep.declare_function(PO.LinearOperator, L=L)
        x0 = pep.set_initial_point(); pep.set_initial_condition(x0 ** 2 <= 1)
        y = M.gradient(x0); z = M.T.gradient(y)
        pep.set_performance_metric(z ** 2)
    return pep, info


def min_eig(M):
    M = np.asarray(M, dtype=float)
    return float(np.linalg.eigvalsh((M + M.T) / 2).min()) if M.size else 0.0


def certificate_check(pep, tau, info, desc, oracle_name):
    """identity / signs / constant for the multipliers currently exposed by `pep`; returns failures"""
    from PEPit import Point
    from PEPit.tools.dict_operations import symmetrize_dict, prune_dict
    fails = []
    cons = pep._list_of_constraints_sent_to_wrapper; psds = pep._list_of_psd_sent_to_wrapper
    comb = -np.dot(Point.list_of_leaf_points, np.dot(pep.residual, Point.list_of_leaf_points))
    for m in psds: comb = comb - np.sum(m.eval_dual() * m.matrix_of_expressions)
    for c in cons: comb = comb + c.eval_dual() * c.expression
    d = prune_dict(symmetrize_dict((pep.objective - comb).decomposition_dict))
    const = d.get(1, 0.0); resid = sum(abs(v) for k, v in d.items() if k != 1)
    lam_min = min([c.eval_dual() for c in cons if c.equality_or_inequality == "inequality"] + [0.0])
    s_min = min_eig(pep.residual); L_min = min([min_eig(m.eval_dual()) for m in psds] + [0.0])
    nonsym = any(edict(m[i, j]) != edict(m[j, i]) for m in psds for i in range(m.shape[0]) for j in range(i))
    tags = [oracle_name[:3]] + (["c01-nonsym-lmi"] if nonsym else [])
    scale = max(1.0, abs(tau)); desc = dict(desc, nonsymmetric_lmi=nonsym)
    if resid > 1e-4 * scale:
        fails.append(dict(what="certificate identity does not close: |residual coefficients| = %.3e" % resid, oracle=oracle_name, input=desc, observed=resid, expected="<= 1e-4", tags=tags))
    # coefficients that look negligible can multiply large Gram entries (badly scaled models): the identity must also
    # close when evaluated at the instance the solver returned
    try:
        left = float((pep.objective - comb - const).eval())
        if abs(left) > 1e-4 * scale and not resid > 1e-4 * scale:
            fails.append(dict(what="certificate identity leaves %.3e when evaluated at the instance returned by the solver (badly scaled model: small coefficients, large Gram entries)" % left,
                              oracle=oracle_name, input=desc, observed=left, expected="<= 1e-4", tags=tags))
    except Exception:
        pass
    if lam_min < -1e-5 * scale or s_min < -1e-5 * scale or L_min < -1e-5 * scale:
        fails.append(dict(what="multiplier sign / PSD violated: min lambda %.2e, min eig S %.2e, min eig Lambda %.2e" % (lam_min, s_min, L_min), oracle=oracle_name, input=desc, tags=tags))
    if abs(const - tau) > 1e-7 * scale:
        fails.append(dict(what="returned dual value %.9g is not the constant of the identity %.9g" % (tau, const), oracle=oracle_name, input=desc, tags=tags))
    return fails, dict(residual=resid, min_lambda=lam_min, const=const)


def c11_backends(n, seed, procs):
    """the same model through the cvxpy back-end and through the MOSEK back-end (real MosekWrapper on the
    stand-in mosek module): same value; the MOSEK path's exposed multipliers form a valid certificate in the
    same sign convention; also with the trace / logdet heuristics (value within tolerance, certificate of
    the original problem)"""
    fails, samples, distinct, ev = [], [], set(), 0
    for it in range(n):
        rnd = random.Random(seed * 8117 + it)
        st = rnd.getstate()
        pep, info = build_model(rnd)
        t_c = quiet_solve(pep, return_primal_or_dual="dual")
        heur = rnd.choice([None, None, "trace", "logdet1"])
        rnd2 = random.Random(); rnd2.setstate(st)
        pep2, info2 = build_model(rnd2)
        ev += 1
        desc = dict(seed=seed, it=it, model=info, heuristic=heur)
        kw = dict(wrapper="mosek", return_primal_or_dual="dual")
        if heur: kw["dimension_reduction_heuristic"] = heur
        buf = io.StringIO()
        try:
            with contextlib.redirect_stdout(buf):
                t_m = pep2.solve(verbose=0, **kw)
        except Exception as ex:
            if type(ex).__name__ == "SolverError": continue
            if t_c not in (None, "inconclusive"):
                fails.append(dict(what="MOSEK back-end raises %s: %s on a model the cvxpy back-end solves (%.6g)" % (type(ex).__name__, str(ex)[:80], t_c), oracle="c11_backends", input=desc, tags=["c11"]))
            continue
        if pep2.wrapper_name != "mosek":
            return dict(evaluations=0, distinct=0, failures=[], crashed="stand-in mosek module not used (wrapper_name=%s)" % pep2.wrapper_name)
        if t_c in (None, "inconclusive") or t_m is None: continue
        # the last solve on the stand-in (the heuristic problem when a heuristic is requested) did not reach its accuracy: the
        # real wrapper never looks at the status (open finding KF-C16-mosek-status) and goes on with what the task holds
        if getattr(getattr(pep2.wrapper, "task", None), "status", "optimal") != "optimal": continue
        distinct.add(json.dumps(desc["model"], sort_keys=True) + str(heur))
        sc = max(1.0, abs(t_c))
        if abs(t_c - t_m) > 2e-5 * sc:
            fails.append(dict(what="back-ends disagree: cvxpy %.8g, mosek path %.8g" % (t_c, t_m), oracle="c11_backends", input=desc, tags=["c11"]))
        f2, st2 = certificate_check(pep2, t_m, info, desc, "c11_backends")
        fails += f2
        if heur:
            prim = float(pep2.objective.eval())
            if prim < t_m - 1e-4 - 2e-5 * sc:
                fails.append(dict(what="after %s on the MOSEK path the primal value %.8g is more than tol below the optimum %.8g" % (heur, prim, t_m), oracle="c11_backends", input=desc, tags=["c11"]))
        if len(samples) < 2: samples.append(dict(model=info, heuristic=heur, cvxpy=t_c, mosek_path=t_m, cert=st2))
        if len(fails) > 5: break
    return dict(evaluations=ev, distinct=len(distinct), failures=fails[:5], samples=samples)


def scaled_model(rnd):
    """a badly scaled model: subgradient method with a small Lipschitz constant (genuine Gram eigenvalues
    far below the largest one)"""
    from PEPit import PEP
    import PEPit.functions as PF
    M = rnd.choice([0.01, 0.02, 0.05]); nst = rnd.randint(1, 3)
    pep = PEP(); f = pep.declare_function(PF.ConvexLipschitzFunction, M=M)
    xs = f.stationary_point(); fs = f(xs); x0 = pep.set_initial_point(); pep.set_initial_condition((x0 - xs) ** 2 <= 1)
    x = x0; gam = 1 / (M * math.sqrt(nst + 1))
    for _ in range(nst):
        g = f.gradient(x); x = x - gam * g
    pep.set_performance_metric(f(x) - fs)
    return pep, dict(kind="subgradient_scaled", M=M, n=nst)


def large_model(rnd):
    """a model whose worst-case value is far above 1 (large initial radius): absolute vs relative tolerances differ"""
    from PEPit import PEP
    import PEPit.functions as PF
    R2 = rnd.choice([25., 100., 1e4]); mu, L = rnd.choice([0.1, 0.5]), 1.0; nst = rnd.randint(1, 2); gamma = rnd.choice([1.0, 1.5]) / L
    pep = PEP(); f = pep.declare_function(PF.SmoothStronglyConvexFunction, mu=mu, L=L)
    xs = f.stationary_point(); x0 = pep.set_initial_point(); pep.set_initial_condition((x0 - xs) ** 2 <= R2)
    x = x0
    for _ in range(nst): x = x - gamma * f.gradient(x)
    pep.set_performance_metric((x - xs) ** 2)
    return pep, dict(kind="gd_large_radius", R2=R2, mu=mu, L=L, gamma=gamma, n=nst)


def c14_dimred(n, seed, procs):
    """real solves with and without a dimension-reduction heuristic on the same model (several tolerances,
    incl. tolerance < regularisation, well and badly scaled models): same dual bound and a valid certificate
    of the original problem, primal within the stated tolerance, every constraint still satisfied by the
    returned instance, and trace(G) not increased by the trace heuristic"""
    fails, samples, distinct, ev = [], [], set(), 0
    for it in range(n):
        rnd = random.Random(seed * 6337 + it)
        st = rnd.getstate()
        u_ = rnd.random()
        mk = (lambda r: scaled_model(r)) if u_ < .3 else (lambda r: large_model(r)) if u_ < .5 else (lambda r: build_model(r))
        st = rnd.getstate()
        pep0, info = mk(rnd)
        t0 = quiet_solve(pep0, return_primal_or_dual="dual"); ev += 1
        if t0 in (None, "inconclusive"): continue
        G0 = np.asarray(pep0.G_value, dtype=float)
        heur = rnd.choice(["trace", "trace", "logdet1", "logdet2"])
        tol = rnd.choice([1e-4, 1e-5, 1e-6, 1e-3]); reg = rnd.choice([1e-3, 1e-2, 1e-4])
        mode = rnd.choice(["dual", "primal"])
        r2 = random.Random(); r2.setstate(st)
        pep, info = mk(r2)
        desc = dict(seed=seed, it=it, model=info, heuristic=heur, tol=tol, reg=reg, mode=mode)
        # one model in four asks for a back-end that is not installed here (the documented fallback to cvxpy): same guarantees
        import importlib.util
        wname = "mosek" if (it % 4 == 3 and importlib.util.find_spec("mosek") is None) else "cvxpy"
        if wname != "cvxpy": desc["wrapper"] = wname + " (not installed: falls back to cvxpy)"
        try:
            with contextlib.redirect_stdout(io.StringIO()):
                t = pep.solve(wrapper=wname, verbose=0, solver="CLARABEL", dimension_reduction_heuristic=heur, tol_dimension_reduction=tol,
                              eig_regularization=reg, return_primal_or_dual=mode)
        except Exception as ex:
            if type(ex).__name__ == "SolverError": continue
            fails.append(dict(what="solve with %s raises %s" % (heur, type(ex).__name__), oracle="c14_dimred", input=desc, tags=["c14"])); continue
        if t is None: continue
        if getattr(getattr(pep.wrapper, "prob", None), "status", "optimal") != "optimal": continue      # the solver did not reach its accuracy on the heuristic problem: inconclusive
        distinct.add(json.dumps(desc, sort_keys=True, default=str))
        sc = max(1.0, abs(t0)); small = max(abs(t0), 1e-12)
        f2, st2 = certificate_check(pep, t0 if mode == "primal" else t, info, desc, "c14_dimred")
        # the constant of the identity must be the ORIGINAL dual bound whichever value is returned
        fails += [f for f in f2 if "returned dual value" not in f["what"] or mode == "dual"]
        if mode == "dual" and abs(t - t0) > 2e-6 * sc + 1e-3 * small * 0:
            fails.append(dict(what="dual bound with %s is %.9g, without it %.9g" % (heur, t, t0), oracle="c14_dimred", input=desc, tags=["c14"]))
        prim = float(pep.objective.eval())
        if mode == "primal" and abs(float(t) - prim) > 1e-9 * sc:
            fails.append(dict(what="the value returned in primal mode after %s (%.9g) is not the objective of the returned instance (%.9g)" % (heur, t, prim), oracle="c14_dimred", input=desc, tags=["c14"]))
        if prim < t0 - tol - (2e-4 if heur.startswith("logdet") else 2e-5) * sc:
            fails.append(dict(what="primal value %.9g is more than tol=%g below the optimum %.9g" % (prim, tol, t0), oracle="c14_dimred", input=desc, observed=t0 - prim, expected="<= %g" % tol, tags=["c14"]))
        from ocommon import worst_violation
        worst = worst_violation(pep, min_eig)
        # scale-aware threshold: solver noise is ~1e-8 absolute; a violation comparable to the value itself is not noise
        if worst > 1e-5 * sc and worst > 1e-6:
            if worst > max(1e-5, 1e-2 * small):
                fails.append(dict(what="the instance returned after %s violates a constraint by %.3e (value %.3e)" % (heur, worst, t0), oracle="c14_dimred", input=desc, tags=["c14"]))
        G = np.asarray(pep.G_value, dtype=float)
        if heur == "trace" and np.trace(G) > np.trace(G0) + 1e-5 * max(1.0, abs(np.trace(G0))):
            fails.append(dict(what="trace heuristic increased the trace: %.8g -> %.8g" % (np.trace(G0), np.trace(G)), oracle="c14_dimred", input=desc, tags=["c14"]))
        if len(samples) < 2: samples.append(dict(desc, dual=t0, primal=prim, worst_constraint=worst, trace_before=float(np.trace(G0)), trace_after=float(np.trace(G))))
        if rnd.random() < .5:
            # the solved model is extended (one more sample: new leaf point and new leaf expression, created AFTER the
            # objective of the first solve) and solved again with a heuristic: the optimum is unchanged (one more sample of an
            # interpolable class restricts nothing) and the primal value must still be within tol of it
            from PEPit import Function
            cand = [f_ for f_ in Function.list_of_functions if f_.get_is_leaf() and f_.list_of_points and type(f_).__name__ not in ("LinearOperator", "SymmetricLinearOperator", "SkewSymmetricLinearOperator", "BlockSmoothConvexFunction", "SmoothStronglyConvexQuadraticFunction")]
            if cand:
                f_ = cand[0]; x_, g_, _ = f_.list_of_points[-1]
                f_.oracle(x_ - 0.5 * g_)
                desc2 = dict(desc, extended="one more sample, then solved again with " + heur)
                try:
                    with contextlib.redirect_stdout(io.StringIO()):
                        t2 = pep.solve(verbose=0, solver="CLARABEL", dimension_reduction_heuristic=heur, tol_dimension_reduction=tol, eig_regularization=reg, return_primal_or_dual="dual")
                except Exception as ex:
                    t2 = None
                    if type(ex).__name__ != "SolverError":
                        fails.append(dict(what="solve of the extended model with %s raises %s" % (heur, type(ex).__name__), oracle="c14_dimred", input=desc2, tags=["c14"]))
                if t2 is not None and getattr(getattr(pep.wrapper, "prob", None), "status", "optimal") == "optimal":
                    ev += 1
                    prim2 = float(pep.objective.eval())
                    if abs(t2 - t0) <= 1e-4 * sc and prim2 < t0 - tol - (2e-4 if heur.startswith("logdet") else 2e-5) * sc:
                        fails.append(dict(what="after extending the solved model and solving again, the primal value %.9g is more than tol=%g below the optimum %.9g" % (prim2, tol, t0),
                                          oracle="c14_dimred", input=desc2, observed=t0 - prim2, expected="<= %g" % tol, tags=["c14"]))
        if len(fails) > 5: break
    return dict(evaluations=ev, distinct=len(distinct), failures=fails[:5], samples=samples)


def c05_sent(n, seed, procs):
    """what reaches the solver at each solve, counted independently of the library's bookkeeping: a recording
    wrapper is given to PEP._solve_with_wrapper; every declared constraint / LMI / metric must arrive exactly as
    often as declared, class constraints must be those of the CURRENT samples (also at a second solve after the
    model was extended), and nothing else may arrive"""
    import corr_world as cw
    from PEPit import Function, Constraint, BlockPartition
    fails, samples, distinct = [], [], set()
    def canon(c): return str(sorted(edict(c.expression).items())) + c.equality_or_inequality
    for it in range(n):
        rnd = random.Random(seed * 4241 + it)
        pep, info = build_model(rnd)
        desc = dict(seed=seed, it=it, model=info)
        for solve_no in (1, 2):
            w = cw.ScriptedWrapper()
            with contextlib.redirect_stdout(io.StringIO()):
                pep._solve_with_wrapper(w, verbose=0)
            sent_c = [c for k, c in w.sent if k == "C"]; sent_m = [m for k, m in w.sent if k == "P"]
            # expected, from the declarations
            leaf = [f_ for f_ in Function.list_of_functions if f_.get_is_leaf()]
            exp_c = []
            exp_c += [canon(c) for c in pep.list_of_constraints]
            for f_ in Function.list_of_functions: exp_c += [canon(c) for c in f_.list_of_constraints]
            n_metric = len(pep.list_of_performance_metrics)
            for f_ in leaf:
                cur = [canon(c) for c in f_.list_of_class_constraints]            # what the library generated for this solve
                f_.set_class_constraints()                                         # regenerate from the current samples
                regen = [canon(c) for c in f_.list_of_class_constraints]
                if sorted(cur) != sorted(regen):
                    fails.append(dict(what="solve %d: the class constraints sent for %s (%d) are not those of its current samples (%d)" % (solve_no, type(f_).__name__, len(cur), len(regen)),
                                      oracle="c05_sent", input=dict(desc, solve=solve_no), tags=["c05"]))
                exp_c += cur
            part_c = [canon(c) for p_ in BlockPartition.list_of_partitions for c in p_.list_of_constraints]
            got = sorted(canon(c) for c in sent_c)
            # metrics arrive as `objective <= metric`: count them, compare the rest as multisets
            n_obj = sum(1 for c in sent_c if any(getattr(k, "counter", None) == pep.objective.counter and hasattr(k, "get_is_leaf") for k in c.expression.decomposition_dict))
            rest = sorted(canon(c) for c in sent_c if not any(k is pep.objective for k in c.expression.decomposition_dict))
            if sorted(exp_c + part_c) != rest:
                fails.append(dict(what="solve %d: %d scalar constraints reach the solver, %d are declared (user, function-level, class, partition)" % (solve_no, len(rest), len(exp_c) + len(part_c)),
                                  oracle="c05_sent", input=dict(desc, solve=solve_no), tags=["c05"] + (["c13-partition-growth"] if solve_no == 2 and part_c else [])))
            if len(sent_c) - len(rest) != n_metric:
                fails.append(dict(what="solve %d: %d metric constraints sent for %d metrics" % (solve_no, len(sent_c) - len(rest), n_metric), oracle="c05_sent", input=dict(desc, solve=solve_no), tags=["c05"]))
            exp_m = list(pep.list_of_psd) + [m for f_ in Function.list_of_functions for m in f_.list_of_psd] + [m for f_ in leaf for m in f_.list_of_class_psd]
            if len(sent_m) != len(exp_m):
                fails.append(dict(what="solve %d: %d LMIs reach the solver, %d are declared" % (solve_no, len(sent_m), len(exp_m)), oracle="c05_sent", input=dict(desc, solve=solve_no), tags=["c05"]))
            if solve_no == 1:
                # extend the model through a leaf function before the second solve
                lf = [f_ for f_ in leaf if f_.list_of_points and type(f_).__name__ != "Function"]
                if lf:
                    f_ = rnd.choice(lf); x_ = f_.list_of_points[0][0]
                    f_.gradient(x_ - 0.5 * f_.list_of_points[-1][0] if len(f_.list_of_points) > 1 else x_ * 2.0)
        distinct.add(json.dumps(info, sort_keys=True))
        if it < 2: samples.append(dict(model=info, sent_scalar=len(sent_c), sent_lmi=len(sent_m)))
        if len([f for f in fails if "c13-partition-growth" not in f["tags"]]) > 5: break
    fails.sort(key=lambda f: "c13-partition-growth" in f["tags"])
    return dict(evaluations=n, distinct=len(distinct), failures=fails[:5], samples=samples)


def c11_heuristic(n, seed, procs):
    """the dimension-reduction objective through both back-ends: the same positive definite weight W is given to
    `prepare_heuristic / heuristic / solve` of the cvxpy wrapper and of the MOSEK wrapper (stand-in): the minimal
    <W, G> must agree"""
    from PEPit import PEP, Point
    from PEPit.wrappers.cvxpy_wrapper import CvxpyWrapper
    from PEPit.wrappers.mosek_wrapper import MosekWrapper
    fails, samples, distinct = [], [], set()
    for it in range(n):
        rnd = random.Random(seed * 9949 + it); st = rnd.getstate()
        vals = []; wc_ref = None; inconclusive = False
        for W_cls in (CvxpyWrapper, MosekWrapper):
            r2 = random.Random(); r2.setstate(st)
            pep, info = build_model(r2, r2.choice(["gd_ssc", "gd_sc", "pgd", "ppa_op"]))
            w = W_cls(verbose=0)
            try:
                with contextlib.redirect_stdout(io.StringIO()):
                    pep._solve_with_wrapper(w, verbose=0, **({"solver": "CLARABEL"} if W_cls is CvxpyWrapper else {}))
                    wc = float(pep.objective.eval())
                    # both back-ends are given the SAME optimum (the minimum of <W, G> is sensitive to it: on long models a
                    # difference of 1e-8 between two solves of the original problem moves it by 1e-4)
                    if wc_ref is None: wc_ref = wc
                    wc = wc_ref
                    rng = np.random.default_rng(seed * 31 + it); n_ = Point.counter
                    A = rng.normal(size=(n_, n_)); Wm = A @ A.T + np.eye(n_)
                    w.prepare_heuristic(wc, 1e-4); w.heuristic(Wm)
                    w.solve(**({"solver": "CLARABEL"} if W_cls is CvxpyWrapper else {}))
                    G, _ = w.get_primal_variables()
                    st_ = getattr(getattr(w, "prob", None), "status", None) or getattr(getattr(w, "task", None), "status", "optimal")
                    if st_ != "optimal": inconclusive = True        # the solver did not reach its accuracy on the heuristic problem
                vals.append(float(np.sum(Wm * G)))
            except Exception as ex:
                vals.append("%s" % type(ex).__name__)
        desc = dict(seed=seed, it=it, model=info)
        distinct.add(json.dumps(info, sort_keys=True))
        if isinstance(vals[0], float) and isinstance(vals[1], float) and not inconclusive:
            if abs(vals[0] - vals[1]) > 1e-4 * max(1.0, abs(vals[0])):
                fails.append(dict(what="min <W, G> under objective >= wc - tol: cvxpy back-end %.8g, MOSEK back-end %.8g" % (vals[0], vals[1]), oracle="c11_heuristic", input=desc, tags=["c11"]))
        if it < 2: samples.append(dict(desc, cvxpy=vals[0], mosek_path=vals[1]))
        if len(fails) > 3: break
    return dict(evaluations=n, distinct=len(distinct), failures=fails[:5], samples=samples)


def c01_certificate(n, seed, procs):
    """after a real solve, rebuild the identity objective - tau = sum(lambda*constraint) - <S,G> - sum<Lambda,T>
    from the exposed multipliers, independently of PEPit's own check: coefficient residual, signs, PSD-ness,
    and the returned (dual) value = constant of the identity"""
    from PEPit import Point, Expression
    from PEPit.tools.dict_operations import symmetrize_dict, prune_dict
    fails, samples, distinct, ev = [], [], set(), 0
    for it in range(n):
        rnd = random.Random(seed * 7369 + it)
        pep, info = build_model(rnd)
        heur = rnd.choice([None, None, None, "trace", "logdet1"])
        info = dict(info, heuristic=heur)
        tau = quiet_solve(pep, return_primal_or_dual="dual", **({"dimension_reduction_heuristic": heur} if heur else {}))
        ev += 1
        if tau is None or tau == "inconclusive": continue
        distinct.add(json.dumps(info, sort_keys=True))
        # every LMI declared anywhere must be part of the certificate: take them from the declarations, not from the library's bookkeeping
        from PEPit import Function
        declared = list(pep.list_of_psd) + [m for f_ in Function.list_of_functions for m in list(f_.list_of_psd) + (list(f_.list_of_class_psd) if f_.get_is_leaf() else [])]
        tracked = pep._list_of_psd_sent_to_wrapper
        if sorted(map(id, declared)) != sorted(map(id, tracked)):
            fails.append(dict(what="%d LMI(s) are declared, %d are part of the reconstructed certificate" % (len(declared), len(tracked)), oracle="c01_certificate", input=dict(seed=seed, it=it, model=info), tags=["c01"]))
        cons = pep._list_of_constraints_sent_to_wrapper; psds = declared
        comb = -np.dot(Point.list_of_leaf_points, np.dot(pep.residual, Point.list_of_leaf_points))
        for m in psds: comb = comb - np.sum(m.eval_dual() * m.matrix_of_expressions)
        for c in cons: comb = comb + c.eval_dual() * c.expression
        ident = pep.objective - comb
        d = prune_dict(symmetrize_dict(ident.decomposition_dict))
        const = d.get(1, 0.0); resid = sum(abs(v) for k, v in d.items() if k != 1)
        lam_min = min([c.eval_dual() for c in cons if c.equality_or_inequality == "inequality"] + [0.0])
        s_min = min_eig(pep.residual); L_min = min([min_eig(m.eval_dual()) for m in psds] + [0.0])
        nonsym = any(edict(m[i, j]) != edict(m[j, i]) for m in psds for i in range(m.shape[0]) for j in range(i))
        tags = ["c01"] + (["c01-nonsym-lmi"] if nonsym else [])
        scale = max(1.0, abs(tau))
        desc = dict(seed=seed, it=it, model=info, nonsymmetric_lmi=nonsym)
        if resid > 1e-4 * scale:
            fails.append(dict(what="certificate identity does not close: |residual coefficients| = %.3e" % resid, oracle="c01_certificate", input=desc, observed=resid, expected="<= 1e-4", tags=tags))
        try:
            left = float((ident - const).eval())       # the identity evaluated at the instance returned by the solver
            if abs(left) > 1e-4 * scale and not resid > 1e-4 * scale:
                fails.append(dict(what="certificate identity leaves %.3e when evaluated at the instance returned by the solver (small coefficients on large Gram entries)" % left,
                                  oracle="c01_certificate", input=desc, observed=left, expected="<= 1e-4", tags=tags))
        except Exception:
            pass
        if lam_min < -1e-5 * scale or s_min < -1e-5 * scale or L_min < -1e-5 * scale:
            fails.append(dict(what="multiplier sign / PSD violated: min lambda %.2e, min eig S %.2e, min eig Lambda %.2e" % (lam_min, s_min, L_min), oracle="c01_certificate", input=desc, tags=tags))
        if abs(const - tau) > 1e-7 * scale:
            fails.append(dict(what="returned dual value %.9g is not the constant of the identity %.9g" % (tau, const), oracle="c01_certificate", input=desc, tags=tags))
        if len(samples) < 2: samples.append(dict(model=info, tau=tau, residual=resid, min_lambda=lam_min))
        if len(fails) > 5: break
    return dict(evaluations=ev, distinct=len(distinct), failures=fails[:5], samples=samples)


def c02_instance(n, seed, procs):
    """after a real solve: inner products of evaluated leaf points = PSD projection of G, derived objects
    evaluate to the combinations of their operands, sent constraints hold, objective = min metric, primal <= dual"""
    from PEPit import Point, Expression
    fails, samples, distinct, ev = [], [], set(), 0
    for it in range(n):
        rnd = random.Random(seed * 9173 + it)
        pep, info = (scaled_model(rnd) if rnd.random() < .3 else build_model(rnd))
        heur = rnd.choice([None, None, "trace", "logdet1"])
        info = dict(info, heuristic=heur)
        tau = quiet_solve(pep, return_primal_or_dual="dual", **({"dimension_reduction_heuristic": heur} if heur else {}))
        ev += 1
        if tau is None or tau == "inconclusive": continue
        distinct.add(json.dumps(info, sort_keys=True))
        desc = dict(seed=seed, it=it, model=info)
        P = np.array([p.eval() for p in Point.list_of_leaf_points]).T if Point.list_of_leaf_points else np.zeros((0, 0))
        G = np.asarray(pep.G_value, dtype=float)
        w, V = np.linalg.eigh((G + G.T) / 2); Gp = V @ np.diag(np.maximum(w, 0)) @ V.T
        sc = max(1.0, float(np.abs(G).max()))
        small = max(abs(tau), 1e-12)
        Gs = np.asarray(getattr(pep.wrapper, "optimal_G", G), dtype=float) if hasattr(pep, "wrapper") else G
        if np.abs(G - Gs).max() > 1e-9 * sc:
            fails.append(dict(what="PEP.G_value differs from the Gram matrix found by the solver by %.2e" % np.abs(G - Gs).max(), oracle="c02_instance", input=desc, tags=["c02"]))
        if np.abs(P.T @ P - Gp).max() > 1e-6 * sc:
            fails.append(dict(what="inner products of evaluated leaf points differ from the PSD projection of G by %.2e" % np.abs(P.T @ P - Gp).max(), oracle="c02_instance", input=desc, tags=["c02"]))
        # derived objects built after the solve
        leaves = Point.list_of_leaf_points
        a, b = rnd.choice(leaves), rnd.choice(leaves); c1, c2 = float(rnd.choice(SC)), float(rnd.choice(SC))
        newp = Point()                                  # a leaf created after the solve must not disturb anything
        comb = c1 * a + c2 * b
        cv = comb.eval()
        if not pdict(comb):
            bad = bool(np.abs(cv).max() > 0) if cv.size else False       # the zero point (its length is Point.counter at evaluation time)
        else:
            bad = bool(np.abs(cv - (c1 * a.eval() + c2 * b.eval())).max() > 1e-9 * sc)
        if bad:
            fails.append(dict(what="value of c1*a+c2*b differs from the combination of the operand values", oracle="c02_instance", input=desc, tags=["c02"]))
        ip = a * b
        if abs(ip.eval() - float(a.eval() @ b.eval())) > 1e-7 * sc:
            fails.append(dict(what="value of <a,b> differs from the inner product of the values", oracle="c02_instance", input=desc, tags=["c02"]))
        from ocommon import worst_violation
        worst = worst_violation(pep, min_eig)
        if worst > max(1e-5, 1e-2 * small):
            fails.append(dict(what="a sent constraint / LMI is violated at the returned instance by %.2e (value %.2e)" % (worst, tau), oracle="c02_instance", input=desc, tags=["c02"]))
        mets = [float(m.eval()) for m in pep.list_of_performance_metrics]
        # the heuristic problems (weights inv(G + reg)) are badly conditioned: the solver's accuracy there is ~1e-5 relative
        tolr = 1e-3 if heur else 1e-5
        if abs(float(pep.objective.eval()) - min(mets)) > tolr * max(1.0, abs(min(mets))):
            fails.append(dict(what="objective %.8g differs from the smallest metric %.8g" % (pep.objective.eval(), min(mets)), oracle="c02_instance", input=desc, tags=["c02"]))
        if float(pep.objective.eval()) > tau + tolr * max(1.0, abs(tau)):
            fails.append(dict(what="primal value %.8g exceeds the dual bound %.8g" % (pep.objective.eval(), tau), oracle="c02_instance", input=desc, tags=["c02"]))
        try:
            (newp + a).eval()
            fails.append(dict(what="a point built from a leaf created after the solve evaluates to a number", oracle="c02_instance", input=desc, tags=["c02"]))
        except ValueError: pass
        if len(samples) < 2: samples.append(dict(model=info, tau=tau, worst_constraint=worst, metrics=mets))
        if len(fails) > 5: break
    return dict(evaluations=ev, distinct=len(distinct), failures=fails[:5], samples=samples)


# ------------------------------------------------------------------ C16
def c16_unsolved(n, seed, procs):
    """before any successful solve every accessor raises ValueError; an unbounded / infeasible model makes
    solve return None and leaves every accessor raising; invalid options are rejected"""
    from PEPit import PEP, Point, Expression, PSDMatrix
    import PEPit.functions as PF
    fails, samples, distinct = [], [], set()
    def probe(objs, desc, stage):
        for nm, o, acc in objs:
            for a in acc + acc:                  # asking twice must raise twice (no partial result may be cached)
                try:
                    r = getattr(o, a)()
                    fails.append(dict(what="%s.%s() %s returns %r instead of raising ValueError" % (nm, a, stage, r), oracle="c16_unsolved", input=desc, tags=["c16"]))
                except ValueError: pass
                except Exception as ex:
                    fails.append(dict(what="%s.%s() %s raises %s instead of ValueError" % (nm, a, stage, type(ex).__name__), oracle="c16_unsolved", input=desc, tags=["c16"]))
    for it in range(n):
        rnd = random.Random(seed * 4409 + it)
        pep = PEP()
        f = pep.declare_function(PF.SmoothStronglyConvexFunction, mu=.1, L=1.)
        xs = f.stationary_point(); x0 = pep.set_initial_point()
        g, v = f.oracle(x0)
        x1 = x0 - float(rnd.choice([.5, 1., 1.5])) * g
        e = (x1 - xs) ** 2; e2 = 2 * v + 1 - e
        c = (e <= 1); ceq = (e2 == 3)
        m = PSDMatrix([[e, v], [v, e2]])
        zero_w = 0 * v; zero_p = (0 * g) * x0; mu0 = (0.0 / 2) * (x0 - xs) ** 2          # leaves kept with weight exactly 0 (products are not pruned)
        m_low = PSDMatrix([[Expression(is_leaf=False, decomposition_dict={1: 1.}), Expression(is_leaf=False, decomposition_dict={1: 0.})], [v, Expression(is_leaf=False, decomposition_dict={1: 1.})]])   # the only leaf sits below the diagonal
        objs = [("leaf point", x0, ["eval"]), ("derived point", x1, ["eval"]), ("leaf expression", v, ["eval"]), ("derived expression", e, ["eval"]),
                ("expression 0 * f(x0)", zero_w, ["eval"]), ("expression (0 * g) * x0", zero_p, ["eval"]), ("expression with parameter 0", mu0, ["eval"]),
                ("constraint whose expression is 0 * f(x0)", __import__("PEPit").Constraint(expression=zero_w, equality_or_inequality="inequality"), ["eval"]), ("LMI whose only leaf is below the diagonal", m_low, ["eval"]),
                ("constant-free expression", e2, ["eval"]), ("inequality", c, ["eval", "eval_dual"]), ("equality", ceq, ["eval", "eval_dual"]), ("LMI", m, ["eval", "eval_dual"])]
        mode = rnd.choice(["unsolved", "unbounded", "infeasible"])
        desc = dict(seed=seed, it=it, mode=mode)
        distinct.add((mode, it % 7))
        if mode == "unsolved":
            probe(objs, desc, "before any solve")
            f.set_class_constraints()            # the tables of constraints exist, none of the constraints has a multiplier
            probe([("function (dual tables)", f, ["get_class_constraints_duals"])], desc, "before any solve")
        else:
            if mode == "unbounded":
                pep.set_performance_metric((x1 - xs) ** 2)                 # no initial condition: unbounded
            else:
                pep.set_initial_condition((x0 - xs) ** 2 <= 1); pep.add_constraint((x0 - xs) ** 2 >= 2)   # infeasible
                pep.set_performance_metric((x1 - xs) ** 2)
            if mode == "infeasible":
                pep.add_constraint(c)
                if rnd.random() < .3: pep.add_psd_matrix([[e + 1, v], [v, e + 1]])
            try:
                r = quiet_solve(pep)
            except Exception as ex:
                fails.append(dict(what="solve of an %s model raises %s instead of returning None" % (mode, type(ex).__name__), oracle="c16_unsolved", input=desc, tags=["c16"]))
                r = None
            if r == "inconclusive": continue
            if r is not None and not (isinstance(r, float) and (math.isinf(r) or math.isnan(r))) :
                # a finite number for a model without finite optimum
                fails.append(dict(what="solve returned %r for an %s model" % (r, mode), oracle="c16_unsolved", input=desc, tags=["c16"]))
            elif r is not None:
                fails.append(dict(what="solve returned %r (not None) for an %s model" % (r, mode), oracle="c16_unsolved", input=desc, tags=["c16"]))
            probe(objs, desc, "after a solve that found no finite value")
            probe([("function (dual tables)", f, ["get_class_constraints_duals"])], desc, "after a solve that found no finite value")
        if it % 3 == 0:
            # after a successful solve of another model: objects involving a leaf created afterwards have no value
            pep3 = PEP(); f3 = pep3.declare_function(PF.SmoothConvexFunction, L=1.); xs3 = f3.stationary_point(); y0 = pep3.set_initial_point()
            pep3.set_initial_condition((y0 - xs3) ** 2 <= 1); y1 = y0 - f3.gradient(y0); pep3.set_performance_metric(f3(y1) - f3(xs3))
            if quiet_solve(pep3) not in (None, "inconclusive"):
                z = Point(); ze = Expression()
                late = [("solved + new leaf point", rnd.choice([y1 + z / 2, y0 - z, z / 2 + y1]), ["eval"]), ("new leaf point", z, ["eval"]),
                        ("expression with a new leaf point", (y1 - z) ** 2, ["eval"]), ("expression with a new leaf expression", f3(y1) + ze, ["eval"]),
                        ("constraint never sent", ((y1 - xs3) ** 2 <= 3), ["eval_dual"])]
                probe(late, dict(desc, stage="after a solve, objects involving leaves created later"), "for an object that has no value in the solved model")
        if it % 5 == 0:
            pep2 = PEP(); f2 = pep2.declare_function(PF.SmoothConvexFunction, L=1.); xs2 = f2.stationary_point(); y0 = pep2.set_initial_point()
            pep2.set_initial_condition((y0 - xs2) ** 2 <= 1); pep2.set_performance_metric(f2(y0 - f2.gradient(y0)) - f2(xs2))
            for kw in (dict(return_primal_or_dual="both"), dict(return_primal_or_dual="prim"), dict(return_primal_or_dual="du"), dict(return_primal_or_dual=""), dict(return_primal_or_dual="Dual"),
                       dict(dimension_reduction_heuristic="nuclear"), dict(dimension_reduction_heuristic="logdetx"), dict(dimension_reduction_heuristic="logdet"), dict(dimension_reduction_heuristic="Trace")):
                try:
                    r = quiet_solve(pep2, **kw)
                    fails.append(dict(what="invalid option %r accepted (returned %r)" % (kw, r), oracle="c16_unsolved", input=dict(option=kw), tags=["c16"]))
                except (ValueError, AssertionError, TypeError): pass
            for bad_solver in ("CLARABELL", "", "scs ", 42):
                # a solver name cvxpy does not know must be rejected (cvxpy raises), never silently replaced
                try:
                    with contextlib.redirect_stdout(io.StringIO()):
                        r = pep2.solve(verbose=0, solver=bad_solver)
                    fails.append(dict(what="invalid solver name %r accepted (returned %r)" % (bad_solver, r), oracle="c16_unsolved", input=dict(option=dict(solver=str(bad_solver))), tags=["c16"]))
                except Exception: pass
        if it % 5 == 1:
            # option values of the primitive steps: only the documented strings are accepted; near misses (substrings, other
            # case, padding, concatenations, non-strings) must raise, never silently select a behaviour
            from PEPit.primitive_steps import inexact_gradient_step, inexact_proximal_step
            for stepname, call, good, bads in (
                    ("inexact_gradient_step(notion=%r)", lambda f_, x_, v: inexact_gradient_step(x_, f_, gamma=.5, epsilon=.1, notion=v), ("absolute", "relative"),
                     ("abs", "rel", "", "e", "Absolute", "relative ", " absolute", "absoluterelative", "solute", "relative_", None, 1, ("absolute",))),
                    ("inexact_proximal_step(opt=%r)", lambda f_, x_, v: inexact_proximal_step(x_, f_, gamma=.5, opt=v), ("PD_gapI", "PD_gapII", "PD_gapIII"),
                     ("PD_gap", "PD_gapIV", "gapI", "", "pd_gapi", "PD_gapI ", "I", "PD_gapIIII", "PD_gapIPD_gapII", None, 2))):
                for v in good:
                    p4 = PEP(); f4 = p4.declare_function(PF.SmoothConvexFunction, L=1.); x4 = p4.set_initial_point()
                    try: call(f4, x4, v)
                    except Exception as ex:
                        fails.append(dict(what=(stepname % v) + " (a documented value) raises %s" % type(ex).__name__, oracle="c16_unsolved", input=dict(option=repr(v)), tags=["c16"]))
                for v in bads:
                    p4 = PEP(); f4 = p4.declare_function(PF.SmoothConvexFunction, L=1.); x4 = p4.set_initial_point()
                    try:
                        call(f4, x4, v)
                        fails.append(dict(what="invalid option value accepted: " + (stepname % (v,)) + " returns instead of raising", oracle="c16_unsolved", input=dict(option=repr(v)), tags=["c16"]))
                    except (ValueError, TypeError, AssertionError): pass
        if it < 2: samples.append(desc)
        if len(fails) > 5: break
    return dict(evaluations=n, distinct=len(distinct), failures=fails[:5], samples=samples)


ORACLES = dict(c04_counts=c04_counts, c11_heuristic=c11_heuristic, c05_sent=c05_sent, c14_dimred=c14_dimred, c11_backends=c11_backends, c03_members=c03_members, c04_orders=c04_orders, c15_blocks=c15_blocks, c01_certificate=c01_certificate,
               c02_instance=c02_instance, c16_unsolved=c16_unsolved)
PARALLEL = {"c01_certificate", "c02_instance", "c11_backends", "c14_dimred"}
try:
    import oracles3
    ORACLES.update(oracles3.ORACLES); PARALLEL |= set(getattr(oracles3, "PARALLEL", ()))
except ImportError:
    pass
