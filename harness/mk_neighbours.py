"""Freeze harness/ref_neighbours.json: for every call of ref_table.json, neighbouring parameter tuples (other iteration
counts, scaled parameters) run on the CLEAN pinned tree; a neighbour is kept only when the example accepts it, and the
claim observed there (tight / upper) is recorded.  usage: PYTHONPATH=<clean tree>:harness python mk_neighbours.py [procs] [far]   (far: harness/ref_far.json, see far_neighbours)"""
import json, os, sys, random
sys.path.insert(0, os.path.dirname(os.path.abspath(__file__)))
from examples_run import run_many

HERE = os.path.dirname(os.path.abspath(__file__))


def close(a, b, rel=1e-3, ab=2e-6):
    return abs(a - b) <= rel * max(abs(a), abs(b)) + ab


def neighbours(args, rnd):
    out = []
    if isinstance(args.get("n"), int):
        n = args["n"]
        cand = [k for k in (6, 3, n + 1, n - 1, 5, 2, 10) if 1 <= k <= 10 and k != n]
        for k in cand[:3]: out.append(dict(args, n=k))
    for key, fac in (("gamma", 0.8), ("alpha", 0.8), ("mu", 0.5), ("L", 1.7), ("beta", 0.8), ("theta", 0.8)):
        if isinstance(args.get(key), (int, float)) and not isinstance(args.get(key), bool) and args[key] not in (0, 1) or (key in ("L",) and isinstance(args.get(key), (int, float))):
            if key in args: out.append(dict(args, **{key: args[key] * fac}))
    seen, uniq = set(), []
    for a in out:
        k = json.dumps(a, sort_keys=True)
        if k not in seen: seen.add(k); uniq.append(a)
    return uniq[:5]


def far_neighbours(args):
    """tuples FAR from the suite's: three times as many iterations (up to 16), constants three times as large, the step size at
    the other end of its range (1 / L), a ten times smaller mu, and combinations that keep L * gamma fixed: a closed form with
    several regimes (a max / min of branches) is visited in its other regimes, a formula that is only right for L = 1 is exposed"""
    num = lambda k: isinstance(args.get(k), (int, float)) and not isinstance(args.get(k), bool)
    out = []
    n2 = None
    if isinstance(args.get("n"), int) and not isinstance(args.get("n"), bool):
        n2 = min(max(3 * args["n"], 12), 16)
        if n2 != args["n"]: out.append(dict(args, n=n2))
    if num("L"):
        a = dict(args, L=args["L"] * 3)
        if num("gamma"): a["gamma"] = args["gamma"] / 3           # same L * gamma
        if num("mu"): a["mu"] = args["mu"] * 3                    # same condition number
        out.append(a)
        if n2: out.append(dict(a, n=n2))
        if num("gamma") and args["L"] > 0 and abs(args["gamma"] * args["L"] - 1) > 1e-9:
            out.append(dict(args, L=args["L"] * 3, gamma=1 / (args["L"] * 3), **({"mu": args["mu"] * 3} if num("mu") else {})))     # step 1 / L, L != 1
            if n2: out.append(dict(args, L=args["L"] * 3, gamma=1 / (args["L"] * 3), n=n2, **({"mu": args["mu"] * 3} if num("mu") else {})))
    if num("mu") and args["mu"] > 0: out.append(dict(args, mu=args["mu"] / 10))
    for key in ("gamma", "alpha", "theta", "beta"):
        if num(key) and args[key] not in (0, 1) and not num("L"): out.append(dict(args, **{key: args[key] * 3}))
    seen, uniq = set(), []
    for a in out:
        k = json.dumps(a, sort_keys=True)
        if k not in seen: seen.add(k); uniq.append(a)
    return uniq[:7]


def edge_neighbours(args):
    """tuples at the BOUNDARY of the parameter ranges: no iteration at all and a single one (the first / last element of every
    loop that builds step sizes or a closed form), mu = 0 where the example takes a mu; kept, as always, only where the example
    accepts the tuple on the pinned tree and its claim holds there"""
    num = lambda k: isinstance(args.get(k), (int, float)) and not isinstance(args.get(k), bool)
    out = []
    if isinstance(args.get("n"), int) and not isinstance(args.get("n"), bool):
        for k in (0, 1, 2):
            if k != args["n"]: out.append(dict(args, n=k))
    if num("mu") and args["mu"] > 0: out.append(dict(args, mu=0))
    return out


def main(procs, far=False):
    global neighbours
    if far == "edge": neighbours = lambda args, rnd: edge_neighbours(args)
    elif far: neighbours = lambda args, rnd: far_neighbours(args)
    tab = json.load(open(os.path.join(HERE, "ref_table.json")))
    if far:
        known = json.load(open(os.path.join(HERE, "ref_neighbours.json")))
        if far == "edge" and os.path.exists(os.path.join(HERE, "ref_far.json")): known = known + json.load(open(os.path.join(HERE, "ref_far.json")))
        tab_seen = {json.dumps([t["module"], t["args"]], sort_keys=True) for t in known}
    else: tab_seen = set()
    rnd = random.Random(1)
    seen = {json.dumps([t["module"], t["args"]], sort_keys=True) for t in tab} | tab_seen
    jobs, metas = [], []
    for t in tab:
        if t["claim"] not in ("tight", "tight-undocumented", "upper"): continue
        for a in neighbours(t["args"], rnd):
            k = json.dumps([t["module"], a], sort_keys=True)
            if k in seen: continue
            seen.add(k); jobs.append((t["module"], t["func"], a)); metas.append(t)
    print("running", len(jobs), "neighbour calls", flush=True)
    res = run_many(jobs, procs)
    out = []
    for (mod, fn, a), t, r in zip(jobs, metas, res):
        if r["err"] or r["pepit"] is None or r["theory"] is None: continue
        p, th = r["pepit"], r["theory"]
        if close(p, th): claim = "tight"
        elif p <= th * (1 + 1e-3) + 2e-6: claim = "upper"
        else: continue            # the example does not claim anything there (or the claim of the suite tuple does not extend)
        if t["claim"] == "upper" and claim == "tight": claim = "upper"       # never claim more than the suite tuple does
        out.append(dict(module=mod, func=fn, args=a, claim=claim, baseline_pepit=p, baseline_theory=th, seconds=round(r["s"], 1)))
    json.dump(out, open(os.path.join(HERE, ("ref_edge.json" if far == "edge" else "ref_far.json") if far else "ref_neighbours.json"), "w"), indent=0)
    print("kept", len(out), "of", len(jobs))


if __name__ == "__main__":
    main(int(sys.argv[1]) if len(sys.argv) > 1 else 12, far=(sys.argv[2] if len(sys.argv) > 2 and sys.argv[2] in ("far", "edge") else False))
