"""History / re-solve / dual-table oracles (C12, C13, C17)."""
import warnings; warnings.filterwarnings("ignore")
import sys, os, json, random, math, io, contextlib, subprocess
import numpy as np
from ocommon import fresh, quiet_solve, pdict, edict, SC

HERE = os.path.dirname(os.path.abspath(__file__))


# ------------------------------------------------------------------ C12
def _run_B(seed, verbose=0):
    """build model B with the real library, collect what is sent (scripted wrapper + real MOSEK wrapper
    on the stand-in), and return the canonical dumps"""
    os.environ["PEPV_TEE"] = "1"; os.environ["PEPV_VERBOSE"] = str(verbose)
    import corr_world as cw
    impl = cw.Impl()
    outs = []
    for l in cw.gen_collect(seed):
        try:
            o = impl.run(l)
        except Exception as ex:
            o = "EXC %s" % type(ex).__name__
        if l.startswith("dump."): outs.append(o)
    # which solver a model that names none is handed to (and what it returns) must not depend on earlier models either
    try:
        from PEPit import PEP
        from PEPit.functions import SmoothStronglyConvexFunction
        pep = PEP(); f = pep.declare_function(SmoothStronglyConvexFunction, mu=.1, L=1.)
        xs = f.stationary_point(); x0 = pep.set_initial_point(); pep.set_initial_condition((x0 - xs) ** 2 <= 1)
        pep.set_performance_metric((x0 - f.gradient(x0) - xs) ** 2)
        with contextlib.redirect_stdout(io.StringIO()):
            v = pep.solve(verbose=0)
        outs.append("default-solver=%s value=%r" % (getattr(pep.wrapper, "solver_name", None), v))
    except Exception as ex:
        outs.append("default-solver solve raises %s" % type(ex).__name__)
    return outs


def c12_fresh(seed, verbose, stray=False):
    if stray:
        # objects created BEFORE the first PEP of the process (an abandoned bottom-up exploration): they must not leak into it
        from PEPit import Point, Expression
        from PEPit.functions import ConvexFunction, SmoothStronglyConvexFunction
        x, y = Point(), Point(); e = Expression(); f = ConvexFunction(); g = SmoothStronglyConvexFunction(mu=.1, L=1.); f.oracle(x); (x - y) ** 2 <= e
    return dict(outs=_run_B(seed, verbose))


def c12_history(n, seed, procs):
    """program B in a fresh interpreter vs after a history of other models (built, solved for real,
    failed, abandoned; all classes, partitions, LMIs, composites) in the same interpreter: the canonical
    dump of everything sent (order, senses, dense data, MOSEK task calls) must be identical, whatever the verbosity"""
    import corr_world as cw
    from oracles2 import build_model
    fails, samples, distinct = [], [], set()
    for it in range(n):
        rnd = random.Random(seed * 2203 + it)
        bseed = rnd.randint(0, 10 ** 6)
        if it % 4 == 1:
            # a LARGE program B (tens of samples per function, a hundred constraints): what is listed / truncated / batched
            # by count must not change what is sent
            while not cw.big_mode(bseed): bseed += 1
        env = dict(os.environ)
        r = subprocess.run([sys.executable, "-W", "ignore", os.path.join(HERE, "oracles.py"), "c12_fresh", str(bseed), "0", "1"],
                           capture_output=True, text=True, env=env)
        ref = None
        for l in r.stdout.splitlines():
            if l.startswith("@@JSON@@"): ref = json.loads(l[8:])["outs"]
        if ref is None:
            fails.append(dict(what="fresh run of program B crashed", oracle="c12_history", input=dict(bseed=bseed), observed=(r.stdout + r.stderr)[-400:], tags=["c12-infra"]))
            continue
        if it % 4 == 3:
            # the same program as the first model of a process in which leaf objects already exist
            r2 = subprocess.run([sys.executable, "-W", "ignore", os.path.join(HERE, "oracles.py"), "c12_fresh", str(bseed), "0", "2"],
                                capture_output=True, text=True, env=env)
            got = None
            for l in r2.stdout.splitlines():
                if l.startswith("@@JSON@@"): got = json.loads(l[8:])["outs"]
            distinct.add((bseed, "stray"))
            if got != ref:
                k = next((i for i in range(min(len(got or []), len(ref))) if got[i] != ref[i]), None)
                fails.append(dict(what="model B, built as the first PEP of a process in which points / expressions / functions had been created before, sends different data than in a fresh interpreter",
                                  oracle="c12_history", input=dict(bseed=bseed, history=["objects created before the first PEP()"], program=cw.gen_collect(bseed)),
                                  observed=(got[k][:300] if (got and k is not None) else str(got)[:300]), expected=(ref[k][:300] if k is not None else "length %d" % len(ref)), tags=["c12"]))
            continue
        hist = []
        if it % 3 == 2:
            # the SAME program with its class parameters given as another scalar type (numpy.float32 / float64 / Python ints): a value
            # computed once per parameter tuple and remembered across models (a cache keyed by `==`) would be served to model B
            tname = ["numpy.float32", "numpy.float64", "numpy.float16"][(it // 3) % 3]; hist.append("same program, parameters as " + tname)
            impl_t = cw.Impl(); impl_t.ptype = dict([("numpy.float32", np.float32), ("numpy.float64", np.float64), ("numpy.float16", np.float16)])[tname]
            buf_t = io.StringIO()
            with contextlib.redirect_stdout(buf_t):
                for l in cw.gen_collect(bseed):
                    try: impl_t.run(l)
                    except Exception: pass
        for k in range(rnd.randint(1, 5)):
            kind = rnd.choice(["collect", "cls", "steps", "resolve", "oracle", "solve", "solve", "abandon"])
            hist.append(kind)
            try:
                if kind == "solve":
                    pep, info = build_model(rnd); quiet_solve(pep, **({"dimension_reduction_heuristic": "trace"} if rnd.random() < .2 else {}))
                elif kind == "abandon":
                    build_model(rnd)
            except Exception as ex:
                fails.append(dict(what="a model built and solved after %d earlier model(s) in the same interpreter raises %s (it solves in a fresh interpreter)" % (k, type(ex).__name__),
                                  oracle="c12_history", input=dict(bseed=bseed, history=hist), tags=["c12"]))
                continue
            if kind in ("solve", "abandon"): pass
            else:
                impl = cw.Impl()
                for l in cw.GENS[kind](rnd.randint(0, 10 ** 6)):
                    try: impl.run(l)
                    except Exception: pass
        verb = rnd.choice([0, 0, 1, 2])
        if it % 4 == 1: verb = 2 - (it // 4) % 2       # large programs: verbosity 2 and 1 alternately
        buf = io.StringIO()
        try:
            with contextlib.redirect_stdout(buf):
                got = _run_B(bseed, verb)
        except Exception as ex:
            got = ["RAISES %s" % type(ex).__name__]
        distinct.add((bseed, tuple(hist), verb))
        if got != ref:
            k = next((i for i in range(min(len(got), len(ref))) if got[i] != ref[i]), None)
            fails.append(dict(what="model B sends different data after history %s (verbosity %d) than in a fresh interpreter" % (hist, verb),
                              oracle="c12_history", input=dict(bseed=bseed, history=hist, verbose=verb, program=cw.gen_collect(bseed)),
                              observed=(got[k][:300] if k is not None else "length %d" % len(got)), expected=(ref[k][:300] if k is not None else "length %d" % len(ref)), tags=["c12"]))
        if it < 2: samples.append(dict(bseed=bseed, history=hist, verbose=verb, dumps=len(ref)))
        if len(fails) > 3: break
    return dict(evaluations=n, distinct=len(distinct), failures=fails[:5], samples=samples)


def c12_types_run(n, typed):
    """the class-constraint dumps of the first `n` programs of the class x scale sweep of the cls stream (Python-float
    parameters); with `typed`, each program is first run with its class parameters given as numpy.float32, float16 and float64"""
    import corr_world as cw
    outs = {}
    for k in range(n):
        sd = 4 * k + 3; lines = cw.gen_class(sd)
        buf = io.StringIO()
        with contextlib.redirect_stdout(buf):
            if typed:
                for T in (np.float32, np.float16, np.float64):
                    impl = cw.Impl(); impl.ptype = T
                    for l in lines:
                        try: impl.run(l)
                        except Exception: pass
            impl = cw.Impl(); impl.ptype = float; o = []
            for l in lines:
                try: r = impl.run(l)
                except Exception as ex: r = "EXC %s" % type(ex).__name__
                if l.startswith("dump."): o.append(r)
        outs[str(sd)] = o
    return dict(outs=outs)


def c12_types(n, seed, procs):
    """every class at every scale: the constraints generated for Python-float parameters in a fresh interpreter vs in an
    interpreter where the SAME program was run before with numerically equal parameters of other scalar types (numpy.float32,
    float16, float64): what is generated for a model must not depend on models built earlier, whatever their number types"""
    import corr_world as cw
    n = max(25, min(n, 150)); res = {}
    for typed in (0, 1):
        r = subprocess.run([sys.executable, "-W", "ignore", os.path.join(HERE, "oracles.py"), "c12_types_run", str(n), str(typed), "1"], capture_output=True, text=True)
        for l in r.stdout.splitlines():
            if l.startswith("@@JSON@@"): res[typed] = json.loads(l[8:]).get("outs")
        if res.get(typed) is None:
            return dict(evaluations=0, distinct=0, failures=[dict(what="c12_types_run crashed", oracle="c12_types", observed=(r.stdout + r.stderr)[-400:], tags=["c12-infra"])], samples=[])
    fails = []
    for sd, ref in res[0].items():
        got = res[1].get(sd)
        if got != ref:
            k = next((i for i in range(min(len(got or []), len(ref))) if got[i] != ref[i]), None)
            lines = cw.gen_class(int(sd))
            fails.append(dict(what="class constraints of a model depend on a model built EARLIER in the interpreter with numerically equal parameters of another scalar type (numpy.float32 / float16 / float64): %s" % [l for l in lines if l.startswith(("fn.decl", "fn.new"))][:1],
                              oracle="c12_types", input=dict(cls_seed=int(sd), program=lines), observed=(got[k][:300] if (got and k is not None) else str(got)[:300]),
                              expected=(ref[k][:300] if k is not None else "length %d" % len(ref)), tags=["c12"]))
    return dict(evaluations=len(res[0]), distinct=len(res[0]), failures=fails[:5], samples=[dict(programs=len(res[0]))], exhaustive=(n >= 150))


# ------------------------------------------------------------------ C13
def c13_resolve(n, seed, procs):
    """solve, solve again, edit, solve again (real solver): same value for an unchanged model, objects built
    after a solve evaluate to the latest solution, held objects too (known finding: stale caches), the
    data sent does not grow (known findings: partition constraints, objective leaf)"""
    from PEPit import Point, Expression
    from oracles2 import build_model
    fails, samples, distinct, ev = [], [], set(), 0
    for it in range(n):
        rnd = random.Random(seed * 5087 + it)
        pep, info = build_model(rnd)
        desc = dict(seed=seed, it=it, model=info)
        t1 = quiet_solve(pep); ev += 1
        if t1 is None or t1 == "inconclusive": continue
        n1 = (len(pep._list_of_constraints_sent_to_wrapper), len(pep._list_of_psd_sent_to_wrapper), Expression.counter, Point.counter)
        held = pep.list_of_performance_metrics[0]
        leaves = list(Point.list_of_leaf_points)
        hv1 = float(held.eval())
        extended = False
        mode = rnd.choice(["same", "primal", "edit", "edit", "edit_primal"])
        if mode == "edit_primal":
            old = pep.list_of_constraints[0]
            pep.list_of_constraints[0] = (old.expression + 1 - 4 <= 0)
        if mode == "edit":
            # replace the initial condition radius 1 -> 2 (values scale by 4 for these homogeneous models)
            old = pep.list_of_constraints[0]
            pep.list_of_constraints[0] = (old.expression + 1 - 4 <= 0)
            if rnd.random() < .5:
                extended = True
                # one more evaluation of some leaf function at an existing point combination (more samples at the second solve)
                lf = [f_ for f_ in __import__("PEPit").Function.list_of_functions if f_.get_is_leaf() and type(f_).__name__ not in ("Function",) and f_.list_of_points]
                if lf:
                    f_ = rnd.choice(lf); x_ = f_.list_of_points[0][0]; f_.gradient(x_ - 0.5 * f_.list_of_points[-1][0])
        t2 = quiet_solve(pep, **({"return_primal_or_dual": "primal"} if mode in ("primal", "edit_primal") else {}))
        if mode == "edit_primal": mode = "primal"; edited = True
        else: edited = (mode == "edit")
        if t2 is None or t2 == "inconclusive": continue
        n2 = (len(pep._list_of_constraints_sent_to_wrapper), len(pep._list_of_psd_sent_to_wrapper), Expression.counter, Point.counter)
        distinct.add((json.dumps(info, sort_keys=True), mode))
        sc = max(1.0, abs(t1))
        if mode in ("same", "primal") and not edited and abs(t1 - t2) > 2e-5 * sc:
            fails.append(dict(what="solving the unchanged model again gives %.8g instead of %.8g" % (t2, t1), oracle="c13_resolve", input=desc, tags=["c13"]))
        if not extended and (n2[0] != n1[0] or n2[1] != n1[1]):
            tag = "c13-partition-growth" if info["kind"] == "blocks" and n2[1] == n1[1] else "c13-growth"
            fails.append(dict(what="second solve sends %d constraints / %d LMIs, first sent %d / %d" % (n2[0], n2[1], n1[0], n1[1]), oracle="c13_resolve", input=desc, tags=["c13", tag]))
        if not extended and (n2[2] != n1[2] or n2[3] != n1[3]):
            only_obj = (n2[2] == n1[2] + 1 and n2[3] == n1[3])
            fails.append(dict(what="the number of leaf expressions/points grows with each solve: %s -> %s" % (n1[2:], n2[2:]), oracle="c13_resolve", input=desc,
                              tags=["c13", "c13-objective-leaf" if only_obj else "c13-leaf-growth"]))
        # the certificate exposed after the second solve must be the one of the second solve
        if mode != "primal" or True:
            from oracles2 import certificate_check
            tdual = t2
            if mode == "primal":
                # value returned is the primal one; the constant of the identity must still be the latest dual bound (~ t2)
                tdual = None
            try:
                f2, _ = certificate_check(pep, t2, info, dict(desc, mode=mode), "c13_resolve")
                if mode == "primal" and abs(_["const"] - t2) > 1e-4 * max(1.0, abs(t2)):
                    fails.append(dict(what="after the second solve (primal value %.8g) the exposed multipliers certify %.8g: they are not those of the latest solve" % (t2, _["const"]), oracle="c13_resolve", input=dict(desc, mode=mode), tags=["c13"]))
                for f_ in f2:
                    if "returned dual value" in f_["what"]:
                        if mode == "primal": continue
                    f_["what"] = "after the second solve (%s): %s" % (mode, f_["what"]); f_["tags"] = ["c13"] + [t for t in f_["tags"] if t.startswith("c01-")]
                    fails.append(f_)
            except ValueError as ex:
                fails.append(dict(what="after the second solve (%s) a sent constraint has no multiplier: %s" % (mode, str(ex)[:80]), oracle="c13_resolve", input=dict(desc, mode=mode), tags=["c13"]))
        # dual tables of every leaf function report the multipliers of the constraints sent at the latest solve
        from PEPit import Function, Constraint
        for fct in Function.list_of_functions:
            if not fct.get_is_leaf() or type(fct).__name__ in ("Function",): continue
            try:
                duals = fct.get_class_constraints_duals()
            except Exception as ex:
                fails.append(dict(what="get_class_constraints_duals raises %s after the second solve" % type(ex).__name__, oracle="c13_resolve", input=dict(desc, mode=mode), tags=["c13"])); continue
            sent_ids = {id(c) for c in pep._list_of_constraints_sent_to_wrapper}
            cur = {id(c) for c in fct.list_of_class_constraints}
            for name, tab in fct.tables_of_constraints.items():
                T = tab.values
                for c in T.flatten():
                    if isinstance(c, Constraint) and (id(c) not in sent_ids or id(c) not in cur):
                        fails.append(dict(what="table %s of %s lists a constraint that was not sent at the latest solve (stale table)" % (name, type(fct).__name__), oracle="c13_resolve", input=dict(desc, mode=mode), tags=["c13"])); break
                else:
                    continue
                break
            n_tab = sum(1 for tab in fct.tables_of_constraints.values() for c in tab.values.flatten() if isinstance(c, Constraint))
            if n_tab != len(fct.list_of_class_constraints):
                fails.append(dict(what="tables of %s hold %d constraints, %d class constraints were generated for the latest solve" % (type(fct).__name__, n_tab, len(fct.list_of_class_constraints)), oracle="c13_resolve", input=dict(desc, mode=mode), tags=["c13"]))
        # a fresh object evaluates at the latest solution
        a, b = rnd.choice(leaves), rnd.choice(leaves)
        freshe = a * b + 0.0
        if abs(float(freshe.eval()) - float(a.eval() @ b.eval())) > 1e-7 * max(1., abs(float(a.eval() @ b.eval()))):
            fails.append(dict(what="an expression built after the second solve does not evaluate to the latest solution", oracle="c13_resolve", input=desc, tags=["c13"]))
        G = np.asarray(pep.G_value)
        if abs(float(a.eval() @ b.eval()) - G[a.counter, b.counter]) > 1e-5 * max(1., np.abs(G).max()):
            fails.append(dict(what="leaf points do not carry the latest Gram matrix after the second solve", oracle="c13_resolve", input=desc, tags=["c13"]))
        # the held metric must report the latest solution
        want = float(sum(w * (k.eval() if isinstance(k, Expression) else (float(k[0].eval() @ k[1].eval()) if isinstance(k, tuple) else 1.0))
                         for k, w in held.decomposition_dict.items())) if not held.get_is_leaf() else float(held.eval())
        if abs(float(held.eval()) - want) > 1e-5 * max(1., abs(want)):
            fails.append(dict(what="a held expression evaluated after the first solve still reports %.6g after the second solve (latest solution gives %.6g)" % (held.eval(), want),
                              oracle="c13_resolve", input=dict(desc, mode=mode), tags=["c13", "c13-stale-cache"]))
        if len(samples) < 2: samples.append(dict(model=info, mode=mode, t1=t1, t2=t2, sent=[n1, n2]))
    known = ("c13-stale-cache", "c13-objective-leaf", "c13-partition-growth")
    fails.sort(key=lambda f: any(t in known for t in f["tags"]))
    return dict(evaluations=ev, distinct=len(distinct), failures=fails[:8], samples=samples)


# ------------------------------------------------------------------ C17
def c17_tables(n, seed, procs):
    """after a (scripted) solve with one distinct multiplier per sent constraint: every dual table has the
    multiplier of the constraint stored at (i, j) at (i, j), zero where nothing is stored; every class
    constraint's multiplier appears in some table; names of class constraints identify them uniquely"""
    import corr_world as cw
    from PEPit import Constraint
    fails, samples, distinct = [], [], set()
    for it in range(n):
        rnd = random.Random(seed * 3203 + it)
        lines = cw.gen_class(rnd.randint(0, 10 ** 7))
        impl = cw.Impl()
        fname = None
        for l in lines:
            if l.startswith("class.set") or l.startswith("dump."): continue
            try: impl.run(l)
            except Exception: pass
            if l.startswith("fn.decl") or l.startswith("fn.new"): fname = l.split()[1]; cls = l.split()[2]
        f = impl.o[fname]
        x = next(iter(impl.o[k] for k in impl.o if k.startswith("p")), None)
        pep = impl.pep
        if rnd.random() < .5 and f.list_of_points and cls not in ("BlockSmoothConvexFunction",):
            # duplicate labels: the same named point sampled again, or two samples carrying the same name
            t0 = rnd.choice(f.list_of_points)
            if t0[0].get_name() is None: t0[0].set_name("dup")
            try:
                f.oracle(t0[0]); f.oracle(t0[0])
            except Exception: pass
            if len(f.list_of_points) > 1 and rnd.random() < .5:
                f.list_of_points[-1][0].set_name(t0[0].get_name())
        from PEPit import Expression
        pep.set_performance_metric(Expression())
        w = cw.SolvingWrapper(rnd.randint(0, 10 ** 6))
        buf = io.StringIO()
        try:
            with contextlib.redirect_stdout(buf):
                pep._solve_with_wrapper(w, verbose=0)
        except AssertionError:
            pass        # scripted value vs objective.eval() float equality is not the subject here
        except Exception:
            continue    # e.g. an LMI over zero samples makes check_feasibility's eigh fail: not the subject here
        desc = dict(seed=seed, it=it, cls=cls, program=[l for l in lines if not l.startswith("dump.")][:30])
        distinct.add((cls, len(f.list_of_points), len(f.list_of_stationary_points)))
        tags = ["c17", "c17:" + cls]
        try:
            duals = f.get_class_constraints_duals()
        except Exception as ex:
            fails.append(dict(what="%s.get_class_constraints_duals() raises %s" % (cls, type(ex).__name__), oracle="c17_tables", input=desc, tags=tags + ["c17-duals-raise:%s:%s" % (cls, type(ex).__name__)]))
            continue
        in_tables = set()
        for name, tab in f.tables_of_constraints.items():
            if name not in duals:
                fails.append(dict(what="no dual table for condition %s of %s" % (name, cls), oracle="c17_tables", input=desc, tags=tags)); continue
            T = tab.values; D = duals[name].values
            if T.shape != D.shape:
                fails.append(dict(what="dual table of %s has shape %s, constraints table %s" % (name, D.shape, T.shape), oracle="c17_tables", input=desc, tags=tags)); continue
            for i in range(T.shape[0]):
                for j in range(T.shape[1]):
                    c = T[i, j]
                    if isinstance(c, Constraint):
                        in_tables.add(id(c))
                        if float(D[i, j]) != float(c.eval_dual()):
                            fails.append(dict(what="dual table %s entry (%d,%d) is %r, multiplier of the constraint stored there is %r" % (name, i, j, D[i, j], c.eval_dual()), oracle="c17_tables", input=desc, tags=tags))
                    elif float(D[i, j]) != 0.0:
                        fails.append(dict(what="dual table %s entry (%d,%d) is %r where no constraint exists" % (name, i, j, D[i, j]), oracle="c17_tables", input=desc, tags=tags))
        # names: the constraint stored at (i, j) must be named after the condition and the labels of row i / column j
        fid = f.get_name() or "Function_{}".format(f.counter)
        for name, tab in f.tables_of_constraints.items():
            if not hasattr(tab, "values"): continue
            T = tab.values; rows = list(tab.index); cols = list(tab.columns)
            for i in range(T.shape[0]):
                for j in range(T.shape[1]):
                    c = T[i, j]
                    if not isinstance(c, Constraint): continue
                    want1 = "IC_%s_%s(%s)" % (fid, name, cols[j]); want2 = "IC_%s_%s(%s, %s)" % (fid, name, rows[i], cols[j])
                    if c.get_name() not in (want1, want2):
                        fails.append(dict(what="constraint at (%d,%d) of table %s is named %r, expected %r" % (i, j, name, c.get_name(), want2 if T.shape[0] > 1 or rows[i] != 0 else want1), oracle="c17_tables", input=desc, tags=tags + ["c17-names:" + cls]))
        missing = [c for c in f.list_of_class_constraints if id(c) not in in_tables]
        if missing:
            fails.append(dict(what="%d class constraint(s) of %s appear in no table (e.g. %s)" % (len(missing), cls, missing[0].get_name()), oracle="c17_tables", input=desc, tags=tags + ["c17-no-table:" + cls]))
        names = [c.get_name() for c in f.list_of_class_constraints]
        # labels are the user's names or the default ids `Point_<index in the list>`: names identify constraints only when the
        # labels of the samples (of the function and, for a linear operator, of its adjoint) are distinct — a label given twice,
        # a point sampled twice, or a user label equal to a default id legitimately give two constraints one name
        def _labels(lst): return [(t[0].get_name() or "Point_%d" % i_) for i_, t in enumerate(lst)]
        pnames = _labels(f.list_of_points)
        tnames = _labels(f.T.list_of_points) if getattr(f, "T", None) is not None and hasattr(f.T, "list_of_points") else []
        if len(set(pnames)) == len(pnames) and len(set(tnames)) == len(tnames):
            if None in names or len(set(names)) != len(names):
                dup = next((n_ for n_ in names if n_ is None or names.count(n_) > 1), None)
                fails.append(dict(what="class constraint names of %s do not identify the constraint (%r occurs %d times)" % (cls, dup, names.count(dup)), oracle="c17_tables", input=desc, tags=tags + ["c17-names:" + cls]))
        if it < 2: samples.append(dict(cls=cls, samples=len(f.list_of_points), tables={k: list(v.shape) for k, v in f.tables_of_constraints.items() if hasattr(v, "shape")}))
        if it % 3 == 0:
            # the name of a class constraint identifies its FUNCTION: two unnamed functions of one model — one built with the
            # class constructor (documented alternative), one through declare_function, in both orders — sampled at the same
            # unnamed points must not share a constraint name, and each name must carry the identifier of its own function
            try:
                from PEPit import PEP, Point
                import PEPit.functions as PF_, PEPit.operators as PO_
                C2 = getattr(PF_, cls, None) or getattr(PO_, cls)
                kw2 = {k_: getattr(f, k_) for k_ in ("mu", "L", "M", "D", "beta", "rho") if hasattr(f, k_)}
                if cls != "BlockSmoothConvexFunction":
                    for order in ("ctor-first", "declared-first"):
                        pep2 = PEP()
                        if order == "ctor-first": g1 = C2(**kw2); g2 = pep2.declare_function(C2, **kw2)
                        else: g1 = pep2.declare_function(C2, **kw2); g2 = C2(**kw2)
                        xa, xb = Point(), Point()
                        for g_ in (g1, g2):
                            g_.oracle(xa); g_.oracle(xb); g_.set_class_constraints()
                        n1 = [c.get_name() for c in g1.list_of_class_constraints]; n2 = [c.get_name() for c in g2.list_of_class_constraints]
                        both = set(n1) & set(n2)
                        if both:
                            fails.append(dict(what="two functions of one model (%s) share the class constraint name %r: names do not identify the function" % (order, sorted(both)[0]),
                                              oracle="c17_tables", input=dict(desc, scenario="two unnamed %s, %s" % (cls, order)), tags=tags + ["c17-names:" + cls]))
                            break
            except (ZeroDivisionError, AssertionError, ValueError):
                pass
        if rnd.random() < .5:
            # the tables are read, the model is edited (one more sample), it is solved again with other multipliers and the
            # tables are read again: they must be those of the latest solve, with the latest shape
            try:
                from PEPit import Point
                f.oracle(Point())
                w2 = cw.SolvingWrapper(rnd.randint(0, 10 ** 6))
                with contextlib.redirect_stdout(io.StringIO()):
                    pep._solve_with_wrapper(w2, verbose=0)
            except AssertionError: pass
            except Exception: continue
            try:
                duals2 = f.get_class_constraints_duals()
            except Exception as ex:
                fails.append(dict(what="%s.get_class_constraints_duals() raises %s after a second solve" % (cls, type(ex).__name__), oracle="c17_tables", input=desc, tags=tags + ["c17-duals-raise:%s:%s" % (cls, type(ex).__name__)])); continue
            for name, tab in f.tables_of_constraints.items():
                if name not in duals2:
                    fails.append(dict(what="no dual table for condition %s of %s after a second solve" % (name, cls), oracle="c17_tables", input=desc, tags=tags)); continue
                T = tab.values; D = duals2[name].values
                if T.shape != D.shape:
                    fails.append(dict(what="after one more sample and a second solve the dual table of %s has shape %s, the constraints table %s (stale table)" % (name, D.shape, T.shape), oracle="c17_tables", input=desc, tags=tags)); continue
                bad = [(i, j) for i in range(T.shape[0]) for j in range(T.shape[1]) if isinstance(T[i, j], Constraint) and float(D[i, j]) != float(T[i, j].eval_dual())]
                if bad:
                    i, j = bad[0]
                    fails.append(dict(what="after a second solve dual table %s entry (%d,%d) is %r, the multiplier of the constraint stored there is %r (%d stale entries)" % (name, i, j, D[i, j], T[i, j].eval_dual(), len(bad)), oracle="c17_tables", input=desc, tags=tags))
        if len(fails) > 12: break
    return dict(evaluations=n, distinct=len(distinct), failures=fails[:12], samples=samples)


# ------------------------------------------------------------------ C08
def c08_steps(n, seed, procs):
    """every primitive step / option with random step sizes on leaf and composite functions, from leaf and
    combination starting points: the returned points, the recorded samples and the side constraint are
    compared with the documented relations, evaluated exactly at random integer leaf values"""
    from fractions import Fraction as Fr
    from PEPit import PEP, Point, Expression
    import PEPit.functions as PF
    from PEPit import primitive_steps as PS
    from ocommon import eval_p, eval_e, dot
    fails, samples, distinct = [], [], set()
    GAM = [Fr(1, 2), Fr(1), Fr(2), Fr(1, 4), Fr(4), Fr(-1, 2)]
    for it in range(n):
        rnd = random.Random(seed * 9341 + it)
        pep = PEP()
        fl = [pep.declare_function(PF.ConvexFunction), pep.declare_function(PF.SmoothStronglyConvexFunction, mu=.1, L=1.), pep.declare_function(PF.ConvexIndicatorFunction, D=2.)]
        f = rnd.choice(fl + [fl[0] + fl[1], 2 * fl[1] + fl[2]])
        p0, p1 = Point(), Point()
        x0 = rnd.choice([p0, p0 - 2 * p1, 0.5 * p0 + p1])
        step = rnd.choice(["prox", "inexgrad_abs", "inexgrad_rel", "els", "linopt", "breggrad", "bregprox", "epssub", "gapI", "gapII", "gapIII"])
        g = rnd.choice(GAM); gf = float(g); e_ = rnd.choice([Fr(1, 2), Fr(2), Fr(1, 4)]); ef = float(e_)
        npts0 = len(f.list_of_points); ncons0 = len(f.list_of_constraints)
        desc = dict(seed=seed, it=it, step=step, gamma=str(g), epsilon=str(e_), start=str(pdict(x0)), composite=not f.get_is_leaf())
        distinct.add((step, str(g), not f.get_is_leaf(), str(pdict(x0))))
        def vals():
            V = {p.counter: [Fr(rnd.randint(-3, 3)) for _ in range(3)] for p in Point.list_of_leaf_points}
            F = {e.counter: Fr(rnd.randint(-4, 4)) for e in Expression.list_of_leaf_expressions}
            return V, F
        def bad(msg): fails.append(dict(what="%s: %s" % (step, msg), oracle="c08_steps", input=desc, tags=["c08"]))
        def lastcons(): return f.list_of_constraints[-1]
        def lhs(c, V, F): return eval_e(c.expression, V, F)
        sub = lambda a, b: [x - y for x, y in zip(a, b)]
        sm = lambda c, a: [c * x for x in a]
        if step == "prox":
            x, gx, fx = PS.proximal_step(x0, f, gf); V, F = vals()
            if eval_p(x, V) != sub(eval_p(x0, V), sm(g, eval_p(gx, V))): bad("x != x0 - gamma*g")
            if len(f.list_of_points) != npts0 + 1 or f.list_of_points[-1] != (x, gx, fx): bad("does not record exactly the sample (x, g, f(x))")
            if len(f.list_of_constraints) != ncons0: bad("records a side constraint")
        elif step.startswith("inexgrad"):
            rel = step.endswith("rel")
            x, dx0, fx0 = PS.inexact_gradient_step(x0, f, gf, ef, notion="relative" if rel else "absolute"); V, F = vals()
            trip = [t for t in f.list_of_points if pdict(t[0]) == pdict(x0)]
            if len(trip) != 1: bad("%d samples recorded at x0 instead of 1" % len(trip)); continue
            gx0 = trip[0][1]
            if eval_p(x, V) != sub(eval_p(x0, V), sm(g, eval_p(dx0, V))): bad("x != x0 - gamma*d")
            if len(f.list_of_constraints) != ncons0 + 1: bad("does not record exactly one side constraint"); continue
            d = sub(eval_p(gx0, V), eval_p(dx0, V)); gg = eval_p(gx0, V)
            want = dot(d, d) - e_ * e_ * (dot(gg, gg) if rel else 1)
            if lhs(lastcons(), V, F) != want or lastcons().equality_or_inequality != "inequality": bad("side constraint is not ||g-d||^2 <= eps^2 (||g||^2)")
        elif step == "els":
            dirs = [rnd.choice([p0, p1, x0]) for _ in range(rnd.randint(0, 2))]
            x, gx, fx = PS.exact_linesearch_step(x0, f, dirs); V, F = vals()
            cs = f.list_of_constraints[ncons0:]
            if len(cs) != 1 + len(dirs): bad("records %d constraints instead of %d" % (len(cs), 1 + len(dirs))); continue
            if lhs(cs[0], V, F) != dot(sub(eval_p(x, V), eval_p(x0, V)), eval_p(gx, V)) or cs[0].equality_or_inequality != "equality": bad("main orthogonality is not <x - x0, g> = 0")
            for c, d in zip(cs[1:], dirs):
                if lhs(c, V, F) != dot(eval_p(d, V), eval_p(gx, V)) or c.equality_or_inequality != "equality": bad("direction orthogonality is not <d, g> = 0")
            if not any(t[0] is x and t[1] is gx for t in f.list_of_points): bad("(x, g, f(x)) is not a recorded sample")
        elif step == "linopt":
            ind = fl[2]; n0 = len(ind.list_of_points)
            x, gx, fx = PS.linear_optimization_step(x0, ind); V, F = vals()
            if eval_p(gx, V) != sm(Fr(-1), eval_p(x0, V)): bad("recorded gradient is not -dir")
            if len(ind.list_of_points) != n0 + 1 or ind.list_of_points[-1] != (x, gx, fx): bad("does not record exactly the sample (x, -dir, .)")
        elif step == "breggrad":
            x, sx, hx = PS.bregman_gradient_step(p1, x0, f, gf); V, F = vals()
            if eval_p(sx, V) != sub(eval_p(x0, V), sm(g, eval_p(p1, V))): bad("s(x) != s(x0) - gamma*g(x0)")
            if f.list_of_points[-1] != (x, sx, hx) or len(f.list_of_points) != npts0 + 1: bad("does not record exactly (x, s(x), h(x))")
        elif step == "bregprox":
            h = fl[1]; nh = len(h.list_of_points)
            x, sx, hx, gx, fx = PS.bregman_proximal_step(x0, h, f, gf); V, F = vals()
            if eval_p(sx, V) != sub(eval_p(x0, V), sm(g, eval_p(gx, V))): bad("s(x) != s(x0) - gamma*g(x)")
            if not any(t == (x, gx, fx) for t in f.list_of_points) or not any(t == (x, sx, hx) for t in h.list_of_points): bad("samples on f and on the mirror map not both recorded")
        elif step == "epssub":
            x, g0, f0, eps = PS.epsilon_subgradient_step(x0, f, gf); V, F = vals()
            if eval_p(x, V) != sub(eval_p(x0, V), sm(g, eval_p(g0, V))): bad("x != x0 - gamma*g0")
            c = lastcons(); t = [t for t in f.list_of_points if t[1] is g0]
            if len(t) != 1: bad("conjugate sample (y, g0, f(y)) not recorded exactly once"); continue
            y, _, fy = t[0]
            want = eval_e(f0, V, F) + (dot(eval_p(g0, V), eval_p(y, V)) - eval_e(fy, V, F)) - dot(eval_p(g0, V), eval_p(x0, V)) - eval_e(eps, V, F)
            if lhs(c, V, F) != want or c.equality_or_inequality != "inequality": bad("side constraint is not f(x0) + f*(g0) - <g0,x0> <= eps")
        else:
            opt = {"gapI": "PD_gapI", "gapII": "PD_gapII", "gapIII": "PD_gapIII"}[step]
            x, gx, fx, w, v, fw, eps = PS.inexact_proximal_step(x0, f, gf, opt=opt); V, F = vals()
            c = lastcons()
            if len(f.list_of_constraints) != ncons0 + 1: bad("does not record exactly one side constraint")
            X, X0, Vv, W = eval_p(x, V), eval_p(x0, V), eval_p(v, V), eval_p(w, V)
            epssub = eval_e(fx, V, F) - eval_e(fw, V, F) - dot(Vv, sub(X, W))
            if step == "gapI":
                e = [a - b + g * c_ for a, b, c_ in zip(X, X0, Vv)]; want = dot(e, e) / 2 + g * epssub - eval_e(eps, V, F)
            elif step == "gapII":
                e = [a - b + g * c_ for a, b, c_ in zip(X, X0, eval_p(gx, V))]; want = dot(e, e) / 2 - eval_e(eps, V, F)
            else:
                if Vv != sm(1 / g, sub(X0, X)): bad("v != (x0 - x)/gamma")
                want = g * epssub - eval_e(eps, V, F)
            if lhs(c, V, F) != want or c.equality_or_inequality != "inequality": bad("primal-dual gap constraint differs from the documented one")
            need = 1 if step == "gapII" else 2
            if len(f.list_of_points) != npts0 + need: bad("records %d samples instead of %d" % (len(f.list_of_points) - npts0, need))
        if it < 2: samples.append(desc)
        if len(fails) > 5: break
    return dict(evaluations=n, distinct=len(distinct), failures=fails[:5], samples=samples)


ORACLES = dict(c08_steps=c08_steps, c12_history=c12_history, c13_resolve=c13_resolve, c17_tables=c17_tables,
               c12_fresh=lambda n, seed, procs: c12_fresh(n, seed, stray=(procs == 2)),
               c12_types=c12_types, c12_types_run=lambda n, seed, procs: c12_types_run(n, bool(seed)))
PARALLEL = {"c13_resolve", "c08_steps"}
try:
    import oracles4
    ORACLES.update(oracles4.ORACLES)
except ImportError:
    pass
