"""validate MANIFEST.json and evidence files against the schemas (run with python3-vt)"""
import json, sys, glob, jsonschema
ms = json.load(open("/root/.vp/MANIFEST.schema.json")); es = json.load(open("/root/.vp/EVIDENCE.schema.json"))
m = json.load(open("/verif/MANIFEST.json")); jsonschema.validate(m, ms)
ids = {json.loads(l)["id"] for l in open("/verif/properties.jsonl")}
claimed = {c["property_id"] for c in m["checks"]}; na = {c["property_id"] for c in m.get("not_applicable", [])}
print("manifest ok; claimed", sorted(claimed), "not_applicable", sorted(na), "unlisted", sorted(ids - claimed - na))
for p in sorted(glob.glob("/verif/evidence/*.json")):
    try:
        jsonschema.validate(json.load(open(p)), es); print("ok", p)
    except jsonschema.ValidationError as e:
        print("INVALID", p, e.message[:200])
