"""Correspondence harness (prototype v2): drive the real PEPit and the Lean world model with the
same op lines and compare canonical outputs."""
import warnings
warnings.filterwarnings("ignore")
import random, subprocess, sys, re, os, json
from fractions import Fraction as Fr
import numpy as np
from PEPit import PEP, Point, Expression, Constraint, Function, PSDMatrix, BlockPartition
from PEPit.wrapper import Wrapper
import PEPit.functions as PF, PEPit.operators as PO

DRIVER = os.environ.get("PEPV_DRIVER", os.path.join(os.path.dirname(os.path.abspath(__file__)), "..", "lean", ".lake", "build", "bin", "driver"))


# ------------------------------------------------------------------ canonical text
def pad(n): return "%06d" % n
def showrat(v):
    f = Fr(v)
    return str(f.numerator) if f.denominator == 1 else "%d/%d" % (f.numerator, f.denominator)
def canon(items): return "{" + ",".join("%s:%s" % kv for kv in sorted(items)) + "}"
def pd(p): return canon([(pad(k.counter), showrat(v)) for k, v in p.decomposition_dict.items() if v != 0])
def ekey(k):
    if isinstance(k, Expression): return "f" + pad(k.counter)
    if isinstance(k, tuple): return "g%s_%s" % (pad(k[0].counter), pad(k[1].counter))
    return "one"
def ed(e): return canon([(ekey(k), showrat(v)) for k, v in e.decomposition_dict.items() if v != 0])
def show_cons(c):
    return "%s|%s|%s" % (c.get_name(), "eq" if c.equality_or_inequality == "equality" else "le", ed(c.expression))
def show_psd(m):
    rows = "".join("[" + ";".join(ed(m[i, j]) for j in range(m.shape[1])) + "]" for i in range(m.shape[0]))
    return "PSD%d:%s" % (m.shape[0], rows)
def dump_fn(f):
    dec = canon([(pad(k.counter) if k.counter is not None else "None", showrat(w)) for k, w in f.decomposition_dict.items() if w != 0])
    pts = ";".join(pd(x) + "|" + pd(g) + "|" + ed(v) for (x, g, v) in f.list_of_points)
    return "dec=%s reuse=%s nstat=%d pts=[%s]" % (dec, "true" if f.reuse_gradient else "false", len(f.list_of_stationary_points), pts)
def dump_class(f):
    return " ## ".join([show_cons(c) for c in f.list_of_class_constraints] + [show_psd(m) for m in f.list_of_class_psd])
def dump_tables(f):
    out = []
    for name, tab in f.tables_of_constraints.items():
        rows = tab.values.tolist() if hasattr(tab, "values") else tab
        s = "".join("[" + ";".join((c.get_name() if isinstance(c, Constraint) else "0") for c in r) + "]" for r in rows)
        out.append((name, s))
    return canon(out)
def dump_part(b):
    cons = " ## ".join(show_cons(c) for c in b.list_of_constraints)
    bl = " ".join(pd(x) + "->[" + ";".join(pd(y) for y in ys) + "]" for x, ys in b.blocks_dict.items())
    return "d=%d blocks=[%s] cons=[%s]" % (b.d, bl, cons)


class ScriptedWrapper(Wrapper):
    """records what is sent; reports no value (so that solve stops before evaluation)"""
    def __init__(self):
        super().__init__(verbose=0)
        self.sent = []
    def check_license(self): return True
    def set_main_variables(self): pass
    def send_constraint_to_solver(self, c): self._list_of_constraints_sent_to_solver.append(c); self.sent.append(("C", c))
    def send_lmi_constraint_to_solver(self, k, m): self._list_of_constraints_sent_to_solver.append(m); self.sent.append(("P", m))
    def generate_problem(self, objective): self.objective = objective
    def solve(self, **kw): return "scripted", "none", None


class TeeWrapper(ScriptedWrapper):
    """records like ScriptedWrapper and forwards every call to a real MosekWrapper (stand-in mosek)"""
    def __init__(self):
        super().__init__()
        sys.path.insert(0, os.path.join(os.path.dirname(os.path.abspath(__file__)), "stubs"))
        from PEPit.wrappers.mosek_wrapper import MosekWrapper
        self.mw = MosekWrapper(verbose=0)
        self.mw_error = None
    def _fw(self, name, *a):
        if self.mw_error is None:
            try:
                getattr(self.mw, name)(*a)
            except Exception as ex:
                self.mw_error = "%s: %s" % (type(ex).__name__, ex)
    def set_main_variables(self): self._fw("set_main_variables")
    def send_constraint_to_solver(self, c): super().send_constraint_to_solver(c); self._fw("send_constraint_to_solver", c)
    def send_lmi_constraint_to_solver(self, k, m): super().send_lmi_constraint_to_solver(k, m); self._fw("send_lmi_constraint_to_solver", k, m)
    def generate_problem(self, objective): super().generate_problem(objective); self._fw("generate_problem", objective)


def show_task(calls):
    out = []
    def F(idx, val): return canon([(pad(i), showrat(v)) for i, v in zip(idx, val)])
    for c in calls:
        k = c[0]
        if k == "appendbarvars": out.append("barvar(%d)" % c[1][0])
        elif k == "appendvars": out.append("vars(%d)" % c[1])
        elif k == "putvarbound": out.append("free(%d)" % c[1])
        elif k == "appendcons": out.append("con")
        elif k == "appendsparsesymmat": out.append("sym(%d,%s)" % (c[1], canon([("%s_%s" % (pad(i), pad(j)), showrat(v)) for i, j, v in zip(c[2], c[3], c[4])])))
        elif k == "putbaraij": out.append("baraij(%d,%d,%d)" % (c[1], c[2], c[3][0]))
        elif k == "putaijlist": out.append("aij(_,{})" if not c[1] else "aij(%d,%s)" % (c[1][0], F(c[2], c[3])))
        elif k == "putconbound": out.append("bound(%d,%s,%s)" % (c[1], c[2], showrat(c[4])))
        elif k == "putclist": out.append("c(%s)" % F(c[1], c[2]))
        elif k == "putobjsense": out.append("maximize")
    return " ".join(out)


class SolvingWrapper(ScriptedWrapper):
    """a scripted *successful* solver: random integer PSD Gram matrix, integer F, tagged duals"""
    def __init__(self, seed):
        super().__init__(); self.seed = seed; self.G = None; self.Fv = None
    def solve(self, **kw):
        rng = np.random.default_rng(self.seed)
        n, m = Point.counter, Expression.counter
        A = rng.integers(-2, 3, size=(n, n)).astype(float)
        # one scripted solution in eight is tiny (entries of order 2^-40), one in sixteen huge (2^40): what is kept, compared or
        # thresholded with an ABSOLUTE tolerance between solves shows on those
        sc = 2.0 ** -40 if self.seed % 8 == 5 else (2.0 ** 40 if self.seed % 16 == 6 else 1.0)
        self.G = (A.T @ A) * sc
        self.Fv = rng.integers(-3, 4, size=(m,)).astype(float) * sc
        self.optimal_G, self.optimal_F = self.G, self.Fv
        return "scripted", "none", float(self.Fv[self.objective.counter])
    def _recover_dual_values(self):
        n = Point.counter
        # the multiplier of `G >= 0`: eigenvalues spread over twelve orders of magnitude and a non-zero off-diagonal pair (a
        # residual "cleaned", thresholded or symmetrised on its way to `PEP.residual` is not the one the solver returned)
        residual = np.diag([2.0 ** -((7 * i) % 41) for i in range(n)])
        if n >= 2: residual[0, 1] = residual[1, 0] = 2.0 ** -9
        self.last_residual = residual.copy()
        duals = [residual]
        for k, item in enumerate(self._list_of_constraints_sent_to_solver):
            if isinstance(item, Constraint): duals.append(-float(1000 + k) if k % 3 == 1 else float(1000 + k))       # every third multiplier is negative
            else: duals.append(np.eye(item.shape[0]) * (2000 + k))
        return duals, residual


class Impl:
    def __init__(self):
        self.o = {}
        self.pep = None
        self.wrapper = None
    def run(self, line):
        t = line.split()
        try:
            return getattr(self, "op_" + t[0].replace(".", "_"))(*t[1:])
        except ZeroDivisionError:
            return "err ZeroDivisionError"
        except AssertionError:
            return "err AssertionError"
        except TypeError:
            return "err TypeError"
    def R(self, s): return float(Fr(s)) if "/" in s else (int(s) if re.fullmatch(r"-?\d+", s) else float(s))
    def op_probe_exact(self): return "probe"
    def op_reset(self):
        import PEPit
        self.o = {"nullP": PEPit.null_point, "nullE": PEPit.null_expression}; self.pep = PEP(); return "ok"
    def op_fn_new(self, n, cls, reuse, inf, *rest): return self.op_fn_decl(n, cls, reuse, inf, *rest, direct=True)
    def op_fn_decl(self, n, cls, reuse, inf, *rest, direct=False):
        part = None
        rest = list(rest)
        if rest and rest[-1].startswith("partition="):
            part = self.o[rest.pop()[10:]]
        C = getattr(PF, cls, None) or getattr(PO, cls)
        import inspect
        names = [p for p in inspect.signature(C.__init__).parameters if p in ("mu", "L", "M", "D", "beta", "rho")]
        kw = {}
        vals = [self.R(r) for r in rest]
        # the TYPE of the parameters: Python floats, or (one declaration in two) the numbers as a user types them (`L=1`, `mu=0`:
        # Python ints where the value is an integer); a harness may force another scalar type (`ptype`, e.g. numpy.float32)
        import zlib
        ptype = getattr(self, "ptype", None)
        if ptype is not None: conv = ptype
        elif zlib.crc32(("ptype %s %s %s" % (n, cls, " ".join(rest))).encode()) % 2 == 0: conv = lambda v: v
        else: conv = float
        if cls == "BlockSmoothConvexFunction":
            kw = dict(partition=part, L=[conv(v) for v in vals])
        else:
            it = iter(vals)
            for p in names:
                if inf == "1" and p in ("D", "M") and cls in ("ConvexIndicatorFunction", "ConvexSupportFunction"):
                    kw[p] = np.inf
                else:
                    kw[p] = conv(next(it))
        if "reuse_gradient" in inspect.signature(C.__init__).parameters:
            kw["reuse_gradient"] = (reuse == "1")
        self.o[n] = C(**kw) if direct else self.pep.declare_function(C, **kw); return "ok"
    def op_fn_adjoint(self, n, f): self.o[n] = self.o[f].T; return "ok"
    def op_fn_lin(self, n, c1, a, c2, b): self.o[n] = self.R(c1) * self.o[a] + self.R(c2) * self.o[b]; return "ok"
    def op_fn_add(self, n, a, b): self.o[n] = self.o[a] + self.o[b]; return "ok"
    def op_fn_sub(self, n, a, b): self.o[n] = self.o[a] - self.o[b]; return "ok"
    def op_fn_setparam(self, f, i, v):
        import inspect
        names = [p_ for p_ in inspect.signature(type(self.o[f]).__init__).parameters if p_ in ("mu", "L", "M", "D", "beta", "rho")]
        setattr(self.o[f], names[int(i)], float(self.R(v))); return "ok"
    def op_fn_setv(self, f, p): self.o[f].v = self.o[p]; return "ok"
    def op_pt_leaf(self, n): self.o[n] = Point(); return "ok"
    def op_pt_leafn(self, n, nm): self.o[n] = Point(name=nm); return "ok"
    def op_pt_lin(self, n, c1, a, c2, b): self.o[n] = self.R(c1) * self.o[a] + self.R(c2) * self.o[b]; return "ok"
    def op_pt_sub(self, n, a, b): self.o[n] = self.o[a] - self.o[b]; return "ok"
    def op_pt_smul(self, n, c, a): self.o[n] = self.R(c) * self.o[a]; return "ok"
    def op_pt_div(self, n, a, c): self.o[n] = self.o[a] / self.R(c); return "ok"
    def op_pt_add(self, n, a, b): self.o[n] = self.o[a] + self.o[b]; return "ok"
    def _inplace(self, n, a, fn):
        x = self.o[a]; x = fn(x); self.o[n] = x; return "ok"        # `x = a; x op= b`: `a` must still name the old object
    def op_pt_iadd(self, n, a, b):
        x = self.o[a]; x += self.o[b]; self.o[n] = x; return "ok"
    def op_pt_isub(self, n, a, b):
        x = self.o[a]; x -= self.o[b]; self.o[n] = x; return "ok"
    def op_ex_iadd(self, n, a, b):
        x = self.o[a]; x += self.o[b]; self.o[n] = x; return "ok"
    def op_ex_isub(self, n, a, b):
        x = self.o[a]; x -= self.o[b]; self.o[n] = x; return "ok"
    def op_ex_iaddc(self, n, a, c):
        x = self.o[a]; x += self.R(c); self.o[n] = x; return "ok"
    def op_ex_imul(self, n, a, c):
        x = self.o[a]; x *= self.R(c); self.o[n] = x; return "ok"
    def op_pt_imul(self, n, a, c):
        x = self.o[a]; x *= self.R(c); self.o[n] = x; return "ok"
    def op_pt_neg(self, n, a): self.o[n] = -self.o[a]; return "ok"
    def op_ex_add(self, n, a, b): self.o[n] = self.o[a] + self.o[b]; return "ok"
    def op_ex_neg(self, n, a): self.o[n] = -self.o[a]; return "ok"
    def op_ex_smul(self, n, c, a): self.o[n] = (self.R(c) * self.o[a]) if len(n) % 2 else (self.o[a] * self.R(c)); return "ok"
    def op_ex_sq(self, n, a): self.o[n] = self.o[a] ** 2; return "ok"
    def op_ex_subc(self, n, a, c): self.o[n] = self.o[a] - self.R(c); return "ok"
    def op_ex_rsubc(self, n, c, a): self.o[n] = self.R(c) - self.o[a]; return "ok"
    def op_ex_leaf(self, n): self.o[n] = Expression(); return "ok"
    def op_ex_ip(self, n, a, b): self.o[n] = self.o[a] * self.o[b]; return "ok"
    def op_ex_lin(self, n, c1, a, c2, b): self.o[n] = self.R(c1) * self.o[a] + self.R(c2) * self.o[b]; return "ok"
    def op_ex_sub(self, n, a, b): self.o[n] = self.o[a] - self.o[b]; return "ok"
    def op_ex_addc(self, n, a, c): self.o[n] = self.o[a] + self.R(c); return "ok"
    def op_ex_div(self, n, a, c): self.o[n] = self.o[a] / self.R(c); return "ok"
    def op_cons_le(self, n, a, b): self.o[n] = (self.o[a] <= self.o[b]); return "ok"
    def op_cons_ge(self, n, a, b): self.o[n] = (self.o[a] >= self.o[b]); return "ok"
    def op_cons_eq(self, n, a, b): self.o[n] = (self.o[a] == self.o[b]); return "ok"
    def op_cons_lec(self, n, a, c): self.o[n] = (self.o[a] <= self.R(c)); return "ok"
    def op_cons_gec(self, n, a, c): self.o[n] = (self.o[a] >= self.R(c)); return "ok"
    def op_cons_eqc(self, n, a, c): self.o[n] = (self.o[a] == self.R(c)); return "ok"
    def op_fn_oracle(self, f, x, gn, vn): self.o[gn], self.o[vn] = self.o[f].oracle(self.o[x]); return "ok"
    def op_fn_gradient(self, f, x, gn): self.o[gn] = self.o[f].gradient(self.o[x]); return "ok"
    def op_fn_value(self, f, x, vn): self.o[vn] = self.o[f].value(self.o[x]); return "ok"
    # the documented aliases: `f.subgradient(x)` is `f.gradient(x)`, `f(x)` is `f.value(x)`, `-f` is `(-1) * f`
    def op_fn_subgradient(self, f, x, gn): self.o[gn] = self.o[f].subgradient(self.o[x]); return "ok"
    def op_fn_call(self, f, x, vn): self.o[vn] = self.o[f](self.o[x]); return "ok"
    def op_fn_neg(self, n, a): self.o[n] = -self.o[a]; return "ok"
    def op_fn_stat(self, f, xn, vn):
        x, g, v = self.o[f].stationary_point(return_gradient_and_function_value=True); self.o[xn] = x; self.o[vn] = v; return "ok"
    def op_fn_fixed(self, f, xn): self.o[xn] = self.o[f].fixed_point()[0]; return "ok"
    def op_fn_stat3(self, f, xn, gn, vn):
        self.o[xn], self.o[gn], self.o[vn] = self.o[f].stationary_point(return_gradient_and_function_value=True); return "ok"
    def op_fn_fixed2(self, f, xn, vn):
        x, g, v = self.o[f].fixed_point(); self.o[xn] = x; self.o[vn] = v; return "ok"
    def op_fn_smul(self, n, c, a): self.o[n] = self.R(c) * self.o[a]; return "ok"
    def op_fn_div(self, n, a, c): self.o[n] = self.o[a] / self.R(c); return "ok"
    def _spec(self, f, f2=None, f3=None):
        """what the REAL example built: samples recorded on the function(s), constraints and metrics declared on the problem"""
        smp = lambda fn: ";".join(pd(x) + "|" + pd(g) + "|" + ed(v) for (x, g, v) in self.o[fn].list_of_points)
        sm = smp(f)
        ini = ";".join(("eq" if c.equality_or_inequality == "equality" else "le") + "|" + ed(c.expression) for c in self.pep.list_of_constraints)
        me = ";".join(ed(m) for m in self.pep.list_of_performance_metrics)
        extra = "".join(" samples%d=[%s]" % (i, smp(fn)) for i, fn in ((2, f2), (3, f3)) if fn is not None and self.o[fn].list_of_points)
        return "samples=[%s] init=[%s] metrics=[%s]%s" % (sm, ini, me, extra)
    def op_spec_pg(self, f, f2, f3, *a): return self._spec(f, f2, f3)
    def op_spec_gfsc(self, f, *a): return self._spec(f)
    def op_spec_gfc(self, f, *a): return self._spec(f)
    def op_spec_gdl1(self, f, *a): return self._spec(f)
    def op_spec_polyakd(self, f, *a): return self._spec(f)
    def op_spec_polyakf(self, f, *a): return self._spec(f)
    def op_spec_gd(self, f, *a): return self._spec(f)
    def op_spec_ppm(self, f, *a): return self._spec(f)
    def op_spec_agfc(self, f, *a): return self._spec(f)
    def op_spec_gdl2(self, f, *a): return self._spec(f)
    def op_spec_gdc(self, f, *a): return self._spec(f)
    def op_spec_subg(self, f, *a): return self._spec(f)
    def op_note(self, *a): return "ok"
    def op_trace_error(self, *a): return "ok TRACE-ERROR (the example raised while it was building its model): " + " ".join(a)
    def op_expect_sent(self, h):
        import hashlib
        mine = " ## ".join(("C:" + show_cons(c)) if k == "C" else ("P:" + show_psd(c)) for k, c in self.wrapper.sent)
        return "ok same" if hashlib.sha1(mine.encode()).hexdigest()[:20] == h else "ok DIFFERENT (the replay of the traced operations does not send what the example itself sent)"
    def op_fn_addpoint(self, f, x, g, v): self.o[f].add_point((self.o[x], self.o[g], self.o[v])); return "ok"
    def op_fn_addcons(self, f, c): self.o[f].add_constraint(self.o[c]); return "ok"
    def _mat(self, n, cells): n = int(n); return [[self.o[cells[i * n + j]] for j in range(n)] for i in range(n)]
    def op_fn_psd(self, f, n, *cells): self.o[f].add_psd_matrix(self._mat(n, cells)); return "ok"
    def op_pep_addcons(self, c): self.pep.add_constraint(self.o[c]); return "ok"
    def op_pep_metric(self, e): self.pep.set_performance_metric(self.o[e]); return "ok"
    def op_pep_setmetrics(self, *es): self.pep.list_of_performance_metrics = [self.o[e] for e in es]; return "ok"   # the idiom the test-suite uses to replace the metrics
    def op_fn_setname(self, f, name): self.o[f].set_name(name); return "ok"
    def op_pep_psd(self, n, *cells): self.pep.add_psd_matrix(self._mat(n, cells)); return "ok"
    def op_part_decl(self, n, d): self.o[n] = self.pep.declare_block_partition(d=int(d)); return "ok"
    def op_part_new(self, n, d):
        from PEPit import BlockPartition
        self.o[n] = BlockPartition(d=int(d)); return "ok"          # the documented direct constructor
    def op_part_block(self, n, b, x, k): self.o[n] = self.o[b].get_block(self.o[x], int(k)); return "ok"
    def op_part_addcons(self, b, c): self.o[b].add_constraint(self.o[c]); return "ok"
    def op_class_set(self, f): self.o[f].set_class_constraints(); return "ok"
    def op_solve_collect(self):
        self.wrapper = TeeWrapper() if os.environ.get("PEPV_TEE") else ScriptedWrapper()
        import io, contextlib
        with contextlib.redirect_stdout(io.StringIO()):
            self.pep._solve_with_wrapper(self.wrapper, verbose=int(os.environ.get("PEPV_VERBOSE", "0")))
        return "ok"
    def op_dump_task(self):
        if self.wrapper.mw_error: return "MOSEK-ERROR " + self.wrapper.mw_error.split(":")[0].replace("AssertionError", "IndexError")
        return show_task(self.wrapper.mw.task.calls)
    def op_dump_mosekduals(self):
        """the REAL `MosekWrapper._recover_dual_values` on the stand-in task, with a scripted solution in which row `r` carries
        the multiplier 7000 + r and matrix variable `j` the (negated) multiplier (8000 + j)·I: every sent item must receive the
        multiplier of its OWN row / its OWN matrix variable (`Mosek.mspec`, theorem `mrecover_spec`)"""
        if self.wrapper.mw_error: return "MOSEK-ERROR"
        mw = self.wrapper.mw; t = mw.task
        t.sol = dict(xx=np.zeros(t.numvar), barx=[np.eye(d) for d in t.bardims], y=[7000.0 + r for r in range(t.numcon)],
                     bars=[-(8000.0 + j) * np.eye(d) for j, d in enumerate(t.bardims)])
        try:
            duals, residual = mw._recover_dual_values()
        except (AssertionError, IndexError) as ex:
            return "EXC " + type(ex).__name__
        toks = []
        for d in duals:
            d = np.asarray(d, dtype=float)
            toks.append("empty" if d.size == 0 else str(int(round(float(d.reshape(-1)[0])))))
        return "duals=" + ",".join(toks)
    def op_dump_heur(self, seed):
        rng = np.random.default_rng(int(seed)); n = Point.counter
        A = rng.integers(-2, 3, size=(n, n)).astype(float); W = A + A.T
        self.last_line = "dump.heur W=%s" % ";".join(",".join(showrat(v) for v in row) for row in W)
        mw = self.wrapper.mw
        k0 = len(mw.task.calls)
        mw.heuristic(W)
        calls = mw.task.calls[k0:]
        sym = [c for c in calls if c[0] == "appendsparsesymmat"][0]
        ok = any(c[0] == "putbarcj" and c[1] == 0 and list(c[3]) == [1.0] for c in calls) and any(c[0] == "putobjsense" and c[1] == "minimize" for c in calls)
        return ("heur " if ok else "heur-bad-objective ") + canon([("%s_%s" % (pad(i), pad(j)), showrat(v)) for i, j, v in zip(sym[2], sym[3], sym[4])])
    def op_dump_cvx(self, seed):
        """the REAL CvxpyWrapper on the list of items collected by the last `solve.collect`: kinds of the cvxpy
        constraints it builds, residual of every (in)equality at random integer values of G, F and of the auxiliary
        LMI variables, and `_recover_dual_values` on tagged duals (solver constraint number i carries 5000 + i)"""
        import cvxpy as cp
        from cvxpy.constraints import PSD
        from PEPit.wrappers.cvxpy_wrapper import CvxpyWrapper
        rng = np.random.default_rng(int(seed))
        w = CvxpyWrapper(verbose=0)
        w.set_main_variables()
        k = 0
        for kind, item in self.wrapper.sent:
            if kind == "C": w.send_constraint_to_solver(item)
            else: w.send_lmi_constraint_to_solver(k, item); k += 1
        cons = w._list_of_solver_constraints
        n, m = Point.counter, Expression.counter
        A = rng.integers(-3, 4, size=(n, n)).astype(float); G = A + A.T
        F = rng.integers(-4, 5, size=(m,)).astype(float)
        w.G.value = G; w.F.value = F
        Ms = []
        for c in cons[1:]:
            if isinstance(c, PSD):
                var = c.variables()[0]; q = var.shape[0]
                B = rng.integers(-5, 6, size=(q, q)).astype(float); var.value = B + B.T; Ms.append(B + B.T)
        kinds, vals = [], []
        for i, c in enumerate(cons):
            if isinstance(c, PSD): kinds.append("P%d" % c.args[0].shape[0])
            else:
                kinds.append("E" if type(c).__name__ in ("Equality", "Zero") else "L" if type(c).__name__ in ("Inequality", "NonPos") else type(c).__name__)
                vals.append((pad(i), showrat(float(np.asarray(c.expr.value).reshape(-1)[0]))))
        for i, c in enumerate(cons):
            if isinstance(c, PSD): c.save_dual_value(np.eye(c.args[0].shape[0]) * (5000 + i))
            else: c.save_dual_value(np.array(float(5000 + i)))
        class _P: pass
        w.prob = _P(); w.prob.constraints = cons
        try:
            duals, residual = w._recover_dual_values()
            toks = []
            for d in duals:
                d = np.asarray(d, dtype=float)
                toks.append("empty" if d.size == 0 else str(int(round(float(d.reshape(-1)[0])))))
            dual_s = ",".join(toks)
        except (AssertionError, IndexError) as ex:
            dual_s = "EXC " + type(ex).__name__
        rows = lambda Mx: ";".join(",".join(showrat(v) for v in row) for row in Mx)
        self.last_line = "dump.cvx G=%s F=%s M=%s" % (rows(G), ",".join(showrat(v) for v in F), "|".join(rows(Mx) for Mx in Ms))
        return "kinds=" + ",".join(kinds) + " vals={" + ",".join("%s:%s" % kv for kv in vals) + "} duals=" + dual_s
    def op_dump_cvxheur(self, seed):
        """the REAL CvxpyWrapper's dimension-reduction interface on the collected problem: `prepare_heuristic(wc, tol)` must add
        `objective >= wc - tol` (absolute tolerance, on the objective), and every `heuristic(W)` call must minimise <W, G>
        for the W it was given, under all the constraints"""
        import cvxpy as cp
        from PEPit.wrappers.cvxpy_wrapper import CvxpyWrapper
        rng = np.random.default_rng(int(seed))
        w = CvxpyWrapper(verbose=0)
        w.set_main_variables()
        k = 0
        for kind, item in self.wrapper.sent:
            if kind == "C": w.send_constraint_to_solver(item)
            else: w.send_lmi_constraint_to_solver(k, item); k += 1
        w.generate_problem(self.pep.objective)
        n, m = Point.counter, Expression.counter
        A = rng.integers(-3, 4, size=(n, n)).astype(float); G = A + A.T
        F = rng.integers(-4, 5, size=(m,)).astype(float)
        w.G.value = G; w.F.value = F
        wc = float(rng.choice([0.5, 7.0, -3.0, 1024.0, 0.0])); tol = float(rng.choice([2.0 ** -10, 2.0 ** -20, 0.0, 0.5]))
        n0 = len(w._list_of_solver_constraints)
        w.prepare_heuristic(wc, tol)
        added = w._list_of_solver_constraints[n0:]
        prep = ",".join(showrat(float(np.asarray(c.expr.value).reshape(-1)[0])) for c in added)
        objs = []; Ws = []
        for _ in range(2):
            B = rng.integers(-2, 3, size=(n, n)).astype(float); W = B + B.T; Ws.append(W)
            prob = w.heuristic(W)
            objs.append("%s:%s:%d" % (type(prob.objective).__name__, showrat(float(prob.objective.value)), len(prob.constraints)))
        rows = lambda Mx: ";".join(",".join(showrat(v) for v in row) for row in Mx)
        self.last_line = "dump.cvxheur G=%s F=%s wc=%s tol=%s W=%s" % (rows(G), ",".join(showrat(v) for v in F), showrat(wc), showrat(tol), "|".join(rows(W) for W in Ws))
        return "prep=%s heur=%s" % (prep, " ".join(objs))
    def op_dump_dense(self):
        from PEPit.tools.expressions_to_matrices import expression_to_matrices
        items = []
        for k, c in self.wrapper.sent:
            if k != "C": continue
            G, F, cons = expression_to_matrices(c.expression)
            g = [("%s_%s" % (pad(i), pad(j)), showrat(G[i, j])) for i, j in zip(*np.nonzero(G))]
            f = [(pad(i), showrat(F[i])) for i in range(F.shape[0]) if F[i] != 0]
            items.append(canon(g) + canon(f) + showrat(cons))
        return " ".join(items)
    # ---- primitive steps
    def op_step_prox(self, x0, f, g, xn, gn, fn):
        from PEPit.primitive_steps import proximal_step
        self.o[xn], self.o[gn], self.o[fn] = proximal_step(self.o[x0], self.o[f], self.R(g)); return "ok"
    def op_step_inexgrad(self, x0, f, g, ep, rel, xn, dn, fn):
        from PEPit.primitive_steps import inexact_gradient_step
        self.o[xn], self.o[dn], self.o[fn] = inexact_gradient_step(self.o[x0], self.o[f], self.R(g), self.R(ep), notion="relative" if rel == "1" else "absolute"); return "ok"
    def op_step_els(self, x0, f, xn, gn, fn, *dirs):
        from PEPit.primitive_steps import exact_linesearch_step
        self.o[xn], self.o[gn], self.o[fn] = exact_linesearch_step(self.o[x0], self.o[f], [self.o[d] for d in dirs]); return "ok"
    def op_step_linopt(self, d, ind, xn, gn, fn):
        from PEPit.primitive_steps import linear_optimization_step
        self.o[xn], self.o[gn], self.o[fn] = linear_optimization_step(self.o[d], self.o[ind]); return "ok"
    def op_step_breggrad(self, gx0, sx0, h, g, xn, sn, hn):
        from PEPit.primitive_steps import bregman_gradient_step
        self.o[xn], self.o[sn], self.o[hn] = bregman_gradient_step(self.o[gx0], self.o[sx0], self.o[h], self.R(g)); return "ok"
    def op_step_bregprox(self, sx0, h, f, g, xn, sn, hn, gn, fn):
        from PEPit.primitive_steps import bregman_proximal_step
        self.o[xn], self.o[sn], self.o[hn], self.o[gn], self.o[fn] = bregman_proximal_step(self.o[sx0], self.o[h], self.o[f], self.R(g)); return "ok"
    def op_step_epssub(self, x0, f, g, xn, gn, fn, en):
        from PEPit.primitive_steps import epsilon_subgradient_step
        self.o[xn], self.o[gn], self.o[fn], self.o[en] = epsilon_subgradient_step(self.o[x0], self.o[f], self.R(g)); return "ok"
    def op_step_inexprox(self, x0, f, g, opt, xn, gn, fn, wn, vn, fwn, en):
        from PEPit.primitive_steps import inexact_proximal_step
        r = inexact_proximal_step(self.o[x0], self.o[f], self.R(g), opt={"1": "PD_gapI", "2": "PD_gapII", "3": "PD_gapIII"}[opt])
        for k, v in zip((xn, gn, fn, wn, vn, fwn, en), r): self.o[k] = v
        return "ok"
    def op_dump_fcons(self, f): return " ## ".join(show_cons(c) for c in self.o[f].list_of_constraints)
    def op_solve_ok(self, seed):
        self.wrapper = SolvingWrapper(int(seed))
        import io, contextlib
        with contextlib.redirect_stdout(io.StringIO()):
            ret = self.pep._solve_with_wrapper(self.wrapper, verbose=0)
        G, F = self.wrapper.G, self.wrapper.Fv
        self.last_line = "solve.ok G=%s F=%s" % (";".join(",".join(showrat(v) for v in row) for row in G), ",".join(showrat(v) for v in F))
        if not (isinstance(self.pep.residual, np.ndarray) and np.array_equal(self.pep.residual, self.wrapper.last_residual)):
            return "ok %s RESIDUAL-ALTERED (PEP.residual is not the multiplier of the Gram constraint returned by the wrapper)" % showrat(float(ret))
        return "ok " + showrat(float(ret))
    def op_solve_okp(self, seed):
        self.wrapper = SolvingWrapper(int(seed))
        import io, contextlib
        with contextlib.redirect_stdout(io.StringIO()):
            ret = self.pep._solve_with_wrapper(self.wrapper, verbose=0, return_primal_or_dual="primal")
        G, F = self.wrapper.G, self.wrapper.Fv
        self.last_line = "solve.okp G=%s F=%s" % (";".join(",".join(showrat(v) for v in row) for row in G), ",".join(showrat(v) for v in F))
        if not (isinstance(self.pep.residual, np.ndarray) and np.array_equal(self.pep.residual, self.wrapper.last_residual)):
            return "ok %s RESIDUAL-ALTERED (PEP.residual is not the multiplier of the Gram constraint returned by the wrapper)" % showrat(float(ret))
        return "ok " + showrat(float(ret))
    def op_solve_fail(self):
        self.wrapper = ScriptedWrapper(); self.pep._solve_with_wrapper(self.wrapper, verbose=0); return "ok"
    def _ev(self, fn):
        try:
            v = fn()
        except ValueError: return "err ValueError"
        except TypeError: return "err TypeError"
        return "ok " + showrat(float(v))
    def op_eval_ex(self, e): return self._ev(self.o[e].eval)
    def op_eval_cons(self, c): return self._ev(self.o[c].eval)
    def op_eval_dual(self, c): return self._ev(self.o[c].eval_dual)
    def op_psd_new(self, name, n, *cells):
        from PEPit import PSDMatrix
        n = int(n)
        def cell(c):
            if c.startswith("#"):
                q = Fr(c[1:]); return int(q) if q.denominator == 1 else float(q)
            return self.o[c]
        rows = [[cell(cells[i * n + j]) for j in range(n)] for i in range(n)]
        if name.startswith("ma"):
            # the operand is an ndarray of objects (documented: any iterable of iterables): it must not be altered nor aliased
            arr = np.empty((n, n), dtype=object)
            for i in range(n):
                for j in range(n): arr[i, j] = rows[i][j]
            before = [[arr[i, j] for j in range(n)] for i in range(n)]
            m = PSDMatrix(arr); self.o[name] = m
            intact = all(arr[i, j] is before[i][j] for i in range(n) for j in range(n)) and m.matrix_of_expressions is not arr
            arr[:, :] = 0          # the caller reuses its buffer (a template refilled for the next LMI): the declared LMI must not change
            return "ok" if intact else "ok OPERAND-ALTERED (the ndarray given to PSDMatrix was modified in place or is aliased by it)"
        self.o[name] = PSDMatrix(rows); return "ok"
    def op_dump_psd(self, m): return show_psd(self.o[m])
    def op_pep_addpsd(self, m): self.pep.list_of_psd.append(self.o[m]); return "ok"
    def op_fn_addpsd(self, f, m): self.o[f].list_of_psd.append(self.o[m]); return "ok"
    def op_eval_psd(self, m):
        try: v = self.o[m].eval()
        except ValueError: return "err ValueError"
        except TypeError: return "err TypeError"
        return "ok " + ";".join(",".join(showrat(float(x)) for x in row) for row in v)
    def op_eval_psddual(self, m):
        try: v = self.o[m].eval_dual()
        except ValueError: return "err ValueError"
        except TypeError: return "err TypeError"
        v = np.array(v, dtype=float); t = v[0, 0]
        return "ok " + showrat(float(t)) if np.array_equal(v, t * np.eye(v.shape[0])) else "ok " + repr(v.tolist())
    def op_eval_ptn(self, p): return self._ev(lambda: float(np.dot(self.o[p].eval(), self.o[p].eval())))
    def op_check_afn(self, f): return "same"
    def op_dump_fn(self, f): return dump_fn(self.o[f])
    def op_dump_class(self, f): return dump_class(self.o[f])
    def op_dump_tables(self, f): return dump_tables(self.o[f])
    def op_dump_dualtables(self, f):
        try: d = self.o[f].get_class_constraints_duals()
        except ValueError: return "err ValueError"
        except TypeError: return "err TypeError"
        out = []
        for name, tab in d.items():
            rows = tab.values.tolist()
            out.append((name, "".join("[" + ";".join(showrat(float(c)) for c in r) + "]" for r in rows)))
        return canon(out)
    def op_dump_part(self, b): return dump_part(self.o[b])
    def op_dump_sent(self):
        out = " ## ".join(("C:" + show_cons(c)) if k == "C" else ("P:" + show_psd(c)) for k, c in self.wrapper.sent)
        # the PEP's own record of what it sent (what check_feasibility and assign_dual_values walk) must be what the wrapper received
        tc = [c for k, c in self.wrapper.sent if k == "C"]; tp = [c for k, c in self.wrapper.sent if k == "P"]
        pc, pp = self.pep._list_of_constraints_sent_to_wrapper, self.pep._list_of_psd_sent_to_wrapper
        if len(tc) != len(pc) or any(a is not b for a, b in zip(tc, pc)) or len(tp) != len(pp) or any(a is not b for a, b in zip(tp, pp)):
            out += " ## TRACKING: the PEP recorded %d constraints / %d LMIs as sent, the wrapper received %d / %d" % (len(pc), len(pp), len(tc), len(tp))
        return out
    def op_dump_pt(self, p): return pd(self.o[p])
    def op_dump_ex(self, e): return ed(self.o[e])
    def op_dump_cons(self, c): return show_cons(self.o[c])
    def op_dump_finish(self, x):
        from PEPit.tools.dict_operations import symmetrize_dict, prune_dict
        sym = symmetrize_dict(self.o[x].decomposition_dict)
        d = prune_dict(sym)
        const = d[1] if 1 in d else 0.
        n0 = Constraint.counter
        printed = sum(abs(v) for k, v in d.items() if k != 1)          # literally the comprehension of check_feasibility
        Constraint.counter = n0                                         # (`key != 1` on Expression keys creates Constraint objects)
        full = sum(abs(v) for k, v in d.items() if not (isinstance(k, int) and k == 1))
        class _E: pass
        t = _E(); t.decomposition_dict = sym
        return "sym=%s stats={const:%s,printed:%s,all:%s}" % (ed(t), showrat(const), showrat(printed), showrat(full))
    def op_dump_counters(self):
        return "nP=%d nE=%d nF=%d nPsd=%d nPart=%d" % (Point.counter, Expression.counter, Function.counter, PSDMatrix.counter, BlockPartition.counter)


# ------------------------------------------------------------------ generators
from ocommon import CLASSES
W = ["1", "2", "-1", "1/2", "4", "-2", "0", "1/4", "-1/2", "8", "1/8"]      # powers of two: products AND quotients stay exact in floating point (a 1e-17 residue of 1/3 or of 1/(3/4) changes which terms exist)


SCALES = ["1/1048576", "1/17179869184", "1048576", "2147483648", "1099511627776", "1/1099511627776"]     # 2^-20, 2^-34, 2^20, 2^31, 2^40, 2^-40
def big_mode(seed):
    """one program in twelve is LARGE (tens of samples, directions, constraints, functions, metrics, blocks; LMIs of dimension
    up to 9; Gram matrices of up to 140 rows): thresholds on counts (26 letters, 32 / 64 / 100 / 128 entries, two-digit
    identifiers) are crossed.  A residue of the seed: any 12 consecutive programs contain one, no random draw is consumed."""
    return seed % 12 == 7
def scale_mode(seed):
    """one program in ten has all its class parameters multiplied by one power of two between 2^-40 and 2^40 (step sizes
    likewise): absolute tolerances, fixed-width number types and `isclose` defaults show on such programs only.  Any 60
    consecutive programs contain every scale."""
    return SCALES[(seed // 10) % len(SCALES)] if seed % 10 == 3 else None


def det_choice(seed, tag, n):
    """a choice in range(n) derived from (seed, tag) without consuming the program's random stream"""
    import zlib
    return zlib.crc32(("%s/%s" % (seed, tag)).encode()) % n


class Prog:
    def __init__(self, rnd):
        self.rnd = rnd; self.lines = ["reset"]; self.np = 0; self.ne = 0; self.nc = 0; self.nf = 0; self.nb = 0
        self.P, self.E, self.C, self.F, self.B = [], [], [], [], []
        self.fcls = {}; self.scale = None
        import zlib
        # one program in three gives LONG names to its named points (longer than any default identifier, `Point_123`)
        self.longnames = zlib.crc32(repr(rnd.getstate()[1][:3]).encode()) % 3 == 0
    def scaled(self, ps):
        """the parameter tuple multiplied by the program's power of two (None: unchanged): `mu <= L` and every equality between
        parameters are preserved, every coefficient the class computes is the unscaled one times a power of two"""
        if self.scale is None: return ps
        return [showrat(Fr(v) * Fr(self.scale)) for v in ps]
    def emit(self, l): self.lines.append(l)
    def newp(self): self.np += 1; n = "p%d" % self.np; self.P.append(n); return n
    def newe(self): self.ne += 1; n = "e%d" % self.ne; self.E.append(n); return n
    def newc(self): self.nc += 1; n = "c%d" % self.nc; self.C.append(n); return n
    def newf(self): self.nf += 1; n = "f%d" % self.nf; self.F.append(n); return n
    def decl(self, cls, reuse=None, inf=False, partition=None):
        n = self.newf(); ps = list(self.rnd.choice(CLASSES.get(cls, [[]])))
        if cls == "BlockSmoothConvexFunction": ps = self.rnd.choice([["1", "2", "4"], ["1", "1", "1"], ["2", "2", "1/2"]])[:partition[1]]
        if cls == "BlockSmoothConvexFunction" and partition[1] > 3: ps = [["1", "2", "4", "1/2", "8", "1", "2", "1/4"][i_ % 8] for i_ in range(partition[1])]
        if inf: ps = ps[:-1]
        ps = self.scaled(ps)
        r = self.rnd.random() < .5 if reuse is None else reuse
        import zlib
        # one declaration in four calls the class constructor directly (no random draw: the other choices of the program stay what they were)
        op = "fn.new" if zlib.crc32(("%s %s %s %d" % (n, cls, " ".join(ps), len(self.lines))).encode()) % 4 == 0 else "fn.decl"
        self.emit("%s %s %s %d %d %s%s" % (op, n, cls, r, inf, " ".join(ps), (" partition=" + partition[0]) if partition else ""))
        self.fcls[n] = cls; self.fparams = getattr(self, "fparams", {}); self.fparams[n] = (cls, bool(inf))
        return n
    def setparam(self, f):
        """another admissible parameter tuple for an existing function (same class): `f.mu, f.L = ...`"""
        cls, inf = self.fparams.get(f, (None, False))
        tups = [t for t in CLASSES.get(cls, [[]]) if t]
        if not tups or cls == "BlockSmoothConvexFunction": return
        t = list(self.rnd.choice(tups))
        if inf: t = t[:-1]
        t = self.scaled(t)
        for i, v in enumerate(t): self.emit("fn.setparam %s %d %s" % (f, i, v))
    def point(self):
        r = self.rnd.random()
        if r < .4 or len(self.P) < 2:
            n = self.newp()
            u_ = self.rnd.random()
            if getattr(self, "shared_labels", False) and u_ < .6: u_ = .95
            if u_ < .75: self.emit("pt.leaf %s" % n)
            elif u_ < .9: self.emit("pt.leafn %s %s%s" % (n, "iterate_number_" if self.longnames else "nm", n))
            else: self.emit("pt.leafn %s %s" % (n, self.rnd.choice(["x", "x", "Point_1", "y", "x_{k+1}", "{}", "%s_{0}"])))      # labels shared by several points, equal to a default id, or with characters that mean something to str.format / %
            return n
        a, b = self.rnd.choice(self.P), self.rnd.choice(self.P); n = self.newp()
        self.emit("pt.lin %s %s %s %s %s" % (n, self.rnd.choice(W), a, self.rnd.choice(W), b)); return n
    def sample_ops(self, f, k):
        for _ in range(k):
            r = self.rnd.random()
            if r < .5:
                x = self.rnd.choice(self.P) if self.P and self.rnd.random() < .7 else self.point()
                g, v = self.newp(), self.newe()
                if getattr(self, "allow_addpoint", False) and det_choice(len(self.lines), f + x + g, 6) == 0:
                    # the documented low-level form: the caller records a sample of its own (its own gradient and value objects), also
                    # at a point the function already has a sample for — every recorded sample takes part in the class conditions
                    self.emit("pt.leaf %s" % g); self.emit("ex.leaf %s" % v); self.emit("fn.addpoint %s %s %s %s" % (f, x, g, v))
                else: self.emit("fn.oracle %s %s %s %s" % (f, x, g, v))
            elif r < .65:
                x = self.rnd.choice(self.P) if self.P else self.point(); g = self.newp()
                self.emit("%s %s %s %s" % ("fn.subgradient" if det_choice(len(self.lines), f + x + g, 3) == 0 else "fn.gradient", f, x, g))
            elif r < .8:
                x, v = self.newp(), self.newe(); self.emit("fn.stat %s %s %s" % (f, x, v))
            elif r < .9:
                x = self.newp(); self.emit("fn.fixed %s %s" % (f, x))
            else:
                x = self.rnd.choice(self.P) if self.P else self.point(); v = self.newe()
                self.emit("%s %s %s %s" % ("fn.call" if det_choice(len(self.lines), f + x + v, 2) == 0 else "fn.value", f, x, v))


def gen_class(seed):
    rnd = random.Random(seed); p = Prog(rnd); p.allow_addpoint = True
    cls = rnd.choice(list(CLASSES) + ["BlockSmoothConvexFunction"])
    focus = os.environ.get("PEPV_CLS_FOCUS")
    if focus and rnd.random() < .5: cls = rnd.choice(focus.split(","))
    big = big_mode(seed); p.scale = scale_mode(seed)
    if seed % 4 == 3 and not focus:
        # a systematic sweep besides the random programs: every class at every scale (25 classes x 6 powers of two from 2^-40 to
        # 2^40 = 150 consecutive values of seed // 4), so that any run of 600 programs sees each class at each magnitude
        allc = list(CLASSES) + ["BlockSmoothConvexFunction"]; k_ = seed // 4
        cls = allc[k_ % len(allc)]; p.scale = SCALES[(k_ // len(allc)) % len(SCALES)]
    for _ in range(rnd.randint(3, 10) if big else rnd.randint(1, 2)): p.point()
    if rnd.random() < .25: p.shared_labels = True          # several sample points carry the same label
    if cls == "BlockSmoothConvexFunction":
        d = rnd.randint(4, 12) if big else rnd.randint(1, 3); p.emit("%s b1 %d" % (rnd.choice(["part.decl", "part.decl", "part.new"]), d)); f = p.decl(cls, partition=("b1", d))
    else:
        inf = cls in ("ConvexIndicatorFunction", "ConvexSupportFunction") and rnd.random() < .3
        f = p.decl(cls, inf=inf)
    if cls == "NonexpansiveOperator" and rnd.random() < .5:
        v = p.newp(); p.emit("pt.leaf %s" % v); p.emit("fn.setv %s %s" % (f, v))
    p.sample_ops(f, rnd.randint(11, 30) if big else rnd.randint(0, 5))
    if cls not in ("LinearOperator", "SymmetricLinearOperator", "SkewSymmetricLinearOperator") and rnd.random() < .25:
        # the function is also sampled through a multiple of itself (F = c * f): its samples are then scaled copies of F's
        # (a gradient G and G / c have the same leaves, different coefficients)
        F_ = p.newf(); p.emit("fn.lin %s %s %s 0 %s" % (F_, rnd.choice(["2", "1/2", "-1", "4"]), f, f)); p.F.pop()
        p.sample_ops(F_, rnd.randint(1, 3))
    if cls == "LinearOperator":
        p.emit("fn.adjoint ft %s" % f); p.sample_ops("ft", rnd.randint(0, 3))
    p.emit("class.set %s" % f); p.emit("dump.class %s" % f); p.emit("dump.tables %s" % f); p.emit("dump.fn %s" % f)
    if cls == "BlockSmoothConvexFunction": p.emit("dump.part b1")
    if rnd.random() < .3:
        p.emit("class.set %s" % f); p.emit("dump.class %s" % f)
    p.emit("dump.counters")
    return p.lines


def gen_collect(seed):
    rnd = random.Random(seed); p = Prog(rnd); p.allow_addpoint = True
    big = big_mode(seed); p.scale = scale_mode(seed)
    for _ in range(2): p.point()
    if big:
        # up to 90 further leaf points (Gram matrices of dimension 15 to 140: thresholds at 64, 100 and 128 are crossed)
        extra = [0, 50, 25, 90][(seed // 12) % 4]
        for _ in range(extra): n = p.newp(); p.emit("pt.leaf %s" % n)
    nb = rnd.randint(0, 1); nb2 = 0
    if nb:
        d_ = rnd.randint(2, 5) if big else rnd.randint(1, 3); p.emit("%s b1 %d" % (rnd.choice(["part.decl", "part.decl", "part.new"]), d_))
        if rnd.random() < .4: nb2 = 1; p.emit("part.decl b2 %d" % rnd.choice([d_, d_, rnd.randint(1, 3)]))     # a second, independent partition (often with as many blocks)
    for _ in range(rnd.randint(4, 7) if big else rnd.randint(1, 3)):
        cls = rnd.choice(list(CLASSES))
        p.decl(cls)
    if nb and rnd.random() < .4: p.decl("BlockSmoothConvexFunction", partition=("b1", d_))
    leaves = list(p.F)
    if det_choice(seed, "fnames", 4) == 0:
        # the user names the functions — distinct names, or (one time in two, when there are two) the SAME name for two leaf
        # functions: a name is a label, every function keeps its own class constraints whatever the labels
        same = det_choice(seed, "samename", 2) == 0 and len(leaves) >= 2
        for i_, f_ in enumerate(leaves):
            if p.fcls.get(f_) in ("LinearOperator", "BlockSmoothConvexFunction"): continue
            p.emit("fn.setname %s %s" % (f_, "obj" if same and i_ < 2 else "fun%d" % i_))
    for _ in range(rnd.randint(0, 2)):
        a, b = rnd.choice(p.F), rnd.choice(p.F); n = p.newf(); p.emit("fn.lin %s %s %s %s %s" % (n, rnd.choice(W), a, rnd.choice(W), b))
    if det_choice(seed, "fneg", 5) == 0:
        a = p.F[det_choice(seed, "fnegwhich", len(p.F))]; n = p.newf(); p.emit("fn.neg %s %s" % (n, a))           # `-f` written directly
    for _ in range(rnd.randint(14, 44) if big else rnd.randint(2, 8)):
        f = rnd.choice(p.F)
        if p.fcls.get(f) == "LinearOperator" and rnd.random() < .3:
            p.emit("fn.adjoint ft%s %s" % (f, f)); p.sample_ops("ft" + f, 1)
        else:
            p.sample_ops(f, 1)
    if nb:
        for _ in range(rnd.randint(10, 13) if big else rnd.randint(1, 3)):
            x = rnd.choice(p.P); n = p.newp(); p.emit("part.block %s b1 %s 0" % (n, x))
        if rnd.random() < .4:
            x = rnd.choice(p.P); y = p.newp(); p.emit("pt.smul %s %s %s" % (y, rnd.choice(["2", "-1", "1/2"]), x))      # same leaves, other coefficients
            n = p.newp(); p.emit("part.block %s b1 %s 0" % (n, x)); n = p.newp(); p.emit("part.block %s b1 %s 0" % (n, y)); p.emit("dump.part b1")
        if nb2:
            for _ in range(rnd.randint(1, 2)):
                x = rnd.choice(p.P); n = p.newp(); p.emit("part.block %s b2 %s 0" % (n, x))
    def expr():
        a, b = rnd.choice(p.P), rnd.choice(p.P); n = p.newe(); p.emit("ex.ip %s %s %s" % (n, a, b))
        if len(p.E) > 1 and rnd.random() < .5:
            other = rnd.choice(p.E[:-1])
            # coefficients of very different magnitude (2^-30, 2^-40, 2^20): the data handed to the solver must keep them
            wa = rnd.choice(W) if rnd.random() < .85 else rnd.choice(["1/1073741824", "1/1099511627776", "1048576", "-1/1073741824"])
            m = p.newe(); p.emit("ex.lin %s %s %s %s %s" % (m, wa, n, rnd.choice(W), other)); return m
        return n
    for _ in range(rnd.randint(9, 28) if big else rnd.randint(1, 3)):
        e = expr(); c = p.newc()
        p.emit(rnd.choice(["cons.lec %s %s 1", "cons.gec %s %s 1/2", "cons.eqc %s %s 2"]) % (c, e)); p.emit("pep.addcons %s" % c)
        if rnd.random() < .25: p.emit("fn.addcons %s %s" % (rnd.choice(p.F), c))       # the same Constraint object registered twice: sent twice
    for _ in range(rnd.randint(0, 2)):
        e1, e2 = expr(), expr(); c = p.newc(); p.emit(rnd.choice(["cons.le", "cons.ge", "cons.eq"]) + " %s %s %s" % (c, e1, e2))
        p.emit("fn.addcons %s %s" % (rnd.choice(p.F), c))
    if rnd.random() < .3:
        # the same combination of functions written inline twice (two objects, one decomposition); a step with a side
        # constraint and a user constraint land on the second object: both must reach the solver
        a_, b_ = rnd.choice(leaves), rnd.choice(leaves); wa_, wb_ = rnd.choice(["1", "2", "1/2"]), rnd.choice(["1", "2"])
        n1 = p.newf(); p.emit("fn.lin %s %s %s %s %s" % (n1, wa_, a_, wb_, b_)); n2 = p.newf(); p.emit("fn.lin %s %s %s %s %s" % (n2, wa_, a_, wb_, b_))
        x_, d_ = p.newp(), p.newp(); fx_ = p.newe()
        p.emit("step.inexgrad %s %s %s %s %d %s %s %s" % (rnd.choice(p.P[:2]), n2, rnd.choice(G), rnd.choice(G), rnd.random() < .5, x_, d_, fx_))
        e = expr(); c = p.newc(); p.emit("cons.lec %s %s 1" % (c, e)); p.emit("fn.addcons %s %s" % (n2, c))
    if nb and rnd.random() < .5:
        e = expr(); c = p.newc(); p.emit("cons.lec %s %s 1" % (c, e)); p.emit("part.addcons b1 %s" % c)        # a user constraint attached to the partition
    if big:
        # a large LMI (dimension 4 to 9), symmetric by construction (mirrored entries are the same object)
        n_ = rnd.randint(4, 9); up = {}
        for i_ in range(n_):
            for j_ in range(i_, n_): up[(i_, j_)] = expr()
        p.emit("pep.psd %d " % n_ + " ".join(up[(min(i_, j_), max(i_, j_))] for i_ in range(n_) for j_ in range(n_)))
    if rnd.random() < .5:
        cells = [expr() for _ in range(4)]; p.emit("pep.psd 2 " + " ".join(cells))
    if rnd.random() < .3:
        cells = [expr() for _ in range(4)]; p.emit("fn.psd %s 2 " % rnd.choice(p.F) + " ".join(cells))
    if rnd.random() < .35:
        # an LMI declared from an ndarray of objects (a template the caller refills afterwards), scalar entries included
        cells = [(rnd.choice(["#1", "#0", "#2", "#-1/2"]) if rnd.random() < .3 else expr()) for _ in range(4)]
        nm = "ma%d" % len(p.lines); p.emit("psd.new %s 2 %s" % (nm, " ".join(cells)))
        p.emit("pep.addpsd %s" % nm if rnd.random() < .6 else "fn.addpsd %s %s" % (rnd.choice(p.F), nm))
    if det_choice(seed, "lmi3", 4) == 0:
        # a 3 x 3 LMI whose mirrored entries are PARTLY the same object (the two shared off-diagonal expressions) and partly
        # distinct objects (the scalar entries become one constant expression each): every entry is coupled, every multiplier
        # is routed by position
        a_, t_, s_ = expr(), expr(), expr()
        nm = "mb%d" % len(p.lines); p.emit("psd.new %s 3 %s %s %s %s #1 #0 %s #0 #1" % (nm, a_, t_, s_, t_, s_))
        p.emit("pep.addpsd %s" % nm if det_choice(seed, "lmi3where", 2) == 0 else "fn.addpsd %s %s" % (leaves[0], nm))
        e = expr(); c = p.newc(); p.emit("cons.lec %s %s 1" % (c, e)); p.emit("pep.addcons %s" % c)      # a constraint sent AFTER... (function constraints are)
        e = expr(); c = p.newc(); p.emit("cons.gec %s %s 1/4" % (c, e)); p.emit("fn.addcons %s %s" % (leaves[0], c))
    for _ in range(rnd.randint(4, 11) if big else rnd.randint(1, 2)): p.emit("pep.metric %s" % expr())
    p.emit("solve.collect"); p.emit("dump.sent"); p.emit("dump.counters")
    p.emit("dump.cvx %d" % rnd.randint(0, 10 ** 6))
    if rnd.random() < .5: p.emit("dump.cvxheur %d" % rnd.randint(0, 10 ** 6))
    if os.environ.get("PEPV_TEE"):
        p.emit("dump.task"); p.emit("dump.dense"); p.emit("dump.mosekduals")
        if rnd.random() < .5: p.emit("dump.heur %d" % rnd.randint(0, 10 ** 6))
    if rnd.random() < .4:
        # a second solve, possibly after the user edited the model: a constraint attached to the partition, one more sample
        if nb and rnd.random() < .5:
            e = expr(); c = p.newc(); p.emit("cons.gec %s %s 1/2" % (c, e)); p.emit("part.addcons b1 %s" % c)
        if rnd.random() < .3: p.sample_ops(rnd.choice(leaves), 1)
        if rnd.random() < .3: p.setparam(rnd.choice(leaves))
        if rnd.random() < .4: p.emit("pep.metric %s" % expr())          # one more performance metric before solving again
        if det_choice(seed, "setmetrics", 3) == 0:
            # the list of metrics is REPLACED (fewer, other, reordered metrics): the second solve must maximise the minimum of
            # the current ones only (decided without a random draw: the other choices of the program stay what they were)
            p.emit("pep.setmetrics %s" % " ".join(expr() for _ in range(1 + det_choice(seed, "nmetrics", 2))))
        if rnd.random() < .3:
            e = expr(); c = p.newc(); p.emit("cons.lec %s %s 1" % (c, e)); p.emit("pep.addcons %s" % c)
        if nb and rnd.random() < .3:
            x = rnd.choice(p.P); n = p.newp(); p.emit("part.block %s b1 %s 0" % (n, x))
        p.emit("solve.collect"); p.emit("dump.sent"); p.emit("dump.counters")
    return p.lines


G = ["1", "1/2", "2", "1/4", "4", "-1", "1/8", "0"]      # incl. a step of length 0
G_SCALED = ["1/1073741824", "1073741824", "1/1099511627776", "1048576", "1", "1/2"]       # 2^-30, 2^30, 2^-40, 2^20
def gen_steps(seed):
    rnd = random.Random(seed); p = Prog(rnd)
    big = big_mode(seed); p.scale = scale_mode(seed); G = G_SCALED if p.scale else globals()["G"]
    for _ in range(2): p.point()
    for _ in range(rnd.randint(1, 3)):
        p.decl(rnd.choice(["ConvexFunction", "SmoothConvexFunction", "SmoothStronglyConvexFunction", "ConvexIndicatorFunction", "ConvexLipschitzFunction", "MonotoneOperator"]))
    if rnd.random() < .6:
        a, b = rnd.choice(p.F), rnd.choice(p.F); n = p.newf(); p.emit("fn.lin %s %s %s %s %s" % (n, rnd.choice(W), a, rnd.choice(W), b))
    for _ in range(rnd.randint(12, 30) if big else rnd.randint(1, 8)):
        f = rnd.choice(p.F); x0 = rnd.choice(p.P); r = rnd.random(); g = rnd.choice(G)
        if r < .15:
            x, gx = p.newp(), p.newp(); fx = p.newe(); p.emit("step.prox %s %s %s %s %s %s" % (x0, f, g, x, gx, fx))
        elif r < .3:
            x, d = p.newp(), p.newp(); fx = p.newe(); p.emit("step.inexgrad %s %s %s %s %d %s %s %s" % (x0, f, g, rnd.choice(G), rnd.random() < .5, x, d, fx))
        elif r < .42:
            dirs = [rnd.choice(list(p.P)) for _ in range(rnd.randint(24, 40) if big else rnd.randint(0, 2))]
            x, gx = p.newp(), p.newp(); fx = p.newe(); p.emit("step.els %s %s %s %s %s %s" % (x0, f, x, gx, fx, " ".join(dirs)))
        elif r < .52:
            x, gx = p.newp(), p.newp(); fx = p.newe(); p.emit("step.linopt %s %s %s %s %s" % (x0, f, x, gx, fx))
        elif r < .62:
            gx0 = rnd.choice(p.P)
            x, sx = p.newp(), p.newp(); hx = p.newe(); p.emit("step.breggrad %s %s %s %s %s %s %s" % (gx0, x0, f, g, x, sx, hx))
        elif r < .72:
            f2 = rnd.choice(p.F); x, sx, gx = p.newp(), p.newp(), p.newp(); hx, fx = p.newe(), p.newe()
            p.emit("step.bregprox %s %s %s %s %s %s %s %s %s" % (x0, f, f2, g, x, sx, hx, gx, fx))
        elif r < .82:
            x, g0 = p.newp(), p.newp(); f0, ep = p.newe(), p.newe(); p.emit("step.epssub %s %s %s %s %s %s %s" % (x0, f, g, x, g0, f0, ep))
        else:
            x, gx, w, v = p.newp(), p.newp(), p.newp(), p.newp(); fx, fw, ep = p.newe(), p.newe(), p.newe()
            p.emit("step.inexprox %s %s %s %d %s %s %s %s %s %s %s" % (x0, f, rnd.choice([c for c in G if c != "0"]), rnd.randint(1, 3), x, gx, fx, w, v, fw, ep))
        if rnd.random() < .3: p.emit("dump.pt %s" % p.P[-1])
    for f in p.F: p.emit("dump.fn %s" % f); p.emit("dump.fcons %s" % f)
    p.emit("dump.counters")
    return p.lines

def gen_resolve(seed):
    rnd = random.Random(seed); p = Prog(rnd); p.allow_addpoint = True
    big = big_mode(seed)
    for _ in range(2): p.point()
    if big:
        # long combinations (9 to 40 leaves in one decomposition): averaged iterates, Lyapunov sums
        for _ in range(rnd.randint(9, 40)): n = p.newp(); p.emit("pt.leaf %s" % n)
        acc = p.P[0]
        for x_ in p.P[2:]:
            n = p.newp(); p.emit("pt.lin %s 1 %s %s %s" % (n, acc, rnd.choice(["1", "1/2", "-1", "2"]), x_)); acc = n
        p.P = p.P[:2] + [acc] + p.P[2:6]
    for _ in range(rnd.randint(1, 2)):
        p.decl(rnd.choice(["SmoothStronglyConvexFunction", "ConvexFunction", "SmoothConvexFunction", "MonotoneOperator", "ConvexQGFunction"]))
    if det_choice(seed, "fnames", 3) == 0:
        # user-given function names, LaTeX-like ones included: a name is a label (it ends up in constraint names and messages)
        for i_, f_ in enumerate(p.F): p.emit("fn.setname %s %s" % (f_, ["f_{L}", "h", "{0}", "g%d"][(det_choice(seed, "fname", 4) + i_) % 4]))
    for _ in range(rnd.randint(1, 4)): p.sample_ops(rnd.choice(p.F), 1)
    def expr():
        a, b = rnd.choice(p.P), rnd.choice(p.P); n = p.newe(); p.emit("ex.ip %s %s %s" % (n, a, b))
        if len(p.E) > 1 and rnd.random() < .5:
            other = rnd.choice(p.E[:-1]); m = p.newe(); p.emit("ex.lin %s %s %s %s %s" % (m, rnd.choice(W), n, rnd.choice(W), other)); return m
        return n
    def cons():
        e = expr(); c = p.newc(); p.emit(rnd.choice(["cons.lec %s %s 1", "cons.gec %s %s 1/2", "cons.eqc %s %s 2"]) % (c, e)); return c
    for _ in range(rnd.randint(1, 2)):
        c_ = cons(); p.emit("pep.addcons %s" % c_)
        if rnd.random() < .25: p.emit("fn.addcons %s %s" % (rnd.choice(p.F), c_))       # registered twice: sent twice, one multiplier exposed
    for _ in range(rnd.choice([0, 0, 2, 3])):
        p.emit("fn.addcons %s %s" % (rnd.choice(p.F), cons()))        # several constraints (with constant terms) on one function
    p.emit("pep.metric %s" % expr())
    if rnd.random() < .5:
        a = expr(); inner = expr(); b = p.newe(); p.emit("ex.addc %s %s %s" % (b, inner, rnd.choice(["1", "-2", "1/2"])))
        p.emit("pep.psd 2 %s %s %s %s" % (a, b, b, a) if rnd.random() < .7 else "pep.psd 2 %s %s %s %s" % (b, a, a, b))
    if rnd.random() < .4:
        # function-level LMI with a constant entry (its multiplier contributes to the returned dual value)
        a = expr(); inner = expr(); b = p.newe(); p.emit("ex.addc %s %s %s" % (b, inner, rnd.choice(["1", "-2", "1/2"])))
        p.emit("fn.psd %s 2 %s %s %s %s" % (rnd.choice(p.F), b, a, a, b))
    # a combination whose first term is a leaf with coefficient exactly 1 (x0 - gamma*g style): evaluating it
    # must not disturb the value of that leaf
    lead = p.P[0]; other = rnd.choice(p.P); q = p.newp(); p.emit("pt.lin %s 1 %s %s %s" % (q, lead, rnd.choice(["-1/2", "2", "-1"]), other))
    held_c = [cons() for _ in range(rnd.randint(0, 2))]      # constraints never sent
    # PSDMatrix objects held by name: scalar entries (also at [0,0]), entries written differently below the diagonal;
    # added to the PEP, to a function, or kept as a free-standing diagnostic matrix
    mats = []
    for _ in range(rnd.randint(0, 2)):
        m = "%s%d" % (rnd.choice(["ma", "ml"]), len(p.lines)); n_ = rnd.choice([1, 2, 2, 3])
        def cell(): return rnd.choice(["#1", "#0", "#2", "#-1", "#1/2"]) if rnd.random() < .35 else expr()
        up = {}
        cells = []
        for i in range(n_):
            for j in range(n_):
                if j < i and rnd.random() < .6: cells.append(up[(j, i)])
                else:
                    c_ = cell(); up[(i, j)] = c_; cells.append(c_)
        p.emit("psd.new %s %d %s" % (m, n_, " ".join(cells)))
        if all(c_.startswith("#") for c_ in cells) and not m.startswith("ma"): continue        # raises TypeError on both sides: the name is never bound
        mats.append(m)
        r_ = rnd.random()
        if r_ < .4: p.emit("pep.addpsd %s" % m)
        elif r_ < .7: p.emit("fn.addpsd %s %s" % (rnd.choice(p.F), m))
    if rnd.random() < .35:
        # a leaf that stays in a decomposition with weight exactly 0 (products are not pruned): `0 * f(x)`, `(0 * g) * x`;
        # asked before any solve it must raise like any expression that mentions a leaf, and afterwards be worth its terms
        a_ = rnd.choice(p.E); z = p.newe(); p.emit("ex.smul %s 0 %s" % (z, a_))
        if rnd.random() < .5:
            g_ = rnd.choice(p.P); zp = p.newp(); p.emit("pt.smul %s 0 %s" % (zp, g_)); z2 = p.newe(); p.emit("ex.ip %s %s %s" % (z2, zp, rnd.choice(p.P)))
        for e_ in rnd.sample(p.E, min(2, len(p.E))): p.emit("eval.ex %s" % e_)
        p.emit("eval.ex %s" % z)
        if rnd.random() < .5: c_ = p.newc(); p.emit("cons.lec %s %s 1" % (c_, z)); p.emit("eval.cons %s" % c_)
    def ask(kind):
        if kind == "cons" and p.C: p.emit("eval.cons %s" % rnd.choice(held_c if held_c and rnd.random() < .6 else p.C))
        elif kind == "psd" and mats: p.emit("eval.psd %s" % rnd.choice(mats))
        elif kind == "psddual" and mats: p.emit("eval.psddual %s" % rnd.choice(mats))
        elif kind == "ex" and p.E: p.emit("eval.ex %s" % rnd.choice(p.E))
        else: p.emit("eval.ptn %s" % rnd.choice(p.P))
    if det_choice(seed, "failfirst", 4) == 0:
        # the FIRST solve finds no value: the tables of constraints exist, no multiplier does; every accessor must raise the
        # documented ValueError (whatever the names of the functions and points are)
        p.emit("solve.fail")
        for f_ in p.F: p.emit("dump.dualtables %s" % f_)
        for c_ in p.C[:2]: p.emit("eval.dual %s" % c_)
    for _ in range(rnd.randint(30, 60) if big else rnd.randint(3, 14)):       # large programs: long histories (ten and more solves of one model)
        r = rnd.random()
        if rnd.random() < .15:
            # ask, solve again (another solution), ask the same held object again: nothing may be remembered across solves
            kinds = [rnd.choice(["cons", "ex", "pt", "psd", "psddual"]) for _ in range(rnd.randint(1, 3))]
            st = rnd.getstate()
            for k_ in kinds: ask(k_)
            p.emit(rnd.choice(["solve.ok %d", "solve.ok %d", "solve.okp %d"]) % rnd.randint(0, 10**6))
            st2 = rnd.getstate(); rnd.setstate(st)
            for k_ in kinds: ask(k_)
            rnd.setstate(st2)
        if r < .18:
            p.emit("solve.ok %d" % rnd.randint(0, 10**6))
            if rnd.random() < .5: p.emit("eval.ptn %s" % q); p.emit("eval.ptn %s" % lead); p.emit("eval.ptn %s" % other)
        elif r < .25: p.emit("solve.okp %d" % rnd.randint(0, 10**6))
        elif r < .29:
            f = rnd.choice(p.F)
            if rnd.random() < .35: p.setparam(f)                  # the user changes a class parameter between solves (same samples)
            else: p.sample_ops(f, 1)                              # the model grows between solves
        elif r < .32:
            f_ = rnd.choice(p.F); p.emit("dump.tables %s" % f_); p.emit("dump.dualtables %s" % f_)
        elif r < .36: p.emit("solve.fail"); p.emit("dump.counters")        # a solve that finds no value, in the middle of a history
        elif r < .5 and p.E: p.emit("eval.ex %s" % rnd.choice(p.E))
        elif r < .58 and mats: ask(rnd.choice(["psd", "psd", "psddual"]))
        elif r < .65 and p.C: p.emit("eval.cons %s" % rnd.choice(p.C))
        elif r < .78 and p.C: p.emit("eval.dual %s" % rnd.choice(p.C))
        elif r < .9:
            for x in rnd.sample(p.P, min(len(p.P), rnd.choice([1, 1, 3, 5]))): p.emit("eval.ptn %s" % x)   # bursts: derived points, then the leaves they are made of
        elif r < .95: p.emit("pep.addcons %s" % cons())
        else: p.point(); expr()
    return p.lines

def gen_oracle(seed):
    rnd = random.Random(seed); p = Prog(rnd)
    big = big_mode(seed); p.scale = scale_mode(seed)
    # scaled programs: step sizes and weights of 2^-30, 2^-40, 2^30 besides the usual ones (x1 = x0 - 2^-30 g must stay another point than x0)
    W = globals()["W"] + ["1/1073741824", "-1/1099511627776", "1073741824", "1/1073741824"] * 2 if p.scale else globals()["W"]
    for _ in range(rnd.randint(5, 11) if big else rnd.randint(2, 3)):
        p.decl(rnd.choice(["ConvexFunction", "SmoothConvexFunction", "MonotoneOperator", "LipschitzOperator", "StronglyConvexFunction"]))
    for _ in range(2): p.point()
    if big:
        # a finite sum of all the declared functions (5 to 11 terms), some of them sampled at the point BEFORE the sum is
        leaves = list(p.F); x_ = p.P[0]
        for f_ in rnd.sample(leaves, rnd.randint(0, len(leaves) - 1)): p.sample_ops(f_, 1) if rnd.random() < .5 else (p.emit("fn.gradient %s %s %s" % (f_, x_, p.newp())))
        acc = leaves[0]
        for f_ in leaves[1:]:
            n = p.newf(); p.emit("fn.lin %s 1 %s %s %s" % (n, acc, rnd.choice(["1", "1", "2", "1/2"]), f_)); acc = n
        g_, v_ = p.newp(), p.newe(); p.emit("fn.oracle %s %s %s %s" % (acc, x_, g_, v_))
        for f in p.F: p.emit("dump.fn %s" % f); p.emit("check.afn %s" % f)
    for _ in range(rnd.randint(30, 70) if big else rnd.randint(4, 25)):
        r = rnd.random()
        if r < .2:
            a, b = rnd.choice(p.F), rnd.choice(p.F); n = p.newf()
            if rnd.random() < .35: p.emit("%s %s %s %s" % (rnd.choice(["fn.add", "fn.add", "fn.sub"]), n, a, rnd.choice([a, b])))   # f + f, f - f, f + g written directly
            else: p.emit("fn.lin %s %s %s %s %s" % (n, rnd.choice(W), a, rnd.choice(W), b))
        elif r < .3:
            if p.scale and len(p.P) >= 2:
                a, b = rnd.choice(p.P), rnd.choice(p.P); n = p.newp(); p.emit("pt.lin %s 1 %s %s %s" % (n, a, rnd.choice(W), b))
            else: p.point()
        elif r < .35:
            a = rnd.choice(p.P); n = p.newp(); p.emit("pt.smul %s %s %s" % (n, rnd.choice(W), a))
        elif r < .45:
            # the SAME point written in two ways (x and 1 * x, x + 0 * z, x / 2 + x / 2): a function sampled at both has one
            # value there, and one gradient if it is differentiable (the lookup compares decompositions, not objects)
            x = rnd.choice(p.P); z = rnd.choice(p.P); y = p.newp()
            p.emit(rnd.choice(["pt.smul %s 1 %s" % (y, x), "pt.lin %s 1 %s 0 %s" % (y, x, z), "pt.lin %s 1/2 %s 1/2 %s" % (y, x, x), "pt.lin %s 2 %s -1 %s" % (y, x, x)]))
            f = rnd.choice(p.F)
            for pt_ in rnd.sample([x, y], 2):
                k_ = rnd.random()
                if k_ < .5: g_, v_ = p.newp(), p.newe(); p.emit("fn.oracle %s %s %s %s" % (f, pt_, g_, v_))
                elif k_ < .75: g_ = p.newp(); p.emit("fn.gradient %s %s %s" % (f, pt_, g_))
                else: v_ = p.newe(); p.emit("fn.value %s %s %s" % (f, pt_, v_))
        else: p.sample_ops(rnd.choice(p.F), 1)
        if rnd.random() < .3:
            f = rnd.choice(p.F); p.emit("dump.fn %s" % f); p.emit("check.afn %s" % f)
    for f in p.F: p.emit("dump.fn %s" % f); p.emit("check.afn %s" % f)
    return p.lines

TW = ["1", "2", "-1", "1/2", "0", "-3/2", "4", "1/4", "3", "-2", "1/1125899906842624", "1125899906842624", "-1/1099511627776"]   # incl. 2^-50, 2^50, -2^-40 (exact in binary floating point)
TD = ["2", "-1", "1/2", "4", "1/4", "-2", "0"]
def gen_tree(seed):
    """random operator trees over points and expressions (C06): every object is dumped when it is
    created and again at the end (operands must not have changed)"""
    rnd = random.Random(seed); p = Prog(rnd)
    big = big_mode(seed)
    for _ in range(rnd.randint(9, 40) if big else rnd.randint(2, 4)):
        n = p.newp(); p.emit("pt.leaf %s" % n)
    for _ in range(rnd.randint(1, 2)):
        n = p.newe(); p.emit("ex.leaf %s" % n)
    if rnd.random() < .3: p.P.append("nullP")        # the module-level empty combinations are legitimate operands (accumulators)
    if rnd.random() < .3: p.E.append("nullE")
    if big:
        # long combinations the way an averaged iterate or a Lyapunov function is written: a running sum over ALL the points
        # (9 to 40 leaves in one decomposition), its square (up to 820 Gram entries in one expression)
        acc = p.P[0]
        for x_ in [x_ for x_ in p.P[1:] if x_ != "nullP"]:
            n = p.newp(); p.emit("pt.lin %s 1 %s %s %s" % (n, acc, rnd.choice(TW[:10]), x_)); acc = n
        p.emit("dump.pt %s" % acc); n = p.newe(); p.emit("ex.sq %s %s" % (n, acc)); p.emit("dump.ex %s" % n)
    for _ in range(rnd.randint(40, 90) if big else rnd.randint(4, 22)):
        r = rnd.random()
        if r < .10: a, b = rnd.choice(p.P), rnd.choice(p.P); n = p.newp(); p.emit("pt.add %s %s %s" % (n, a, b)); p.emit("dump.pt %s" % n)
        elif r < .20: a, b = rnd.choice(p.P), rnd.choice(p.P); n = p.newp(); p.emit("pt.sub %s %s %s" % (n, a, b)); p.emit("dump.pt %s" % n)
        elif r < .28: a = rnd.choice(p.P); n = p.newp(); p.emit("pt.smul %s %s %s" % (n, rnd.choice(TW), a)); p.emit("dump.pt %s" % n)
        elif r < .33:
            a = rnd.choice(p.P); d = rnd.choice(TD); n = p.newp(); p.emit("pt.div %s %s %s" % (n, a, d))
            if d == "0": p.P.pop()          # raises ZeroDivisionError on both sides: the name is never bound
            else: p.emit("dump.pt %s" % n)
        elif r < .37: a = rnd.choice(p.P); n = p.newp(); p.emit("pt.neg %s %s" % (n, a)); p.emit("dump.pt %s" % n)
        elif r < .42: a, b = rnd.choice(p.P), rnd.choice(p.P); n = p.newp(); p.emit("pt.lin %s %s %s %s %s" % (n, rnd.choice(TW), a, rnd.choice(TW), b)); p.emit("dump.pt %s" % n)
        elif r < .54: a, b = rnd.choice(p.P), rnd.choice(p.P); n = p.newe(); p.emit("ex.ip %s %s %s" % (n, a, b)); p.emit("dump.ex %s" % n)
        elif r < .59: a = rnd.choice(p.P); n = p.newe(); p.emit("ex.sq %s %s" % (n, a)); p.emit("dump.ex %s" % n)
        elif r < .66: a, b = rnd.choice(p.E), rnd.choice(p.E); n = p.newe(); p.emit("%s %s %s %s" % (rnd.choice(["ex.add", "ex.sub"]), n, a, b)); p.emit("dump.ex %s" % n)
        elif r < .71: a = rnd.choice(p.E); n = p.newe(); p.emit("ex.addc %s %s %s" % (n, a, rnd.choice(TW))); p.emit("dump.ex %s" % n)
        elif r < .75: a = rnd.choice(p.E); n = p.newe(); p.emit("ex.subc %s %s %s" % (n, a, rnd.choice(TW))); p.emit("dump.ex %s" % n)
        elif r < .79: a = rnd.choice(p.E); n = p.newe(); p.emit("ex.rsubc %s %s %s" % (n, rnd.choice(TW), a)); p.emit("dump.ex %s" % n)
        elif r < .84: a = rnd.choice(p.E); n = p.newe(); p.emit("ex.smul %s %s %s" % (n, rnd.choice(TW), a)); p.emit("dump.ex %s" % n)
        elif r < .87: a = rnd.choice(p.E); n = p.newe(); p.emit("ex.neg %s %s" % (n, a)); p.emit("dump.ex %s" % n)
        elif r < .90:
            a = rnd.choice(p.E); d = rnd.choice(TD); n = p.newe(); p.emit("ex.div %s %s %s" % (n, a, d))
            if d == "0": p.E.pop()
            else: p.emit("dump.ex %s" % n)
        elif r < .915:
            k = rnd.randint(0, 6)
            if k == 0: a, b = rnd.choice(p.P), rnd.choice(p.P); n = p.newp(); p.emit("pt.iadd %s %s %s" % (n, a, b)); p.emit("dump.pt %s" % n); p.emit("dump.pt %s" % a)
            elif k == 1: a, b = rnd.choice(p.P), rnd.choice(p.P); n = p.newp(); p.emit("pt.isub %s %s %s" % (n, a, b)); p.emit("dump.pt %s" % n); p.emit("dump.pt %s" % a)
            elif k == 2: a, b = rnd.choice(p.E), rnd.choice(p.E); n = p.newe(); p.emit("ex.iadd %s %s %s" % (n, a, b)); p.emit("dump.ex %s" % n); p.emit("dump.ex %s" % a)
            elif k == 3: a, b = rnd.choice(p.E), rnd.choice(p.E); n = p.newe(); p.emit("ex.isub %s %s %s" % (n, a, b)); p.emit("dump.ex %s" % n); p.emit("dump.ex %s" % a)
            elif k == 4: a = rnd.choice(p.E); n = p.newe(); p.emit("ex.iaddc %s %s %s" % (n, a, rnd.choice(TW))); p.emit("dump.ex %s" % n); p.emit("dump.ex %s" % a)
            elif k == 5: a = rnd.choice(p.E); n = p.newe(); p.emit("ex.imul %s %s %s" % (n, a, rnd.choice(TW))); p.emit("dump.ex %s" % n); p.emit("dump.ex %s" % a)
            else: a = rnd.choice(p.P); n = p.newp(); p.emit("pt.imul %s %s %s" % (n, a, rnd.choice(TW))); p.emit("dump.pt %s" % n); p.emit("dump.pt %s" % a)
        elif r < .935:
            # a matrix of expressions and python scalars, given as a list of lists or as an ndarray of objects
            n_ = rnd.choice([1, 2, 2, 3]); cells = [(rnd.choice(["#1", "#0", "#2", "#-1", "#1/2"]) if rnd.random() < .4 else rnd.choice(p.E)) for _ in range(n_ * n_)]
            nm = "%s%d" % (rnd.choice(["ma", "ml"]), len(p.lines)); p.emit("psd.new %s %d %s" % (nm, n_, " ".join(cells)))
            if nm.startswith("ma") or not all(c_.startswith("#") for c_ in cells): p.emit("dump.psd %s" % nm)
        elif r < .95:
            a, b = rnd.choice(p.E), rnd.choice(p.E); c = p.newc(); p.emit("%s %s %s %s" % (rnd.choice(["cons.le", "cons.ge", "cons.eq"]), c, a, b)); p.emit("dump.cons %s" % c)
        else:
            a = rnd.choice(p.E); c = p.newc(); p.emit("%s %s %s %s" % (rnd.choice(["cons.lec", "cons.gec", "cons.eqc"]), c, a, rnd.choice(TW))); p.emit("dump.cons %s" % c)
    if rnd.random() < .3:
        # accumulation the way users write it: acc = <zero or any object>; acc += t1; acc += t2 ...  (the start object must not change)
        start = rnd.choice(["nullE", "nullE", rnd.choice(p.E)]); acc = start
        for _ in range(rnd.randint(1, 3)):
            t_ = rnd.choice(p.E); n = p.newe(); p.emit("ex.iadd %s %s %s" % (n, acc, t_)); acc = n
        p.emit("dump.ex %s" % acc); p.emit("dump.ex %s" % start)
        startp = rnd.choice(["nullP", rnd.choice(p.P)]); accp = startp
        for _ in range(rnd.randint(1, 2)):
            t_ = rnd.choice(p.P); n = p.newp(); p.emit("pt.iadd %s %s %s" % (n, accp, t_)); accp = n
        p.emit("dump.pt %s" % accp); p.emit("dump.pt %s" % startp)
    for x in p.P: p.emit("dump.pt %s" % x)
    for x in p.E: p.emit("dump.ex %s" % x)
    if "nullE" not in p.E: p.emit("dump.ex nullE")
    if "nullP" not in p.P: p.emit("dump.pt nullP")
    for x in rnd.sample(p.E, min(3, len(p.E))): p.emit("dump.finish %s" % x)     # symmetrize / prune / constant / remaining terms
    p.emit("dump.counters")
    return p.lines


LAST_TAINTED = set()
_PAIR = re.compile(r"([A-Za-z0-9_]+):(-?\d+(?:/\d+)?)(?=[,}])")
_EX_CALLS = None
def example_calls():
    """the parameter tuples of the shipped examples: those of the test-suite, 283 neighbouring ones, 209 far ones and 165 boundary ones"""
    global _EX_CALLS
    if _EX_CALLS is None:
        here = os.path.dirname(os.path.abspath(__file__))
        calls = [dict(module=c["module"], func=c["func"], args={k: v for k, v in c["args"].items() if k not in ("wrapper", "solver", "verbose")})
                 for c in json.load(open(os.path.join(here, "example_calls.json")))]
        calls += [dict(module=c["module"], func=c["func"], args=c["args"]) for c in json.load(open(os.path.join(here, "ref_neighbours.json")))]
        far = os.path.join(here, "ref_far.json")        # tuples far from the suite's: 12 to 16 iterations, L = 3, step 1 / L (mk_neighbours.py far)
        if os.path.exists(far): calls += [dict(module=c["module"], func=c["func"], args=c["args"]) for c in json.load(open(far)) if c.get("seconds", 0) <= 30]
        edge = os.path.join(here, "ref_edge.json")      # tuples at the boundary: n = 0, 1, 2 and mu = 0 (mk_neighbours.py edge)
        if os.path.exists(edge): calls += [dict(module=c["module"], func=c["func"], args=c["args"]) for c in json.load(open(edge))]
        _EX_CALLS = calls
    return _EX_CALLS


def example_program(c):
    """the operations a shipped example performs (traced at run time, harness/extrace.py), then the collection, a dump of
    what is sent, and the comparison with what the example's own run sent"""
    import extrace, hashlib
    r = extrace.trace(c["module"], c["func"], c["args"])
    head = "note %s %s" % (c["func"], json.dumps(c["args"], sort_keys=True).replace(" ", ""))
    if r["error"]:
        if r["error"].startswith("untraceable"): return ["reset", head, "note " + r["error"].replace(" ", "_")[:150]]
        return ["reset", head, "trace.error " + r["error"].replace(" ", "_")[:200]]
    # for some families the whole user-level model is also written in Lean as a closed-form function of the parameters
    # (Model/Methods.lean); the objects the real example built are compared with it
    spec = []
    fr = lambda v: showrat(Fr(v)) if isinstance(v, int) else showrat(Fr(float(v)))
    if c["func"] == "wc_gradient_descent_contraction": spec = ["spec.gdc f0 %s %d" % (fr(c["args"]["gamma"]), c["args"]["n"])]
    if c["func"] == "wc_proximal_gradient": spec = ["spec.pg f0 f1 f2 %s %d" % (fr(c["args"]["gamma"]), c["args"]["n"])]
    if c["func"] == "wc_gradient_flow_strongly_convex": spec = ["spec.gfsc f0"]
    if c["func"] == "wc_polyak_steps_in_function_value": spec = ["spec.polyakf f0 %s %s" % (fr(c["args"]["L"]), fr(c["args"]["gamma"]))]
    if c["func"] == "wc_polyak_steps_in_distance_to_optimum": spec = ["spec.polyakd f0 %s" % fr(c["args"]["gamma"])]
    if c["func"] == "wc_gradient_descent" and c["module"].endswith("unconstrained_convex_minimization.gradient_descent"): spec = ["spec.gd f0 %s %d" % (fr(c["args"]["gamma"]), c["args"]["n"])]
    if c["func"] == "wc_proximal_point" and c["module"].endswith("unconstrained_convex_minimization.proximal_point"): spec = ["spec.ppm f0 %s %d" % (fr(c["args"]["gamma"]), c["args"]["n"])]
    if c["func"] == "wc_accelerated_gradient_flow_convex": spec = ["spec.agfc f0 %s" % fr(c["args"]["t"])]
    if c["func"] == "wc_gradient_descent_lyapunov_2": spec = ["spec.gdl2 f0 %s %s %d" % (fr(c["args"]["L"]), fr(c["args"]["gamma"]), c["args"]["n"])]
    if c["func"] == "wc_gradient_flow_convex": spec = ["spec.gfc f0 %s" % fr(c["args"]["t"])]
    if c["func"] == "wc_gradient_descent_lyapunov_1": spec = ["spec.gdl1 f0 %s %s %d" % (fr(c["args"]["L"]), fr(c["args"]["gamma"]), c["args"]["n"])]
    if c["func"] == "wc_subgradient_method": spec = ["spec.subg f0 %s %d" % (fr(c["args"]["gamma"]), c["args"]["n"])]
    return r["lines"] + spec + [head, "solve.collect", "dump.sent", "expect.sent " + hashlib.sha1(r["sent"].encode()).hexdigest()[:20], "dump.counters"]


def gen_examples(seed):
    """a REAL program: one of the 760 parameter tuples of the shipped examples"""
    calls = example_calls()
    return example_program(calls[(seed * 7919) % len(calls)])


def gen_methods(seed):
    """the examples whose whole user-level model is specified in Lean (Model/Methods.lean), at parameter values drawn over
    the documented ranges (no solve is involved, so any number of steps is cheap)"""
    rnd = random.Random(seed * 104729 + 11)
    if seed % 8 == 3:
        L = rnd.choice([1, 2, 0.5, 4, 1.7])
        c = dict(module="PEPit.examples.potential_functions.gradient_descent_lyapunov_1", func="wc_gradient_descent_lyapunov_1",
                 args=dict(L=L, gamma=rnd.choice([1 / L, 1 / L, 0.5 / L, 1]), n=rnd.randint(0, 12)))
    elif seed % 32 == 29:
        L = rnd.choice([1, 2, 0.5, 3, 4]); mu = rnd.choice([0.1, 0.25, 0.5]) * L
        c = dict(module="PEPit.examples.adaptive_methods.polyak_steps_in_function_value", func="wc_polyak_steps_in_function_value",
                 args=dict(L=L, mu=mu, gamma=rnd.choice([1 / L, (2 * L - mu) / L ** 2, 1.5 / L, 1.2 / L])))
    elif seed % 32 == 13:
        L = rnd.choice([1, 2, 0.5, 3, 4]); mu = rnd.choice([0.1, 0.25, 0.5]) * L
        c = dict(module="PEPit.examples.adaptive_methods.polyak_steps_in_distance_to_optimum", func="wc_polyak_steps_in_distance_to_optimum",
                 args=dict(L=L, mu=mu, gamma=rnd.choice([1 / L, 1 / mu, 2 / (L + mu), 1.5 / L, 0.75 / mu])))
    elif seed % 32 == 5:
        L = rnd.choice([1, 2, 0.5, 3])
        c = dict(module="PEPit.examples.unconstrained_convex_minimization.gradient_descent", func="wc_gradient_descent",
                 args=dict(L=L, gamma=rnd.choice([1 / L, 0.5 / L, 1.5 / L, 0.25]), n=rnd.randint(1, 8)))
    elif seed % 32 == 9:
        c = dict(module="PEPit.examples.unconstrained_convex_minimization.proximal_point", func="wc_proximal_point",
                 args=dict(gamma=rnd.choice([1, 0.5, 3, 1.5, 0.3]), n=rnd.randint(1, 8)))
    elif seed % 32 == 23:
        c = dict(module="PEPit.examples.continuous_time_models.accelerated_gradient_flow_convex", func="wc_accelerated_gradient_flow_convex",
                 args=dict(t=rnd.choice([3.4, 1, 0.5, 10, 2, 7.25])))
    elif seed % 16 == 11:
        L = rnd.choice([1, 2, 0.5, 4, 1.7])
        c = dict(module="PEPit.examples.potential_functions.gradient_descent_lyapunov_2", func="wc_gradient_descent_lyapunov_2",
                 args=dict(L=L, gamma=rnd.choice([1 / L, 1 / L, 0.5 / L, 1]), n=rnd.randint(0, 12)))
    elif seed % 16 == 15:
        c = dict(module="PEPit.examples.continuous_time_models.gradient_flow_convex", func="wc_gradient_flow_convex",
                 args=dict(t=rnd.choice([2.5, 0, 1, 0.3, 10, 7])))
    elif seed % 8 == 7:
        c = dict(module="PEPit.examples.continuous_time_models.gradient_flow_strongly_convex", func="wc_gradient_flow_strongly_convex",
                 args=dict(mu=rnd.choice([0.1, 1, 0.5, 2.5, 0.01])))
    elif seed % 3 == 2:
        L = rnd.choice([1, 2, 0.5, 1.7, 4]); mu = rnd.choice([0.1, 0.05, 0.25, 0.5]) * L
        gamma = rnd.choice([1 / L, 0.5 / L, 1.5 / L, 2 / (L + mu), 0.3, 1, 0.25])
        c = dict(module="PEPit.examples.composite_convex_minimization.proximal_gradient", func="wc_proximal_gradient",
                 args=dict(L=L, mu=mu, gamma=gamma, n=rnd.randint(1, 6)))
    elif seed % 3 == 0:
        L = rnd.choice([1, 2, 0.5, 1.7, 4]); mu = rnd.choice([0.1, 0.05, 0.25, 0.5]) * L
        gamma = rnd.choice([1 / L, 0.5 / L, 1.5 / L, 2 / (L + mu), 0.3, 1, 0.25])
        c = dict(module="PEPit.examples.tutorials.gradient_descent_contraction", func="wc_gradient_descent_contraction",
                 args=dict(L=L, mu=mu, gamma=gamma, n=rnd.randint(1, 7)))
    else:
        n = rnd.randint(1, 8); M = rnd.choice([2, 1, 0.5, 3])
        gamma = rnd.choice([1 / (M * (n + 1) ** .5), 0.25, 1, 0.5, 1 / M])
        c = dict(module="PEPit.examples.unconstrained_convex_minimization.subgradient_method", func="wc_subgradient_method",
                 args=dict(M=M, n=n, gamma=gamma))
    return example_program(c)


def _exact_double(fr):
    """a dyadic rational with at most 26 significant bits: sums and PRODUCTS of two such numbers are computed
    exactly in binary64, so a program all of whose coefficients stay of this form has not rounded anywhere"""
    try:
        if Fr(float(fr)) != fr: return False
    except OverflowError:
        return False
    n = abs(fr.numerator)
    while n and n % 2 == 0: n //= 2
    return n.bit_length() <= 26
def dyadic_program(lines):
    """every scalar literal of the program is a dyadic rational with at most 26 significant bits (exactly representable
    input whose pairwise products are exact too).  A traced example that computes `-3 / t` or `1 / L` in Python hands the
    library a 53-bit literal: its products round, cancellations leave residues that are tiny dyadics themselves, so such a
    program is compared numerically from the start"""
    # a traced example (it carries a `note <example> <args>` line) is compared numerically from the start: its class parameters
    # are arbitrary (`mu = 0.25, L = 1` gives the coefficient `mu / (2 (1 - mu / L)) ...` whose EXACT value is the dyadic 3/4
    # while the floats go through 1/6 and land one ulp below): the bit-exact rule is for generated programs, whose literals and
    # class parameters come from grids on which every intermediate result is exact
    if any(l.startswith("note ") for l in lines): return False
    for l in lines:
        if l.startswith("expect.") or l.startswith("trace.error"): continue
        for t in l.split()[1:]:
            m = re.fullmatch(r"(-?\d+)/(\d+)", t)
            if m:
                d = int(m.group(2))
                if d & (d - 1): return False
                if not _exact_double(Fr(int(m.group(1)), d)): return False
            elif re.fullmatch(r"-?\d{9,}", t):
                if not _exact_double(Fr(int(t))): return False
    return True


def same(model, impl, strict=True, scale=0.0, vfloor=1.0):
    """compare one model line with one implementation line.  If every coefficient the (exact) model
    prints is a double, floating point was exact on this line and the two must agree exactly (up to
    the printing of -0/0); otherwise rounding happened in the implementation and the comparison is
    tolerant (relative 1e-9, coefficients below 1e-9 of the largest one count as absent)."""
    if model == impl: return True
    mo, io_ = re.fullmatch(r"ok (-?\d+(?:/\d+)?)", model), re.fullmatch(r"ok (-?\d+(?:/\d+)?)", impl)
    if mo and io_:
        x, y = float(Fr(mo.group(1))), float(Fr(io_.group(1)))
        return abs(x - y) <= 1e-9 * max(vfloor, abs(x), abs(y))
    _M = r"ok (-?\d+(?:/\d+)?(?:[,;]-?\d+(?:/\d+)?)+)"
    mm, im = re.fullmatch(_M, model), re.fullmatch(_M, impl)
    if mm and im:            # a matrix of values (PSDMatrix.eval)
        if re.sub(r"[^,;]", "", model) != re.sub(r"[^,;]", "", impl): return False
        xs = [float(Fr(t)) for t in re.split(r"[,;]", mm.group(1))]; ys = [float(Fr(t)) for t in re.split(r"[,;]", im.group(1))]
        big = max([abs(v) for v in xs + ys] + [vfloor])
        return all(abs(x - y) <= 1e-9 * big for x, y in zip(xs, ys))
    mc = [Fr(v) for _, v in _PAIR.findall(model)]
    if strict and mc and all(_exact_double(c) for c in mc):
        strip = lambda t: _PAIR.sub(lambda m: m.group(1) + ":" + str(Fr(m.group(2))), t)
        return strip(model) == strip(impl) or norm(model) == norm(impl) and not _PAIR.search(model)
    def parse(t):
        keys = {}
        for k, v in _PAIR.findall(t): keys[k] = keys.get(k, 0.0) + float(Fr(v))
        rest = _PAIR.sub("", t)
        rest = re.sub(r"aij\(\w+,", "aij(", rest)          # `aij(_,{})` (no linear part) vs `aij(5,{k:1e-17})`
        rest = re.sub(r"[{},;]", "", rest)                   # separators left by removed / residue entries
        return keys, rest
    (a, ra), (b, rb) = parse(model), parse(impl)
    if not a and not b: return norm(model) == norm(impl)
    if ra != rb: return norm(model) == norm(impl)
    # residues of cancellations are relative to the magnitudes the program has handled so far, not to this line
    big = max([abs(x) for x in list(a.values()) + list(b.values())] + [1e-300, scale])
    for k in set(a) | set(b):
        x, y = a.get(k, 0.0), b.get(k, 0.0)
        if abs(x - y) > 1e-9 * big: return False
    return True


def norm(t):
    if t.startswith("ok ") and re.fullmatch(r"ok -?\d+(/\d+)?", t):
        v = float(Fr(t[3:]))
        return "ok %.7g" % (0.0 if abs(v) < 1e-9 else v)
    return re.sub(r":(-?\d+(?:/\d+)?)(?=[,}])", lambda m: ":%.9g" % float(Fr(m.group(1))), t)


def run_programs(progs):
    """progs: list of (seed, lines). Runs all of them in this process (one after the other, as one
    interpreter history) on the implementation and through the Lean driver; returns a report."""
    impl = Impl()
    all_lines, exp, idx = [], [], []
    strict = {seed: dyadic_program(lines) for seed, lines in progs}
    def probed(lines):
        # before every group of `dump.*` lines of a bit-exactly compared program the model is asked whether EVERY coefficient it
        # has computed so far (printed or not) is a 26-bit dyadic: an unprinted intermediate such as `-2^50 + 2^-50` has rounded
        # in floating point although everything printed afterwards (`2^-50` against `0`) looks exact
        out, prev = [], False
        for l in lines:
            d = l.startswith("dump.")
            if d and not prev: out.append("probe.exact")
            out.append(l); prev = d
        return out
    progs = [(seed, probed(lines) if strict[seed] else lines) for seed, lines in progs]
    for seed, lines in progs:
        for l in lines:
            impl.last_line = None
            try:
                out = impl.run(l)
            except Exception as ex:
                out = "EXC %s: %s" % (type(ex).__name__, str(ex)[:100])
            all_lines.append(impl.last_line or l); exp.append(out); idx.append(seed)
    r = subprocess.run([DRIVER], input="\n".join(all_lines) + "\n", capture_output=True, text=True)
    out = r.stdout.splitlines()
    n = min(len(out), len(exp))
    # once the exact model has produced a coefficient that is not a double, the implementation has rounded:
    # from there on this program is compared with tolerance (later coefficients may be doubles again without
    # the float computation having been exact)
    tainted = set(); bad = []; scale = {}; vfl = {}
    def pow2(fr):
        fr = abs(fr)
        return fr != 0 and (fr.numerator & (fr.numerator - 1)) == 0 and (fr.denominator & (fr.denominator - 1)) == 0
    # `remainder / weight` in add_point divides by function weights: exact only for powers of two.  Weights are
    # sums/products of literals (8*f - f = 7*f), so the model's `dec={...}` dumps are scanned first.
    for i in range(n):
        m = re.search(r"dec=\{([^}]*)\}", out[i])
        if m and any(not pow2(Fr(v)) for _, v in _PAIR.findall("{" + m.group(1) + "}")): tainted.add(idx[i])
    for i in range(n):
        sd = idx[i]
        if exp[i] == "probe":
            if out[i] != "probe exact": tainted.add(sd)
            if not out[i].startswith("probe "): bad.append(i)
            continue
        if all_lines[i].startswith(("solve.ok ", "solve.okp ")) and " G=" in all_lines[i]:
            # values evaluated after a scripted solve are compared relatively to the magnitude of that solution (a solution of
            # order 2^-40 is not "equal to anything" because the absolute floor is 1e-9)
            ent = [abs(float(Fr(t))) for t in re.findall(r"-?\d+(?:/\d+)?", all_lines[i].split(" G=", 1)[1])]
            vfl[sd] = max(ent) if ent and max(ent) > 0 else 1.0
        if not same(out[i], exp[i], strict.get(sd, False) and sd not in tainted, scale.get(sd, 0.0), vfl.get(sd, 1.0)): bad.append(i)
        coefs = [Fr(v) for _, v in _PAIR.findall(out[i])]
        if coefs: scale[sd] = max(scale.get(sd, 0.0), max(abs(float(c)) for c in coefs if abs(c) < 10 ** 300))
        if sd not in tainted and any(not _exact_double(c) for c in coefs): tainted.add(sd)
    if len(out) != len(exp):
        bad.append(n - 1 if n else 0)
    exact = sum(1 for i in range(n) if out[i] == exp[i])
    global LAST_TAINTED
    LAST_TAINTED = set(tainted) | {sd for sd, ok in strict.items() if not ok}
    return all_lines, exp, out, idx, bad, exact


def run_stream(gen, n, seed0=0):
    return run_programs([(seed, gen(seed)) for seed in range(seed0, seed0 + n)])


GENS = dict(examples=gen_examples, methods=gen_methods, tree=gen_tree, cls=gen_class, collect=gen_collect, steps=gen_steps, resolve=gen_resolve, oracle=gen_oracle)


def report(which, n, seed0):
    """JSON-able report of one chunk of a stream"""
    import hashlib, collections
    gen = GENS[which]
    progs = [(seed, gen(seed)) for seed in range(seed0, seed0 + n)]
    lines, exp, out, idx, bad, exact = run_programs(progs)
    hashes = sorted({hashlib.sha1("\n".join(p).encode()).hexdigest()[:16] for _, p in progs if len(p) > 4})
    ops = collections.Counter(l.split()[0] for _, p in progs for l in p)
    errs = collections.Counter(e for e in exp if e.startswith("err") or e.startswith("EXC"))
    badprogs = []
    seen = set()
    for i in bad:
        if idx[i] in seen: continue
        seen.add(idx[i])
        prog = [p for s, p in progs if s == idx[i]][0]
        badprogs.append(dict(seed=idx[i], line=lines[i], impl=exp[i][:2000], model=(out[i] if i < len(out) else "<missing>")[:2000], program=prog))
    # input distribution: how many programs were LARGE / SCALED, how long the longest was, how many were compared bit for bit to the end
    sized = which in ("tree", "cls", "collect", "steps", "resolve", "oracle")
    dist = dict(large_programs=sum(1 for s_, _ in progs if sized and big_mode(s_)), scaled_programs=sum(1 for s_, _ in progs if sized and which != "tree" and which != "resolve" and scale_mode(s_)),
                longest_program_lines=max([len(p) for _, p in progs] + [0]), programs_bit_exact_throughout=sum(1 for s_, _ in progs if s_ not in LAST_TAINTED),
                leaf_points_max=max([sum(1 for l in p if l.startswith(("pt.leaf", "fn.oracle", "fn.gradient", "fn.stat", "fn.fixed"))) for _, p in progs] + [0]))
    return dict(stream=which, programs=n, seed0=seed0, lines=len(lines), bit_exact=exact, mismatching_lines=len(bad),
                bad=badprogs[:20], n_bad_programs=len(seen), hashes=hashes, ops=dict(ops), errors=dict(errs), distribution=dist,
                sample=progs[0][1] if progs else [])


if __name__ == "__main__":
    if sys.argv[1] == "json":
        print("@@JSON@@" + json.dumps(report(sys.argv[2], int(sys.argv[3]), int(sys.argv[4]))))
        sys.exit(0)
    which = sys.argv[1]; n = int(sys.argv[2])
    lines, exp, out, idx, bad, exact = run_stream(GENS[which], n, int(sys.argv[3]) if len(sys.argv) > 3 else 0)
    print("stream", which, "programs", n, "lines", len(lines), "model lines", len(out), "bit-exact", exact, "mismatching lines", len(bad), "programs", len(set(idx[i] for i in bad)))
    seen = set()
    for i in bad:
        if idx[i] in seen: continue
        seen.add(idx[i])
        if len(seen) > 6: break
        print("--- seed", idx[i], "line:", lines[i])
        print("    impl :", exp[i][:600]); print("    model:", (out[i] if i < len(out) else "<missing>")[:600])
