/-!
# Published closed-form rates of shipped worked examples (hand transcription from the docstrings /
papers), with their documented validity ranges

Executable over `Float`; the C10 check evaluates these through the driver at parameter tuples the
domain predicate accepts and compares with the value the example computes.  Transcription is part of
the trusted base; each entry was validated against the pinned tree at the suite's tuple.
-/

namespace Pepit.Ref

def sq (x : Float) : Float := x * x
def powN (x : Float) : Nat → Float
  | 0 => 1
  | n + 1 => x * powN x n
def fmax (a b : Float) : Float := if a < b then b else a

/-- `θ` sequence of the optimized gradient method: `θ₀ = 1`, `θ_{i+1} = (1 + √(4θᵢ² + 1))/2` for
`i < n − 1`, last step with `8` instead of `4` -/
def thetaOGM : Nat → Float
  | 0 => 1
  | 1 => (1 + Float.sqrt (8 * 1 + 1)) / 2
  | n + 2 =>
    let rec inner : Nat → Float → Float
      | 0, t => t
      | k + 1, t => inner k ((1 + Float.sqrt (4 * t * t + 1)) / 2)
    let t := inner (n + 1) 1
    (1 + Float.sqrt (8 * t * t + 1)) / 2

structure Entry where
  name : String
  /-- parameter names, in the order the driver receives them; the iteration count `n` (if any) last -/
  params : List String
  inDomain : List Float → Bool
  value : List Float → Float

def nat (x : Float) : Nat := x.toUInt64.toNat

def table : List Entry := [
  { name := "unconstrained_convex_minimization.gradient_descent", params := ["L", "gamma", "n"],
    inDomain := fun p => match p with | [L, g, n] => L > 0 && g > 0 && g * L <= 1.0000001 && n >= 1 | _ => false,
    value := fun p => match p with | [L, g, n] => L / (2 * (2 * n * L * g + 1)) | _ => 0 },
  { name := "tutorials.gradient_descent_contraction", params := ["L", "mu", "gamma", "n"],
    inDomain := fun p => match p with | [L, mu, g, n] => mu > 0 && mu < L && g >= 0 && g * L <= 2 && n >= 1 | _ => false,
    value := fun p => match p with | [L, mu, g, n] => powN (fmax (sq (1 - g * mu)) (sq (1 - g * L))) (nat n) | _ => 0 },
  { name := "unconstrained_convex_minimization.proximal_point", params := ["gamma", "n"],
    inDomain := fun p => match p with | [g, n] => g > 0 && n >= 1 | _ => false,
    value := fun p => match p with | [g, n] => 1 / (4 * g * n) | _ => 0 },
  { name := "unconstrained_convex_minimization.subgradient_method", params := ["M", "n"],
    inDomain := fun p => match p with | [M, n] => M > 0 && n >= 1 | _ => false,
    value := fun p => match p with | [M, n] => M / Float.sqrt (n + 1) | _ => 0 },
  { name := "fixed_point_problems.halpern_iteration", params := ["n"],
    inDomain := fun p => match p with | [n] => n >= 1 | _ => false,
    value := fun p => match p with | [n] => sq (2 / (n + 1)) | _ => 0 },
  { name := "composite_convex_minimization.proximal_gradient", params := ["L", "mu", "gamma", "n"],
    inDomain := fun p => match p with | [L, mu, g, n] => mu > 0 && mu < L && g >= 0 && g * L <= 2 && n >= 1 | _ => false,
    value := fun p => match p with | [L, mu, g, n] => powN (fmax (sq (1 - g * mu)) (sq (1 - g * L))) (nat n) | _ => 0 },
  { name := "unconstrained_convex_minimization.accelerated_gradient_convex", params := ["L", "n"],
    inDomain := fun p => match p with | [L, n] => L > 0 && n >= 1 | _ => false,
    value := fun p => match p with | [L, n] => 2 * L / (n * n + 5 * n + 6) | _ => 0 },
  { name := "composite_convex_minimization.accelerated_proximal_gradient", params := ["L", "n"],
    inDomain := fun p => match p with | [L, n] => L > 0 && n >= 1 | _ => false,
    value := fun p => match p with | [L, n] => 2 * L / (n * n + 5 * n + 2) | _ => 0 },
  { name := "unconstrained_convex_minimization.optimized_gradient", params := ["L", "n"],
    inDomain := fun p => match p with | [L, n] => L > 0 && n >= 1 | _ => false,
    value := fun p => match p with | [L, n] => L / (2 * sq (thetaOGM (nat n))) | _ => 0 },
  { name := "unconstrained_convex_minimization.optimized_gradient_for_gradient", params := ["L", "n"],
    inDomain := fun p => match p with | [L, n] => L > 0 && n >= 1 | _ => false,
    value := fun p => match p with | [L, n] => 2 * L / sq (thetaOGM (nat n)) | _ => 0 },
  { name := "unconstrained_convex_minimization.conjugate_gradient", params := ["L", "n"],
    inDomain := fun p => match p with | [L, n] => L > 0 && n >= 1 | _ => false,
    value := fun p => match p with | [L, n] => L / (2 * sq (thetaOGM (nat n))) | _ => 0 },
  { name := "unconstrained_convex_minimization.gradient_exact_line_search", params := ["L", "mu", "n"],
    inDomain := fun p => match p with | [L, mu, n] => mu > 0 && mu < L && n >= 1 | _ => false,
    value := fun p => match p with | [L, mu, n] => powN (sq ((L - mu) / (L + mu))) (nat n) | _ => 0 },
  { name := "unconstrained_convex_minimization.inexact_gradient_descent", params := ["L", "mu", "epsilon", "n"],
    inDomain := fun p => match p with | [L, mu, e, n] => mu > 0 && mu < L && e >= 0 && e < 1 && n >= 1 | _ => false,
    value := fun p => match p with
      | [L, mu, e, n] => let Le := (1 + e) * L; let me := (1 - e) * mu; powN (sq ((Le - me) / (Le + me))) (nat n)
      | _ => 0 },
  { name := "fixed_point_problems.krasnoselskii_mann_constant_step_sizes", params := ["gamma", "n"],
    inDomain := fun p => match p with | [g, n] => g >= 0.5 && g <= 1 && n >= 1 | _ => false,
    value := fun p => match p with
      | [g, n] =>
        if g <= 0.5 * (1 + Float.sqrt (n / (n + 1))) then 1 / (n + 1) * powN (n / (n + 1)) (nat n) / (4 * g * (1 - g))
        else powN (sq (2 * g - 1)) (nat n)
      | _ => 0 },
  { name := "monotone_inclusions_variational_inequalities.optimal_strongly_monotone_proximal_point", params := ["mu", "n"],
    inDomain := fun p => match p with | [mu, n] => mu > 0 && n >= 1 | _ => false,
    value := fun p => match p with | [mu, n] => sq (2 * mu / (powN (1 + 2 * mu) (nat n) - 1)) | _ => 0 },
  { name := "composite_convex_minimization.bregman_proximal_point", params := ["gamma", "n"],
    inDomain := fun p => match p with | [g, n] => g > 0 && n >= 1 | _ => false,
    value := fun p => match p with | [g, n] => 1 / (g * n) | _ => 0 },
  { name := "unconstrained_convex_minimization.heavy_ball_momentum_qg_convex", params := ["L", "n"],
    inDomain := fun p => match p with | [L, n] => L > 0 && n >= 1 | _ => false,
    value := fun p => match p with | [L, n] => L / (2 * (n + 1)) | _ => 0 },
  { name := "nonconvex_optimization.gradient_descent", params := ["L", "n"],
    inDomain := fun p => match p with | [L, n] => L > 0 && n >= 1 | _ => false,
    value := fun p => match p with | [L, n] => 4 / 3 * L / n | _ => 0 },
  { name := "stochastic_and_randomized_convex_minimization.sgd", params := ["L", "mu", "v", "R"],
    inDomain := fun p => match p with | [L, mu, v, R] => mu > 0 && mu < L && v >= 0 && R > 0 | _ => false,
    value := fun p => match p with
      | [L, mu, v, R] =>
        let q := 1 - mu / L
        0.5 * sq q * sq R + 0.5 * q * R * Float.sqrt (sq q * sq R + 4 * sq v / sq L) + sq v / sq L
      | _ => 0 },
  { name := "composite_convex_minimization.douglas_rachford_splitting_contraction", params := ["mu", "L", "alpha", "n"],
    inDomain := fun p => match p with | [mu, L, a, n] => mu > 0 && mu < L && a > 0 && n >= 1 | _ => false,
    value := fun p => match p with
      | [mu, L, a, n] => powN (sq (fmax (1 / (1 + mu * a)) (a * L / (1 + a * L)))) (nat n)
      | _ => 0 }
]

def find (name : String) : Option Entry := table.find? (·.name == name)

end Pepit.Ref
