import PepitModel.Wrappers
/-!
# Model of solving with a scripted solver, value/dual assignment, and `eval()` caching
-/

namespace Pepit

structure Solution where
  G : List (List Coef)
  F : List Coef
  nP : Nat           -- Point.counter when the solve happened
  nE : Nat
  deriving Repr

inductive EvalErr where
  | valueError | typeError
  deriving Repr, DecidableEq

/-- evaluation state, kept beside the `World` (indexed by the same handles).  Since the `fix:` commit on
`eval()`, derived objects are recomputed at each call: only leaves carry state. -/
structure EvalSt where
  sols : Array Solution := #[]
  exVal : List (Nat × Coef) := []            -- `_value` of the LEAF expressions (set at each successful solve)
  consVal : List (Nat × Coef) := []          -- (unused since the fix: constraints are re-evaluated at each call)
  consDual : List (Nat × Coef) := []         -- `_dual_variable_value`
  psdDual : List (Nat × Coef) := []          -- `_dual_variable_value` of LMIs: the scripted multiplier is `token · I`
  ptEpoch : List (Nat × Nat) := []           -- (unused since the fix)
  deriving Repr

def EvalSt.last (s : EvalSt) : Option Solution := s.sols.back?

/-- a successful solve: leaves get the new values, sent scalar constraints get multiplier tokens
`1000 + position` -/
def leafValue (w : World) (sol : Solution) (h : Nat) : Option Coef :=
  ((w.exs[h]?).bind (·.leaf)).map (fun c => sol.F.getD c 0)

/-- the values `_eval_points_and_function_values` assigns to the leaf expressions: `F_value[counter]` -/
def leafVals (w : World) (sol : Solution) : List (Nat × Coef) :=
  (List.range w.exs.size).filterMap (fun h => (leafValue w sol h).map (fun x => (h, x)))

/-- the scripted multiplier of the scalar constraint sent at position `k`: `1000 + k`, NEGATIVE at every third position
(multipliers of equalities have no sign; nothing that reports a multiplier may clip, take an absolute value or re-sign it) -/
def dualTag (k : Nat) : Coef := if k % 3 == 1 then -((1000 + k : Nat) : Coef) else ((1000 + k : Nat) : Coef)

def EvalSt.afterSolve (s : EvalSt) (w : World) (sol : Solution) : EvalSt :=
  let leafVals : List (Nat × Coef) := leafVals w sol
  let exVal := leafVals ++ s.exVal.filter (fun hv => !(leafVals.map (·.1)).contains hv.1)
  let duals : List (Nat × Coef) := (List.range w.sent.length).filterMap (fun k =>
    match (w.sent[k]? : Option Sent) with
    | some (Sent.cons h) => some (h, dualTag k)
    | _ => Option.none)
  -- `assign_dual_values` walks the sent list in order: for an object sent twice the LAST multiplier stays
  let duals := duals.reverse
  let consDual := duals ++ s.consDual.filter (fun hv => !(duals.map (·.1)).contains hv.1)
  let pduals : List (Nat × Coef) := (List.range w.sent.length).filterMap (fun k =>
    match (w.sent[k]? : Option Sent) with
    | some (Sent.psd h) => some (h, ((2000 + k : Nat) : Coef))
    | _ => Option.none)
  let pduals := pduals.reverse
  let psdDual := pduals ++ s.psdDual.filter (fun hv => !(pduals.map (·.1)).contains hv.1)
  { s with sols := s.sols.push sol, exVal := exVal, consDual := consDual, psdDual := psdDual }

def lookupG (sol : Solution) (i j : Nat) : Option Coef :=
  if i < sol.nP ∧ j < sol.nP then some ((sol.G.getD i []).getD j 0) else Option.none

/-- the expression at the latest `(G, F)`; `none` if it mentions a leaf created after that solve -/
def evalGFRat (sol : Solution) (d : EDict) : Option Coef :=
  d.foldl (fun acc kc => do
    let a ← acc
    match kc.1 with
    | .f c => if c < sol.nE then some (a + kc.2 * sol.F.getD c 0) else Option.none
    | .ip i j => do let g ← lookupG sol i j; some (a + kc.2 * g)
    | .one => some (a + kc.2)) (some 0)

/-- `Expression.eval()`: a leaf returns the value stored by the latest successful solve; a combination
is recomputed from the leaf values at every call (the state is returned unchanged) -/
def evalExpr (w : World) (s : EvalSt) (h : Nat) : Except EvalErr (Coef × EvalSt) :=
  match w.exs[h]? with
  | Option.none => .error .valueError
  | some e =>
    if e.leaf.isSome then
      match s.exVal.lookup h with
      | some v => .ok (v, s)
      | Option.none => .error .valueError
    else
      match s.last with
      | Option.none =>
        -- no solve yet: the first leaf met raises; an empty / constant expression evaluates
        if e.d.all (fun kc => kc.1 == EKey.one) then .ok ((e.d.map (·.2)).foldl (· + ·) 0, s)
        else .error .valueError
      | some sol =>
        match evalGFRat sol e.d with
        | some v => .ok (v, s)
        | Option.none => .error .valueError

/-- `Constraint.eval()`: a `ValueError` of the expression is re-raised as the constraint's own
`ValueError` (`except ValueError:`) -/
def evalCons (w : World) (s : EvalSt) (h : Nat) : Except EvalErr (Coef × EvalSt) :=
  match w.cons[h]? with
  | Option.none => .error .valueError
  | some c =>
    match evalExpr w s c.e with
    | .ok (v, s') => .ok (v, s')
    | .error _ => .error .valueError

/-- `Constraint.eval_dual()` -/
def evalDual (s : EvalSt) (h : Nat) : Except EvalErr Coef :=
  match s.consDual.lookup h with
  | some v => .ok v
  | Option.none => .error .valueError

/-- `PSDMatrix.eval()`: every entry is evaluated (row by row); a `ValueError` of an entry is re-raised as
the matrix's own `ValueError` -/
def evalPsd (w : World) (s : EvalSt) (h : Nat) : Except EvalErr (List (List Coef)) :=
  match w.psds[h]? with
  | Option.none => .error .valueError
  | some m =>
    m.entries.mapM (fun row => row.mapM (fun eh =>
      match evalExpr w s eh with
      | .ok (v, _) => .ok v
      | .error _ => .error EvalErr.valueError))

/-- `PSDMatrix.eval_dual()` (scripted multiplier `token · I`) -/
def evalPsdDual (s : EvalSt) (h : Nat) : Except EvalErr Coef :=
  match s.psdDual.lookup h with
  | some v => .ok v
  | Option.none => .error .valueError

/-- squared norm of `Point.eval()`: leaves and combinations alike report the latest solve -/
def evalPointNormSq (w : World) (s : EvalSt) (h : Nat) : Except EvalErr (Coef × EvalSt) :=
  match w.pts[h]? with
  | Option.none => .error .valueError
  | some p =>
    let normAt (sol : Solution) : Option Coef :=
      p.d.foldl (fun acc kc => do
        let a ← acc
        let inner ← p.d.foldl (fun acc2 kc2 => do
          let a2 ← acc2
          let g ← lookupG sol kc.1 kc2.1
          some (a2 + kc.2 * kc2.2 * g)) (some 0)
        some (a + inner)) (some 0)
    match p.leaf with
    | some _ =>
      match s.last with
      | Option.none => .error .valueError
      | some sol => match normAt sol with | some v => .ok (v, s) | Option.none => .error .valueError
    | Option.none =>
      match s.last with
      | Option.none => if p.d.isEmpty then .ok (0, s) else .error .valueError
      | some sol =>
        match normAt sol with
        | some v => .ok (v, s)
        | Option.none => .error .valueError

/-- what `check_feasibility` evaluates (and therefore caches) during a successful solve: every
sent constraint, every entry of every sent LMI -/
def EvalSt.cacheSent (s : EvalSt) (w : World) : EvalSt :=
  w.sent.foldl (fun s snt =>
    match snt with
    | Sent.cons h => match evalCons w s h with | .ok (_, s') => s' | .error _ => s
    | Sent.psd h =>
      match w.psds[h]? with
      | some m => m.entries.foldl (fun s r => r.foldl (fun s eh =>
          match evalExpr w s eh with | .ok (_, s') => s' | .error _ => s) s) s
      | Option.none => s) s

/-- constant term of an expression decomposition (coefficient of the key `1`) -/
def constOf (d : EDict) : Coef := (d.filter (fun kc => kc.1 == EKey.one)).foldl (fun a kc => a + kc.2) 0

/-- the value `check_feasibility` returns as dual objective: the constant term of
`objective − (−⟨residual, Gram⟩ − Σ⟨Λ_k, T_k⟩ + Σ λ_c · expr_c)`, i.e.
`−Σ λ_c · const(expr_c) + Σ_k Σ_ij Λ_k[i,j] · const(T_k[i,j])`, for scripted multipliers
`λ_c = dualTag position` (`± (1000 + position)`), `Λ_k = (2000 + position) · I`. -/
def scriptedDualObjective (w : World) : Coef :=
  -- the multiplier `check_feasibility` reads is the one EXPOSED by the object: for an object sent twice,
  -- that of its last row (for both occurrences)
  let lastPos (s : Sent) : Nat → Nat := fun k =>
    ((List.range w.sent.length).filter (fun k' => (w.sent[k']? : Option Sent) == some s)).getLast?.getD k
  (List.range w.sent.length).foldl (fun acc k =>
    match (w.sent[k]? : Option Sent) with
    | some (Sent.cons h) =>
      match w.cons[h]? with
      | some c => match w.exs[c.e]? with
        | some e => acc - dualTag (lastPos (Sent.cons h) k) * constOf (Dict.prune e.d)
        | Option.none => acc
      | Option.none => acc
    | some (Sent.psd h) =>
      match w.psds[h]? with
      | some m =>
        (List.range m.n).foldl (fun acc i =>
          match (m.entries.getD i []).getD i 0 |> (w.exs[·]?) with
          | some e => acc + ((2000 + k : Nat) : Coef) * constOf (Dict.prune e.d)
          | Option.none => acc) acc
      | Option.none => acc
    | Option.none => acc) 0

end Pepit
