import PepitModel.Algebra
/-!
# Model of `PEPit/tools/expressions_to_matrices.py`
-/

/-- the loop `W[key] = weight` over the items of a dictionary (assignment: the last item with a
given key wins; entries never assigned stay `0`). -/
def assignLast (d : EDict) (k : EKey) : Coef :=
  d.foldl (fun acc kc => if kc.1 = k then kc.2 else acc) 0

/-- output of `expression_to_matrices`: `Gweights` (after `(Gw + Gwᵀ)/2`), `Fweights`, `cons`. -/
structure DenseW where
  G : Nat → Nat → Coef
  F : Nat → Coef
  c : Coef

def toDense (e : EDict) : DenseW where
  G := fun i j => (assignLast e (.ip i j) + assignLast e (.ip j i)) / 2
  F := fun i => assignLast e (.f i)
  c := assignLast e .one

/-- one emitted lower-triangular triplet of `expression_to_sparse_matrices` -/
structure Trip where
  i : Nat
  j : Nat
  val : Coef
  deriving Repr, DecidableEq

/-- output of `expression_to_sparse_matrices` -/
structure SparseW where
  G : List Trip
  F : List (Nat × Coef)
  c : Coef
  deriving Repr, DecidableEq

/-- the loop body of `expression_to_sparse_matrices` for one item -/
def sparseStep (e : EDict) (acc : SparseW) (kc : EKey × Coef) : SparseW :=
  match kc.1 with
  | .f i => { acc with F := acc.F ++ [(i, kc.2)] }
  | .ip i j =>
    if e.contains (.ip j i) then
      if i ≥ j then
        { acc with G := acc.G ++ [⟨i, j, (kc.2 + (e.get? (.ip j i)).getD 0) / 2⟩] }
      else acc
    else
      { acc with G := acc.G ++ [⟨max i j, min i j, (kc.2 + 0) / 2⟩] }
  | .one => { acc with c := kc.2 }

def toSparse (e : EDict) : SparseW := e.foldl (sparseStep e) ⟨[], [], 0⟩
