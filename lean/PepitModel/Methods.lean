import PepitModel.Algebra
/-!
# Specifications of shipped methods as closed-form data (what the example script must have built)

For a few worked examples the *whole* user-level model — the samples recorded on the function, the initial condition, the
performance metric — is written here as a pure function of the parameters, over the leaf numbering the script induces.
The `examples` stream compares these data with the objects the REAL example built (`spec.*` ops); `Props/C09Methods`
proves what they denote (the iterates of the method), which is what ties the theorems of C09 / C10 about the methods
to the example scripts.
-/

namespace Pepit.Method

/-- `x - gamma * g` with `g` the leaf point number `gl` -/
def stepPt (x : PDict) (γ : Coef) (gl : Nat) : PDict := PDict.sub x (PDict.smul γ [(gl, 1)])

/-- `k` steps `x ← x - gamma * g_i` from `start`, the direction of step `i` being the leaf point `gleaf i` -/
def iterPt (start : PDict) (γ : Coef) (gleaf : Nat → Nat) : Nat → PDict
  | 0 => start
  | k + 1 => stepPt (iterPt start γ gleaf k) γ (gleaf k)

structure Spec where
  /-- samples recorded on the function, in order: point, (sub)gradient, value -/
  samples : List (PDict × PDict × EDict)
  /-- constraints declared on the problem: left-minus-right expression, `true` for an equality -/
  init : List (EDict × Bool)
  /-- performance metrics -/
  metrics : List EDict
  /-- samples recorded on a second / third function of the script, if any -/
  samples2 : List (PDict × PDict × EDict) := []
  samples3 : List (PDict × PDict × EDict) := []
  deriving Repr

/-- `tutorials.gradient_descent_contraction`: leaf points `x0 ↦ 0`, `y0 ↦ 1`, then the gradients in the order of the calls
(`∇f(x_k) ↦ 2+2k`, `∇f(y_k) ↦ 3+2k`; every call also creates a value leaf) -/
def gdcX (γ : Coef) : Nat → PDict := iterPt [(0, 1)] γ (fun k => 2 + 2 * k)
def gdcY (γ : Coef) : Nat → PDict := iterPt [(1, 1)] γ (fun k => 3 + 2 * k)

def gdc (γ : Coef) (n : Nat) : Spec :=
  { samples := (List.range n).flatMap (fun k =>
      [(gdcX γ k, [(2 + 2 * k, 1)], [(EKey.f (2 * k), 1)]), (gdcY γ k, [(3 + 2 * k, 1)], [(EKey.f (2 * k + 1), 1)])]),
    init := [(EDict.subConst (PDict.sq (PDict.sub (gdcX γ 0) (gdcY γ 0))) 1, false)],
    metrics := [PDict.sq (PDict.sub (gdcX γ n) (gdcY γ n))] }

/-- `unconstrained_convex_minimization.subgradient_method`: `x⋆ ↦ 0` (stationary point, value leaf 0), `x0 ↦ 1`, then
`oracle(x_k)` creates the subgradient `g_k ↦ 2+k` and the value `f_k ↦ 1+k`; metrics `f(x_k) − f⋆` for `k = 0 … n` -/
def subgX (γ : Coef) : Nat → PDict := iterPt [(1, 1)] γ (fun k => 2 + k)

def subg (γ : Coef) (n : Nat) : Spec :=
  { samples := ([(0, 1)], [], [(EKey.f 0, 1)]) ::
      (List.range (n + 1)).map (fun k => (subgX γ k, [(2 + k, 1)], [(EKey.f (1 + k), 1)])),
    init := [(EDict.subConst (PDict.sq (PDict.sub (subgX γ 0) [(0, 1)])) 1, false)],
    metrics := (List.range (n + 1)).map (fun k => EDict.sub [(EKey.f (1 + k), 1)] [(EKey.f 0, 1)]) }

/-- `composite_convex_minimization.proximal_gradient`: `F = f1 + f2`; `x⋆ ↦ 0` is the stationary point of `F` (value leaf 0),
`∇f1(x⋆) ↦ 1` (value leaf 1; the subgradient of `f2` there is `−∇f1(x⋆)`, its value `F⋆ − f1(x⋆)`), `x0 ↦ 2`; step `k`:
`∇f1(x_k) ↦ 3+2k` (value leaf `2+2k`), then the proximal step creates the subgradient `s_{k+1} ↦ 4+2k` of `f2` at `x_{k+1}`
(value leaf `3+2k`): `x_{k+1} = (x_k − γ ∇f1(x_k)) − γ s_{k+1}` -/
def pgX (γ : Coef) : Nat → PDict
  | 0 => [(2, 1)]
  | k + 1 => stepPt (stepPt (pgX γ k) γ (3 + 2 * k)) γ (4 + 2 * k)

def pg (γ : Coef) (n : Nat) : Spec :=
  { samples := ([(0, 1)], [(1, 1)], [(EKey.f 1, 1)]) ::
      (List.range n).map (fun k => (pgX γ k, [(3 + 2 * k, 1)], [(EKey.f (2 + 2 * k), 1)])),
    samples2 := ([(0, 1)], [(1, -1)], [(EKey.f 0, 1), (EKey.f 1, -1)]) ::
      (List.range n).map (fun k => (pgX γ (k + 1), [(4 + 2 * k, 1)], [(EKey.f (3 + 2 * k), 1)])),
    samples3 := [([(0, 1)], [], [(EKey.f 0, 1)])],
    init := [(EDict.subConst (PDict.sq (PDict.sub (pgX γ 0) [(0, 1)])) 1, false)],
    metrics := [PDict.sq (PDict.sub (pgX γ n) [(0, 1)])] }

/-- `continuous_time_models.gradient_flow_strongly_convex`: `x⋆ ↦ 0` (stationary point, value leaf 0), `x_t ↦ 1`, the oracle call
creates `∇f(x_t) ↦ 2` and `f(x_t)` (value leaf 1); the Lyapunov function `f(x_t) − f⋆` is normalised to 1 (an equality) and the
metric is its derivative along the flow `ẋ = −∇f(x)`: `⟨∇f(x_t), −∇f(x_t)⟩` -/
def gfsc : Spec :=
  { samples := [([(0, 1)], [], [(EKey.f 0, 1)]), ([(1, 1)], [(2, 1)], [(EKey.f 1, 1)])],
    init := [(EDict.subConst (EDict.sub [(EKey.f 1, 1)] [(EKey.f 0, 1)]) 1, true)],
    metrics := [PDict.ip [(2, 1)] (PDict.neg [(2, 1)])] }

/-- `potential_functions.gradient_descent_lyapunov_1`: `x⋆ ↦ 0` (value leaf 0), `x_n ↦ 1`, `oracle(x_n)` creates `g_n ↦ 2` and
`f_n` (value leaf 1), `x_{n+1} = x_n − γ g_n`, `oracle(x_{n+1})` creates `g_{n+1} ↦ 3` and `f_{n+1}` (value leaf 2); no initial
condition; the metric is `V_{n+1} − V_n` with `V_k = k (f_k − f⋆) + L/2 ‖x_k − x⋆‖²` -/
def gdlNext (γ : Coef) : PDict := stepPt [(1, 1)] γ 2
def gdlV (L : Coef) (k : Nat) (fk : Nat) (x : PDict) : EDict :=
  EDict.add (EDict.smul (k : Coef) (EDict.sub [(EKey.f fk, 1)] [(EKey.f 0, 1)])) (EDict.smul (L / 2) (PDict.sq (PDict.sub x [(0, 1)])))
def gdlMetric (L γ : Coef) (n : Nat) : EDict := EDict.sub (gdlV L (n + 1) 2 (gdlNext γ)) (gdlV L n 1 [(1, 1)])

def gdl1 (L γ : Coef) (n : Nat) : Spec :=
  { samples := [([(0, 1)], [], [(EKey.f 0, 1)]), ([(1, 1)], [(2, 1)], [(EKey.f 1, 1)]), (gdlNext γ, [(3, 1)], [(EKey.f 2, 1)])],
    init := [],
    metrics := [gdlMetric L γ n] }

/-- `continuous_time_models.gradient_flow_convex`: `x⋆ ↦ 0` (value leaf 0), `x_t ↦ 1`, `∇f(x_t) ↦ 2` (value leaf 1); the metric is the
derivative along `ẋ = −∇f(x)` of `V = t (f(x_t) − f⋆) + ½‖x_t − x⋆‖²`: `(f_t − f⋆) + ⟨t g, −g⟩ + ⟨x_t − x⋆, −g⟩` -/
def gfcMetric (t : Coef) : EDict :=
  EDict.add (EDict.add (EDict.sub [(EKey.f 1, 1)] [(EKey.f 0, 1)]) (PDict.ip (PDict.smul t [(2, 1)]) (PDict.neg [(2, 1)])))
    (PDict.ip (PDict.sub [(1, 1)] [(0, 1)]) (PDict.neg [(2, 1)]))

def gfc (t : Coef) : Spec :=
  { samples := [([(0, 1)], [], [(EKey.f 0, 1)]), ([(1, 1)], [(2, 1)], [(EKey.f 1, 1)])],
    init := [],
    metrics := [gfcMetric t] }

/-- `potential_functions.gradient_descent_lyapunov_2`: same leaves as `gdl1` (`x⋆ ↦ 0`, `x_n ↦ 1`, `g_n ↦ 2`, `g_{n+1} ↦ 3`; values
`f⋆ ↦ 0`, `f_n ↦ 1`, `f_{n+1} ↦ 2`); potential `V_k = (2k+1) L (f_k − f⋆) + k(k+2) ‖g_k‖² + L² ‖x_k − x⋆‖²` -/
def gdl2V (L c1 c2 : Coef) (fk : Nat) (g x : PDict) : EDict :=
  EDict.add (EDict.add (EDict.smul c1 (EDict.sub [(EKey.f fk, 1)] [(EKey.f 0, 1)])) (EDict.smul c2 (PDict.sq g)))
    (EDict.smul (L * L) (PDict.sq (PDict.sub x [(0, 1)])))
def gdl2Metric (L γ : Coef) (n : Nat) : EDict :=
  EDict.sub (gdl2V L ((2 * (n : Coef) + 3) * L) (((n : Coef) + 1) * ((n : Coef) + 3)) 2 [(3, 1)] (gdlNext γ))
    (gdl2V L ((2 * (n : Coef) + 1) * L) ((n : Coef) * ((n : Coef) + 2)) 1 [(2, 1)] [(1, 1)])

def gdl2 (L γ : Coef) (n : Nat) : Spec :=
  { samples := [([(0, 1)], [], [(EKey.f 0, 1)]), ([(1, 1)], [(2, 1)], [(EKey.f 1, 1)]), (gdlNext γ, [(3, 1)], [(EKey.f 2, 1)])],
    init := [],
    metrics := [gdl2Metric L γ n] }

/-- `continuous_time_models.accelerated_gradient_flow_convex`: `x⋆ ↦ 0` (value leaf 0), `x_t ↦ 1`, `∇f(x_t) ↦ 2` (value leaf 1),
`ẋ_t ↦ 3`; `ẍ_t = −3/t ẋ_t − ∇f(x_t)`; the metric is the derivative of `V = t²(f(x_t) − f⋆) + 2‖(x_t − x⋆) + t/2 ẋ_t‖²` -/
def agfcXdd (t : Coef) : PDict := PDict.sub (PDict.smul (-3 / t) [(3, 1)]) [(2, 1)]
def agfcMetric (t : Coef) : EDict :=
  EDict.add
    (EDict.add (EDict.smul (2 * t) (EDict.sub [(EKey.f 1, 1)] [(EKey.f 0, 1)])) (PDict.ip (PDict.smul (t * t) [(3, 1)]) [(2, 1)]))
    (PDict.ip (PDict.smul 4 (PDict.add (PDict.sub [(1, 1)] [(0, 1)]) (PDict.smul (t / 2) [(3, 1)])))
      (PDict.add (PDict.smul (3 / 2) [(3, 1)]) (PDict.smul (t / 2) (agfcXdd t))))

def agfc (t : Coef) : Spec :=
  { samples := [([(0, 1)], [], [(EKey.f 0, 1)]), ([(1, 1)], [(2, 1)], [(EKey.f 1, 1)])],
    init := [],
    metrics := [agfcMetric t] }

/-- `adaptive_methods.polyak_steps_in_distance_to_optimum`: `x⋆ ↦ 0` (value leaf 0), `x0 ↦ 1`, `oracle(x0)` creates `g0 ↦ 2`, `f0` (value
leaf 1), `x1 = x0 − γ g0`, `oracle(x1)` creates `g1 ↦ 3`, `f1` (value leaf 2); constraints `‖x0 − x⋆‖² ≤ 1` and the Polyak step
`γ ‖g0‖² = 2 (f0 − f⋆)` (an equality); metric `‖x1 − x⋆‖²` -/
def polyakInit : EDict := EDict.subConst (PDict.sq (PDict.sub [(1, 1)] [(0, 1)])) 1
def polyakStep (γ : Coef) : EDict :=
  EDict.sub (EDict.smul γ (PDict.sq [(2, 1)])) (EDict.smul 2 (EDict.sub [(EKey.f 1, 1)] [(EKey.f 0, 1)]))
def polyakMetric (γ : Coef) : EDict := PDict.sq (PDict.sub (gdlNext γ) [(0, 1)])

def polyakd (γ : Coef) : Spec :=
  { samples := [([(0, 1)], [], [(EKey.f 0, 1)]), ([(1, 1)], [(2, 1)], [(EKey.f 1, 1)]), (gdlNext γ, [(3, 1)], [(EKey.f 2, 1)])],
    init := [(polyakInit, false), (polyakStep γ, true)],
    metrics := [polyakMetric γ] }

/-- `adaptive_methods.polyak_steps_in_function_value`: same leaves as `polyakd`; constraints `f0 − f⋆ ≤ 1` and the Polyak rule
`‖g0‖² = 2L(2 − Lγ)(f0 − f⋆)` (an equality); metric `f(x1) − f⋆` -/
def polyakfInit : EDict := EDict.subConst (EDict.sub [(EKey.f 1, 1)] [(EKey.f 0, 1)]) 1
def polyakfStep (L γ : Coef) : EDict :=
  EDict.sub (PDict.sq [(2, 1)]) (EDict.smul (2 * L * (2 - L * γ)) (EDict.sub [(EKey.f 1, 1)] [(EKey.f 0, 1)]))
def polyakfMetric : EDict := EDict.sub [(EKey.f 2, 1)] [(EKey.f 0, 1)]

def polyakf (L γ : Coef) : Spec :=
  { samples := [([(0, 1)], [], [(EKey.f 0, 1)]), ([(1, 1)], [(2, 1)], [(EKey.f 1, 1)]), (gdlNext γ, [(3, 1)], [(EKey.f 2, 1)])],
    init := [(polyakfInit, false), (polyakfStep L γ, true)],
    metrics := [polyakfMetric] }

/-! ### specifications without a theorem attached (correspondence only): the script builds exactly this model -/

/-- `unconstrained_convex_minimization.gradient_descent`: `x⋆ ↦ 0` (value leaf 0), `x0 ↦ 1`; `gradient(x_k)` creates `g_k ↦ 2+k` and
`f_k` (value leaf `1+k`) for `k < n`, the final `func(x_n)` creates `g_n ↦ 2+n`, `f_n`; metric `f_n − f⋆` -/
def gd (γ : Coef) (n : Nat) : Spec :=
  { samples := ([(0, 1)], [], [(EKey.f 0, 1)]) ::
      (List.range (n + 1)).map (fun k => (iterPt [(1, 1)] γ (fun i => 2 + i) k, [(2 + k, 1)], [(EKey.f (1 + k), 1)])),
    init := [(EDict.subConst (PDict.sq (PDict.sub [(1, 1)] [(0, 1)])) 1, false)],
    metrics := [EDict.sub [(EKey.f (1 + n), 1)] [(EKey.f 0, 1)]] }

/-- `unconstrained_convex_minimization.proximal_point`: `x⋆ ↦ 0`, `x0 ↦ 1`; step `k` creates the subgradient `g_{k+1} ↦ 2+k` at the
new point `x_{k+1} = x_k − γ g_{k+1}` and its value (leaf `1+k`); metric `f(x_n) − f⋆` -/
def ppm (γ : Coef) (n : Nat) : Spec :=
  { samples := ([(0, 1)], [], [(EKey.f 0, 1)]) ::
      (List.range n).map (fun k => (iterPt [(1, 1)] γ (fun i => 2 + i) (k + 1), [(2 + k, 1)], [(EKey.f (1 + k), 1)])),
    init := [(EDict.subConst (PDict.sq (PDict.sub [(1, 1)] [(0, 1)])) 1, false)],
    metrics := [EDict.sub [(EKey.f n, 1)] [(EKey.f 0, 1)]] }

end Pepit.Method
