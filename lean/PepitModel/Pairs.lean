/-!
# Model of the pair enumeration of `Function.add_constraints_from_two_lists_of_points`
and of `add_constraints_from_one_list_of_points`
-/

/-- the test `if i == j or (i > j and symmetry)` : is the table entry `(i, j)` skipped? -/
def pairSkipped (symmetry : Bool) (i j : Nat) : Bool := i == j || (decide (i > j) && symmetry)

/-- index pairs `(i, j)` (row-major, as the double loop visits them) for which a constraint is
created, for lists of lengths `n1`, `n2` -/
def pairIdx (n1 n2 : Nat) (symmetry : Bool) : List (Nat × Nat) :=
  (List.range n1).flatMap (fun i =>
    (List.range n2).filterMap (fun j => if pairSkipped symmetry i j then none else some (i, j)))

/-- the table of constraints: `none` where the code stores `0` -/
def pairTable (n1 n2 : Nat) (symmetry : Bool) : List (List (Option (Nat × Nat))) :=
  (List.range n1).map (fun i =>
    (List.range n2).map (fun j => if pairSkipped symmetry i j then none else some (i, j)))

/-- pairs of samples a condition is instantiated on when both lists are the list `l` -/
def pairsOf {α : Type} (l : List α) (symmetry : Bool) : List (α × α) :=
  (pairIdx l.length l.length symmetry).filterMap (fun ij =>
    match l[ij.1]?, l[ij.2]? with
    | some a, some b => some (a, b)
    | _, _ => none)

/-- the test of `add_constraints_from_two_lists_of_points` after the `fix:` commit:
`if point_i is point_j or (i > j and symmetry)`.  `same` is the identity test of the two samples. -/
def skipTwo (same symmetry : Bool) (i j : Nat) : Bool := same || (decide (i > j) && symmetry)

/-- ordered pairs of samples a two-list condition is instantiated on (row-major) -/
def pairsTwo {α : Type} [DecidableEq α] (l1 l2 : List α) (symmetry : Bool) : List (α × α) :=
  l1.zipIdx.flatMap (fun ai =>
    l2.zipIdx.filterMap (fun bj =>
      if skipTwo (decide (ai.1 = bj.1)) symmetry ai.2 bj.2 then none else some (ai.1, bj.1)))

/-- the table stored for a two-list condition: `none` where the code stores `0` -/
def tableTwo {α : Type} [DecidableEq α] (l1 l2 : List α) (symmetry : Bool) : List (List (Option (α × α))) :=
  l1.zipIdx.map (fun ai =>
    l2.zipIdx.map (fun bj =>
      if skipTwo (decide (ai.1 = bj.1)) symmetry ai.2 bj.2 then none else some (ai.1, bj.1)))
