/-!
# Model of the pair enumeration of `Function.add_constraints_from_two_lists_of_points`
and of `add_constraints_from_one_list_of_points`
-/

/-- the test `if i == j or (i > j and symmetry)` : is the table entry `(i, j)` skipped? -/
def pairSkipped (symmetry : Bool) (i j : Nat) : Bool := i == j || (decide (i > j) && symmetry)

/-- index pairs `(i, j)` (row-major, as the double loop visits them) for which a constraint is
created, for lists of lengths `n1`, `n2` -/
def pairIdx (n1 n2 : Nat) (symmetry : Bool) : List (Nat × Nat) :=
  (List.range n1).flatMap (fun i =>
    (List.range n2).filterMap (fun j => if pairSkipped symmetry i j then none else some (i, j)))

/-- the table of constraints: `none` where the code stores `0` -/
def pairTable (n1 n2 : Nat) (symmetry : Bool) : List (List (Option (Nat × Nat))) :=
  (List.range n1).map (fun i =>
    (List.range n2).map (fun j => if pairSkipped symmetry i j then none else some (i, j)))

/-- pairs of samples a condition is instantiated on when both lists are the list `l` -/
def pairsOf {α : Type} (l : List α) (symmetry : Bool) : List (α × α) :=
  (pairIdx l.length l.length symmetry).filterMap (fun ij =>
    match l[ij.1]?, l[ij.2]? with
    | some a, some b => some (a, b)
    | _, _ => none)
