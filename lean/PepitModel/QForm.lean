import PepitModel.Dict
/-!
# Symbolic quadratic forms: the shape of one class condition on a pair of samples
-/

/-- symbolic sample points of a pair condition -/
inductive PSym where
  | xi | gi | xj | gj | xs | v | gik | gjk
  deriving DecidableEq, Repr

/-- symbolic function values -/
inductive FSym where
  | fi | fj | fs
  deriving DecidableEq, Repr

inductive QKey where
  | f (s : FSym)
  | ip (a b : PSym)
  | one
  deriving DecidableEq, Repr

abbrev QForm := List (QKey × Coef)
