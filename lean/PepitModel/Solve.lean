/-!
# Model of the control and data flow of `PEP._solve_with_wrapper` after the problem was generated

The numerical solver is a parameter: what matters here is *which* solve's numbers end up where.
-/

namespace Pepit

/-- the `dimension_reduction_heuristic` option -/
inductive Heur where
  | none                -- `None`
  | trace               -- `"trace"`
  | logdet (n : Nat)    -- `"logdetN"`
  | invalid             -- any other string (including `"logdet"` followed by a non-integer)
  deriving Repr, DecidableEq

inductive Mode where
  | dual | primal | invalid
  deriving Repr, DecidableEq

/-- calls issued on the wrapper, after `generate_problem` -/
inductive WCall where
  | solve (k : Nat)            -- the `k`-th call of `wrapper.solve`
  | recover (afterSolve : Nat) -- `assign_dual_values` → `_recover_dual_values`, issued after solve `afterSolve`
  | prepare                    -- `prepare_heuristic(wc_value, tol)` with the value of solve 1
  | heuristic                  -- `heuristic(W)`
  deriving Repr, DecidableEq

/-- outcome of the flow -/
structure Flow where
  calls : List WCall
  /-- solve whose multipliers are attached to constraints, LMIs and `PEP.residual` -/
  dualsFrom : Nat
  /-- solve whose `(G, F)` is evaluated and whose objective value is the primal value -/
  primalFrom : Nat
  /-- `ValueError` raised (invalid option) -/
  raises : Bool
  deriving Repr, DecidableEq

/-- the `logdet` loop: `n` rounds of `heuristic(W); solve` -/
def logdetRounds : Nat → Nat → List WCall
  | 0, _ => []
  | n + 1, k => [.heuristic, .solve k] ++ logdetRounds n (k + 1)

/-- `_solve_with_wrapper` from the first `wrapper.solve` on, when that solve reports a finite value -/
def solveFlow (h : Heur) (m : Mode) : Flow :=
  let base := [WCall.solve 1, .recover 1]
  let (calls, last, bad) : List WCall × Nat × Bool := match h with
    | .none => (base, 1, false)
    | .trace => (base ++ [.prepare, .heuristic, .solve 2], 2, false)
    | .logdet n => (base ++ [.prepare] ++ logdetRounds n 2, n + 1, false)
    | .invalid => (base ++ [.prepare], 1, true)
  { calls := calls, dualsFrom := 1, primalFrom := last, raises := bad || (m == .invalid) }

/-- the public front-end `PEP.solve(wrapper=name, …)`: the name is lower-cased; the requested back-end is used when its package
is installed and its licence check passes, otherwise cvxpy; every other option is handed to `_solve_with_wrapper` unchanged -/
def resolveWrapper (name : String) (installed licensed : String → Bool) : String :=
  let n := name.toLower
  if !installed n then "cvxpy" else if !licensed n then "cvxpy" else n

/-- `PEP.solve` = `_solve_with_wrapper` of the resolved back-end with the SAME heuristic, mode and tolerance -/
def solveFront (name : String) (installed licensed : String → Bool) (h : Heur) (m : Mode) : String × Flow :=
  (resolveWrapper name installed licensed, solveFlow h m)

/-- the calls up to and including the first occurrence of `c` -/
def takeThrough (c : WCall) : List WCall → List WCall
  | [] => []
  | x :: xs => if x = c then [x] else x :: takeThrough c xs

/-- `_solve_with_wrapper` when the solver reports NO value on solve number `failAt ≥ 2` (a solve of the dimension-reduction
stage: the heuristic problem is numerically infeasible for the solver, e.g. a tolerance far below the accuracy reachable at the
scale of the optimum): nothing is issued after that solve, the instance kept is the one of the last solve that succeeded, the
multipliers stay those of the first solve.  `failAt = 0` (or a solve that is never issued): no failure, `solveFlow`. -/
def solveFlowUpTo (h : Heur) (m : Mode) (failAt : Nat) : Flow :=
  let f := solveFlow h m
  if 2 ≤ failAt ∧ failAt ≤ f.primalFrom then
    { f with calls := takeThrough (.solve failAt) f.calls, primalFrom := failAt - 1 }
  else f

/-- when the first solve reports no value, nothing else happens and `None` is returned -/
def failedFlow : Flow := { calls := [.solve 1], dualsFrom := 0, primalFrom := 0, raises := false }

end Pepit
