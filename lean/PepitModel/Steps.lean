import PepitModel.World
/-!
# Model of `PEPit/primitive_steps/*.py` (literal order of leaf creation and operator calls)
-/

namespace Pepit

/-! ## the formulas of the steps as pure functions of decomposition dictionaries

Each is the literal composition of operator overloads the step performs; the monadic steps below
build their objects with them, and `Props/C08` proves what they denote. -/
namespace StepForm

/-- `x0 - gamma * g` (proximal, inexact gradient, Bregman, ε-subgradient steps) -/
def gradStep (x0 : PDict) (γ : Coef) (g : PDict) : PDict := PDict.sub x0 (PDict.smul γ g)

/-- inexact gradient: `(gx0 - dx0) ** 2 - epsilon ** 2 [* gx0 ** 2]`, the left side of `… <= 0` -/
def inexactGradient (gx0 dx0 : PDict) (ε : Coef) (relative : Bool) : EDict :=
  let sq := PDict.ip (PDict.sub gx0 dx0) (PDict.sub gx0 dx0)
  if relative then EDict.sub sq (EDict.smul (ε * ε) (PDict.ip gx0 gx0)) else EDict.subConst sq (ε * ε)

/-- exact line search: `(x - x0) * gx` and `d * gx` (each `== 0`) -/
def linesearchMain (x x0 gx : PDict) : EDict := PDict.ip (PDict.sub x x0) gx
def linesearchDir (d gx : PDict) : EDict := PDict.ip d gx

/-- ε-subgradient: `f0 + (g0 * y - fy) - g0 * x0`, the left side of `… <= epsilon` -/
def epsSubgradient (f0 : EDict) (g0 y : PDict) (fy : EDict) (x0 : PDict) : EDict :=
  EDict.sub (EDict.add f0 (EDict.sub (PDict.ip g0 y) fy)) (PDict.ip g0 x0)

/-- `eps_sub = fx - fw - v * (x - w)` -/
def epsSub (fx fw : EDict) (v x w : PDict) : EDict := EDict.sub (EDict.sub fx fw) (PDict.ip v (PDict.sub x w))

/-- PD_gapI: `e = x - x0 + gamma * v`, left side `e ** 2 / 2 + gamma * eps_sub` -/
def gapIe (x x0 : PDict) (γ : Coef) (v : PDict) : PDict := PDict.add (PDict.sub x x0) (PDict.smul γ v)
def gapI (x x0 : PDict) (γ : Coef) (v w : PDict) (fx fw : EDict) : EDict :=
  let e := gapIe x x0 γ v
  EDict.add (EDict.div (PDict.ip e e) 2) (EDict.smul γ (epsSub fx fw v x w))

/-- PD_gapII: `x = x0 - gamma * gx + e`, left side `e ** 2 / 2` -/
def gapIIx (x0 : PDict) (γ : Coef) (gx e : PDict) : PDict := PDict.add (PDict.sub x0 (PDict.smul γ gx)) e
def gapII (e : PDict) : EDict := EDict.div (PDict.ip e e) 2

/-- PD_gapIII: `v = (x0 - x) / gamma`, left side `gamma * eps_sub` -/
def gapIIIv (x0 x : PDict) (γ : Coef) : PDict := PDict.div (PDict.sub x0 x) γ
def gapIII (γ : Coef) (v x w : PDict) (fx fw : EDict) : EDict := EDict.smul γ (epsSub fx fw v x w)

end StepForm

def dP (h : Nat) : M PDict := do pure (← getP h).d
def dE (h : Nat) : M EDict := do pure (← getE h).d

def nameOrNone : Option String → String
  | some n => n
  | Option.none => "None"

def addFunCons (f c : Nat) : M Unit := do
  let fr ← getF f
  setF f { fr with cons := fr.cons ++ [c] }

/-- `proximal_step(x0, f, gamma)` -/
def proximalStep (x0 f : Nat) (γ : Coef) : M (Nat × Nat × Nat) := do
  let gx ← newLeafP
  let fx ← newLeafE
  let x ← mkP (StepForm.gradStep (← dP x0) γ (← dP gx))
  addPoint f (Triple.mk3 x gx fx)
  pure (x, gx, fx)

/-- `inexact_gradient_step(x0, f, gamma, epsilon, notion)` -/
def inexactGradientStep (x0 f : Nat) (γ ε : Coef) (relative : Bool) : M (Nat × Nat × Nat) := do
  let (gx0, fx0) ← oracle f x0
  let dx0 ← newLeafP
  let lhs ← mkE (StepForm.inexactGradient (← dP gx0) (← dP dx0) ε relative)
  let c ← consLeConst lhs 0
  setConsName c s!"inexact_gradient_step({nameOrNone (← getF f).name})_on_{nameOrNone (← getP x0).name}"
  addFunCons f c
  let x ← mkP (StepForm.gradStep (← dP x0) γ (← dP dx0))
  pure (x, dx0, fx0)

/-- `exact_linesearch_step(x0, f, directions)` -/
def exactLinesearchStep (x0 f : Nat) (dirs : List Nat) : M (Nat × Nat × Nat) := do
  let x ← newLeafP
  let (gx, fx) ← oracle f x
  let e0 ← mkE (StepForm.linesearchMain (← dP x) (← dP x0) (← dP gx))
  let c0 ← consEqConst e0 0
  let fn := nameOrNone (← getF f).name
  let xn := nameOrNone (← getP x0).name
  setConsName c0 s!"exact_linesearch({fn})_on_{xn}"
  addFunCons f c0
  for d in dirs do
    let e ← mkE (StepForm.linesearchDir (← dP d) (← dP gx))
    let c ← consEqConst e 0
    setConsName c s!"exact_linesearch({fn})_on_{xn}_in_direction_{nameOrNone (← getP d).name}"
    addFunCons f c
  pure (x, gx, fx)

/-- `linear_optimization_step(dir, ind)` -/
def linearOptimizationStep (dir ind : Nat) : M (Nat × Nat × Nat) := do
  let x ← newLeafP
  let gx ← ptNeg dir
  let fx ← newLeafE
  addPoint ind (Triple.mk3 x gx fx)
  pure (x, gx, fx)

/-- `bregman_gradient_step(gx0, sx0, mirror_map, gamma)` -/
def bregmanGradientStep (gx0 sx0 h : Nat) (γ : Coef) : M (Nat × Nat × Nat) := do
  let x ← newLeafP
  let hx ← newLeafE
  let sx ← mkP (StepForm.gradStep (← dP sx0) γ (← dP gx0))
  addPoint h (Triple.mk3 x sx hx)
  pure (x, sx, hx)

/-- `bregman_proximal_step(sx0, mirror_map, min_function, gamma)` -/
def bregmanProximalStep (sx0 h f : Nat) (γ : Coef) : M (Nat × Nat × Nat × Nat × Nat) := do
  let x ← newLeafP
  let gx ← newLeafP
  let fx ← newLeafE
  let sx ← mkP (StepForm.gradStep (← dP sx0) γ (← dP gx))
  let hx ← newLeafE
  addPoint f (Triple.mk3 x gx fx)
  addPoint h (Triple.mk3 x sx hx)
  pure (x, sx, hx, gx, fx)

/-- `epsilon_subgradient_step(x0, f, gamma)` -/
def epsilonSubgradientStep (x0 f : Nat) (γ : Coef) : M (Nat × Nat × Nat × Nat) := do
  let g0 ← newLeafP
  let f0 ← value f x0
  let eps ← newLeafE
  let x ← mkP (StepForm.gradStep (← dP x0) γ (← dP g0))
  let y ← newLeafP
  let fy ← newLeafE
  addPoint f (Triple.mk3 y g0 fy)
  let lhs ← mkE (StepForm.epsSubgradient (← dE f0) (← dP g0) (← dP y) (← dE fy) (← dP x0))
  let c ← consLe lhs eps
  setConsName c s!"epsilon_subgradient({nameOrNone (← getF f).name})_on_{nameOrNone (← getP x0).name}"
  addFunCons f c
  pure (x, g0, f0, eps)

/-- `inexact_proximal_step(x0, f, gamma, opt)`; `opt ∈ {1, 2, 3}` for PD_gapI / II / III -/
def inexactProximalStep (x0 f : Nat) (γ : Coef) (opt : Nat) : M (Nat × Nat × Nat × Nat × Nat × Nat × Nat) := do
  let fn := nameOrNone (← getF f).name
  let xn := nameOrNone (← getP x0).name
  let finish (c : Nat) : M Unit := do
    setConsName c s!"inexact_proximal({fn})_on_{xn}"
    addFunCons f c
  match opt with
  | 1 =>
    let v ← newLeafP
    let w ← newLeafP
    let fw ← newLeafE
    addPoint f (Triple.mk3 w v fw)
    let x ← newLeafP
    let gx ← newLeafP
    let fx ← newLeafE
    addPoint f (Triple.mk3 x gx fx)
    let epsVar ← newLeafE
    let lhs ← mkE (StepForm.gapI (← dP x) (← dP x0) γ (← dP v) (← dP w) (← dE fx) (← dE fw))
    let c ← consLe lhs epsVar
    finish c
    pure (x, gx, fx, w, v, fw, epsVar)
  | 2 =>
    let e ← newLeafP
    let gx ← newLeafP
    let x ← mkP (StepForm.gapIIx (← dP x0) γ (← dP gx) (← dP e))
    let fx ← newLeafE
    addPoint f (Triple.mk3 x gx fx)
    let epsVar ← newLeafE
    let e2h ← mkE (StepForm.gapII (← dP e))
    let c ← consLe e2h epsVar
    finish c
    pure (x, gx, fx, x, gx, fx, epsVar)
  | 3 =>
    let x ← newLeafP
    let gx ← newLeafP
    let w ← newLeafP
    if γ == 0 then throw .divZero
    let v ← mkP (StepForm.gapIIIv (← dP x0) (← dP x) γ)
    let fw ← newLeafE
    let fx ← newLeafE
    addPoint f (Triple.mk3 x gx fx)
    addPoint f (Triple.mk3 w v fw)
    let epsVar ← newLeafE
    let lhs ← mkE (StepForm.gapIII γ (← dP v) (← dP x) (← dP w) (← dE fx) (← dE fw))
    let c ← consLe lhs epsVar
    finish c
    pure (x, gx, fx, w, v, fw, epsVar)
  | _ => throw (.unsupported "opt")

end Pepit
