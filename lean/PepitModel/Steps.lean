import PepitModel.World
/-!
# Model of `PEPit/primitive_steps/*.py` (literal order of leaf creation and operator calls)
-/

namespace Pepit

def nameOrNone : Option String → String
  | some n => n
  | Option.none => "None"

def addFunCons (f c : Nat) : M Unit := do
  let fr ← getF f
  setF f { fr with cons := fr.cons ++ [c] }

/-- `proximal_step(x0, f, gamma)` -/
def proximalStep (x0 f : Nat) (γ : Coef) : M (Nat × Nat × Nat) := do
  let gx ← newLeafP
  let fx ← newLeafE
  let ggx ← ptSmul γ gx
  let x ← ptSub x0 ggx
  addPoint f (Triple.mk3 x gx fx)
  pure (x, gx, fx)

/-- `inexact_gradient_step(x0, f, gamma, epsilon, notion)` -/
def inexactGradientStep (x0 f : Nat) (γ ε : Coef) (relative : Bool) : M (Nat × Nat × Nat) := do
  let (gx0, fx0) ← oracle f x0
  let dx0 ← newLeafP
  let diff ← ptSub gx0 dx0
  let sq ← ptIp diff diff
  let lhs ← if relative then do
      let g2 ← ptIp gx0 gx0
      let eg2 ← exSmul (ε * ε) g2
      exSub sq eg2
    else exSubConst sq (ε * ε)
  let c ← consLeConst lhs 0
  setConsName c s!"inexact_gradient_step({nameOrNone (← getF f).name})_on_{nameOrNone (← getP x0).name}"
  addFunCons f c
  let gd ← ptSmul γ dx0
  let x ← ptSub x0 gd
  pure (x, dx0, fx0)

/-- `exact_linesearch_step(x0, f, directions)` -/
def exactLinesearchStep (x0 f : Nat) (dirs : List Nat) : M (Nat × Nat × Nat) := do
  let x ← newLeafP
  let (gx, fx) ← oracle f x
  let d0 ← ptSub x x0
  let e0 ← ptIp d0 gx
  let c0 ← consEqConst e0 0
  let fn := nameOrNone (← getF f).name
  let xn := nameOrNone (← getP x0).name
  setConsName c0 s!"exact_linesearch({fn})_on_{xn}"
  addFunCons f c0
  for d in dirs do
    let e ← ptIp d gx
    let c ← consEqConst e 0
    setConsName c s!"exact_linesearch({fn})_on_{xn}_in_direction_{nameOrNone (← getP d).name}"
    addFunCons f c
  pure (x, gx, fx)

/-- `linear_optimization_step(dir, ind)` -/
def linearOptimizationStep (dir ind : Nat) : M (Nat × Nat × Nat) := do
  let x ← newLeafP
  let gx ← ptNeg dir
  let fx ← newLeafE
  addPoint ind (Triple.mk3 x gx fx)
  pure (x, gx, fx)

/-- `bregman_gradient_step(gx0, sx0, mirror_map, gamma)` -/
def bregmanGradientStep (gx0 sx0 h : Nat) (γ : Coef) : M (Nat × Nat × Nat) := do
  let x ← newLeafP
  let hx ← newLeafE
  let gg ← ptSmul γ gx0
  let sx ← ptSub sx0 gg
  addPoint h (Triple.mk3 x sx hx)
  pure (x, sx, hx)

/-- `bregman_proximal_step(sx0, mirror_map, min_function, gamma)` -/
def bregmanProximalStep (sx0 h f : Nat) (γ : Coef) : M (Nat × Nat × Nat × Nat × Nat) := do
  let x ← newLeafP
  let gx ← newLeafP
  let fx ← newLeafE
  let gg ← ptSmul γ gx
  let sx ← ptSub sx0 gg
  let hx ← newLeafE
  addPoint f (Triple.mk3 x gx fx)
  addPoint h (Triple.mk3 x sx hx)
  pure (x, sx, hx, gx, fx)

/-- `epsilon_subgradient_step(x0, f, gamma)` -/
def epsilonSubgradientStep (x0 f : Nat) (γ : Coef) : M (Nat × Nat × Nat × Nat) := do
  let g0 ← newLeafP
  let f0 ← value f x0
  let eps ← newLeafE
  let gg ← ptSmul γ g0
  let x ← ptSub x0 gg
  let y ← newLeafP
  let fy ← newLeafE
  addPoint f (Triple.mk3 y g0 fy)
  let g0y ← ptIp g0 y
  let fstar ← exSub g0y fy
  let s1 ← exAdd f0 fstar
  let g0x0 ← ptIp g0 x0
  let lhs ← exSub s1 g0x0
  let c ← consLe lhs eps
  setConsName c s!"epsilon_subgradient({nameOrNone (← getF f).name})_on_{nameOrNone (← getP x0).name}"
  addFunCons f c
  pure (x, g0, f0, eps)

/-- `inexact_proximal_step(x0, f, gamma, opt)`; `opt ∈ {1, 2, 3}` for PD_gapI / II / III -/
def inexactProximalStep (x0 f : Nat) (γ : Coef) (opt : Nat) : M (Nat × Nat × Nat × Nat × Nat × Nat × Nat) := do
  let fn := nameOrNone (← getF f).name
  let xn := nameOrNone (← getP x0).name
  let finish (c : Nat) : M Unit := do
    setConsName c s!"inexact_proximal({fn})_on_{xn}"
    addFunCons f c
  match opt with
  | 1 =>
    let v ← newLeafP
    let w ← newLeafP
    let fw ← newLeafE
    addPoint f (Triple.mk3 w v fw)
    let x ← newLeafP
    let gx ← newLeafP
    let fx ← newLeafE
    addPoint f (Triple.mk3 x gx fx)
    let epsVar ← newLeafE
    let d ← ptSub x x0
    let gv ← ptSmul γ v
    let e ← ptAdd d gv
    let fxfw ← exSub fx fw
    let xw ← ptSub x w
    let vxw ← ptIp v xw
    let epsSub ← exSub fxfw vxw
    let e2 ← ptIp e e
    let e2h ← exDiv e2 2
    let ge ← exSmul γ epsSub
    let lhs ← exAdd e2h ge
    let c ← consLe lhs epsVar
    finish c
    pure (x, gx, fx, w, v, fw, epsVar)
  | 2 =>
    let e ← newLeafP
    let gx ← newLeafP
    let ggx ← ptSmul γ gx
    let t ← ptSub x0 ggx
    let x ← ptAdd t e
    let fx ← newLeafE
    addPoint f (Triple.mk3 x gx fx)
    let epsVar ← newLeafE
    let e2 ← ptIp e e
    let e2h ← exDiv e2 2
    let c ← consLe e2h epsVar
    finish c
    pure (x, gx, fx, x, gx, fx, epsVar)
  | 3 =>
    let x ← newLeafP
    let gx ← newLeafP
    let w ← newLeafP
    let d ← ptSub x0 x
    let v ← ptDiv d γ
    let fw ← newLeafE
    let fx ← newLeafE
    addPoint f (Triple.mk3 x gx fx)
    addPoint f (Triple.mk3 w v fw)
    let epsVar ← newLeafE
    let fxfw ← exSub fx fw
    let xw ← ptSub x w
    let vxw ← ptIp v xw
    let epsSub ← exSub fxfw vxw
    let lhs ← exSmul γ epsSub
    let c ← consLe lhs epsVar
    finish c
    pure (x, gx, fx, w, v, fw, epsVar)
  | _ => throw (.unsupported "opt")

end Pepit
