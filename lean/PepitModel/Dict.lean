/-!
# Model of `PEPit/tools/dict_operations.py`

Python dictionaries are modelled as insertion-ordered association lists over `Rat`
coefficients (every Python float is a rational).  Definitions mirror the code literally.
-/

abbrev Coef := Rat
abbrev Dict (κ : Type) := List (κ × Coef)

namespace Dict
variable {κ : Type} [DecidableEq κ]

def keys (d : Dict κ) : List κ := d.map (·.1)
def get? (d : Dict κ) (k : κ) : Option Coef := List.lookup k d
def contains (d : Dict κ) (k : κ) : Bool := (d.get? k).isSome

/-- `d[k] += c` on an existing key. -/
def addAt : Dict κ → κ → Coef → Dict κ
  | [], _, _ => []
  | (k', c') :: t, k, c => if k' = k then (k', c' + c) :: t else (k', c') :: addAt t k c

/-- `d[k] = c` (overwrite in place, or append). -/
def set : Dict κ → κ → Coef → Dict κ
  | [], k, c => [(k, c)]
  | (k', c') :: t, k, c => if k' = k then (k', c) :: t else (k', c') :: set t k c

/-- `merge_dict(dict1, dict2)`: membership is tested in `dict1`, not in the accumulator. -/
def merge (d1 d2 : Dict κ) : Dict κ :=
  d2.foldl (fun m kc => if d1.contains kc.1 then addAt m kc.1 kc.2 else set m kc.1 kc.2) d1

/-- `prune_dict` -/
def prune (d : Dict κ) : Dict κ := d.filter (fun kc => kc.2 != 0)

/-- `{key: value * c}` as built by every `__rmul__`. -/
def scale (d : Dict κ) (c : Coef) : Dict κ := d.map (fun kc => (kc.1, kc.2 * c))

/-- one row of `multiply_dicts`: products of `(k1, c1)` with every entry of `d2`,
accumulated into `acc` (`+=` if the product key is already there, else set). -/
def mulRow {κ₂ : Type} [DecidableEq κ₂] (k1 : κ) (c1 : Coef) (d2 : Dict κ₂)
    (acc : Dict (κ × κ₂)) : Dict (κ × κ₂) :=
  d2.foldl (fun m kc => if m.contains (k1, kc.1) then addAt m (k1, kc.1) (c1 * kc.2)
                        else set m (k1, kc.1) (c1 * kc.2)) acc

/-- `multiply_dicts(dict1, dict2)` -/
def multiply {κ₂ : Type} [DecidableEq κ₂] (d1 : Dict κ) (d2 : Dict κ₂) : Dict (κ × κ₂) :=
  d1.foldl (fun m kc => mulRow kc.1 kc.2 d2 m) []

/-- Python `dict.__eq__`: same key set, equal values, order-insensitive. -/
def eqv (a b : Dict κ) : Bool :=
  a.length == b.length && a.all (fun kc => b.get? kc.1 == some kc.2)

end Dict
