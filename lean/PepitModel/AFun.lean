import PepitModel.Algebra
import PepitModel.Remainder

/-!
# Value-level machine for the oracle bookkeeping of `Function` (no heap, no aliasing)

Points and expressions are passed by value (their current decomposition dictionaries); the only
effect of in-place pruning that later code can observe — the dictionary a caller passes next
time — is supplied by the caller.  Written with structural recursion only, for proofs.
-/

namespace Pepit

structure ATriple where
  x : PDict
  g : PDict
  v : EDict
  deriving Repr

structure AFun where
  isLeaf : Bool
  decomp : Dict Nat        -- indices of leaf functions with weights
  reuse : Bool
  pts : List ATriple := []
  deriving Repr

structure AW where
  funs : List AFun := []
  nP : Nat := 0
  nE : Nat := 0
  deriving Repr

def AW.getF (w : AW) (f : Nat) : AFun := w.funs.getD f { isLeaf := true, decomp := [], reuse := false }

def AW.setPts (w : AW) (f : Nat) (pts : List ATriple) : AW :=
  { w with funs := w.funs.modify f (fun fr => { fr with pts := pts }) }

def AW.setDecomp (w : AW) (f : Nat) (d : Dict Nat) : AW :=
  { w with funs := w.funs.modify f (fun fr => { fr with decomp := d }) }

/-- `_is_already_evaluated_on_point`: stored points are pruned, the incoming dictionary is pruned
before the comparison -/
def lookupTriple (pts : List ATriple) (x : PDict) : Option ATriple :=
  pts.find? (fun t => Dict.eqv t.x (Dict.prune x))

/-- append a triplet (its three dictionaries pruned, as `add_point` does in place) -/
def AW.record (w : AW) (f : Nat) (t : ATriple) : AW :=
  w.setPts f ((w.getF f).pts ++ [⟨Dict.prune t.x, Dict.prune t.g, Dict.prune t.v⟩])

def leafPoint (c : Nat) : PDict := [(c, 1)]
def leafExpr (c : Nat) : EDict := [(EKey.f c, 1)]

/-- `oracle` on a leaf function -/
def oracleLeafA (w : AW) (f : Nat) (x : PDict) : AW × PDict × EDict :=
  let fr := w.getF f
  match lookupTriple fr.pts x with
  | some t =>
    if fr.reuse then (w, t.g, t.v)
    else
      let g := leafPoint w.nP
      (({ w with nP := w.nP + 1 }).record f ⟨x, g, t.v⟩, g, t.v)
  | none =>
    let v := leafExpr w.nE
    let g := leafPoint w.nP
    (({ w with nP := w.nP + 1, nE := w.nE + 1 }).record f ⟨x, g, v⟩, g, v)

/-- the remainder loop of `add_point` on a composite: `terms` is the visit list
`need_nothing ++ need_gradient_only ++ need_both`, `k` the number of terms that still go through
their own oracle (all but the last) -/
def distribute (x : PDict) : AW → List (Nat × Coef) → PDict → EDict → AW
  | w, [], _, _ => w
  | w, [(fn, wt)], gl, fl =>
      w.record fn ⟨x, PDict.div gl wt, EDict.div fl wt⟩
  | w, (fn, wt) :: rest, gl, fl =>
      let (w', grad, val) := oracleLeafA w fn x
      distribute x w' rest (PDict.sub gl (PDict.smul wt grad)) (EDict.sub fl (EDict.smul wt val))

/-- one step of the need classification -/
def classifyStep (w : AW) (x : PDict)
    (acc : List (Nat × Coef) × List (Nat × Coef) × List (Nat × Coef)) (tw : Nat × Coef) :
    List (Nat × Coef) × List (Nat × Coef) × List (Nat × Coef) :=
  let tr := w.getF tw.1
  match lookupTriple tr.pts x with
  | some _ => if tr.reuse then (acc.1 ++ [tw], acc.2.1, acc.2.2) else (acc.1, acc.2.1 ++ [tw], acc.2.2)
  | none => (acc.1, acc.2.1, acc.2.2 ++ [tw])

/-- need classification of the terms of a composite at `x` -/
def classify (w : AW) (decomp : Dict Nat) (x : PDict) :
    List (Nat × Coef) × List (Nat × Coef) × List (Nat × Coef) :=
  decomp.foldl (classifyStep w x) ([], [], [])

/-- `add_point` on any function (the incoming triplet's `x` is what the caller passes) -/
def addPointA (w : AW) (f : Nat) (t : ATriple) : AW :=
  let w := w.record f t
  let fr := w.getF f
  if fr.isLeaf then w
  else
    let d := Dict.prune fr.decomp
    let w := w.setDecomp f d
    let xp := Dict.prune t.x
    let (n0, n1, n2) := classify w d xp
    let needSome := n1 ++ n2
    if needSome.isEmpty then w
    else distribute xp w (n0 ++ needSome) (Dict.prune t.g) (Dict.prune t.v)

/-- combination `Σ w · value(term)` / `Σ w · gradient(term)` used when every term is already
evaluated -/
def combineV (w : AW) (decomp : Dict Nat) (x : PDict) : EDict :=
  decomp.foldl (fun acc tw =>
    match lookupTriple (w.getF tw.1).pts x with
    | some t => EDict.add acc (EDict.smul tw.2 t.v)
    | none => acc) []

def combineG (w : AW) (decomp : Dict Nat) (x : PDict) : PDict :=
  decomp.foldl (fun acc tw =>
    match lookupTriple (w.getF tw.1).pts x with
    | some t => PDict.add acc (PDict.smul tw.2 t.g)
    | none => acc) []

/-- `oracle` on any function -/
def oracleA (w : AW) (f : Nat) (x : PDict) : AW × PDict × EDict :=
  let fr := w.getF f
  if fr.isLeaf then oracleLeafA w f x
  else
    -- zero / cancelling weights are removed before anything is classified
    let w := w.setDecomp f (Dict.prune fr.decomp)
    let fr := w.getF f
    let assoc := lookupTriple fr.pts x
    match assoc, fr.reuse with
    | some t, true => (w, t.g, t.v)
    | _, _ =>
      let (_, n1, n2) := classify w fr.decomp x
      -- value
      let (w1, v) : AW × EDict := match assoc with
        | some t => (w, t.v)
        | none => if n2.isEmpty then (w, combineV w fr.decomp x) else ({ w with nE := w.nE + 1 }, leafExpr w.nE)
      -- gradient
      let (w2, g) : AW × PDict :=
        if n2.isEmpty && n1.isEmpty then (w1, combineG w1 fr.decomp x)
        else ({ w1 with nP := w1.nP + 1 }, leafPoint w1.nP)
      (addPointA w2 f ⟨x, g, v⟩, g, v)

def valueA (w : AW) (f : Nat) (x : PDict) : AW × EDict :=
  match lookupTriple (w.getF f).pts x with
  | some t => (w, t.v)
  | none => let (w', _, v) := oracleA w f x; (w', v)

def stationaryPointA (w : AW) (f : Nat) : AW × PDict × EDict :=
  let x := leafPoint w.nP
  let v := leafExpr w.nE
  let w1 : AW := { w with nP := w.nP + 1, nE := w.nE + 1 }
  (addPointA w1 f ⟨x, [], v⟩, x, v)

def fixedPointA (w : AW) (f : Nat) : AW × PDict :=
  let x := leafPoint w.nP
  let v := leafExpr w.nE
  let w1 : AW := { w with nP := w.nP + 1, nE := w.nE + 1 }
  (addPointA w1 f ⟨x, x, v⟩, x)

def AW.newLeafFun (w : AW) (reuse : Bool) : AW × Nat :=
  ({ w with funs := w.funs ++ [{ isLeaf := true, decomp := [(w.funs.length, 1)], reuse := reuse }] }, w.funs.length)

def AW.newComposite (w : AW) (c1 : Coef) (a : Nat) (c2 : Coef) (b : Nat) : AW × Nat :=
  let fa := w.getF a
  let fb := w.getF b
  let nf : AFun := { isLeaf := false,
                     decomp := Dict.merge (Dict.scale fa.decomp c1) (Dict.scale fb.decomp c2),
                     reuse := fa.reuse && fb.reuse }
  ({ w with funs := w.funs ++ [nf] }, w.funs.length)

end Pepit
