import PepitModel.Algebra
/-!
# Model of `BlockPartition.get_block` (first call on a point) and `add_partition_constraints`
-/

/-- the `d - 1` fresh leaf points created by `get_block` when `Point.counter = c` -/
def freshBlocks (d c : Nat) : List PDict := (List.range (d - 1)).map (fun t => [(c + t, (1 : Coef))])

/-- `accumulation = null_point; accumulation += new_point …` -/
def accumulate (fresh : List PDict) : PDict := fresh.foldl PDict.add []

/-- `blocks_dict[point]` : the fresh leaves followed by `point - accumulation` -/
def partitionBlocks (p : PDict) (d c : Nat) : List PDict :=
  freshBlocks d c ++ [PDict.sub p (accumulate (freshBlocks d c))]

/-- index quadruples `(i, j, k, l)` of `add_partition_constraints`:
`for xi in values: for xj in values: for k in range(d): for l in range(k)` -/
def partitionIdx (nb d : Nat) : List (Nat × Nat × Nat × Nat) :=
  (List.range nb).flatMap (fun i => (List.range nb).flatMap (fun j =>
    (List.range d).flatMap (fun k => (List.range k).map (fun l => (i, j, k, l)))))

/-- what `add_partition_constraints` keeps of `list_of_constraints` before it generates again: every constraint
that the previous call did not generate (removal by identity, wherever the constraint sits in the list) -/
def partKeep (cons ortho : List Nat) : List Nat := cons.filter (fun c => !ortho.contains c)

/-- the two lists of a `BlockPartition` that change over a history of solves: `list_of_constraints` and the
record of what the latest call generated -/
structure PartLists where
  cons : List Nat := []
  ortho : List Nat := []
  deriving Repr, DecidableEq

/-- what happens to a partition between and at solves -/
inductive PartOp where
  | addUser (c : Nat)            -- `partition.add_constraint(c)`
  | solve (gen : List Nat)       -- `add_partition_constraints()` generating the constraints `gen`
  deriving Repr

def PartLists.step (s : PartLists) : PartOp → PartLists
  | .addUser c => { s with cons := s.cons ++ [c] }
  | .solve gen => { cons := partKeep s.cons s.ortho ++ gen, ortho := gen }

def PartLists.run (s : PartLists) (ops : List PartOp) : PartLists := ops.foldl PartLists.step s
