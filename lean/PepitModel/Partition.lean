import PepitModel.Algebra
/-!
# Model of `BlockPartition.get_block` (first call on a point) and `add_partition_constraints`
-/

/-- the `d - 1` fresh leaf points created by `get_block` when `Point.counter = c` -/
def freshBlocks (d c : Nat) : List PDict := (List.range (d - 1)).map (fun t => [(c + t, (1 : Coef))])

/-- `accumulation = null_point; accumulation += new_point …` -/
def accumulate (fresh : List PDict) : PDict := fresh.foldl PDict.add []

/-- `blocks_dict[point]` : the fresh leaves followed by `point - accumulation` -/
def partitionBlocks (p : PDict) (d c : Nat) : List PDict :=
  freshBlocks d c ++ [PDict.sub p (accumulate (freshBlocks d c))]

/-- index quadruples `(i, j, k, l)` of `add_partition_constraints`:
`for xi in values: for xj in values: for k in range(d): for l in range(k)` -/
def partitionIdx (nb d : Nat) : List (Nat × Nat × Nat × Nat) :=
  (List.range nb).flatMap (fun i => (List.range nb).flatMap (fun j =>
    (List.range d).flatMap (fun k => (List.range k).map (fun l => (i, j, k, l)))))
