import PepitModel.World
import PepitModel.Cvx
/-!
# Model of what the two wrappers send to their solver for the collected model
-/

namespace Pepit

/-- `expression_to_sparse_matrices` on an `Expression` object (leaf shortcut included) -/
def exprSparse (e : EObj) : SparseW :=
  match e.leaf with
  | some c => ⟨[], [(c, 1)], 0⟩
  | Option.none => toSparse e.d

inductive Bound where
  | up (u : Coef)          -- `boundkey.up`, upper bound `u`
  | fx (v : Coef)          -- `boundkey.fx`
  deriving Repr

/-- the calls `MosekWrapper` issues on its `Task`, in order -/
inductive TaskCall where
  | appendbarvars (dim : Nat)
  | appendvars (n : Nat)
  | putvarboundFree (i : Nat)
  | appendcons
  | symmat (dim : Nat) (trips : List Trip)
  | putbaraij (row bar idx : Nat)
  | putaijlist (row : Nat) (l : List (Nat × Coef))
  | putconbound (row : Nat) (b : Bound)
  | putclist (l : List (Nat × Coef))
  | maximize
  deriving Repr

structure TaskSt where
  calls : List TaskCall := []
  numcon : Nat := 0
  numsym : Nat := 0
  bardims : List Nat := []
  /-- first error the real wrapper runs into.  None is modelled any more: before the `fix:` commits
  this was `OverflowError` (`int8` row-index array, rows ≥ 128) or `IndexError` (LMI coupled to
  the matrix variable `psd_matrix.counter + 1` instead of its send position). -/
  error : Option String := Option.none

def TaskSt.push (t : TaskSt) (c : TaskCall) : TaskSt := { t with calls := t.calls ++ [c] }

/-- `send_constraint_to_solver` -/
def mosekSendCons (nP : Nat) (t : TaskSt) (e : EObj) (isEq : Bool) : TaskSt :=
  if t.error.isSome then t else
  let s := exprSparse e
  let row := t.numcon
  let t := (t.push .appendcons)
  let t := { t with numcon := t.numcon + 1 }
  let idx := t.numsym
  let t := (t.push (.symmat nP s.G))
  let t := { t with numsym := t.numsym + 1 }
  let t := t.push (.putbaraij row 0 idx)
  let t := t.push (.putaijlist row s.F)
  t.push (.putconbound row (if isEq then .fx (-s.c) else .up (-s.c)))

/-- `send_lmi_constraint_to_solver`: the matrix variable index is the position of the LMI among the
semidefinite variables appended so far (`_nb_pep_SDPconstraints_in_mosek - 1`) -/
def mosekSendPsd (nP : Nat) (t : TaskSt) (m : PsdObj) (entries : List (List EObj)) : TaskSt := Id.run do
  if t.error.isSome then return t
  let mut t := t.push (.appendbarvars m.n)
  t := { t with bardims := t.bardims ++ [m.n] }
  let bar := t.bardims.length - 1
  let mut i := 0
  for r in entries do
    let mut j := 0
    for e in r do
      if t.error.isSome then return t
      let s := exprSparse e
      let row := t.numcon
      t := t.push .appendcons
      t := { t with numcon := t.numcon + 1 }
      let idx1 := t.numsym
      t := t.push (.symmat nP s.G)
      let idx2 := idx1 + 1
      t := t.push (.symmat m.n [⟨max i j, min i j, if i == j then -1 else -(1/2)⟩])
      t := { t with numsym := t.numsym + 2 }
      t := t.push (.putbaraij row 0 idx1)
      t := t.push (.putbaraij row bar idx2)
      t := t.push (.putaijlist row s.F)
      t := t.push (.putconbound row (.fx (-s.c)))
      j := j + 1
    i := i + 1
  return t

/-- everything `MosekWrapper` does between `set_main_variables` and `generate_problem` for the
collected model -/
def mosekEmit : M (Except String (List TaskCall)) := do
  let w ← get
  let mut t : TaskSt := {}
  t := t.push (.appendbarvars w.nP)
  t := { t with bardims := [w.nP] }
  t := t.push (.appendvars (w.nE + 1))
  for i in List.range w.nE do t := t.push (.putvarboundFree i)
  for s in w.sent do
    match s with
    | .cons h =>
      let c ← getC h
      t := mosekSendCons w.nP t (← getE c.e) c.isEq
    | .psd h =>
      let m ← getPsd h
      let mut ents : List (List EObj) := []
      for r in m.entries do
        let mut row : List EObj := []
        for eh in r do row := row ++ [← getE eh]
        ents := ents ++ [row]
      t := mosekSendPsd w.nP t m ents
  if let some err := t.error then return .error err
  match w.objective with
  | some o =>
    let s := exprSparse (← getE o)
    t := t.push (.putclist s.F)
    t := t.push .maximize
  | Option.none => pure ()
  pure (.ok t.calls)

/-- `MosekWrapper.heuristic(W)`: the objective matrix handed to MOSEK is the lower triangle of `W`
(`np.argwhere(np.tril(W))`, row-major, zero entries dropped, values `W[i, j]` unchanged — the symmetric
reading of the lower triangle by `appendsparsesymmat` accounts for the upper one) -/
def mosekHeuristic (W : List (List Coef)) : List Trip :=
  (List.range W.length).flatMap (fun i =>
    (List.range (i + 1)).filterMap (fun j =>
      let v := (W.getD i []).getD j 0
      if v == 0 then Option.none else some ⟨i, j, v⟩))

/-- the items as the cvxpy wrapper tracks them (for the routing theorem `recover_spec`) -/
def cvxItems : M (List Item) := do
  let w ← get
  let mut out : List Item := []
  for s in w.sent do
    match s with
    | .cons h => out := out ++ [.cons h]
    | .psd h => out := out ++ [.psd h (← getPsd h).n]
  pure out

end Pepit
