/-!
# Model of `CvxpyWrapper`: order of emitted solver constraints and `_recover_dual_values`
-/

/-- an item of `_list_of_constraints_sent_to_solver` -/
inductive Item where
  | cons (id : Nat)             -- a scalar `Constraint`
  | psd (id : Nat) (n : Nat)    -- a `PSDMatrix` of shape n × n
  deriving Repr, DecidableEq

/-- a constraint of the cvxpy problem -/
inductive SolverCon where
  | gram                          -- `G >> 0`
  | scalar (id : Nat)             -- `expr <= 0` / `expr == 0`
  | psdMain (id : Nat)            -- `M >> 0`
  | psdEntry (id : Nat) (i j : Nat)  -- `M[i, j] == expr_ij`
  deriving Repr, DecidableEq

/-- the `n²` entry equalities, row-major as in the double loop -/
def psdEntries (id n : Nat) : List SolverCon :=
  (List.range n).flatMap (fun i => (List.range n).map (fun j => SolverCon.psdEntry id i j))

/-- what `send_constraint_to_solver` / `send_lmi_constraint_to_solver` append to
`_list_of_solver_constraints` -/
def emitItem : Item → List SolverCon
  | .cons id => [.scalar id]
  | .psd id n => .psdMain id :: psdEntries id n

/-- `_list_of_solver_constraints` after `set_main_variables` and all sends -/
def emit (items : List Item) : List SolverCon := .gram :: items.flatMap emitItem

/-- the counter walk of `_recover_dual_values` (after the residual has been read at index 0):
`counter` is the index into the solver's dual list. -/
def recoverFrom {δ : Type} (duals : List δ) : Nat → List Item → Option (List δ)
  | _, [] => some []
  | counter, .cons _ :: rest => do
      let d ← duals[counter]?
      let ds ← recoverFrom duals (counter + 1) rest
      pure (d :: ds)
  | counter, .psd _ n :: rest => do
      let d ← duals[counter]?
      let ds ← recoverFrom duals (counter + 1 + n * n) rest
      pure (d :: ds)

/-- `_recover_dual_values`: residual first, then one dual per tracked item -/
def recover {δ : Type} (duals : List δ) (items : List Item) : Option (List δ) := do
  let r ← duals[0]?
  let ds ← recoverFrom duals 1 items
  pure (r :: ds)

/-- the solver constraint whose dual is the multiplier of the item -/
def mainOf : Item → SolverCon
  | .cons id => .scalar id
  | .psd id _ => .psdMain id
