import PepitModel.Algebra
/-!
# Arithmetic of `Function.add_point` on a composite function

`gradient_of_last_leaf_function = g − Σ_{i<n} wᵢ·gᵢ`, then `/ wₙ`; same for values.
-/

/-- the running remainder after subtracting `w * grad` for each visited term:
`gl = gl - weight * grad` -/
def remainderG (g : PDict) (terms : List (Coef × PDict)) : PDict :=
  terms.foldl (fun gl wg => PDict.sub gl (PDict.smul wg.1 wg.2)) g

def remainderV (v : EDict) (terms : List (Coef × EDict)) : EDict :=
  terms.foldl (fun fl wv => EDict.sub fl (EDict.smul wv.1 wv.2)) v

/-- what the last term receives: `remainder / weight` -/
def lastG (g : PDict) (terms : List (Coef × PDict)) (wn : Coef) : PDict := PDict.div (remainderG g terms) wn
def lastV (v : EDict) (terms : List (Coef × EDict)) (wn : Coef) : EDict := EDict.div (remainderV v terms) wn
