import PepitModel.Algebra
import PepitModel.Matrices
import PepitModel.Pairs
import PepitModel.Partition
import PepitModel.QForm
import PepitModel.GenClasses

/-!
# The world model: objects with identity, functions, class constraints, partitions, collection

Executable model of the stateful part of PEPit.  Objects live in heaps and are referred to by
handles (Python object identity); class-level counters are explicit fields.
-/

namespace Pepit

inductive ClassTag where
  | BlockSmoothConvexFunction | ConvexFunction | ConvexIndicatorFunction | ConvexLipschitzFunction
  | ConvexQGFunction | ConvexSupportFunction | RsiEbFunction | SmoothConvexFunction
  | SmoothConvexLipschitzFunction | SmoothFunction | SmoothStronglyConvexFunction
  | SmoothStronglyConvexQuadraticFunction | StronglyConvexFunction
  | CocoerciveOperator | CocoerciveStronglyMonotoneOperator | LinearOperator | LipschitzOperator
  | LipschitzStronglyMonotoneOperator | MonotoneOperator | NegativelyComonotoneOperator
  | NonexpansiveOperator | SkewSymmetricLinearOperator | StronglyMonotoneOperator
  | SymmetricLinearOperator
  | adjointStub      -- `LinearOperator.T`: a leaf `Function` whose `add_class_constraints` does nothing
  | none             -- composite functions
  deriving Repr, DecidableEq

def ClassTag.ofString : String → Option ClassTag
  | "BlockSmoothConvexFunction" => some .BlockSmoothConvexFunction
  | "ConvexFunction" => some .ConvexFunction
  | "ConvexIndicatorFunction" => some .ConvexIndicatorFunction
  | "ConvexLipschitzFunction" => some .ConvexLipschitzFunction
  | "ConvexQGFunction" => some .ConvexQGFunction
  | "ConvexSupportFunction" => some .ConvexSupportFunction
  | "RsiEbFunction" => some .RsiEbFunction
  | "SmoothConvexFunction" => some .SmoothConvexFunction
  | "SmoothConvexLipschitzFunction" => some .SmoothConvexLipschitzFunction
  | "SmoothFunction" => some .SmoothFunction
  | "SmoothStronglyConvexFunction" => some .SmoothStronglyConvexFunction
  | "SmoothStronglyConvexQuadraticFunction" => some .SmoothStronglyConvexQuadraticFunction
  | "StronglyConvexFunction" => some .StronglyConvexFunction
  | "CocoerciveOperator" => some .CocoerciveOperator
  | "CocoerciveStronglyMonotoneOperator" => some .CocoerciveStronglyMonotoneOperator
  | "LinearOperator" => some .LinearOperator
  | "LipschitzOperator" => some .LipschitzOperator
  | "LipschitzStronglyMonotoneOperator" => some .LipschitzStronglyMonotoneOperator
  | "MonotoneOperator" => some .MonotoneOperator
  | "NegativelyComonotoneOperator" => some .NegativelyComonotoneOperator
  | "NonexpansiveOperator" => some .NonexpansiveOperator
  | "SkewSymmetricLinearOperator" => some .SkewSymmetricLinearOperator
  | "StronglyMonotoneOperator" => some .StronglyMonotoneOperator
  | "SymmetricLinearOperator" => some .SymmetricLinearOperator
  | _ => Option.none

/-- `reuse_gradient` forced by the class constructor (`none`: the user's choice is kept) -/
def ClassTag.forcedReuse : ClassTag → Option Bool
  | .BlockSmoothConvexFunction | .SmoothConvexFunction | .SmoothConvexLipschitzFunction | .SmoothFunction
  | .SmoothStronglyConvexFunction | .SmoothStronglyConvexQuadraticFunction
  | .CocoerciveOperator | .CocoerciveStronglyMonotoneOperator | .LinearOperator | .LipschitzOperator
  | .LipschitzStronglyMonotoneOperator | .NonexpansiveOperator | .SkewSymmetricLinearOperator
  | .SymmetricLinearOperator => some true
  | _ => Option.none

structure PObj where
  leaf : Option Nat
  d : PDict
  name : Option String := Option.none
  deriving Repr

structure EObj where
  leaf : Option Nat
  d : EDict
  name : Option String := Option.none
  deriving Repr

structure ConsObj where
  e : Nat                -- handle of the expression compared to 0
  isEq : Bool
  name : Option String := Option.none
  deriving Repr

structure PsdObj where
  counter : Nat
  n : Nat
  entries : List (List Nat)   -- handles of the entry expressions
  name : Option String := Option.none
  deriving Repr

structure Triple where
  x : Nat
  g : Nat
  v : Nat
  uid : Nat := 0      -- identity of the Python tuple object (assigned when the triplet is recorded)
  deriving Repr, DecidableEq

def Triple.mk3 (x g v : Nat) : Triple := { x := x, g := g, v := v }
/-- Python tuple equality `point_i == point_j` on triplets: component-wise identity -/
def Triple.sameComponents (a b : Triple) : Bool := a.x == b.x && a.g == b.g && a.v == b.v

structure FunRec where
  leaf : Option Nat
  decomp : Dict Nat
  reuse : Bool
  cls : ClassTag := .none
  params : List Coef := []          -- finite parameters, in constructor order
  infParam : Bool := false          -- `D = inf` / `M = inf`
  name : Option String := Option.none
  pts : List Triple := []
  stat : List Triple := []
  cons : List Nat := []             -- list_of_constraints
  psd : List Nat := []              -- list_of_psd
  classCons : List Nat := []        -- list_of_class_constraints
  classPsd : List Nat := []         -- list_of_class_psd
  tables : List (String × List (List (Option Nat))) := []
  adjoint : Option Nat := Option.none     -- LinearOperator.T
  partition : Option Nat := Option.none   -- BlockSmoothConvexFunction.partition
  vPoint : Option Nat := Option.none      -- NonexpansiveOperator.v
  deriving Repr

structure PartRec where
  d : Nat
  blocks : List (Nat × List Nat) := []    -- blocks_dict, keyed by point handle (identity)
  cons : List Nat := []                   -- list_of_constraints (user constraints and generated ones)
  ortho : List Nat := []                  -- _list_of_orthogonality_constraints (generated at the latest call)
  deriving Repr

inductive Sent where
  | cons (h : Nat)
  | psd (h : Nat)
  deriving Repr, DecidableEq

structure World where
  pts : Array PObj := #[]
  exs : Array EObj := #[]
  cons : Array ConsObj := #[]
  psds : Array PsdObj := #[]
  funs : Array FunRec := #[]
  parts : Array PartRec := #[]
  nP : Nat := 0
  nE : Nat := 0
  nF : Nat := 0
  nC : Nat := 0
  nPsd : Nat := 0
  nPart : Nat := 0
  nTrip : Nat := 0        -- not a PEPit counter: serial numbers standing for tuple identity
  pepCons : List Nat := []
  pepPsd : List Nat := []
  pepMetrics : List Nat := []
  objective : Option Nat := Option.none
  sent : List Sent := []
  deriving Repr

inductive Err where
  | unsupported (msg : String) | divZero | badRef | assertion (msg : String) | typeError (msg : String)
  deriving Repr

abbrev M := StateT World (Except Err)

/-! ## heaps -/

def getP (h : Nat) : M PObj := do match (← get).pts[h]? with | some p => pure p | Option.none => throw .badRef
def getE (h : Nat) : M EObj := do match (← get).exs[h]? with | some p => pure p | Option.none => throw .badRef
def getC (h : Nat) : M ConsObj := do match (← get).cons[h]? with | some p => pure p | Option.none => throw .badRef
def getPsd (h : Nat) : M PsdObj := do match (← get).psds[h]? with | some p => pure p | Option.none => throw .badRef
def getF (h : Nat) : M FunRec := do match (← get).funs[h]? with | some p => pure p | Option.none => throw .badRef
def getPart (h : Nat) : M PartRec := do match (← get).parts[h]? with | some p => pure p | Option.none => throw .badRef

def allocP (p : PObj) : M Nat := do let w ← get; set { w with pts := w.pts.push p }; pure w.pts.size
def allocE (e : EObj) : M Nat := do let w ← get; set { w with exs := w.exs.push e }; pure w.exs.size
def setF (h : Nat) (f : FunRec) : M Unit := modify fun w => { w with funs := w.funs.setIfInBounds h f }
def setPart (h : Nat) (p : PartRec) : M Unit := modify fun w => { w with parts := w.parts.setIfInBounds h p }

def newLeafP (name : Option String := Option.none) : M Nat := do
  let w ← get
  let c := w.nP
  set { w with nP := c + 1 }
  allocP { leaf := some c, d := [(c, 1)], name := name }

def newLeafE (name : Option String := Option.none) : M Nat := do
  let w ← get
  let c := w.nE
  set { w with nE := c + 1 }
  allocE { leaf := some c, d := [(EKey.f c, 1)], name := name }

def mkP (d : PDict) : M Nat := allocP { leaf := Option.none, d := d }
def mkE (d : EDict) : M Nat := allocE { leaf := Option.none, d := d }

/-- a new `Constraint` object -/
def mkCons (e : Nat) (isEq : Bool) (name : Option String := Option.none) : M Nat := do
  let w ← get
  set { w with cons := w.cons.push { e := e, isEq := isEq, name := name }, nC := w.nC + 1 }
  pure w.cons.size

def setConsName (h : Nat) (name : String) : M Unit := do
  let c ← getC h
  modify fun w => { w with cons := w.cons.setIfInBounds h { c with name := some name } }

/-- a new `PSDMatrix` object from a matrix of expression handles -/
def mkPsd (entries : List (List Nat)) (name : Option String := Option.none) : M Nat := do
  let w ← get
  set { w with psds := w.psds.push { counter := w.nPsd, n := entries.length, entries := entries, name := name },
               nPsd := w.nPsd + 1 }
  pure w.psds.size

/-! ## point / expression operators on handles -/

def ptAdd (a b : Nat) : M Nat := do mkP (PDict.add (← getP a).d (← getP b).d)
def ptSmul (c : Coef) (a : Nat) : M Nat := do mkP (PDict.smul c (← getP a).d)
def ptNeg (a : Nat) : M Nat := ptSmul (-1) a
def ptSub (a b : Nat) : M Nat := do mkP (PDict.sub (← getP a).d (← getP b).d)
def ptDiv (a : Nat) (c : Coef) : M Nat := do
  if c == 0 then throw .divZero
  mkP (PDict.div (← getP a).d c)
def ptIp (a b : Nat) : M Nat := do mkE (PDict.ip (← getP a).d (← getP b).d)

def exAdd (a b : Nat) : M Nat := do mkE (EDict.add (← getE a).d (← getE b).d)
def exAddConst (a : Nat) (c : Coef) : M Nat := do mkE (EDict.addConst (← getE a).d c)
def exSmul (c : Coef) (a : Nat) : M Nat := do mkE (EDict.smul c (← getE a).d)
def exNeg (a : Nat) : M Nat := exSmul (-1) a
def exSub (a b : Nat) : M Nat := do mkE (EDict.sub (← getE a).d (← getE b).d)
def exSubConst (a : Nat) (c : Coef) : M Nat := do mkE (EDict.subConst (← getE a).d c)
def exDiv (a : Nat) (c : Coef) : M Nat := do
  if c == 0 then throw .divZero
  mkE (EDict.div (← getE a).d c)

def consLe (a b : Nat) : M Nat := do let e ← exSub a b; mkCons e false
def consGe (a b : Nat) : M Nat := do
  let na ← exNeg a; let nb ← exNeg b; let e ← exSub na nb; mkCons e false
def consEq (a b : Nat) : M Nat := do let e ← exSub a b; mkCons e true
def consLeConst (a : Nat) (c : Coef) : M Nat := do let e ← exSubConst a c; mkCons e false
def consGeConst (a : Nat) (c : Coef) : M Nat := do
  let na ← exNeg a; let e ← exSubConst na (-c); mkCons e false
def consEqConst (a : Nat) (c : Coef) : M Nat := do let e ← exSubConst a c; mkCons e true

/-! ## functions -/

def newLeafF (cls : ClassTag) (params : List Coef) (infParam : Bool) (reuse : Bool)
    (name : Option String := Option.none) : M Nat := do
  let w ← get
  let h := w.funs.size
  let r := match cls.forcedReuse with | some b => b | Option.none => reuse
  set { w with nF := w.nF + 1,
               funs := w.funs.push { leaf := some w.nF, decomp := [(h, 1)], reuse := r, cls := cls,
                                     params := params, infParam := infParam, name := name } }
  pure h

/-- `LinearOperator.__init__`: the operator, then its adjoint stub `T` (a leaf whose counter is
given back: `Function.counter -= 1`, `T.counter = None`) -/
def newLinearOperator (params : List Coef) (name : Option String := Option.none) : M Nat := do
  let h ← newLeafF .LinearOperator params false true name
  let w ← get
  let t := w.funs.size
  set { w with funs := w.funs.push { leaf := Option.none, decomp := [(t, 1)], reuse := false, cls := .adjointStub } }
  let f ← getF h
  setF h { f with adjoint := some t }
  pure h

def fnAdd (a b : Nat) : M Nat := do
  let fa ← getF a; let fb ← getF b
  let w ← get
  set { w with funs := w.funs.push { leaf := Option.none, decomp := Dict.merge fa.decomp fb.decomp,
                                     reuse := fa.reuse && fb.reuse } }
  pure w.funs.size
def fnSmul (c : Coef) (a : Nat) : M Nat := do
  let fa ← getF a
  let w ← get
  set { w with funs := w.funs.push { leaf := Option.none, decomp := Dict.scale fa.decomp c, reuse := fa.reuse } }
  pure w.funs.size

/-- is this function a leaf in the sense of `get_is_leaf()` (the adjoint stub is one) -/
def FunRec.isLeaf (f : FunRec) : Bool := f.leaf.isSome || f.cls == .adjointStub

/-- `_is_already_evaluated_on_point`: first triplet whose point dictionary equals the incoming one -/
def isEvaluated (f : Nat) (x : Nat) : M (Option Triple) := do
  let fr ← getF f; let px ← getP x
  let w ← get
  -- stored points were pruned when added; the incoming dictionary is pruned before comparing
  let pruned := Dict.prune px.d
  pure <| fr.pts.find? (fun t => match w.pts[t.x]? with
    | some q => Dict.eqv q.d pruned
    | Option.none => false)

def separate (f : Nat) (x : Nat) : M (List (Nat × Coef) × List (Nat × Coef) × List (Nat × Coef)) := do
  let fr ← getF f
  let mut n0 := []; let mut n1 := []; let mut n2 := []
  for (t, w) in fr.decomp do
    let tr ← getF t
    match ← isEvaluated t x with
    | some _ => if tr.reuse then n0 := n0 ++ [(t, w)] else n1 := n1 ++ [(t, w)]
    | Option.none => n2 := n2 ++ [(t, w)]
  pure (n0, n1, n2)

def pruneInPlace (t : Triple) : M Unit := do
  let w ← get
  let px ← getP t.x; let pg ← getP t.g; let ev ← getE t.v
  let pts := w.pts.setIfInBounds t.x { px with d := Dict.prune px.d }
  let pg' := if t.g == t.x then { px with d := Dict.prune px.d } else { pg with d := Dict.prune pg.d }
  let pts := pts.setIfInBounds t.g pg'
  set { w with pts := pts, exs := w.exs.setIfInBounds t.v { ev with d := Dict.prune ev.d } }

def recordTriple (f : Nat) (t : Triple) : M Unit := do
  let w ← get
  let t := { t with uid := w.nTrip }
  set { w with nTrip := w.nTrip + 1 }
  pruneInPlace t
  let pg ← getP t.g
  let fr ← getF f
  let fr := { fr with pts := fr.pts ++ [t] }
  let fr := if pg.d.isEmpty then { fr with stat := fr.stat ++ [t] } else fr
  setF f fr

def oracleLeaf (f : Nat) (x : Nat) : M (Nat × Nat) := do
  let fr ← getF f
  match ← isEvaluated f x with
  | some t =>
    if fr.reuse then pure (t.g, t.v)
    else do
      let g ← newLeafP
      recordTriple f (Triple.mk3 x g t.v)
      pure (g, t.v)
  | Option.none => do
    let v ← newLeafE
    let g ← newLeafP
    recordTriple f (Triple.mk3 x g v)
    pure (g, v)

def valueLeaf (f : Nat) (x : Nat) : M Nat := do
  match ← isEvaluated f x with
  | some t => pure t.v
  | Option.none => do let (_, v) ← oracleLeaf f x; pure v

def addPoint (f : Nat) (t : Triple) : M Unit := do
  recordTriple f t
  let fr ← getF f
  if !fr.isLeaf then
    let fr := { fr with decomp := Dict.prune fr.decomp }
    setF f fr
    let (n0, n1, n2) ← separate f t.x
    let needSome := n1 ++ n2
    if !needSome.isEmpty then
      let total := fr.decomp.length
      let mut gl := t.g
      let mut fl := t.v
      let mut cnt := 0
      for (fn, w) in n0 ++ needSome do
        unless (← getF fn).isLeaf do throw (.unsupported "non-leaf term")
        if cnt < total - 1 then
          let (grad, val) ← oracleLeaf fn t.x
          let wg ← ptSmul w grad
          gl ← ptSub gl wg
          let wv ← exSmul w val
          fl ← exSub fl wv
          cnt := cnt + 1
        else
          gl ← ptDiv gl w
          fl ← exDiv fl w
          recordTriple fn (Triple.mk3 t.x gl fl)

def oracle (f : Nat) (x : Nat) : M (Nat × Nat) := do
  let fr ← getF f
  if fr.isLeaf then return ← oracleLeaf f x
  -- zero / cancelling weights are removed before anything is classified
  let fr := { fr with decomp := Dict.prune fr.decomp }
  setF f fr
  let assoc ← isEvaluated f x
  if let some t := assoc then
    if fr.reuse then return (t.g, t.v)
  let (_, n1, n2) ← separate f x
  let v ← match assoc with
    | some t => pure t.v
    | Option.none =>
      if n2.isEmpty then do
        let mut acc ← mkE []
        for (fn, w) in fr.decomp do
          unless (← getF fn).isLeaf do throw (.unsupported "non-leaf term")
          let fv ← valueLeaf fn x
          let wv ← exSmul w fv
          acc ← exAdd acc wv
        pure acc
      else newLeafE
  let g ← if n2.isEmpty && n1.isEmpty then do
      let mut acc ← mkP []
      for (fn, w) in fr.decomp do
        unless (← getF fn).isLeaf do throw (.unsupported "non-leaf term")
        let (gg, _) ← oracleLeaf fn x
        let wg ← ptSmul w gg
        acc ← ptAdd acc wg
      pure acc
    else newLeafP
  addPoint f (Triple.mk3 x g v)
  pure (g, v)

def value (f : Nat) (x : Nat) : M Nat := do
  match ← isEvaluated f x with
  | some t => pure t.v
  | Option.none => do let (_, v) ← oracle f x; pure v

def stationaryPoint (f : Nat) : M (Nat × Nat × Nat) := do
  let fr ← getF f
  -- the quadratic class overrides `stationary_point`: it returns its unique stationary sample
  if fr.cls == .SmoothStronglyConvexQuadraticFunction then
    match fr.stat.head? with
    | some t => return (t.x, t.g, t.v)
    | Option.none => pure ()
  let x ← newLeafP
  let g ← mkP []
  let v ← newLeafE
  addPoint f (Triple.mk3 x g v)
  pure (x, g, v)

def fixedPoint (f : Nat) : M (Nat × Nat) := do
  let x ← newLeafP
  let v ← newLeafE
  addPoint f (Triple.mk3 x x v)
  pure (x, v)

/-- `declare_function`: the quadratic class creates its stationary point in the constructor -/
def declareFunction (cls : ClassTag) (params : List Coef) (infParam reuse : Bool)
    (name : Option String := Option.none) : M Nat := do
  if cls == .LinearOperator then return ← newLinearOperator params name
  let h ← newLeafF cls params infParam reuse name
  if cls == .SmoothStronglyConvexQuadraticFunction then
    let x ← newLeafP
    let g ← mkP []
    let v ← newLeafE
    addPoint h (Triple.mk3 x g v)
  pure h

/-! ## block partitions -/

def declarePartition (d : Nat) : M Nat := do
  if d == 0 then throw (.assertion "d >= 1")
  let w ← get
  set { w with parts := w.parts.push { d := d }, nPart := w.nPart + 1 }
  pure w.parts.size

/-- `get_block(point, k)` -/
def getBlock (p : Nat) (x : Nat) (k : Nat) : M Nat := do
  let pr ← getPart p
  if k ≥ pr.d then throw (.assertion "block number")
  match pr.blocks.lookup x with
  | some bl => match bl[k]? with | some b => pure b | Option.none => throw .badRef
  | Option.none => do
    let mut fresh : List Nat := []
    let mut acc ← mkP []        -- null_point
    for _ in List.range (pr.d - 1) do
      let np ← newLeafP
      acc ← ptAdd acc np
      fresh := fresh ++ [np]
    let last ← ptSub x acc
    let bl := fresh ++ [last]
    let pr ← getPart p
    setPart p { pr with blocks := pr.blocks ++ [(x, bl)] }
    match bl[k]? with | some b => pure b | Option.none => throw .badRef

/-- `add_partition_constraints`: the constraints generated by the previous call are removed, then all
orthogonality relations are generated again -/
def addPartitionConstraints (p : Nat) : M Unit := do
  let pr ← getPart p
  let vals := pr.blocks.map (·.2)
  let mut cs := partKeep pr.cons pr.ortho
  let mut gen : List Nat := []
  for xi in vals do
    for xj in vals do
      for k in List.range pr.d do
        for l in List.range k do
          match xi[k]?, xj[l]? with
          | some a, some b =>
            let e ← ptIp a b
            let c ← consEqConst e 0
            cs := cs ++ [c]
            gen := gen ++ [c]
          | _, _ => throw .badRef
  let pr ← getPart p
  setPart p { pr with cons := cs, ortho := gen }

/-! ## class constraints -/

/-- instantiate a symbolic condition on concrete decompositions -/
def QForm.inst (pv : PSym → PDict) (fv : FSym → EDict) (q : QForm) : EDict :=
  q.foldl (fun acc kc =>
    let term : EDict := match kc.1 with
      | .f s => fv s
      | .ip a b => PDict.ip (pv a) (pv b)
      | .one => [(EKey.one, 1)]
    EDict.add acc (EDict.smul kc.2 term)) []

structure Sample where
  x : PDict
  g : PDict
  v : EDict

def zeroSample : Sample := ⟨[], [], []⟩

def derefTriple (t : Triple) : M Sample := do
  pure ⟨(← getP t.x).d, (← getP t.g).d, (← getE t.v).d⟩

def symPv (si sj ss : Sample) (v gik gjk : PDict) : PSym → PDict
  | .xi => si.x | .gi => si.g | .xj => sj.x | .gj => sj.g | .xs => ss.x | .v => v | .gik => gik | .gjk => gjk
def symFv (si sj ss : Sample) : FSym → EDict
  | .fi => si.v | .fj => sj.v | .fs => ss.v

def funId (fr : FunRec) : String :=
  match fr.name with
  | some n => n
  | Option.none => match fr.leaf with
    | some c => s!"Function_{c}"
    | Option.none => "Function_None"

def pointId (p : PObj) (i : Nat) : String := match p.name with | some n => n | Option.none => s!"Point_{i}"

def selList (fr : FunRec) (adj : List Triple) : Gen.ListSel → List Triple
  | .all => fr.pts
  | .stationary => fr.stat
  | .adjoint => adj

/-- one generic condition of a class through the one-list / two-list enumerators -/
def runCond (f : Nat) (spec : Gen.CondSpec) : M Unit := do
  let fr ← getF f
  let fid := funId fr
  let ss ← match fr.stat.head? with | some t => derefTriple t | Option.none => pure zeroSample
  let vd ← match fr.vPoint with | some h => do pure (← getP h).d | Option.none => pure []
  let q := spec.form fr.params
  let adj ← match fr.adjoint with | some t => do pure (← getF t).pts | Option.none => pure []
  let l1 := selList fr adj spec.l1
  if !spec.two then
    let mut row : List (Option Nat) := []
    let mut i := 0
    for t in l1 do
      let si ← derefTriple t
      let e ← mkE (QForm.inst (symPv si zeroSample ss vd [] []) (symFv si zeroSample ss) q)
      let xi ← getP t.x
      let c ← mkCons e spec.isEq (some s!"IC_{fid}_{spec.name}({pointId xi i})")
      row := row ++ [some c]
      let fr ← getF f
      setF f { fr with classCons := fr.classCons ++ [c] }
      i := i + 1
    -- `np.array(row).reshape(1, -1)` has shape (1, 0) ≠ (0,) even for an empty list: always stored
    let fr ← getF f
    setF f { fr with tables := (fr.tables.filter (·.1 ≠ spec.name)) ++ [(spec.name, [row])] }
  else
    let l2 := selList fr adj spec.l2
    let mut table : List (List (Option Nat)) := []
    let mut i := 0
    for ti in l1 do
      let si ← derefTriple ti
      let xi ← getP ti.x
      let mut row : List (Option Nat) := []
      let mut j := 0
      for tj in l2 do
        if skipTwo (ti.uid == tj.uid) spec.symmetry i j then
          row := row ++ [Option.none]
        else
          let sj ← derefTriple tj
          let xj ← getP tj.x
          let e ← mkE (QForm.inst (symPv si sj ss vd [] []) (symFv si sj ss) q)
          let c ← mkCons e spec.isEq (some s!"IC_{fid}_{spec.name}({pointId xi i}, {pointId xj j})")
          row := row ++ [some c]
          let fr ← getF f
          setF f { fr with classCons := fr.classCons ++ [c] }
        j := j + 1
      table := table ++ [row]
      i := i + 1
    if !l1.isEmpty then
      let fr ← getF f
      setF f { fr with tables := (fr.tables.filter (·.1 ≠ spec.name)) ++ [(spec.name, table)] }

/-- an LMI whose entry `(i, j)` is the instantiation of `q` on samples `i`, `j` of `l` -/
def lmiOver (f : Nat) (l : List Triple) (q : QForm) : M Unit := do
  let fr ← getF f
  let ss ← match fr.stat.head? with | some t => derefTriple t | Option.none => pure zeroSample
  let mut rows : List (List Nat) := []
  for ti in l do
    let si ← derefTriple ti
    let mut row : List Nat := []
    for tj in l do
      let sj ← derefTriple tj
      let e ← mkE (QForm.inst (symPv si sj ss [] [] []) (symFv si sj ss) q)
      row := row ++ [e]
    rows := rows ++ [row]
  let m ← mkPsd rows
  let fr ← getF f
  setF f { fr with classPsd := fr.classPsd ++ [m] }

def glueOf (fr : FunRec) : List Gen.CondSpec :=
  match fr.cls with
  | .ConvexFunction => Gen.ConvexFunction.glue
  | .ConvexIndicatorFunction => if fr.infParam then Gen.ConvexIndicatorFunction.glue_inf else Gen.ConvexIndicatorFunction.glue
  | .ConvexLipschitzFunction => Gen.ConvexLipschitzFunction.glue
  | .ConvexQGFunction => Gen.ConvexQGFunction.glue
  | .ConvexSupportFunction => if fr.infParam then Gen.ConvexSupportFunction.glue_inf else Gen.ConvexSupportFunction.glue
  | .RsiEbFunction => Gen.RsiEbFunction.glue
  | .SmoothConvexFunction => Gen.SmoothConvexFunction.glue
  | .SmoothConvexLipschitzFunction => Gen.SmoothConvexLipschitzFunction.glue
  | .SmoothFunction => Gen.SmoothFunction.glue
  | .SmoothStronglyConvexFunction => Gen.SmoothStronglyConvexFunction.glue
  | .SmoothStronglyConvexQuadraticFunction => Gen.SmoothStronglyConvexQuadraticFunction.glue
  | .StronglyConvexFunction => Gen.StronglyConvexFunction.glue
  | .CocoerciveOperator => Gen.CocoerciveOperator.glue
  | .CocoerciveStronglyMonotoneOperator => Gen.CocoerciveStronglyMonotoneOperator.glue
  | .LipschitzOperator => Gen.LipschitzOperator.glue
  | .LipschitzStronglyMonotoneOperator => Gen.LipschitzStronglyMonotoneOperator.glue
  | .MonotoneOperator => Gen.MonotoneOperator.glue
  | .NegativelyComonotoneOperator => Gen.NegativelyComonotoneOperator.glue
  | .NonexpansiveOperator =>
      if fr.vPoint.isSome then Gen.NonexpansiveOperator.glue
      else Gen.NonexpansiveOperator.glue.filter (·.name ≠ "infimal_displacement_vector")
  | .SkewSymmetricLinearOperator => Gen.SkewSymmetricLinearOperator.glue
  | .StronglyMonotoneOperator => Gen.StronglyMonotoneOperator.glue
  | .SymmetricLinearOperator => Gen.SymmetricLinearOperator.glue
  | _ => []

/-- `set_class_constraints`: resets `list_of_class_constraints` and `list_of_class_psd` and runs
`add_class_constraints` of the class -/
def setClassConstraints (f : Nat) : M Unit := do
  let fr ← getF f
  let fr := { fr with classCons := [], classPsd := [] }
  setF f fr
  match fr.cls with
  | .adjointStub | .none => pure ()
  | .ConvexQGFunction | .RsiEbFunction =>
    if fr.stat.isEmpty then let _ ← stationaryPoint f
    for spec in glueOf fr do runCond f spec
  | .SmoothStronglyConvexQuadraticFunction =>
    for spec in glueOf fr do runCond f spec
    let fr ← getF f
    lmiOver f fr.pts (Gen.SmoothStronglyConvexQuadraticFunction.lmi0_entry (fr.params.getD 0 0) (fr.params.getD 1 0))
  | .SymmetricLinearOperator =>
    for spec in glueOf fr do runCond f spec
    let fr ← getF f
    lmiOver f fr.pts (Gen.SymmetricLinearOperator.lmi0_entry (fr.params.getD 0 0) (fr.params.getD 1 0))
  | .SkewSymmetricLinearOperator =>
    for spec in glueOf fr do runCond f spec
    let fr ← getF f
    lmiOver f fr.pts (Gen.SkewSymmetricLinearOperator.lmi0_entry (fr.params.getD 0 0))
  | .LinearOperator =>
    let L := fr.params.getD 0 0
    let tpts ← match fr.adjoint with | some t => do pure (← getF t).pts | Option.none => pure []
    -- adjoint consistency through the generic two-list enumerator (named, with a table), then the two LMIs
    for spec in Gen.LinearOperator.glue do runCond f spec
    lmiOver f fr.pts (Gen.LinearOperator.lmi0_entry L)
    lmiOver f tpts (Gen.LinearOperator.lmi0_entry L)
  | .BlockSmoothConvexFunction =>
    -- hand-written double loop of the class; one table per block (rows = samples, `0` on the diagonal)
    let some part := fr.partition | throw (.unsupported "partition")
    let d := (← getPart part).d
    let fid := funId fr
    let mut tabs : List (List (List (Option Nat))) := List.replicate d []      -- per block: list of rows
    let mut i := 0
    for ti in fr.pts do
      let mut rows : List (List (Option Nat)) := List.replicate d []           -- per block: the row of sample i
      let mut j := 0
      for tj in fr.pts do
        if ti.sameComponents tj then
          rows := rows.map (· ++ [Option.none])
        else
          let mut newRows : List (List (Option Nat)) := []
          for k in List.range d do
            let gik ← getBlock part ti.g k
            let gjk ← getBlock part tj.g k
            let si ← derefTriple ti
            let sj ← derefTriple tj
            let Lk := fr.params.getD k 0
            let q := Gen.BlockSmoothConvexFunction.smoothness_convexity_block Lk 0
            let e ← mkE (QForm.inst (symPv si sj zeroSample [] (← getP gik).d (← getP gjk).d) (symFv si sj zeroSample) q)
            let xi ← getP ti.x; let xj ← getP tj.x
            let c ← mkCons e false (some s!"IC_{fid}_smoothness_convexity_block_{k}({pointId xi i}, {pointId xj j})")
            let fr ← getF f
            setF f { fr with classCons := fr.classCons ++ [c] }
            newRows := newRows ++ [(rows.getD k []) ++ [some c]]
          rows := newRows
        j := j + 1
      tabs := (List.range d).map (fun k => (tabs.getD k []) ++ [rows.getD k []])
      i := i + 1
    let fr ← getF f
    -- `np.array([]).shape == (0,)`: no table is stored for a function without samples
    if !fr.pts.isEmpty then
      let named := (List.range d).map (fun k => (s!"smoothness_convexity_block_{k}", tabs.getD k []))
      setF f { fr with tables := (fr.tables.filter (fun t => !(named.map (·.1)).contains t.1)) ++ named }
  | _ =>
    for spec in glueOf fr do runCond f spec

/-! ## collection (`_solve_with_wrapper` up to the solver call) -/

/-- what one function contributes to the solver input: its class constraints and class LMIs if it is a
leaf, then (for every function) nothing else at this stage -/
structure FunSent where
  classCons : List Nat
  classPsd : List Nat
  cons : List Nat
  psd : List Nat
  isLeaf : Bool
  deriving Repr

/-- **the order in which `_solve_with_wrapper` sends items** as a pure function of the declared lists:
metrics (as `objective <= metric` constraints `mcons`), problem constraints, problem LMIs, then per leaf
function its class constraints and class LMIs, then per function with own constraints or LMIs those
constraints and LMIs, then the constraints of every partition -/
def sendOrder (mcons pepCons pepPsd : List Nat) (funs : List FunSent) (partCons : List (List Nat)) : List Sent :=
  mcons.map Sent.cons ++ pepCons.map Sent.cons ++ pepPsd.map Sent.psd
    ++ (funs.filter (·.isLeaf)).flatMap (fun f => f.classCons.map Sent.cons ++ f.classPsd.map Sent.psd)
    ++ (funs.filter (fun f => !f.cons.isEmpty || !f.psd.isEmpty)).flatMap (fun f => f.cons.map Sent.cons ++ f.psd.map Sent.psd)
    ++ partCons.flatMap (·.map Sent.cons)

def collect : M Unit := do
  -- the objective leaf is created at the first solve and reused afterwards
  let obj ← match (← get).objective with
    | some o => pure o
    | Option.none => newLeafE
  modify fun w => { w with objective := some obj }
  let w ← get
  let leafFuns := (List.range w.funs.size).filter (fun h => match w.funs[h]? with | some f => f.isLeaf | Option.none => false)
  let withCons := (List.range w.funs.size).filter (fun h => match w.funs[h]? with
    | some f => !f.cons.isEmpty || !f.psd.isEmpty | Option.none => false)
  for f in leafFuns do setClassConstraints f
  let w ← get
  for p in List.range w.parts.size do addPartitionConstraints p
  let w ← get
  let mut mcons : List Nat := []
  for m in w.pepMetrics do
    let c ← consLe obj m
    mcons := mcons ++ [c]
  let w ← get
  -- `leafFuns` / `withCons` were computed before the class constraints were generated (as in the source);
  -- generation never changes leafness nor the own lists, so the flags are those of the current records
  let funs : List FunSent := (List.range w.funs.size).filterMap (fun h => match w.funs[h]? with
    | some f => some { classCons := f.classCons, classPsd := f.classPsd, cons := f.cons, psd := f.psd,
                       isLeaf := leafFuns.contains h }
    | Option.none => Option.none)
  let funs := funs.zipIdx.map (fun fi =>
    if withCons.contains fi.2 then fi.1 else { fi.1 with cons := [], psd := [] })
  let partCons := w.parts.toList.map (·.cons)
  modify fun w => { w with sent := sendOrder mcons w.pepCons w.pepPsd funs partCons }

end Pepit
