import PepitModel.Dict
/-!
# Model of the operator overloads of `Point` and `Expression`

Value-level (the heap/identity layer lives in `World`).  Each definition is the literal
composition of dictionary operations the overload performs.
-/

/-- keys of an `Expression` decomposition: a leaf function value, an inner product of two
leaf points, or the constant `1`. -/
inductive EKey where
  | f (i : Nat)
  | ip (i j : Nat)
  | one
  deriving DecidableEq, Repr

abbrev PDict := Dict Nat
abbrev EDict := Dict EKey

namespace PDict
/-- `Point.__add__` : merge then prune -/
def add (a b : PDict) : PDict := Dict.prune (Dict.merge a b)
/-- `Point.__rmul__` with a scalar (no pruning) -/
def smul (c : Coef) (a : PDict) : PDict := Dict.scale a c
/-- `Point.__neg__` -/
def neg (a : PDict) : PDict := smul (-1) a
/-- `Point.__sub__` : `self + (-other)` -/
def sub (a b : PDict) : PDict := add a (neg b)
/-- `Point.__truediv__` : `self * (1 / c)`; the caller guards `c ≠ 0` (ZeroDivisionError) -/
def div (a : PDict) (c : Coef) : PDict := smul (1 / c) a
/-- `Point.__rmul__` with a point : `multiply_dicts`, keys become inner-product keys -/
def ip (a b : PDict) : EDict := (Dict.multiply a b).map (fun kc => (EKey.ip kc.1.1 kc.1.2, kc.2))
/-- `Point.__pow__(2)` -/
def sq (a : PDict) : EDict := ip a a
end PDict

namespace EDict
def add (a b : EDict) : EDict := Dict.prune (Dict.merge a b)
/-- `Expression.__add__` with a python scalar: merge with `{1: c}` -/
def addConst (a : EDict) (c : Coef) : EDict := Dict.prune (Dict.merge a [(EKey.one, c)])
def smul (c : Coef) (a : EDict) : EDict := Dict.scale a c
def neg (a : EDict) : EDict := smul (-1) a
def sub (a b : EDict) : EDict := add a (neg b)
/-- `e - c` : `e + (-c)` -/
def subConst (a : EDict) (c : Coef) : EDict := addConst a (-c)
/-- `c - e` : `-(e - c)` -/
def rsubConst (c : Coef) (a : EDict) : EDict := neg (subConst a c)
def div (a : EDict) (c : Coef) : EDict := smul (1 / c) a
end EDict

/-- `Constraint`: `expr ≤ 0` or `expr = 0` -/
structure ConsD where
  e : EDict
  isEq : Bool
  deriving Repr

namespace ConsD
/-- `a <= b` -/
def le (a b : EDict) : ConsD := ⟨EDict.sub a b, false⟩
/-- `a >= b` is `-a <= -b` -/
def ge (a b : EDict) : ConsD := le (EDict.neg a) (EDict.neg b)
/-- `a == b` -/
def eq (a b : EDict) : ConsD := ⟨EDict.sub a b, true⟩
def leConst (a : EDict) (c : Coef) : ConsD := ⟨EDict.subConst a c, false⟩
/-- `a >= c` is `-a <= -c` -/
def geConst (a : EDict) (c : Coef) : ConsD := leConst (EDict.neg a) (-c)
def eqConst (a : EDict) (c : Coef) : ConsD := ⟨EDict.subConst a c, true⟩
end ConsD

/-! ## `symmetrize_dict` and the last lines of `PEP.check_feasibility` -/

/-- reversed tuple key (`key[::-1]`); other keys unchanged -/
def EKey.swap : EKey → EKey
  | .ip i j => .ip j i
  | k => k

/-- `symmetrize_dict`: merge with the key-reversed dictionary, then halve every value -/
def EDict.symmetrize (d : EDict) : EDict :=
  Dict.scale (Dict.merge d (d.map (fun kc => (kc.1.swap, kc.2)))) (1 / 2)

def Coef.absv (c : Coef) : Coef := if c < 0 then -c else c

/-- the end of `check_feasibility`: `d = prune(symmetrize(objective − combination))`; the returned dual
value is `d[1]` (0 if absent), `remaining_terms` is the sum of the absolute values of the other entries -/
def EDict.finishReconstruction (ident : EDict) : Coef × Coef :=
  let d := Dict.prune (EDict.symmetrize ident)
  ((d.get? EKey.one).getD 0, (d.filter (fun kc => kc.1 != EKey.one)).foldl (fun a kc => a + Coef.absv kc.2) 0)

/-- what the source actually prints as `remaining_terms`: the comprehension filters with `key != 1`, and
for a leaf `Expression` key Python evaluates `not (key == 1)` where `Expression.__eq__` returns a (truthy)
`Constraint` — so function-value entries are silently left out and only inner-product entries are summed -/
def EDict.remainingAsPrinted (ident : EDict) : Coef :=
  let d := Dict.prune (EDict.symmetrize ident)
  (d.filter (fun kc => match kc.1 with | .ip _ _ => true | _ => false)).foldl (fun a kc => a + Coef.absv kc.2) 0
