import PepitModel.Cvx
/-!
# Model of `MosekWrapper._recover_dual_values` and of the row bookkeeping it relies on
-/

/-- rows of the MOSEK task appended when an item is sent: one per scalar constraint, `n²` entry
equalities per LMI -/
def rowsOf : Item → Nat
  | .cons _ => 1
  | .psd _ n => n * n

/-- `_constraint_index_in_mosek`: `getnumcon()` at emission of each *tracked scalar* constraint,
when the first item is emitted at row `r` -/
def consRows : Nat → List Item → List Nat
  | _, [] => []
  | r, .cons _ :: rest => r :: consRows (r + 1) rest
  | r, .psd _ n :: rest => consRows (r + n * n) rest

/-- the walk of `MosekWrapper._recover_dual_values` after the residual: `cs` = `counter_scalar`
(index into `_constraint_index_in_mosek`), `cp` = `counter_psd` (index of the matrix variable) -/
def mrecoverFrom {δ : Type} (y : Nat → Option δ) (bars : Nat → Option δ) (idx : List Nat) :
    Nat → Nat → List Item → Option (List δ)
  | _, _, [] => some []
  | cs, cp, .cons _ :: rest => do
      let r ← idx[cs]?
      let d ← y r
      let ds ← mrecoverFrom y bars idx (cs + 1) cp rest
      pure (d :: ds)
  | cs, cp, .psd _ _ :: rest => do
      let d ← bars cp
      let ds ← mrecoverFrom y bars idx cs (cp + 1) rest
      pure (d :: ds)

/-- what each item should receive: the dual of its own row (scalar constraints) or of its own
matrix variable (LMIs; variable 0 is the Gram matrix), when the first item sits at row `r` and the
next matrix variable is `cp` -/
def mspec {δ : Type} (y : Nat → δ) (bars : Nat → δ) : Nat → Nat → List Item → List δ
  | _, _, [] => []
  | r, cp, .cons _ :: rest => y r :: mspec y bars (r + 1) cp rest
  | r, cp, .psd _ n :: rest => bars cp :: mspec y bars (r + n * n) (cp + 1) rest
