import PepitVerif.Math.MatricesSem
import Mathlib.Data.Finset.Insert
import Mathlib.Data.Finset.Dedup
import Mathlib.Algebra.BigOperators.Group.List.Basic

/-!
# `expression_to_sparse_matrices` denotes the expression (property C05 / C11, sparse part)

MOSEK reads a symmetric matrix from its lower triangle: a triplet `(i, j, v)` with `i > j`
contributes `v * (G i j + G j i)`, a diagonal triplet `v * G i i`.
-/

open Finset

/-- value of the symmetric pairing of index pair `(i, j)` read from the lower triangle -/
def symv (G : Nat → Nat → ℝ) (i j : Nat) : ℝ := if i = j then G i i else G i j + G j i

noncomputable def tripVal (G : Nat → Nat → ℝ) (t : Trip) : ℝ := ((t.val : ℚ) : ℝ) * symv G t.i t.j

/-- `⟨A, G⟩ + a·F + α` for the sparse output -/
noncomputable def evalSparse (G : Nat → Nat → ℝ) (F : Nat → ℝ) (S : SparseW) : ℝ :=
  (S.G.map (tripVal G)).sum + (S.F.map (fun ic => ((ic.2 : ℚ) : ℝ) * F ic.1)).sum + ((S.c : ℚ) : ℝ)

/-- coefficient of a key (0 if absent) -/
def coefOf (e : EDict) (k : EKey) : Coef := (e.get? k).getD 0

/-- what one loop iteration adds to the value of the sparse output -/
noncomputable def contrib (e : EDict) (G : Nat → Nat → ℝ) (F : Nat → ℝ) : EKey → Coef → ℝ
  | .f i, w => ((w : ℚ) : ℝ) * F i
  | .one, w => ((w : ℚ) : ℝ)
  | .ip i j, w =>
    if e.contains (.ip j i) then
      if i ≥ j then (((w + coefOf e (.ip j i)) / 2 : ℚ) : ℝ) * symv G i j else 0
    else (((w + 0) / 2 : ℚ) : ℝ) * symv G (max i j) (min i j)

theorem evalSparse_step (e : EDict) (G : Nat → Nat → ℝ) (F : Nat → ℝ) (acc : SparseW) (k : EKey) (w : Coef)
    (hc : k = .one → acc.c = 0) :
    evalSparse G F (sparseStep e acc (k, w)) = evalSparse G F acc + contrib e G F k w := by
  cases k with
  | f i => simp [sparseStep, evalSparse, contrib]; ring
  | one => simp [sparseStep, evalSparse, contrib, hc rfl]
  | ip i j =>
    simp only [sparseStep, contrib, coefOf]
    by_cases h1 : e.contains (.ip j i) = true
    · rw [if_pos h1, if_pos h1]
      by_cases h2 : i ≥ j
      · rw [if_pos h2, if_pos h2]; simp [evalSparse, tripVal]; ring
      · rw [if_neg h2, if_neg h2]; simp
    · rw [if_neg h1, if_neg h1]; simp [evalSparse, tripVal]; ring

theorem evalSparse_foldl (e : EDict) (G : Nat → Nat → ℝ) (F : Nat → ℝ) :
    ∀ (l : EDict) (acc : SparseW), (Dict.keys l).Nodup → (EKey.one ∈ Dict.keys l → acc.c = 0) →
      evalSparse G F (l.foldl (sparseStep e) acc)
        = evalSparse G F acc + (l.map (fun kc => contrib e G F kc.1 kc.2)).sum := by
  intro l
  induction l with
  | nil => intro acc _ _; simp
  | cons hd t ih =>
    obtain ⟨k, w⟩ := hd
    intro acc hnd hone
    rw [Dict.keys_cons, List.nodup_cons] at hnd
    simp only [List.foldl_cons, List.map_cons, List.sum_cons]
    rw [ih _ hnd.2, evalSparse_step e G F acc k w]
    · ring
    · intro hk; exact hone (by rw [Dict.keys_cons, hk]; exact List.mem_cons_self)
    · intro h1
      -- after this step the constant is still 0: `one` is in the tail, hence `k ≠ one`
      have hk : k ≠ .one := fun e' => hnd.1 (e' ▸ h1)
      have hacc : acc.c = 0 := hone (by rw [Dict.keys_cons]; exact List.mem_cons_of_mem _ h1)
      cases k with
      | f i => simpa [sparseStep] using hacc
      | one => exact absurd rfl hk
      | ip i j =>
        simp only [sparseStep]
        split_ifs <;> simpa using hacc

/-- list sum over a duplicate-free dictionary as a finset sum over its keys -/
theorem sum_eq_sum_keys (e : EDict) (hnd : (Dict.keys e).Nodup) (h : EKey → Coef → ℝ) :
    (e.map (fun kc => h kc.1 kc.2)).sum = ∑ k ∈ (Dict.keys e).toFinset, h k (coefOf e k) := by
  induction e with
  | nil => simp [Dict.keys]
  | cons hd t ih =>
    obtain ⟨k, w⟩ := hd
    rw [Dict.keys_cons, List.nodup_cons] at hnd
    rw [Dict.keys_cons, List.toFinset_cons, Finset.sum_insert (by simpa using hnd.1)]
    simp only [List.map_cons, List.sum_cons]
    rw [ih hnd.2]
    congr 1
    · simp [coefOf, Dict.get?, List.lookup]
    · apply Finset.sum_congr rfl
      intro k' hk'
      have : k' ≠ k := by
        intro e'; subst e'; exact hnd.1 (by simpa using hk')
      have hb : (k' == k) = false := by simpa using this
      simp [coefOf, Dict.get?, List.lookup, hb]

theorem contains_iff_mem_toFinset (e : EDict) (k : EKey) :
    e.contains k = true ↔ k ∈ (Dict.keys e).toFinset := by
  rw [Dict.contains_iff_mem_keys]; simp

/-- mirror of a key -/
def mirror : EKey → EKey
  | .ip i j => .ip j i
  | k => k

theorem mirror_mirror (k : EKey) : mirror (mirror k) = k := by cases k <;> rfl

/-- per-key difference between the sparse contribution and the key's own term -/
noncomputable def defect (K : Finset EKey) (c : EKey → Coef) (G : Nat → Nat → ℝ) : EKey → ℝ
  | .ip i j =>
    if EKey.ip j i ∈ K then
      if i > j then ((c (.ip j i) : ℚ) : ℝ) * G i j
      else if i < j then - (((c (.ip i j) : ℚ) : ℝ) * G i j) else 0
    else 0
  | _ => 0

theorem sum_defect_zero (K : Finset EKey) (c : EKey → Coef) (G : Nat → Nat → ℝ)
    (hG : ∀ i j, G i j = G j i) : ∑ k ∈ K, defect K c G k = 0 := by
  apply Finset.sum_involution (fun k _ => if mirror k ∈ K then mirror k else k)
  · intro k hk
    cases k with
    | f i => simp [mirror, defect, hk]
    | one => simp [mirror, defect, hk]
    | ip i j =>
      by_cases hm : EKey.ip j i ∈ K
      · simp only [mirror, hm, if_true, defect, hk]
        rcases Nat.lt_trichotomy i j with h | h | h
        · have h' : ¬ i > j := by omega
          have h'' : j > i := h
          simp only [h', if_false, h, if_true, h'']
          rw [hG j i]; ring
        · subst h; simp
        · have h' : ¬ i < j := by omega
          have h'' : ¬ j > i := by omega
          have h3 : j < i := h
          simp only [h, if_true, h'', if_false, h3]
          rw [hG j i]; ring
      · simp [mirror, hm, defect]
  · intro k hk hne
    cases k with
    | f i => simp [defect] at hne
    | one => simp [defect] at hne
    | ip i j =>
      by_cases hm : EKey.ip j i ∈ K
      · simp only [mirror, hm, if_true]
        intro heq
        simp only [EKey.ip.injEq] at heq
        obtain ⟨h1, _⟩ := heq
        subst h1
        simp [defect, hm] at hne
      · simp [defect, hm] at hne
  · intro k hk
    by_cases hm : mirror k ∈ K
    · simp [hm]
    · simp [hm, hk]
  · intro k hk
    by_cases hm : mirror k ∈ K
    · simp [hm, mirror_mirror, hk]
    · simp [hm]

/-- **`expression_to_sparse_matrices` is faithful** for every duplicate-free decomposition and
every symmetric `G` (no bound on indices or sizes). -/
theorem sparse_correct (G : Nat → Nat → ℝ) (F : Nat → ℝ) (hG : ∀ i j, G i j = G j i)
    (e : EDict) (hnd : (Dict.keys e).Nodup) :
    evalSparse G F (toSparse e) = EDict.evalGF G F e := by
  unfold toSparse
  rw [evalSparse_foldl e G F e ⟨[], [], 0⟩ hnd (fun _ => rfl)]
  have h0 : evalSparse G F ⟨[], [], 0⟩ = 0 := by simp [evalSparse]
  rw [h0, zero_add, sum_eq_sum_keys e hnd]
  have hE : EDict.evalGF G F e = ∑ k ∈ (Dict.keys e).toFinset, ((coefOf e k : ℚ) : ℝ) * keyValGF G F k := by
    unfold EDict.evalGF Dict.denM
    have := sum_eq_sum_keys e hnd (fun k w => ((w : ℚ) : ℝ) * keyValGF G F k)
    simpa [smul_eq_mul] using this
  rw [hE]
  set K := (Dict.keys e).toFinset with hK
  -- contribution = own term + defect, and the defects cancel in mirrored pairs
  have key : ∀ k ∈ K, contrib e G F k (coefOf e k)
      = ((coefOf e k : ℚ) : ℝ) * keyValGF G F k + defect K (coefOf e) G k := by
    intro k hk
    cases k with
    | f i => simp [contrib, keyValGF, defect]
    | one => simp [contrib, keyValGF, defect]
    | ip i j =>
      simp only [contrib, keyValGF, defect]
      by_cases hm : e.contains (.ip j i) = true
      · have hm' : EKey.ip j i ∈ K := (contains_iff_mem_toFinset e _).mp hm
        rw [if_pos hm, if_pos hm']
        rcases Nat.lt_trichotomy i j with h | h | h
        · have h1 : ¬ i ≥ j := by omega
          have h2 : ¬ i > j := by omega
          rw [if_neg h1, if_neg h2, if_pos h]; ring
        · subst h
          simp only [ge_iff_le, le_refl, if_true, gt_iff_lt, lt_self_iff_false, if_false, symv]
          push_cast; ring
        · have h1 : i ≥ j := by omega
          rw [if_pos h1, if_pos h]
          have hne : i ≠ j := by omega
          simp only [symv, hne, if_false]
          rw [hG j i]; push_cast; ring
      · have hm' : EKey.ip j i ∉ K := fun h => hm ((contains_iff_mem_toFinset e _).mpr h)
        rw [if_neg hm, if_neg hm']
        have hne : i ≠ j := by
          intro h; subst h; exact hm' hk
        rcases Nat.lt_or_ge i j with h | h
        · have : max i j = j := by omega
          have h2 : min i j = i := by omega
          have hne' : j ≠ i := fun e' => hne e'.symm
          simp only [this, h2, symv, hne', if_false]
          rw [hG j i]; push_cast; ring
        · have h' : j < i := by omega
          have : max i j = i := by omega
          have h2 : min i j = j := by omega
          simp only [this, h2, symv, hne, if_false]
          rw [hG j i]; push_cast; ring
  rw [Finset.sum_congr rfl key, Finset.sum_add_distrib, sum_defect_zero K (coefOf e) G hG, add_zero]

#print axioms sparse_correct
