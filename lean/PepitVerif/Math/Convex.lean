import Mathlib.Analysis.InnerProductSpace.Basic
import Mathlib.Tactic.Linarith
import Mathlib.Tactic.FieldSimp
import Mathlib.Tactic.Ring
import Mathlib.Tactic.Positivity

/-!
# Interpolation inequalities from the first-order definitions of the classes
-/

open RealInnerProductSpace

variable {E : Type*} [NormedAddCommGroup E] [InnerProductSpace ℝ E]

theorem sc_interp (f : E → ℝ) (g : E → E) (L : ℝ) (hL : 0 < L)
    (hconv : ∀ x y, f y ≥ f x + ⟪g x, y - x⟫)
    (hsm : ∀ x y, f y ≤ f x + ⟪g x, y - x⟫ + L / 2 * ‖y - x‖ ^ 2)
    (x y : E) :
    f x - f y ≥ ⟪g y, x - y⟫ + 1 / (2 * L) * ‖g x - g y‖ ^ 2 := by
  set z := x - (1 / L) • (g x - g y) with hz
  have h1 := hconv y z
  have h2 := hsm x z
  have hzx : z - x = -((1 / L) • (g x - g y)) := by simp [hz]
  have e1 : ⟪g x, z - x⟫ = -(1/L) * ⟪g x, g x - g y⟫ := by
    rw [hzx, inner_neg_right, real_inner_smul_right]; ring
  have e2 : ‖z - x‖ ^ 2 = (1/L)^2 * ‖g x - g y‖^2 := by
    rw [hzx, norm_neg, norm_smul, mul_pow, Real.norm_eq_abs, sq_abs]
  have e3 : ⟪g y, z - y⟫ = ⟪g y, x - y⟫ - (1/L) * ⟪g y, g x - g y⟫ := by
    have : z - y = (x - y) - (1 / L) • (g x - g y) := by simp [hz]; abel
    rw [this, inner_sub_right, real_inner_smul_right]
  have e4 : ‖g x - g y‖^2 = ⟪g x, g x - g y⟫ - ⟪g y, g x - g y⟫ := by
    rw [← real_inner_self_eq_norm_sq, inner_sub_left]
  rw [e1, e2] at h2
  rw [e3] at h1
  have : L / 2 * ((1 / L) ^ 2 * ‖g x - g y‖ ^ 2) = 1 / (2 * L) * ‖g x - g y‖ ^ 2 := by
    field_simp
  rw [this] at h2
  have : 1 / (2 * L) * ‖g x - g y‖ ^ 2 = (1/L) * ‖g x - g y‖ ^ 2 - 1 / (2 * L) * ‖g x - g y‖ ^ 2 := by
    field_simp; ring
  have e5 : (1 / L) * ‖g x - g y‖ ^ 2 = (1 / L) * ⟪g x, g x - g y⟫ - (1 / L) * ⟪g y, g x - g y⟫ := by
    rw [e4]; ring
  linarith

theorem ssc_interp (f : E → ℝ) (g : E → E) (μ L : ℝ) (hμ : 0 ≤ μ) (hμL : μ < L)
    (hconv : ∀ x y, f y ≥ f x + ⟪g x, y - x⟫ + μ / 2 * ‖y - x‖ ^ 2)
    (hsm : ∀ x y, f y ≤ f x + ⟪g x, y - x⟫ + L / 2 * ‖y - x‖ ^ 2)
    (x y : E) :
    f x - f y ≥ ⟪g y, x - y⟫ + 1 / (2 * L) * ‖g x - g y‖ ^ 2
      + μ / (2 * (1 - μ / L)) * ‖x - y - (1 / L) • (g x - g y)‖ ^ 2 := by
  have hL : 0 < L := lt_of_le_of_lt hμ hμL
  have hLμ : 0 < L - μ := by linarith
  -- auxiliary function
  let h : E → ℝ := fun z => f z - μ / 2 * ‖z‖ ^ 2
  let k : E → E := fun z => g z - μ • z
  have key : ∀ a b : E, h b - h a - ⟪k a, b - a⟫ = f b - f a - ⟪g a, b - a⟫ - μ / 2 * ‖b - a‖ ^ 2 := by
    intro a b
    simp only [h, k]
    rw [inner_sub_left, real_inner_smul_left]
    have : ‖b - a‖ ^ 2 = ‖b‖ ^ 2 - 2 * ⟪a, b⟫ + ‖a‖ ^ 2 := by
      rw [norm_sub_sq_real, real_inner_comm]
    rw [this]
    simp only [inner_sub_right, real_inner_self_eq_norm_sq]
    ring
  have hc : ∀ a b, h b ≥ h a + ⟪k a, b - a⟫ := by
    intro a b; have := key a b; have := hconv a b; linarith
  have hs : ∀ a b, h b ≤ h a + ⟪k a, b - a⟫ + (L - μ) / 2 * ‖b - a‖ ^ 2 := by
    intro a b; have := key a b; have := hsm a b; linarith
  have main := sc_interp h k (L - μ) hLμ hc hs x y
  have k1 := key y x
  -- expand ‖k x - k y‖² and the target norm
  have ek : k x - k y = (g x - g y) - μ • (x - y) := by simp only [k]; rw [smul_sub]; abel
  have n1 : ‖k x - k y‖ ^ 2 = ‖g x - g y‖ ^ 2 - 2 * μ * ⟪g x - g y, x - y⟫ + μ ^ 2 * ‖x - y‖ ^ 2 := by
    rw [ek, norm_sub_sq_real, real_inner_smul_right, norm_smul, mul_pow, Real.norm_eq_abs, sq_abs]; ring
  have n2 : ‖x - y - (1 / L) • (g x - g y)‖ ^ 2
      = ‖x - y‖ ^ 2 - 2 * (1 / L) * ⟪g x - g y, x - y⟫ + (1 / L) ^ 2 * ‖g x - g y‖ ^ 2 := by
    rw [norm_sub_sq_real, real_inner_smul_right, norm_smul, mul_pow, Real.norm_eq_abs, sq_abs,
      real_inner_comm]; ring
  rw [n2]
  rw [n1] at main
  have hne : L - μ ≠ 0 := ne_of_gt hLμ
  have hne2 : L ≠ 0 := ne_of_gt hL
  have hne3 : (1 - μ / L) ≠ 0 := by
    have : 1 - μ / L = (L - μ) / L := by field_simp
    rw [this]; exact div_ne_zero hne hne2
  -- final algebra
  have target : ⟪g y, x - y⟫ + 1 / (2 * L) * ‖g x - g y‖ ^ 2
      + μ / (2 * (1 - μ / L)) * (‖x - y‖ ^ 2 - 2 * (1 / L) * ⟪g x - g y, x - y⟫ + (1 / L) ^ 2 * ‖g x - g y‖ ^ 2)
      = ⟪g y, x - y⟫ + μ / 2 * ‖x - y‖ ^ 2 + 1 / (2 * (L - μ)) *
        (‖g x - g y‖ ^ 2 - 2 * μ * ⟪g x - g y, x - y⟫ + μ ^ 2 * ‖x - y‖ ^ 2) := by
    field_simp
    ring
  rw [target]
  linarith

/-- smooth (possibly non-convex) interpolation inequality from the two-sided quadratic bounds:
apply `sc_interp` to `f + L/2‖·‖²`, which is convex and `2L`-smooth. -/
theorem smooth_interp (f : E → ℝ) (g : E → E) (L : ℝ) (hL : 0 < L)
    (hlo : ∀ x y, f y ≥ f x + ⟪g x, y - x⟫ - L / 2 * ‖y - x‖ ^ 2)
    (hup : ∀ x y, f y ≤ f x + ⟪g x, y - x⟫ + L / 2 * ‖y - x‖ ^ 2)
    (x y : E) :
    f x - f y ≥ -(L / 4) * ‖x - y‖ ^ 2 + 1 / 2 * ⟪g x + g y, x - y⟫ + 1 / (4 * L) * ‖g x - g y‖ ^ 2 := by
  let h : E → ℝ := fun z => f z + L / 2 * ‖z‖ ^ 2
  let k : E → E := fun z => g z + L • z
  have key : ∀ a b : E, h b - h a - ⟪k a, b - a⟫ = f b - f a - ⟪g a, b - a⟫ + L / 2 * ‖b - a‖ ^ 2 := by
    intro a b
    simp only [h, k]
    rw [inner_add_left, real_inner_smul_left]
    have : ‖b - a‖ ^ 2 = ‖b‖ ^ 2 - 2 * ⟪a, b⟫ + ‖a‖ ^ 2 := by
      rw [norm_sub_sq_real, real_inner_comm]
    rw [this]
    simp only [inner_sub_right, real_inner_self_eq_norm_sq]
    ring
  have hc : ∀ a b, h b ≥ h a + ⟪k a, b - a⟫ := by
    intro a b; have := key a b; have := hlo a b; linarith
  have hs : ∀ a b, h b ≤ h a + ⟪k a, b - a⟫ + (2 * L) / 2 * ‖b - a‖ ^ 2 := by
    intro a b; have := key a b; have := hup a b; linarith
  have main := sc_interp h k (2 * L) (by linarith) hc hs x y
  have k1 := key y x
  have ek : k x - k y = (g x - g y) + L • (x - y) := by simp only [k]; rw [smul_sub]; abel
  have n1 : ‖k x - k y‖ ^ 2 = ‖g x - g y‖ ^ 2 + 2 * L * ⟪g x - g y, x - y⟫ + L ^ 2 * ‖x - y‖ ^ 2 := by
    rw [ek, norm_add_sq_real, real_inner_smul_right, norm_smul, mul_pow, Real.norm_eq_abs, sq_abs]; ring
  rw [n1] at main
  have hne : L ≠ 0 := ne_of_gt hL
  have e1 : ⟪g x + g y, x - y⟫ = ⟪g x - g y, x - y⟫ + 2 * ⟪g y, x - y⟫ := by
    rw [inner_add_left, inner_sub_left]; ring
  rw [e1]
  have e2 : 1 / (2 * (2 * L)) * (‖g x - g y‖ ^ 2 + 2 * L * ⟪g x - g y, x - y⟫ + L ^ 2 * ‖x - y‖ ^ 2)
      = 1 / (4 * L) * ‖g x - g y‖ ^ 2 + 1 / 2 * ⟪g x - g y, x - y⟫ + L / 4 * ‖x - y‖ ^ 2 := by
    field_simp; ring
  rw [e2] at main
  linarith
