import PepitModel.Cvx
import Mathlib.Tactic.Ring
import Mathlib.Data.List.Basic

/-!
# `_recover_dual_values` attaches to every sent item the dual of the solver constraint emitted
for it (property C01, index routing), for every list of items and every LMI size.
-/

theorem length_flatMap_rows (id n : Nat) (l : List Nat) :
    (l.flatMap (fun i => (List.range n).map (fun j => SolverCon.psdEntry id i j))).length = l.length * n := by
  induction l with
  | nil => simp
  | cons a t ih =>
    simp only [List.flatMap_cons, List.length_append, List.length_map, List.length_range, ih,
      List.length_cons]
    ring

theorem length_psdEntries (id n : Nat) : (psdEntries id n).length = n * n := by
  unfold psdEntries
  rw [length_flatMap_rows, List.length_range]

theorem length_emitItem (it : Item) :
    (emitItem it).length = match it with | .cons _ => 1 | .psd _ n => 1 + n * n := by
  cases it with
  | cons id => rfl
  | psd id n => simp [emitItem, length_psdEntries]; ring

theorem recoverFrom_spec {δ : Type} (d : SolverCon → δ) :
    ∀ (items : List Item) (pre : List δ),
      recoverFrom (pre ++ (items.flatMap emitItem).map d) pre.length items
        = some (items.map (fun it => d (mainOf it))) := by
  intro items
  induction items with
  | nil => intro pre; simp [recoverFrom]
  | cons it rest ih =>
    intro pre
    cases it with
    | cons id =>
      simp only [List.flatMap_cons, emitItem, List.singleton_append, List.map_cons, recoverFrom]
      have h1 : (pre ++ d (.scalar id) :: (rest.flatMap emitItem).map d)[pre.length]? = some (d (.scalar id)) := by
        simp
      have h2 := ih (pre ++ [d (.scalar id)])
      simp only [List.length_append, List.length_singleton, List.append_assoc, List.singleton_append] at h2
      rw [h1, h2]; rfl
    | psd id n =>
      simp only [List.flatMap_cons, emitItem, List.cons_append, List.map_cons, List.map_append, recoverFrom]
      have h1 : (pre ++ d (.psdMain id) :: ((psdEntries id n).map d ++ (rest.flatMap emitItem).map d))[pre.length]?
          = some (d (.psdMain id)) := by simp
      have h2 := ih (pre ++ d (.psdMain id) :: (psdEntries id n).map d)
      simp only [List.length_append, List.length_cons, List.length_map, length_psdEntries,
        List.append_assoc, List.cons_append] at h2
      rw [h1]
      have e : pre.length + 1 + n * n = pre.length + (n * n + 1) := by ring
      rw [e, h2]; rfl

/-- **Order-preserving dual routing**: for every list of sent items (any number of scalar
constraints and LMIs of any sizes, in any order) and every assignment `d` of duals to the
solver's constraints, `_recover_dual_values` returns the residual followed, for each item, by
the dual of *its own* main constraint — the `n²` entry equalities of every LMI are skipped
exactly. -/
theorem recover_spec {δ : Type} (d : SolverCon → δ) (items : List Item) :
    recover ((emit items).map d) items = some (d .gram :: items.map (fun it => d (mainOf it))) := by
  unfold recover emit
  simp only [List.map_cons, List.getElem?_cons_zero]
  have := recoverFrom_spec d items [d .gram]
  simp only [List.length_singleton, List.singleton_append] at this
  rw [this]; rfl

#print axioms recover_spec
