import PepitVerif.Math.WellFormed
import Mathlib.Algebra.BigOperators.Group.Finset.Basic
import Mathlib.Algebra.BigOperators.Ring.Finset
import Mathlib.Tactic.FieldSimp

/-!
# `expression_to_matrices` denotes the expression (property C05, dense part)
-/

open Finset

/-- value of a key at the Gram level -/
def keyValGF (G : Nat → Nat → ℝ) (F : Nat → ℝ) : EKey → ℝ
  | .f i => F i
  | .ip i j => G i j
  | .one => 1

/-- what the SDP sees of an expression -/
noncomputable def EDict.evalGF (G : Nat → Nat → ℝ) (F : Nat → ℝ) (e : EDict) : ℝ := Dict.denM (keyValGF G F) e

/-- `Tr(Gw G) + Fw·F + cons` for weights given as a function of the key -/
noncomputable def evalDenseA (n m : Nat) (G : Nat → Nat → ℝ) (F : Nat → ℝ) (A : EKey → ℝ) : ℝ :=
  (∑ i ∈ range n, ∑ j ∈ range n, ((A (.ip i j) + A (.ip j i)) / 2) * G i j)
    + (∑ i ∈ range m, A (.f i) * F i) + A .one

/-- value of the dense output of the translator -/
noncomputable def evalDense (n m : Nat) (G : Nat → Nat → ℝ) (F : Nat → ℝ) (D : DenseW) : ℝ :=
  (∑ i ∈ range n, ∑ j ∈ range n, ((D.G i j : ℚ) : ℝ) * G i j)
    + (∑ i ∈ range m, ((D.F i : ℚ) : ℝ) * F i) + ((D.c : ℚ) : ℝ)

theorem evalDense_toDense (n m : Nat) (G : Nat → Nat → ℝ) (F : Nat → ℝ) (e : EDict) :
    evalDense n m G F (toDense e) = evalDenseA n m G F (fun k => ((assignLast e k : ℚ) : ℝ)) := by
  unfold evalDense evalDenseA toDense
  simp only
  congr 1
  congr 1
  apply sum_congr rfl; intro i _; apply sum_congr rfl; intro j _
  push_cast; ring

theorem evalDenseA_add (n m : Nat) (G : Nat → Nat → ℝ) (F : Nat → ℝ) (A B : EKey → ℝ) :
    evalDenseA n m G F (fun k => A k + B k) = evalDenseA n m G F A + evalDenseA n m G F B := by
  unfold evalDenseA
  simp only [add_div, add_mul, sum_add_distrib]
  ring

theorem evalDenseA_smul (n m : Nat) (G : Nat → Nat → ℝ) (F : Nat → ℝ) (c : ℝ) (A : EKey → ℝ) :
    evalDenseA n m G F (fun k => c * A k) = c * evalDenseA n m G F A := by
  unfold evalDenseA
  simp only [mul_add, mul_sum]
  congr 1
  congr 1
  · apply sum_congr rfl; intro i _; apply sum_congr rfl; intro j _; ring
  · apply sum_congr rfl; intro i _; ring

/-- keys whose indices are in range -/
def EKey.inRange (n m : Nat) : EKey → Prop
  | .f i => i < m
  | .ip i j => i < n ∧ j < n
  | .one => True

theorem double_indicator (n : Nat) (f : ℕ → ℕ → ℝ) (a b : Nat) (ha : a < n) (hb : b < n) :
    ∑ i ∈ range n, ∑ j ∈ range n, (if i = a ∧ j = b then f i j else 0) = f a b := by
  rw [Finset.sum_eq_single a]
  · rw [Finset.sum_eq_single b]
    · simp
    · intro j _ hj; simp [hj]
    · intro h; exact absurd (mem_range.mpr hb) h
  · intro i _ hi; apply Finset.sum_eq_zero; intro j _; simp [hi]
  · intro h; exact absurd (mem_range.mpr ha) h

/-- the dense form of an indicator weight is the key's value (uses symmetry of `G`). -/
theorem evalDenseA_indicator (n m : Nat) (G : Nat → Nat → ℝ) (F : Nat → ℝ)
    (hG : ∀ i j, G i j = G j i) (k : EKey) (hk : k.inRange n m) :
    evalDenseA n m G F (fun k' => if k' = k then 1 else 0) = keyValGF G F k := by
  unfold evalDenseA
  cases k with
  | f a =>
    simp only [EKey.inRange] at hk
    simp [keyValGF, hk]
  | one => simp [keyValGF]
  | ip a b =>
    obtain ⟨ha, hb⟩ := hk
    simp only [EKey.ip.injEq, reduceCtorEq, if_false, zero_mul, sum_const_zero, add_zero, keyValGF]
    have h1 : ∀ i j, (((if i = a ∧ j = b then (1:ℝ) else 0) + (if j = a ∧ i = b then (1:ℝ) else 0)) / 2) * G i j
        = (if i = a ∧ j = b then G i j / 2 else 0) + (if i = b ∧ j = a then G i j / 2 else 0) := by
      intro i j
      have e : (j = a ∧ i = b) ↔ (i = b ∧ j = a) := and_comm
      simp only [e]
      split_ifs <;> ring
    simp only [h1, sum_add_distrib]
    rw [double_indicator n (fun i j => G i j / 2) a b ha hb, double_indicator n (fun i j => G i j / 2) b a hb ha]
    rw [hG b a]; ring

/-- the assignment loop started from `a` equals the loop started from `0`, unless the key is
never assigned, in which case `a` survives -/
theorem assign_foldl_start (k' : EKey) :
    ∀ (t : EDict) (a : Coef),
      t.foldl (fun acc kc => if kc.1 = k' then kc.2 else acc) a
        = t.foldl (fun acc kc => if kc.1 = k' then kc.2 else acc) 0
          + (if k' ∈ Dict.keys t then 0 else a) := by
  intro t
  induction t with
  | nil => intro a; simp [Dict.keys]
  | cons hd tl ih =>
    obtain ⟨k2, c2⟩ := hd
    intro a
    simp only [List.foldl_cons, Dict.keys_cons, List.mem_cons]
    by_cases h2 : k2 = k'
    · subst h2
      simp only [if_true, true_or]
      rw [ih c2]; simp
    · have h2' : ¬ k' = k2 := fun e => h2 e.symm
      simp only [h2, if_false, h2', false_or]
      exact ih a

theorem assignLast_cons_of_not_mem (k : EKey) (c : Coef) (t : EDict) (h : k ∉ Dict.keys t) (k' : EKey) :
    assignLast ((k, c) :: t) k' = assignLast t k' + (if k' = k then c else 0) := by
  unfold assignLast
  simp only [List.foldl_cons]
  by_cases hkk : k = k'
  · subst hkk
    rw [if_pos rfl, assign_foldl_start k t c]
    simp [h]
  · rw [if_neg hkk]
    have : ¬ k' = k := fun e => hkk e.symm
    simp [this]

/-- **`expression_to_matrices` is faithful**: for every duplicate-free decomposition whose
indices are in range and every symmetric `G`, `Tr(Gw G) + Fw·F + cons` is the expression. -/
theorem dense_correct (n m : Nat) (G : Nat → Nat → ℝ) (F : Nat → ℝ) (hG : ∀ i j, G i j = G j i)
    (e : EDict) (hnd : (Dict.keys e).Nodup) (hr : ∀ k ∈ Dict.keys e, EKey.inRange n m k) :
    evalDense n m G F (toDense e) = EDict.evalGF G F e := by
  rw [evalDense_toDense]
  unfold EDict.evalGF
  induction e with
  | nil => simp [evalDenseA, assignLast]
  | cons hd t ih =>
    obtain ⟨k, c⟩ := hd
    rw [Dict.keys_cons, List.nodup_cons] at hnd
    have hk : EKey.inRange n m k := hr k (by simp [Dict.keys_cons])
    have hr' : ∀ k' ∈ Dict.keys t, EKey.inRange n m k' := fun k' h' => hr k' (by simp [Dict.keys_cons, h'])
    have hfun : (fun k' => ((assignLast ((k, c) :: t) k' : ℚ) : ℝ))
        = fun k' => ((assignLast t k' : ℚ) : ℝ) + ((c : ℚ) : ℝ) * (if k' = k then 1 else 0) := by
      funext k'
      rw [assignLast_cons_of_not_mem k c t hnd.1 k']
      by_cases h : k' = k <;> simp [h]
    rw [hfun, evalDenseA_add, evalDenseA_smul, evalDenseA_indicator n m G F hG k hk, ih hnd.2 hr']
    simp only [Dict.denM_cons, smul_eq_mul]; ring

#print axioms dense_correct
