import PepitVerif.Math.AddPointSpec

/-!
# The oracle bookkeeping invariant over *every* sequence of oracle / gradient / value calls (C07)

World: any set of declared leaf and composite functions.  Invariant: stored dictionaries are well
formed, the structure of composites is sane, and **every triplet recorded on a composite function is
the weighted sum of triplets recorded at the same point on its terms**.  `oracleA` and `valueA`
preserve it, hence it holds after every finite sequence of calls.
-/

namespace Pepit

/-! ## frames: which functions' triplet lists an operation can touch -/

/-- triplet lists of the functions outside `S` are untouched -/
def PtsFrame (w w' : AW) (S : Nat → Prop) : Prop := ∀ g, ¬ S g → (w'.getF g).pts = (w.getF g).pts

theorem PtsFrame.trans {a b c : AW} {S T : Nat → Prop} (h1 : PtsFrame a b S) (h2 : PtsFrame b c T) :
    PtsFrame a c (fun g => S g ∨ T g) := by
  intro g hg
  rw [h2 g (fun h => hg (Or.inr h)), h1 g (fun h => hg (Or.inl h))]

theorem PtsFrame.mono {a b : AW} {S T : Nat → Prop} (h : PtsFrame a b S) (hst : ∀ g, S g → T g) : PtsFrame a b T :=
  fun g hg => h g (fun hs => hg (hst g hs))

theorem ptsFrame_refl (w : AW) : PtsFrame w w (fun _ => False) := fun _ _ => rfl

theorem ptsFrame_record (w : AW) (f : Nat) (t : ATriple) : PtsFrame w (w.record f t) (fun g => g = f) := by
  intro g hg
  unfold AW.record; rw [getF_setPts]
  split
  · next h => exact absurd h.1 hg
  · rfl

theorem ptsFrame_counters (w : AW) (a b : Nat) : PtsFrame w { w with nP := a, nE := b } (fun _ => False) :=
  fun _ _ => rfl

theorem ptsFrame_setDecomp (w : AW) (f : Nat) (d : Dict Nat) : PtsFrame w (w.setDecomp f d) (fun _ => False) := by
  intro g _
  rw [getF_setDecomp]; split <;> rfl

theorem pts_record_self (w : AW) (f : Nat) (t : ATriple) (hf : f < w.funs.length) :
    ((w.record f t).getF f).pts = (w.getF f).pts ++ [⟨Dict.prune t.x, Dict.prune t.g, Dict.prune t.v⟩] := by
  unfold AW.record; rw [getF_setPts]; simp [hf]

theorem ptsFrame_oracleLeafA (w : AW) (f : Nat) (x : PDict) :
    PtsFrame w (oracleLeafA w f x).1 (fun g => g = f) := by
  unfold oracleLeafA
  simp only
  cases lookupTriple (w.getF f).pts x with
  | some t =>
    by_cases hr : (w.getF f).reuse = true
    · simp only [hr, if_true]; exact (ptsFrame_refl w).mono (fun _ h => h.elim)
    · simp only [hr, Bool.false_eq_true, if_false]
      exact ((ptsFrame_counters w _ _).trans (ptsFrame_record _ f _)).mono (fun g h => h.elim (fun h => h.elim) id)
  | none =>
    simp only
    exact ((ptsFrame_counters w _ _).trans (ptsFrame_record _ f _)).mono (fun g h => h.elim (fun h => h.elim) id)

theorem ptsFrame_distribute (x : PDict) :
    ∀ (terms : List (Nat × Coef)) (w : AW) (gl : PDict) (fl : EDict),
      PtsFrame w (distribute x w terms gl fl) (fun g => g ∈ terms.map (·.1)) := by
  intro terms
  induction terms with
  | nil => intro w gl fl; simp only [distribute]; exact (ptsFrame_refl w).mono (fun _ h => h.elim)
  | cons hd rest ih =>
    obtain ⟨fn, wt⟩ := hd
    intro w gl fl
    cases rest with
    | nil =>
      simp only [distribute]
      exact (ptsFrame_record w fn _).mono (fun g h => by simp [h])
    | cons hd2 rest2 =>
      simp only [distribute]
      have h1 := ptsFrame_oracleLeafA w fn x
      have h2 := ih (oracleLeafA w fn x).1 (PDict.sub gl (PDict.smul wt (oracleLeafA w fn x).2.1))
        (EDict.sub fl (EDict.smul wt (oracleLeafA w fn x).2.2))
      refine (h1.trans h2).mono ?_
      intro g hg
      rcases hg with rfl | hg
      · simp
      · simp only [List.map_cons, List.mem_cons] at hg ⊢
        exact Or.inr hg

/-! ## the invariant -/

/-- composites range over existing leaf functions, without repetition, and a composite that is not
flagged differentiable has a non-differentiable term of non-zero weight -/
def Struct (w : AW) : Prop :=
  ∀ f, f < w.funs.length → (w.getF f).isLeaf = false →
    (∀ tw ∈ Dict.prune (w.getF f).decomp, tw.1 < w.funs.length ∧ (w.getF tw.1).isLeaf = true) ∧
    ((Dict.prune (w.getF f).decomp).map (·.1)).Nodup ∧
    ((w.getF f).reuse = false → ∃ tw ∈ Dict.prune (w.getF f).decomp, (w.getF tw.1).reuse = false)

/-- **sum consistency**: every triplet of a composite is the weighted sum of triplets of its terms at
the same point -/
def Consistent (w : AW) : Prop :=
  ∀ f, f < w.funs.length → (w.getF f).isLeaf = false → ∀ t ∈ (w.getF f).pts,
    SumWitnessF w (Dict.prune (w.getF f).decomp) t.x t.g t.v

def OInv (w : AW) : Prop := WfW w ∧ Struct w ∧ Consistent w

theorem struct_of_extends {w w' : AW} (h : Extends w w') (hs : Struct w) : Struct w' := by
  intro f hf hleaf
  have hf' : f < w.funs.length := by rw [← h.len]; exact hf
  have hl : (w.getF f).isLeaf = false := by rw [← (h.flags f).1]; exact hleaf
  obtain ⟨h1, h2, h3⟩ := hs f hf' hl
  rw [(h.flags f).2.2]
  refine ⟨?_, h2, ?_⟩
  · intro tw htw
    obtain ⟨a, b⟩ := h1 tw htw
    exact ⟨by rw [h.len]; exact a, by rw [(h.flags tw.1).1]; exact b⟩
  · intro hr
    rw [(h.flags f).2.1] at hr
    obtain ⟨tw, htw, hrt⟩ := h3 hr
    exact ⟨tw, htw, by rw [(h.flags tw.1).2.1]; exact hrt⟩

/-- old triplets keep their witnesses when the world grows; it remains to treat the new ones -/
theorem consistent_of_extends {w w' : AW} (h : Extends w w') (hc : Consistent w)
    (hnew : ∀ f, f < w.funs.length → (w.getF f).isLeaf = false → ∀ t ∈ (w'.getF f).pts, t ∉ (w.getF f).pts →
      SumWitnessF w' (Dict.prune (w.getF f).decomp) t.x t.g t.v) : Consistent w' := by
  intro f hf hleaf t ht
  have hf' : f < w.funs.length := by rw [← h.len]; exact hf
  have hl : (w.getF f).isLeaf = false := by rw [← (h.flags f).1]; exact hleaf
  rw [(h.flags f).2.2]
  by_cases hold : t ∈ (w.getF f).pts
  · exact sumWitnessF_mono h (hc f hf' hl t hold)
  · exact hnew f hf' hl t ht hold

/-! ## leaf oracle -/

theorem oracleLeafA_inv (w : AW) (f : Nat) (x : PDict) (hf : f < w.funs.length) (hleaf : (w.getF f).isLeaf = true)
    (hx : (Dict.keys x).Nodup) (hi : OInv w) : OInv (oracleLeafA w f x).1 := by
  obtain ⟨hw, hs, hc⟩ := hi
  obtain ⟨hext, hwf, _, _, _⟩ := oracleLeafA_spec w f x hf hw hx
  refine ⟨hwf, struct_of_extends hext hs, consistent_of_extends hext hc ?_⟩
  intro g _ hgl t ht hnot
  have hne : g ≠ f := by intro e; subst e; rw [hleaf] at hgl; cases hgl
  rw [ptsFrame_oracleLeafA w f x g hne] at ht
  exact absurd ht hnot

end Pepit

namespace Pepit

/-! ## sums of stored triplets (`combineG` / `combineV`) -/

theorem gden_add (val : Nat → ℝ) (a b : PDict) (hb : (Dict.keys b).Nodup) :
    gden val (PDict.add a b) = gden val a + gden val b := by
  unfold gden PDict.add; rw [Dict.denM_prune, Dict.denM_merge _ _ _ hb]

theorem vden_add (φ : EKey → ℝ) (a b : EDict) (hb : (Dict.keys b).Nodup) :
    vden φ (EDict.add a b) = vden φ a + vden φ b := by
  unfold vden EDict.add; rw [Dict.denM_prune, Dict.denM_merge _ _ _ hb]

/-- the first triplet of function `i` recorded at `x` (what `_is_already_evaluated_on_point` returns) -/
def firstAt (w : AW) (x : PDict) (i : Nat) : ATriple :=
  (lookupTriple (w.getF i).pts x).getD ⟨[], [], []⟩

theorem combineG_spec (w : AW) (hw : WfW w) (x : PDict) :
    ∀ (d : Dict Nat) (acc : PDict), (Dict.keys acc).Nodup →
      (∀ tw ∈ d, ∃ t, lookupTriple (w.getF tw.1).pts x = some t) →
      (Dict.keys (d.foldl (fun acc tw =>
          match lookupTriple (w.getF tw.1).pts x with
          | some t => PDict.add acc (PDict.smul tw.2 t.g)
          | none => acc) acc)).Nodup ∧
      ∀ val, gden val (d.foldl (fun acc tw =>
          match lookupTriple (w.getF tw.1).pts x with
          | some t => PDict.add acc (PDict.smul tw.2 t.g)
          | none => acc) acc)
        = gden val acc + (d.map (fun tw => ((tw.2 : ℚ) : ℝ) * gden val (firstAt w x tw.1).g)).sum := by
  intro d
  induction d with
  | nil => intro acc hacc _; exact ⟨hacc, fun val => by simp⟩
  | cons tw rest ih =>
    intro acc hacc hall
    obtain ⟨t, ht⟩ := hall tw List.mem_cons_self
    obtain ⟨htm, _⟩ := mem_of_find? _ _ _ ht
    have htg : (Dict.keys t.g).Nodup := (hw tw.1 t htm).2.1
    have hsm : (Dict.keys (PDict.smul tw.2 t.g)).Nodup := PDict.wf_smul _ _ htg
    rw [List.foldl_cons]
    simp only [ht]
    obtain ⟨hk, hv⟩ := ih (PDict.add acc (PDict.smul tw.2 t.g)) (PDict.wf_add _ _ hacc)
      (fun tw' h' => hall tw' (List.mem_cons_of_mem _ h'))
    refine ⟨hk, fun val => ?_⟩
    rw [hv val, gden_add val acc _ hsm, gden_smul]
    simp only [List.map_cons, List.sum_cons, firstAt, ht, Option.getD_some]
    ring

theorem combineV_spec (w : AW) (hw : WfW w) (x : PDict) :
    ∀ (d : Dict Nat) (acc : EDict), (Dict.keys acc).Nodup →
      (∀ tw ∈ d, ∃ t, lookupTriple (w.getF tw.1).pts x = some t) →
      (Dict.keys (d.foldl (fun acc tw =>
          match lookupTriple (w.getF tw.1).pts x with
          | some t => EDict.add acc (EDict.smul tw.2 t.v)
          | none => acc) acc)).Nodup ∧
      ∀ φ, vden φ (d.foldl (fun acc tw =>
          match lookupTriple (w.getF tw.1).pts x with
          | some t => EDict.add acc (EDict.smul tw.2 t.v)
          | none => acc) acc)
        = vden φ acc + (d.map (fun tw => ((tw.2 : ℚ) : ℝ) * vden φ (firstAt w x tw.1).v)).sum := by
  intro d
  induction d with
  | nil => intro acc hacc _; exact ⟨hacc, fun φ => by simp⟩
  | cons tw rest ih =>
    intro acc hacc hall
    obtain ⟨t, ht⟩ := hall tw List.mem_cons_self
    obtain ⟨htm, _⟩ := mem_of_find? _ _ _ ht
    have htv : (Dict.keys t.v).Nodup := (hw tw.1 t htm).2.2
    have hsm : (Dict.keys (EDict.smul tw.2 t.v)).Nodup := EDict.wf_smul _ _ htv
    rw [List.foldl_cons]
    simp only [ht]
    obtain ⟨hk, hv⟩ := ih (EDict.add acc (EDict.smul tw.2 t.v)) (EDict.wf_add _ _ hacc)
      (fun tw' h' => hall tw' (List.mem_cons_of_mem _ h'))
    refine ⟨hk, fun φ => ?_⟩
    rw [hv φ, vden_add φ acc _ hsm, vden_smul]
    simp only [List.map_cons, List.sum_cons, firstAt, ht, Option.getD_some]
    ring

/-! ## the classification: when nobody needs anything, every term is evaluated and differentiable -/

theorem classify_none_need_aux (w : AW) (x : PDict) :
    ∀ (d : Dict Nat) (a0 a1 a2 : List (Nat × Coef)),
      (d.foldl (classifyStep w x) (a0, a1, a2)).2.1 = [] → (d.foldl (classifyStep w x) (a0, a1, a2)).2.2 = [] →
      a1 = [] ∧ a2 = [] ∧
      ∀ tw ∈ d, (∃ t, lookupTriple (w.getF tw.1).pts x = some t) ∧ (w.getF tw.1).reuse = true := by
  intro d
  induction d with
  | nil => intro a0 a1 a2 h1 h2; exact ⟨h1, h2, fun _ h => by cases h⟩
  | cons tw rest ih =>
    intro a0 a1 a2 h1 h2
    rw [List.foldl_cons] at h1 h2
    unfold classifyStep at h1 h2
    simp only at h1 h2
    cases hl : lookupTriple (w.getF tw.1).pts x with
    | some t =>
      by_cases hr : (w.getF tw.1).reuse = true
      · simp only [hl, hr, if_true] at h1 h2
        obtain ⟨e1, e2, hall⟩ := ih _ _ _ h1 h2
        refine ⟨e1, e2, ?_⟩
        intro tw' h'
        rcases List.mem_cons.mp h' with rfl | h'
        · exact ⟨⟨t, hl⟩, hr⟩
        · exact hall tw' h'
      · simp only [hl, hr, Bool.false_eq_true, if_false] at h1 h2
        obtain ⟨e1, _, _⟩ := ih _ _ _ h1 h2
        simp at e1
    | none =>
      simp only [hl] at h1 h2
      obtain ⟨_, e2, _⟩ := ih _ _ _ h1 h2
      simp at e2

theorem classify_none_need (w : AW) (d : Dict Nat) (x : PDict)
    (h1 : (classify w d x).2.1 = []) (h2 : (classify w d x).2.2 = []) :
    ∀ tw ∈ d, (∃ t, lookupTriple (w.getF tw.1).pts x = some t) ∧ (w.getF tw.1).reuse = true :=
  (classify_none_need_aux w x d [] [] [] h1 h2).2.2

/-- the classification only looks at the triplet lists and the flags of the terms, at the pruned point -/
theorem classify_congr (w w' : AW) (x x' : PDict) (hx : Dict.prune x = Dict.prune x') :
    ∀ (d : Dict Nat) (acc : List (Nat × Coef) × List (Nat × Coef) × List (Nat × Coef)),
      (∀ tw ∈ d, (w'.getF tw.1).pts = (w.getF tw.1).pts ∧ (w'.getF tw.1).reuse = (w.getF tw.1).reuse) →
      d.foldl (classifyStep w' x') acc = d.foldl (classifyStep w x) acc := by
  intro d
  induction d with
  | nil => intro acc _; rfl
  | cons tw rest ih =>
    intro acc hall
    rw [List.foldl_cons, List.foldl_cons]
    have hstep : classifyStep w' x' acc tw = classifyStep w x acc tw := by
      obtain ⟨hp, hr⟩ := hall tw List.mem_cons_self
      unfold classifyStep
      have hl : lookupTriple (w'.getF tw.1).pts x' = lookupTriple (w.getF tw.1).pts x := by
        rw [hp]; unfold lookupTriple; rw [hx]
      simp only [hl, hr]
    rw [hstep]
    exact ih _ (fun tw' h' => hall tw' (List.mem_cons_of_mem _ h'))

end Pepit

namespace Pepit

/-! ## `add_point` on a composite preserves the invariant -/

theorem oinv_counters (w : AW) (a b : Nat) (h : OInv w) : OInv { w with nP := a, nE := b } := h

theorem getF_counters (w : AW) (a b : Nat) (g : Nat) : ({ w with nP := a, nE := b } : AW).getF g = w.getF g := rfl

/-- which triplet lists `add_point` on a composite `f` touches: `f` itself (one more triplet) and its terms -/
theorem addPointA_frame (w : AW) (f : Nat) (t : ATriple) (hf : f < w.funs.length)
    (hcomp : (w.getF f).isLeaf = false) (hself : ∀ tw ∈ Dict.prune (w.getF f).decomp, tw.1 ≠ f) :
    PtsFrame w (addPointA w f t) (fun g => g = f ∨ g ∈ (Dict.prune (w.getF f).decomp).map (·.1)) ∧
    ((addPointA w f t).getF f).pts = (w.getF f).pts ++ [⟨Dict.prune t.x, Dict.prune t.g, Dict.prune t.v⟩] := by
  have he1 : Extends w (w.record f t) := extends_record w f t
  have hleaf1 : ((w.record f t).getF f).isLeaf = false := by rw [(he1.flags f).1]; exact hcomp
  have hdec1 : ((w.record f t).getF f).decomp = (w.getF f).decomp := by
    simp only [AW.record]; rw [getF_setPts]; split <;> rfl
  have hpre : PtsFrame w (preLoop w f t) (fun g => g = f) :=
    ((ptsFrame_record w f t).trans (ptsFrame_setDecomp _ f _)).mono (fun g h => h.elim id (fun h => h.elim))
  have hpre_self : ((preLoop w f t).getF f).pts = (w.getF f).pts ++ [⟨Dict.prune t.x, Dict.prune t.g, Dict.prune t.v⟩] := by
    unfold preLoop
    rw [ptsFrame_setDecomp (w.record f t) f _ f (fun h => h), pts_record_self w f t hf]
  rw [addPointA_unfold w f t hleaf1]
  split
  · -- the remainder loop runs over a permutation of the pruned decomposition
    rw [hdec1]
    have hperm := classify_perm (preLoop w f t) (Dict.prune (w.getF f).decomp) (Dict.prune t.x)
    set c := classify (preLoop w f t) (Dict.prune (w.getF f).decomp) (Dict.prune t.x) with hc
    have hd := ptsFrame_distribute (Dict.prune t.x) (c.1 ++ (c.2.1 ++ c.2.2)) (preLoop w f t) (Dict.prune t.g) (Dict.prune t.v)
    have hmem : ∀ g, g ∈ (c.1 ++ (c.2.1 ++ c.2.2)).map (·.1) → g ∈ (Dict.prune (w.getF f).decomp).map (·.1) :=
      fun g hg => ((hperm.map (·.1)).mem_iff).mp hg
    constructor
    · exact (hpre.trans hd).mono (fun g h => h.elim Or.inl (fun h => Or.inr (hmem g h)))
    · have hnf : ¬ (f ∈ (c.1 ++ (c.2.1 ++ c.2.2)).map (·.1)) := by
        intro hin
        have := hmem f hin
        rw [List.mem_map] at this
        obtain ⟨tw, htw, e⟩ := this
        exact hself tw htw e
      rw [hd f hnf, hpre_self]
  · exact ⟨hpre.mono (fun g h => Or.inl h), hpre_self⟩

/-- **`add_point` on a composite keeps the invariant**, provided that in the case where no term needs
anything the triplet being added is already the weighted sum of stored triplets of the terms -/
theorem addPointA_composite_inv (w : AW) (f : Nat) (t : ATriple) (hi : OInv w) (hf : f < w.funs.length)
    (hcomp : (w.getF f).isLeaf = false)
    (hx : (Dict.keys t.x).Nodup) (hg : (Dict.keys t.g).Nodup) (hv : (Dict.keys t.v).Nodup)
    (hnone : someTermNeeds w f t = false →
      SumWitnessF (addPointA w f t) (Dict.prune (w.getF f).decomp) (Dict.prune t.x) (Dict.prune t.g) (Dict.prune t.v)) :
    OInv (addPointA w f t) := by
  obtain ⟨hw, hs, hc⟩ := hi
  obtain ⟨hterms, hnd, _⟩ := hs f hf hcomp
  have hself : ∀ tw ∈ Dict.prune (w.getF f).decomp, tw.1 ≠ f := by
    intro tw htw e
    have := (hterms tw htw).2
    rw [e, hcomp] at this; cases this
  obtain ⟨hext, hwf, hwit⟩ := addPointA_composite_spec w f t hw hx hg hv hcomp (fun tw htw => (hterms tw htw).1) hnd
  obtain ⟨hframe, hptsf⟩ := addPointA_frame w f t hf hcomp hself
  refine ⟨hwf, struct_of_extends hext hs, consistent_of_extends hext hc ?_⟩
  intro g hgl hgleaf t' ht' hnot
  by_cases hgf : g = f
  · subst hgf
    rw [hptsf] at ht'
    rcases List.mem_append.mp ht' with h | h
    · exact absurd h hnot
    · simp only [List.mem_singleton] at h
      subst h
      by_cases hneed : someTermNeeds w g t = true
      · exact hwit hneed
      · exact hnone (by simpa using hneed)
  · -- another composite: it is neither `f` nor one of the (leaf) terms
    have hnotin : ¬ (g = f ∨ g ∈ (Dict.prune (w.getF f).decomp).map (·.1)) := by
      rintro (h | h)
      · exact hgf h
      · rw [List.mem_map] at h
        obtain ⟨tw, htw, e⟩ := h
        have := (hterms tw htw).2
        rw [e, hgleaf] at this; cases this
    rw [hframe g hnotin] at ht'
    exact absurd ht' hnot

end Pepit

namespace Pepit

/-! ## `oracle` on any function -/

theorem atPoint_of_lookup (pts : List ATriple) (x : PDict) (t : ATriple) (h : lookupTriple pts x = some t) :
    t ∈ pts ∧ AtPoint t (Dict.prune x) := by
  obtain ⟨hm, he⟩ := mem_of_find? _ _ _ h
  exact ⟨hm, Or.inl (by rw [prune_prune]; exact he)⟩

/-- in the world where nobody needs anything, the sums of the stored triplets form a witness -/
theorem witness_of_combine (w0 w' : AW) (hw0 : WfW w0) (hext : Extends w0 w') (d : Dict Nat) (x : PDict)
    (hall : ∀ tw ∈ d, ∃ t, lookupTriple (w0.getF tw.1).pts x = some t) :
    SumWitnessF w' d (Dict.prune x) (Dict.prune (combineG w0 d x)) (Dict.prune (combineV w0 d x)) := by
  refine ⟨firstAt w0 x, ?_, ?_, ?_⟩
  · intro tw htw
    obtain ⟨t, ht⟩ := hall tw htw
    obtain ⟨hm, hat⟩ := atPoint_of_lookup _ _ _ ht
    simp only [firstAt, ht, Option.getD_some]
    exact ⟨hext.pts _ _ hm, hat⟩
  · intro val
    rw [gden_prune]
    have := (combineG_spec w0 hw0 x d [] (by simp [Dict.keys]) hall).2 val
    have e : gden val (combineG w0 d x) = gden val [] + (d.map (fun tw => ((tw.2 : ℚ) : ℝ) * gden val (firstAt w0 x tw.1).g)).sum := this
    rw [e]; simp [gden, Dict.denM]
  · intro φ
    rw [vden_prune]
    have := (combineV_spec w0 hw0 x d [] (by simp [Dict.keys]) hall).2 φ
    have e : vden φ (combineV w0 d x) = vden φ [] + (d.map (fun tw => ((tw.2 : ℚ) : ℝ) * vden φ (firstAt w0 x tw.1).v)).sum := this
    rw [e]; simp [vden, Dict.denM]

/-- **`oracle` preserves the invariant**, on leaf and composite functions alike -/
theorem oracleA_inv (w : AW) (f : Nat) (x : PDict) (hf : f < w.funs.length) (hx : (Dict.keys x).Nodup)
    (hi : OInv w) : OInv (oracleA w f x).1 := by
  unfold oracleA
  by_cases hleaf : (w.getF f).isLeaf = true
  · simp only [hleaf, if_true]; exact oracleLeafA_inv w f x hf hleaf hx hi
  · have hcomp : (w.getF f).isLeaf = false := by simpa using hleaf
    simp only [hcomp, Bool.false_eq_true, if_false]
    -- the world with the decomposition pruned
    set w0 := w.setDecomp f (Dict.prune (w.getF f).decomp) with hw0def
    have hext0 : Extends w w0 := extends_setDecomp_prune w f
    have hi0 : OInv w0 := by
      obtain ⟨hw, hs, hc⟩ := hi
      refine ⟨wfW_setDecomp w f _ hw, struct_of_extends hext0 hs, consistent_of_extends hext0 hc ?_⟩
      intro g _ _ t ht hnot
      rw [ptsFrame_setDecomp w f _ g (fun h => h)] at ht
      exact absurd ht hnot
    have hf0 : f < w0.funs.length := by rw [hext0.len]; exact hf
    have hcomp0 : (w0.getF f).isLeaf = false := by rw [(hext0.flags f).1]; exact hcomp
    have hdec0 : (w0.getF f).decomp = Dict.prune (w.getF f).decomp := by
      rw [hw0def, getF_setDecomp]; simp [hf]
    have hpp : Dict.prune (w0.getF f).decomp = (w0.getF f).decomp := by rw [hdec0, prune_prune]
    obtain ⟨hw0, hs0, hc0⟩ := hi0
    obtain ⟨hterms0, hnd0, hre0⟩ := hs0 f hf0 hcomp0
    -- generic closing step: adding the triplet (x, g, v) in a world that differs from w0 by counters only
    have close : ∀ (a b : Nat) (g : PDict) (v : EDict), (Dict.keys g).Nodup → (Dict.keys v).Nodup →
        (someTermNeeds ({ w0 with nP := a, nE := b } : AW) f ⟨x, g, v⟩ = false →
          SumWitnessF (addPointA ({ w0 with nP := a, nE := b } : AW) f ⟨x, g, v⟩)
            (Dict.prune (w0.getF f).decomp) (Dict.prune x) (Dict.prune g) (Dict.prune v)) →
        OInv (addPointA ({ w0 with nP := a, nE := b } : AW) f ⟨x, g, v⟩) := by
      intro a b g v hg hv hnone
      exact addPointA_composite_inv _ f ⟨x, g, v⟩ (oinv_counters w0 a b ⟨hw0, hs0, hc0⟩) hf0 hcomp0 hx hg hv hnone
    -- when nobody needs anything after recording, nobody needed anything before (same lists, same flags)
    have noneed : ∀ (a b : Nat) (g : PDict) (v : EDict),
        someTermNeeds ({ w0 with nP := a, nE := b } : AW) f ⟨x, g, v⟩ = false →
        (classify w0 (w0.getF f).decomp x).2.1 = [] ∧ (classify w0 (w0.getF f).decomp x).2.2 = [] := by
      intro a b g v hnn
      unfold someTermNeeds at hnn
      simp only [Bool.not_eq_eq_eq_not, Bool.not_false, List.isEmpty_iff] at hnn
      set u : AW := { w0 with nP := a, nE := b } with hu
      have hdecu : ((u.record f ⟨x, g, v⟩).getF f).decomp = (w0.getF f).decomp := by
        simp only [AW.record]; rw [getF_setPts]; split <;> rfl
      rw [hdecu, hpp] at hnn
      have hcg : classify (preLoop u f ⟨x, g, v⟩) (w0.getF f).decomp (Dict.prune x) = classify w0 (w0.getF f).decomp x := by
        unfold classify
        apply classify_congr w0 (preLoop u f ⟨x, g, v⟩) x (Dict.prune x) (by rw [prune_prune])
        intro tw htw
        rw [← hpp] at htw
        have hne : tw.1 ≠ f := by
          intro e; have := (hterms0 tw htw).2; rw [e, hcomp0] at this; cases this
        have hfr : PtsFrame u (preLoop u f ⟨x, g, v⟩) (fun g' => g' = f) :=
          ((ptsFrame_record u f _).trans (ptsFrame_setDecomp _ f _)).mono (fun g' h => h.elim id (fun h => h.elim))
        have hex : Extends u (preLoop u f ⟨x, g, v⟩) := (extends_record u f _).trans (extends_setDecomp_prune _ f)
        exact ⟨hfr tw.1 hne, (hex.flags tw.1).2.1⟩
      rw [hcg] at hnn
      exact List.append_eq_nil_iff.mp hnn
    -- now the case analysis of `oracle`
    cases hassoc : lookupTriple (w0.getF f).pts x with
    | some t =>
      by_cases hr : (w0.getF f).reuse = true
      · simp only [hassoc, hr]; exact ⟨hw0, hs0, hc0⟩
      · have hrf : (w0.getF f).reuse = false := by simpa using hr
        simp only [hassoc, hrf]
        obtain ⟨htm, _⟩ := mem_of_find? _ _ _ hassoc
        have htv : (Dict.keys t.v).Nodup := (hw0 f t htm).2.2
        -- a non-differentiable composite has a non-differentiable term: somebody always needs something
        obtain ⟨twn, htwn, hrn⟩ := hre0 hrf
        rw [hpp] at htwn
        split
        · next hboth =>
          -- all terms "need nothing": impossible
          exfalso
          simp only [Bool.and_eq_true, List.isEmpty_iff] at hboth
          have := (classify_none_need w0 (w0.getF f).decomp x hboth.2 hboth.1 twn htwn).2
          rw [hrn] at this; cases this
        · apply close _ _ _ _ (by simp [leafPoint, Dict.keys]) htv
          intro hnn
          exfalso
          obtain ⟨e1, e2⟩ := noneed _ _ _ _ hnn
          have := (classify_none_need w0 (w0.getF f).decomp x e1 e2 twn htwn).2
          rw [hrn] at this; cases this
    | none =>
      simp only [hassoc]
      by_cases hn2 : (classify w0 (w0.getF f).decomp x).2.2.isEmpty = true
      · simp only [hn2, if_true, Bool.true_and]
        by_cases hn1 : (classify w0 (w0.getF f).decomp x).2.1.isEmpty = true
        · -- everything is determined by the terms: the triplet is the combination of stored triplets
          simp only [hn1, if_true]
          have hall := classify_none_need w0 (w0.getF f).decomp x (List.isEmpty_iff.mp hn1) (List.isEmpty_iff.mp hn2)
          have hall' : ∀ tw ∈ (w0.getF f).decomp, ∃ t, lookupTriple (w0.getF tw.1).pts x = some t :=
            fun tw htw => (hall tw htw).1
          have hkg := (combineG_spec w0 hw0 x (w0.getF f).decomp [] (by simp [Dict.keys]) hall').1
          have hkv := (combineV_spec w0 hw0 x (w0.getF f).decomp [] (by simp [Dict.keys]) hall').1
          have hcl := close w0.nP w0.nE (combineG w0 (w0.getF f).decomp x) (combineV w0 (w0.getF f).decomp x) hkg hkv
          apply hcl
          intro _
          rw [hpp]
          have hex : Extends w0 (addPointA ({ w0 with nP := w0.nP, nE := w0.nE } : AW) f
              ⟨x, combineG w0 (w0.getF f).decomp x, combineV w0 (w0.getF f).decomp x⟩) :=
            (addPointA_composite_spec _ f _ hw0 hx hkg hkv hcomp0 (fun tw htw => (hterms0 tw htw).1) hnd0).1
          exact witness_of_combine w0 _ hw0 hex (w0.getF f).decomp x hall'
        · simp only [hn1, Bool.false_eq_true, if_false]
          have hall2 : ∀ tw ∈ (w0.getF f).decomp, True := fun _ _ => trivial
          -- value by combination needs every term evaluated: n2 empty gives it
          have hkv : (Dict.keys (combineV w0 (w0.getF f).decomp x)).Nodup := by
            -- n2 = [] means every term is evaluated at x
            have hev : ∀ tw ∈ (w0.getF f).decomp, ∃ t, lookupTriple (w0.getF tw.1).pts x = some t := by
              intro tw htw
              by_contra hno
              have hnone' : lookupTriple (w0.getF tw.1).pts x = none := by
                cases h : lookupTriple (w0.getF tw.1).pts x with
                | none => rfl
                | some t' => exact absurd ⟨t', h⟩ hno
              -- then tw lands in n2
              have : tw ∈ (classify w0 (w0.getF f).decomp x).2.2 := by
                have key : ∀ (d : Dict Nat) (a0 a1 a2 : List (Nat × Coef)), tw ∈ d →
                    tw ∈ (d.foldl (classifyStep w0 x) (a0, a1, a2)).2.2 := by
                  intro d
                  induction d with
                  | nil => intro _ _ _ h; cases h
                  | cons hd rest ih =>
                    intro a0 a1 a2 hmem
                    rw [List.foldl_cons]
                    have grow : ∀ (d' : Dict Nat) (b0 b1 b2 : List (Nat × Coef)) (y : Nat × Coef), y ∈ b2 →
                        y ∈ (d'.foldl (classifyStep w0 x) (b0, b1, b2)).2.2 := by
                      intro d'
                      induction d' with
                      | nil => intro _ _ _ _ h; exact h
                      | cons hd' rest' ih' =>
                        intro b0 b1 b2 y hy
                        rw [List.foldl_cons]
                        unfold classifyStep
                        simp only
                        cases lookupTriple (w0.getF hd'.1).pts x with
                        | some _ => by_cases hr' : (w0.getF hd'.1).reuse = true <;> simp only [hr', if_true, Bool.false_eq_true, if_false] <;> exact ih' _ _ _ y hy
                        | none => exact ih' _ _ _ y (List.mem_append_left _ hy)
                    rcases List.mem_cons.mp hmem with rfl | hm
                    · have hstep : classifyStep w0 x (a0, a1, a2) tw = (a0, a1, a2 ++ [tw]) := by
                        unfold classifyStep; simp only [hnone']
                      rw [hstep]; exact grow rest a0 a1 (a2 ++ [tw]) tw (by simp)
                    · unfold classifyStep
                      simp only
                      cases lookupTriple (w0.getF hd.1).pts x with
                      | some _ => by_cases hr' : (w0.getF hd.1).reuse = true <;> simp only [hr', if_true, Bool.false_eq_true, if_false] <;> exact ih _ _ _ hm
                      | none => exact ih _ _ _ hm
                exact key _ [] [] [] htw
              rw [List.isEmpty_iff.mp hn2] at this; cases this
            exact (combineV_spec w0 hw0 x (w0.getF f).decomp [] (by simp [Dict.keys]) hev).1
          apply close _ _ _ _ (by simp [leafPoint, Dict.keys]) hkv
          intro hnn
          exfalso
          obtain ⟨e1, _⟩ := noneed _ _ _ _ hnn
          exact hn1 (List.isEmpty_iff.mpr e1)
      · simp only [hn2, Bool.false_eq_true, if_false, Bool.false_and]
        apply close _ _ _ _ (by simp [leafPoint, Dict.keys]) (by simp [leafExpr, Dict.keys])
        intro hnn
        exfalso
        obtain ⟨_, e2⟩ := noneed _ _ _ _ hnn
        exact hn2 (List.isEmpty_iff.mpr e2)

end Pepit

#print axioms Pepit.oracleA_inv
