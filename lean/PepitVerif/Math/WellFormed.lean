import PepitVerif.Math.AlgebraSem
import Mathlib.Data.List.Nodup

/-!
# Well-formedness (duplicate-free keys) is preserved by every operator, and comparisons
denote what is written (property C06).
-/

open RealInnerProductSpace

namespace Dict
variable {κ : Type} [DecidableEq κ]

omit [DecidableEq κ] in
theorem keys_cons (k : κ) (c : Coef) (t : Dict κ) : keys ((k, c) :: t) = k :: keys t := rfl

theorem keys_set_of_mem (m : Dict κ) (k : κ) (c : Coef) (h : k ∈ keys m) : keys (set m k c) = keys m := by
  induction m with
  | nil => simp [keys] at h
  | cons hd' t' ih' =>
    obtain ⟨k', c'⟩ := hd'
    by_cases heq : k' = k
    · simp [set, heq, keys]
    · rw [keys_cons, List.mem_cons] at h
      have : k ∈ keys t' := by
        rcases h with h | h
        · exact absurd h.symm heq
        · exact h
      simp only [set, heq, if_false, keys_cons, ih' this]

theorem keys_merge_aux (d1 : Dict κ) :
    ∀ (d2 m : Dict κ), (∀ k, k ∈ keys d1 → k ∈ keys m) →
      keys (d2.foldl (fun m kc => if d1.contains kc.1 then addAt m kc.1 kc.2 else set m kc.1 kc.2) m)
        = (keys d2).foldl (fun ks k => if k ∈ ks then ks else ks ++ [k]) (keys m) := by
  intro d2
  induction d2 with
  | nil => intro m _; rfl
  | cons hd t ih =>
    obtain ⟨k, c⟩ := hd
    intro m hm
    simp only [List.foldl_cons, keys_cons]
    by_cases hc : d1.contains k = true
    · have hk1 : k ∈ keys d1 := (contains_iff_mem_keys d1 k).mp hc
      rw [if_pos hc, ih _ (by intro k' hk'; rw [keys_addAt]; exact hm k' hk'), keys_addAt,
        if_pos (hm k hk1)]
    · rw [if_neg hc]
      by_cases hkm : k ∈ keys m
      · rw [ih _ (by intro k' hk'; rw [keys_set_of_mem m k c hkm]; exact hm k' hk'),
          keys_set_of_mem m k c hkm, if_pos hkm]
      · rw [ih _ (by intro k' hk'; rw [keys_set_of_not_mem m k c hkm];
                     exact List.mem_append_left _ (hm k' hk')),
          keys_set_of_not_mem m k c hkm, if_neg hkm]

/-- appending unseen keys keeps a list duplicate-free -/
theorem nodup_foldl_insert (l ks : List κ) (h : ks.Nodup) :
    (l.foldl (fun ks k => if k ∈ ks then ks else ks ++ [k]) ks).Nodup := by
  induction l generalizing ks with
  | nil => simpa
  | cons a t ih =>
    simp only [List.foldl_cons]
    by_cases ha : a ∈ ks
    · rw [if_pos ha]; exact ih ks h
    · rw [if_neg ha]; apply ih
      rw [List.nodup_append]
      refine ⟨h, by simp, ?_⟩
      intro x hx y hy
      simp only [List.mem_singleton] at hy
      subst hy
      intro hxy; subst hxy; exact ha hx

/-- `merge_dict` keeps keys duplicate-free (whatever `dict2` is). -/
theorem nodup_keys_merge (d1 d2 : Dict κ) (h1 : (keys d1).Nodup) : (keys (merge d1 d2)).Nodup := by
  unfold merge
  rw [keys_merge_aux d1 d2 d1 (fun _ h => h)]
  exact nodup_foldl_insert _ _ h1

omit [DecidableEq κ] in
theorem nodup_keys_prune (d : Dict κ) (h : (keys d).Nodup) : (keys (prune d)).Nodup := by
  unfold prune keys at *
  exact (List.Nodup.sublist ((List.filter_sublist).map _) h)

omit [DecidableEq κ] in
theorem nodup_keys_scale (d : Dict κ) (c : Coef) (h : (keys d).Nodup) : (keys (scale d c)).Nodup := by
  rw [keys_scale]; exact h

omit [DecidableEq κ] in
/-- pruned dictionaries have no zero coefficient -/
theorem prune_no_zero (d : Dict κ) : ∀ kc ∈ prune d, kc.2 ≠ 0 := by
  intro kc h
  simp only [prune, List.mem_filter, bne_iff_ne, ne_eq] at h
  exact h.2

end Dict

variable {E : Type*} [NormedAddCommGroup E] [InnerProductSpace ℝ E]

namespace PDict
theorem wf_add (a b : PDict) (ha : (Dict.keys a).Nodup) : (Dict.keys (add a b)).Nodup :=
  Dict.nodup_keys_prune _ (Dict.nodup_keys_merge a b ha)
theorem wf_smul (c : Coef) (a : PDict) (ha : (Dict.keys a).Nodup) : (Dict.keys (smul c a)).Nodup :=
  Dict.nodup_keys_scale a c ha
theorem wf_neg (a : PDict) (ha : (Dict.keys a).Nodup) : (Dict.keys (neg a)).Nodup := wf_smul _ a ha
theorem wf_sub (a b : PDict) (ha : (Dict.keys a).Nodup) : (Dict.keys (sub a b)).Nodup := wf_add a _ ha
theorem add_pruned (a b : PDict) : ∀ kc ∈ add a b, kc.2 ≠ 0 := Dict.prune_no_zero _
end PDict

namespace EDict
theorem wf_add (a b : EDict) (ha : (Dict.keys a).Nodup) : (Dict.keys (add a b)).Nodup :=
  Dict.nodup_keys_prune _ (Dict.nodup_keys_merge a b ha)
theorem wf_smul (c : Coef) (a : EDict) (ha : (Dict.keys a).Nodup) : (Dict.keys (smul c a)).Nodup :=
  Dict.nodup_keys_scale a c ha
theorem wf_sub (a b : EDict) (ha : (Dict.keys a).Nodup) : (Dict.keys (sub a b)).Nodup := wf_add a _ ha
theorem wf_addConst (a : EDict) (c : Coef) (ha : (Dict.keys a).Nodup) :
    (Dict.keys (addConst a c)).Nodup :=
  Dict.nodup_keys_prune _ (Dict.nodup_keys_merge a _ ha)
end EDict

/-- a constraint holds under an interpretation -/
def ConsD.holds (v : Nat → E) (φ : Nat → ℝ) (c : ConsD) : Prop :=
  if c.isEq then EDict.den v φ c.e = 0 else EDict.den v φ c.e ≤ 0

namespace ConsD
variable (v : Nat → E) (φ : Nat → ℝ)

/-- `a <= b` is the inequality constraint whose expression denotes `a - b`. -/
theorem le_spec (a b : EDict) (hb : (Dict.keys b).Nodup) :
    (le a b).isEq = false ∧ EDict.den v φ (le a b).e = EDict.den v φ a - EDict.den v φ b ∧
    (holds v φ (le a b) ↔ EDict.den v φ a ≤ EDict.den v φ b) := by
  refine ⟨rfl, EDict.den_sub v φ a b hb, ?_⟩
  simp only [holds, le, Bool.false_eq_true, if_false, EDict.den_sub v φ a b hb]
  constructor <;> intro h <;> linarith

/-- `a >= b` is the inequality constraint whose expression denotes `b - a`. -/
theorem ge_spec (a b : EDict) (hb : (Dict.keys b).Nodup) :
    (ge a b).isEq = false ∧ EDict.den v φ (ge a b).e = EDict.den v φ b - EDict.den v φ a ∧
    (holds v φ (ge a b) ↔ EDict.den v φ b ≤ EDict.den v φ a) := by
  have hnb : (Dict.keys (EDict.neg b)).Nodup := EDict.wf_smul _ b hb
  have hden : EDict.den v φ (ge a b).e = EDict.den v φ b - EDict.den v φ a := by
    simp only [ge, le]; rw [EDict.den_sub v φ _ _ hnb, EDict.den_neg, EDict.den_neg]; ring
  refine ⟨rfl, hden, ?_⟩
  have : (ge a b).isEq = false := rfl
  simp only [holds, this, Bool.false_eq_true, if_false, hden]
  constructor <;> intro h <;> linarith

/-- `a == b` is the equality constraint whose expression denotes `a - b`. -/
theorem eq_spec (a b : EDict) (hb : (Dict.keys b).Nodup) :
    (eq a b).isEq = true ∧ EDict.den v φ (eq a b).e = EDict.den v φ a - EDict.den v φ b ∧
    (holds v φ (eq a b) ↔ EDict.den v φ a = EDict.den v φ b) := by
  refine ⟨rfl, EDict.den_sub v φ a b hb, ?_⟩
  simp only [holds, eq, if_true, EDict.den_sub v φ a b hb]
  constructor <;> intro h <;> linarith

end ConsD

#print axioms ConsD.ge_spec
#print axioms Dict.nodup_keys_merge
