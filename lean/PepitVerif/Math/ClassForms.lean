import PepitModel.QForm
import PepitModel.GenClasses
import Mathlib.Analysis.InnerProductSpace.Basic
import Mathlib.Tactic.Ring
import Mathlib.Tactic.FieldSimp
import Mathlib.Tactic.Linarith

/-!
# Generated class formulas denote their canonical forms

One obligation `QForm.den (Gen.<Class>.<cond> params) = Canon.<cond>` per generated definition,
all closed by the same tactic `gen_den`; the mathematics of C03 is proved about `Canon`.
Canonical forms are written with inner products only; a constraint `a >= b` has expression
`b - a`, a constraint `a <= b` or `a == b` has expression `a - b`.
-/

open RealInnerProductSpace

variable {E : Type*} [NormedAddCommGroup E] [InnerProductSpace ℝ E]

def qkeyVal (pv : PSym → E) (fv : FSym → ℝ) : QKey → ℝ
  | .f s => fv s
  | .ip a b => ⟪pv a, pv b⟫
  | .one => 1

noncomputable def QForm.den (pv : PSym → E) (fv : FSym → ℝ) (q : QForm) : ℝ :=
  (q.map (fun kc => ((kc.2 : ℚ) : ℝ) * qkeyVal pv fv kc.1)).sum

/-- expand both sides into the 36 oriented inner products of the 8 symbols and compare as
rational functions of the parameters -/
macro "gen_den" pv:ident : tactic => `(tactic| (
  simp only [QForm.den, List.map_cons, List.map_nil, List.sum_cons, List.sum_nil, qkeyVal,
    inner_sub_left, inner_sub_right, real_inner_smul_left, real_inner_smul_right,
    real_inner_comm ($pv .gi) ($pv .xi), real_inner_comm ($pv .xj) ($pv .xi), real_inner_comm ($pv .gj) ($pv .xi),
    real_inner_comm ($pv .xs) ($pv .xi), real_inner_comm ($pv .v) ($pv .xi), real_inner_comm ($pv .gik) ($pv .xi),
    real_inner_comm ($pv .gjk) ($pv .xi),
    real_inner_comm ($pv .xj) ($pv .gi), real_inner_comm ($pv .gj) ($pv .gi), real_inner_comm ($pv .xs) ($pv .gi),
    real_inner_comm ($pv .v) ($pv .gi), real_inner_comm ($pv .gik) ($pv .gi), real_inner_comm ($pv .gjk) ($pv .gi),
    real_inner_comm ($pv .gj) ($pv .xj), real_inner_comm ($pv .xs) ($pv .xj), real_inner_comm ($pv .v) ($pv .xj),
    real_inner_comm ($pv .gik) ($pv .xj), real_inner_comm ($pv .gjk) ($pv .xj),
    real_inner_comm ($pv .xs) ($pv .gj), real_inner_comm ($pv .v) ($pv .gj), real_inner_comm ($pv .gik) ($pv .gj),
    real_inner_comm ($pv .gjk) ($pv .gj),
    real_inner_comm ($pv .v) ($pv .xs), real_inner_comm ($pv .gik) ($pv .xs), real_inner_comm ($pv .gjk) ($pv .xs),
    real_inner_comm ($pv .gik) ($pv .v), real_inner_comm ($pv .gjk) ($pv .v),
    real_inner_comm ($pv .gjk) ($pv .gik)]
  push_cast
  try field_simp
  try ring))

namespace Canon
variable (pv : PSym → E) (fv : FSym → ℝ)

/-- `fi - fj >= gj * (xi - xj)` -/
noncomputable def convexity : ℝ := ⟪pv .gj, pv .xi - pv .xj⟫ - (fv .fi - fv .fj)
/-- `fi - fj >= gj * (xi - xj) + mu / 2 * (xi - xj) ** 2` -/
noncomputable def strongConvexity (μ : ℝ) : ℝ :=
  ⟪pv .gj, pv .xi - pv .xj⟫ + μ / 2 * ⟪pv .xi - pv .xj, pv .xi - pv .xj⟫ - (fv .fi - fv .fj)
/-- `gi ** 2 <= M ** 2` -/
noncomputable def gradBound (M : ℝ) : ℝ := ⟪pv .gi, pv .gi⟫ - M ^ 2
/-- `fi == 0` -/
noncomputable def valueZero : ℝ := fv .fi
/-- `0 >= gj * (xi - xj)` -/
noncomputable def normalCone : ℝ := ⟪pv .gj, pv .xi - pv .xj⟫
/-- `(xi - xj) ** 2 <= D ** 2` -/
noncomputable def diameter (D : ℝ) : ℝ := ⟪pv .xi - pv .xj, pv .xi - pv .xj⟫ - D ^ 2
/-- `fi - fj >= gj * (xi - xj) + 1 / (2 L) * gj ** 2` -/
noncomputable def qg (L : ℝ) : ℝ :=
  ⟪pv .gj, pv .xi - pv .xj⟫ + 1 / (2 * L) * ⟪pv .gj, pv .gj⟫ - (fv .fi - fv .fj)
/-- `gi * xi - fi == 0` -/
noncomputable def fenchel : ℝ := ⟪pv .gi, pv .xi⟫ - fv .fi
/-- `xj * (gi - gj) <= 0` -/
noncomputable def supportConvexity : ℝ := ⟪pv .xj, pv .gi - pv .gj⟫
/-- `(gi - gj) * (xi - xj) - mu * (xi - xj) ** 2 >= 0` -/
noncomputable def strongMonotone (μ : ℝ) : ℝ :=
  -(⟪pv .gi - pv .gj, pv .xi - pv .xj⟫ - μ * ⟪pv .xi - pv .xj, pv .xi - pv .xj⟫)
/-- `(gi - gj) ** 2 - L ** 2 * (xi - xj) ** 2 <= 0` -/
noncomputable def lipschitz (L : ℝ) : ℝ :=
  ⟪pv .gi - pv .gj, pv .gi - pv .gj⟫ - L ^ 2 * ⟪pv .xi - pv .xj, pv .xi - pv .xj⟫
/-- smooth convex interpolation -/
noncomputable def sc (L : ℝ) : ℝ :=
  ⟪pv .gj, pv .xi - pv .xj⟫ + 1 / (2 * L) * ⟪pv .gi - pv .gj, pv .gi - pv .gj⟫ - (fv .fi - fv .fj)
/-- smooth (non-convex) interpolation -/
noncomputable def smooth (L : ℝ) : ℝ :=
  (-(L / 4) * ⟪pv .xi - pv .xj, pv .xi - pv .xj⟫ + 1 / 2 * ⟪pv .gi + pv .gj, pv .xi - pv .xj⟫
    + 1 / (4 * L) * ⟪pv .gi - pv .gj, pv .gi - pv .gj⟫) - (fv .fi - fv .fj)
/-- smooth strongly convex interpolation -/
noncomputable def ssc (μ L : ℝ) : ℝ :=
  (⟪pv .gj, pv .xi - pv .xj⟫ + 1 / (2 * L) * ⟪pv .gi - pv .gj, pv .gi - pv .gj⟫
    + μ / (2 * (1 - μ / L)) * ⟪pv .xi - pv .xj - (1 / L) • (pv .gi - pv .gj),
                                pv .xi - pv .xj - (1 / L) • (pv .gi - pv .gj)⟫) - (fv .fi - fv .fj)
/-- `fi - fs == 0.5 * (xi - xs) * gi` -/
noncomputable def quadValue : ℝ := (fv .fi - fv .fs) - 1 / 2 * ⟪pv .xi - pv .xs, pv .gi⟫
/-- `(xi - xs) * gj == (xj - xs) * gi` -/
noncomputable def quadSymmetry : ℝ := ⟪pv .xi - pv .xs, pv .gj⟫ - ⟪pv .xj - pv .xs, pv .gi⟫
/-- `(L + mu) * gi * (xj - xs) - gi * gj - mu * L * (xi - xs) * (xj - xs)` -/
noncomputable def quadLmi (μ L : ℝ) : ℝ :=
  (L + μ) * ⟪pv .gi, pv .xj - pv .xs⟫ - ⟪pv .gi, pv .gj⟫ - μ * L * ⟪pv .xi - pv .xs, pv .xj - pv .xs⟫
/-- `(gi - gj) * (xi - xj) - beta * (gi - gj) ** 2 >= 0` -/
noncomputable def cocoercive (β : ℝ) : ℝ :=
  -(⟪pv .gi - pv .gj, pv .xi - pv .xj⟫ - β * ⟪pv .gi - pv .gj, pv .gi - pv .gj⟫)
/-- `(gi - gj) * (xi - xj) >= 0` -/
noncomputable def monotone : ℝ := -⟪pv .gi - pv .gj, pv .xi - pv .xj⟫
/-- `(gi - gj) * (xi - xj) + rho * (gi - gj) ** 2 >= 0` -/
noncomputable def negComonotone (ρ : ℝ) : ℝ :=
  -(⟪pv .gi - pv .gj, pv .xi - pv .xj⟫ + ρ * ⟪pv .gi - pv .gj, pv .gi - pv .gj⟫)
/-- `(gi - gj) ** 2 - (xi - xj) ** 2 <= 0` -/
noncomputable def nonexpansive : ℝ :=
  ⟪pv .gi - pv .gj, pv .gi - pv .gj⟫ - ⟪pv .xi - pv .xj, pv .xi - pv .xj⟫
/-- `v ** 2 - (xi - gi) * v <= 0` -/
noncomputable def infimalDisplacement : ℝ := ⟪pv .v, pv .v⟫ - ⟪pv .xi - pv .gi, pv .v⟫
/-- `xi * vj == yi * uj` with `(xj, gj) = (u, v)` -/
noncomputable def adjoint : ℝ := ⟪pv .xi, pv .gj⟫ - ⟪pv .gi, pv .xj⟫
/-- `L ** 2 * xi * xj - yi * yj` -/
noncomputable def normLmi (L : ℝ) : ℝ := L ^ 2 * ⟪pv .xi, pv .xj⟫ - ⟪pv .gi, pv .gj⟫
noncomputable def normLmiDiagJ (L : ℝ) : ℝ := L ^ 2 * ⟪pv .xj, pv .xj⟫ - ⟪pv .gj, pv .gj⟫
/-- `xi * gj == - xj * gi` -/
noncomputable def antisymmetry : ℝ := ⟪pv .xi, pv .gj⟫ + ⟪pv .xj, pv .gi⟫
/-- `xi * gj == xj * gi` -/
noncomputable def symmetry : ℝ := ⟪pv .xi, pv .gj⟫ - ⟪pv .xj, pv .gi⟫
/-- `L * gi * xj - gi * gj - mu * L * xi * xj + mu * xi * gj` -/
noncomputable def symLmi (μ L : ℝ) : ℝ :=
  L * ⟪pv .gi, pv .xj⟫ - ⟪pv .gi, pv .gj⟫ - μ * L * ⟪pv .xi, pv .xj⟫ + μ * ⟪pv .xi, pv .gj⟫
/-- block-smooth: `fi - fj >= gj * (xi - xj) + 1 / (2 L_k) * (gik - gjk) ** 2` -/
noncomputable def blockSmooth (Lk : ℝ) : ℝ :=
  ⟪pv .gj, pv .xi - pv .xj⟫ + 1 / (2 * Lk) * ⟪pv .gik - pv .gjk, pv .gik - pv .gjk⟫ - (fv .fi - fv .fj)
end Canon

section den
variable (pv : PSym → E) (fv : FSym → ℝ)

theorem den_ConvexFunction_convexity :
    QForm.den pv fv Gen.ConvexFunction.convexity = Canon.convexity pv fv := by
  unfold Gen.ConvexFunction.convexity Canon.convexity; gen_den pv
theorem den_ConvexIndicatorFunction_value (D : ℚ) :
    QForm.den pv fv (Gen.ConvexIndicatorFunction.value D) = Canon.valueZero fv := by
  unfold Gen.ConvexIndicatorFunction.value Canon.valueZero; gen_den pv
theorem den_ConvexIndicatorFunction_convexity (D : ℚ) :
    QForm.den pv fv (Gen.ConvexIndicatorFunction.convexity D) = Canon.normalCone pv := by
  unfold Gen.ConvexIndicatorFunction.convexity Canon.normalCone; gen_den pv
theorem den_ConvexIndicatorFunction_diameter (D : ℚ) :
    QForm.den pv fv (Gen.ConvexIndicatorFunction.diameter D) = Canon.diameter pv (D : ℝ) := by
  unfold Gen.ConvexIndicatorFunction.diameter Canon.diameter; gen_den pv
theorem den_ConvexLipschitzFunction_lipschitz_continuity (M : ℚ) :
    QForm.den pv fv (Gen.ConvexLipschitzFunction.lipschitz_continuity M) = Canon.gradBound pv (M : ℝ) := by
  unfold Gen.ConvexLipschitzFunction.lipschitz_continuity Canon.gradBound; gen_den pv
theorem den_ConvexLipschitzFunction_convexity (M : ℚ) :
    QForm.den pv fv (Gen.ConvexLipschitzFunction.convexity M) = Canon.convexity pv fv := by
  unfold Gen.ConvexLipschitzFunction.convexity Canon.convexity; gen_den pv
theorem den_ConvexQGFunction_qg_convexity (L : ℚ) (hL : L ≠ 0) :
    QForm.den pv fv (Gen.ConvexQGFunction.qg_convexity L) = Canon.qg pv fv (L : ℝ) := by
  have hL' : (L : ℝ) ≠ 0 := by exact_mod_cast hL
  unfold Gen.ConvexQGFunction.qg_convexity Canon.qg; gen_den pv
theorem den_ConvexQGFunction_convexity (L : ℚ) :
    QForm.den pv fv (Gen.ConvexQGFunction.convexity L) = Canon.convexity pv fv := by
  unfold Gen.ConvexQGFunction.convexity Canon.convexity; gen_den pv
theorem den_ConvexSupportFunction_fenchel_value (M : ℚ) :
    QForm.den pv fv (Gen.ConvexSupportFunction.fenchel_value M) = Canon.fenchel pv fv := by
  unfold Gen.ConvexSupportFunction.fenchel_value Canon.fenchel; gen_den pv
theorem den_ConvexSupportFunction_lipschitz_continuity (M : ℚ) :
    QForm.den pv fv (Gen.ConvexSupportFunction.lipschitz_continuity M) = Canon.gradBound pv (M : ℝ) := by
  unfold Gen.ConvexSupportFunction.lipschitz_continuity Canon.gradBound; gen_den pv
theorem den_ConvexSupportFunction_convexity (M : ℚ) :
    QForm.den pv fv (Gen.ConvexSupportFunction.convexity M) = Canon.supportConvexity pv := by
  unfold Gen.ConvexSupportFunction.convexity Canon.supportConvexity; gen_den pv
theorem den_RsiEbFunction_rsi (μ L : ℚ) :
    QForm.den pv fv (Gen.RsiEbFunction.rsi μ L) = Canon.strongMonotone pv (μ : ℝ) := by
  unfold Gen.RsiEbFunction.rsi Canon.strongMonotone; gen_den pv
theorem den_RsiEbFunction_eb (μ L : ℚ) :
    QForm.den pv fv (Gen.RsiEbFunction.eb μ L) = Canon.lipschitz pv (L : ℝ) := by
  unfold Gen.RsiEbFunction.eb Canon.lipschitz; gen_den pv
theorem den_SmoothConvexFunction_smoothness_convexity (L : ℚ) (hL : L ≠ 0) :
    QForm.den pv fv (Gen.SmoothConvexFunction.smoothness_convexity L) = Canon.sc pv fv (L : ℝ) := by
  have hL' : (L : ℝ) ≠ 0 := by exact_mod_cast hL
  unfold Gen.SmoothConvexFunction.smoothness_convexity Canon.sc; gen_den pv
theorem den_SmoothConvexLipschitzFunction_smoothness_convexity (L M : ℚ) (hL : L ≠ 0) :
    QForm.den pv fv (Gen.SmoothConvexLipschitzFunction.smoothness_convexity L M) = Canon.sc pv fv (L : ℝ) := by
  have hL' : (L : ℝ) ≠ 0 := by exact_mod_cast hL
  unfold Gen.SmoothConvexLipschitzFunction.smoothness_convexity Canon.sc; gen_den pv
theorem den_SmoothConvexLipschitzFunction_lipschitz_continuity (L M : ℚ) :
    QForm.den pv fv (Gen.SmoothConvexLipschitzFunction.lipschitz_continuity L M) = Canon.gradBound pv (M : ℝ) := by
  unfold Gen.SmoothConvexLipschitzFunction.lipschitz_continuity Canon.gradBound; gen_den pv
theorem den_SmoothFunction_smoothness (L : ℚ) (hL : L ≠ 0) :
    QForm.den pv fv (Gen.SmoothFunction.smoothness L) = Canon.smooth pv fv (L : ℝ) := by
  have hL' : (L : ℝ) ≠ 0 := by exact_mod_cast hL
  unfold Gen.SmoothFunction.smoothness Canon.smooth
  simp only [inner_add_left]
  gen_den pv
theorem den_SmoothStronglyConvexFunction_smoothness_strong_convexity (μ L : ℚ) (hL : L ≠ 0) (hμL : μ ≠ L) :
    QForm.den pv fv (Gen.SmoothStronglyConvexFunction.smoothness_strong_convexity μ L)
      = Canon.ssc pv fv (μ : ℝ) (L : ℝ) := by
  have hL' : (L : ℝ) ≠ 0 := by exact_mod_cast hL
  have hd : (1 - (μ : ℝ) / (L : ℝ)) ≠ 0 := by
    intro h
    have : (μ : ℝ) = (L : ℝ) := by field_simp at h; linarith
    exact hμL (by exact_mod_cast this)
  unfold Gen.SmoothStronglyConvexFunction.smoothness_strong_convexity Canon.ssc; gen_den pv
theorem den_SmoothStronglyConvexQuadraticFunction_value (μ L : ℚ) :
    QForm.den pv fv (Gen.SmoothStronglyConvexQuadraticFunction.value μ L) = Canon.quadValue pv fv := by
  unfold Gen.SmoothStronglyConvexQuadraticFunction.value Canon.quadValue; gen_den pv
theorem den_SmoothStronglyConvexQuadraticFunction_symmetry (μ L : ℚ) :
    QForm.den pv fv (Gen.SmoothStronglyConvexQuadraticFunction.symmetry μ L) = Canon.quadSymmetry pv := by
  unfold Gen.SmoothStronglyConvexQuadraticFunction.symmetry Canon.quadSymmetry; gen_den pv
theorem den_SmoothStronglyConvexQuadraticFunction_lmi0_entry (μ L : ℚ) :
    QForm.den pv fv (Gen.SmoothStronglyConvexQuadraticFunction.lmi0_entry μ L) = Canon.quadLmi pv (μ : ℝ) (L : ℝ) := by
  unfold Gen.SmoothStronglyConvexQuadraticFunction.lmi0_entry Canon.quadLmi; gen_den pv
theorem den_StronglyConvexFunction_strong_convexity (μ : ℚ) :
    QForm.den pv fv (Gen.StronglyConvexFunction.strong_convexity μ) = Canon.strongConvexity pv fv (μ : ℝ) := by
  unfold Gen.StronglyConvexFunction.strong_convexity Canon.strongConvexity; gen_den pv
theorem den_CocoerciveOperator_cocoercivity (β : ℚ) :
    QForm.den pv fv (Gen.CocoerciveOperator.cocoercivity β) = Canon.cocoercive pv (β : ℝ) := by
  unfold Gen.CocoerciveOperator.cocoercivity Canon.cocoercive; gen_den pv
theorem den_CocoerciveStronglyMonotoneOperator_cocoercivity (μ β : ℚ) :
    QForm.den pv fv (Gen.CocoerciveStronglyMonotoneOperator.cocoercivity μ β) = Canon.cocoercive pv (β : ℝ) := by
  unfold Gen.CocoerciveStronglyMonotoneOperator.cocoercivity Canon.cocoercive; gen_den pv
theorem den_CocoerciveStronglyMonotoneOperator_strong_monotonicity (μ β : ℚ) :
    QForm.den pv fv (Gen.CocoerciveStronglyMonotoneOperator.strong_monotonicity μ β) = Canon.strongMonotone pv (μ : ℝ) := by
  unfold Gen.CocoerciveStronglyMonotoneOperator.strong_monotonicity Canon.strongMonotone; gen_den pv
theorem den_LinearOperator_adjoint (L : ℚ) :
    QForm.den pv fv (Gen.LinearOperator.adjoint L) = Canon.adjoint pv := by
  unfold Gen.LinearOperator.adjoint Canon.adjoint; gen_den pv
theorem den_LinearOperator_lmi0_entry (L : ℚ) :
    QForm.den pv fv (Gen.LinearOperator.lmi0_entry L) = Canon.normLmi pv (L : ℝ) := by
  unfold Gen.LinearOperator.lmi0_entry Canon.normLmi; gen_den pv
theorem den_LinearOperator_lmi1_entry_jj (L : ℚ) :
    QForm.den pv fv (Gen.LinearOperator.lmi1_entry_jj L) = Canon.normLmiDiagJ pv (L : ℝ) := by
  unfold Gen.LinearOperator.lmi1_entry_jj Canon.normLmiDiagJ; gen_den pv
theorem den_LipschitzOperator_lipschitz_continuity (L : ℚ) :
    QForm.den pv fv (Gen.LipschitzOperator.lipschitz_continuity L) = Canon.lipschitz pv (L : ℝ) := by
  unfold Gen.LipschitzOperator.lipschitz_continuity Canon.lipschitz; gen_den pv
theorem den_LipschitzStronglyMonotoneOperator_strong_monotonicity (μ L : ℚ) :
    QForm.den pv fv (Gen.LipschitzStronglyMonotoneOperator.strong_monotonicity μ L) = Canon.strongMonotone pv (μ : ℝ) := by
  unfold Gen.LipschitzStronglyMonotoneOperator.strong_monotonicity Canon.strongMonotone; gen_den pv
theorem den_LipschitzStronglyMonotoneOperator_lipschitz_continuity (μ L : ℚ) :
    QForm.den pv fv (Gen.LipschitzStronglyMonotoneOperator.lipschitz_continuity μ L) = Canon.lipschitz pv (L : ℝ) := by
  unfold Gen.LipschitzStronglyMonotoneOperator.lipschitz_continuity Canon.lipschitz; gen_den pv
theorem den_MonotoneOperator_monotonicity :
    QForm.den pv fv Gen.MonotoneOperator.monotonicity = Canon.monotone pv := by
  unfold Gen.MonotoneOperator.monotonicity Canon.monotone; gen_den pv
theorem den_NegativelyComonotoneOperator_negative_comonotonicity (ρ : ℚ) :
    QForm.den pv fv (Gen.NegativelyComonotoneOperator.negative_comonotonicity ρ) = Canon.negComonotone pv (ρ : ℝ) := by
  unfold Gen.NegativelyComonotoneOperator.negative_comonotonicity Canon.negComonotone; gen_den pv
theorem den_NonexpansiveOperator_nonexpansiveness :
    QForm.den pv fv Gen.NonexpansiveOperator.nonexpansiveness = Canon.nonexpansive pv := by
  unfold Gen.NonexpansiveOperator.nonexpansiveness Canon.nonexpansive; gen_den pv
theorem den_NonexpansiveOperator_infimal_displacement_vector :
    QForm.den pv fv Gen.NonexpansiveOperator.infimal_displacement_vector = Canon.infimalDisplacement pv := by
  unfold Gen.NonexpansiveOperator.infimal_displacement_vector Canon.infimalDisplacement; gen_den pv
theorem den_SkewSymmetricLinearOperator_antisymmetric_linearity (L : ℚ) :
    QForm.den pv fv (Gen.SkewSymmetricLinearOperator.antisymmetric_linearity L) = Canon.antisymmetry pv := by
  unfold Gen.SkewSymmetricLinearOperator.antisymmetric_linearity Canon.antisymmetry; gen_den pv
theorem den_SkewSymmetricLinearOperator_lmi0_entry (L : ℚ) :
    QForm.den pv fv (Gen.SkewSymmetricLinearOperator.lmi0_entry L) = Canon.normLmi pv (L : ℝ) := by
  unfold Gen.SkewSymmetricLinearOperator.lmi0_entry Canon.normLmi; gen_den pv
theorem den_StronglyMonotoneOperator_strong_monotonicity (μ : ℚ) :
    QForm.den pv fv (Gen.StronglyMonotoneOperator.strong_monotonicity μ) = Canon.strongMonotone pv (μ : ℝ) := by
  unfold Gen.StronglyMonotoneOperator.strong_monotonicity Canon.strongMonotone; gen_den pv
theorem den_SymmetricLinearOperator_symmetric_linearity (μ L : ℚ) :
    QForm.den pv fv (Gen.SymmetricLinearOperator.symmetric_linearity μ L) = Canon.symmetry pv := by
  unfold Gen.SymmetricLinearOperator.symmetric_linearity Canon.symmetry; gen_den pv
theorem den_SymmetricLinearOperator_lmi0_entry (μ L : ℚ) :
    QForm.den pv fv (Gen.SymmetricLinearOperator.lmi0_entry μ L) = Canon.symLmi pv (μ : ℝ) (L : ℝ) := by
  unfold Gen.SymmetricLinearOperator.lmi0_entry Canon.symLmi; gen_den pv
theorem den_BlockSmoothConvexFunction_block (L0 L1 : ℚ) (hL : L0 ≠ 0) :
    QForm.den pv fv (Gen.BlockSmoothConvexFunction.smoothness_convexity_block L0 L1) = Canon.blockSmooth pv fv (L0 : ℝ) := by
  have hL' : (L0 : ℝ) ≠ 0 := by exact_mod_cast hL
  unfold Gen.BlockSmoothConvexFunction.smoothness_convexity_block Canon.blockSmooth; gen_den pv

end den
