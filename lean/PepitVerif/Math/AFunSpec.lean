import PepitVerif.Math.AFunSem

/-!
# One-step specifications of the function machine (property C07)
-/

namespace Pepit

/-- every stored dictionary has duplicate-free keys -/
def WfW (w : AW) : Prop :=
  ∀ f t, t ∈ (w.getF f).pts → (Dict.keys t.x).Nodup ∧ (Dict.keys t.g).Nodup ∧ (Dict.keys t.v).Nodup

/-- the triplet is recorded at the point `x` -/
def AtPoint (t : ATriple) (x : PDict) : Prop := Dict.eqv t.x (Dict.prune x) = true ∨ t.x = Dict.prune x

theorem mem_of_find? {α : Type} (p : α → Bool) (l : List α) (a : α) (h : l.find? p = some a) : a ∈ l ∧ p a = true := by
  induction l with
  | nil => simp at h
  | cons b t ih =>
    simp only [List.find?_cons] at h
    by_cases hb : p b = true
    · simp only [hb] at h; cases h; exact ⟨List.mem_cons_self, hb⟩
    · simp only [hb] at h
      have := ih h
      exact ⟨List.mem_cons_of_mem _ this.1, this.2⟩

theorem wfW_record (w : AW) (f : Nat) (t : ATriple) (hw : WfW w)
    (hx : (Dict.keys t.x).Nodup) (hg : (Dict.keys t.g).Nodup) (hv : (Dict.keys t.v).Nodup) :
    WfW (w.record f t) := by
  intro g t' ht'
  unfold AW.record at ht'
  rw [getF_setPts] at ht'
  split at ht'
  · next h =>
    obtain ⟨rfl, _⟩ := h
    simp only [List.mem_append, List.mem_singleton] at ht'
    rcases ht' with ht' | rfl
    · exact hw g t' ht'
    · exact ⟨Dict.nodup_keys_prune _ hx, Dict.nodup_keys_prune _ hg, Dict.nodup_keys_prune _ hv⟩
  · exact hw g t' ht'

theorem wfW_counters (w : AW) (a b : Nat) (hw : WfW w) : WfW { w with nP := a, nE := b } := hw

theorem extends_counters (w : AW) (a b : Nat) : Extends w { w with nP := a, nE := b } :=
  ⟨rfl, fun _ _ h => h, fun _ => ⟨rfl, rfl, rfl⟩⟩

/-- **`oracle` on a leaf function**: the world only grows, stays well formed, and the returned
gradient and value are those of a triplet recorded at the queried point. -/
theorem oracleLeafA_spec (w : AW) (f : Nat) (x : PDict) (hf : f < w.funs.length) (hw : WfW w)
    (hx : (Dict.keys x).Nodup) :
    let r := oracleLeafA w f x
    Extends w r.1 ∧ WfW r.1 ∧ (Dict.keys r.2.1).Nodup ∧ (Dict.keys r.2.2).Nodup ∧
    ∃ t ∈ (r.1.getF f).pts, AtPoint t x ∧ (∀ val, gden val t.g = gden val r.2.1) ∧ (∀ φ, vden φ t.v = vden φ r.2.2) := by
  unfold oracleLeafA
  simp only
  cases hlook : lookupTriple (w.getF f).pts x with
  | some t =>
    obtain ⟨htm, hte⟩ := mem_of_find? _ _ _ hlook
    by_cases hr : (w.getF f).reuse = true
    · simp only [hr, if_true]
      exact ⟨Extends.refl w, hw, (hw f t htm).2.1, (hw f t htm).2.2, t, htm, Or.inl hte, fun _ => rfl, fun _ => rfl⟩
    · simp only [hr, Bool.false_eq_true, if_false]
      have hgl : (Dict.keys (leafPoint w.nP)).Nodup := by simp [leafPoint, Dict.keys]
      have hvv : (Dict.keys t.v).Nodup := (hw f t htm).2.2
      set w1 : AW := { w with nP := w.nP + 1 } with hw1
      have hf1 : f < w1.funs.length := hf
      refine ⟨(extends_counters w _ _).trans (extends_record w1 f _), ?_, hgl, hvv, ?_⟩
      · exact wfW_record w1 f _ (wfW_counters w _ _ hw) hx hgl hvv
      · refine ⟨_, mem_record w1 f ⟨x, leafPoint w.nP, t.v⟩ hf1, Or.inr rfl, ?_, ?_⟩
        · intro val; exact gden_prune val _
        · intro φ; exact vden_prune φ _
  | none =>
    simp only
    have hgl : (Dict.keys (leafPoint w.nP)).Nodup := by simp [leafPoint, Dict.keys]
    have hvl : (Dict.keys (leafExpr w.nE)).Nodup := by simp [leafExpr, Dict.keys]
    set w1 : AW := { w with nP := w.nP + 1, nE := w.nE + 1 } with hw1
    have hf1 : f < w1.funs.length := hf
    refine ⟨(extends_counters w _ _).trans (extends_record w1 f _), ?_, hgl, hvl, ?_⟩
    · exact wfW_record w1 f _ (wfW_counters w _ _ hw) hx hgl hvl
    · refine ⟨_, mem_record w1 f ⟨x, leafPoint w.nP, leafExpr w.nE⟩ hf1, Or.inr rfl, ?_, ?_⟩
      · intro val; exact gden_prune val _
      · intro φ; exact vden_prune φ _

end Pepit

#print axioms Pepit.oracleLeafA_spec
