import PepitVerif.Math.OracleInv

/-!
# Freshness: stationary points and fixed points

`stationary_point()` / `fixed_point()` create a *new* leaf point and call `add_point`.  The bookkeeping
is coherent because the new point cannot already be recorded anywhere: every recorded point only
mentions leaf points that exist (`Bounded`), and the new leaf has the next index.  On a composite with a
non-empty (pruned) decomposition every term therefore "needs both", and `add_point` distributes the
triplet over the terms (`addPointA_composite_inv`).
-/

namespace Pepit

/-- recorded points only mention leaf points that already exist -/
def Bounded (w : AW) : Prop := ∀ f t, t ∈ (w.getF f).pts → ∀ k ∈ Dict.keys t.x, k < w.nP

theorem keys_prune_subset {κ : Type} [DecidableEq κ] (d : Dict κ) (k : κ) (h : k ∈ Dict.keys (Dict.prune d)) :
    k ∈ Dict.keys d := by
  unfold Dict.keys Dict.prune at *
  rw [List.mem_map] at h ⊢
  obtain ⟨kc, hkc, e⟩ := h
  exact ⟨kc, (List.mem_filter.mp hkc).1, e⟩

theorem mem_pts_record (w : AW) (f : Nat) (t : ATriple) (g : Nat) (t' : ATriple)
    (h : t' ∈ ((w.record f t).getF g).pts) :
    t' ∈ (w.getF g).pts ∨ t' = ⟨Dict.prune t.x, Dict.prune t.g, Dict.prune t.v⟩ := by
  unfold AW.record at h
  rw [getF_setPts] at h
  split at h
  · next hc =>
    obtain ⟨rfl, _⟩ := hc
    simp only [List.mem_append, List.mem_singleton] at h
    exact h
  · exact Or.inl h

theorem bounded_counters (w : AW) (a b : Nat) (h : Bounded w) (ha : w.nP ≤ a) :
    Bounded { w with nP := a, nE := b } := by
  intro f t ht k hk
  exact Nat.lt_of_lt_of_le (h f t ht k hk) ha

theorem bounded_record (w : AW) (f : Nat) (t : ATriple) (h : Bounded w) (hx : ∀ k ∈ Dict.keys t.x, k < w.nP) :
    Bounded (w.record f t) := by
  intro g t' ht' k hk
  rcases mem_pts_record w f t g t' ht' with h1 | h1
  · exact h g t' h1 k hk
  · subst h1
    exact hx k (keys_prune_subset _ _ hk)

theorem bounded_setDecomp (w : AW) (f : Nat) (d : Dict Nat) (h : Bounded w) : Bounded (w.setDecomp f d) := by
  intro g t ht k hk
  have : ((w.setDecomp f d).getF g).pts = (w.getF g).pts := by
    rw [getF_setDecomp]; split <;> rfl
  rw [this] at ht
  exact h g t ht k hk

theorem bounded_oracleLeafA (w : AW) (f : Nat) (x : PDict) (h : Bounded w) (hx : ∀ k ∈ Dict.keys x, k < w.nP) :
    Bounded (oracleLeafA w f x).1 ∧ w.nP ≤ (oracleLeafA w f x).1.nP := by
  unfold oracleLeafA
  simp only
  cases lookupTriple (w.getF f).pts x with
  | some t =>
    by_cases hr : (w.getF f).reuse = true
    · simp only [hr, if_true]; exact ⟨h, Nat.le_refl _⟩
    · simp only [hr, Bool.false_eq_true, if_false]
      refine ⟨bounded_record _ f _ (bounded_counters w _ _ h (Nat.le_succ _)) ?_, Nat.le_succ _⟩
      intro k hk; exact Nat.lt_succ_of_lt (hx k hk)
  | none =>
    simp only
    refine ⟨bounded_record _ f _ (bounded_counters w _ _ h (Nat.le_succ _)) ?_, Nat.le_succ _⟩
    intro k hk; exact Nat.lt_succ_of_lt (hx k hk)

theorem bounded_distribute (x : PDict) :
    ∀ (terms : List (Nat × Coef)) (w : AW) (gl : PDict) (fl : EDict), Bounded w →
      (∀ k ∈ Dict.keys x, k < w.nP) →
      Bounded (distribute x w terms gl fl) ∧ w.nP ≤ (distribute x w terms gl fl).nP := by
  intro terms
  induction terms with
  | nil => intro w gl fl h _; simp only [distribute]; exact ⟨h, Nat.le_refl _⟩
  | cons hd rest ih =>
    intro w gl fl h hx
    obtain ⟨fn, wt⟩ := hd
    cases rest with
    | nil =>
      simp only [distribute]
      exact ⟨bounded_record w fn _ h hx, Nat.le_refl _⟩
    | cons hd2 rest2 =>
      simp only [distribute]
      obtain ⟨hb1, hn1⟩ := bounded_oracleLeafA w fn x h hx
      have hx1 : ∀ k ∈ Dict.keys x, k < (oracleLeafA w fn x).1.nP := fun k hk => Nat.lt_of_lt_of_le (hx k hk) hn1
      obtain ⟨hb2, hn2⟩ := ih (oracleLeafA w fn x).1 _ _ hb1 hx1
      exact ⟨hb2, Nat.le_trans hn1 hn2⟩

theorem bounded_addPointA (w : AW) (f : Nat) (t : ATriple) (h : Bounded w) (hx : ∀ k ∈ Dict.keys t.x, k < w.nP) :
    Bounded (addPointA w f t) ∧ w.nP ≤ (addPointA w f t).nP := by
  have h1 : Bounded (w.record f t) := bounded_record w f t h hx
  unfold addPointA
  simp only
  split
  · exact ⟨h1, Nat.le_refl _⟩
  · split
    · exact ⟨bounded_setDecomp _ _ _ h1, Nat.le_refl _⟩
    · have hxp : ∀ k ∈ Dict.keys (Dict.prune t.x),
          k < ((w.record f t).setDecomp f (Dict.prune ((w.record f t).getF f).decomp)).nP :=
        fun k hk => hx k (keys_prune_subset _ _ hk)
      exact bounded_distribute _ _ _ _ _ (bounded_setDecomp _ _ _ h1) hxp

theorem bounded_oracleA (w : AW) (f : Nat) (x : PDict) (h : Bounded w) (hx : ∀ k ∈ Dict.keys x, k < w.nP) :
    Bounded (oracleA w f x).1 ∧ w.nP ≤ (oracleA w f x).1.nP := by
  unfold oracleA
  by_cases hl : (w.getF f).isLeaf = true
  · simp only [hl, if_true]; exact bounded_oracleLeafA w f x h hx
  · simp only [hl, Bool.false_eq_true, if_false]
    have h0 : Bounded (w.setDecomp f (Dict.prune (w.getF f).decomp)) := bounded_setDecomp _ _ _ h
    have key : ∀ (a b : Nat) (g : PDict) (v : EDict), w.nP ≤ a →
        Bounded (addPointA { (w.setDecomp f (Dict.prune (w.getF f).decomp)) with nP := a, nE := b } f ⟨x, g, v⟩) ∧
        w.nP ≤ (addPointA { (w.setDecomp f (Dict.prune (w.getF f).decomp)) with nP := a, nE := b } f ⟨x, g, v⟩).nP := by
      intro a b g v ha
      obtain ⟨hb, hn⟩ := bounded_addPointA { (w.setDecomp f (Dict.prune (w.getF f).decomp)) with nP := a, nE := b } f ⟨x, g, v⟩
        (bounded_counters _ a b h0 ha) (fun k hk => Nat.lt_of_lt_of_le (hx k hk) ha)
      exact ⟨hb, Nat.le_trans ha hn⟩
    split
    · exact ⟨h0, Nat.le_refl _⟩
    · simp only
      split <;> split <;> (try split) <;>
        first
          | exact key _ _ _ _ (Nat.le_refl _)
          | exact key _ _ _ _ (Nat.le_succ _)

theorem bounded_valueA (w : AW) (f : Nat) (x : PDict) (h : Bounded w) (hx : ∀ k ∈ Dict.keys x, k < w.nP) :
    Bounded (valueA w f x).1 ∧ w.nP ≤ (valueA w f x).1.nP := by
  unfold valueA
  cases lookupTriple (w.getF f).pts x with
  | some t => exact ⟨h, Nat.le_refl _⟩
  | none => exact bounded_oracleA w f x h hx

/-! ### a new leaf point is recorded nowhere -/

theorem prune_leafPoint (c : Nat) : Dict.prune (leafPoint c) = leafPoint c := by
  unfold Dict.prune leafPoint
  simp

theorem eqv_leaf_mem (a : PDict) (c : Nat) (h : Dict.eqv a (leafPoint c) = true) : c ∈ Dict.keys a := by
  unfold Dict.eqv leafPoint at h
  simp only [List.length_cons, List.length_nil, Nat.zero_add, Bool.and_eq_true, beq_iff_eq, List.all_eq_true] at h
  obtain ⟨hlen, hall⟩ := h
  match a, hlen with
  | [(k, v)], _ =>
    have := hall (k, v) List.mem_cons_self
    simp only [Dict.get?, List.lookup] at this
    by_cases hk : k = c
    · subst hk; simp [Dict.keys]
    · have hb : (k == c) = false := by simpa using hk
      simp [hb] at this

theorem lookup_fresh (w : AW) (h : Bounded w) (g : Nat) (n : Nat) (hn : w.nP ≤ n) :
    lookupTriple (w.getF g).pts (leafPoint n) = none := by
  unfold lookupTriple
  rw [List.find?_eq_none]
  intro t ht
  rw [prune_leafPoint]
  intro he
  have := h g t ht n (eqv_leaf_mem t.x n he)
  omega

/-- if no term is recorded at the point, every term needs both a gradient and a value -/
theorem classify_all_need (w : AW) (x : PDict) :
    ∀ (d : Dict Nat) (a0 a1 a2 : List (Nat × Coef)),
      (∀ tw ∈ d, lookupTriple (w.getF tw.1).pts x = none) →
      d.foldl (classifyStep w x) (a0, a1, a2) = (a0, a1, a2 ++ d) := by
  intro d
  induction d with
  | nil => intro a0 a1 a2 _; simp
  | cons hd rest ih =>
    intro a0 a1 a2 hall
    rw [List.foldl_cons]
    have h1 : classifyStep w x (a0, a1, a2) hd = (a0, a1, a2 ++ [hd]) := by
      unfold classifyStep
      simp only [hall hd List.mem_cons_self]
    rw [h1, ih a0 a1 (a2 ++ [hd]) (fun tw htw => hall tw (List.mem_cons_of_mem _ htw))]
    simp

theorem someTermNeeds_fresh (w : AW) (f : Nat) (t : ATriple) (hcomp : (w.getF f).isLeaf = false)
    (hne : Dict.prune (w.getF f).decomp ≠ [])
    (hself : ∀ tw ∈ Dict.prune (w.getF f).decomp, tw.1 ≠ f)
    (hnone : ∀ g, lookupTriple (w.getF g).pts (Dict.prune t.x) = none) :
    someTermNeeds w f t = true := by
  have he1 : Extends w (w.record f t) := extends_record w f t
  have hdec : Dict.prune ((w.record f t).getF f).decomp = Dict.prune (w.getF f).decomp := (he1.flags f).2.2
  unfold someTermNeeds
  simp only
  rw [hdec]
  have hall : ∀ tw ∈ Dict.prune (w.getF f).decomp,
      lookupTriple ((preLoop w f t).getF tw.1).pts (Dict.prune t.x) = none := by
    intro tw htw
    have hne' : ¬ (tw.1 = f) := hself tw htw
    have hp : ((preLoop w f t).getF tw.1).pts = (w.getF tw.1).pts := by
      unfold preLoop
      have h1 : (((w.record f t).setDecomp f (Dict.prune ((w.record f t).getF f).decomp)).getF tw.1).pts
          = ((w.record f t).getF tw.1).pts := by
        rw [getF_setDecomp]; split <;> rfl
      rw [h1]
      exact ptsFrame_record w f t tw.1 hne'
    rw [hp]; exact hnone tw.1
  unfold classify
  rw [classify_all_need _ _ _ [] [] [] hall]
  simp only [List.nil_append]
  cases hd : Dict.prune (w.getF f).decomp with
  | nil => exact absurd hd hne
  | cons a l => simp

/-! ### `add_point` of a triplet at a point recorded nowhere -/

theorem record_leaf_inv (w : AW) (f : Nat) (t : ATriple) (hi : OInv w) (hleaf : (w.getF f).isLeaf = true)
    (hx : (Dict.keys t.x).Nodup) (hg : (Dict.keys t.g).Nodup) (hv : (Dict.keys t.v).Nodup) :
    OInv (w.record f t) := by
  obtain ⟨hw, hs, hc⟩ := hi
  have hext := extends_record w f t
  refine ⟨wfW_record w f t hw hx hg hv, struct_of_extends hext hs, consistent_of_extends hext hc ?_⟩
  intro g _ hgl t' ht' hnot
  have hne : g ≠ f := by intro e; subst e; rw [hleaf] at hgl; cases hgl
  rw [ptsFrame_record w f t g hne] at ht'
  exact absurd ht' hnot

theorem addPointA_leaf (w : AW) (f : Nat) (t : ATriple) (hleaf : (w.getF f).isLeaf = true) :
    addPointA w f t = w.record f t := by
  have : ((w.record f t).getF f).isLeaf = true := by
    rw [((extends_record w f t).flags f).1]; exact hleaf
  unfold addPointA
  simp only [this, if_true]

/-- **`add_point` at a point that is recorded nowhere** (the situation of `stationary_point()` and
`fixed_point()`): the invariant is preserved on a leaf function and on every composite with at least one
term.  (On the zero function the triplet is recorded as given and nothing relates it to the — empty —
sum: see the known finding `KF-C07-zero-function-point`.) -/
theorem addPointA_fresh_inv (w : AW) (f : Nat) (t : ATriple) (hi : OInv w) (hf : f < w.funs.length)
    (hx : (Dict.keys t.x).Nodup) (hg : (Dict.keys t.g).Nodup) (hv : (Dict.keys t.v).Nodup)
    (hne : (w.getF f).isLeaf = false → Dict.prune (w.getF f).decomp ≠ [])
    (hnone : ∀ g, lookupTriple (w.getF g).pts (Dict.prune t.x) = none) :
    OInv (addPointA w f t) := by
  by_cases hleaf : (w.getF f).isLeaf = true
  · rw [addPointA_leaf w f t hleaf]; exact record_leaf_inv w f t hi hleaf hx hg hv
  · have hcomp : (w.getF f).isLeaf = false := by simpa using hleaf
    obtain ⟨hterms, _, _⟩ := hi.2.1 f hf hcomp
    have hself : ∀ tw ∈ Dict.prune (w.getF f).decomp, tw.1 ≠ f := by
      intro tw htw e
      have := (hterms tw htw).2
      rw [e, hcomp] at this; cases this
    have hneeds := someTermNeeds_fresh w f t hcomp (hne hcomp) hself hnone
    exact addPointA_composite_inv w f t hi hf hcomp hx hg hv (fun h => by rw [hneeds] at h; cases h)

theorem keys_leafPoint (c : Nat) : (Dict.keys (leafPoint c)).Nodup := by simp [leafPoint, Dict.keys]
theorem keys_leafExpr (c : Nat) : (Dict.keys (leafExpr c)).Nodup := by simp [leafExpr, Dict.keys]

theorem stationaryPointA_inv (w : AW) (f : Nat) (hi : OInv w) (hb : Bounded w) (hf : f < w.funs.length)
    (hne : (w.getF f).isLeaf = false → Dict.prune (w.getF f).decomp ≠ []) :
    OInv (stationaryPointA w f).1 ∧ Bounded (stationaryPointA w f).1 ∧ w.nP ≤ (stationaryPointA w f).1.nP := by
  unfold stationaryPointA
  simp only
  have hb1 : Bounded { w with nP := w.nP + 1, nE := w.nE + 1 } := bounded_counters w _ _ hb (Nat.le_succ _)
  refine ⟨?_, ?_⟩
  · refine addPointA_fresh_inv { w with nP := w.nP + 1, nE := w.nE + 1 } f ⟨leafPoint w.nP, [], leafExpr w.nE⟩
      (oinv_counters w (w.nP + 1) (w.nE + 1) hi) hf (keys_leafPoint _) (by simp [Dict.keys]) (keys_leafExpr _) hne ?_
    intro g
    simp only [prune_leafPoint]
    exact lookup_fresh w hb g w.nP (Nat.le_refl _)
  · obtain ⟨h1, h2⟩ := bounded_addPointA { w with nP := w.nP + 1, nE := w.nE + 1 } f ⟨leafPoint w.nP, [], leafExpr w.nE⟩ hb1
      (by intro k hk; simp [leafPoint, Dict.keys] at hk; subst hk; exact Nat.lt_succ_self _)
    exact ⟨h1, Nat.le_trans (Nat.le_succ _) h2⟩

theorem fixedPointA_inv (w : AW) (f : Nat) (hi : OInv w) (hb : Bounded w) (hf : f < w.funs.length)
    (hne : (w.getF f).isLeaf = false → Dict.prune (w.getF f).decomp ≠ []) :
    OInv (fixedPointA w f).1 ∧ Bounded (fixedPointA w f).1 ∧ w.nP ≤ (fixedPointA w f).1.nP := by
  unfold fixedPointA
  simp only
  have hb1 : Bounded { w with nP := w.nP + 1, nE := w.nE + 1 } := bounded_counters w _ _ hb (Nat.le_succ _)
  refine ⟨?_, ?_⟩
  · refine addPointA_fresh_inv { w with nP := w.nP + 1, nE := w.nE + 1 } f ⟨leafPoint w.nP, leafPoint w.nP, leafExpr w.nE⟩
      (oinv_counters w (w.nP + 1) (w.nE + 1) hi) hf (keys_leafPoint _) (keys_leafPoint _) (keys_leafExpr _) hne ?_
    intro g
    simp only [prune_leafPoint]
    exact lookup_fresh w hb g w.nP (Nat.le_refl _)
  · obtain ⟨h1, h2⟩ := bounded_addPointA { w with nP := w.nP + 1, nE := w.nE + 1 } f ⟨leafPoint w.nP, leafPoint w.nP, leafExpr w.nE⟩ hb1
      (by intro k hk; simp [leafPoint, Dict.keys] at hk; subst hk; exact Nat.lt_succ_self _)
    exact ⟨h1, Nat.le_trans (Nat.le_succ _) h2⟩

/-- `add_point` always records the (pruned) triplet on the function itself -/
theorem addPointA_records (w : AW) (f : Nat) (t : ATriple) (hi : OInv w) (hf : f < w.funs.length) :
    (⟨Dict.prune t.x, Dict.prune t.g, Dict.prune t.v⟩ : ATriple) ∈ ((addPointA w f t).getF f).pts := by
  by_cases hleaf : (w.getF f).isLeaf = true
  · rw [addPointA_leaf w f t hleaf]; exact mem_record w f t hf
  · have hcomp : (w.getF f).isLeaf = false := by simpa using hleaf
    obtain ⟨hterms, _, _⟩ := hi.2.1 f hf hcomp
    have hself : ∀ tw ∈ Dict.prune (w.getF f).decomp, tw.1 ≠ f := by
      intro tw htw e
      have := (hterms tw htw).2
      rw [e, hcomp] at this; cases this
    rw [(addPointA_frame w f t hf hcomp hself).2]
    simp

/-- **a declared stationary point has zero total gradient**: what `stationary_point()` records on the
function itself is the new leaf point with the empty (zero) gradient -/
theorem stationaryPointA_records (w : AW) (f : Nat) (hi : OInv w) (hf : f < w.funs.length) :
    ∃ t ∈ ((stationaryPointA w f).1.getF f).pts, t.x = leafPoint w.nP ∧ t.g = [] := by
  unfold stationaryPointA
  simp only
  refine ⟨⟨Dict.prune (leafPoint w.nP), Dict.prune [], Dict.prune (leafExpr w.nE)⟩, ?_, prune_leafPoint _, rfl⟩
  exact addPointA_records { w with nP := w.nP + 1, nE := w.nE + 1 } f ⟨leafPoint w.nP, [], leafExpr w.nE⟩
    (oinv_counters w (w.nP + 1) (w.nE + 1) hi) hf

end Pepit
