import PepitModel.Partition
import PepitVerif.Math.WellFormed

/-!
# Block partitions (property C15)
-/

open RealInnerProductSpace

variable {E : Type*} [NormedAddCommGroup E] [InnerProductSpace ℝ E]

theorem nodup_keys_accumulate_aux (fresh : List PDict) :
    ∀ acc : PDict, (Dict.keys acc).Nodup → (Dict.keys (fresh.foldl PDict.add acc)).Nodup := by
  induction fresh with
  | nil => intro acc h; exact h
  | cons a t ih => intro acc h; exact ih _ (PDict.wf_add acc a h)

theorem nodup_keys_accumulate (fresh : List PDict) : (Dict.keys (accumulate fresh)).Nodup :=
  nodup_keys_accumulate_aux fresh [] (by simp [Dict.keys])

theorem den_accumulate_aux (v : Nat → E) (fresh : List PDict) (hs : ∀ b ∈ fresh, (Dict.keys b).Nodup) :
    ∀ acc : PDict, PDict.den v (fresh.foldl PDict.add acc) = PDict.den v acc + (fresh.map (PDict.den v)).sum := by
  induction fresh with
  | nil => intro acc; simp
  | cons a t ih =>
    intro acc
    simp only [List.foldl_cons, List.map_cons, List.sum_cons]
    rw [ih (fun b hb => hs b (List.mem_cons_of_mem _ hb)), PDict.den_add v acc a (hs a List.mem_cons_self)]
    abel

theorem freshBlocks_nodup (d c : Nat) : ∀ b ∈ freshBlocks d c, (Dict.keys b).Nodup := by
  intro b hb
  simp only [freshBlocks, List.mem_map, List.mem_range] at hb
  obtain ⟨t, _, rfl⟩ := hb
  simp [Dict.keys]

/-- **the blocks of a point sum back to the point**, for every number of blocks, every point
(leaf or combination) and every counter value -/
theorem blocks_sum_back (v : Nat → E) (p : PDict) (d c : Nat) :
    ((partitionBlocks p d c).map (PDict.den v)).sum = PDict.den v p := by
  unfold partitionBlocks
  rw [List.map_append, List.sum_append]
  simp only [List.map_cons, List.map_nil, List.sum_cons, List.sum_nil, add_zero]
  rw [PDict.den_sub v p _ (nodup_keys_accumulate _)]
  unfold accumulate
  rw [den_accumulate_aux v _ (freshBlocks_nodup d c) []]
  simp [PDict.den]

/-- **a one-block partition is the identity** -/
theorem one_block_identity (v : Nat → E) (p : PDict) (c : Nat) :
    (partitionBlocks p 1 c).map (PDict.den v) = [PDict.den v p] := by
  have h := blocks_sum_back v p 1 c
  simp only [partitionBlocks, freshBlocks, Nat.sub_self, List.range_zero, List.map_nil, List.nil_append,
    List.map_cons, List.sum_cons, List.sum_nil, add_zero] at h ⊢
  rw [h]

theorem mem_partitionIdx (nb d i j k l : Nat) :
    (i, j, k, l) ∈ partitionIdx nb d ↔ i < nb ∧ j < nb ∧ k < d ∧ l < k := by
  unfold partitionIdx
  simp only [List.mem_flatMap, List.mem_range, List.mem_map, Prod.mk.injEq]
  constructor
  · rintro ⟨i', hi, j', hj, k', hk, l', hl, rfl, rfl, rfl, rfl⟩; exact ⟨hi, hj, hk, hl⟩
  · rintro ⟨hi, hj, hk, hl⟩; exact ⟨i, hi, j, hj, k, hk, l, hl, rfl, rfl, rfl, rfl⟩

/-- **all of them**: every pair of *different* blocks of any two decomposed points (the same
point included) is related by a generated constraint, in one of the two orientations -/
theorem ortho_complete (nb d i j k l : Nat) (hi : i < nb) (hj : j < nb) (hk : k < d) (hl : l < d)
    (hne : k ≠ l) : (i, j, k, l) ∈ partitionIdx nb d ∨ (j, i, l, k) ∈ partitionIdx nb d := by
  simp only [mem_partitionIdx]
  omega

/-- **nothing more**: no generated constraint relates two equal block numbers -/
theorem ortho_only (nb d i j k l : Nat) (h : (i, j, k, l) ∈ partitionIdx nb d) : k ≠ l := by
  rw [mem_partitionIdx] at h; omega

/-- real coordinate-block projections: maps summing to the identity with mutually orthogonal
ranges -/
structure BlockProjections (d : Nat) (P : Nat → E → E) : Prop where
  sum_id : ∀ x, ((List.range d).map (fun k => P k x)).sum = x
  ortho : ∀ k l, k < d → l < d → k ≠ l → ∀ x y, ⟪P k x, P l y⟫ = 0

/-- **real projections satisfy the model**: the expression `xi^k * xj^l` of every generated
constraint denotes `0` when the blocks are interpreted by real block projections -/
theorem real_projection_sound (d : Nat) (P : Nat → E → E) (hP : BlockProjections d P)
    (v : Nat → E) (φ : Nat → ℝ) (bi bj : PDict) (xi xj : E) (k l : Nat) (hk : k < d) (hl : l < k)
    (hbi : PDict.den v bi = P k xi) (hbj : PDict.den v bj = P l xj) :
    EDict.den v φ (PDict.ip bi bj) = 0 := by
  rw [den_ip, hbi, hbj]
  exact hP.ortho k l hk (by omega) (by omega) xi xj

#print axioms blocks_sum_back
#print axioms ortho_complete
