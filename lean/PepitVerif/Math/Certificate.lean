import Mathlib.LinearAlgebra.Matrix.PosDef
import Mathlib.Analysis.Matrix.Order
import Mathlib.Analysis.SpecialFunctions.ContinuousFunctionalCalculus.Rpow.Basic
import Mathlib.Analysis.InnerProductSpace.GramMatrix
import Mathlib.Tactic.Linarith

/-!
# A dual certificate bounds the objective on the whole feasible set (properties C01 / C09)
-/

open Matrix
open scoped MatrixOrder

section trace
variable {n : Type*} [Fintype n] [DecidableEq n]

/-- `⟨S, G⟩ ≥ 0` for real positive semidefinite `S`, `G` -/
theorem trace_mul_nonneg_of_posSemidef {S G : Matrix n n ℝ} (hS : S.PosSemidef) (hG : G.PosSemidef) :
    0 ≤ (S * G).trace := by
  have hG0 : (0 : Matrix n n ℝ) ≤ G := hG.nonneg
  set R := CFC.sqrt G with hR
  have hRR : R * R = G := CFC.sqrt_mul_sqrt_self G hG0
  have hRsa : Rᴴ = R := (CFC.sqrt_nonneg G).isSelfAdjoint
  have h : (S * G).trace = (Rᴴ * S * R).trace := by
    rw [← hRR, hRsa, ← Matrix.mul_assoc, Matrix.trace_mul_comm, ← Matrix.mul_assoc]
  rw [h]
  exact (hS.conjTranspose_mul_mul_same R).trace_nonneg
end trace

/-- Abstract weak duality.  `X` is the space of primal points `(G, F)`.
If `obj − τ` is identically the multiplier combination of the constraints minus the Gram term
minus the LMI terms, multipliers of inequalities are nonnegative and the Gram / LMI terms are
nonnegative on feasible points, then `τ` dominates the objective on the feasible set. -/
theorem cert_sound_abstract {X ι κ : Type*} [Fintype ι] [Fintype κ]
    (obj : X → ℝ) (τ : ℝ) (cons : ι → X → ℝ) (isEq : ι → Bool) (lam : ι → ℝ)
    (gramTerm : X → ℝ) (lmiTerm : κ → X → ℝ)
    (hid : ∀ x, obj x - τ = (∑ i, lam i * cons i x) - gramTerm x - ∑ k, lmiTerm k x)
    (hlam : ∀ i, isEq i = false → 0 ≤ lam i)
    (x : X) (hfeas : ∀ i, if isEq i then cons i x = 0 else cons i x ≤ 0)
    (hgram : 0 ≤ gramTerm x) (hlmi : ∀ k, 0 ≤ lmiTerm k x) :
    obj x ≤ τ := by
  have h1 : ∑ i, lam i * cons i x ≤ 0 := by
    apply Finset.sum_nonpos
    intro i _
    have := hfeas i
    by_cases he : isEq i = true
    · simp only [he, if_true] at this; rw [this, mul_zero]
    · have he' : isEq i = false := by simpa using he
      simp only [he', Bool.false_eq_true, if_false] at this
      exact mul_nonpos_of_nonneg_of_nonpos (hlam i he') this
  have h2 : 0 ≤ ∑ k, lmiTerm k x := Finset.sum_nonneg (fun k _ => hlmi k)
  have := hid x
  linarith

/-- Matrix form: the Gram term is `⟨S, G⟩` with `S ⪰ 0` and the LMI terms are `⟨Λ_k, T_k⟩`
with `Λ_k ⪰ 0`; feasibility means `G ⪰ 0`, the scalar constraints hold and every `T_k ⪰ 0`. -/
theorem cert_sound {X ι κ : Type*} [Fintype ι] [Fintype κ] {n : Type*} [Fintype n] [DecidableEq n]
    {p : κ → Type*} [∀ k, Fintype (p k)] [∀ k, DecidableEq (p k)]
    (obj : X → ℝ) (τ : ℝ) (cons : ι → X → ℝ) (isEq : ι → Bool) (lam : ι → ℝ)
    (gram : X → Matrix n n ℝ) (S : Matrix n n ℝ)
    (T : (k : κ) → X → Matrix (p k) (p k) ℝ) (Lam : (k : κ) → Matrix (p k) (p k) ℝ)
    (hid : ∀ x, obj x - τ = (∑ i, lam i * cons i x) - (S * gram x).trace - ∑ k, (Lam k * T k x).trace)
    (hlam : ∀ i, isEq i = false → 0 ≤ lam i) (hS : S.PosSemidef) (hLam : ∀ k, (Lam k).PosSemidef)
    (x : X) (hfeas : ∀ i, if isEq i then cons i x = 0 else cons i x ≤ 0)
    (hG : (gram x).PosSemidef) (hT : ∀ k, (T k x).PosSemidef) :
    obj x ≤ τ :=
  cert_sound_abstract obj τ cons isEq lam (fun x => (S * gram x).trace) (fun k x => (Lam k * T k x).trace)
    hid hlam x hfeas (trace_mul_nonneg_of_posSemidef hS hG)
    (fun k => trace_mul_nonneg_of_posSemidef (hLam k) (hT k))

#print axioms cert_sound
