import PepitVerif.Math.OracleFresh
import PepitVerif.Math.DictEqv

/-!
# One value per point, one gradient per point of a differentiable function

Invariants of the oracle bookkeeping over every sequence of calls (property C07, first sentence):

* `OneValue`: two triplets recorded on the same function at the same point carry the same value
  (same denotation under every valuation of the leaf expressions);
* `OneGrad`: a function declared differentiable (`reuse_gradient`) never holds two triplets at the
  same point (so it returns one gradient per point).

"Same point" is equality of the coefficient maps (`SamePt`), which for the stored (duplicate-free)
dictionaries is exactly Python's `dict.__eq__` used by `_is_already_evaluated_on_point`.
-/

namespace Pepit

/-- the two dictionaries give every leaf point the same coefficient -/
def SamePt (a b : PDict) : Prop := ∀ k, Dict.get? a k = Dict.get? b k

theorem SamePt.refl (a : PDict) : SamePt a a := fun _ => rfl
theorem SamePt.symm {a b : PDict} (h : SamePt a b) : SamePt b a := fun k => (h k).symm
theorem SamePt.trans {a b c : PDict} (h1 : SamePt a b) (h2 : SamePt b c) : SamePt a c := fun k => (h1 k).trans (h2 k)

theorem samePt_of_eqv {a b : PDict} (ha : (Dict.keys a).Nodup) (hb : (Dict.keys b).Nodup)
    (h : Dict.eqv a b = true) : SamePt a b := (Dict.eqv_iff a b ha hb).mp h

theorem eqv_of_samePt {a b : PDict} (ha : (Dict.keys a).Nodup) (hb : (Dict.keys b).Nodup)
    (h : SamePt a b) : Dict.eqv a b = true := (Dict.eqv_iff a b ha hb).mpr h

def OneValue (w : AW) : Prop :=
  ∀ f t1 t2, t1 ∈ (w.getF f).pts → t2 ∈ (w.getF f).pts → SamePt t1.x t2.x → ∀ φ, vden φ t1.v = vden φ t2.v

def OneGrad (w : AW) : Prop :=
  ∀ f, (w.getF f).reuse = true → (w.getF f).pts.Pairwise (fun t1 t2 => ¬ SamePt t1.x t2.x)

/-- `AtPoint` in terms of `SamePt` -/
theorem samePt_of_atPoint {t : ATriple} {x : PDict} (ht : (Dict.keys t.x).Nodup) (hx : (Dict.keys x).Nodup)
    (h : AtPoint t x) : SamePt t.x (Dict.prune x) := by
  rcases h with h | h
  · exact samePt_of_eqv ht (Dict.nodup_keys_prune x hx) h
  · rw [h]; exact SamePt.refl _

/-- what a successful lookup returns -/
theorem lookup_some_spec (w : AW) (hw : WfW w) (f : Nat) (x : PDict) (hx : (Dict.keys x).Nodup) (t : ATriple)
    (h : lookupTriple (w.getF f).pts x = some t) : t ∈ (w.getF f).pts ∧ SamePt t.x (Dict.prune x) := by
  obtain ⟨hm, he⟩ := mem_of_find? _ _ _ h
  exact ⟨hm, samePt_of_eqv (hw f t hm).1 (Dict.nodup_keys_prune x hx) he⟩

/-- a failed lookup: nothing is recorded at the point -/
theorem lookup_none_spec (w : AW) (hw : WfW w) (f : Nat) (x : PDict) (hx : (Dict.keys x).Nodup)
    (h : lookupTriple (w.getF f).pts x = none) : ∀ t ∈ (w.getF f).pts, ¬ SamePt t.x (Dict.prune x) := by
  intro t ht hs
  unfold lookupTriple at h
  rw [List.find?_eq_none] at h
  exact h t ht (eqv_of_samePt (hw f t ht).1 (Dict.nodup_keys_prune x hx) hs)

/-- if something is recorded at the point the lookup succeeds -/
theorem lookup_some_of_mem (w : AW) (hw : WfW w) (f : Nat) (x : PDict) (hx : (Dict.keys x).Nodup) (t : ATriple)
    (ht : t ∈ (w.getF f).pts) (hs : SamePt t.x (Dict.prune x)) : ∃ t', lookupTriple (w.getF f).pts x = some t' := by
  cases h : lookupTriple (w.getF f).pts x with
  | some t' => exact ⟨t', rfl⟩
  | none => exact absurd hs (lookup_none_spec w hw f x hx h t ht)

/-! ### recording one triplet -/

theorem oneValue_record (w : AW) (f : Nat) (t : ATriple) (h : OneValue w)
    (hnew : ∀ t2 ∈ (w.getF f).pts, SamePt t2.x (Dict.prune t.x) → ∀ φ, vden φ t2.v = vden φ t.v) :
    OneValue (w.record f t) := by
  intro g t1 t2 h1 h2 hs φ
  rcases mem_pts_record w f t g t1 h1 with a1 | a1 <;> rcases mem_pts_record w f t g t2 h2 with a2 | a2
  · exact h g t1 t2 a1 a2 hs φ
  · by_cases hgf : g = f
    · subst hgf; subst a2
      rw [vden_prune]; exact hnew t1 a1 hs φ
    · rw [ptsFrame_record w f t g hgf] at h2
      exact h g t1 t2 a1 h2 hs φ
  · by_cases hgf : g = f
    · subst hgf; subst a1
      rw [vden_prune]; exact (hnew t2 a2 hs.symm φ).symm
    · rw [ptsFrame_record w f t g hgf] at h1
      exact h g t1 t2 h1 a2 hs φ
  · subst a1; subst a2; rfl

theorem oneGrad_record (w : AW) (f : Nat) (t : ATriple) (hf : f < w.funs.length) (h : OneGrad w)
    (hnew : (w.getF f).reuse = true → ∀ t2 ∈ (w.getF f).pts, ¬ SamePt t2.x (Dict.prune t.x)) :
    OneGrad (w.record f t) := by
  intro g hr
  have hr' : (w.getF g).reuse = true := by rw [← ((extends_record w f t).flags g).2.1]; exact hr
  by_cases hgf : g = f
  · subst hgf
    rw [pts_record_self w g t hf, List.pairwise_append]
    refine ⟨h g hr', List.pairwise_singleton _ _, ?_⟩
    intro a ha b hb
    simp only [List.mem_singleton] at hb
    subst hb
    exact hnew hr' a ha
  · rw [ptsFrame_record w f t g hgf]; exact h g hr'

theorem oneValue_counters (w : AW) (a b : Nat) (h : OneValue w) : OneValue { w with nP := a, nE := b } := h
theorem oneGrad_counters (w : AW) (a b : Nat) (h : OneGrad w) : OneGrad { w with nP := a, nE := b } := h

theorem pts_setDecomp (w : AW) (f : Nat) (d : Dict Nat) (g : Nat) : ((w.setDecomp f d).getF g).pts = (w.getF g).pts := by
  rw [getF_setDecomp]; split <;> rfl
theorem reuse_setDecomp (w : AW) (f : Nat) (d : Dict Nat) (g : Nat) : ((w.setDecomp f d).getF g).reuse = (w.getF g).reuse := by
  rw [getF_setDecomp]; split <;> rfl

theorem oneValue_setDecomp (w : AW) (f : Nat) (d : Dict Nat) (h : OneValue w) : OneValue (w.setDecomp f d) := by
  intro g t1 t2 h1 h2
  rw [pts_setDecomp] at h1 h2
  exact h g t1 t2 h1 h2

theorem oneGrad_setDecomp (w : AW) (f : Nat) (d : Dict Nat) (h : OneGrad w) : OneGrad (w.setDecomp f d) := by
  intro g hr
  rw [reuse_setDecomp] at hr
  rw [pts_setDecomp]
  exact h g hr

/-! ### `oracle` on a leaf function -/

theorem oracleLeafA_one (w : AW) (f : Nat) (x : PDict) (hf : f < w.funs.length) (hw : WfW w)
    (hx : (Dict.keys x).Nodup) (hv : OneValue w) (hg : OneGrad w) :
    OneValue (oracleLeafA w f x).1 ∧ OneGrad (oracleLeafA w f x).1 := by
  unfold oracleLeafA
  simp only
  cases hl : lookupTriple (w.getF f).pts x with
  | some t =>
    obtain ⟨htm, hts⟩ := lookup_some_spec w hw f x hx t hl
    by_cases hr : (w.getF f).reuse = true
    · simp only [hr, if_true]; exact ⟨hv, hg⟩
    · simp only [hr, Bool.false_eq_true, if_false]
      refine ⟨oneValue_record _ f _ (oneValue_counters w _ _ hv) ?_, oneGrad_record _ f _ hf (oneGrad_counters w _ _ hg) ?_⟩
      · intro t2 ht2 hs φ
        exact hv f t2 t ht2 htm (hs.trans hts.symm) φ
      · intro hr'; exact absurd hr' hr
  | none =>
    simp only
    have hnone := lookup_none_spec w hw f x hx hl
    refine ⟨oneValue_record _ f _ (oneValue_counters w _ _ hv) ?_, oneGrad_record _ f _ hf (oneGrad_counters w _ _ hg) ?_⟩
    · intro t2 ht2 hs; exact absurd hs (hnone t2 ht2)
    · intro _ t2 ht2; exact hnone t2 ht2

end Pepit

namespace Pepit

/-! ### the remainder loop -/

theorem oracleLeafA_val_of_some (w : AW) (f : Nat) (x : PDict) (t : ATriple)
    (h : lookupTriple (w.getF f).pts x = some t) : (oracleLeafA w f x).2.2 = t.v := by
  unfold oracleLeafA
  simp only [h]
  by_cases hr : (w.getF f).reuse = true <;> simp [hr]

theorem firstAt_congr (w w' : AW) (x : PDict) (i : Nat) (h : (w'.getF i).pts = (w.getF i).pts) :
    firstAt w' x i = firstAt w x i := by
  unfold firstAt; rw [h]

theorem mul_left_cancel_real {a b c : ℝ} (hc : c ≠ 0) (h : c * a = c * b) : a = b :=
  mul_left_cancel₀ hc h

theorem distribute_one (x : PDict) (hx : (Dict.keys x).Nodup) :
    ∀ (terms : List (Nat × Coef)) (w : AW) (gl : PDict) (fl : EDict),
      (terms.map (·.1)).Nodup → (∀ tw ∈ terms, tw.1 < w.funs.length ∧ tw.2 ≠ 0) → WfW w →
      (Dict.keys gl).Nodup → (Dict.keys fl).Nodup →
      OneValue w → OneGrad w →
      (∀ last, terms.getLast? = some last → (∃ t, lookupTriple (w.getF last.1).pts x = some t) →
          (∀ tw ∈ terms, ∃ t, lookupTriple (w.getF tw.1).pts x = some t) ∧
          ∀ φ, vden φ fl = (terms.map (fun tw => ((tw.2 : ℚ) : ℝ) * vden φ (firstAt w x tw.1).v)).sum) →
      (∀ last, terms.getLast? = some last → (w.getF last.1).reuse = true →
          lookupTriple (w.getF last.1).pts x = none) →
      OneValue (distribute x w terms gl fl) ∧ OneGrad (distribute x w terms gl fl) := by
  intro terms
  induction terms with
  | nil => intro w gl fl _ _ _ _ _ hv hg _ _; simp only [distribute]; exact ⟨hv, hg⟩
  | cons hd rest ih =>
    obtain ⟨fn, wt⟩ := hd
    intro w gl fl hnd hterms hw hgl hfl hv hg hval hgrad
    have hfn : fn < w.funs.length := (hterms (fn, wt) List.mem_cons_self).1
    have hwt : wt ≠ 0 := (hterms (fn, wt) List.mem_cons_self).2
    have hwt' : ((wt : ℚ) : ℝ) ≠ 0 := by exact_mod_cast hwt
    cases rest with
    | nil =>
      simp only [distribute]
      refine ⟨oneValue_record w fn _ hv ?_, oneGrad_record w fn _ hfn hg ?_⟩
      · intro t2 ht2 hs φ
        obtain ⟨t', ht'⟩ := lookup_some_of_mem w hw fn x hx t2 ht2 hs
        obtain ⟨_, hsum⟩ := hval (fn, wt) (by simp) ⟨t', ht'⟩
        obtain ⟨ht'm, ht's⟩ := lookup_some_spec w hw fn x hx t' ht'
        have h1 : vden φ t2.v = vden φ t'.v := hv fn t2 t' ht2 ht'm (hs.trans ht's.symm) φ
        have h2 := hsum φ
        simp only [List.map_cons, List.map_nil, List.sum_cons, List.sum_nil, add_zero, firstAt, ht',
          Option.getD_some] at h2
        have h3 := vden_div φ fl wt hwt
        rw [h1]
        apply mul_left_cancel_real hwt'
        rw [h3, h2]
      · intro hr t2 ht2
        exact lookup_none_spec w hw fn x hx (hgrad (fn, wt) (by simp) hr) t2 ht2
    | cons hd2 rest2 =>
      simp only [distribute]
      obtain ⟨hext, hwf, hgn, hvn, _⟩ := oracleLeafA_spec w fn x hfn hw hx
      obtain ⟨hv1, hg1⟩ := oracleLeafA_one w fn x hfn hw hx hv hg
      have hframe := ptsFrame_oracleLeafA w fn x
      set r := oracleLeafA w fn x with hr
      simp only [List.map_cons, List.nodup_cons] at hnd
      have hne : ∀ tw ∈ hd2 :: rest2, tw.1 ≠ fn := by
        intro tw htw e
        apply hnd.1
        rw [← e]
        simpa using List.mem_map_of_mem (f := (·.1)) htw
      have hpts : ∀ tw ∈ hd2 :: rest2, (r.1.getF tw.1).pts = (w.getF tw.1).pts :=
        fun tw htw => hframe tw.1 (hne tw htw)
      have hterms' : ∀ tw ∈ hd2 :: rest2, tw.1 < r.1.funs.length ∧ tw.2 ≠ 0 := by
        intro tw htw
        have := hterms tw (List.mem_cons_of_mem _ htw)
        exact ⟨by rw [hext.len]; exact this.1, this.2⟩
      have hlast : ∀ last, (hd2 :: rest2).getLast? = some last → ((fn, wt) :: hd2 :: rest2).getLast? = some last := by
        intro last h; simpa [List.getLast?_cons_cons] using h
      have hlastmem : ∀ last, (hd2 :: rest2).getLast? = some last → last ∈ hd2 :: rest2 :=
        fun last h => List.mem_of_getLast? h
      apply ih r.1 _ _ (by simpa using hnd.2) hterms' hwf (PDict.wf_sub _ _ hgl) (EDict.wf_sub _ _ hfl) hv1 hg1
      · intro last hl hex
        have hlm := hlastmem last hl
        rw [hpts last hlm] at hex
        obtain ⟨hall, hsum⟩ := hval last (hlast last hl) hex
        obtain ⟨t, ht⟩ := hall (fn, wt) List.mem_cons_self
        refine ⟨fun tw htw => by rw [hpts tw htw]; exact hall tw (List.mem_cons_of_mem _ htw), fun φ => ?_⟩
        have hval' : r.2.2 = t.v := oracleLeafA_val_of_some w fn x t ht
        rw [vden_sub φ fl _ (EDict.wf_smul wt _ hvn), vden_smul, hsum φ, hval']
        simp only [List.map_cons, List.sum_cons]
        have hfa : firstAt w x fn = t := by simp [firstAt, ht]
        rw [hfa]
        have hrest : (List.map (fun tw : Nat × Coef => ((tw.2 : ℚ) : ℝ) * vden φ (firstAt r.1 x tw.1).v) rest2)
            = (List.map (fun tw : Nat × Coef => ((tw.2 : ℚ) : ℝ) * vden φ (firstAt w x tw.1).v) rest2) := by
          apply List.map_congr_left
          intro tw htw
          rw [firstAt_congr w r.1 x tw.1 (hpts tw (List.mem_cons_of_mem _ htw))]
        rw [hrest, firstAt_congr w r.1 x hd2.1 (hpts hd2 List.mem_cons_self)]
        ring
      · intro last hl hre
        have hlm := hlastmem last hl
        rw [hpts last hlm]
        apply hgrad last (hlast last hl)
        rw [← (hext.flags last.1).2.1]; exact hre

end Pepit

namespace Pepit

/-! ### what the need classification says about each list -/

def ClassOK (w : AW) (x : PDict) (acc : List (Nat × Coef) × List (Nat × Coef) × List (Nat × Coef)) : Prop :=
  (∀ tw ∈ acc.1, (∃ t, lookupTriple (w.getF tw.1).pts x = some t) ∧ (w.getF tw.1).reuse = true) ∧
  (∀ tw ∈ acc.2.1, (∃ t, lookupTriple (w.getF tw.1).pts x = some t) ∧ (w.getF tw.1).reuse = false) ∧
  (∀ tw ∈ acc.2.2, lookupTriple (w.getF tw.1).pts x = none)

theorem classify_ok_aux (w : AW) (x : PDict) :
    ∀ (d : Dict Nat) (acc : List (Nat × Coef) × List (Nat × Coef) × List (Nat × Coef)),
      ClassOK w x acc → ClassOK w x (d.foldl (classifyStep w x) acc) := by
  intro d
  induction d with
  | nil => intro acc h; exact h
  | cons tw rest ih =>
    intro acc h
    rw [List.foldl_cons]
    apply ih
    obtain ⟨h0, h1, h2⟩ := h
    unfold classifyStep
    simp only
    cases hl : lookupTriple (w.getF tw.1).pts x with
    | some t =>
      by_cases hr : (w.getF tw.1).reuse = true
      · simp only [hr, if_true]
        refine ⟨?_, h1, h2⟩
        intro tw' h'
        rcases List.mem_append.mp h' with h' | h'
        · exact h0 tw' h'
        · simp only [List.mem_singleton] at h'; subst h'; exact ⟨⟨t, hl⟩, hr⟩
      · simp only [hr, Bool.false_eq_true, if_false]
        refine ⟨h0, ?_, h2⟩
        intro tw' h'
        rcases List.mem_append.mp h' with h' | h'
        · exact h1 tw' h'
        · simp only [List.mem_singleton] at h'; subst h'; exact ⟨⟨t, hl⟩, by simpa using hr⟩
    | none =>
      simp only
      refine ⟨h0, h1, ?_⟩
      intro tw' h'
      rcases List.mem_append.mp h' with h' | h'
      · exact h2 tw' h'
      · simp only [List.mem_singleton] at h'; subst h'; exact hl

theorem classify_ok (w : AW) (d : Dict Nat) (x : PDict) : ClassOK w x (classify w d x) := by
  unfold classify
  apply classify_ok_aux
  exact ⟨by simp, by simp, by simp⟩

end Pepit

namespace Pepit

/-! ### `add_point` -/

theorem getLast?_mem_right {α : Type} (a b : List α) (hb : b ≠ []) (l : α) (h : (a ++ b).getLast? = some l) : l ∈ b := by
  rw [List.getLast?_append] at h
  cases hbl : b.getLast? with
  | none => exact absurd (List.getLast?_eq_none_iff.mp hbl) hb
  | some l' =>
    rw [hbl] at h
    cases h
    exact List.mem_of_getLast? hbl

/-- **`add_point` keeps one value per point and one gradient per point of a differentiable function**,
provided the triplet being added agrees with what is already recorded: (H1) its value is the value
already recorded on `f` at that point, if any; (H1g) a differentiable `f` is not yet evaluated there;
(H2) when every term is already evaluated at the point, its value is the weighted sum of the terms'
values. -/
theorem addPointA_one (w : AW) (f : Nat) (t : ATriple) (hi : OInv w) (hf : f < w.funs.length)
    (hx : (Dict.keys t.x).Nodup) (hg : (Dict.keys t.g).Nodup) (hvk : (Dict.keys t.v).Nodup)
    (hv : OneValue w) (hgr : OneGrad w)
    (H1 : ∀ t2 ∈ (w.getF f).pts, SamePt t2.x (Dict.prune t.x) → ∀ φ, vden φ t2.v = vden φ t.v)
    (H1g : (w.getF f).reuse = true → ∀ t2 ∈ (w.getF f).pts, ¬ SamePt t2.x (Dict.prune t.x))
    (H2 : (w.getF f).isLeaf = false →
      (∀ tw ∈ Dict.prune (w.getF f).decomp, ∃ t', lookupTriple (w.getF tw.1).pts (Dict.prune t.x) = some t') →
      ∀ φ, vden φ t.v = ((Dict.prune (w.getF f).decomp).map
        (fun tw => ((tw.2 : ℚ) : ℝ) * vden φ (firstAt w (Dict.prune t.x) tw.1).v)).sum) :
    OneValue (addPointA w f t) ∧ OneGrad (addPointA w f t) := by
  obtain ⟨hw, hs, _⟩ := hi
  have hv1 : OneValue (w.record f t) := oneValue_record w f t hv H1
  have hg1 : OneGrad (w.record f t) := oneGrad_record w f t hf hgr H1g
  by_cases hleaf : (w.getF f).isLeaf = true
  · rw [addPointA_leaf w f t hleaf]; exact ⟨hv1, hg1⟩
  · have hcomp : (w.getF f).isLeaf = false := by simpa using hleaf
    obtain ⟨hterms, hnd, _⟩ := hs f hf hcomp
    have hself : ∀ tw ∈ Dict.prune (w.getF f).decomp, tw.1 ≠ f := by
      intro tw htw e
      have := (hterms tw htw).2
      rw [e, hcomp] at this; cases this
    have he1 : Extends w (w.record f t) := extends_record w f t
    have hwf1 : WfW (w.record f t) := wfW_record w f t hw hx hg hvk
    have hleaf1 : ((w.record f t).getF f).isLeaf = false := by rw [(he1.flags f).1]; exact hcomp
    have hdec1 : ((w.record f t).getF f).decomp = (w.getF f).decomp := by
      simp only [AW.record]; rw [getF_setPts]; split <;> rfl
    have he2 : Extends (w.record f t) (preLoop w f t) := extends_setDecomp_prune _ f
    have hwf2 : WfW (preLoop w f t) := wfW_setDecomp _ f _ hwf1
    have hlen2 : (preLoop w f t).funs.length = w.funs.length := he2.len.trans he1.len
    have hv2 : OneValue (preLoop w f t) := oneValue_setDecomp _ _ _ hv1
    have hg2 : OneGrad (preLoop w f t) := oneGrad_setDecomp _ _ _ hg1
    have hxp : (Dict.keys (Dict.prune t.x)).Nodup := Dict.nodup_keys_prune _ hx
    have hgp : (Dict.keys (Dict.prune t.g)).Nodup := Dict.nodup_keys_prune _ hg
    have hvp : (Dict.keys (Dict.prune t.v)).Nodup := Dict.nodup_keys_prune _ hvk
    -- the terms' triplet lists are those of `w`
    have hpts : ∀ tw ∈ Dict.prune (w.getF f).decomp, ((preLoop w f t).getF tw.1).pts = (w.getF tw.1).pts := by
      intro tw htw
      unfold preLoop
      rw [pts_setDecomp]
      exact ptsFrame_record w f t tw.1 (hself tw htw)
    rw [addPointA_unfold w f t hleaf1]
    by_cases hneed : someTermNeeds w f t = true
    · rw [if_pos hneed, hdec1]
      have hperm := classify_perm (preLoop w f t) (Dict.prune (w.getF f).decomp) (Dict.prune t.x)
      have hok := classify_ok (preLoop w f t) (Dict.prune (w.getF f).decomp) (Dict.prune t.x)
      set c := classify (preLoop w f t) (Dict.prune (w.getF f).decomp) (Dict.prune t.x) with hc
      obtain ⟨ok0, ok1, ok2⟩ := hok
      have hne12 : c.2.1 ++ c.2.2 ≠ [] := by
        intro h2
        have : someTermNeeds w f t = false := by
          unfold someTermNeeds; simp only [hdec1, ← hc, h2]; rfl
        rw [this] at hneed; exact Bool.false_ne_true hneed
      have hterms' : ∀ tw ∈ c.1 ++ (c.2.1 ++ c.2.2), tw.1 < (preLoop w f t).funs.length ∧ tw.2 ≠ 0 := by
        intro tw htw
        have hmem : tw ∈ Dict.prune (w.getF f).decomp := hperm.mem_iff.mp htw
        exact ⟨by rw [hlen2]; exact (hterms tw hmem).1, Dict.prune_no_zero _ tw hmem⟩
      have hndv : ((c.1 ++ (c.2.1 ++ c.2.2)).map (·.1)).Nodup := (hperm.map _).nodup_iff.mpr hnd
      apply distribute_one (Dict.prune t.x) hxp _ (preLoop w f t) _ _ hndv hterms' hwf2 hgp hvp hv2 hg2
      · -- values
        intro last hl hex
        have hl12 : last ∈ c.2.1 ++ c.2.2 := getLast?_mem_right _ _ hne12 last hl
        have hn2 : c.2.2 = [] := by
          by_contra hne2
          have hl2 : last ∈ c.2.2 := by
            have hl' : (c.1 ++ c.2.1 ++ c.2.2).getLast? = some last := by rw [List.append_assoc]; exact hl
            exact getLast?_mem_right _ _ hne2 last hl'
          obtain ⟨t', ht'⟩ := hex
          rw [ok2 last hl2] at ht'; cases ht'
        have hallterms : ∀ tw ∈ c.1 ++ (c.2.1 ++ c.2.2), ∃ t', lookupTriple ((preLoop w f t).getF tw.1).pts (Dict.prune t.x) = some t' := by
          intro tw htw
          rw [hn2, List.append_nil] at htw
          rcases List.mem_append.mp htw with h | h
          · exact (ok0 tw h).1
          · exact (ok1 tw h).1
        refine ⟨hallterms, fun φ => ?_⟩
        have hallD : ∀ tw ∈ Dict.prune (w.getF f).decomp, ∃ t', lookupTriple (w.getF tw.1).pts (Dict.prune t.x) = some t' := by
          intro tw htw
          rw [← hpts tw htw]
          exact hallterms tw (hperm.mem_iff.mpr htw)
        rw [vden_prune, H2 hcomp hallD φ]
        have hcongr : (List.map (fun tw : Nat × Coef => ((tw.2 : ℚ) : ℝ) * vden φ (firstAt (preLoop w f t) (Dict.prune t.x) tw.1).v) (c.1 ++ (c.2.1 ++ c.2.2)))
            = List.map (fun tw : Nat × Coef => ((tw.2 : ℚ) : ℝ) * vden φ (firstAt w (Dict.prune t.x) tw.1).v) (c.1 ++ (c.2.1 ++ c.2.2)) := by
          apply List.map_congr_left
          intro tw htw
          rw [firstAt_congr w (preLoop w f t) _ tw.1 (hpts tw (hperm.mem_iff.mp htw))]
        rw [hcongr]
        exact ((hperm.map _).sum_eq).symm
      · -- gradients
        intro last hl hre
        have hl12 : last ∈ c.2.1 ++ c.2.2 := getLast?_mem_right _ _ hne12 last hl
        rcases List.mem_append.mp hl12 with h | h
        · have := (ok1 last h).2
          rw [hre] at this; cases this
        · exact ok2 last h
    · rw [if_neg hneed]
      exact ⟨hv2, hg2⟩

end Pepit

namespace Pepit

/-! ### pruning and `SamePt` -/

theorem get?_prune : ∀ (a : PDict), (Dict.keys a).Nodup → ∀ k,
    Dict.get? (Dict.prune a) k = (Dict.get? a k).bind (fun c => if c = 0 then none else some c) := by
  intro a
  induction a with
  | nil => intro _ k; simp [Dict.prune, Dict.get?, List.lookup]
  | cons hd tl ih =>
    obtain ⟨k', c'⟩ := hd
    intro hnd k
    rw [Dict.keys_cons, List.nodup_cons] at hnd
    have ih' := ih hnd.2 k
    by_cases hk : k = k'
    · subst hk
      by_cases hc : c' = 0
      · subst hc
        have hnone : Dict.get? (Dict.prune tl) k = none := by
          rw [Dict.get?_none_iff]
          intro hm
          exact hnd.1 (keys_prune_subset tl k hm)
        have : Dict.prune ((k, (0 : Coef)) :: tl) = Dict.prune tl := by simp [Dict.prune]
        rw [this, hnone]
        simp [Dict.get?, List.lookup]
      · have : Dict.prune ((k, c') :: tl) = (k, c') :: Dict.prune tl := by simp [Dict.prune, hc]
        rw [this]
        simp [Dict.get?, List.lookup, hc]
    · have hb : (k == k') = false := by simpa using hk
      by_cases hc : c' = 0
      · subst hc
        have : Dict.prune ((k', (0 : Coef)) :: tl) = Dict.prune tl := by simp [Dict.prune]
        rw [this, ih']
        simp [Dict.get?, List.lookup, hb]
      · have : Dict.prune ((k', c') :: tl) = (k', c') :: Dict.prune tl := by simp [Dict.prune, hc]
        rw [this]
        have e1 : Dict.get? ((k', c') :: Dict.prune tl) k = Dict.get? (Dict.prune tl) k := by
          simp [Dict.get?, List.lookup, hb]
        have e2 : Dict.get? ((k', c') :: tl) k = Dict.get? tl k := by
          simp [Dict.get?, List.lookup, hb]
        rw [e1, e2, ih']

theorem samePt_prune {a b : PDict} (ha : (Dict.keys a).Nodup) (hb : (Dict.keys b).Nodup) (h : SamePt a b) :
    SamePt (Dict.prune a) (Dict.prune b) := by
  intro k
  rw [get?_prune a ha, get?_prune b hb, h k]

/-- a stored triplet found at `x` sits at the pruned point, also after pruning its own point again -/
theorem samePt_prune_stored {tx x : PDict} (ht : (Dict.keys tx).Nodup) (hx : (Dict.keys x).Nodup)
    (h : SamePt tx (Dict.prune x)) : SamePt (Dict.prune tx) (Dict.prune x) := by
  have := samePt_prune ht (Dict.nodup_keys_prune x hx) h
  rwa [prune_prune] at this

end Pepit

namespace Pepit

/-! ### `oracle` on any function -/

theorem lookup_prune_arg (pts : List ATriple) (x : PDict) : lookupTriple pts (Dict.prune x) = lookupTriple pts x := by
  unfold lookupTriple; rw [prune_prune]

theorem firstAt_prune_arg (w : AW) (x : PDict) (i : Nat) : firstAt w (Dict.prune x) i = firstAt w x i := by
  unfold firstAt; rw [lookup_prune_arg]

theorem oinv_setDecomp_prune (w : AW) (f : Nat) (hi : OInv w) : OInv (w.setDecomp f (Dict.prune (w.getF f).decomp)) := by
  have hext0 : Extends w (w.setDecomp f (Dict.prune (w.getF f).decomp)) := extends_setDecomp_prune w f
  obtain ⟨hw, hs, hc⟩ := hi
  refine ⟨wfW_setDecomp w f _ hw, struct_of_extends hext0 hs, consistent_of_extends hext0 hc ?_⟩
  intro g _ _ t ht hnot
  rw [ptsFrame_setDecomp w f _ g (fun h => h)] at ht
  exact absurd ht hnot

/-- when no term is classified "needs both", every term is evaluated at the point -/
theorem all_evaluated_of_n2_empty (w : AW) (d : Dict Nat) (x : PDict) (h : (classify w d x).2.2 = []) :
    ∀ tw ∈ d, ∃ t, lookupTriple (w.getF tw.1).pts x = some t := by
  intro tw htw
  have hperm := classify_perm w d x
  obtain ⟨ok0, ok1, _⟩ := classify_ok w d x
  have hm := hperm.mem_iff.mpr htw
  rw [h, List.append_nil] at hm
  rcases List.mem_append.mp hm with h' | h'
  · exact (ok0 tw h').1
  · exact (ok1 tw h').1

theorem oracleA_one (w : AW) (f : Nat) (x : PDict) (hf : f < w.funs.length) (hx : (Dict.keys x).Nodup)
    (hi : OInv w) (hv : OneValue w) (hgr : OneGrad w) :
    OneValue (oracleA w f x).1 ∧ OneGrad (oracleA w f x).1 := by
  unfold oracleA
  by_cases hleaf : (w.getF f).isLeaf = true
  · simp only [hleaf, if_true]; exact oracleLeafA_one w f x hf hi.1 hx hv hgr
  · have hcomp : (w.getF f).isLeaf = false := by simpa using hleaf
    simp only [hcomp, Bool.false_eq_true, if_false]
    set w0 := w.setDecomp f (Dict.prune (w.getF f).decomp) with hw0def
    have hext0 : Extends w w0 := extends_setDecomp_prune w f
    have hi0 : OInv w0 := oinv_setDecomp_prune w f hi
    have hv0 : OneValue w0 := oneValue_setDecomp w f _ hv
    have hg0 : OneGrad w0 := oneGrad_setDecomp w f _ hgr
    have hf0 : f < w0.funs.length := by rw [hext0.len]; exact hf
    have hcomp0 : (w0.getF f).isLeaf = false := by rw [(hext0.flags f).1]; exact hcomp
    have hdec0 : (w0.getF f).decomp = Dict.prune (w.getF f).decomp := by
      rw [hw0def, getF_setDecomp]; simp [hf]
    have hpp : Dict.prune (w0.getF f).decomp = (w0.getF f).decomp := by rw [hdec0, prune_prune]
    obtain ⟨hw0, hs0, hc0⟩ := hi0
    obtain ⟨hterms0, hnd0, hre0⟩ := hs0 f hf0 hcomp0
    -- generic closing step
    have close : ∀ (a b : Nat) (g : PDict) (v : EDict), (Dict.keys g).Nodup → (Dict.keys v).Nodup →
        (∀ t2 ∈ (w0.getF f).pts, SamePt t2.x (Dict.prune x) → ∀ φ, vden φ t2.v = vden φ v) →
        ((w0.getF f).reuse = true → ∀ t2 ∈ (w0.getF f).pts, ¬ SamePt t2.x (Dict.prune x)) →
        ((∀ tw ∈ (w0.getF f).decomp, ∃ t', lookupTriple (w0.getF tw.1).pts x = some t') →
          ∀ φ, vden φ v = ((w0.getF f).decomp.map (fun tw => ((tw.2 : ℚ) : ℝ) * vden φ (firstAt w0 x tw.1).v)).sum) →
        OneValue (addPointA ({ w0 with nP := a, nE := b } : AW) f ⟨x, g, v⟩) ∧
        OneGrad (addPointA ({ w0 with nP := a, nE := b } : AW) f ⟨x, g, v⟩) := by
      intro a b g v hg hvk H1 H1g H2
      apply addPointA_one _ f ⟨x, g, v⟩ (oinv_counters w0 a b ⟨hw0, hs0, hc0⟩) hf0 hx hg hvk
        (oneValue_counters w0 a b hv0) (oneGrad_counters w0 a b hg0) H1 H1g
      intro _ hall φ
      have hall' : ∀ tw ∈ (w0.getF f).decomp, ∃ t', lookupTriple (w0.getF tw.1).pts x = some t' := by
        intro tw htw
        have := hall tw (by rw [show (({ w0 with nP := a, nE := b } : AW).getF f) = w0.getF f from rfl, hpp]; exact htw)
        rw [show (({ w0 with nP := a, nE := b } : AW).getF tw.1) = w0.getF tw.1 from rfl] at this
        simpa [lookup_prune_arg] using this
      have := H2 hall' φ
      rw [show (({ w0 with nP := a, nE := b } : AW).getF f) = w0.getF f from rfl, hpp]
      rw [this]
      apply congrArg
      apply List.map_congr_left
      intro tw _
      rw [firstAt_prune_arg]
      rfl
    cases hassoc : lookupTriple (w0.getF f).pts x with
    | some t =>
      by_cases hr : (w0.getF f).reuse = true
      · simp only [hassoc, hr]; exact ⟨hv0, hg0⟩
      · have hrf : (w0.getF f).reuse = false := by simpa using hr
        simp only [hassoc, hrf]
        obtain ⟨htm, hts⟩ := lookup_some_spec w0 hw0 f x hx t hassoc
        have htv : (Dict.keys t.v).Nodup := (hw0 f t htm).2.2
        have htx : (Dict.keys t.x).Nodup := (hw0 f t htm).1
        obtain ⟨twn, htwn, hrn⟩ := hre0 hrf
        rw [hpp] at htwn
        have H1 : ∀ t2 ∈ (w0.getF f).pts, SamePt t2.x (Dict.prune x) → ∀ φ, vden φ t2.v = vden φ t.v :=
          fun t2 ht2 hs φ => hv0 f t2 t ht2 htm (hs.trans hts.symm) φ
        have H1g : (w0.getF f).reuse = true → ∀ t2 ∈ (w0.getF f).pts, ¬ SamePt t2.x (Dict.prune x) :=
          fun h => absurd h hr
        have H2 : (∀ tw ∈ (w0.getF f).decomp, ∃ t', lookupTriple (w0.getF tw.1).pts x = some t') →
            ∀ φ, vden φ t.v = ((w0.getF f).decomp.map (fun tw => ((tw.2 : ℚ) : ℝ) * vden φ (firstAt w0 x tw.1).v)).sum := by
          intro hall φ
          obtain ⟨pick, hpm, _, hpv⟩ := hc0 f hf0 hcomp0 t htm
          rw [hpp] at hpm hpv
          rw [← hpv φ]
          apply congrArg
          apply List.map_congr_left
          intro tw htw
          obtain ⟨t', ht'⟩ := hall tw htw
          obtain ⟨ht'm, ht's⟩ := lookup_some_spec w0 hw0 tw.1 x hx t' ht'
          have hfa : firstAt w0 x tw.1 = t' := by simp [firstAt, ht']
          rw [hfa]
          obtain ⟨hpmem, hpat⟩ := hpm tw htw
          have hps : SamePt (pick tw.1).x (Dict.prune t.x) :=
            samePt_of_atPoint (hw0 tw.1 _ hpmem).1 htx hpat
          have hsame : SamePt (pick tw.1).x t'.x :=
            (hps.trans (samePt_prune_stored htx hx hts)).trans ht's.symm
          rw [hv0 tw.1 (pick tw.1) t' hpmem ht'm hsame φ]
        split
        · next hboth =>
          exfalso
          simp only [Bool.and_eq_true, List.isEmpty_iff] at hboth
          have := (classify_none_need w0 (w0.getF f).decomp x hboth.2 hboth.1 twn htwn).2
          rw [hrn] at this; cases this
        · exact close _ _ _ _ (by simp [leafPoint, Dict.keys]) htv H1 H1g H2
    | none =>
      simp only [hassoc]
      have hnone := lookup_none_spec w0 hw0 f x hx hassoc
      have H1 : ∀ (v : EDict), ∀ t2 ∈ (w0.getF f).pts, SamePt t2.x (Dict.prune x) → ∀ φ, vden φ t2.v = vden φ v :=
        fun v t2 ht2 hs => absurd hs (hnone t2 ht2)
      have H1g : (w0.getF f).reuse = true → ∀ t2 ∈ (w0.getF f).pts, ¬ SamePt t2.x (Dict.prune x) :=
        fun _ t2 ht2 => hnone t2 ht2
      by_cases hn2 : (classify w0 (w0.getF f).decomp x).2.2.isEmpty = true
      · simp only [hn2, if_true, Bool.true_and]
        have hev := all_evaluated_of_n2_empty w0 (w0.getF f).decomp x (List.isEmpty_iff.mp hn2)
        obtain ⟨hkv, hcv⟩ := combineV_spec w0 hw0 x (w0.getF f).decomp [] (by simp [Dict.keys]) hev
        have H2 : (∀ tw ∈ (w0.getF f).decomp, ∃ t', lookupTriple (w0.getF tw.1).pts x = some t') →
            ∀ φ, vden φ (combineV w0 (w0.getF f).decomp x)
              = ((w0.getF f).decomp.map (fun tw => ((tw.2 : ℚ) : ℝ) * vden φ (firstAt w0 x tw.1).v)).sum := by
          intro _ φ
          have h := hcv φ
          have hz : vden φ ([] : EDict) = 0 := by simp [vden, Dict.denM]
          rw [hz, zero_add] at h
          exact h
        by_cases hn1 : (classify w0 (w0.getF f).decomp x).2.1.isEmpty = true
        · simp only [hn1, if_true]
          have hkg := (combineG_spec w0 hw0 x (w0.getF f).decomp [] (by simp [Dict.keys]) hev).1
          exact close w0.nP w0.nE _ _ hkg hkv (H1 _) H1g H2
        · simp only [hn1, Bool.false_eq_true, if_false]
          exact close _ _ _ _ (by simp [leafPoint, Dict.keys]) hkv (H1 _) H1g H2
      · simp only [hn2, Bool.false_eq_true, if_false, Bool.false_and]
        apply close _ _ _ _ (by simp [leafPoint, Dict.keys]) (by simp [leafExpr, Dict.keys]) (H1 _) H1g
        intro hall
        exfalso
        obtain ⟨_, _, ok2⟩ := classify_ok w0 (w0.getF f).decomp x
        have hperm := classify_perm w0 (w0.getF f).decomp x
        cases hc2 : (classify w0 (w0.getF f).decomp x).2.2 with
        | nil => rw [hc2] at hn2; exact hn2 rfl
        | cons tw rest =>
          have htw2 : tw ∈ (classify w0 (w0.getF f).decomp x).2.2 := by rw [hc2]; exact List.mem_cons_self
          have htwd : tw ∈ (w0.getF f).decomp :=
            hperm.mem_iff.mp (List.mem_append_right _ (List.mem_append_right _ htw2))
          obtain ⟨t', ht'⟩ := hall tw htwd
          rw [ok2 tw htw2] at ht'; cases ht'

end Pepit

namespace Pepit

theorem valueA_one (w : AW) (f : Nat) (x : PDict) (hf : f < w.funs.length) (hx : (Dict.keys x).Nodup)
    (hi : OInv w) (hv : OneValue w) (hgr : OneGrad w) :
    OneValue (valueA w f x).1 ∧ OneGrad (valueA w f x).1 := by
  unfold valueA
  cases lookupTriple (w.getF f).pts x with
  | some t => exact ⟨hv, hgr⟩
  | none => exact oracleA_one w f x hf hx hi hv hgr

/-- `add_point` of a triplet at a new leaf point (what `stationary_point()` / `fixed_point()` do) -/
theorem addPointA_fresh_one (w : AW) (f : Nat) (g : PDict) (v : EDict) (n : Nat) (hn : w.nP ≤ n + 1)
    (hb : ∀ f' t, t ∈ (w.getF f').pts → ∀ k ∈ Dict.keys t.x, k < n)
    (hi : OInv w) (hf : f < w.funs.length)
    (hg : (Dict.keys g).Nodup) (hvk : (Dict.keys v).Nodup)
    (hne : (w.getF f).isLeaf = false → Dict.prune (w.getF f).decomp ≠ [])
    (hv : OneValue w) (hgr : OneGrad w) :
    OneValue (addPointA w f ⟨leafPoint n, g, v⟩) ∧ OneGrad (addPointA w f ⟨leafPoint n, g, v⟩) := by
  have _ := hn
  have hfresh : ∀ f', lookupTriple (w.getF f').pts (leafPoint n) = none := by
    intro f'
    unfold lookupTriple
    rw [List.find?_eq_none]
    intro t ht
    rw [prune_leafPoint]
    intro he
    have := hb f' t ht n (eqv_leaf_mem t.x n he)
    omega
  have hnone : ∀ f', ∀ t2 ∈ (w.getF f').pts, ¬ SamePt t2.x (Dict.prune (leafPoint n)) :=
    fun f' => lookup_none_spec w hi.1 f' (leafPoint n) (keys_leafPoint n) (hfresh f')
  apply addPointA_one w f ⟨leafPoint n, g, v⟩ hi hf (keys_leafPoint n) hg hvk hv hgr
  · intro t2 ht2 hs; exact absurd hs (hnone f t2 ht2)
  · intro _ t2 ht2; exact hnone f t2 ht2
  · intro hcomp hall
    exfalso
    cases hd : Dict.prune (w.getF f).decomp with
    | nil => exact hne hcomp hd
    | cons tw rest =>
      obtain ⟨t', ht'⟩ := hall tw (by rw [hd]; exact List.mem_cons_self)
      simp only [prune_leafPoint] at ht'
      rw [hfresh tw.1] at ht'; cases ht'

theorem stationaryPointA_one (w : AW) (f : Nat) (hi : OInv w) (hb : Bounded w) (hf : f < w.funs.length)
    (hne : (w.getF f).isLeaf = false → Dict.prune (w.getF f).decomp ≠ [])
    (hv : OneValue w) (hgr : OneGrad w) :
    OneValue (stationaryPointA w f).1 ∧ OneGrad (stationaryPointA w f).1 := by
  unfold stationaryPointA
  simp only
  exact addPointA_fresh_one { w with nP := w.nP + 1, nE := w.nE + 1 } f [] (leafExpr w.nE) w.nP (Nat.le_refl _)
    (fun f' t ht k hk => hb f' t ht k hk) (oinv_counters w (w.nP + 1) (w.nE + 1) hi) hf (by simp [Dict.keys]) (keys_leafExpr _) hne
    (oneValue_counters w _ _ hv) (oneGrad_counters w _ _ hgr)

theorem fixedPointA_one (w : AW) (f : Nat) (hi : OInv w) (hb : Bounded w) (hf : f < w.funs.length)
    (hne : (w.getF f).isLeaf = false → Dict.prune (w.getF f).decomp ≠ [])
    (hv : OneValue w) (hgr : OneGrad w) :
    OneValue (fixedPointA w f).1 ∧ OneGrad (fixedPointA w f).1 := by
  unfold fixedPointA
  simp only
  exact addPointA_fresh_one { w with nP := w.nP + 1, nE := w.nE + 1 } f (leafPoint w.nP) (leafExpr w.nE) w.nP (Nat.le_refl _)
    (fun f' t ht k hk => hb f' t ht k hk) (oinv_counters w (w.nP + 1) (w.nE + 1) hi) hf (keys_leafPoint _) (keys_leafExpr _) hne
    (oneValue_counters w _ _ hv) (oneGrad_counters w _ _ hgr)

end Pepit

#print axioms Pepit.oracleA_one
#print axioms Pepit.stationaryPointA_one
