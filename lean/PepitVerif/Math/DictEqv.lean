import PepitVerif.Math.WellFormed
import Mathlib.Data.List.Perm.Subperm
import Mathlib.Data.List.Nodup

namespace Dict
variable {κ : Type} [DecidableEq κ]

theorem get?_of_mem_nodup : ∀ (d : Dict κ), (keys d).Nodup → ∀ k c, (k, c) ∈ d → d.get? k = some c := by
  intro d
  induction d with
  | nil => intro _ k c h; cases h
  | cons hd t ih =>
    obtain ⟨k', c'⟩ := hd
    intro hnd k c hm
    rw [keys_cons, List.nodup_cons] at hnd
    rcases List.mem_cons.mp hm with h | h
    · cases h; simp [get?, List.lookup]
    · have hk : k ≠ k' := by
        intro e; subst e
        exact hnd.1 (List.mem_map.mpr ⟨(k, c), h, rfl⟩)
      have hb : (k == k') = false := by simpa using hk
      have := ih hnd.2 k c h
      simpa [get?, List.lookup, hb] using this

theorem mem_of_get? : ∀ (d : Dict κ) k c, d.get? k = some c → (k, c) ∈ d := by
  intro d
  induction d with
  | nil => intro k c h; simp [get?, List.lookup] at h
  | cons hd t ih =>
    obtain ⟨k', c'⟩ := hd
    intro k c h
    by_cases hk : k = k'
    · subst hk; simp [get?, List.lookup] at h; subst h; exact List.mem_cons_self
    · have hb : (k == k') = false := by simpa using hk
      simp only [get?, List.lookup, hb] at h
      exact List.mem_cons_of_mem _ (ih k c h)

theorem get?_none_iff (d : Dict κ) (k : κ) : d.get? k = none ↔ k ∉ keys d := by
  induction d with
  | nil => simp [get?, List.lookup, keys]
  | cons hd t ih =>
    obtain ⟨k', c'⟩ := hd
    by_cases hk : k = k'
    · subst hk; simp [get?, List.lookup, keys]
    · have hb : (k == k') = false := by simpa using hk
      simp only [get?, List.lookup, hb, keys_cons, List.mem_cons, hk, false_or]
      exact ih

theorem eqv_iff (a b : Dict κ) (ha : (keys a).Nodup) (hb : (keys b).Nodup) :
    eqv a b = true ↔ ∀ k, a.get? k = b.get? k := by
  unfold eqv
  simp only [Bool.and_eq_true, beq_iff_eq, List.all_eq_true]
  constructor
  · rintro ⟨hlen, hall⟩ k
    have hsub : keys a ⊆ keys b := by
      intro k hk
      obtain ⟨kc, hkc, rfl⟩ := List.mem_map.mp hk
      have := hall kc hkc
      by_contra hn
      rw [← get?_none_iff] at hn
      rw [hn] at this; cases this
    have hperm : (keys a).Perm (keys b) :=
      (List.Nodup.subperm ha hsub).perm_of_length_le (by simp [keys, hlen])
    cases hak : a.get? k with
    | none =>
      have : k ∉ keys a := (get?_none_iff a k).mp hak
      have : k ∉ keys b := fun h => this (hperm.mem_iff.mpr h)
      exact ((get?_none_iff b k).mpr this).symm
    | some c =>
      have := hall (k, c) (mem_of_get? a k c hak)
      exact this.symm
  · intro h
    have hperm : (keys a).Perm (keys b) := by
      rw [List.perm_ext_iff_of_nodup ha hb]
      intro k
      rw [← not_iff_not, ← get?_none_iff, ← get?_none_iff, h k]
    refine ⟨by simpa [keys] using hperm.length_eq, ?_⟩
    intro kc hkc
    rw [← h kc.1]
    exact get?_of_mem_nodup a ha kc.1 kc.2 hkc

end Dict
