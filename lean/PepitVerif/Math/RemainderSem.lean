import PepitModel.Remainder
import PepitVerif.Math.WellFormed

/-!
# "The last term gets the remainder": the recorded triplet of a composite function is the
weighted sum of the triplets of its terms (algebraic core of property C07)
-/

open RealInnerProductSpace

variable {E : Type*} [NormedAddCommGroup E] [InnerProductSpace ℝ E]

theorem den_remainderG (v : Nat → E) (terms : List (Coef × PDict))
    (hnd : ∀ wg ∈ terms, (Dict.keys wg.2).Nodup) :
    ∀ g : PDict, PDict.den v (remainderG g terms)
      = PDict.den v g - (terms.map (fun wg => ((wg.1 : ℚ) : ℝ) • PDict.den v wg.2)).sum := by
  induction terms with
  | nil => intro g; simp [remainderG]
  | cons hd t ih =>
    obtain ⟨w, gi⟩ := hd
    intro g
    have hgi : (Dict.keys gi).Nodup := hnd (w, gi) List.mem_cons_self
    simp only [remainderG, List.foldl_cons, List.map_cons, List.sum_cons] at ih ⊢
    rw [ih (fun wg h => hnd wg (List.mem_cons_of_mem _ h))]
    rw [PDict.den_sub v g _ (PDict.wf_smul w gi hgi), PDict.den_smul]
    abel

/-- **sum consistency (gradients)**: with a nonzero last weight, the weighted sum of the terms'
gradients — the `n − 1` returned by their oracles and the remainder given to the last term — is
the composite's gradient, for any number of terms and any weights. -/
theorem sum_consistent_G (v : Nat → E) (g : PDict) (terms : List (Coef × PDict)) (wn : Coef)
    (hwn : wn ≠ 0) (hnd : ∀ wg ∈ terms, (Dict.keys wg.2).Nodup) :
    (terms.map (fun wg => ((wg.1 : ℚ) : ℝ) • PDict.den v wg.2)).sum
      + ((wn : ℚ) : ℝ) • PDict.den v (lastG g terms wn) = PDict.den v g := by
  unfold lastG
  rw [PDict.den_div, den_remainderG v terms hnd g, smul_smul]
  have h : ((wn : ℚ) : ℝ) * (((1 / wn : Coef) : ℚ) : ℝ) = 1 := by
    have : ((wn : ℚ) : ℝ) ≠ 0 := by exact_mod_cast hwn
    push_cast; field_simp
  rw [h, one_smul]; abel

theorem den_remainderV (v : Nat → E) (φ : Nat → ℝ) (terms : List (Coef × EDict))
    (hnd : ∀ wv ∈ terms, (Dict.keys wv.2).Nodup) :
    ∀ f : EDict, EDict.den v φ (remainderV f terms)
      = EDict.den v φ f - (terms.map (fun wv => ((wv.1 : ℚ) : ℝ) * EDict.den v φ wv.2)).sum := by
  induction terms with
  | nil => intro f; simp [remainderV]
  | cons hd t ih =>
    obtain ⟨w, vi⟩ := hd
    intro f
    have hvi : (Dict.keys vi).Nodup := hnd (w, vi) List.mem_cons_self
    simp only [remainderV, List.foldl_cons, List.map_cons, List.sum_cons] at ih ⊢
    rw [ih (fun wv h => hnd wv (List.mem_cons_of_mem _ h))]
    rw [EDict.den_sub v φ f _ (EDict.wf_smul w vi hvi), EDict.den_smul]
    ring

/-- **sum consistency (values)** -/
theorem sum_consistent_V (v : Nat → E) (φ : Nat → ℝ) (f : EDict) (terms : List (Coef × EDict))
    (wn : Coef) (hwn : wn ≠ 0) (hnd : ∀ wv ∈ terms, (Dict.keys wv.2).Nodup) :
    (terms.map (fun wv => ((wv.1 : ℚ) : ℝ) * EDict.den v φ wv.2)).sum
      + ((wn : ℚ) : ℝ) * EDict.den v φ (lastV f terms wn) = EDict.den v φ f := by
  unfold lastV EDict.div
  rw [EDict.den_smul, den_remainderV v φ terms hnd f]
  have hne : ((wn : ℚ) : ℝ) ≠ 0 := by exact_mod_cast hwn
  push_cast
  field_simp
  ring

/-- the zero-weight case really is different: dividing the remainder by `0` (Lean's total
division) or, in Python, raising `ZeroDivisionError` — the code avoids it by pruning, and the
terms it prunes are the ones whose samples are then missing (see `Oracle.zero_weight_counterexample`). -/
example : (1 / (0 : Coef)) = 0 := by decide +kernel

#print axioms sum_consistent_G
#print axioms sum_consistent_V
