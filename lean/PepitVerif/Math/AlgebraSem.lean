import PepitVerif.Math.Interp

/-!
# Denotation of `Point` / `Expression` operators (property C06, lemma layer)
-/

open RealInnerProductSpace

variable {E : Type*} [NormedAddCommGroup E] [InnerProductSpace ℝ E]

namespace Dict
variable {κ : Type} [DecidableEq κ] {M : Type*} [AddCommGroup M] [Module ℝ M]

omit [DecidableEq κ] in
theorem denM_map_key {κ' : Type} (val : κ' → M) (f : κ → κ') (d : Dict κ) :
    denM val (d.map (fun kc => (f kc.1, kc.2))) = denM (fun k => val (f k)) d := by
  induction d with
  | nil => rfl
  | cons h t ih => obtain ⟨k, c⟩ := h; simp only [List.map_cons, denM_cons, ih]

/-- one row of `multiply_dicts` -/
theorem denM_mulRow {κ₂ : Type} [DecidableEq κ₂] (val : κ × κ₂ → M) (k1 : κ) (c1 : Coef)
    (d2 : Dict κ₂) (acc : Dict (κ × κ₂)) :
    denM val (mulRow k1 c1 d2 acc) = denM val acc + ((c1 : ℚ) : ℝ) • denM (fun k2 => val (k1, k2)) d2 := by
  unfold mulRow
  induction d2 generalizing acc with
  | nil => simp
  | cons h t ih =>
    obtain ⟨k2, c2⟩ := h
    simp only [List.foldl_cons, denM_cons]
    rw [ih, denM_upsert]; push_cast; module

theorem denM_multiply_aux {κ₂ : Type} [DecidableEq κ₂] (val : κ × κ₂ → M) (d2 : Dict κ₂) :
    ∀ (d1 : Dict κ) (acc : Dict (κ × κ₂)),
    denM val (d1.foldl (fun m kc => mulRow kc.1 kc.2 d2 m) acc)
      = denM val acc + denM (fun k1 => denM (fun k2 => val (k1, k2)) d2) d1 := by
  intro d1
  induction d1 with
  | nil => intro acc; simp
  | cons h t ih =>
    obtain ⟨k1, c1⟩ := h
    intro acc
    simp only [List.foldl_cons, denM_cons]
    rw [ih, denM_mulRow]; module

/-- `multiply_dicts` develops the product of two sums (no side condition). -/
theorem denM_multiply {κ₂ : Type} [DecidableEq κ₂] (val : κ × κ₂ → M) (d1 : Dict κ) (d2 : Dict κ₂) :
    denM val (multiply d1 d2) = denM (fun k1 => denM (fun k2 => val (k1, k2)) d2) d1 := by
  unfold multiply
  rw [denM_multiply_aux]; simp

end Dict

/-- value of an expression key under an interpretation of leaf points and leaf expressions -/
def keyVal (v : Nat → E) (φ : Nat → ℝ) : EKey → ℝ
  | .f i => φ i
  | .ip i j => ⟪v i, v j⟫
  | .one => 1

namespace PDict
/-- the vector a point decomposition denotes -/
def den (v : Nat → E) (d : PDict) : E := Dict.denM v d

theorem den_add (v : Nat → E) (a b : PDict) (hb : (Dict.keys b).Nodup) :
    den v (add a b) = den v a + den v b := by
  unfold den add; rw [Dict.denM_prune, Dict.denM_merge _ _ _ hb]

theorem den_smul (v : Nat → E) (c : Coef) (a : PDict) : den v (smul c a) = ((c : ℚ) : ℝ) • den v a := by
  unfold den smul; exact Dict.denM_scale v a c

theorem den_neg (v : Nat → E) (a : PDict) : den v (neg a) = - den v a := by
  unfold neg; rw [den_smul]; push_cast; simp

theorem den_sub (v : Nat → E) (a b : PDict) (hb : (Dict.keys b).Nodup) :
    den v (sub a b) = den v a - den v b := by
  unfold sub
  rw [den_add, den_neg, sub_eq_add_neg]
  unfold neg smul; rw [Dict.keys_scale]; exact hb

theorem den_div (v : Nat → E) (a : PDict) (c : Coef) :
    den v (div a c) = (((1 / c : Coef) : ℚ) : ℝ) • den v a := by
  unfold div; exact den_smul v _ a

theorem inner_denM_right (v : Nat → E) (x : E) (b : PDict) :
    ⟪x, Dict.denM v b⟫ = Dict.denM (fun j => ⟪x, v j⟫) b := by
  induction b with
  | nil => simp
  | cons h' t' ih' =>
    obtain ⟨j, cj⟩ := h'
    simp only [Dict.denM_cons, inner_add_right, real_inner_smul_right, ih', smul_eq_mul]

/-- inner product of two `denM` sums -/
theorem inner_denM (v : Nat → E) (a b : PDict) :
    ⟪Dict.denM v a, Dict.denM v b⟫ = Dict.denM (fun i => Dict.denM (fun j => ⟪v i, v j⟫) b) a := by
  induction a with
  | nil => simp
  | cons h t ih =>
    obtain ⟨i, ci⟩ := h
    simp only [Dict.denM_cons, inner_add_left, ih]
    rw [real_inner_smul_left, inner_denM_right]
    simp [smul_eq_mul]

end PDict

namespace EDict
/-- the real number an expression decomposition denotes -/
def den (v : Nat → E) (φ : Nat → ℝ) (d : EDict) : ℝ := Dict.denM (keyVal v φ) d

theorem den_add (v : Nat → E) (φ : Nat → ℝ) (a b : EDict) (hb : (Dict.keys b).Nodup) :
    den v φ (add a b) = den v φ a + den v φ b := by
  unfold den add; rw [Dict.denM_prune, Dict.denM_merge _ _ _ hb]

theorem den_addConst (v : Nat → E) (φ : Nat → ℝ) (a : EDict) (c : Coef) :
    den v φ (addConst a c) = den v φ a + ((c : ℚ) : ℝ) := by
  unfold den addConst
  rw [Dict.denM_prune, Dict.denM_merge _ _ _ (by simp [Dict.keys])]
  simp [keyVal]

theorem den_smul (v : Nat → E) (φ : Nat → ℝ) (c : Coef) (a : EDict) :
    den v φ (smul c a) = ((c : ℚ) : ℝ) * den v φ a := by
  unfold den smul; rw [Dict.denM_scale]; rfl

theorem den_neg (v : Nat → E) (φ : Nat → ℝ) (a : EDict) : den v φ (neg a) = - den v φ a := by
  unfold neg; rw [den_smul]; push_cast; ring

theorem den_sub (v : Nat → E) (φ : Nat → ℝ) (a b : EDict) (hb : (Dict.keys b).Nodup) :
    den v φ (sub a b) = den v φ a - den v φ b := by
  unfold sub
  rw [den_add, den_neg, sub_eq_add_neg]
  unfold neg smul; rw [Dict.keys_scale]; exact hb

end EDict

/-- **Product of two points denotes their inner product** (`Point.__rmul__(Point)`), for all
decompositions, with no side condition. -/
theorem den_ip (v : Nat → E) (φ : Nat → ℝ) (a b : PDict) :
    EDict.den v φ (PDict.ip a b) = ⟪PDict.den v a, PDict.den v b⟫ := by
  unfold EDict.den PDict.ip PDict.den
  have h := Dict.denM_map_key (keyVal v φ) (fun (k : Nat × Nat) => EKey.ip k.1 k.2) (Dict.multiply a b)
  rw [h, Dict.denM_multiply, PDict.inner_denM]
  rfl

/-- squared norm -/
theorem den_sq (v : Nat → E) (φ : Nat → ℝ) (a : PDict) :
    EDict.den v φ (PDict.sq a) = ‖PDict.den v a‖ ^ 2 := by
  unfold PDict.sq; rw [den_ip, real_inner_self_eq_norm_sq]

#print axioms den_ip
#print axioms PDict.den_sub
#print axioms EDict.den_addConst
