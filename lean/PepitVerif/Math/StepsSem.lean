import PepitVerif.Math.WellFormed
import PepitModel.Steps

/-!
# Semantics of the step formulas (`Model/Steps`, namespace `StepForm`)
-/

open RealInnerProductSpace

variable {E : Type*} [NormedAddCommGroup E] [InnerProductSpace ℝ E]

namespace Dict
variable {κ : Type} [DecidableEq κ]

theorem nodup_keys_upsert (m : Dict κ) (k : κ) (c : Coef) (h : (keys m).Nodup) :
    (keys (if m.contains k then addAt m k c else set m k c)).Nodup := by
  by_cases hc : m.contains k = true
  · rw [if_pos hc, keys_addAt]; exact h
  · rw [if_neg hc]
    have hk : k ∉ keys m := fun hm => hc ((contains_iff_mem_keys m k).mpr hm)
    rw [keys_set_of_not_mem m k c hk]
    exact List.Nodup.append h (List.nodup_singleton k) (by simpa using hk)

theorem nodup_keys_mulRow {κ₂ : Type} [DecidableEq κ₂] (k1 : κ) (c1 : Coef) (d2 : Dict κ₂) :
    ∀ (acc : Dict (κ × κ₂)), (keys acc).Nodup → (keys (mulRow k1 c1 d2 acc)).Nodup := by
  unfold mulRow
  induction d2 with
  | nil => intro acc h; exact h
  | cons kc rest ih =>
    intro acc h
    rw [List.foldl_cons]
    exact ih _ (nodup_keys_upsert acc (k1, kc.1) (c1 * kc.2) h)

theorem nodup_keys_multiply {κ₂ : Type} [DecidableEq κ₂] (d1 : Dict κ) (d2 : Dict κ₂) :
    (keys (multiply d1 d2)).Nodup := by
  unfold multiply
  have key : ∀ (d1 : Dict κ) (acc : Dict (κ × κ₂)), (keys acc).Nodup →
      (keys (d1.foldl (fun m kc => mulRow kc.1 kc.2 d2 m) acc)).Nodup := by
    intro d1
    induction d1 with
    | nil => intro acc h; exact h
    | cons kc rest ih => intro acc h; rw [List.foldl_cons]; exact ih _ (nodup_keys_mulRow kc.1 kc.2 d2 acc h)
  exact key d1 [] (by simp [keys])

end Dict

/-- the result of a product of two points has duplicate-free keys -/
theorem PDict.wf_ip (a b : PDict) : (Dict.keys (PDict.ip a b)).Nodup := by
  unfold PDict.ip
  have : Dict.keys ((Dict.multiply a b).map (fun kc => (EKey.ip kc.1.1 kc.1.2, kc.2)))
      = (Dict.keys (Dict.multiply a b)).map (fun k => EKey.ip k.1 k.2) := by
    simp [Dict.keys, List.map_map, Function.comp]
  rw [this]
  refine List.Nodup.map ?_ (Dict.nodup_keys_multiply a b)
  intro x y h
  cases x; cases y; simp only [EKey.ip.injEq] at h; simp [h.1, h.2]

theorem EDict.wf_neg (a : EDict) (ha : (Dict.keys a).Nodup) : (Dict.keys (EDict.neg a)).Nodup :=
  EDict.wf_smul _ a ha

namespace Pepit.StepForm

/-- **`x0 - gamma * g` denotes `x0 − γ·g`** -/
theorem den_gradStep (v : Nat → E) (x0 g : PDict) (γ : Coef) (hg : (Dict.keys g).Nodup) :
    PDict.den v (gradStep x0 γ g) = PDict.den v x0 - ((γ : ℚ) : ℝ) • PDict.den v g := by
  unfold gradStep
  rw [PDict.den_sub v x0 _ (PDict.wf_smul γ g hg), PDict.den_smul]

/-- **inexact gradient**: the recorded expression is `‖gx0 − dx0‖² − ε²` (absolute) or
`‖gx0 − dx0‖² − ε²‖gx0‖²` (relative) -/
theorem den_inexactGradient (v : Nat → E) (φ : Nat → ℝ) (gx0 dx0 : PDict) (ε : Coef) (rel : Bool)
    (hd : (Dict.keys dx0).Nodup) :
    EDict.den v φ (inexactGradient gx0 dx0 ε rel) =
      ‖PDict.den v gx0 - PDict.den v dx0‖ ^ 2 -
        ((ε : ℚ) : ℝ) ^ 2 * (if rel then ‖PDict.den v gx0‖ ^ 2 else 1) := by
  unfold inexactGradient
  cases rel with
  | true =>
    simp only [if_true]
    rw [EDict.den_sub v φ _ _ (EDict.wf_smul _ _ (PDict.wf_ip _ _)), EDict.den_smul, den_ip, den_ip,
      PDict.den_sub v gx0 dx0 hd, real_inner_self_eq_norm_sq, real_inner_self_eq_norm_sq]
    push_cast; ring
  | false =>
    simp only [Bool.false_eq_true, if_false]
    unfold EDict.subConst
    rw [EDict.den_addConst, den_ip, PDict.den_sub v gx0 dx0 hd, real_inner_self_eq_norm_sq]
    push_cast; ring

/-- **exact line search**: `⟪x − x0, gx⟫` and `⟪d, gx⟫` -/
theorem den_linesearchMain (v : Nat → E) (φ : Nat → ℝ) (x x0 gx : PDict) (h0 : (Dict.keys x0).Nodup) :
    EDict.den v φ (linesearchMain x x0 gx) = ⟪PDict.den v x - PDict.den v x0, PDict.den v gx⟫ := by
  unfold linesearchMain; rw [den_ip, PDict.den_sub v x x0 h0]

theorem den_linesearchDir (v : Nat → E) (φ : Nat → ℝ) (d gx : PDict) :
    EDict.den v φ (linesearchDir d gx) = ⟪PDict.den v d, PDict.den v gx⟫ := by
  unfold linesearchDir; rw [den_ip]

/-- **ε-subgradient**: `f0 + (⟪g0, y⟫ − fy) − ⟪g0, x0⟫` -/
theorem den_epsSubgradient (v : Nat → E) (φ : Nat → ℝ) (f0 fy : EDict) (g0 y x0 : PDict)
    (hfy : (Dict.keys fy).Nodup) :
    EDict.den v φ (epsSubgradient f0 g0 y fy x0) =
      EDict.den v φ f0 + (⟪PDict.den v g0, PDict.den v y⟫ - EDict.den v φ fy) - ⟪PDict.den v g0, PDict.den v x0⟫ := by
  unfold epsSubgradient
  rw [EDict.den_sub v φ _ _ (PDict.wf_ip _ _), EDict.den_add v φ _ _ (EDict.wf_sub _ _ (PDict.wf_ip _ _)),
    EDict.den_sub v φ _ _ hfy, den_ip, den_ip]

/-- `eps_sub = fx − fw − ⟪v, x − w⟫` -/
theorem den_epsSub (vv : Nat → E) (φ : Nat → ℝ) (fx fw : EDict) (v x w : PDict)
    (hfw : (Dict.keys fw).Nodup) (hw : (Dict.keys w).Nodup) :
    EDict.den vv φ (epsSub fx fw v x w) =
      EDict.den vv φ fx - EDict.den vv φ fw - ⟪PDict.den vv v, PDict.den vv x - PDict.den vv w⟫ := by
  unfold epsSub
  rw [EDict.den_sub vv φ _ _ (PDict.wf_ip _ _), EDict.den_sub vv φ _ _ hfw, den_ip, PDict.den_sub vv x w hw]

/-- **PD_gapI**: `‖x − x0 + γ v‖²/2 + γ·eps_sub` -/
theorem den_gapI (vv : Nat → E) (φ : Nat → ℝ) (x x0 v w : PDict) (γ : Coef) (fx fw : EDict)
    (h0 : (Dict.keys x0).Nodup) (hv : (Dict.keys v).Nodup) (hfw : (Dict.keys fw).Nodup) (hw : (Dict.keys w).Nodup)
    (hfx : (Dict.keys fx).Nodup) :
    EDict.den vv φ (gapI x x0 γ v w fx fw) =
      ‖PDict.den vv x - PDict.den vv x0 + ((γ : ℚ) : ℝ) • PDict.den vv v‖ ^ 2 / 2 +
        ((γ : ℚ) : ℝ) * (EDict.den vv φ fx - EDict.den vv φ fw - ⟪PDict.den vv v, PDict.den vv x - PDict.den vv w⟫) := by
  unfold gapI gapIe
  have hes : (Dict.keys (epsSub fx fw v x w)).Nodup := by
    unfold epsSub; exact EDict.wf_sub _ _ (EDict.wf_sub _ _ hfx)
  rw [EDict.den_add vv φ _ _ (EDict.wf_smul _ _ hes), EDict.den_smul, den_epsSub vv φ fx fw v x w hfw hw]
  unfold EDict.div
  rw [EDict.den_smul, den_ip, PDict.den_add vv _ _ (PDict.wf_smul γ v hv), PDict.den_sub vv x x0 h0, PDict.den_smul,
    real_inner_self_eq_norm_sq]
  push_cast; ring

/-- **PD_gapII**: `x = x0 − γ gx + e` and the recorded `‖e‖²/2` -/
theorem den_gapIIx (vv : Nat → E) (x0 gx e : PDict) (γ : Coef) (hg : (Dict.keys gx).Nodup) (he : (Dict.keys e).Nodup) :
    PDict.den vv (gapIIx x0 γ gx e) = PDict.den vv x0 - ((γ : ℚ) : ℝ) • PDict.den vv gx + PDict.den vv e := by
  unfold gapIIx
  rw [PDict.den_add vv _ _ he, PDict.den_sub vv x0 _ (PDict.wf_smul γ gx hg), PDict.den_smul]

theorem den_gapII (vv : Nat → E) (φ : Nat → ℝ) (e : PDict) :
    EDict.den vv φ (gapII e) = ‖PDict.den vv e‖ ^ 2 / 2 := by
  unfold gapII EDict.div
  rw [EDict.den_smul, den_ip, real_inner_self_eq_norm_sq]; push_cast; ring

/-- **PD_gapIII**: `v = (x0 − x)/γ` and the recorded `γ·eps_sub` -/
theorem den_gapIIIv (vv : Nat → E) (x0 x : PDict) (γ : Coef) (hx : (Dict.keys x).Nodup) :
    PDict.den vv (gapIIIv x0 x γ) = (1 / ((γ : ℚ) : ℝ)) • (PDict.den vv x0 - PDict.den vv x) := by
  unfold gapIIIv PDict.div
  rw [PDict.den_smul, PDict.den_sub vv x0 x hx]; push_cast; rfl

theorem den_gapIII (vv : Nat → E) (φ : Nat → ℝ) (γ : Coef) (v x w : PDict) (fx fw : EDict)
    (hfw : (Dict.keys fw).Nodup) (hw : (Dict.keys w).Nodup) :
    EDict.den vv φ (gapIII γ v x w fx fw) =
      ((γ : ℚ) : ℝ) * (EDict.den vv φ fx - EDict.den vv φ fw - ⟪PDict.den vv v, PDict.den vv x - PDict.den vv w⟫) := by
  unfold gapIII
  rw [EDict.den_smul, den_epsSub vv φ fx fw v x w hfw hw]

end Pepit.StepForm
