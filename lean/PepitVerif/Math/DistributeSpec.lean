import PepitVerif.Math.AFunSpec

/-!
# `add_point` on a composite function establishes sum consistency (property C07, core lemma)
-/

namespace Pepit

/-- witnesses for the terms: each term owns a triplet at `x`; the weighted sums of their
gradients and values are `g` and `v` under every valuation -/
def SumWitness (w : AW) (terms : List (Nat × Coef)) (x g : PDict) (v : EDict) : Prop :=
  ∃ ws : List ATriple,
    List.Forall₂ (fun (tw : Nat × Coef) (t : ATriple) => t ∈ (w.getF tw.1).pts ∧ AtPoint t x) terms ws ∧
    (∀ val, (List.zipWith (fun (tw : Nat × Coef) (t : ATriple) => ((tw.2 : ℚ) : ℝ) * gden val t.g) terms ws).sum = gden val g) ∧
    (∀ φ, (List.zipWith (fun (tw : Nat × Coef) (t : ATriple) => ((tw.2 : ℚ) : ℝ) * vden φ t.v) terms ws).sum = vden φ v)

theorem forall₂_mono {w w' : AW} (h : Extends w w') (x : PDict) (terms : List (Nat × Coef)) (ws : List ATriple)
    (hf : List.Forall₂ (fun (tw : Nat × Coef) (t : ATriple) => t ∈ (w.getF tw.1).pts ∧ AtPoint t x) terms ws) :
    List.Forall₂ (fun (tw : Nat × Coef) (t : ATriple) => t ∈ (w'.getF tw.1).pts ∧ AtPoint t x) terms ws := by
  induction hf with
  | nil => exact List.Forall₂.nil
  | cons hd _ ih => exact List.Forall₂.cons ⟨h.pts _ _ hd.1, hd.2⟩ ih

/-- **the remainder loop**: for every nonempty visit list of existing leaf functions with
nonzero weights, every well-formed world, point and running remainder `(gl, fl)`: afterwards the
world has only grown, is still well formed, and every visited term owns a triplet at `x` such
that the weighted sums of the terms' gradients and values are exactly `gl` and `fl`. -/
theorem distribute_spec (x : PDict) (hx : (Dict.keys x).Nodup) :
    ∀ (terms : List (Nat × Coef)) (w : AW) (gl : PDict) (fl : EDict),
      terms ≠ [] → (∀ tw ∈ terms, tw.1 < w.funs.length ∧ tw.2 ≠ 0) → WfW w →
      (Dict.keys gl).Nodup → (Dict.keys fl).Nodup →
      Extends w (distribute x w terms gl fl) ∧ WfW (distribute x w terms gl fl) ∧
      SumWitness (distribute x w terms gl fl) terms x gl fl := by
  intro terms
  induction terms with
  | nil => intro w gl fl h; exact absurd rfl h
  | cons hd rest ih =>
    obtain ⟨fn, wt⟩ := hd
    intro w gl fl _ hterms hw hgl hfl
    have hfn : fn < w.funs.length := (hterms (fn, wt) List.mem_cons_self).1
    have hwt : wt ≠ 0 := (hterms (fn, wt) List.mem_cons_self).2
    cases rest with
    | nil =>
      -- the last term receives the remainder divided by its weight
      simp only [distribute]
      have hgd : (Dict.keys (PDict.div gl wt)).Nodup := PDict.wf_smul _ gl hgl
      have hfd : (Dict.keys (EDict.div fl wt)).Nodup := EDict.wf_smul _ fl hfl
      refine ⟨extends_record w fn _, wfW_record w fn _ hw hx hgd hfd, ?_⟩
      refine ⟨[⟨Dict.prune x, Dict.prune (PDict.div gl wt), Dict.prune (EDict.div fl wt)⟩], ?_, ?_, ?_⟩
      · exact List.Forall₂.cons ⟨mem_record w fn ⟨x, PDict.div gl wt, EDict.div fl wt⟩ hfn, Or.inr rfl⟩ List.Forall₂.nil
      · intro val
        simp only [List.zipWith_cons_cons, List.zipWith_nil_right, List.sum_cons, List.sum_nil, add_zero]
        rw [gden_prune]; exact gden_div val gl wt hwt
      · intro φ
        simp only [List.zipWith_cons_cons, List.zipWith_nil_right, List.sum_cons, List.sum_nil, add_zero]
        rw [vden_prune]; exact vden_div φ fl wt hwt
    | cons hd2 rest2 =>
      -- this term goes through its own oracle; the remainder is updated
      simp only [distribute]
      obtain ⟨hext, hwf, hgn, hvn, t, htm, htat, htg, htv⟩ := oracleLeafA_spec w fn x hfn hw hx
      set r := oracleLeafA w fn x with hr
      have hgl' : (Dict.keys (PDict.sub gl (PDict.smul wt r.2.1))).Nodup := PDict.wf_sub _ _ hgl
      have hfl' : (Dict.keys (EDict.sub fl (EDict.smul wt r.2.2))).Nodup := EDict.wf_sub _ _ hfl
      have hterms' : ∀ tw ∈ hd2 :: rest2, tw.1 < r.1.funs.length ∧ tw.2 ≠ 0 := by
        intro tw htw
        have := hterms tw (List.mem_cons_of_mem _ htw)
        exact ⟨by rw [hext.len]; exact this.1, this.2⟩
      obtain ⟨hext2, hwf2, ws, hfa, hsg, hsv⟩ :=
        ih r.1 (PDict.sub gl (PDict.smul wt r.2.1)) (EDict.sub fl (EDict.smul wt r.2.2))
          (by simp) hterms' hwf hgl' hfl'
      refine ⟨hext.trans hext2, hwf2, t :: ws, ?_, ?_, ?_⟩
      · exact List.Forall₂.cons ⟨hext2.pts _ _ htm, htat⟩ hfa
      · intro val
        simp only [List.zipWith_cons_cons, List.sum_cons]
        rw [hsg val, gden_sub val gl _ (PDict.wf_smul wt _ hgn), gden_smul, htg val]; ring
      · intro φ
        simp only [List.zipWith_cons_cons, List.sum_cons]
        rw [hsv φ, vden_sub φ fl _ (EDict.wf_smul wt _ hvn), vden_smul, htv φ]; ring

end Pepit

#print axioms Pepit.distribute_spec
