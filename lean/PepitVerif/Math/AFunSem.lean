import PepitModel.AFun
import PepitVerif.Math.RemainderSem

/-!
# Semantics of the value-level function machine (towards property C07)
-/

namespace Pepit

/-- scalar denotations (equality under every scalar valuation is equality of the formal
linear combinations, hence of every vector interpretation) -/
noncomputable def gden (val : Nat → ℝ) (d : PDict) : ℝ := Dict.denM val d
noncomputable def vden (φ : EKey → ℝ) (d : EDict) : ℝ := Dict.denM φ d

theorem gden_prune (val : Nat → ℝ) (d : PDict) : gden val (Dict.prune d) = gden val d := Dict.denM_prune val d
theorem vden_prune (φ : EKey → ℝ) (d : EDict) : vden φ (Dict.prune d) = vden φ d := Dict.denM_prune φ d

theorem gden_sub (val : Nat → ℝ) (a b : PDict) (hb : (Dict.keys b).Nodup) :
    gden val (PDict.sub a b) = gden val a - gden val b := by
  unfold gden PDict.sub PDict.add PDict.neg PDict.smul
  rw [Dict.denM_prune, Dict.denM_merge _ _ _ (by rw [Dict.keys_scale]; exact hb), Dict.denM_scale]
  push_cast; simp [smul_eq_mul]; ring

theorem gden_smul (val : Nat → ℝ) (c : Coef) (a : PDict) : gden val (PDict.smul c a) = ((c : ℚ) : ℝ) * gden val a := by
  unfold gden PDict.smul; rw [Dict.denM_scale]; rfl

theorem gden_div (val : Nat → ℝ) (a : PDict) (c : Coef) (hc : c ≠ 0) :
    ((c : ℚ) : ℝ) * gden val (PDict.div a c) = gden val a := by
  unfold PDict.div; rw [gden_smul]
  have : ((c : ℚ) : ℝ) ≠ 0 := by exact_mod_cast hc
  push_cast; field_simp

theorem vden_sub (φ : EKey → ℝ) (a b : EDict) (hb : (Dict.keys b).Nodup) :
    vden φ (EDict.sub a b) = vden φ a - vden φ b := by
  unfold vden EDict.sub EDict.add EDict.neg EDict.smul
  rw [Dict.denM_prune, Dict.denM_merge _ _ _ (by rw [Dict.keys_scale]; exact hb), Dict.denM_scale]
  push_cast; simp [smul_eq_mul]; ring

theorem vden_smul (φ : EKey → ℝ) (c : Coef) (a : EDict) : vden φ (EDict.smul c a) = ((c : ℚ) : ℝ) * vden φ a := by
  unfold vden EDict.smul; rw [Dict.denM_scale]; rfl

theorem vden_div (φ : EKey → ℝ) (a : EDict) (c : Coef) (hc : c ≠ 0) :
    ((c : ℚ) : ℝ) * vden φ (EDict.div a c) = vden φ a := by
  unfold EDict.div; rw [vden_smul]
  have : ((c : ℚ) : ℝ) ≠ 0 := by exact_mod_cast hc
  push_cast; field_simp

/-! ## points lists only grow -/

/-- `w'` extends `w`: same number of functions, every recorded triplet is still there, flags
unchanged, decompositions unchanged up to pruning (`add_point` prunes the composite's own
decomposition in place) -/
structure Extends (w w' : AW) : Prop where
  len : w'.funs.length = w.funs.length
  pts : ∀ f t, t ∈ (w.getF f).pts → t ∈ (w'.getF f).pts
  flags : ∀ f, (w'.getF f).isLeaf = (w.getF f).isLeaf ∧ (w'.getF f).reuse = (w.getF f).reuse
            ∧ Dict.prune (w'.getF f).decomp = Dict.prune (w.getF f).decomp

theorem Extends.refl (w : AW) : Extends w w := ⟨rfl, fun _ _ h => h, fun _ => ⟨rfl, rfl, rfl⟩⟩

theorem Extends.trans {a b c : AW} (h1 : Extends a b) (h2 : Extends b c) : Extends a c :=
  ⟨h2.len.trans h1.len, fun f t h => h2.pts f t (h1.pts f t h),
   fun f => ⟨(h2.flags f).1.trans (h1.flags f).1, (h2.flags f).2.1.trans (h1.flags f).2.1,
             (h2.flags f).2.2.trans (h1.flags f).2.2⟩⟩

theorem getF_setPts (w : AW) (f g : Nat) (pts : List ATriple) :
    (w.setPts f pts).getF g =
      if g = f ∧ f < w.funs.length then { w.getF g with pts := pts } else w.getF g := by
  unfold AW.setPts AW.getF
  simp only [List.getD_eq_getElem?_getD, List.getElem?_modify]
  by_cases hgf : g = f
  · subst hgf
    by_cases hlt : g < w.funs.length
    · simp [hlt, List.getElem?_eq_getElem hlt]
    · have : w.funs[g]? = none := List.getElem?_eq_none (by omega)
      simp [hlt, this]
  · have : ¬ f = g := fun e => hgf e.symm
    simp [hgf, this]

theorem extends_record (w : AW) (f : Nat) (t : ATriple) : Extends w (w.record f t) := by
  unfold AW.record
  refine ⟨by simp [AW.setPts], ?_, ?_⟩
  · intro g t' ht'
    rw [getF_setPts]
    split
    · next h => obtain ⟨rfl, _⟩ := h; simp [ht']
    · exact ht'
  · intro g
    rw [getF_setPts]
    split <;> simp

theorem mem_record (w : AW) (f : Nat) (t : ATriple) (hf : f < w.funs.length) :
    (⟨Dict.prune t.x, Dict.prune t.g, Dict.prune t.v⟩ : ATriple) ∈ ((w.record f t).getF f).pts := by
  unfold AW.record
  rw [getF_setPts]
  simp [hf]

end Pepit
