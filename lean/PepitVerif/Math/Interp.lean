import PepitModel
import Mathlib.Analysis.InnerProductSpace.Basic
import Mathlib.Tactic.Ring
import Mathlib.Tactic.Linarith
import Mathlib.Tactic.Module

/-!
# Semantics of dictionaries, points and expressions

`Dict.denM val d = Σ (c : ℝ) • val k` in any real module; points denote vectors of a real
inner-product space, expressions denote reals.
-/

open RealInnerProductSpace

namespace Dict
variable {κ : Type} [DecidableEq κ] {M : Type*} [AddCommGroup M] [Module ℝ M]

/-- denotation of a dictionary under a valuation of its keys -/
def denM (val : κ → M) (d : Dict κ) : M := (d.map (fun kc => ((kc.2 : ℚ) : ℝ) • val kc.1)).sum

omit [DecidableEq κ] in
@[simp] theorem denM_nil (val : κ → M) : denM val ([] : Dict κ) = 0 := rfl
omit [DecidableEq κ] in
@[simp] theorem denM_cons (val : κ → M) (k : κ) (c : Coef) (t : Dict κ) :
    denM val ((k, c) :: t) = ((c : ℚ) : ℝ) • val k + denM val t := by simp [denM]
omit [DecidableEq κ] in
theorem denM_append (val : κ → M) (a b : Dict κ) : denM val (a ++ b) = denM val a + denM val b := by
  simp [denM]

theorem contains_iff_mem_keys (d : Dict κ) (k : κ) : d.contains k = true ↔ k ∈ keys d := by
  induction d with
  | nil => simp [contains, get?, keys]
  | cons h t ih =>
    obtain ⟨k', c'⟩ := h
    simp only [contains, get?, keys, List.map_cons, List.mem_cons] at ih ⊢
    by_cases hk : k = k'
    · subst hk; simp [List.lookup]
    · have : (k == k') = false := by simpa using hk
      simp [List.lookup, this, hk, ih]

theorem denM_addAt (val : κ → M) (d : Dict κ) (k : κ) (c : Coef) (h : k ∈ keys d) :
    denM val (addAt d k c) = denM val d + ((c : ℚ) : ℝ) • val k := by
  induction d with
  | nil => simp [keys] at h
  | cons hd t ih =>
    obtain ⟨k', c'⟩ := hd
    simp only [addAt]
    by_cases heq : k' = k
    · subst heq; simp only [if_true, denM_cons]; push_cast; module
    · have hk : k ∈ keys t := by
        simp only [keys, List.map_cons, List.mem_cons] at h
        rcases h with h | h
        · exact absurd h.symm heq
        · exact h
      simp only [heq, if_false, denM_cons, ih hk]; module

theorem keys_addAt (d : Dict κ) (k : κ) (c : Coef) : keys (addAt d k c) = keys d := by
  induction d with
  | nil => rfl
  | cons hd t ih =>
    obtain ⟨k', c'⟩ := hd
    simp only [addAt]
    by_cases heq : k' = k
    · simp [heq, keys]
    · simp only [heq, if_false, keys, List.map_cons] at ih ⊢; rw [ih]

theorem denM_set_of_not_mem (val : κ → M) (d : Dict κ) (k : κ) (c : Coef) (h : k ∉ keys d) :
    denM val (set d k c) = denM val d + ((c : ℚ) : ℝ) • val k := by
  induction d with
  | nil => simp [set]
  | cons hd t ih =>
    obtain ⟨k', c'⟩ := hd
    simp only [keys, List.map_cons, List.mem_cons, not_or] at h
    have hne : ¬ k' = k := fun e => h.1 e.symm
    simp only [set, hne, if_false, denM_cons]
    rw [ih h.2]; module

theorem keys_set_of_not_mem (d : Dict κ) (k : κ) (c : Coef) (h : k ∉ keys d) :
    keys (set d k c) = keys d ++ [k] := by
  induction d with
  | nil => simp [set, keys]
  | cons hd t ih =>
    obtain ⟨k', c'⟩ := hd
    simp only [keys, List.map_cons, List.mem_cons, not_or] at h
    have hne : ¬ k' = k := fun e => h.1 e.symm
    simp only [set, hne, if_false, keys, List.map_cons, List.cons_append] at ih ⊢
    rw [ih h.2]

/-- "update or insert" on the accumulator itself is unconditionally additive
(`multiply_dicts`, `Expression.__add__` with a constant). -/
theorem denM_upsert (val : κ → M) (m : Dict κ) (k : κ) (c : Coef) :
    denM val (if m.contains k then addAt m k c else set m k c) = denM val m + ((c : ℚ) : ℝ) • val k := by
  by_cases hc : m.contains k = true
  · rw [if_pos hc]; exact denM_addAt val m k c ((contains_iff_mem_keys m k).mp hc)
  · rw [if_neg hc]
    exact denM_set_of_not_mem val m k c (fun h => hc ((contains_iff_mem_keys m k).mpr h))

theorem denM_merge_aux (val : κ → M) (d1 : Dict κ) :
    ∀ (d2 m : Dict κ) (done : List κ),
      (∀ k, k ∈ keys m ↔ (k ∈ keys d1 ∨ k ∈ done)) → (∀ k ∈ done, k ∉ keys d2) → (keys d2).Nodup →
      denM val (d2.foldl (fun m kc => if d1.contains kc.1 then addAt m kc.1 kc.2 else set m kc.1 kc.2) m)
        = denM val m + denM val d2 := by
  intro d2
  induction d2 with
  | nil => intro m done _ _ _; simp
  | cons hd t ih =>
    obtain ⟨k, c⟩ := hd
    intro m done hm hdone hnd
    simp only [keys, List.map_cons, List.nodup_cons] at hnd
    simp only [List.foldl_cons, denM_cons]
    by_cases hc : d1.contains k = true
    · have hk1 : k ∈ keys d1 := (contains_iff_mem_keys d1 k).mp hc
      have hkm : k ∈ keys m := (hm k).mpr (Or.inl hk1)
      rw [if_pos hc, ih (addAt m k c) done]
      · rw [denM_addAt val m k c hkm]; module
      · intro k'; rw [keys_addAt]; exact hm k'
      · intro k' hk'; have := hdone k' hk'
        simp only [keys, List.map_cons, List.mem_cons, not_or] at this; exact this.2
      · exact hnd.2
    · have hk1 : k ∉ keys d1 := fun h => hc ((contains_iff_mem_keys d1 k).mpr h)
      have hkdone : k ∉ done := by
        intro h; have := hdone k h; simp [keys] at this
      have hkm : k ∉ keys m := by
        intro h; rcases (hm k).mp h with h | h
        · exact hk1 h
        · exact hkdone h
      rw [if_neg hc, ih (set m k c) (done ++ [k])]
      · rw [denM_set_of_not_mem val m k c hkm]; module
      · intro k'; rw [keys_set_of_not_mem m k c hkm]
        simp only [List.mem_append, List.mem_singleton]
        rw [hm k']; tauto
      · intro k' hk'
        simp only [List.mem_append, List.mem_singleton] at hk'
        rcases hk' with hk' | hk'
        · have := hdone k' hk'
          simp only [keys, List.map_cons, List.mem_cons, not_or] at this; exact this.2
        · subst hk'; exact hnd.1
      · exact hnd.2

/-- `merge_dict` is additive on denotations when `dict2` has no repeated key. -/
theorem denM_merge (val : κ → M) (d1 d2 : Dict κ) (h2 : (keys d2).Nodup) :
    denM val (merge d1 d2) = denM val d1 + denM val d2 := by
  unfold merge
  exact denM_merge_aux val d1 d2 d1 [] (by simp) (by simp) h2

omit [DecidableEq κ] in
theorem denM_prune (val : κ → M) (d : Dict κ) : denM val (prune d) = denM val d := by
  induction d with
  | nil => rfl
  | cons h t ih =>
    obtain ⟨k, c⟩ := h
    by_cases hc : c = 0
    · subst hc; simp [prune] at ih ⊢; exact ih
    · simp [prune, hc] at ih ⊢; rw [ih]

omit [DecidableEq κ] in
theorem denM_scale (val : κ → M) (d : Dict κ) (c : Coef) :
    denM val (scale d c) = ((c : ℚ) : ℝ) • denM val d := by
  induction d with
  | nil => simp [scale]
  | cons h t ih =>
    obtain ⟨k, c'⟩ := h
    simp only [scale, List.map_cons, denM_cons] at ih ⊢
    rw [ih]; push_cast; module

omit [DecidableEq κ] in
theorem keys_scale (d : Dict κ) (c : Coef) : keys (scale d c) = keys d := by
  simp [keys, scale, List.map_map, Function.comp_def]

end Dict
