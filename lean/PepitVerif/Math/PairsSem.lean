import PepitModel.Pairs
import Mathlib.Data.List.Basic
import Mathlib.Data.List.Nodup
import Mathlib.Data.List.Perm.Basic
import Mathlib.Tactic.Ring
import Mathlib.Tactic.Linarith

/-!
# Completeness of the pair enumeration (property C04, list-combinatorics part)
-/

theorem mem_pairIdx (n1 n2 : Nat) (symmetry : Bool) (i j : Nat) :
    (i, j) ∈ pairIdx n1 n2 symmetry ↔ i < n1 ∧ j < n2 ∧ pairSkipped symmetry i j = false := by
  unfold pairIdx
  simp only [List.mem_flatMap, List.mem_range, List.mem_filterMap]
  constructor
  · rintro ⟨i', hi', j', hj', h⟩
    by_cases hs : pairSkipped symmetry i' j' = true
    · simp [hs] at h
    · simp only [hs, Bool.false_eq_true, if_false, Option.some.injEq, Prod.mk.injEq] at h
      obtain ⟨rfl, rfl⟩ := h
      exact ⟨hi', hj', by simpa using hs⟩
  · rintro ⟨hi, hj, hs⟩
    exact ⟨i, hi, j, hj, by simp [hs]⟩

/-- same list, no symmetry: exactly all ordered pairs of distinct indices — no pair skipped,
none added, for every length -/
theorem pairIdx_same_complete (n i j : Nat) :
    (i, j) ∈ pairIdx n n false ↔ i < n ∧ j < n ∧ i ≠ j := by
  rw [mem_pairIdx]; simp [pairSkipped]

/-- same list, symmetric condition: exactly the pairs `i < j` -/
theorem pairIdx_same_symmetric (n i j : Nat) :
    (i, j) ∈ pairIdx n n true ↔ i < j ∧ j < n := by
  rw [mem_pairIdx]
  simp only [pairSkipped, Bool.and_true, Bool.or_eq_false_iff, beq_eq_false_iff_ne, ne_eq,
    decide_eq_false_iff_not, not_lt]
  omega

/-- with a symmetric condition every unordered pair of distinct indices is covered once -/
theorem pairIdx_symmetric_covers (n i j : Nat) (hi : i < n) (hj : j < n) (hne : i ≠ j) :
    ((i, j) ∈ pairIdx n n true ∧ (j, i) ∉ pairIdx n n true) ∨
    ((j, i) ∈ pairIdx n n true ∧ (i, j) ∉ pairIdx n n true) := by
  simp only [pairIdx_same_symmetric]
  omega

theorem nodup_pairIdx (n1 n2 : Nat) (symmetry : Bool) : (pairIdx n1 n2 symmetry).Nodup := by
  unfold pairIdx
  rw [List.nodup_flatMap]
  constructor
  · intro i _
    apply List.Nodup.filterMap _ List.nodup_range
    intro a a' b hb hb'
    by_cases h1 : pairSkipped symmetry i a = true <;> by_cases h2 : pairSkipped symmetry i a' = true <;>
      simp_all
    have := hb.trans hb'.symm
    simp only [Prod.mk.injEq, true_and] at this
    exact this
  · apply List.Nodup.pairwise_of_forall_ne List.nodup_range
    intro a _ b _ hab
    simp only [Function.onFun, List.disjoint_left, List.mem_filterMap, List.mem_range]
    rintro ⟨x, y⟩ ⟨j, _, h1⟩ ⟨j', _, h2⟩
    by_cases s1 : pairSkipped symmetry a j = true
    · simp [s1] at h1
    · by_cases s2 : pairSkipped symmetry b j' = true
      · simp [s2] at h2
      · simp [s1, s2] at h1 h2
        exact hab (h1.1.trans h2.1.symm)

/-! ## two different lists (stationary samples × all samples), identity-based skip

Before the `fix:` commit the skip was index-based (`i == j` across two different lists) and the
completeness statement below was false (stationary point declared after another sample); the
refutation used to live here as `two_lists_full_fails`. -/

theorem mem_zipIdx_iff {α : Type} (l : List α) (a : α) (i : Nat) :
    (a, i) ∈ l.zipIdx ↔ l[i]? = some a := by
  rw [List.mem_zipIdx_iff_getElem?]

/-- **completeness for two lists**: without the symmetry halving, a condition is instantiated on
exactly the ordered pairs (sample of list 1, sample of list 2) that are not the same sample -/
theorem mem_pairsTwo {α : Type} [DecidableEq α] (l1 l2 : List α) (a b : α) :
    (a, b) ∈ pairsTwo l1 l2 false ↔ a ∈ l1 ∧ b ∈ l2 ∧ a ≠ b := by
  unfold pairsTwo skipTwo
  simp only [List.mem_flatMap, List.mem_filterMap, Bool.and_false, Bool.or_false, decide_eq_true_eq]
  constructor
  · rintro ⟨⟨a', i⟩, hai, ⟨b', j⟩, hbj, h⟩
    by_cases hab : a' = b'
    · simp [hab] at h
    · simp only [hab, if_false, Option.some.injEq, Prod.mk.injEq] at h
      obtain ⟨rfl, rfl⟩ := h
      rw [mem_zipIdx_iff] at hai hbj
      exact ⟨List.mem_of_getElem? hai, List.mem_of_getElem? hbj, hab⟩
  · rintro ⟨ha, hb, hne⟩
    obtain ⟨i, hi, rfl⟩ := List.getElem_of_mem ha
    obtain ⟨j, hj, rfl⟩ := List.getElem_of_mem hb
    refine ⟨(l1[i], i), (mem_zipIdx_iff _ _ _).mpr (List.getElem?_eq_getElem hi), (l2[j], j),
      (mem_zipIdx_iff _ _ _).mpr (List.getElem?_eq_getElem hj), ?_⟩
    simp [hne]

/-- the order in which the samples of either list were recorded does not change the set of
instantiated pairs -/
theorem pairsTwo_perm_invariant {α : Type} [DecidableEq α] (l1 l1' l2 l2' : List α)
    (h1 : l1.Perm l1') (h2 : l2.Perm l2') (a b : α) :
    (a, b) ∈ pairsTwo l1 l2 false ↔ (a, b) ∈ pairsTwo l1' l2' false := by
  rw [mem_pairsTwo, mem_pairsTwo, h1.mem_iff, h2.mem_iff]

/-- the stationary point declared *after* another sample (the input on which the index-based
skip dropped the genuine pair): both orders instantiate the pair `(x*, x₀)` and never `(x*, x*)` -/
example : pairsTwo [1] [0, 1] false = [(1, 0)] ∧ pairsTwo [0] [0, 1] false = [(0, 1)] := by decide

/-! ## independence of the declaration order (same list) -/

theorem mem_pairsOf {α : Type} (l : List α) (hnd : l.Nodup) (a b : α) :
    (a, b) ∈ pairsOf l false ↔ a ∈ l ∧ b ∈ l ∧ a ≠ b := by
  unfold pairsOf
  simp only [List.mem_filterMap]
  constructor
  · rintro ⟨⟨i, j⟩, hij, h⟩
    rw [pairIdx_same_complete] at hij
    obtain ⟨hi, hj, hne⟩ := hij
    simp only [List.getElem?_eq_getElem hi, List.getElem?_eq_getElem hj, Option.some.injEq,
      Prod.mk.injEq] at h
    obtain ⟨rfl, rfl⟩ := h
    refine ⟨List.getElem_mem _, List.getElem_mem _, ?_⟩
    intro e
    exact hne ((List.Nodup.getElem_inj_iff hnd).mp e)
  · rintro ⟨ha, hb, hne⟩
    obtain ⟨i, hi, rfl⟩ := List.getElem_of_mem ha
    obtain ⟨j, hj, rfl⟩ := List.getElem_of_mem hb
    refine ⟨(i, j), (pairIdx_same_complete _ _ _).mpr ⟨hi, hj, fun e => hne (by subst e; rfl)⟩, ?_⟩
    simp [List.getElem?_eq_getElem hi, List.getElem?_eq_getElem hj]

/-- recording the same samples in another order instantiates the condition on the same set of
ordered pairs -/
theorem pairsOf_perm_invariant {α : Type} (l l' : List α) (hnd : l.Nodup) (hp : l.Perm l')
    (a b : α) : (a, b) ∈ pairsOf l false ↔ (a, b) ∈ pairsOf l' false := by
  rw [mem_pairsOf l hnd, mem_pairsOf l' (hp.nodup_iff.mp hnd), hp.mem_iff, hp.mem_iff]

#print axioms pairsOf_perm_invariant
#print axioms mem_pairsTwo
#print axioms nodup_pairIdx
