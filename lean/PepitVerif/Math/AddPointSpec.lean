import PepitVerif.Math.DistributeSpec
import Mathlib.Data.List.Perm.Basic
import Mathlib.Algebra.BigOperators.Group.List.Lemmas

/-!
# `add_point` on a composite: the new triplet is the weighted sum of its terms' triplets
-/

namespace Pepit

/-- function form of the witness: one triplet per term, chosen by function index -/
def SumWitnessF (w : AW) (D : List (Nat × Coef)) (x g : PDict) (v : EDict) : Prop :=
  ∃ pick : Nat → ATriple,
    (∀ tw ∈ D, pick tw.1 ∈ (w.getF tw.1).pts ∧ AtPoint (pick tw.1) x) ∧
    (∀ val, (D.map (fun tw => ((tw.2 : ℚ) : ℝ) * gden val (pick tw.1).g)).sum = gden val g) ∧
    (∀ φ, (D.map (fun tw => ((tw.2 : ℚ) : ℝ) * vden φ (pick tw.1).v)).sum = vden φ v)

/-- the witness does not depend on the order in which the terms are listed -/
theorem sumWitnessF_perm {w : AW} {D D' : List (Nat × Coef)} {x g : PDict} {v : EDict}
    (hp : D.Perm D') (h : SumWitnessF w D x g v) : SumWitnessF w D' x g v := by
  obtain ⟨pick, hm, hg, hv⟩ := h
  refine ⟨pick, fun tw htw => hm tw (hp.mem_iff.mpr htw), ?_, ?_⟩
  · intro val; rw [← hg val]; exact ((hp.map _).sum_eq).symm
  · intro φ; rw [← hv φ]; exact ((hp.map _).sum_eq).symm

theorem sumWitnessF_mono {w w' : AW} (h : Extends w w') {D : List (Nat × Coef)} {x g : PDict} {v : EDict}
    (hw : SumWitnessF w D x g v) : SumWitnessF w' D x g v := by
  obtain ⟨pick, hm, hg, hv⟩ := hw
  exact ⟨pick, fun tw htw => ⟨h.pts _ _ (hm tw htw).1, (hm tw htw).2⟩, hg, hv⟩

/-- list form ⇒ function form, when no function occurs twice among the terms -/
theorem sumWitnessF_of_list {w : AW} {x g : PDict} {v : EDict} :
    ∀ (terms : List (Nat × Coef)), (terms.map (·.1)).Nodup → SumWitness w terms x g v →
      SumWitnessF w terms x g v := by
  intro terms hnd ⟨ws, hfa, hg, hv⟩
  -- build `pick` along the paired lists, with the partial sums as part of the statement
  suffices H : ∀ (terms : List (Nat × Coef)) (ws : List ATriple), (terms.map (·.1)).Nodup →
      List.Forall₂ (fun (tw : Nat × Coef) (t : ATriple) => t ∈ (w.getF tw.1).pts ∧ AtPoint t x) terms ws →
      ∃ pick : Nat → ATriple,
        (∀ tw ∈ terms, pick tw.1 ∈ (w.getF tw.1).pts ∧ AtPoint (pick tw.1) x) ∧
        (∀ val, (terms.map (fun tw => ((tw.2 : ℚ) : ℝ) * gden val (pick tw.1).g)).sum
          = (List.zipWith (fun (tw : Nat × Coef) (t : ATriple) => ((tw.2 : ℚ) : ℝ) * gden val t.g) terms ws).sum) ∧
        (∀ φ, (terms.map (fun tw => ((tw.2 : ℚ) : ℝ) * vden φ (pick tw.1).v)).sum
          = (List.zipWith (fun (tw : Nat × Coef) (t : ATriple) => ((tw.2 : ℚ) : ℝ) * vden φ t.v) terms ws).sum) by
    obtain ⟨pick, hm, hg', hv'⟩ := H terms ws hnd hfa
    exact ⟨pick, hm, fun val => (hg' val).trans (hg val), fun φ => (hv' φ).trans (hv φ)⟩
  intro terms ws hnd hfa
  induction hfa with
  | nil => exact ⟨fun _ => ⟨[], [], []⟩, by simp, by simp, by simp⟩
  | @cons tw t terms' ws' hd _ ih =>
    simp only [List.map_cons, List.nodup_cons] at hnd
    obtain ⟨pick, hm, hg', hv'⟩ := ih hnd.2
    have hne : ∀ tw' ∈ terms', tw'.1 ≠ tw.1 := by
      intro tw' h' e
      exact hnd.1 (by rw [← e]; exact List.mem_map_of_mem h')
    refine ⟨fun k => if k = tw.1 then t else pick k, ?_, ?_, ?_⟩
    · intro tw' htw'
      simp only [List.mem_cons] at htw'
      rcases htw' with rfl | h'
      · simp [hd.1, hd.2]
      · simp only [hne tw' h', if_false]; exact hm tw' h'
    · intro val
      simp only [List.map_cons, List.sum_cons, List.zipWith_cons_cons, if_true]
      rw [← hg' val]
      congr 1
      apply congrArg
      apply List.map_congr_left
      intro tw' h'
      simp [hne tw' h']
    · intro φ
      simp only [List.map_cons, List.sum_cons, List.zipWith_cons_cons, if_true]
      rw [← hv' φ]
      congr 1
      apply congrArg
      apply List.map_congr_left
      intro tw' h'
      simp [hne tw' h']

/-! ## the need classification is a partition of the decomposition -/

theorem classify_perm_aux (w : AW) (x : PDict) :
    ∀ (d : Dict Nat) (a0 a1 a2 : List (Nat × Coef)),
      ((d.foldl (classifyStep w x) (a0, a1, a2)).1 ++
        ((d.foldl (classifyStep w x) (a0, a1, a2)).2.1 ++ (d.foldl (classifyStep w x) (a0, a1, a2)).2.2)).Perm
        (a0 ++ (a1 ++ a2) ++ d) := by
  intro d
  induction d with
  | nil => intro a0 a1 a2; simp
  | cons tw rest ih =>
    intro a0 a1 a2
    simp only [List.foldl_cons]
    have hstep : classifyStep w x (a0, a1, a2) tw = (a0 ++ [tw], a1, a2) ∨
        classifyStep w x (a0, a1, a2) tw = (a0, a1 ++ [tw], a2) ∨
        classifyStep w x (a0, a1, a2) tw = (a0, a1, a2 ++ [tw]) := by
      unfold classifyStep
      simp only
      cases hl : lookupTriple (w.getF tw.1).pts x with
      | some t => by_cases hr : (w.getF tw.1).reuse = true <;> simp [hr]
      | none => simp
    rcases hstep with h | h | h
    · rw [h]
      refine (ih (a0 ++ [tw]) a1 a2).trans ?_
      simp only [List.append_assoc, List.singleton_append]
      apply List.Perm.append_left
      have : (tw :: (a1 ++ (a2 ++ rest))).Perm (a1 ++ (a2 ++ tw :: rest)) := by
        rw [← List.append_assoc, ← List.append_assoc]
        exact List.perm_middle.symm
      simpa [List.append_assoc] using this
    · rw [h]
      refine (ih a0 (a1 ++ [tw]) a2).trans ?_
      simp only [List.append_assoc, List.singleton_append]
      apply List.Perm.append_left
      apply List.Perm.append_left
      exact List.perm_middle.symm
    · rw [h]
      refine (ih a0 a1 (a2 ++ [tw])).trans ?_
      simp only [List.append_assoc, List.singleton_append]
      exact List.Perm.refl _

/-- the visit list `need_nothing ++ need_gradient_only ++ need_both` is a permutation of the
decomposition -/
theorem classify_perm (w : AW) (d : Dict Nat) (x : PDict) :
    ((classify w d x).1 ++ ((classify w d x).2.1 ++ (classify w d x).2.2)).Perm d := by
  have := classify_perm_aux w x d [] [] []
  simpa [classify] using this

end Pepit

#print axioms Pepit.sumWitnessF_of_list
#print axioms Pepit.classify_perm

namespace Pepit

theorem prune_prune {κ : Type} (d : Dict κ) : Dict.prune (Dict.prune d) = Dict.prune d := by
  unfold Dict.prune; rw [List.filter_filter]; simp

theorem getF_setDecomp (w : AW) (f g : Nat) (d : Dict Nat) :
    (w.setDecomp f d).getF g =
      if g = f ∧ f < w.funs.length then { w.getF g with decomp := d } else w.getF g := by
  unfold AW.setDecomp AW.getF
  simp only [List.getD_eq_getElem?_getD, List.getElem?_modify]
  by_cases hgf : g = f
  · subst hgf
    by_cases hlt : g < w.funs.length
    · simp [hlt, List.getElem?_eq_getElem hlt]
    · have : w.funs[g]? = none := List.getElem?_eq_none (by omega)
      simp [hlt, this]
  · have : ¬ f = g := fun e => hgf e.symm
    simp [hgf, this]

theorem extends_setDecomp_prune (w : AW) (f : Nat) :
    Extends w (w.setDecomp f (Dict.prune (w.getF f).decomp)) := by
  refine ⟨by simp [AW.setDecomp], ?_, ?_⟩
  · intro g t ht
    rw [getF_setDecomp]; split <;> simpa using ht
  · intro g
    rw [getF_setDecomp]
    split
    · next h => obtain ⟨rfl, _⟩ := h; exact ⟨rfl, rfl, prune_prune _⟩
    · exact ⟨rfl, rfl, rfl⟩

theorem wfW_setDecomp (w : AW) (f : Nat) (d : Dict Nat) (hw : WfW w) : WfW (w.setDecomp f d) := by
  intro g t ht
  rw [getF_setDecomp] at ht
  split at ht
  · exact hw g t (by simpa using ht)
  · exact hw g t ht

/-- the world just before the remainder loop of `add_point`: triplet recorded, own decomposition
pruned -/
def preLoop (w : AW) (f : Nat) (t : ATriple) : AW :=
  (w.record f t).setDecomp f (Dict.prune ((w.record f t).getF f).decomp)

/-- does some term still need a gradient or a value at the point? -/
def someTermNeeds (w : AW) (f : Nat) (t : ATriple) : Bool :=
  let w2 := preLoop w f t
  let c := classify w2 (Dict.prune ((w.record f t).getF f).decomp) (Dict.prune t.x)
  !(c.2.1 ++ c.2.2).isEmpty

theorem addPointA_unfold (w : AW) (f : Nat) (t : ATriple) (hcomp : ((w.record f t).getF f).isLeaf = false) :
    addPointA w f t =
      if someTermNeeds w f t then
        distribute (Dict.prune t.x) (preLoop w f t)
          ((classify (preLoop w f t) (Dict.prune ((w.record f t).getF f).decomp) (Dict.prune t.x)).1 ++
            ((classify (preLoop w f t) (Dict.prune ((w.record f t).getF f).decomp) (Dict.prune t.x)).2.1 ++
             (classify (preLoop w f t) (Dict.prune ((w.record f t).getF f).decomp) (Dict.prune t.x)).2.2))
          (Dict.prune t.g) (Dict.prune t.v)
      else preLoop w f t := by
  unfold addPointA someTermNeeds preLoop
  simp only [hcomp, Bool.false_eq_true, if_false]
  by_cases h : ((classify ((w.record f t).setDecomp f (Dict.prune ((w.record f t).getF f).decomp))
      (Dict.prune ((w.record f t).getF f).decomp) (Dict.prune t.x)).2.1 ++
      (classify ((w.record f t).setDecomp f (Dict.prune ((w.record f t).getF f).decomp))
      (Dict.prune ((w.record f t).getF f).decomp) (Dict.prune t.x)).2.2).isEmpty = true
  · simp [h]
  · simp [h]

/-- **`add_point` on a composite function**: the world only grows and stays well formed; and
whenever some term still needs something, every term of the (pruned) decomposition owns a
triplet at the point such that the weighted sums of the terms' gradients and values are exactly
the gradient and value of the triplet being added. -/
theorem addPointA_composite_spec (w : AW) (f : Nat) (t : ATriple) (hw : WfW w)
    (hx : (Dict.keys t.x).Nodup) (hg : (Dict.keys t.g).Nodup) (hv : (Dict.keys t.v).Nodup)
    (hcomp : (w.getF f).isLeaf = false)
    (hterms : ∀ tw ∈ Dict.prune (w.getF f).decomp, tw.1 < w.funs.length)
    (hnd : ((Dict.prune (w.getF f).decomp).map (·.1)).Nodup) :
    Extends w (addPointA w f t) ∧ WfW (addPointA w f t) ∧
    (someTermNeeds w f t = true →
      SumWitnessF (addPointA w f t) (Dict.prune (w.getF f).decomp)
        (Dict.prune t.x) (Dict.prune t.g) (Dict.prune t.v)) := by
  have he1 : Extends w (w.record f t) := extends_record w f t
  have hwf1 : WfW (w.record f t) := wfW_record w f t hw hx hg hv
  have hleaf1 : ((w.record f t).getF f).isLeaf = false := by rw [(he1.flags f).1]; exact hcomp
  have hdec1 : ((w.record f t).getF f).decomp = (w.getF f).decomp := by
    simp only [AW.record]; rw [getF_setPts]; split <;> rfl
  have he2 : Extends (w.record f t) (preLoop w f t) := extends_setDecomp_prune _ f
  have hwf2 : WfW (preLoop w f t) := wfW_setDecomp _ f _ hwf1
  have hlen2 : (preLoop w f t).funs.length = w.funs.length := he2.len.trans he1.len
  have hxp : (Dict.keys (Dict.prune t.x)).Nodup := Dict.nodup_keys_prune _ hx
  have hgp : (Dict.keys (Dict.prune t.g)).Nodup := Dict.nodup_keys_prune _ hg
  have hvp : (Dict.keys (Dict.prune t.v)).Nodup := Dict.nodup_keys_prune _ hv
  rw [addPointA_unfold w f t hleaf1]
  by_cases hneed : someTermNeeds w f t = true
  · rw [if_pos hneed]
    rw [hdec1]
    have hperm := classify_perm (preLoop w f t) (Dict.prune (w.getF f).decomp) (Dict.prune t.x)
    set c := classify (preLoop w f t) (Dict.prune (w.getF f).decomp) (Dict.prune t.x) with hc
    have hne : c.1 ++ (c.2.1 ++ c.2.2) ≠ [] := by
      intro h
      have h2 : c.2.1 ++ c.2.2 = [] := (List.append_eq_nil_iff.mp h).2
      have : someTermNeeds w f t = false := by
        unfold someTermNeeds; simp only [hdec1, ← hc, h2]; rfl
      rw [this] at hneed; exact Bool.false_ne_true hneed
    have hterms' : ∀ tw ∈ c.1 ++ (c.2.1 ++ c.2.2), tw.1 < (preLoop w f t).funs.length ∧ tw.2 ≠ 0 := by
      intro tw htw
      have hmem : tw ∈ Dict.prune (w.getF f).decomp := hperm.mem_iff.mp htw
      exact ⟨by rw [hlen2]; exact hterms tw hmem, Dict.prune_no_zero _ tw hmem⟩
    obtain ⟨he3, hwf3, hsw⟩ := distribute_spec (Dict.prune t.x) hxp _ (preLoop w f t) (Dict.prune t.g)
      (Dict.prune t.v) hne hterms' hwf2 hgp hvp
    refine ⟨(he1.trans he2).trans he3, hwf3, fun _ => ?_⟩
    have hndv : ((c.1 ++ (c.2.1 ++ c.2.2)).map (·.1)).Nodup := (hperm.map _).nodup_iff.mpr hnd
    exact sumWitnessF_perm hperm (sumWitnessF_of_list _ hndv hsw)
  · rw [if_neg hneed]
    exact ⟨he1.trans he2, hwf2, fun h => absurd h hneed⟩

end Pepit

#print axioms Pepit.addPointA_composite_spec
