import PepitVerif.Props.C03
import Mathlib.Analysis.InnerProductSpace.Adjoint

/-!
# Property C03, matrix-inequality classes and the remaining function classes
-/

open RealInnerProductSpace Finset

variable {E : Type*} [NormedAddCommGroup E] [InnerProductSpace ℝ E]

/-- `Σᵢ Σⱼ cᵢ cⱼ ⟪aᵢ, bⱼ⟫ = ⟪Σ cᵢ aᵢ, Σ cⱼ bⱼ⟫` -/
theorem quadform_inner {n : Nat} (c : Fin n → ℝ) (a b : Fin n → E) :
    ∑ i, ∑ j, c i * c j * ⟪a i, b j⟫ = ⟪∑ i, c i • a i, ∑ j, c j • b j⟫ := by
  rw [sum_inner]
  apply Finset.sum_congr rfl; intro i _
  rw [inner_sum]
  apply Finset.sum_congr rfl; intro j _
  rw [real_inner_smul_left, real_inner_smul_right]; ring

section linear
variable {n : Nat} (x : Fin n → E) (c : Fin n → ℝ) (fi fj : ℝ)

/-- **LinearOperator**, first LMI (`L² XᵀX − YᵀY ⪰ 0`): for any number of samples of a linear map
with `‖M z‖ ≤ L‖z‖`, the generated matrix is symmetric and its quadratic form is nonnegative. -/
theorem LinearOperator.sound_lmi0 (L : ℚ) (M : E →ₗ[ℝ] E) (hM : ∀ z, ‖M z‖ ≤ (L : ℝ) * ‖z‖) (hL : 0 ≤ L) :
    0 ≤ ∑ i, ∑ j, c i * c j *
        QForm.den (sv (x i) (M (x i)) (x j) (M (x j))) (fvOf fi fj) (Gen.LinearOperator.lmi0_entry L) := by
  simp only [den_LinearOperator_lmi0_entry, Canon.normLmi, sv, mul_sub, Finset.sum_sub_distrib]
  have h1 : ∑ i, ∑ j, c i * c j * ((L : ℝ) ^ 2 * ⟪x i, x j⟫) = (L : ℝ) ^ 2 * ‖∑ i, c i • x i‖ ^ 2 := by
    rw [← real_inner_self_eq_norm_sq, ← quadform_inner c x x, Finset.mul_sum]
    apply Finset.sum_congr rfl; intro i _; rw [Finset.mul_sum]
    apply Finset.sum_congr rfl; intro j _; ring
  have h2 : ∑ i, ∑ j, c i * c j * ⟪M (x i), M (x j)⟫ = ‖M (∑ i, c i • x i)‖ ^ 2 := by
    rw [← real_inner_self_eq_norm_sq, map_sum]
    simp only [map_smul]
    exact quadform_inner c (fun i => M (x i)) (fun i => M (x i))
  rw [h1, h2]
  have hz := hM (∑ i, c i • x i)
  have h0 : 0 ≤ ‖M (∑ i, c i • x i)‖ := norm_nonneg _
  have h3 : 0 ≤ ‖∑ i, c i • x i‖ := norm_nonneg _
  have hL' : (0 : ℝ) ≤ (L : ℝ) := by exact_mod_cast hL
  nlinarith [mul_nonneg hL' h3]

/-- the adjoint of an operator with `‖M z‖ ≤ L‖z‖` satisfies the same bound -/
theorem LinearOperator.adjoint_bound (L : ℝ) (hL : 0 ≤ L) (M Mt : E →ₗ[ℝ] E) (hM : ∀ z, ‖M z‖ ≤ L * ‖z‖)
    (hadj : ∀ a b, ⟪M a, b⟫ = ⟪a, Mt b⟫) (y : E) : ‖Mt y‖ ≤ L * ‖y‖ := by
  by_cases h0 : ‖Mt y‖ = 0
  · rw [h0]; exact mul_nonneg hL (norm_nonneg _)
  · have hpos : 0 < ‖Mt y‖ := lt_of_le_of_ne (norm_nonneg _) (Ne.symm h0)
    have h1 : ‖Mt y‖ ^ 2 = ⟪M (Mt y), y⟫ := by rw [hadj, real_inner_self_eq_norm_sq]
    have h2 : ⟪M (Mt y), y⟫ ≤ ‖M (Mt y)‖ * ‖y‖ := real_inner_le_norm _ _
    have h3 := hM (Mt y)
    have h4 : ‖Mt y‖ ^ 2 ≤ L * ‖Mt y‖ * ‖y‖ := by
      rw [h1]; exact le_trans h2 (mul_le_mul_of_nonneg_right h3 (norm_nonneg _))
    have h5 : ‖Mt y‖ * ‖Mt y‖ ≤ ‖Mt y‖ * (L * ‖y‖) := by nlinarith
    exact le_of_mul_le_mul_left h5 hpos

/-- **LinearOperator**, second LMI (over the samples `(u, v = Mᵀu)` of the adjoint): same entry
formula, sound because the adjoint obeys the same norm bound -/
theorem LinearOperator.sound_lmi1 (L : ℚ) (M Mt : E →ₗ[ℝ] E) (hM : ∀ z, ‖M z‖ ≤ (L : ℝ) * ‖z‖) (hL : 0 ≤ L)
    (hadj : ∀ a b, ⟪M a, b⟫ = ⟪a, Mt b⟫) (u : Fin n → E) :
    0 ≤ ∑ i, ∑ j, c i * c j *
        QForm.den (sv (u i) (Mt (u i)) (u j) (Mt (u j))) (fvOf fi fj) (Gen.LinearOperator.lmi0_entry L) :=
  LinearOperator.sound_lmi0 u c fi fj L Mt
    (fun z => LinearOperator.adjoint_bound (L : ℝ) (by exact_mod_cast hL) M Mt hM hadj z) hL

theorem LinearOperator.lmi0_symmetric (L : ℚ) (M : E →ₗ[ℝ] E) (i j : Fin n) :
    QForm.den (sv (x i) (M (x i)) (x j) (M (x j))) (fvOf fi fj) (Gen.LinearOperator.lmi0_entry L)
      = QForm.den (sv (x j) (M (x j)) (x i) (M (x i))) (fvOf fi fj) (Gen.LinearOperator.lmi0_entry L) := by
  simp only [den_LinearOperator_lmi0_entry, Canon.normLmi, sv]
  rw [real_inner_comm (x i) (x j), real_inner_comm (M (x i)) (M (x j))]

/-- **SkewSymmetricLinearOperator**, LMI (`L² XᵀX − GᵀG ⪰ 0`) -/
theorem SkewSymmetricLinearOperator.sound_lmi0 (L : ℚ) (A : E →ₗ[ℝ] E) (hA : ∀ z, ‖A z‖ ≤ (L : ℝ) * ‖z‖)
    (hL : 0 ≤ L) :
    0 ≤ ∑ i, ∑ j, c i * c j *
        QForm.den (sv (x i) (A (x i)) (x j) (A (x j))) (fvOf fi fj) (Gen.SkewSymmetricLinearOperator.lmi0_entry L) := by
  have := LinearOperator.sound_lmi0 x c fi fj L A hA hL
  simpa only [den_LinearOperator_lmi0_entry, den_SkewSymmetricLinearOperator_lmi0_entry] using this

/-- **SymmetricLinearOperator**, LMI: for a self-adjoint `A` with `⟪L z − A z, A z − μ z⟫ ≥ 0`
(i.e. spectrum in `[μ, L]`) the generated matrix has a nonnegative quadratic form. -/
theorem SymmetricLinearOperator.sound_lmi0 (μ L : ℚ) (A : E →ₗ[ℝ] E)
    (hsym : ∀ u w, ⟪A u, w⟫ = ⟪u, A w⟫)
    (hspec : ∀ z, 0 ≤ ⟪(L : ℝ) • z - A z, A z - (μ : ℝ) • z⟫) :
    0 ≤ ∑ i, ∑ j, c i * c j *
        QForm.den (sv (x i) (A (x i)) (x j) (A (x j))) (fvOf fi fj) (Gen.SymmetricLinearOperator.lmi0_entry μ L) := by
  simp only [den_SymmetricLinearOperator_lmi0_entry, Canon.symLmi, sv]
  set z := ∑ i, c i • x i with hz
  have hAz : A z = ∑ i, c i • A (x i) := by rw [hz, map_sum]; simp only [map_smul]
  have q1 := quadform_inner c (fun i => A (x i)) x
  have q2 := quadform_inner c (fun i => A (x i)) (fun i => A (x i))
  have q3 := quadform_inner c x x
  have q4 := quadform_inner c x (fun i => A (x i))
  simp only [← hAz, ← hz] at q1 q2 q3 q4
  have expand : ∑ i, ∑ j, c i * c j *
      ((L : ℝ) * ⟪A (x i), x j⟫ - ⟪A (x i), A (x j)⟫ - (μ : ℝ) * (L : ℝ) * ⟪x i, x j⟫ + (μ : ℝ) * ⟪x i, A (x j)⟫)
      = (L : ℝ) * ⟪A z, z⟫ - ⟪A z, A z⟫ - (μ : ℝ) * (L : ℝ) * ⟪z, z⟫ + (μ : ℝ) * ⟪z, A z⟫ := by
    rw [← q1, ← q2, ← q3, ← q4]
    simp only [Finset.mul_sum, ← Finset.sum_sub_distrib, ← Finset.sum_add_distrib]
    apply Finset.sum_congr rfl; intro i _
    apply Finset.sum_congr rfl; intro j _
    ring
  rw [expand]
  have := hspec z
  simp only [inner_sub_left, inner_sub_right, real_inner_smul_left, real_inner_smul_right] at this
  rw [hsym z z] at *
  linarith

end linear

/-- **SmoothFunction** (L-smooth, possibly non-convex) -/
theorem SmoothFunction.sound (f : E → ℝ) (g : E → E) (xi xj : E) (L : ℚ) (hL : 0 < L)
    (hlo : ∀ x y, f y ≥ f x + ⟪g x, y - x⟫ - (L : ℝ) / 2 * ‖y - x‖ ^ 2)
    (hup : ∀ x y, f y ≤ f x + ⟪g x, y - x⟫ + (L : ℝ) / 2 * ‖y - x‖ ^ 2) :
    QForm.den (sv xi (g xi) xj (g xj)) (fvOf (f xi) (f xj)) (Gen.SmoothFunction.smoothness L) ≤ 0 := by
  rw [den_SmoothFunction_smoothness _ _ L (ne_of_gt hL)]
  have hL' : (0 : ℝ) < (L : ℝ) := by exact_mod_cast hL
  have := smooth_interp f g (L : ℝ) hL' hlo hup xi xj
  simp only [Canon.smooth, sv, fvOf, real_inner_self_eq_norm_sq]; linarith

#print axioms SymmetricLinearOperator.sound_lmi0
#print axioms LinearOperator.sound_lmi0
#print axioms SmoothFunction.sound
