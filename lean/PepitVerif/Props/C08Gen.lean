import PepitModel.GenSteps
import PepitVerif.Math.AlgebraSem
import PepitVerif.Math.StepsSem
import Mathlib.Tactic.Ring
import Mathlib.Tactic.FieldSimp
import Mathlib.Tactic.Module

/-!
# Property C08, regenerated layer: what every primitive step of the working tree does

`Gen.Steps.*` is regenerated on every run by translator T3 (`harness/translators/gen_steps.py`): every step of
`PEPit/primitive_steps`, every option, is *executed* on leaf inputs with symbolic `γ`, `ε`; the file records the
decomposition of every returned object, every triplet recorded on every function, every side constraint, and
the number of fresh leaves.  The theorems below say, for every value of the parameters and every interpretation
`v` of the leaf points in a real inner-product space and `φ` of the leaf expressions, that these regenerated
data are exactly the relation the step documents — the returned point, the recorded samples, the side constraints
and nothing else (`… = [ … ]` fixes the *number* of records, so a dropped or an additional record breaks the
statement just as a changed coefficient does).

Leaves are numbered by creation counter: inputs first, then the leaves the step creates, in creation order.
-/

open RealInnerProductSpace

variable {E : Type*} [NormedAddCommGroup E] [InnerProductSpace ℝ E]

namespace Pepit.C08Gen

/-- side constraints with their expression replaced by what it denotes -/
noncomputable def denCons (v : Nat → E) (φ : Nat → ℝ) (l : List (Nat × Bool × EDict)) : List (Nat × Bool × ℝ) :=
  l.map (fun c => (c.1, c.2.1, EDict.den v φ c.2.2))

/-- vector-valued goals: unfold the literal dictionary and compare in the module -/
macro "step_vec" : tactic => `(tactic| (
  simp only [PDict.den, Dict.denM, List.map_cons, List.map_nil, List.sum_cons, List.sum_nil]
  push_cast
  module))

/-- real-valued goals: unfold the literal dictionary, expand every inner product into the oriented inner products
of the leaves `v 0 … v 4`, compare as rational functions of the parameters -/
macro "step_real" v:ident : tactic => `(tactic| (
  simp only [denCons, EDict.den, Dict.denM, List.map_cons, List.map_nil, List.sum_cons, List.sum_nil, keyVal,
    List.cons.injEq, Prod.mk.injEq, true_and, and_true, and_self, smul_eq_mul,
    inner_sub_left, inner_sub_right, inner_add_left, inner_add_right, real_inner_smul_left, real_inner_smul_right,
    real_inner_comm ($v 1) ($v 0), real_inner_comm ($v 2) ($v 0), real_inner_comm ($v 3) ($v 0), real_inner_comm ($v 4) ($v 0),
    real_inner_comm ($v 2) ($v 1), real_inner_comm ($v 3) ($v 1), real_inner_comm ($v 4) ($v 1),
    real_inner_comm ($v 3) ($v 2), real_inner_comm ($v 4) ($v 2), real_inner_comm ($v 4) ($v 3)]
  push_cast
  try field_simp
  try ring
  try simp only [and_self]))

open Gen.Steps

variable (v : Nat → E) (φ : Nat → ℝ)

/-! ## `proximal_step(x0, f, γ)`: `x = x0 − γ·g`, `(x, g, fx)` recorded with `g`, `fx` fresh, nothing else -/

theorem proximal_point (γ : Coef) : PDict.den v (proximal.retP0 γ) = v 0 - ((γ : ℚ) : ℝ) • v 1 := by
  unfold proximal.retP0; step_vec

theorem proximal_records (γ : Coef) :
    proximal.trips γ = [(0, proximal.retP0 γ, proximal.retP1 γ, proximal.retE2 γ)] ∧
    proximal.retP1 γ = [(1, 1)] ∧ proximal.retE2 γ = [(.f 0, 1)] ∧ proximal.cons γ = [] ∧
    proximal.newP = 1 ∧ proximal.newE = 1 := ⟨rfl, rfl, rfl, rfl, rfl, rfl⟩

/-! ## `inexact_gradient_step(x0, f, γ, ε, notion)`: `x = x0 − γ·d`, `(x0, g, f0)` recorded (the oracle call),
`‖g − d‖² ≤ ε²` resp. `≤ ε²‖g‖²` -/

theorem inexgrad_abs_point (γ ε : Coef) : PDict.den v (inexgrad_abs.retP0 γ ε) = v 0 - ((γ : ℚ) : ℝ) • v 2 := by
  unfold inexgrad_abs.retP0; step_vec

theorem inexgrad_abs_constraint (γ ε : Coef) :
    denCons v φ (inexgrad_abs.cons γ ε) = [(0, false, ⟪v 1 - v 2, v 1 - v 2⟫ - ((ε : ℚ) : ℝ) ^ 2)] := by
  unfold inexgrad_abs.cons; step_real v

theorem inexgrad_abs_records (γ ε : Coef) :
    inexgrad_abs.trips γ ε = [(0, [(0, 1)], [(1, 1)], [(.f 0, 1)])] ∧
    inexgrad_abs.retP1 γ ε = [(2, 1)] ∧ inexgrad_abs.retE2 γ ε = [(.f 0, 1)] ∧
    inexgrad_abs.newP = 2 ∧ inexgrad_abs.newE = 1 := ⟨rfl, rfl, rfl, rfl, rfl⟩

theorem inexgrad_rel_point (γ ε : Coef) : PDict.den v (inexgrad_rel.retP0 γ ε) = v 0 - ((γ : ℚ) : ℝ) • v 2 := by
  unfold inexgrad_rel.retP0; step_vec

theorem inexgrad_rel_constraint (γ ε : Coef) :
    denCons v φ (inexgrad_rel.cons γ ε) =
      [(0, false, ⟪v 1 - v 2, v 1 - v 2⟫ - ((ε : ℚ) : ℝ) ^ 2 * ⟪v 1, v 1⟫)] := by
  unfold inexgrad_rel.cons; step_real v

theorem inexgrad_rel_records (γ ε : Coef) :
    inexgrad_rel.trips γ ε = [(0, [(0, 1)], [(1, 1)], [(.f 0, 1)])] ∧
    inexgrad_rel.retP1 γ ε = [(2, 1)] ∧ inexgrad_rel.retE2 γ ε = [(.f 0, 1)] ∧
    inexgrad_rel.newP = 2 ∧ inexgrad_rel.newE = 1 := ⟨rfl, rfl, rfl, rfl, rfl⟩

/-! ## `exact_linesearch_step(x0, f, directions)`: `x` fresh, `(x, g, fx)` recorded, `⟪x − x0, g⟫ = 0` and
`⟪d, g⟫ = 0` for every direction — equalities, one per direction, in the order given -/

theorem linesearch_two_directions :
    denCons v φ linesearch2.cons =
      [(0, true, ⟪v 3 - v 0, v 4⟫), (0, true, ⟪v 1, v 4⟫), (0, true, ⟪v 2, v 4⟫)] := by
  unfold linesearch2.cons; step_real v

theorem linesearch_no_direction : denCons v φ linesearch0.cons = [(0, true, ⟪v 1 - v 0, v 2⟫)] := by
  unfold linesearch0.cons; step_real v

/-- thirty directions (more than there are letters): one orthogonality condition per direction, none dropped, none added,
in the order of the list -/
theorem linesearch_thirty_directions :
    linesearch30.cons = (0, true, [(EKey.ip 31 32, (1 : Coef)), (EKey.ip 0 32, -1)]) ::
      (List.range 30).map (fun i => (0, true, [(EKey.ip (i + 1) 32, (1 : Coef))])) ∧
    linesearch30.trips = [(0, [(31, 1)], [(32, 1)], [(.f 0, 1)])] ∧ linesearch30.newP = 2 ∧ linesearch30.newE = 1 :=
  ⟨by decide +kernel, rfl, rfl, rfl⟩

theorem linesearch_records :
    linesearch2.trips = [(0, [(3, 1)], [(4, 1)], [(.f 0, 1)])] ∧ linesearch2.retP0 = [(3, 1)] ∧
    linesearch2.retP1 = [(4, 1)] ∧ linesearch2.retE2 = [(.f 0, 1)] ∧ linesearch2.newP = 2 ∧ linesearch2.newE = 1 ∧
    linesearch0.trips = [(0, [(1, 1)], [(2, 1)], [(.f 0, 1)])] ∧ linesearch0.newP = 2 ∧ linesearch0.newE = 1 :=
  ⟨rfl, rfl, rfl, rfl, rfl, rfl, rfl, rfl, rfl⟩

/-! ## `linear_optimization_step(dir, ind)`: `x` fresh with `−dir` recorded as the (normal-cone) subgradient -/

theorem linopt_gradient : PDict.den v linopt.retP1 = - v 0 := by
  unfold linopt.retP1; step_vec

theorem linopt_records :
    linopt.trips = [(0, linopt.retP0, linopt.retP1, linopt.retE2)] ∧ linopt.retP0 = [(1, 1)] ∧
    linopt.retE2 = [(.f 0, 1)] ∧ linopt.cons = [] ∧ linopt.newP = 1 ∧ linopt.newE = 1 := ⟨rfl, rfl, rfl, rfl, rfl, rfl⟩

/-! ## Bregman steps: `∇h(x) = ∇h(x0) − γ·g` with `x` fresh -/

theorem breggrad_mirror (γ : Coef) : PDict.den v (breggrad.retP1 γ) = v 1 - ((γ : ℚ) : ℝ) • v 0 := by
  unfold breggrad.retP1; step_vec

theorem breggrad_records (γ : Coef) :
    breggrad.trips γ = [(0, breggrad.retP0 γ, breggrad.retP1 γ, breggrad.retE2 γ)] ∧ breggrad.retP0 γ = [(2, 1)] ∧
    breggrad.retE2 γ = [(.f 0, 1)] ∧ breggrad.cons γ = [] ∧ breggrad.newP = 1 ∧ breggrad.newE = 1 :=
  ⟨rfl, rfl, rfl, rfl, rfl, rfl⟩

theorem bregprox_mirror (γ : Coef) : PDict.den v (bregprox.retP1 γ) = v 0 - ((γ : ℚ) : ℝ) • v 2 := by
  unfold bregprox.retP1; step_vec

/-- the same fresh `x` is recorded on the mirror map (function 0) with `∇h(x)` and on the minimised function
(function 1) with the fresh subgradient `g` used in `∇h(x)` -/
theorem bregprox_records (γ : Coef) :
    bregprox.trips γ = [(0, bregprox.retP0 γ, bregprox.retP1 γ, bregprox.retE2 γ),
                        (1, bregprox.retP0 γ, bregprox.retP3 γ, bregprox.retE4 γ)] ∧
    bregprox.retP0 γ = [(1, 1)] ∧ bregprox.retP3 γ = [(2, 1)] ∧ bregprox.retE2 γ = [(.f 1, 1)] ∧
    bregprox.retE4 γ = [(.f 0, 1)] ∧ bregprox.cons γ = [] ∧ bregprox.newP = 2 ∧ bregprox.newE = 2 :=
  ⟨rfl, rfl, rfl, rfl, rfl, rfl, rfl, rfl⟩

/-! ## `epsilon_subgradient_step(x0, f, γ)`: `x = x0 − γ·g0`, `g0 ∈ ∂f(y)` recorded at a fresh `y`,
`f(x0) + (⟪g0, y⟫ − f(y)) − ⟪g0, x0⟫ ≤ ε` with `ε` a fresh leaf expression -/

theorem epssub_point (γ : Coef) : PDict.den v (epssub.retP0 γ) = v 0 - ((γ : ℚ) : ℝ) • v 1 := by
  unfold epssub.retP0; step_vec

theorem epssub_constraint (γ : Coef) :
    denCons v φ (epssub.cons γ) = [(0, false, φ 0 + (⟪v 1, v 3⟫ - φ 2) - ⟪v 1, v 0⟫ - φ 1)] := by
  unfold epssub.cons; step_real v

theorem epssub_records (γ : Coef) :
    epssub.trips γ = [(0, [(0, 1)], [(2, 1)], [(.f 0, 1)]), (0, [(3, 1)], [(1, 1)], [(.f 2, 1)])] ∧
    epssub.retP1 γ = [(1, 1)] ∧ epssub.retE2 γ = [(.f 0, 1)] ∧ epssub.retE3 γ = [(.f 1, 1)] ∧
    epssub.newP = 3 ∧ epssub.newE = 3 := ⟨rfl, rfl, rfl, rfl, rfl, rfl⟩

/-! ## `inexact_proximal_step(x0, f, γ, opt)` -/

/-- PD_gapI: `‖x − x0 + γ v‖²/2 + γ (f(x) − f(w) − ⟪v, x − w⟫) ≤ ε` with `x`, `g`, `w`, `v`, `ε` fresh;
`(w, v, fw)` and `(x, g, fx)` recorded -/
theorem inexprox1_constraint (γ : Coef) :
    denCons v φ (inexprox1.cons γ) =
      [(0, false, ⟪v 3 - v 0 + ((γ : ℚ) : ℝ) • v 1, v 3 - v 0 + ((γ : ℚ) : ℝ) • v 1⟫ / 2 +
        ((γ : ℚ) : ℝ) * (φ 1 - φ 0 - ⟪v 1, v 3 - v 2⟫) - φ 2)] := by
  unfold inexprox1.cons; step_real v

theorem inexprox1_records (γ : Coef) :
    inexprox1.trips γ = [(0, inexprox1.retP3 γ, inexprox1.retP4 γ, inexprox1.retE5 γ),
                         (0, inexprox1.retP0 γ, inexprox1.retP1 γ, inexprox1.retE2 γ)] ∧
    inexprox1.retP0 γ = [(3, 1)] ∧ inexprox1.retP1 γ = [(4, 1)] ∧ inexprox1.retE2 γ = [(.f 1, 1)] ∧
    inexprox1.retP3 γ = [(2, 1)] ∧ inexprox1.retP4 γ = [(1, 1)] ∧ inexprox1.retE5 γ = [(.f 0, 1)] ∧
    inexprox1.retE6 γ = [(.f 2, 1)] ∧ inexprox1.newP = 4 ∧ inexprox1.newE = 3 :=
  ⟨rfl, rfl, rfl, rfl, rfl, rfl, rfl, rfl, rfl, rfl⟩

/-- PD_gapII: `x = x0 − γ g + e`, `‖e‖²/2 ≤ ε`; `(x, g, fx)` recorded; `w, v, fw` are `x, g, fx` again -/
theorem inexprox2_point (γ : Coef) :
    PDict.den v (inexprox2.retP0 γ) = v 0 - ((γ : ℚ) : ℝ) • v 2 + v 1 := by
  unfold inexprox2.retP0; step_vec

theorem inexprox2_constraint (γ : Coef) :
    denCons v φ (inexprox2.cons γ) = [(0, false, ⟪v 1, v 1⟫ / 2 - φ 1)] := by
  unfold inexprox2.cons; step_real v

theorem inexprox2_records (γ : Coef) :
    inexprox2.trips γ = [(0, inexprox2.retP0 γ, inexprox2.retP1 γ, inexprox2.retE2 γ)] ∧
    inexprox2.retP1 γ = [(2, 1)] ∧ inexprox2.retE2 γ = [(.f 0, 1)] ∧
    inexprox2.retP3 γ = inexprox2.retP0 γ ∧ inexprox2.retP4 γ = inexprox2.retP1 γ ∧ inexprox2.retE5 γ = inexprox2.retE2 γ ∧
    inexprox2.retE6 γ = [(.f 1, 1)] ∧ inexprox2.newP = 2 ∧ inexprox2.newE = 2 :=
  ⟨rfl, rfl, rfl, rfl, rfl, rfl, rfl, rfl, rfl⟩

/-- PD_gapIII: `v = (x0 − x)/γ` recorded as the subgradient at the fresh `w`,
`γ (f(x) − f(w) − ⟪v, x − w⟫) ≤ ε` (the step divides by `γ`: the real code raises at `γ = 0`) -/
theorem inexprox3_subgradient (γ : Coef) :
    PDict.den v (inexprox3.retP4 γ) = (1 / ((γ : ℚ) : ℝ)) • (v 0 - v 1) := by
  unfold inexprox3.retP4; step_vec

theorem inexprox3_constraint (γ : Coef) (hγ : γ ≠ 0) :
    denCons v φ (inexprox3.cons γ) =
      [(0, false, ((γ : ℚ) : ℝ) * (φ 1 - φ 0 - ⟪(1 / ((γ : ℚ) : ℝ)) • (v 0 - v 1), v 1 - v 3⟫) - φ 2)] := by
  have h : ((γ : ℚ) : ℝ) ≠ 0 := by exact_mod_cast hγ
  unfold inexprox3.cons; step_real v

theorem inexprox3_records (γ : Coef) :
    inexprox3.trips γ = [(0, inexprox3.retP0 γ, inexprox3.retP1 γ, inexprox3.retE2 γ),
                         (0, inexprox3.retP3 γ, inexprox3.retP4 γ, inexprox3.retE5 γ)] ∧
    inexprox3.retP0 γ = [(1, 1)] ∧ inexprox3.retP1 γ = [(2, 1)] ∧ inexprox3.retE2 γ = [(.f 1, 1)] ∧
    inexprox3.retP3 γ = [(3, 1)] ∧ inexprox3.retE5 γ = [(.f 0, 1)] ∧ inexprox3.retE6 γ = [(.f 2, 1)] ∧
    inexprox3.newP = 3 ∧ inexprox3.newE = 3 := ⟨rfl, rfl, rfl, rfl, rfl, rfl, rfl, rfl, rfl⟩

/-! ## the hand-written step model (`Model/Steps`, namespace `StepForm`, the formulas the world model executes and the
steps stream compares with the code) denotes the same objects as the regenerated steps, on the same leaves -/

theorem nodup_single {κ : Type} (k : κ) (c : Coef) : (Dict.keys ([(k, c)] : Dict κ)).Nodup := by
  simp [Dict.keys]

theorem denP_single (k : Nat) : PDict.den v [(k, 1)] = v k := by
  simp [PDict.den, Dict.denM]

theorem denE_single (k : Nat) : EDict.den v φ [(.f k, 1)] = φ k := by
  simp [EDict.den, Dict.denM, keyVal]

open Pepit.StepForm in
theorem model_proximal_agrees (γ : Coef) :
    PDict.den v (gradStep [(0, 1)] γ [(1, 1)]) = PDict.den v (proximal.retP0 γ) := by
  rw [den_gradStep v [(0, 1)] [(1, 1)] γ (nodup_single _ _), proximal_point, denP_single, denP_single]

open Pepit.StepForm in
theorem model_inexgrad_agrees (γ ε : Coef) (rel : Bool) :
    PDict.den v (gradStep [(0, 1)] γ [(2, 1)]) = PDict.den v (inexgrad_abs.retP0 γ ε) ∧
    denCons v φ [(0, false, inexactGradient [(1, 1)] [(2, 1)] ε rel)] =
      denCons v φ (if rel then inexgrad_rel.cons γ ε else inexgrad_abs.cons γ ε) := by
  constructor
  · rw [den_gradStep v [(0, 1)] [(2, 1)] γ (nodup_single _ _), inexgrad_abs_point, denP_single, denP_single]
  · have h := den_inexactGradient v φ [(1, 1)] [(2, 1)] ε rel (nodup_single _ _)
    rw [denP_single, denP_single] at h
    cases rel with
    | true =>
      simp only [if_true, inexgrad_rel_constraint]
      simp only [denCons, List.map_cons, List.map_nil, h, if_true, real_inner_self_eq_norm_sq]
    | false =>
      simp only [Bool.false_eq_true, if_false, inexgrad_abs_constraint]
      simp only [denCons, List.map_cons, List.map_nil, h, Bool.false_eq_true, if_false, real_inner_self_eq_norm_sq, mul_one]

open Pepit.StepForm in
theorem model_linesearch_agrees :
    denCons v φ [(0, true, linesearchMain [(3, 1)] [(0, 1)] [(4, 1)]), (0, true, linesearchDir [(1, 1)] [(4, 1)]),
                 (0, true, linesearchDir [(2, 1)] [(4, 1)])] = denCons v φ linesearch2.cons := by
  rw [linesearch_two_directions]
  simp only [denCons, List.map_cons, List.map_nil, den_linesearchMain v φ [(3, 1)] [(0, 1)] [(4, 1)] (nodup_single _ _),
    den_linesearchDir, denP_single]

open Pepit.StepForm in
theorem model_epssub_agrees (γ : Coef) :
    PDict.den v (gradStep [(0, 1)] γ [(1, 1)]) = PDict.den v (epssub.retP0 γ) ∧
    denCons v φ [(0, false, EDict.sub (epsSubgradient [(.f 0, 1)] [(1, 1)] [(3, 1)] [(.f 2, 1)] [(0, 1)]) [(.f 1, 1)])] =
      denCons v φ (epssub.cons γ) := by
  constructor
  · rw [den_gradStep v [(0, 1)] [(1, 1)] γ (nodup_single _ _), epssub_point, denP_single, denP_single]
  · rw [epssub_constraint]
    simp only [denCons, List.map_cons, List.map_nil]
    rw [EDict.den_sub v φ _ [(.f 1, 1)] (nodup_single _ _),
      den_epsSubgradient v φ [(.f 0, 1)] [(.f 2, 1)] [(1, 1)] [(3, 1)] [(0, 1)] (nodup_single _ _)]
    simp only [denP_single, denE_single]

open Pepit.StepForm in
theorem model_inexprox_agrees (γ : Coef) :
    denCons v φ [(0, false, EDict.sub (gapI [(3, 1)] [(0, 1)] γ [(1, 1)] [(2, 1)] [(.f 1, 1)] [(.f 0, 1)]) [(.f 2, 1)])] =
      denCons v φ (inexprox1.cons γ) ∧
    PDict.den v (gapIIx [(0, 1)] γ [(2, 1)] [(1, 1)]) = PDict.den v (inexprox2.retP0 γ) ∧
    denCons v φ [(0, false, EDict.sub (gapII [(1, 1)]) [(.f 1, 1)])] = denCons v φ (inexprox2.cons γ) ∧
    PDict.den v (gapIIIv [(0, 1)] [(1, 1)] γ) = PDict.den v (inexprox3.retP4 γ) := by
  refine ⟨?_, ?_, ?_, ?_⟩
  · rw [inexprox1_constraint]
    simp only [denCons, List.map_cons, List.map_nil]
    rw [EDict.den_sub v φ _ [(.f 2, 1)] (nodup_single _ _),
      den_gapI v φ [(3, 1)] [(0, 1)] [(1, 1)] [(2, 1)] γ [(.f 1, 1)] [(.f 0, 1)] (nodup_single _ _) (nodup_single _ _)
        (nodup_single _ _) (nodup_single _ _) (nodup_single _ _)]
    simp only [denP_single, denE_single, real_inner_self_eq_norm_sq]
  · rw [den_gapIIx v [(0, 1)] [(2, 1)] [(1, 1)] γ (nodup_single _ _) (nodup_single _ _), inexprox2_point]
    simp only [denP_single]
  · rw [inexprox2_constraint]
    simp only [denCons, List.map_cons, List.map_nil]
    rw [EDict.den_sub v φ _ [(.f 1, 1)] (nodup_single _ _), den_gapII]
    simp only [denP_single, denE_single, real_inner_self_eq_norm_sq]
  · rw [den_gapIIIv v [(0, 1)] [(1, 1)] γ (nodup_single _ _), inexprox3_subgradient]
    simp only [denP_single]

end Pepit.C08Gen
