import PepitVerif.Math.CvxSem
import PepitVerif.Math.Certificate
import PepitVerif.Math.MatricesSem

/-!
# Property C01: the returned bound is backed by a complete, checkable dual certificate

* `recover_spec` (`Math/CvxSem`): for every list of sent items (scalar constraints and LMIs of any
  size, in any order) and every assignment of dual values to the emitted solver constraints,
  `_recover_dual_values` returns the dual of `G ≽ 0` followed, item by item, by the dual of that
  item's own main constraint — the counter walk `+1 / +1+n²` never lands on an entry equality.
* `cert_sound` (`Math/Certificate`): weak duality — an identity
  `objective − τ = Σ λ·c − ⟨S, G⟩ − Σ⟨Λ_k, T_k⟩` with `λ ≥ 0` on inequalities and `S, Λ_k ≽ 0`
  bounds the objective by `τ` at every feasible point.
This file states the routing result in the form the property uses.
-/

namespace Pepit.C01

/-- the multipliers attached by `assign_dual_values` (`zip(sent, duals[1:])`): the `k`-th sent item
receives the dual of its own main constraint -/
theorem routing {δ : Type} (d : SolverCon → δ) (items : List Item) (k : Nat) (hk : k < items.length) :
    ∃ ds, recover ((emit items).map d) items = some ds ∧
      ds[k + 1]? = some (d (mainOf items[k])) ∧ ds[0]? = some (d .gram) := by
  refine ⟨_, recover_spec d items, ?_, ?_⟩
  · simp [List.getElem?_cons_succ, hk]
  · simp

/-- non-vacuity: `[c₀, LMI₁(2×2), c₂]` — the third item's dual sits at solver index 7 -/
example : recover [10, 11, 12, 13, 14, 15, 16, 17] [.cons 0, .psd 1 2, .cons 2] = some [10, 11, 12, 17] := by
  decide

end Pepit.C01

#print axioms Pepit.C01.routing

/-! ## the reconstruction at the end of `check_feasibility` -/

namespace Pepit.C01

theorem keyValGF_swap (G : Nat → Nat → ℝ) (F : Nat → ℝ) (hG : ∀ i j, G i j = G j i) (k : EKey) :
    keyValGF G F k.swap = keyValGF G F k := by
  cases k with
  | f i => rfl
  | one => rfl
  | ip i j => simp [EKey.swap, keyValGF, hG j i]

theorem swap_injective : Function.Injective EKey.swap := by
  intro a b h
  cases a <;> cases b <;> simp_all [EKey.swap]

/-- **`symmetrize_dict` does not change what an expression denotes** on symmetric Gram matrices -/
theorem evalGF_symmetrize (G : Nat → Nat → ℝ) (F : Nat → ℝ) (hG : ∀ i j, G i j = G j i)
    (d : EDict) (hnd : (Dict.keys d).Nodup) :
    EDict.evalGF G F (EDict.symmetrize d) = EDict.evalGF G F d := by
  unfold EDict.evalGF EDict.symmetrize
  have hk : (Dict.keys (d.map (fun kc => (kc.1.swap, kc.2)))).Nodup := by
    have : Dict.keys (d.map (fun kc => (kc.1.swap, kc.2))) = (Dict.keys d).map EKey.swap := by
      simp [Dict.keys, List.map_map, Function.comp_def]
    rw [this]; exact List.Nodup.map swap_injective hnd
  rw [Dict.denM_scale, Dict.denM_merge _ _ _ hk, Dict.denM_map_key]
  have : (fun k => keyValGF G F (EKey.swap k)) = keyValGF G F := by
    funext k; exact keyValGF_swap G F hG k
  rw [this]
  push_cast
  simp only [smul_eq_mul]
  ring

theorem absv_nonneg (c : Coef) : 0 ≤ Coef.absv c := by
  unfold Coef.absv; split
  · next h => exact le_of_lt (by linarith)
  · next h => exact not_lt.mp h

theorem absv_eq_zero (c : Coef) (h : Coef.absv c = 0) : c = 0 := by
  unfold Coef.absv at h; split at h
  · linarith
  · exact h

theorem foldl_absv_ge (l : EDict) (a : Coef) : a ≤ l.foldl (fun a kc => a + Coef.absv kc.2) a := by
  induction l generalizing a with
  | nil => exact le_refl a
  | cons kc t ih => exact le_trans (by linarith [absv_nonneg kc.2]) (ih (a + Coef.absv kc.2))

theorem foldl_absv_zero (l : EDict) (h : l.foldl (fun a kc => a + Coef.absv kc.2) 0 = 0) :
    ∀ kc ∈ l, kc.2 = 0 := by
  induction l with
  | nil => intro kc hkc; cases hkc
  | cons kc t ih =>
    rw [List.foldl_cons] at h
    have h1 := foldl_absv_ge t (0 + Coef.absv kc.2)
    have h2 : Coef.absv kc.2 = 0 := by linarith [absv_nonneg kc.2]
    intro kc' hkc'
    rcases List.mem_cons.mp hkc' with rfl | hm
    · exact absv_eq_zero _ h2
    · rw [h2, add_zero] at h; exact ih h kc' hm

/-- a dictionary whose only possible key is the constant denotes its constant -/
theorem evalGF_only_const (G : Nat → Nat → ℝ) (F : Nat → ℝ) (d : EDict) (hnd : (Dict.keys d).Nodup)
    (h : ∀ kc ∈ d, kc.1 = EKey.one) : EDict.evalGF G F d = (((d.get? EKey.one).getD 0 : ℚ) : ℝ) := by
  match d, hnd, h with
  | [], _, _ => simp [EDict.evalGF, Dict.denM, Dict.get?]
  | [(k, c)], _, h =>
    have : k = EKey.one := h (k, c) (by simp)
    subst this
    simp [EDict.evalGF, Dict.denM, Dict.get?, List.lookup, keyValGF]
  | (k1, c1) :: (k2, c2) :: t, hnd, h =>
    have e1 : k1 = EKey.one := h (k1, c1) (by simp)
    have e2 : k2 = EKey.one := h (k2, c2) (by simp)
    subst e1; subst e2
    simp [Dict.keys] at hnd

/-- **what PEPit's own check means**: if `remaining_terms` is `0`, then for every symmetric Gram matrix
and every vector of function values the expression `objective − combination` evaluates to the returned
dual value — i.e. the identity `objective − τ = Σ λ·c − ⟨S, G⟩ − Σ⟨Λ, T⟩` of the property holds with `τ`
the value returned in dual mode -/
theorem reconstruction_spec (G : Nat → Nat → ℝ) (F : Nat → ℝ) (hG : ∀ i j, G i j = G j i)
    (ident : EDict) (hnd : (Dict.keys ident).Nodup) (hrem : (EDict.finishReconstruction ident).2 = 0) :
    EDict.evalGF G F ident = (((EDict.finishReconstruction ident).1 : ℚ) : ℝ) := by
  unfold EDict.finishReconstruction at hrem ⊢
  simp only at hrem ⊢
  set d := Dict.prune (EDict.symmetrize ident) with hd
  have hsym : EDict.evalGF G F d = EDict.evalGF G F ident := by
    rw [hd]; unfold EDict.evalGF; rw [Dict.denM_prune]; exact evalGF_symmetrize G F hG ident hnd
  have hndd : (Dict.keys d).Nodup := by
    rw [hd]; apply Dict.nodup_keys_prune
    unfold EDict.symmetrize
    exact Dict.nodup_keys_scale _ _ (Dict.nodup_keys_merge _ _ hnd)
  have hzero := foldl_absv_zero _ hrem
  have honly : ∀ kc ∈ d, kc.1 = EKey.one := by
    intro kc hkc
    by_contra hne
    have hmem : kc ∈ d.filter (fun kc => kc.1 != EKey.one) := by
      rw [List.mem_filter]; exact ⟨hkc, by simpa using hne⟩
    have h0 := hzero kc hmem
    have hnz : kc.2 ≠ 0 := by rw [hd] at hkc; exact Dict.prune_no_zero _ kc hkc
    exact hnz h0
  rw [← hsym, evalGF_only_const G F d hndd honly]

/-- non-vacuity: `½·⟨p0,p1⟩ + ½·⟨p1,p0⟩ − ⟨p0,p1⟩ + 3` has remaining terms 0 … after symmetrisation and constant 3 -/
example : EDict.finishReconstruction [(.ip 0 1, 1), (.ip 1 0, -1), (.one, 3)] = (3, 0) := by decide +kernel
example : EDict.finishReconstruction [(.ip 0 1, 1), (.one, 3)] = (3, 1) := by decide +kernel

end Pepit.C01

#print axioms Pepit.C01.reconstruction_spec
#print axioms Pepit.C01.evalGF_symmetrize

namespace Pepit.C01
/-- the number the source *prints* as `remaining_terms` ignores function-value entries (see
`EDict.remainingAsPrinted`): it can be `0` while the identity fails — `f₀` alone "reconstructs perfectly" -/
theorem printed_remaining_is_weaker :
    EDict.remainingAsPrinted [(.f 0, 1)] = 0 ∧ (EDict.finishReconstruction [(.f 0, 1)]).2 = 1 := by
  decide +kernel
end Pepit.C01
