import PepitVerif.Math.CvxSem
import PepitVerif.Math.Certificate

/-!
# Property C01: the returned bound is backed by a complete, checkable dual certificate

* `recover_spec` (`Math/CvxSem`): for every list of sent items (scalar constraints and LMIs of any
  size, in any order) and every assignment of dual values to the emitted solver constraints,
  `_recover_dual_values` returns the dual of `G ≽ 0` followed, item by item, by the dual of that
  item's own main constraint — the counter walk `+1 / +1+n²` never lands on an entry equality.
* `cert_sound` (`Math/Certificate`): weak duality — an identity
  `objective − τ = Σ λ·c − ⟨S, G⟩ − Σ⟨Λ_k, T_k⟩` with `λ ≥ 0` on inequalities and `S, Λ_k ≽ 0`
  bounds the objective by `τ` at every feasible point.
This file states the routing result in the form the property uses.
-/

namespace Pepit.C01

/-- the multipliers attached by `assign_dual_values` (`zip(sent, duals[1:])`): the `k`-th sent item
receives the dual of its own main constraint -/
theorem routing {δ : Type} (d : SolverCon → δ) (items : List Item) (k : Nat) (hk : k < items.length) :
    ∃ ds, recover ((emit items).map d) items = some ds ∧
      ds[k + 1]? = some (d (mainOf items[k])) ∧ ds[0]? = some (d .gram) := by
  refine ⟨_, recover_spec d items, ?_, ?_⟩
  · simp [List.getElem?_cons_succ, hk]
  · simp

/-- non-vacuity: `[c₀, LMI₁(2×2), c₂]` — the third item's dual sits at solver index 7 -/
example : recover [10, 11, 12, 13, 14, 15, 16, 17] [.cons 0, .psd 1 2, .cons 2] = some [10, 11, 12, 17] := by
  decide

end Pepit.C01

#print axioms Pepit.C01.routing
