import PepitVerif.Math.StepsSem
import Mathlib.Tactic.Linarith
import Mathlib.Tactic.FieldSimp
import Mathlib.Tactic.Positivity

/-!
# Property C08: primitive steps encode exactly their defining optimality conditions

* what each step records denotes the documented relation: the theorems `Pepit.StepForm.den_*`
  (`Math/StepsSem`) on the formula functions the executable step models are built from
  (`Model/Steps`; the steps stream compares returned points, recorded samples, side constraints,
  names and counters with the real steps for every option).
* the real operation on a real function satisfies what was recorded (`real_sound` theorems below):
  proximal step, linear-optimisation step, inexact gradient, exact line search (smooth functions), Bregman
  gradient step.
-/

open RealInnerProductSpace

variable {E : Type*} [NormedAddCommGroup E] [InnerProductSpace ℝ E]

namespace Pepit.C08

/-- if `A + t·B ≥ 0` for every `t ∈ (0, 1]` then `A ≥ 0` (no limits needed) -/
theorem nonneg_of_forall_small (A B : ℝ) (h : ∀ t : ℝ, 0 < t → t ≤ 1 → 0 ≤ A + t * B) : 0 ≤ A := by
  by_contra hA
  push_neg at hA
  by_cases hB : B ≤ 0
  · have := h 1 one_pos le_rfl; nlinarith
  · push_neg at hB
    have ht : 0 < min 1 (-A / (2 * B)) := lt_min one_pos (div_pos (by linarith) (by linarith))
    have h1 := h (min 1 (-A / (2 * B))) ht (min_le_left _ _)
    have h2 : min 1 (-A / (2 * B)) * B ≤ -A / (2 * B) * B := mul_le_mul_of_nonneg_right (min_le_right _ _) hB.le
    have h3 : -A / (2 * B) * B = -A / 2 := by field_simp
    linarith

/-- convexity in the two-point form -/
def ConvexFn (f : E → ℝ) : Prop :=
  ∀ x y : E, ∀ t : ℝ, 0 ≤ t → t ≤ 1 → f (x + t • (y - x)) ≤ (1 - t) * f x + t * f y

/-- `x` is a proximal point of `f` at `x0` with step `γ` -/
def IsProx (f : E → ℝ) (γ : ℝ) (x0 x : E) : Prop :=
  ∀ y, f x + 1 / (2 * γ) * ‖x - x0‖ ^ 2 ≤ f y + 1 / (2 * γ) * ‖y - x0‖ ^ 2

/-- **proximal step, real side**: for a convex `f` and `γ > 0`, `x = prox_{γ f}(x0)` implies that
`g = (x0 − x)/γ` is a subgradient of `f` at `x` — exactly the sample `(x, g, f(x))` with
`x = x0 − γ g` that `proximal_step` records -/
theorem prox_real_sound (f : E → ℝ) (hf : ConvexFn f) (γ : ℝ) (hγ : 0 < γ) (x0 x : E)
    (hp : IsProx f γ x0 x) :
    (x = x0 - γ • ((1 / γ) • (x0 - x))) ∧ ∀ y, f y ≥ f x + ⟪(1 / γ) • (x0 - x), y - x⟫ := by
  constructor
  · rw [smul_smul]; have : γ * (1 / γ) = 1 := by field_simp
    rw [this, one_smul]; abel
  · intro y
    have key : ∀ t : ℝ, 0 < t → t ≤ 1 →
        0 ≤ (f y - f x - ⟪(1 / γ) • (x0 - x), y - x⟫) + t * (1 / (2 * γ) * ‖y - x‖ ^ 2) := by
      intro t ht ht1
      have h1 := hp (x + t • (y - x))
      have h2 := hf x y t ht.le ht1
      have hnorm : ‖x + t • (y - x) - x0‖ ^ 2 = ‖x - x0‖ ^ 2 + 2 * t * ⟪x - x0, y - x⟫ + t ^ 2 * ‖y - x‖ ^ 2 := by
        have : x + t • (y - x) - x0 = (x - x0) + t • (y - x) := by abel
        rw [this, @norm_add_sq_real, norm_smul, real_inner_smul_right, Real.norm_eq_abs, mul_pow, sq_abs]; ring
      rw [hnorm] at h1
      have hinner : ⟪(1 / γ) • (x0 - x), y - x⟫ = -(1 / γ) * ⟪x - x0, y - x⟫ := by
        rw [real_inner_smul_left, ← neg_sub x x0, inner_neg_left]; ring
      rw [hinner]
      have hg2 : 0 < 2 * γ := by linarith
      -- divide the optimality inequality by t > 0
      have h3 : 0 ≤ t * (f y - f x) + 1 / (2 * γ) * (2 * t * ⟪x - x0, y - x⟫ + t ^ 2 * ‖y - x‖ ^ 2) := by
        nlinarith [h1, h2]
      have h4 : t * (f y - f x) + 1 / (2 * γ) * (2 * t * ⟪x - x0, y - x⟫ + t ^ 2 * ‖y - x‖ ^ 2)
          = t * ((f y - f x - -(1 / γ) * ⟪x - x0, y - x⟫) + t * (1 / (2 * γ) * ‖y - x‖ ^ 2)) := by
        field_simp; ring
      rw [h4] at h3
      exact nonneg_of_mul_nonneg_right h3 ht |> fun h => by linarith [h]
    have := nonneg_of_forall_small _ _ key
    linarith

/-- **linear-optimisation step, real side**: if `x` minimises `⟪dir, ·⟫` over `C`, then `−dir` is in
the normal cone of `C` at `x` — the sample `(x, −dir, ·)` recorded on the indicator function
satisfies the indicator's class condition `⟪g_x, y − x⟫ ≤ 0` against every point `y ∈ C` -/
theorem linopt_real_sound (C : Set E) (dir x : E) (_hx : x ∈ C) (hmin : ∀ y ∈ C, ⟪dir, x⟫ ≤ ⟪dir, y⟫) :
    ∀ y ∈ C, ⟪-dir, y - x⟫ ≤ 0 := by
  intro y hy
  have := hmin y hy
  rw [inner_neg_left, inner_sub_right]; linarith

/-- **inexact gradient step, real side**: a direction within the stated accuracy of the true
gradient satisfies the recorded constraint, in both notions -/
theorem inexact_gradient_real_sound (g d : E) (ε : ℝ) (hε : 0 ≤ ε) :
    (‖g - d‖ ≤ ε → ‖g - d‖ ^ 2 - ε ^ 2 * 1 ≤ 0) ∧ (‖g - d‖ ≤ ε * ‖g‖ → ‖g - d‖ ^ 2 - ε ^ 2 * ‖g‖ ^ 2 ≤ 0) := by
  constructor
  · intro h; have := pow_le_pow_left₀ (norm_nonneg _) h 2; linarith
  · intro h
    have := pow_le_pow_left₀ (norm_nonneg _) h 2
    rw [mul_pow] at this; linarith

/-- **exact line search, real side** (smooth functions, the setting of the shipped examples): if `x` minimises
`f` over the affine subspace `x0 + span(dirs)` (in particular along every direction `d` of that subspace through
`x`) and `f` satisfies the smoothness upper bound with its gradient `g`, then `⟪g x, d⟫ = 0` — the constraints
`exact_linesearch_step` records for every direction and for `x − x0` -/
theorem linesearch_real_sound (f : E → ℝ) (g : E → E) (L : ℝ) (hL : 0 < L)
    (hsm : ∀ x y, f y ≤ f x + ⟪g x, y - x⟫ + L / 2 * ‖y - x‖ ^ 2)
    (x d : E) (hmin : ∀ t : ℝ, f x ≤ f (x + t • d)) : ⟪g x, d⟫ = 0 := by
  by_cases hd : d = 0
  · subst hd; simp
  have hdn : 0 < ‖d‖ ^ 2 := by positivity
  set c := ⟪g x, d⟫ with hc
  -- the step t = -c / (L ‖d‖²) would decrease f strictly unless c = 0
  set t := -c / (L * ‖d‖ ^ 2) with ht
  have h1 := hmin t
  have h2 := hsm x (x + t • d)
  have e1 : x + t • d - x = t • d := by abel
  rw [e1, real_inner_smul_right, norm_smul, mul_pow, Real.norm_eq_abs, sq_abs] at h2
  have hLd : L * ‖d‖ ^ 2 ≠ 0 := ne_of_gt (mul_pos hL hdn)
  have h3 : t * c + L / 2 * (t ^ 2 * ‖d‖ ^ 2) = -(c ^ 2) / (2 * (L * ‖d‖ ^ 2)) := by
    rw [ht]; field_simp; ring
  have h4 : 0 ≤ -(c ^ 2) / (2 * (L * ‖d‖ ^ 2)) := by
    have : 0 ≤ t * c + L / 2 * (t ^ 2 * ‖d‖ ^ 2) := by linarith
    rwa [h3] at this
  have h5 : 0 < 2 * (L * ‖d‖ ^ 2) := by positivity
  have h6 : 0 ≤ -(c ^ 2) := by
    have := (div_nonneg_iff.mp h4)
    rcases this with ⟨a, _⟩ | ⟨_, b⟩
    · exact a
    · linarith
  have : c ^ 2 = 0 := le_antisymm (by linarith) (sq_nonneg c)
  exact pow_eq_zero_iff (by norm_num) |>.mp this

/-- **Bregman gradient (mirror / NoLips) step, real side**: if `x` minimises
`y ↦ ⟪gx0, y⟫ + (1/γ)·D_h(y, x0)` with `D_h(y, x0) = h y − h x0 − ⟪sx0, y − x0⟫`, then `sx = sx0 − γ·gx0` is a
subgradient of `h` at `x` — the sample `(x, sx0 − γ gx0, h(x))` that `bregman_gradient_step` records on the
mirror map -/
theorem bregman_gradient_real_sound (h : E → ℝ) (γ : ℝ) (hγ : 0 < γ) (gx0 sx0 x0 x : E)
    (hmin : ∀ y, ⟪gx0, x⟫ + 1 / γ * (h x - h x0 - ⟪sx0, x - x0⟫) ≤ ⟪gx0, y⟫ + 1 / γ * (h y - h x0 - ⟪sx0, y - x0⟫)) :
    ∀ y, h y ≥ h x + ⟪sx0 - γ • gx0, y - x⟫ := by
  intro y
  have h1 := hmin y
  have e : ⟪sx0 - γ • gx0, y - x⟫ = ⟪sx0, y - x0⟫ - ⟪sx0, x - x0⟫ - γ * (⟪gx0, y⟫ - ⟪gx0, x⟫) := by
    simp only [inner_sub_left, inner_sub_right, real_inner_smul_left]
    ring
  rw [e]
  have h2 : γ * (⟪gx0, x⟫ + 1 / γ * (h x - h x0 - ⟪sx0, x - x0⟫)) ≤ γ * (⟪gx0, y⟫ + 1 / γ * (h y - h x0 - ⟪sx0, y - x0⟫)) :=
    mul_le_mul_of_nonneg_left h1 hγ.le
  have hne : γ ≠ 0 := ne_of_gt hγ
  have e1 : γ * (⟪gx0, x⟫ + 1 / γ * (h x - h x0 - ⟪sx0, x - x0⟫)) = γ * ⟪gx0, x⟫ + (h x - h x0 - ⟪sx0, x - x0⟫) := by
    field_simp
  have e2 : γ * (⟪gx0, y⟫ + 1 / γ * (h y - h x0 - ⟪sx0, y - x0⟫)) = γ * ⟪gx0, y⟫ + (h y - h x0 - ⟪sx0, y - x0⟫) := by
    field_simp
  rw [e1, e2] at h2
  linarith

/-- non-vacuity of the formula layer: `x0 − ½ g` on concrete dictionaries, and the absolute
inexact-gradient expression -/
example : StepForm.gradStep [(0, 1)] (1 / 2) [(1, 1)] = [(0, 1), (1, -1 / 2)] ∧
    StepForm.inexactGradient [(0, 1)] [(1, 1)] 2 false =
      [(.ip 0 0, 1), (.ip 0 1, -1), (.ip 1 0, -1), (.ip 1 1, 1), (.one, -4)] := by decide +kernel

end Pepit.C08

#print axioms Pepit.C08.prox_real_sound
#print axioms Pepit.C08.linopt_real_sound
#print axioms Pepit.StepForm.den_gapI
#print axioms Pepit.C08.linesearch_real_sound
#print axioms Pepit.C08.bregman_gradient_real_sound
