import PepitVerif.Math.PairsSem

/-!
# Property C17: dual tables report each multiplier at the pair of points it belongs to

Model: `tableTwo` (`Model/Pairs`, used by the world model for every two-list condition) and
`pairTable`.  The table of a condition has one row per sample of list 1, one column per sample of
list 2, and the entry at `(i, j)` is the constraint generated for that ordered pair, `0` (`none`)
exactly where the pair is skipped.  `get_class_constraints_duals` maps tables entry-wise
(`dualTable`).
-/

namespace Pepit.C17

variable {α : Type} [DecidableEq α]

theorem tableTwo_rows (l1 l2 : List α) (s : Bool) : (tableTwo l1 l2 s).length = l1.length := by
  simp [tableTwo]

theorem tableTwo_cols (l1 l2 : List α) (s : Bool) : ∀ r ∈ tableTwo l1 l2 s, r.length = l2.length := by
  intro r hr
  simp only [tableTwo, List.mem_map] at hr
  obtain ⟨_, _, rfl⟩ := hr
  simp

/-- **entry specification**: the entry at `(i, j)` is the pair `(l1[i], l2[j])` itself unless the
pair is skipped (same sample, or lower triangle of a symmetric condition), in which case it is `0` -/
theorem tableTwo_entry (l1 l2 : List α) (s : Bool) (i j : Nat) (hi : i < l1.length) (hj : j < l2.length) :
    ((tableTwo l1 l2 s)[i]?.bind (·[j]?)) =
      some (if skipTwo (decide (l1[i] = l2[j])) s i j then none else some (l1[i], l2[j])) := by
  simp [tableTwo, List.getElem?_map, List.getElem?_zipIdx, hi, hj]

/-- the constraints listed for the solver are exactly the non-zero entries of the table, row by row -/
theorem pairsTwo_eq_table (l1 l2 : List α) (s : Bool) :
    pairsTwo l1 l2 s = (tableTwo l1 l2 s).flatMap (fun r => r.filterMap id) := by
  unfold pairsTwo tableTwo
  rw [List.flatMap_map]
  congr 1
  funext ai
  rw [List.filterMap_map]
  rfl

/-- `get_class_constraints_duals`: entry-wise image of a table under the dual-value map -/
def dualTable {β : Type} (dual : α × α → β) (zero : β) (t : List (List (Option (α × α)))) : List (List β) :=
  t.map (·.map (fun c => match c with | some p => dual p | none => zero))

/-- **the dual table has the multiplier of the constraint of pair `(i, j)` at `(i, j)`** and `0`
where no constraint exists -/
theorem dualTable_entry {β : Type} (dual : α × α → β) (zero : β) (l1 l2 : List α) (s : Bool)
    (i j : Nat) (hi : i < l1.length) (hj : j < l2.length) :
    ((dualTable dual zero (tableTwo l1 l2 s))[i]?.bind (·[j]?)) =
      some (if skipTwo (decide (l1[i] = l2[j])) s i j then zero else dual (l1[i], l2[j])) := by
  simp only [dualTable, tableTwo, List.getElem?_map, List.getElem?_zipIdx, hi, hj, List.map_map]
  simp only [Option.map_some, Option.bind_some, List.getElem?_map, List.getElem?_zipIdx, hj,
    Function.comp, Nat.zero_add]
  split <;> simp_all

/-- non-vacuity: stationary list `[x*]` against all samples `[x₀, x*, x₁]` -/
example : tableTwo [7] [3, 7, 9] false = [[some (7, 3), none, some (7, 9)]] := by decide

end Pepit.C17

#print axioms Pepit.C17.tableTwo_entry
#print axioms Pepit.C17.dualTable_entry
#print axioms Pepit.C17.pairsTwo_eq_table
