import PepitVerif.Math.AddPointSpec

/-!
# Property C07: oracle bookkeeping is coherent for leaf and composite functions

Theorems on the value-level function machine `Model/AFun` (run beside the handle-level `World`
model and the implementation by the correspondence driver):
`oracleLeafA_spec`, `distribute_spec`, `classify_perm`, `addPointA_composite_spec`
(`Math/AFunSpec`, `Math/DistributeSpec`, `Math/AddPointSpec`), and the arithmetic core
`sum_consistent_G`, `sum_consistent_V` (`Math/RemainderSem`).
-/

namespace Pepit.C07

/-- **a differentiable leaf returns the stored gradient and value**: once a triplet is recorded at
a point, `oracle` on a `reuse_gradient` leaf returns exactly that triplet's gradient and value and
records nothing -/
theorem leaf_reuse (w : AW) (f : Nat) (x : PDict) (t : ATriple)
    (hr : (w.getF f).reuse = true) (hl : lookupTriple (w.getF f).pts x = some t) :
    oracleLeafA w f x = (w, t.g, t.v) := by
  unfold oracleLeafA; simp [hl, hr]

/-- **a non-differentiable leaf keeps its value and draws a fresh subgradient** -/
theorem leaf_new_subgradient (w : AW) (f : Nat) (x : PDict) (t : ATriple)
    (hr : (w.getF f).reuse = false) (hl : lookupTriple (w.getF f).pts x = some t) :
    (oracleLeafA w f x).2.2 = t.v ∧ (oracleLeafA w f x).2.1 = leafPoint w.nP := by
  unfold oracleLeafA; simp [hl, hr]

/-- the lookup only depends on the pruned decomposition of the queried point: a point written with
explicit zero coefficients (`0 * x0`) finds the evaluation recorded at the zero point -/
theorem lookup_pruned (pts : List ATriple) (x : PDict) :
    lookupTriple pts x = lookupTriple pts (Dict.prune x) := by
  unfold lookupTriple; rw [prune_prune]

/-- `value` never creates anything when the point is already evaluated -/
theorem value_stored (w : AW) (f : Nat) (x : PDict) (t : ATriple)
    (hl : lookupTriple (w.getF f).pts x = some t) : valueA w f x = (w, t.v) := by
  unfold valueA; simp [hl]

end Pepit.C07

#print axioms Pepit.C07.leaf_reuse
#print axioms Pepit.C07.lookup_pruned
