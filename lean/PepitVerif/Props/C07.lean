import PepitVerif.Math.AddPointSpec
import PepitVerif.Math.OracleInv
import PepitVerif.Math.OracleFresh
import PepitVerif.Math.OneValue

/-!
# Property C07: oracle bookkeeping is coherent for leaf and composite functions

Theorems on the value-level function machine `Model/AFun` (run beside the handle-level `World`
model and the implementation by the correspondence driver):
`oracleLeafA_spec`, `distribute_spec`, `classify_perm`, `addPointA_composite_spec`
(`Math/AFunSpec`, `Math/DistributeSpec`, `Math/AddPointSpec`), and the arithmetic core
`sum_consistent_G`, `sum_consistent_V` (`Math/RemainderSem`).
-/

namespace Pepit.C07

/-- **a differentiable leaf returns the stored gradient and value**: once a triplet is recorded at
a point, `oracle` on a `reuse_gradient` leaf returns exactly that triplet's gradient and value and
records nothing -/
theorem leaf_reuse (w : AW) (f : Nat) (x : PDict) (t : ATriple)
    (hr : (w.getF f).reuse = true) (hl : lookupTriple (w.getF f).pts x = some t) :
    oracleLeafA w f x = (w, t.g, t.v) := by
  unfold oracleLeafA; simp [hl, hr]

/-- **a non-differentiable leaf keeps its value and draws a fresh subgradient** -/
theorem leaf_new_subgradient (w : AW) (f : Nat) (x : PDict) (t : ATriple)
    (hr : (w.getF f).reuse = false) (hl : lookupTriple (w.getF f).pts x = some t) :
    (oracleLeafA w f x).2.2 = t.v ∧ (oracleLeafA w f x).2.1 = leafPoint w.nP := by
  unfold oracleLeafA; simp [hl, hr]

/-- the lookup only depends on the pruned decomposition of the queried point: a point written with
explicit zero coefficients (`0 * x0`) finds the evaluation recorded at the zero point -/
theorem lookup_pruned (pts : List ATriple) (x : PDict) :
    lookupTriple pts x = lookupTriple pts (Dict.prune x) := by
  unfold lookupTriple; rw [prune_prune]

/-- `value` never creates anything when the point is already evaluated -/
theorem value_stored (w : AW) (f : Nat) (x : PDict) (t : ATriple)
    (hl : lookupTriple (w.getF f).pts x = some t) : valueA w f x = (w, t.v) := by
  unfold valueA; simp [hl]

end Pepit.C07

#print axioms Pepit.C07.leaf_reuse
#print axioms Pepit.C07.lookup_pruned

/-! ## the invariant over every sequence of calls -/

namespace Pepit.C07

/-- a call of the oracle layer on a world of declared functions -/
inductive Call where
  | oracle (f : Nat) (x : PDict)      -- `f.oracle(x)` and `f.gradient(x)` (same bookkeeping)
  | value (f : Nat) (x : PDict)       -- `f.value(x)`
  | stationary (f : Nat)              -- `f.stationary_point()`
  | fixed (f : Nat)                   -- `f.fixed_point()`

/-- what a program can write at the moment of the call: an existing function, a point made of existing
leaf points; a stationary / fixed point is asked of a leaf function or of a sum with at least one term
(the zero function is the known finding `KF-C07-zero-function-point`) -/
def Call.valid (w : AW) : Call → Prop
  | .oracle f x => f < w.funs.length ∧ (Dict.keys x).Nodup ∧ ∀ k ∈ Dict.keys x, k < w.nP
  | .value f x => f < w.funs.length ∧ (Dict.keys x).Nodup ∧ ∀ k ∈ Dict.keys x, k < w.nP
  | .stationary f => f < w.funs.length ∧ ((w.getF f).isLeaf = false → Dict.prune (w.getF f).decomp ≠ [])
  | .fixed f => f < w.funs.length ∧ ((w.getF f).isLeaf = false → Dict.prune (w.getF f).decomp ≠ [])

def step (w : AW) : Call → AW
  | .oracle f x => (oracleA w f x).1
  | .value f x => (valueA w f x).1
  | .stationary f => (stationaryPointA w f).1
  | .fixed f => (fixedPointA w f).1

/-- every call is valid in the world in which it is made -/
def RunOk : AW → List Call → Prop
  | _, [] => True
  | w, c :: rest => Call.valid w c ∧ RunOk (step w c) rest

theorem valueA_inv (w : AW) (f : Nat) (x : PDict) (hf : f < w.funs.length) (hx : (Dict.keys x).Nodup)
    (hi : OInv w) : OInv (valueA w f x).1 := by
  unfold valueA
  cases lookupTriple (w.getF f).pts x with
  | some t => exact hi
  | none => exact oracleA_inv w f x hf hx hi

theorem record_len (w : AW) (f : Nat) (t : ATriple) : (w.record f t).funs.length = w.funs.length := by
  simp [AW.record, AW.setPts]

theorem oracleLeafA_len (w : AW) (f : Nat) (x : PDict) : (oracleLeafA w f x).1.funs.length = w.funs.length := by
  unfold oracleLeafA
  simp only
  cases lookupTriple (w.getF f).pts x with
  | some t => by_cases hr : (w.getF f).reuse = true <;> simp [hr, AW.record, AW.setPts]
  | none => simp [AW.record, AW.setPts]

theorem distribute_len (x : PDict) : ∀ (terms : List (Nat × Coef)) (w : AW) (gl : PDict) (fl : EDict),
    (distribute x w terms gl fl).funs.length = w.funs.length := by
  intro terms
  induction terms with
  | nil => intro w gl fl; rfl
  | cons hd rest ih =>
    obtain ⟨fn, wt⟩ := hd
    intro w gl fl
    cases rest with
    | nil => simp only [distribute]; exact record_len w fn _
    | cons hd2 rest2 => simp only [distribute]; rw [ih]; exact oracleLeafA_len w fn x

theorem addPointA_len (w : AW) (f : Nat) (t : ATriple) : (addPointA w f t).funs.length = w.funs.length := by
  unfold addPointA
  simp only
  split
  · exact record_len w f t
  · split
    · simp [AW.setDecomp, record_len]
    · rw [distribute_len]; simp [AW.setDecomp, record_len]

theorem oracleA_len (w : AW) (f : Nat) (x : PDict) : (oracleA w f x).1.funs.length = w.funs.length := by
  unfold oracleA
  by_cases hl : (w.getF f).isLeaf = true
  · simp only [hl, if_true]; exact oracleLeafA_len w f x
  · simp only [hl, Bool.false_eq_true, if_false]
    have h0 : (w.setDecomp f (Dict.prune (w.getF f).decomp)).funs.length = w.funs.length := by simp [AW.setDecomp]
    split
    · exact h0
    · simp only
      split <;> split <;> (try split) <;> simp only [addPointA_len] <;> exact h0

/-- run a sequence of calls -/
def run (w : AW) (calls : List Call) : AW := calls.foldl step w

/-- the full invariant of the oracle layer -/
def Inv (w : AW) : Prop := OInv w ∧ Bounded w ∧ OneValue w ∧ OneGrad w

/-- one call preserves the invariant -/
theorem step_inv (w : AW) (c : Call) (h : Inv w) (hc : Call.valid w c) : Inv (step w c) := by
  obtain ⟨hi, hb, hv, hg⟩ := h
  cases c with
  | oracle f x =>
    obtain ⟨h1, h2⟩ := oracleA_one w f x hc.1 hc.2.1 hi hv hg
    exact ⟨oracleA_inv w f x hc.1 hc.2.1 hi, (bounded_oracleA w f x hb hc.2.2).1, h1, h2⟩
  | value f x =>
    obtain ⟨h1, h2⟩ := valueA_one w f x hc.1 hc.2.1 hi hv hg
    exact ⟨valueA_inv w f x hc.1 hc.2.1 hi, (bounded_valueA w f x hb hc.2.2).1, h1, h2⟩
  | stationary f =>
    obtain ⟨h1, h2, _⟩ := stationaryPointA_inv w f hi hb hc.1 hc.2
    obtain ⟨h3, h4⟩ := stationaryPointA_one w f hi hb hc.1 hc.2 hv hg
    exact ⟨h1, h2, h3, h4⟩
  | fixed f =>
    obtain ⟨h1, h2, _⟩ := fixedPointA_inv w f hi hb hc.1 hc.2
    obtain ⟨h3, h4⟩ := fixedPointA_one w f hi hb hc.1 hc.2 hv hg
    exact ⟨h1, h2, h3, h4⟩

/-- **for every world of declared functions in which the invariant holds (in particular every world in
which nothing has been evaluated yet) and every finite sequence of oracle / gradient / value /
stationary-point / fixed-point calls, each valid when it is made, in any order, on leaf and composite
functions alike, the invariant holds at the end**: stored dictionaries are well formed; every triplet
recorded on a composite function is the weighted sum of triplets recorded at the same point on its
terms; recorded points only mention existing leaf points; two triplets of one function at one point
carry the same value; a differentiable function holds at most one triplet per point -/
theorem run_inv : ∀ (calls : List Call) (w : AW), Inv w → RunOk w calls → Inv (run w calls) := by
  intro calls
  induction calls with
  | nil => intro w hi _; exact hi
  | cons c rest ih =>
    intro w hi hv
    exact ih (step w c) (step_inv w c hi hv.1) hv.2

/-- **one function value per point, however often and through whichever route it is queried**: after any
valid call sequence, two triplets recorded on the same function at the same point have the same value
under every valuation of the leaf expressions -/
theorem one_value_per_point (w : AW) (calls : List Call) (h : Inv w) (hok : RunOk w calls)
    (f : Nat) (t1 t2 : ATriple) (h1 : t1 ∈ ((run w calls).getF f).pts) (h2 : t2 ∈ ((run w calls).getF f).pts)
    (hs : SamePt t1.x t2.x) (φ : EKey → ℝ) : vden φ t1.v = vden φ t2.v :=
  (run_inv calls w h hok).2.2.1 f t1 t2 h1 h2 hs φ

/-- **a differentiable function has one gradient per point**: after any valid call sequence it holds at
most one triplet per point (and `oracle` returns that triplet's gradient: `leaf_reuse`) -/
theorem one_gradient_per_point (w : AW) (calls : List Call) (h : Inv w) (hok : RunOk w calls)
    (f : Nat) (hr : ((run w calls).getF f).reuse = true) :
    ((run w calls).getF f).pts.Pairwise (fun t1 t2 => ¬ SamePt t1.x t2.x) :=
  (run_inv calls w h hok).2.2.2 f hr

/-- **a declared stationary point has zero total gradient** (whatever was called before) -/
theorem stationary_zero_gradient (w : AW) (f : Nat) (hi : OInv w) (hf : f < w.funs.length) :
    ∃ t ∈ ((step w (.stationary f)).getF f).pts, t.x = leafPoint w.nP ∧ t.g = [] :=
  stationaryPointA_records w f hi hf

/-- a world in which functions are declared and nothing is evaluated satisfies the invariant as soon as
its composites are well structured -/
theorem oinv_of_fresh (w : AW) (hs : Struct w) (hempty : ∀ f, (w.getF f).pts = []) : OInv w := by
  refine ⟨?_, hs, ?_⟩
  · intro f t ht; rw [hempty f] at ht; cases ht
  · intro f _ _ t ht; rw [hempty f] at ht; cases ht

/-- non-vacuity: two leaves (one differentiable, one not), the composite `2·f₀ − f₁`; calls in an order
that exercises "term evaluated before the sum" and "sum evaluated again" -/
def demoWorld : AW :=
  { funs := [{ isLeaf := true, decomp := [(0, 1)], reuse := true }, { isLeaf := true, decomp := [(1, 1)], reuse := false },
             { isLeaf := false, decomp := [(0, 2), (1, -1)], reuse := false }], nP := 2, nE := 0 }

theorem demo_prune : Dict.prune (demoWorld.getF 2).decomp = [(0, 2), (1, -1)] := by decide +kernel

theorem demo_inv : OInv demoWorld := by
  apply oinv_of_fresh
  · intro f hf hleaf
    have hcases : f = 0 ∨ f = 1 ∨ f = 2 := by
      have : f < 3 := hf
      omega
    rcases hcases with rfl | rfl | rfl
    · exact absurd hleaf (by decide)
    · exact absurd hleaf (by decide)
    · rw [demo_prune]
      refine ⟨?_, by decide, ?_⟩
      · intro tw htw
        simp only [List.mem_cons, List.mem_nil_iff, or_false] at htw
        rcases htw with rfl | rfl <;> exact ⟨by decide, by decide⟩
      · intro _; exact ⟨(1, -1), by simp, by decide⟩
  · intro f
    have : ∀ g, (demoWorld.getF g).pts = [] := by
      intro g
      unfold AW.getF demoWorld
      simp only [List.getD_eq_getElem?_getD]
      match g with
      | 0 => rfl
      | 1 => rfl
      | 2 => rfl
      | (n + 3) => rfl
    exact this f

theorem bounded_of_fresh (w : AW) (hempty : ∀ f, (w.getF f).pts = []) : Bounded w := by
  intro f t ht; rw [hempty f] at ht; cases ht

theorem demo_bounded : Bounded demoWorld := by
  apply bounded_of_fresh
  intro g
  unfold AW.getF demoWorld
  simp only [List.getD_eq_getElem?_getD]
  match g with
  | 0 => rfl
  | 1 => rfl
  | 2 => rfl
  | (n + 3) => rfl

def demoCalls : List Call :=
  [.oracle 0 [(0, 1)], .oracle 2 [(0, 1)], .value 2 [(1, 1)], .stationary 2, .oracle 2 [(0, 1)], .fixed 0]

/-- the hypotheses of `run_inv` are met by a concrete world and a concrete call sequence (every call is
valid when it is made: decided by evaluation) -/
theorem demo_runOk : RunOk demoWorld demoCalls := by
  unfold demoCalls
  refine ⟨⟨by decide, by decide, by decide⟩, ⟨by decide, by decide, by decide +kernel⟩,
    ⟨by decide, by decide, by decide +kernel⟩, ⟨by decide, fun _ => by decide +kernel⟩,
    ⟨by decide, by decide, by decide +kernel⟩, ⟨by decide, fun h => by revert h; decide +kernel⟩, trivial⟩

theorem inv_of_fresh (w : AW) (hs : Struct w) (hempty : ∀ f, (w.getF f).pts = []) : Inv w := by
  refine ⟨oinv_of_fresh w hs hempty, bounded_of_fresh w hempty, ?_, ?_⟩
  · intro f t1 _ h1; rw [hempty f] at h1; cases h1
  · intro f _; rw [hempty f]; exact List.Pairwise.nil

theorem demo_Inv : Inv demoWorld := by
  refine ⟨demo_inv, demo_bounded, ?_, ?_⟩
  · intro f t1 _ h1
    have : (demoWorld.getF f).pts = [] := by
      unfold AW.getF demoWorld
      simp only [List.getD_eq_getElem?_getD]
      match f with
      | 0 => rfl
      | 1 => rfl
      | 2 => rfl
      | (n + 3) => rfl
    rw [this] at h1; cases h1
  · intro f _
    have : (demoWorld.getF f).pts = [] := by
      unfold AW.getF demoWorld
      simp only [List.getD_eq_getElem?_getD]
      match f with
      | 0 => rfl
      | 1 => rfl
      | 2 => rfl
      | (n + 3) => rfl
    rw [this]; exact List.Pairwise.nil

example : Inv (run demoWorld demoCalls) := run_inv _ _ demo_Inv demo_runOk

example : ((run demoWorld demoCalls).getF 2).pts.length = 4 := by
  decide +kernel

/-! ### what a sum of functions denotes -/

theorem getF_append_last (w : AW) (nf : AFun) : ({ w with funs := w.funs ++ [nf] } : AW).getF w.funs.length = nf := by
  unfold AW.getF
  simp

/-- **a sum of functions denotes the weighted sum of its operands' leaf weights** — also when both operands are the same
object (`f + f` weighs `f` twice) and whatever the signs (`f - f` is the zero function once pruned): for every valuation
of the leaf functions, the decomposition of `c1·a + c2·b` evaluates to `c1·(a) + c2·(b)` -/
theorem composite_weights (w : AW) (c1 : Coef) (a : Nat) (c2 : Coef) (b : Nat) (val : Nat → ℝ)
    (hb : (Dict.keys (w.getF b).decomp).Nodup) :
    Dict.denM val (((w.newComposite c1 a c2 b).1.getF (w.newComposite c1 a c2 b).2).decomp)
      = ((c1 : ℚ) : ℝ) * Dict.denM val (w.getF a).decomp + ((c2 : ℚ) : ℝ) * Dict.denM val (w.getF b).decomp := by
  unfold AW.newComposite
  simp only
  rw [getF_append_last]
  simp only
  rw [Dict.denM_merge _ _ _ (by rw [Dict.keys_scale]; exact hb), Dict.denM_scale, Dict.denM_scale]
  simp [smul_eq_mul]

/-- `f + f` on a leaf: weight 2 (kernel-checked instance) -/
example : (((demoWorld.newComposite 1 0 1 0).1.getF 3).decomp) = [(0, 2)] := by decide +kernel


end Pepit.C07

#print axioms Pepit.C07.run_inv
#print axioms Pepit.C07.composite_weights
