import PepitModel.GenInventory
import PepitModel.World

/-!
# Property C12: a new `PEP()` starts from a clean slate

The inventory (`Gen.Inventory`) is regenerated from the source on every run; the obligations
below are decided by the kernel on the regenerated lists.
-/

namespace Pepit

/-- the class-level state the world model carries, with the `World` field that models it -/
def modelledState : List ((String × String) × String) :=
  [ (("Point", "counter"), "nP"), (("Point", "list_of_leaf_points"), "pts"),
    (("Expression", "counter"), "nE"), (("Expression", "list_of_leaf_expressions"), "exs"),
    (("Function", "counter"), "nF"), (("Function", "list_of_functions"), "funs"),
    (("Constraint", "counter"), "nC"), (("PSDMatrix", "counter"), "nPsd"),
    (("BlockPartition", "counter"), "nPart"), (("BlockPartition", "list_of_partitions"), "parts"),
    (("PEP", "counter"), "-") ]

/-- **every class attribute that PEPit mutates through its class is re-assigned by
`PEP._reset_classes`** -/
theorem reset_covers : ∀ x ∈ Gen.Inventory.mutated, x ∈ Gen.Inventory.reset := by decide

/-- mutable containers created once at class level (shared by all instances and all models of a process) are all
re-created by the reset; a container that `__init__` rebinds on the instance is not shared -/
theorem shared_containers_reset : ∀ x ∈ Gen.Inventory.sharedContainers, x ∈ Gen.Inventory.reset := by decide

/-- every `PEP()` resets: the call is an unconditional statement of `PEP.__init__` -/
theorem reset_unconditional : Gen.Inventory.resetInInit = true := by decide

/-- the reset assigns each attribute its class-level initial value -/
theorem reset_restores_initial :
    ∀ x ∈ Gen.Inventory.resetValues, x ∈ Gen.Inventory.initial := by decide

/-- the model carries all of that state (no class-level registry is missing from the model) -/
theorem model_covers_state : ∀ x ∈ Gen.Inventory.classState, x ∈ modelledState.map (·.1) := by decide

/-- the module-level objects of the core modules are exactly the three known ones
(`null_point`, `null_expression`: immutable decompositions, `_value` cache discussed in
DESIGN.md; `WRAPPERS`: never mutated) -/
theorem module_objects_known :
    Gen.Inventory.moduleObjects =
      [("point.py", "null_point"), ("expression.py", "null_expression"), ("wrappers/__init__.py", "WRAPPERS")] := by
  decide

/-- the model's `PEP()`: all class-level state back to its initial value -/
def newPEP (_w : World) : World := {}

/-- **history independence (model)**: whatever happened before, a program run after `PEP()`
starts from the same world, hence produces the same solver input, bit for bit. -/
theorem history_independent {α : Type} (prog : M α) (w₁ w₂ : World) :
    prog.run (newPEP w₁) = prog.run (newPEP w₂) := rfl

end Pepit

#print axioms Pepit.reset_covers
#print axioms Pepit.history_independent
