import PepitVerif.Math.SparseSem
import PepitModel.Mosek
import PepitModel.Wrappers

/-!
# Property C11: both back-ends solve the same problem and report duals in one convention

* `row_holds_iff` / `dense_holds_iff` / `backends_same_constraint`: the MOSEK row built from the
  sparse data (`⟨A, G⟩ + a·F ∈ (−∞, −α]` resp. `{−α}`) and the cvxpy constraint built from the dense
  data (`Tr(Gw G) + Fw·F + α ≤ 0` resp. `= 0`) hold for exactly the same `(G, F)`: both say
  `evalGF(expr) ≤ 0` (`= 0`).
* `lmi_row_iff`: the coupling row of LMI entry `(i, j)` (selector `−1` on the diagonal, `−½` at
  `(max, min)` read symmetrically) says `evalGF(e_ij) = M i j` for the symmetric matrix variable —
  the same equality cvxpy imposes.
* `mrecover_spec`: `_recover_dual_values` of the MOSEK wrapper hands every sent item the dual of
  its own row / its own matrix variable, for every list of sent items.
The exact Task call sequence of the real `MosekWrapper` is compared with `Model/Wrappers` by the
collect+tee stream on the stand-in `mosek` module.
-/

namespace Pepit.C11

/-- the MOSEK row of a constraint: `⟨A, G⟩ + a·F` against the bound `−α` -/
noncomputable def rowLhs (G : Nat → Nat → ℝ) (F : Nat → ℝ) (S : SparseW) : ℝ :=
  evalSparse G F { S with c := 0 }

theorem rowLhs_eq (G : Nat → Nat → ℝ) (F : Nat → ℝ) (S : SparseW) :
    rowLhs G F S = evalSparse G F S - ((S.c : ℚ) : ℝ) := by
  unfold rowLhs evalSparse; simp

/-- **MOSEK row ⇔ symbolic constraint** (`boundkey.up` with upper bound `−α`, `boundkey.fx` at `−α`) -/
theorem row_holds_iff (G : Nat → Nat → ℝ) (F : Nat → ℝ) (hG : ∀ i j, G i j = G j i)
    (e : EDict) (hnd : (Dict.keys e).Nodup) :
    (rowLhs G F (toSparse e) ≤ -(((toSparse e).c : ℚ) : ℝ) ↔ EDict.evalGF G F e ≤ 0) ∧
    (rowLhs G F (toSparse e) = -(((toSparse e).c : ℚ) : ℝ) ↔ EDict.evalGF G F e = 0) := by
  rw [rowLhs_eq, sparse_correct G F hG e hnd]
  constructor <;> constructor <;> intro h <;> linarith

/-- **cvxpy constraint ⇔ symbolic constraint** -/
theorem dense_holds_iff (n m : Nat) (G : Nat → Nat → ℝ) (F : Nat → ℝ) (hG : ∀ i j, G i j = G j i)
    (e : EDict) (hnd : (Dict.keys e).Nodup) (hr : ∀ k ∈ Dict.keys e, EKey.inRange n m k) :
    (evalDense n m G F (toDense e) ≤ 0 ↔ EDict.evalGF G F e ≤ 0) ∧
    (evalDense n m G F (toDense e) = 0 ↔ EDict.evalGF G F e = 0) := by
  rw [dense_correct n m G F hG e hnd hr]; exact ⟨Iff.rfl, Iff.rfl⟩

/-- **both back-ends impose the same scalar constraint** on `(G, F)` -/
theorem backends_same_constraint (n m : Nat) (G : Nat → Nat → ℝ) (F : Nat → ℝ) (hG : ∀ i j, G i j = G j i)
    (e : EDict) (hnd : (Dict.keys e).Nodup) (hr : ∀ k ∈ Dict.keys e, EKey.inRange n m k) :
    (rowLhs G F (toSparse e) ≤ -(((toSparse e).c : ℚ) : ℝ) ↔ evalDense n m G F (toDense e) ≤ 0) ∧
    (rowLhs G F (toSparse e) = -(((toSparse e).c : ℚ) : ℝ) ↔ evalDense n m G F (toDense e) = 0) := by
  have h1 := row_holds_iff G F hG e hnd
  have h2 := dense_holds_iff n m G F hG e hnd hr
  exact ⟨h1.1.trans h2.1.symm, h1.2.trans h2.2.symm⟩

/-- the selector matrix of LMI entry `(i, j)` as the wrapper writes it: one lower-triangular triplet -/
def selector (i j : Nat) : Trip := ⟨max i j, min i j, if i == j then -1 else -(1 / 2)⟩

/-- **LMI coupling row**: for a symmetric matrix variable `M`, `⟨sel_ij, M⟩ = −M i j`, hence the row
`⟨A, G⟩ + a·F + ⟨sel_ij, M⟩ = −α` says `evalGF(e_ij) = M i j` -/
theorem selector_val (M : Nat → Nat → ℝ) (hM : ∀ i j, M i j = M j i) (i j : Nat) :
    tripVal M (selector i j) = - M i j := by
  unfold tripVal selector symv
  by_cases hij : i = j
  · subst hij; simp
  · have hne : max i j ≠ min i j := by omega
    have hb : (i == j) = false := by simpa using hij
    simp only [hb, hne, if_false]
    rcases Nat.lt_or_gt_of_ne hij with h | h
    · rw [Nat.max_eq_right (Nat.le_of_lt h), Nat.min_eq_left (Nat.le_of_lt h), hM j i]; push_cast; ring
    · rw [Nat.max_eq_left (Nat.le_of_lt h), Nat.min_eq_right (Nat.le_of_lt h), hM j i]; push_cast; ring

theorem lmi_row_iff (G M : Nat → Nat → ℝ) (F : Nat → ℝ) (hG : ∀ i j, G i j = G j i) (hM : ∀ i j, M i j = M j i)
    (e : EDict) (hnd : (Dict.keys e).Nodup) (i j : Nat) :
    (rowLhs G F (toSparse e) + tripVal M (selector i j) = -(((toSparse e).c : ℚ) : ℝ)) ↔
      EDict.evalGF G F e = M i j := by
  rw [rowLhs_eq, sparse_correct G F hG e hnd, selector_val M hM]
  constructor <;> intro h <;> linarith

/-! ## dual routing of the MOSEK wrapper -/

theorem mrecover_aux {δ : Type} (y bars : Nat → δ) (items : List Item) :
    ∀ (pre : List Nat) (r cp : Nat),
      mrecoverFrom (fun k => some (y k)) (fun k => some (bars k)) (pre ++ consRows r items) pre.length cp items
        = some (mspec y bars r cp items) := by
  induction items with
  | nil => intro pre r cp; rfl
  | cons it rest ih =>
    intro pre r cp
    cases it with
    | cons id =>
      simp only [consRows, mrecoverFrom, mspec]
      have hidx : (pre ++ r :: consRows (r + 1) rest)[pre.length]? = some r := by simp
      have := ih (pre ++ [r]) (r + 1) cp
      simp only [List.append_assoc, List.singleton_append, List.length_append, List.length_singleton] at this
      simp [hidx, this]
    | psd id n =>
      simp only [consRows, mrecoverFrom, mspec]
      have := ih pre (r + n * n) (cp + 1)
      simp [this]

/-- **`MosekWrapper._recover_dual_values` routes every multiplier to its own item**: for every list
of sent items, scalar constraint `k` receives `y[row at which it was emitted]` and LMI `k` the
(negated) dual of matrix variable `1 + number of LMIs sent before it` -/
theorem mrecover_spec {δ : Type} (y bars : Nat → δ) (items : List Item) (r0 : Nat) :
    mrecoverFrom (fun k => some (y k)) (fun k => some (bars k)) (consRows r0 items) 0 1 items
      = some (mspec y bars r0 1 items) := by
  simpa using mrecover_aux y bars items [] r0 1

/-- non-vacuity: `[c, LMI(2×2), c, LMI(1×1), c]` — rows 0, 5, 7 and matrix variables 1, 2 -/
example : consRows 0 [.cons 0, .psd 1 2, .cons 2, .psd 3 1, .cons 4] = [0, 5, 7] ∧
    mspec (fun r => 100 + r) (fun b => 200 + b) 0 1 [.cons 0, .psd 1 2, .cons 2, .psd 3 1, .cons 4]
      = [100, 201, 105, 202, 107] := by decide

/-! ## the objective of the dimension-reduction heuristic -/

/-- the matrix `W` as the wrapper receives it (rows of a square array) -/
def rowsOfFn (n : Nat) (W : Nat → Nat → Coef) : List (List Coef) :=
  (List.range n).map (fun i => (List.range n).map (fun j => W i j))

theorem rowsOfFn_get (n : Nat) (W : Nat → Nat → Coef) (i j : Nat) (hi : i < n) (hj : j < n) :
    ((rowsOfFn n W).getD i []).getD j 0 = W i j := by
  simp [rowsOfFn, List.getD, hi, hj]

/-- one entry of the lower triangle as the wrapper emits it: nothing for a zero -/
def tripOpt (i : Nat) (f : Nat → Coef) (j : Nat) : Option Trip := if f j == 0 then Option.none else some ⟨i, j, f j⟩

/-- dropping the zero entries changes nothing in the value -/
theorem sum_filterMap_trips (G : Nat → Nat → ℝ) (i : Nat) (f : Nat → Coef) (l : List Nat) :
    ((l.filterMap (tripOpt i f)).map (tripVal G)).sum = (l.map (fun j => ((f j : ℚ) : ℝ) * symv G i j)).sum := by
  induction l with
  | nil => simp
  | cons j rest ih =>
    by_cases h : f j = 0
    · have hn : tripOpt i f j = Option.none := by simp [tripOpt, h]
      rw [List.filterMap_cons_none hn, ih, List.map_cons, List.sum_cons, h]; simp
    · have hs : tripOpt i f j = some ⟨i, j, f j⟩ := by simp [tripOpt, h]
      rw [List.filterMap_cons_some hs, List.map_cons, List.sum_cons, ih, List.map_cons, List.sum_cons]; rfl

theorem list_range_sum' (n : Nat) (f : Nat → ℝ) : ((List.range n).map f).sum = ∑ i ∈ Finset.range n, f i := by
  induction n with
  | zero => simp
  | succ n ih => rw [List.range_succ, List.map_append, List.sum_append, ih, Finset.sum_range_succ]; simp

/-- value of the lower-triangular encoding, row by row -/
theorem heuristic_rows (n : Nat) (W : Nat → Nat → Coef) (G : Nat → Nat → ℝ) :
    ((mosekHeuristic (rowsOfFn n W)).map (tripVal G)).sum
      = ∑ i ∈ Finset.range n, ∑ j ∈ Finset.range (i + 1), ((W i j : ℚ) : ℝ) * symv G i j := by
  unfold mosekHeuristic
  have hlen : (rowsOfFn n W).length = n := by simp [rowsOfFn]
  rw [hlen, List.map_flatMap, List.flatMap_def, List.sum_flatten, List.map_map, list_range_sum']
  apply Finset.sum_congr rfl
  intro i hi
  have hi' : i < n := Finset.mem_range.mp hi
  simp only [Function.comp]
  have hrow : ∀ j ∈ List.range (i + 1), ((rowsOfFn n W).getD i []).getD j 0 = W i j := by
    intro j hj
    exact rowsOfFn_get n W i j hi' (lt_of_lt_of_le (List.mem_range.mp hj) hi')
  have hfm : List.filterMap (fun j => (let v := ((rowsOfFn n W).getD i []).getD j 0; if v == 0 then Option.none else some (⟨i, j, v⟩ : Trip))) (List.range (i + 1))
      = List.filterMap (tripOpt i (fun j => W i j)) (List.range (i + 1)) := by
    apply List.filterMap_congr
    intro j hj
    simp only [hrow j hj, tripOpt]
  rw [hfm, sum_filterMap_trips G i (fun j => W i j), list_range_sum']

/-- the full inner product `⟨W, G⟩ = Σ_{i,j<n} W i j · G i j` as a sum over the triangle, for symmetric `W` -/
theorem triangle_sum (W : Nat → Nat → ℝ) (G : Nat → Nat → ℝ) (hW : ∀ i j, W i j = W j i) :
    ∀ n, (∑ i ∈ Finset.range n, ∑ j ∈ Finset.range (i + 1), W i j * symv G i j)
      = ∑ i ∈ Finset.range n, ∑ j ∈ Finset.range n, W i j * G i j := by
  intro n
  induction n with
  | zero => simp
  | succ n ih =>
    rw [Finset.sum_range_succ, ih, Finset.sum_range_succ (fun i => ∑ j ∈ Finset.range (n + 1), W i j * G i j)]
    -- the new row of the triangle: entries left of the diagonal count twice, the diagonal once
    have hrow : ∑ j ∈ Finset.range (n + 1), W n j * symv G n j
        = (∑ j ∈ Finset.range n, W n j * G n j) + (∑ j ∈ Finset.range n, W j n * G j n) + W n n * G n n := by
      rw [Finset.sum_range_succ]
      have : ∀ j ∈ Finset.range n, W n j * symv G n j = W n j * G n j + W j n * G j n := by
        intro j hj
        have hne : n ≠ j := (Nat.ne_of_gt (Finset.mem_range.mp hj))
        simp only [symv, hne, if_false]
        rw [hW j n]; ring
      rw [Finset.sum_congr rfl this, Finset.sum_add_distrib]
      simp [symv]
    have hsq : ∑ i ∈ Finset.range n, ∑ j ∈ Finset.range (n + 1), W i j * G i j
        = (∑ i ∈ Finset.range n, ∑ j ∈ Finset.range n, W i j * G i j) + ∑ i ∈ Finset.range n, W i n * G i n := by
      rw [← Finset.sum_add_distrib]
      apply Finset.sum_congr rfl
      intro i _
      rw [Finset.sum_range_succ]
    rw [hrow, hsq, Finset.sum_range_succ (fun j => W n j * G n j)]
    ring

/-- **both back-ends minimise the same heuristic objective**: the lower triangle of `W` handed to MOSEK
(`appendsparsesymmat`, read symmetrically) denotes `⟨W, G⟩ = Σ W i j · G i j`, what the cvxpy wrapper writes as
`trace(W @ G)`, for every symmetric weight matrix `W` — the dimension-reduction heuristics replace the objective by the same
function of the Gram matrix in both wrappers (`dump.heur` ties `mosekHeuristic` to the real `MosekWrapper.heuristic`) -/
theorem heuristic_objective_same (n : Nat) (W : Nat → Nat → Coef) (hW : ∀ i j, W i j = W j i) (G : Nat → Nat → ℝ) :
    ((mosekHeuristic (rowsOfFn n W)).map (tripVal G)).sum
      = ∑ i ∈ Finset.range n, ∑ j ∈ Finset.range n, ((W i j : ℚ) : ℝ) * G i j := by
  rw [heuristic_rows]
  exact triangle_sum (fun i j => ((W i j : ℚ) : ℝ)) G (fun i j => by simp [hW i j]) n

/-- non-vacuity: a symmetric 2 × 2 weight with a zero entry -/
example : mosekHeuristic (rowsOfFn 2 (fun i j => if i = j then 3 else 0)) = [⟨0, 0, 3⟩, ⟨1, 1, 3⟩] := by decide +kernel

end Pepit.C11

#print axioms Pepit.C11.heuristic_objective_same

#print axioms Pepit.C11.backends_same_constraint
#print axioms Pepit.C11.lmi_row_iff
#print axioms Pepit.C11.mrecover_spec
