import PepitVerif.Math.SparseSem
import PepitModel.Mosek
import PepitModel.Wrappers

/-!
# Property C11: both back-ends solve the same problem and report duals in one convention

* `row_holds_iff` / `dense_holds_iff` / `backends_same_constraint`: the MOSEK row built from the
  sparse data (`⟨A, G⟩ + a·F ∈ (−∞, −α]` resp. `{−α}`) and the cvxpy constraint built from the dense
  data (`Tr(Gw G) + Fw·F + α ≤ 0` resp. `= 0`) hold for exactly the same `(G, F)`: both say
  `evalGF(expr) ≤ 0` (`= 0`).
* `lmi_row_iff`: the coupling row of LMI entry `(i, j)` (selector `−1` on the diagonal, `−½` at
  `(max, min)` read symmetrically) says `evalGF(e_ij) = M i j` for the symmetric matrix variable —
  the same equality cvxpy imposes.
* `mrecover_spec`: `_recover_dual_values` of the MOSEK wrapper hands every sent item the dual of
  its own row / its own matrix variable, for every list of sent items.
The exact Task call sequence of the real `MosekWrapper` is compared with `Model/Wrappers` by the
collect+tee stream on the stand-in `mosek` module.
-/

namespace Pepit.C11

/-- the MOSEK row of a constraint: `⟨A, G⟩ + a·F` against the bound `−α` -/
noncomputable def rowLhs (G : Nat → Nat → ℝ) (F : Nat → ℝ) (S : SparseW) : ℝ :=
  evalSparse G F { S with c := 0 }

theorem rowLhs_eq (G : Nat → Nat → ℝ) (F : Nat → ℝ) (S : SparseW) :
    rowLhs G F S = evalSparse G F S - ((S.c : ℚ) : ℝ) := by
  unfold rowLhs evalSparse; simp

/-- **MOSEK row ⇔ symbolic constraint** (`boundkey.up` with upper bound `−α`, `boundkey.fx` at `−α`) -/
theorem row_holds_iff (G : Nat → Nat → ℝ) (F : Nat → ℝ) (hG : ∀ i j, G i j = G j i)
    (e : EDict) (hnd : (Dict.keys e).Nodup) :
    (rowLhs G F (toSparse e) ≤ -(((toSparse e).c : ℚ) : ℝ) ↔ EDict.evalGF G F e ≤ 0) ∧
    (rowLhs G F (toSparse e) = -(((toSparse e).c : ℚ) : ℝ) ↔ EDict.evalGF G F e = 0) := by
  rw [rowLhs_eq, sparse_correct G F hG e hnd]
  constructor <;> constructor <;> intro h <;> linarith

/-- **cvxpy constraint ⇔ symbolic constraint** -/
theorem dense_holds_iff (n m : Nat) (G : Nat → Nat → ℝ) (F : Nat → ℝ) (hG : ∀ i j, G i j = G j i)
    (e : EDict) (hnd : (Dict.keys e).Nodup) (hr : ∀ k ∈ Dict.keys e, EKey.inRange n m k) :
    (evalDense n m G F (toDense e) ≤ 0 ↔ EDict.evalGF G F e ≤ 0) ∧
    (evalDense n m G F (toDense e) = 0 ↔ EDict.evalGF G F e = 0) := by
  rw [dense_correct n m G F hG e hnd hr]; exact ⟨Iff.rfl, Iff.rfl⟩

/-- **both back-ends impose the same scalar constraint** on `(G, F)` -/
theorem backends_same_constraint (n m : Nat) (G : Nat → Nat → ℝ) (F : Nat → ℝ) (hG : ∀ i j, G i j = G j i)
    (e : EDict) (hnd : (Dict.keys e).Nodup) (hr : ∀ k ∈ Dict.keys e, EKey.inRange n m k) :
    (rowLhs G F (toSparse e) ≤ -(((toSparse e).c : ℚ) : ℝ) ↔ evalDense n m G F (toDense e) ≤ 0) ∧
    (rowLhs G F (toSparse e) = -(((toSparse e).c : ℚ) : ℝ) ↔ evalDense n m G F (toDense e) = 0) := by
  have h1 := row_holds_iff G F hG e hnd
  have h2 := dense_holds_iff n m G F hG e hnd hr
  exact ⟨h1.1.trans h2.1.symm, h1.2.trans h2.2.symm⟩

/-- the selector matrix of LMI entry `(i, j)` as the wrapper writes it: one lower-triangular triplet -/
def selector (i j : Nat) : Trip := ⟨max i j, min i j, if i == j then -1 else -(1 / 2)⟩

/-- **LMI coupling row**: for a symmetric matrix variable `M`, `⟨sel_ij, M⟩ = −M i j`, hence the row
`⟨A, G⟩ + a·F + ⟨sel_ij, M⟩ = −α` says `evalGF(e_ij) = M i j` -/
theorem selector_val (M : Nat → Nat → ℝ) (hM : ∀ i j, M i j = M j i) (i j : Nat) :
    tripVal M (selector i j) = - M i j := by
  unfold tripVal selector symv
  by_cases hij : i = j
  · subst hij; simp
  · have hne : max i j ≠ min i j := by omega
    have hb : (i == j) = false := by simpa using hij
    simp only [hb, hne, if_false]
    rcases Nat.lt_or_gt_of_ne hij with h | h
    · rw [Nat.max_eq_right (Nat.le_of_lt h), Nat.min_eq_left (Nat.le_of_lt h), hM j i]; push_cast; ring
    · rw [Nat.max_eq_left (Nat.le_of_lt h), Nat.min_eq_right (Nat.le_of_lt h), hM j i]; push_cast; ring

theorem lmi_row_iff (G M : Nat → Nat → ℝ) (F : Nat → ℝ) (hG : ∀ i j, G i j = G j i) (hM : ∀ i j, M i j = M j i)
    (e : EDict) (hnd : (Dict.keys e).Nodup) (i j : Nat) :
    (rowLhs G F (toSparse e) + tripVal M (selector i j) = -(((toSparse e).c : ℚ) : ℝ)) ↔
      EDict.evalGF G F e = M i j := by
  rw [rowLhs_eq, sparse_correct G F hG e hnd, selector_val M hM]
  constructor <;> intro h <;> linarith

/-! ## dual routing of the MOSEK wrapper -/

theorem mrecover_aux {δ : Type} (y bars : Nat → δ) (items : List Item) :
    ∀ (pre : List Nat) (r cp : Nat),
      mrecoverFrom (fun k => some (y k)) (fun k => some (bars k)) (pre ++ consRows r items) pre.length cp items
        = some (mspec y bars r cp items) := by
  induction items with
  | nil => intro pre r cp; rfl
  | cons it rest ih =>
    intro pre r cp
    cases it with
    | cons id =>
      simp only [consRows, mrecoverFrom, mspec]
      have hidx : (pre ++ r :: consRows (r + 1) rest)[pre.length]? = some r := by simp
      have := ih (pre ++ [r]) (r + 1) cp
      simp only [List.append_assoc, List.singleton_append, List.length_append, List.length_singleton] at this
      simp [hidx, this]
    | psd id n =>
      simp only [consRows, mrecoverFrom, mspec]
      have := ih pre (r + n * n) (cp + 1)
      simp [this]

/-- **`MosekWrapper._recover_dual_values` routes every multiplier to its own item**: for every list
of sent items, scalar constraint `k` receives `y[row at which it was emitted]` and LMI `k` the
(negated) dual of matrix variable `1 + number of LMIs sent before it` -/
theorem mrecover_spec {δ : Type} (y bars : Nat → δ) (items : List Item) (r0 : Nat) :
    mrecoverFrom (fun k => some (y k)) (fun k => some (bars k)) (consRows r0 items) 0 1 items
      = some (mspec y bars r0 1 items) := by
  simpa using mrecover_aux y bars items [] r0 1

/-- non-vacuity: `[c, LMI(2×2), c, LMI(1×1), c]` — rows 0, 5, 7 and matrix variables 1, 2 -/
example : consRows 0 [.cons 0, .psd 1 2, .cons 2, .psd 3 1, .cons 4] = [0, 5, 7] ∧
    mspec (fun r => 100 + r) (fun b => 200 + b) 0 1 [.cons 0, .psd 1 2, .cons 2, .psd 3 1, .cons 4]
      = [100, 201, 105, 202, 107] := by decide

end Pepit.C11

#print axioms Pepit.C11.backends_same_constraint
#print axioms Pepit.C11.lmi_row_iff
#print axioms Pepit.C11.mrecover_spec
