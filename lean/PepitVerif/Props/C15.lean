import PepitVerif.Math.PartitionSem

/-!
# Property C15: block partitions behave as orthogonal coordinate-block projections

Theorems (in `Math/PartitionSem`, on the literal model `Model/Partition`): `blocks_sum_back`,
`one_block_identity`, `ortho_complete`, `ortho_only`, `real_projection_sound`.
-/

namespace Pepit.C15

/-- non-vacuity: three blocks of the point `2·p₀ − p₁` when `Point.counter = 5` -/
example : partitionBlocks [(0, 2), (1, -1)] 3 5 =
    [[(5, 1)], [(6, 1)], [(0, 2), (1, -1), (5, -1), (6, -1)]] := by decide +kernel

/-- the orthogonality relations of two decomposed points in three blocks: 4 ordered point pairs ×
3 block pairs -/
example : (partitionIdx 2 3).length = 12 := by decide

end Pepit.C15
