import PepitModel.GenSteps

/-!
# Property C16, regenerated layer: option values outside the documented ones are rejected

Translator T3 calls the two primitive steps that take a string option (`inexact_gradient_step(notion=…)`,
`inexact_proximal_step(opt=…)`) of the working tree with near misses of the documented values — substrings, another
case, padding, concatenations, the empty string, `None`, a number — and records the outcome in
`Gen.Steps.invalidOptions`.  The obligation: none of them is accepted, each raises the documented `ValueError`.
-/

namespace Pepit.C16Gen

/-- **no undocumented option value of a primitive step is accepted** -/
theorem step_options_rejected : ∀ x ∈ Gen.Steps.invalidOptions, x.2.2.2 = "ValueError" := by decide

/-- the inventory is not empty: both steps, at least ten values each -/
theorem step_options_covered :
    10 ≤ (Gen.Steps.invalidOptions.filter (fun x => x.1 == "inexact_gradient_step")).length ∧
    10 ≤ (Gen.Steps.invalidOptions.filter (fun x => x.1 == "inexact_proximal_step")).length := by decide

end Pepit.C16Gen

#print axioms Pepit.C16Gen.step_options_rejected
