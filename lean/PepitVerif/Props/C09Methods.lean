import PepitModel.Methods
import PepitVerif.Math.AlgebraSem
import PepitVerif.Math.WellFormed
import PepitVerif.Math.StepsSem
import PepitVerif.Props.C10
import PepitVerif.Math.Convex

/-!
# Property C09 / C10: the example scripts of two families, as specified in `Model/Methods`, are the methods the theorems are about

`Model/Methods` gives, as closed-form data, the whole user-level model the scripts `tutorials.gradient_descent_contraction`
and `unconstrained_convex_minimization.subgradient_method` build (samples recorded on the function, initial condition,
metrics); the `methods` / `examples` streams compare these data with the objects the REAL scripts build, for parameter
values drawn over the documented ranges.  Here:

* `den_iterPt`, `gdcX_is_gdIter`, `subgX_is_subgIter`: under every interpretation of the leaves that is *consistent with a
  real function* (the leaf recorded as gradient at `x_k` is `∇f(x_k)`), the point the script calls `x_k` denotes the
  `k`-th iterate of the method;
* `gdc_example_no_run_beats_bound`: for every smooth strongly convex `f`, every two starting points satisfying the script's
  initial condition, the script's performance metric evaluated on the real run is at most the closed form the example
  returns — the end-to-end statement of C09 for this script, with nothing about the script left to reading except the
  correspondence of `Method.gdc` with the objects it builds;
* `subg_example_no_run_beats_bound`: the same for the subgradient method (the best of the script's metrics).
-/

open RealInnerProductSpace

variable {E : Type*} [NormedAddCommGroup E] [InnerProductSpace ℝ E]

namespace Pepit.C09M
open Pepit.Method

theorem nodup_single (k : Nat) (c : Coef) : (Dict.keys ([(k, c)] : PDict)).Nodup := by simp [Dict.keys]

theorem denP_single (v : Nat → E) (k : Nat) : PDict.den v [(k, 1)] = v k := by simp [PDict.den, Dict.denM]

/-- `x - γ·g` -/
theorem den_stepPt (v : Nat → E) (x : PDict) (γ : Coef) (gl : Nat) :
    PDict.den v (stepPt x γ gl) = PDict.den v x - ((γ : ℚ) : ℝ) • v gl := by
  unfold stepPt
  rw [PDict.den_sub v x _ (PDict.wf_smul γ _ (nodup_single gl 1)), PDict.den_smul, denP_single]

theorem wf_iterPt (start : PDict) (hs : (Dict.keys start).Nodup) (γ : Coef) (gl : Nat → Nat) :
    ∀ k, (Dict.keys (iterPt start γ gl k)).Nodup
  | 0 => hs
  | k + 1 => PDict.wf_sub _ _ (wf_iterPt start hs γ gl k)

/-- the point after `k` steps denotes the start minus `γ` times the sum of the directions used -/
theorem den_iterPt_succ (v : Nat → E) (start : PDict) (γ : Coef) (gl : Nat → Nat) (k : Nat) :
    PDict.den v (iterPt start γ gl (k + 1)) = PDict.den v (iterPt start γ gl k) - ((γ : ℚ) : ℝ) • v (gl k) := by
  rw [iterPt, den_stepPt]

/-! ## gradient descent (tutorials.gradient_descent_contraction) -/

/-- gradient descent iterates, one step appended at the end -/
theorem gdIter_succ' (g : E → E) (γ : ℝ) (n : Nat) (x : E) :
    Pepit.C10.gdIter g γ (n + 1) x = Pepit.C10.gdIter g γ n x - γ • g (Pepit.C10.gdIter g γ n x) := by
  induction n generalizing x with
  | zero => simp [Pepit.C10.gdIter]
  | succ n ih =>
    show Pepit.C10.gdIter g γ (n + 1) (x - γ • g x) = _
    rw [ih (x - γ • g x)]; rfl

/-- **the script's `x_k` is the `k`-th gradient-descent iterate from the script's `x_0`**, as soon as the leaves recorded as
gradients are the gradients of a real function at the recorded points -/
theorem gdcX_is_gdIter (v : Nat → E) (g : E → E) (γ : Coef) (n : Nat)
    (hcons : ∀ k, k < n → v (2 + 2 * k) = g (PDict.den v (gdcX γ k))) :
    PDict.den v (gdcX γ n) = Pepit.C10.gdIter g ((γ : ℚ) : ℝ) n (v 0) := by
  induction n with
  | zero => simp [gdcX, iterPt, denP_single, Pepit.C10.gdIter]
  | succ n ih =>
    have ih' := ih (fun k hk => hcons k (Nat.lt_succ_of_lt hk))
    unfold gdcX at ih' ⊢
    rw [den_iterPt_succ, gdIter_succ', ← ih', hcons n (Nat.lt_succ_self n)]; rfl

theorem gdcY_is_gdIter (v : Nat → E) (g : E → E) (γ : Coef) (n : Nat)
    (hcons : ∀ k, k < n → v (3 + 2 * k) = g (PDict.den v (gdcY γ k))) :
    PDict.den v (gdcY γ n) = Pepit.C10.gdIter g ((γ : ℚ) : ℝ) n (v 1) := by
  induction n with
  | zero => simp [gdcY, iterPt, denP_single, Pepit.C10.gdIter]
  | succ n ih =>
    have ih' := ih (fun k hk => hcons k (Nat.lt_succ_of_lt hk))
    unfold gdcY at ih' ⊢
    rw [den_iterPt_succ, gdIter_succ', ← ih', hcons n (Nat.lt_succ_self n)]; rfl

theorem wf_gdcY (γ : Coef) (n : Nat) : (Dict.keys (gdcY γ n)).Nodup := wf_iterPt _ (nodup_single 1 1) γ _ n

/-- the script's metric and initial condition, as expressions -/
def gdcMetric (γ : Coef) (n : Nat) : EDict := PDict.sq (PDict.sub (gdcX γ n) (gdcY γ n))
def gdcInit (γ : Coef) : EDict := EDict.subConst (PDict.sq (PDict.sub (gdcX γ 0) (gdcY γ 0))) 1

theorem gdc_metrics (γ : Coef) (n : Nat) : (gdc γ n).metrics = [gdcMetric γ n] := rfl
theorem gdc_init (γ : Coef) (n : Nat) : (gdc γ n).init = [(gdcInit γ, false)] := rfl

/-- what they denote: `‖x_n − y_n‖²` and `‖x_0 − y_0‖² − 1` -/
theorem gdc_metric_den (v : Nat → E) (φ : Nat → ℝ) (γ : Coef) (n : Nat) :
    EDict.den v φ (gdcMetric γ n) = ‖PDict.den v (gdcX γ n) - PDict.den v (gdcY γ n)‖ ^ 2 := by
  unfold gdcMetric PDict.sq
  rw [den_ip, PDict.den_sub v (gdcX γ n) (gdcY γ n) (wf_gdcY γ n), real_inner_self_eq_norm_sq]

theorem gdc_init_den (v : Nat → E) (φ : Nat → ℝ) (γ : Coef) :
    EDict.den v φ (gdcInit γ) = ‖v 0 - v 1‖ ^ 2 - 1 := by
  unfold gdcInit EDict.subConst PDict.sq
  rw [EDict.den_addConst, den_ip, PDict.den_sub v (gdcX γ 0) (gdcY γ 0) (wf_gdcY γ 0), real_inner_self_eq_norm_sq]
  simp [gdcX, gdcY, iterPt, denP_single]; ring

/-- **no real run beats the closed form, for the script itself**: every `μ`-strongly convex `L`-smooth `f` with gradient
`g`, every interpretation of the script's leaves consistent with `f` (the recorded gradients are the gradients at the
recorded points) whose starting points satisfy the script's initial condition `‖x_0 − y_0‖² ≤ 1`: the script's metric
`‖x_n − y_n‖²` is at most `max((1−γμ)², (1−γL)²)ⁿ`, the value the example returns -/
theorem gdc_example_no_run_beats_bound (f : E → ℝ) (g : E → E) (μ L : ℝ) (γ : Coef) (hμ : 0 < μ) (hμL : μ < L)
    (hγ : 0 ≤ ((γ : ℚ) : ℝ))
    (hconv : ∀ x y, f y ≥ f x + ⟪g x, y - x⟫ + μ / 2 * ‖y - x‖ ^ 2)
    (hsm : ∀ x y, f y ≤ f x + ⟪g x, y - x⟫ + L / 2 * ‖y - x‖ ^ 2)
    (v : Nat → E) (φ : Nat → ℝ) (n : Nat)
    (hx : ∀ k, k < n → v (2 + 2 * k) = g (PDict.den v (gdcX γ k)))
    (hy : ∀ k, k < n → v (3 + 2 * k) = g (PDict.den v (gdcY γ k)))
    (hinit : ∀ c ∈ (gdc γ n).init, EDict.den v φ c.1 ≤ 0) :
    ∀ m ∈ (gdc γ n).metrics, EDict.den v φ m ≤ max ((1 - ((γ : ℚ) : ℝ) * μ) ^ 2) ((1 - ((γ : ℚ) : ℝ) * L) ^ 2) ^ n := by
  intro m hm
  rw [gdc_metrics, List.mem_singleton] at hm
  subst hm
  have h0 : ‖v 0 - v 1‖ ^ 2 ≤ 1 := by
    have := hinit (gdcInit γ, false) (by rw [gdc_init]; simp)
    rw [gdc_init_den] at this
    linarith
  rw [gdc_metric_den, gdcX_is_gdIter v g γ n hx, gdcY_is_gdIter v g γ n hy]
  have := Pepit.C10.gd_contraction_n f g μ L ((γ : ℚ) : ℝ) hμ hμL hγ hconv hsm n (v 0) (v 1)
  have hρ : 0 ≤ max ((1 - ((γ : ℚ) : ℝ) * μ) ^ 2) ((1 - ((γ : ℚ) : ℝ) * L) ^ 2) ^ n :=
    pow_nonneg (le_max_of_le_left (sq_nonneg _)) n
  calc _ ≤ max ((1 - ((γ : ℚ) : ℝ) * μ) ^ 2) ((1 - ((γ : ℚ) : ℝ) * L) ^ 2) ^ n * ‖v 0 - v 1‖ ^ 2 := this
    _ ≤ max ((1 - ((γ : ℚ) : ℝ) * μ) ^ 2) ((1 - ((γ : ℚ) : ℝ) * L) ^ 2) ^ n * 1 := mul_le_mul_of_nonneg_left h0 hρ
    _ = _ := mul_one _

/-! ## subgradient method (unconstrained_convex_minimization.subgradient_method) -/

/-- **the script's `x_k` is the `k`-th iterate of the subgradient method** run with the recorded subgradients -/
theorem subgX_is_subgIter (v : Nat → E) (γ : Coef) (k : Nat) :
    PDict.den v (subgX γ k) = Pepit.C10.subgIter (fun i => v (2 + i)) ((γ : ℚ) : ℝ) (v 1) k := by
  induction k with
  | zero => simp [subgX, iterPt, denP_single, Pepit.C10.subgIter]
  | succ k ih =>
    unfold subgX at ih ⊢
    rw [den_iterPt_succ, ih]; rfl

/-- the script's `k`-th metric is `f(x_k) − f⋆` for the value leaves it recorded -/
theorem subg_metric_den (v : Nat → E) (φ : Nat → ℝ) (γ : Coef) (n k : Nat) (hk : k ≤ n) :
    ((subg γ n).metrics.map (EDict.den v φ))[k]? = some (φ (1 + k) - φ 0) := by
  simp only [subg, List.map_map]
  rw [List.getElem?_map, List.getElem?_range (Nat.lt_succ_of_le hk)]
  simp only [Option.map_some, Function.comp]
  congr 1
  rw [EDict.den_sub v φ _ _ (by simp [Dict.keys])]
  simp [EDict.den, Dict.denM, keyVal]

/-- **no real run beats the closed form, for the script itself**: every convex `f` whose subgradients used along the run
have norm at most `M`, every interpretation consistent with `f` (recorded values are the values of `f`, recorded
subgradients are subgradients at the iterates), starting within `R` of a minimiser: the best of the script's metrics is at
most `(R² + (n+1)γ²M²) / (2γ(n+1))` (the published `MR/√(n+1)` at the script's step, `subgradient_closed_form`) -/
theorem subg_example_no_run_beats_bound (f : E → ℝ) (M R : ℝ) (γ : Coef) (hγ : 0 < ((γ : ℚ) : ℝ))
    (v : Nat → E) (φ : Nat → ℝ) (n : Nat)
    (hval : ∀ k, φ (1 + k) = f (PDict.den v (subgX γ k))) (hstar : φ 0 = f (v 0))
    (hsub : ∀ k y, f y ≥ f (PDict.den v (subgX γ k)) + ⟪v (2 + k), y - PDict.den v (subgX γ k)⟫)
    (hM : ∀ k, ‖v (2 + k)‖ ≤ M) (hR : ‖v 1 - v 0‖ ≤ R) :
    ∃ k, k ≤ n ∧ ∃ m, ((subg γ n).metrics.map (EDict.den v φ))[k]? = some m ∧
      m ≤ (R ^ 2 + (n + 1) * (((γ : ℚ) : ℝ) ^ 2 * M ^ 2)) / (2 * ((γ : ℚ) : ℝ) * (n + 1)) := by
  have hsub' : ∀ k y, f y ≥ f (Pepit.C10.subgIter (fun i => v (2 + i)) ((γ : ℚ) : ℝ) (v 1) k)
      + ⟪v (2 + k), y - Pepit.C10.subgIter (fun i => v (2 + i)) ((γ : ℚ) : ℝ) (v 1) k⟫ := by
    intro k y; rw [← subgX_is_subgIter]; exact hsub k y
  obtain ⟨k, hk, hb⟩ := Pepit.C10.subgradient_bound f (fun i => v (2 + i)) ((γ : ℚ) : ℝ) M R hγ (v 1) (v 0) hsub' hM hR n
  refine ⟨k, hk, φ (1 + k) - φ 0, subg_metric_den v φ γ n k hk, ?_⟩
  rw [hval k, hstar, subgX_is_subgIter]; exact hb

/-! ## proximal gradient (composite_convex_minimization.proximal_gradient) -/

theorem wf_pgX (γ : Coef) : ∀ k, (Dict.keys (pgX γ k)).Nodup
  | 0 => nodup_single 2 1
  | k + 1 => PDict.wf_sub _ _ (PDict.wf_sub _ _ (wf_pgX γ k))

/-- one step of the script: `x_{k+1} = (x_k − γ·∇f1(x_k)) − γ·s_{k+1}` with the two leaves the step creates -/
theorem den_pgX_succ (v : Nat → E) (γ : Coef) (k : Nat) :
    PDict.den v (pgX γ (k + 1)) =
      (PDict.den v (pgX γ k) - ((γ : ℚ) : ℝ) • v (3 + 2 * k)) - ((γ : ℚ) : ℝ) • v (4 + 2 * k) := by
  rw [pgX, den_stepPt, den_stepPt]

def pgMetric (γ : Coef) (n : Nat) : EDict := PDict.sq (PDict.sub (pgX γ n) [(0, 1)])
def pgInit (γ : Coef) : EDict := EDict.subConst (PDict.sq (PDict.sub (pgX γ 0) [(0, 1)])) 1
theorem pg_metrics (γ : Coef) (n : Nat) : (pg γ n).metrics = [pgMetric γ n] := rfl
theorem pg_init (γ : Coef) (n : Nat) : (pg γ n).init = [(pgInit γ, false)] := rfl

theorem pg_metric_den (v : Nat → E) (φ : Nat → ℝ) (γ : Coef) (n : Nat) :
    EDict.den v φ (pgMetric γ n) = ‖PDict.den v (pgX γ n) - v 0‖ ^ 2 := by
  unfold pgMetric PDict.sq
  rw [den_ip, PDict.den_sub v (pgX γ n) [(0, 1)] (nodup_single 0 1), real_inner_self_eq_norm_sq, denP_single]

theorem pg_init_den (v : Nat → E) (φ : Nat → ℝ) (γ : Coef) :
    EDict.den v φ (pgInit γ) = ‖v 2 - v 0‖ ^ 2 - 1 := by
  unfold pgInit EDict.subConst PDict.sq
  rw [EDict.den_addConst, den_ip, PDict.den_sub v (pgX γ 0) [(0, 1)] (nodup_single 0 1), real_inner_self_eq_norm_sq]
  simp [pgX, denP_single]; ring

/-- **no real run beats the closed form, for the proximal-gradient script itself**: `f` `μ`-strongly convex and `L`-smooth
with gradient `g`, `h` convex; every interpretation of the script's leaves consistent with `(f, h)` — the leaves recorded as
gradients of `f1` are `g` at the recorded points, the leaves recorded by the proximal steps are subgradients of `h` at
the new points, and `x⋆` is a stationary point of `f + h` the way the script records it (`−∇f(x⋆) ∈ ∂h(x⋆)`) — whose
start satisfies the script's initial condition: the script's metric `‖x_n − x⋆‖²` is at most
`max((1−γμ)², (1−γL)²)ⁿ`, the value the example returns -/
theorem pg_example_no_run_beats_bound (f : E → ℝ) (g : E → E) (h : E → ℝ) (μ L : ℝ) (γ : Coef)
    (hμ : 0 < μ) (hμL : μ < L) (hγ : 0 ≤ ((γ : ℚ) : ℝ))
    (hconv : ∀ x y, f y ≥ f x + ⟪g x, y - x⟫ + μ / 2 * ‖y - x‖ ^ 2)
    (hsm : ∀ x y, f y ≤ f x + ⟪g x, y - x⟫ + L / 2 * ‖y - x‖ ^ 2)
    (v : Nat → E) (φ : Nat → ℝ) (n : Nat)
    (hgs : v 1 = g (v 0)) (hss : ∀ z, h z ≥ h (v 0) + ⟪-(v 1), z - v 0⟫)
    (hg : ∀ k, k < n → v (3 + 2 * k) = g (PDict.den v (pgX γ k)))
    (hs : ∀ k, k < n → ∀ z, h z ≥ h (PDict.den v (pgX γ (k + 1))) + ⟪v (4 + 2 * k), z - PDict.den v (pgX γ (k + 1))⟫)
    (hinit : ∀ c ∈ (pg γ n).init, EDict.den v φ c.1 ≤ 0) :
    ∀ m ∈ (pg γ n).metrics, EDict.den v φ m ≤ max ((1 - ((γ : ℚ) : ℝ) * μ) ^ 2) ((1 - ((γ : ℚ) : ℝ) * L) ^ 2) ^ n := by
  intro m hm
  rw [pg_metrics, List.mem_singleton] at hm
  subst hm
  have h0 : ‖v 2 - v 0‖ ^ 2 ≤ 1 := by
    have := hinit (pgInit γ, false) (by rw [pg_init]; simp)
    rw [pg_init_den] at this
    linarith
  set ρ := max ((1 - ((γ : ℚ) : ℝ) * μ) ^ 2) ((1 - ((γ : ℚ) : ℝ) * L) ^ 2) with hρdef
  have hρ : 0 ≤ ρ := le_max_of_le_left (sq_nonneg _)
  -- `x⋆` is a fixed point of the proximal-gradient map, in the form `pg_contraction` wants
  have hfix : v 0 = (v 0 - ((γ : ℚ) : ℝ) • g (v 0)) - ((γ : ℚ) : ℝ) • (-(v 1)) := by
    rw [← hgs]; simp
  have key : ∀ k, k ≤ n → ‖PDict.den v (pgX γ k) - v 0‖ ^ 2 ≤ ρ ^ k * ‖v 2 - v 0‖ ^ 2 := by
    intro k
    induction k with
    | zero => intro _; simp [pgX, denP_single]
    | succ k ih =>
      intro hk
      have hk' : k < n := hk
      have ihk := ih (Nat.le_of_lt hk')
      have hstep : PDict.den v (pgX γ (k + 1)) =
          (PDict.den v (pgX γ k) - ((γ : ℚ) : ℝ) • g (PDict.den v (pgX γ k))) - ((γ : ℚ) : ℝ) • v (4 + 2 * k) := by
        rw [den_pgX_succ, hg k hk']
      have hc := Pepit.C10.pg_contraction f g h μ L ((γ : ℚ) : ℝ) hμ hμL hγ hconv hsm
        (PDict.den v (pgX γ k)) (v 0) (PDict.den v (pgX γ (k + 1))) (v 0) (v (4 + 2 * k)) (-(v 1))
        hstep hfix (hs k hk') hss
      calc ‖PDict.den v (pgX γ (k + 1)) - v 0‖ ^ 2 ≤ ρ * ‖PDict.den v (pgX γ k) - v 0‖ ^ 2 := hc
        _ ≤ ρ * (ρ ^ k * ‖v 2 - v 0‖ ^ 2) := mul_le_mul_of_nonneg_left ihk hρ
        _ = ρ ^ (k + 1) * ‖v 2 - v 0‖ ^ 2 := by ring
  rw [pg_metric_den]
  calc ‖PDict.den v (pgX γ n) - v 0‖ ^ 2 ≤ ρ ^ n * ‖v 2 - v 0‖ ^ 2 := key n (Nat.le_refl n)
    _ ≤ ρ ^ n * 1 := mul_le_mul_of_nonneg_left h0 (pow_nonneg hρ n)
    _ = ρ ^ n := mul_one _

/-! ## gradient flow of a strongly convex function (continuous_time_models.gradient_flow_strongly_convex) -/

theorem gfsc_metric_den (v : Nat → E) (φ : Nat → ℝ) :
    gfsc.metrics.map (EDict.den v φ) = [-‖v 2‖ ^ 2] := by
  simp only [gfsc, List.map_cons, List.map_nil]
  rw [den_ip, PDict.den_neg, denP_single, inner_neg_right, real_inner_self_eq_norm_sq]

def gfscInit : EDict := EDict.subConst (EDict.sub [(EKey.f 1, 1)] [(EKey.f 0, 1)]) 1
theorem gfsc_init : gfsc.init = [(gfscInit, true)] := rfl

theorem gfsc_init_den (v : Nat → E) (φ : Nat → ℝ) : EDict.den v φ gfscInit = φ 1 - φ 0 - 1 := by
  unfold gfscInit EDict.subConst
  rw [EDict.den_addConst, EDict.den_sub v φ _ _ (by simp [Dict.keys])]
  simp [EDict.den, Dict.denM, keyVal]; ring

/-- **the decay rate the example returns is valid for the script's own model**: `f` `μ`-strongly convex (`μ > 0`, first-order
form, `g` any selection of subgradients), an interpretation consistent with `f` whose Lyapunov value is normalised as the
script does (`f(x_t) − f(x⋆) = 1`): the script's metric, the derivative `−‖∇f(x_t)‖²` of the Lyapunov function along the
flow, is at most `−2μ` -/
theorem gfsc_example_no_run_beats_bound (f : E → ℝ) (g : E → E) (μ : ℝ) (hμ : 0 < μ)
    (hconv : ∀ x y, f y ≥ f x + ⟪g x, y - x⟫ + μ / 2 * ‖y - x‖ ^ 2)
    (v : Nat → E) (φ : Nat → ℝ) (hg : v 2 = g (v 1)) (h1 : φ 1 = f (v 1)) (h0 : φ 0 = f (v 0))
    (hinit : ∀ c ∈ gfsc.init, EDict.den v φ c.1 = 0) :
    ∀ m ∈ gfsc.metrics.map (EDict.den v φ), m ≤ -2 * μ := by
  intro m hm
  rw [gfsc_metric_den] at hm
  simp only [List.mem_singleton] at hm
  subst hm
  have hi : φ 1 - φ 0 - 1 = 0 := by
    have := hinit (gfscInit, true) (by rw [gfsc_init]; simp)
    rwa [gfsc_init_den] at this
  have hc := hconv (v 1) (v 0)
  rw [← hg] at hc
  -- ⟨g, d⟩ − μ/2 ‖d‖² ≤ ‖g‖² / (2μ) for d = x_t − x⋆
  set d := v 1 - v 0 with hd
  have hneg : v 0 - v 1 = -d := by rw [hd]; abel
  rw [hneg, inner_neg_right, norm_neg] at hc
  have hsq : 0 ≤ ‖v 2 - μ • d‖ ^ 2 := sq_nonneg _
  rw [@norm_sub_sq_real, real_inner_smul_right, norm_smul, mul_pow, Real.norm_eq_abs, sq_abs] at hsq
  have hfd : f (v 1) - f (v 0) = 1 := by rw [← h1, ← h0]; linarith
  have key : 2 * μ * (f (v 1) - f (v 0)) ≤ ‖v 2‖ ^ 2 := by nlinarith [hc, hsq, hμ]
  rw [hfd] at key
  linarith

/-! ## gradient descent, potential function (potential_functions.gradient_descent_lyapunov_1) -/

theorem nodup_singleE (k : EKey) (c : Coef) : (Dict.keys ([(k, c)] : EDict)).Nodup := by simp [Dict.keys]

theorem denE_single (v : Nat → E) (φ : Nat → ℝ) (k : Nat) : EDict.den v φ [(EKey.f k, 1)] = φ k := by
  simp [EDict.den, Dict.denM, keyVal]

/-- the potential `V_k = k (f_k − f⋆) + L/2 ‖x − x⋆‖²` the script builds -/
theorem gdlV_den (v : Nat → E) (φ : Nat → ℝ) (L : Coef) (k fk : Nat) (x : PDict) :
    EDict.den v φ (gdlV L k fk x) =
      (k : ℝ) * (φ fk - φ 0) + ((L : ℚ) : ℝ) / 2 * ‖PDict.den v x - v 0‖ ^ 2 := by
  unfold gdlV PDict.sq
  rw [EDict.den_add v φ _ _ (EDict.wf_smul _ _ (PDict.wf_ip _ _)), EDict.den_smul, EDict.den_smul,
    EDict.den_sub v φ _ _ (nodup_singleE _ _), den_ip, PDict.den_sub v x _ (nodup_single 0 1),
    real_inner_self_eq_norm_sq, denE_single, denE_single, denP_single]
  push_cast; ring

theorem wf_gdlV (L : Coef) (k fk : Nat) (x : PDict) : (Dict.keys (gdlV L k fk x)).Nodup := by
  unfold gdlV
  exact EDict.wf_add _ _ (EDict.wf_smul _ _ (EDict.wf_sub _ _ (nodup_singleE _ _)))

theorem gdl_metric_den (v : Nat → E) (φ : Nat → ℝ) (L γ : Coef) (n : Nat) :
    EDict.den v φ (gdlMetric L γ n) =
      ((n + 1 : ℕ) : ℝ) * (φ 2 - φ 0) + ((L : ℚ) : ℝ) / 2 * ‖(v 1 - ((γ : ℚ) : ℝ) • v 2) - v 0‖ ^ 2
        - ((n : ℝ) * (φ 1 - φ 0) + ((L : ℚ) : ℝ) / 2 * ‖v 1 - v 0‖ ^ 2) := by
  unfold gdlMetric
  rw [EDict.den_sub v φ _ _ (wf_gdlV L n 1 _), gdlV_den, gdlV_den]
  unfold gdlNext
  rw [den_stepPt, denP_single]

/-- **the potential decreases along every real run, for the script's own metric**: `f` convex and `L`-smooth (first-order
form) with gradient `g`, step `γ = 1/L`; under every interpretation consistent with `f` the metric `V_{n+1} − V_n` of the
script is `≤ 0`, the value the example states — for every `n`, every `L > 0`, every point taken as `x⋆` -/
theorem gdl1_example_no_run_beats_bound (f : E → ℝ) (g : E → E) (L γ : Coef) (hL : 0 < ((L : ℚ) : ℝ))
    (hγ : ((γ : ℚ) : ℝ) * ((L : ℚ) : ℝ) = 1)
    (hconv : ∀ x y, f y ≥ f x + ⟪g x, y - x⟫)
    (hsm : ∀ x y, f y ≤ f x + ⟪g x, y - x⟫ + ((L : ℚ) : ℝ) / 2 * ‖y - x‖ ^ 2)
    (v : Nat → E) (φ : Nat → ℝ) (n : Nat)
    (hg : v 2 = g (v 1)) (h0 : φ 0 = f (v 0)) (h1 : φ 1 = f (v 1)) (h2 : φ 2 = f (v 1 - ((γ : ℚ) : ℝ) • v 2)) :
    ∀ m ∈ (gdl1 L γ n).metrics, EDict.den v φ m ≤ 0 := by
  intro m hm
  have : m = gdlMetric L γ n := by simpa [gdl1] using hm
  subst this
  rw [gdl_metric_den, h0, h1, h2]
  set Lr := ((L : ℚ) : ℝ) with hLr
  set γr := ((γ : ℚ) : ℝ) with hγr
  set x := v 1; set gx := v 2; set xs := v 0
  have hγpos : 0 < γr := by
    by_contra hneg
    have : γr * Lr ≤ 0 := mul_nonpos_of_nonpos_of_nonneg (not_lt.mp hneg) hL.le
    linarith
  -- descent lemma and convexity at `x`
  have hd := hsm x (x - γr • gx)
  have hc := hconv x xs
  rw [← hg] at hd hc
  have e1 : (x - γr • gx) - x = -(γr • gx) := by abel
  rw [e1, inner_neg_right, norm_neg, real_inner_smul_right, norm_smul, mul_pow, Real.norm_eq_abs, sq_abs,
    real_inner_self_eq_norm_sq] at hd
  -- the distance term
  have e2 : (x - γr • gx) - xs = (x - xs) - γr • gx := by abel
  have hdist : ‖(x - γr • gx) - xs‖ ^ 2 = ‖x - xs‖ ^ 2 - 2 * γr * ⟪gx, x - xs⟫ + γr ^ 2 * ‖gx‖ ^ 2 := by
    rw [e2, @norm_sub_sq_real, real_inner_smul_right, norm_smul, mul_pow, Real.norm_eq_abs, sq_abs, real_inner_comm]
    ring
  have e3 : ⟪gx, xs - x⟫ = -⟪gx, x - xs⟫ := by rw [← neg_sub x xs, inner_neg_right]
  rw [e3] at hc
  rw [hdist]
  have hn : (0 : ℝ) ≤ (n : ℝ) := Nat.cast_nonneg n
  have hg2 : 0 ≤ ‖gx‖ ^ 2 := sq_nonneg _
  have hγL : γr = 1 / Lr := by field_simp; linarith
  push_cast
  -- f(x⁺) ≤ f(x) − ‖g‖²/(2L);  f(x) − f⋆ ≤ ⟨g, x − x⋆⟩
  have hd' : f (x - γr • gx) ≤ f x - γr / 2 * ‖gx‖ ^ 2 := by
    have : Lr / 2 * (γr ^ 2 * ‖gx‖ ^ 2) = γr / 2 * ‖gx‖ ^ 2 := by
      have : Lr * γr ^ 2 = γr := by rw [hγL]; field_simp
      nlinarith
    nlinarith
  have hLγ2 : Lr / 2 * (γr ^ 2 * ‖gx‖ ^ 2) = γr / 2 * ‖gx‖ ^ 2 := by
    have : Lr * γr ^ 2 = γr := by rw [hγL]; field_simp
    nlinarith
  have hLγ : Lr / 2 * (2 * γr * ⟪gx, x - xs⟫) = ⟪gx, x - xs⟫ := by
    have : Lr * γr = 1 := by linarith
    nlinarith
  nlinarith [mul_nonneg hn (mul_nonneg hγpos.le hg2), hd', hc, hLγ, hLγ2]

/-! ## gradient flow of a convex function (continuous_time_models.gradient_flow_convex) -/

theorem gfc_metric_den (v : Nat → E) (φ : Nat → ℝ) (t : Coef) :
    EDict.den v φ (gfcMetric t) =
      (φ 1 - φ 0) + ⟪((t : ℚ) : ℝ) • v 2, -(v 2)⟫ + ⟪v 1 - v 0, -(v 2)⟫ := by
  unfold gfcMetric
  rw [EDict.den_add v φ _ _ (PDict.wf_ip _ _), EDict.den_add v φ _ _ (PDict.wf_ip _ _),
    EDict.den_sub v φ _ _ (nodup_singleE _ _), den_ip, den_ip, PDict.den_smul, PDict.den_neg,
    PDict.den_sub v _ _ (nodup_single 0 1), denE_single, denE_single, denP_single, denP_single, denP_single]

/-- **the Lyapunov function does not increase along the flow, for the script's own metric**: `f` convex with subgradient
selection `g`, `t ≥ 0`; under every interpretation consistent with `f` the script's metric
`d/dt [t (f(x_t) − f⋆) + ½‖x_t − x⋆‖²]` is `≤ 0`, the value the example states -/
theorem gfc_example_no_run_beats_bound (f : E → ℝ) (g : E → E) (t : Coef) (ht : 0 ≤ ((t : ℚ) : ℝ))
    (hconv : ∀ x y, f y ≥ f x + ⟪g x, y - x⟫)
    (v : Nat → E) (φ : Nat → ℝ) (hg : v 2 = g (v 1)) (h1 : φ 1 = f (v 1)) (h0 : φ 0 = f (v 0)) :
    ∀ m ∈ (gfc t).metrics, EDict.den v φ m ≤ 0 := by
  intro m hm
  have : m = gfcMetric t := by simpa [gfc] using hm
  subst this
  rw [gfc_metric_den, h1, h0, inner_neg_right, inner_neg_right, real_inner_smul_left, real_inner_self_eq_norm_sq]
  have hc := hconv (v 1) (v 0)
  rw [← hg] at hc
  have e : ⟪v 2, v 0 - v 1⟫ = -⟪v 1 - v 0, v 2⟫ := by rw [← neg_sub (v 1) (v 0), inner_neg_right, real_inner_comm]
  rw [e] at hc
  nlinarith [mul_nonneg ht (sq_nonneg ‖v 2‖)]

/-! ## gradient descent, second potential function (potential_functions.gradient_descent_lyapunov_2) -/

theorem gdl2V_den (v : Nat → E) (φ : Nat → ℝ) (L c1 c2 : Coef) (fk : Nat) (g x : PDict) :
    EDict.den v φ (gdl2V L c1 c2 fk g x) =
      ((c1 : ℚ) : ℝ) * (φ fk - φ 0) + ((c2 : ℚ) : ℝ) * ‖PDict.den v g‖ ^ 2
        + ((L : ℚ) : ℝ) * ((L : ℚ) : ℝ) * ‖PDict.den v x - v 0‖ ^ 2 := by
  unfold gdl2V PDict.sq
  rw [EDict.den_add v φ _ _ (EDict.wf_smul _ _ (PDict.wf_ip _ _)),
    EDict.den_add v φ _ _ (EDict.wf_smul _ _ (PDict.wf_ip _ _)), EDict.den_smul, EDict.den_smul, EDict.den_smul,
    EDict.den_sub v φ _ _ (nodup_singleE _ _), den_ip, den_ip, PDict.den_sub v x _ (nodup_single 0 1),
    real_inner_self_eq_norm_sq, real_inner_self_eq_norm_sq, denE_single, denE_single, denP_single]
  push_cast; ring

theorem wf_gdl2V (L c1 c2 : Coef) (fk : Nat) (g x : PDict) : (Dict.keys (gdl2V L c1 c2 fk g x)).Nodup := by
  unfold gdl2V
  exact EDict.wf_add _ _ (EDict.wf_add _ _ (EDict.wf_smul _ _ (EDict.wf_sub _ _ (nodup_singleE _ _))))

/-- **the second potential decreases along every real run, for the script's own metric**: `f` convex and `L`-smooth with
gradient `g`, `g(x⋆) = 0`, step `γ = 1/L`; under every interpretation consistent with `f` the metric `V_{n+1} − V_n`,
`V_k = (2k+1) L (f_k − f⋆) + k(k+2) ‖g_k‖² + L² ‖x_k − x⋆‖²`, is `≤ 0`.  The proof is the certificate PEPit finds numerically:
`−(V_{n+1} − V_n) = L (2 S(⋆,n) + 2(n+1)(n+3) S(n,n+1) + (2n²+6n+3) S(n+1,n)) + (n²+3n+3/2) ‖g_n − g_{n+1}‖²` with `S(i,j) ≥ 0` the
smooth-convex interpolation inequalities (`sc_interp`) -/
theorem gdl2_example_no_run_beats_bound (f : E → ℝ) (g : E → E) (L γ : Coef) (hL : 0 < ((L : ℚ) : ℝ))
    (hγ : ((γ : ℚ) : ℝ) * ((L : ℚ) : ℝ) = 1)
    (hconv : ∀ x y, f y ≥ f x + ⟪g x, y - x⟫)
    (hsm : ∀ x y, f y ≤ f x + ⟪g x, y - x⟫ + ((L : ℚ) : ℝ) / 2 * ‖y - x‖ ^ 2)
    (v : Nat → E) (φ : Nat → ℝ) (n : Nat)
    (hstar : g (v 0) = 0) (hg : v 2 = g (v 1)) (hg' : v 3 = g (v 1 - ((γ : ℚ) : ℝ) • v 2))
    (h0 : φ 0 = f (v 0)) (h1 : φ 1 = f (v 1)) (h2 : φ 2 = f (v 1 - ((γ : ℚ) : ℝ) • v 2)) :
    ∀ m ∈ (gdl2 L γ n).metrics, EDict.den v φ m ≤ 0 := by
  intro m hm
  have : m = gdl2Metric L γ n := by simpa [gdl2] using hm
  subst this
  unfold gdl2Metric
  rw [EDict.den_sub v φ _ _ (wf_gdl2V _ _ _ _ _ _), gdl2V_den, gdl2V_den]
  unfold gdlNext
  rw [den_stepPt, denP_single, denP_single, denP_single, h0, h1, h2]
  set Lr := ((L : ℚ) : ℝ) with hLr
  set γr := ((γ : ℚ) : ℝ) with hγr
  set x := v 1; set gx := v 2; set xs := v 0; set hx := v 3
  set xp := x - γr • gx with hxp
  -- the three interpolation inequalities PEPit's certificate uses
  have S01 := sc_interp f g Lr hL hconv hsm xs x
  have S12 := sc_interp f g Lr hL hconv hsm x xp
  have S21 := sc_interp f g Lr hL hconv hsm xp x
  rw [hstar, ← hg] at S01
  rw [← hg, ← hg'] at S12
  rw [← hg, ← hg'] at S21
  -- atoms
  have e01 : ⟪gx, xs - x⟫ = -⟪gx, x - xs⟫ := by rw [← neg_sub x xs, inner_neg_right]
  have n01 : ‖(0 : E) - gx‖ ^ 2 = ‖gx‖ ^ 2 := by rw [zero_sub, norm_neg]
  have e12 : ⟪hx, x - xp⟫ = γr * ⟪gx, hx⟫ := by
    rw [hxp, sub_sub_cancel, real_inner_smul_right, real_inner_comm]
  have e21 : ⟪gx, xp - x⟫ = -(γr * ‖gx‖ ^ 2) := by
    rw [hxp, sub_sub_cancel_left, inner_neg_right, real_inner_smul_right, real_inner_self_eq_norm_sq]
  have n12 : ‖gx - hx‖ ^ 2 = ‖gx‖ ^ 2 - 2 * ⟪gx, hx⟫ + ‖hx‖ ^ 2 := by rw [@norm_sub_sq_real]
  have n21 : ‖hx - gx‖ ^ 2 = ‖gx‖ ^ 2 - 2 * ⟪gx, hx⟫ + ‖hx‖ ^ 2 := by rw [@norm_sub_sq_real, real_inner_comm]; ring
  have e2 : xp - xs = (x - xs) - γr • gx := by rw [hxp]; abel
  have hdist : ‖xp - xs‖ ^ 2 = ‖x - xs‖ ^ 2 - 2 * γr * ⟪gx, x - xs⟫ + γr ^ 2 * ‖gx‖ ^ 2 := by
    rw [e2, @norm_sub_sq_real, real_inner_smul_right, norm_smul, mul_pow, Real.norm_eq_abs, sq_abs, real_inner_comm]
    ring
  rw [e01, n01] at S01
  rw [e12, n12] at S12
  rw [e21, n21] at S21
  rw [hdist]
  have hγL : γr = 1 / Lr := by field_simp; linarith
  have hinv : 1 / (2 * Lr) = γr / 2 := by rw [hγL]; field_simp
  rw [hinv] at S01 S12 S21
  push_cast
  set nn : ℝ := (n : ℝ) with hnn
  have hn : 0 ≤ nn := Nat.cast_nonneg n
  -- name the atoms
  set aa := ‖x - xs‖ ^ 2; set ag := ⟪gx, x - xs⟫; set gg := ‖gx‖ ^ 2; set gh := ⟪gx, hx⟫; set hh := ‖hx‖ ^ 2
  set F0 := f xs; set F1 := f x; set F2 := f xp
  have hgh : 0 ≤ gg - 2 * gh + hh := by rw [← n12]; exact sq_nonneg _
  have P1 := mul_nonneg (mul_nonneg (by norm_num : (0 : ℝ) ≤ 2) hL.le) (sub_nonneg.mpr S01)
  have P2 := mul_nonneg (mul_nonneg (by positivity : (0 : ℝ) ≤ 2 * (nn + 1) * (nn + 3)) hL.le) (sub_nonneg.mpr S12)
  have P3 := mul_nonneg (mul_nonneg (by positivity : (0 : ℝ) ≤ 2 * nn ^ 2 + 6 * nn + 3) hL.le) (sub_nonneg.mpr S21)
  have P4 := mul_nonneg (by positivity : (0 : ℝ) ≤ nn ^ 2 + 3 * nn + 3 / 2) hgh
  have hLγ : Lr * γr = 1 := by linarith
  -- −(V_{n+1} − V_n) = P1 + P2 + P3 + P4 once `L γ = 1` is used
  have key : ((2 * nn + 3) * Lr * (F2 - F0) + (nn + 1) * (nn + 3) * hh + Lr * Lr * (aa - 2 * γr * ag + γr ^ 2 * gg))
      - ((2 * nn + 1) * Lr * (F1 - F0) + nn * (nn + 2) * gg + Lr * Lr * aa)
      + (2 * Lr * (F0 - F1 - (-ag + γr / 2 * gg))
        + 2 * (nn + 1) * (nn + 3) * Lr * (F1 - F2 - (γr * gh + γr / 2 * (gg - 2 * gh + hh)))
        + (2 * nn ^ 2 + 6 * nn + 3) * Lr * (F2 - F1 - (-(γr * gg) + γr / 2 * (gg - 2 * gh + hh)))
        + (nn ^ 2 + 3 * nn + 3 / 2) * (gg - 2 * gh + hh)) = 0 := by
    rw [hγL]; field_simp; ring
  linarith [P1, P2, P3, P4, key]

/-! ## accelerated gradient flow of a convex function (continuous_time_models.accelerated_gradient_flow_convex) -/

theorem agfc_metric_den (v : Nat → E) (φ : Nat → ℝ) (t : Coef) (ht : ((t : ℚ) : ℝ) ≠ 0) :
    EDict.den v φ (agfcMetric t) =
      2 * ((t : ℚ) : ℝ) * (φ 1 - φ 0) - 2 * ((t : ℚ) : ℝ) * ⟪v 2, v 1 - v 0⟫ := by
  unfold agfcMetric agfcXdd
  rw [EDict.den_add v φ _ _ (PDict.wf_ip _ _), EDict.den_add v φ _ _ (PDict.wf_ip _ _), EDict.den_smul,
    EDict.den_sub v φ _ _ (nodup_singleE _ _), den_ip, den_ip, PDict.den_smul, PDict.den_smul,
    PDict.den_add v _ _ (PDict.wf_smul _ _ (nodup_single 3 1)), PDict.den_sub v _ _ (nodup_single 0 1), PDict.den_smul,
    PDict.den_add v _ _ (PDict.wf_smul _ _ (PDict.wf_sub _ _ (PDict.wf_smul _ _ (nodup_single 3 1)))), PDict.den_smul,
    PDict.den_smul, PDict.den_sub v _ _ (nodup_single 2 1), PDict.den_smul,
    denE_single, denE_single, denP_single, denP_single, denP_single, denP_single]
  simp only [inner_add_left, inner_add_right, inner_sub_left, inner_sub_right, real_inner_smul_left, real_inner_smul_right,
    real_inner_comm (v 3) (v 2), real_inner_comm (v 1) (v 2), real_inner_comm (v 0) (v 2), real_inner_comm (v 3) (v 1),
    real_inner_comm (v 3) (v 0)]
  push_cast
  field_simp
  ring

/-- **the Lyapunov function of the accelerated flow does not increase, for the script's own metric**: `f` convex, `t > 0`;
under every interpretation consistent with `f` (whatever the velocity `ẋ_t`) the script's metric is
`2t (f(x_t) − f⋆ − ⟨∇f(x_t), x_t − x⋆⟩) ≤ 0`, the value the example states -/
theorem agfc_example_no_run_beats_bound (f : E → ℝ) (g : E → E) (t : Coef) (ht : 0 < ((t : ℚ) : ℝ))
    (hconv : ∀ x y, f y ≥ f x + ⟪g x, y - x⟫)
    (v : Nat → E) (φ : Nat → ℝ) (hg : v 2 = g (v 1)) (h1 : φ 1 = f (v 1)) (h0 : φ 0 = f (v 0)) :
    ∀ m ∈ (agfc t).metrics, EDict.den v φ m ≤ 0 := by
  intro m hm
  have : m = agfcMetric t := by simpa [agfc] using hm
  subst this
  rw [agfc_metric_den v φ t ht.ne', h1, h0]
  have hc := hconv (v 1) (v 0)
  rw [← hg] at hc
  have e : ⟪v 2, v 0 - v 1⟫ = -⟪v 2, v 1 - v 0⟫ := by rw [← neg_sub (v 1) (v 0), inner_neg_right]
  rw [e] at hc
  nlinarith

/-! ## Polyak step, distance to the optimum (adaptive_methods.polyak_steps_in_distance_to_optimum) -/

theorem polyak_init_den (v : Nat → E) (φ : Nat → ℝ) : EDict.den v φ polyakInit = ‖v 1 - v 0‖ ^ 2 - 1 := by
  unfold polyakInit EDict.subConst PDict.sq
  rw [EDict.den_addConst, den_ip, PDict.den_sub v _ _ (nodup_single 0 1), real_inner_self_eq_norm_sq, denP_single, denP_single]
  push_cast; ring

theorem polyak_step_den (v : Nat → E) (φ : Nat → ℝ) (γ : Coef) :
    EDict.den v φ (polyakStep γ) = ((γ : ℚ) : ℝ) * ‖v 2‖ ^ 2 - 2 * (φ 1 - φ 0) := by
  unfold polyakStep PDict.sq
  rw [EDict.den_sub v φ _ _ (EDict.wf_smul _ _ (EDict.wf_sub _ _ (nodup_singleE _ _))), EDict.den_smul, EDict.den_smul,
    EDict.den_sub v φ _ _ (nodup_singleE _ _), den_ip, real_inner_self_eq_norm_sq, denE_single, denE_single, denP_single]
  push_cast; ring

theorem polyak_metric_den (v : Nat → E) (φ : Nat → ℝ) (γ : Coef) :
    EDict.den v φ (polyakMetric γ) = ‖(v 1 - ((γ : ℚ) : ℝ) • v 2) - v 0‖ ^ 2 := by
  unfold polyakMetric PDict.sq gdlNext
  rw [den_ip, PDict.den_sub v _ _ (nodup_single 0 1), den_stepPt, real_inner_self_eq_norm_sq, denP_single, denP_single]

/-- **the tight rate of one Polyak step is valid for the script's own model**: `f` `μ`-strongly convex and `L`-smooth
(`0 < μ < L`) with gradient `g`, `g(x⋆) = 0`, `1/L ≤ γ ≤ 1/μ`; under every interpretation consistent with `f` that satisfies the
script's two constraints (`‖x0 − x⋆‖² ≤ 1`, and the Polyak rule `γ ‖∇f(x0)‖² = 2 (f(x0) − f⋆)`), the script's metric `‖x1 − x⋆‖²`
is at most `(γL − 1)(1 − γμ) / (γ(L + μ) − 1)`, the closed form the example returns.  The proof is the dual certificate in closed
form: multipliers `τ` on the initial condition, `γ(2 − γ(L+μ))/d` on the Polyak rule, `2γ(γL − 1)/d` and `2γ(1 − γμ)/d` on the two
interpolation inequalities between `x⋆` and `x0` (`d = γ(L + μ) − 1`), residual zero -/
theorem polyakd_example_no_run_beats_bound (f : E → ℝ) (g : E → E) (μ L : ℝ) (γ : Coef) (hμ : 0 < μ) (hμL : μ < L)
    (hγ1 : 1 / L ≤ ((γ : ℚ) : ℝ)) (hγ2 : ((γ : ℚ) : ℝ) ≤ 1 / μ)
    (hconv : ∀ x y, f y ≥ f x + ⟪g x, y - x⟫ + μ / 2 * ‖y - x‖ ^ 2)
    (hsm : ∀ x y, f y ≤ f x + ⟪g x, y - x⟫ + L / 2 * ‖y - x‖ ^ 2)
    (v : Nat → E) (φ : Nat → ℝ) (hstar : g (v 0) = 0) (hg : v 2 = g (v 1)) (h0 : φ 0 = f (v 0)) (h1 : φ 1 = f (v 1))
    (hinit : EDict.den v φ polyakInit ≤ 0) (hstep : EDict.den v φ (polyakStep γ) = 0) :
    EDict.den v φ (polyakMetric γ) ≤
      (((γ : ℚ) : ℝ) * L - 1) * (1 - ((γ : ℚ) : ℝ) * μ) / (((γ : ℚ) : ℝ) * (L + μ) - 1) := by
  rw [polyak_init_den] at hinit
  rw [polyak_step_den, h0, h1] at hstep
  rw [polyak_metric_den]
  set γr := ((γ : ℚ) : ℝ) with hγr
  set x := v 1; set gx := v 2; set xs := v 0
  have hL : 0 < L := lt_trans hμ hμL
  have hLμ : 0 < L - μ := by linarith
  -- the two interpolation inequalities between `x⋆` and `x0`
  have S01 := ssc_interp f g μ L hμ.le hμL hconv hsm xs x
  have S10 := ssc_interp f g μ L hμ.le hμL hconv hsm x xs
  rw [hstar, ← hg] at S01 S10
  -- atoms
  set aa := ‖x - xs‖ ^ 2 with haa
  set ag := ⟪gx, x - xs⟫ with hag
  set gg := ‖gx‖ ^ 2 with hgg
  have e01 : ⟪gx, xs - x⟫ = -ag := by rw [hag, ← neg_sub x xs, inner_neg_right]
  have n0 : ‖(0 : E) - gx‖ ^ 2 = gg := by rw [zero_sub, norm_neg]
  have n1 : ‖gx - 0‖ ^ 2 = gg := by rw [sub_zero]
  have q01 : ‖xs - x - (1 / L) • ((0 : E) - gx)‖ ^ 2 = aa - 2 / L * ag + 1 / L ^ 2 * gg := by
    have : xs - x - (1 / L) • ((0 : E) - gx) = -((x - xs) - (1 / L) • gx) := by rw [zero_sub, smul_neg]; abel
    rw [this, norm_neg, @norm_sub_sq_real, real_inner_smul_right, norm_smul, mul_pow, Real.norm_eq_abs, sq_abs, real_inner_comm]
    ring
  have q10 : ‖x - xs - (1 / L) • (gx - 0)‖ ^ 2 = aa - 2 / L * ag + 1 / L ^ 2 * gg := by
    rw [sub_zero, @norm_sub_sq_real, real_inner_smul_right, norm_smul, mul_pow, Real.norm_eq_abs, sq_abs, real_inner_comm]
    ring
  rw [e01, n0, q01] at S01
  rw [inner_zero_left, n1, q10] at S10
  have hdist : ‖(x - γr • gx) - xs‖ ^ 2 = aa - 2 * γr * ag + γr ^ 2 * gg := by
    have e2 : (x - γr • gx) - xs = (x - xs) - γr • gx := by abel
    rw [e2, @norm_sub_sq_real, real_inner_smul_right, norm_smul, mul_pow, Real.norm_eq_abs, sq_abs, real_inner_comm]
    ring
  rw [hdist]
  set D := f x - f xs with hD
  -- signs
  have hγpos : 0 < γr := lt_of_lt_of_le (by positivity) hγ1
  have hγL : 1 ≤ γr * L := by
    have := mul_le_mul_of_nonneg_right hγ1 hL.le
    rwa [one_div, inv_mul_cancel₀ hL.ne'] at this
  have hγμ : γr * μ ≤ 1 := by
    have := mul_le_mul_of_nonneg_right hγ2 hμ.le
    rwa [one_div, inv_mul_cancel₀ hμ.ne'] at this
  have hd : 0 < γr * (L + μ) - 1 := by nlinarith
  have hone : (1 - μ / L) ≠ 0 := by
    have : μ / L < 1 := (div_lt_one hL).mpr hμL
    linarith
  -- the certificate
  have hS01 : 0 ≤ -D + ag - (1 / (2 * L) * gg + μ / (2 * (1 - μ / L)) * (aa - 2 / L * ag + 1 / L ^ 2 * gg)) := by
    rw [hD]; linarith
  have hS10 : 0 ≤ D - (1 / (2 * L) * gg + μ / (2 * (1 - μ / L)) * (aa - 2 / L * ag + 1 / L ^ 2 * gg)) := by
    rw [hD]; linarith
  have hpol : γr * gg - 2 * D = 0 := by rw [hD]; linarith
  have hτ : 0 ≤ (γr * L - 1) * (1 - γr * μ) / (γr * (L + μ) - 1) :=
    div_nonneg (mul_nonneg (by linarith) (by linarith)) hd.le
  have P0 := mul_nonneg hτ (by linarith : (0 : ℝ) ≤ 1 - aa)
  have P1 := mul_nonneg (div_nonneg (mul_nonneg (mul_nonneg (by norm_num : (0 : ℝ) ≤ 2) hγpos.le) (by linarith : (0 : ℝ) ≤ γr * L - 1)) hd.le) hS01
  have P2 := mul_nonneg (div_nonneg (mul_nonneg (mul_nonneg (by norm_num : (0 : ℝ) ≤ 2) hγpos.le) (by linarith : (0 : ℝ) ≤ 1 - γr * μ)) hd.le) hS10
  have key : (γr * L - 1) * (1 - γr * μ) / (γr * (L + μ) - 1) - (aa - 2 * γr * ag + γr ^ 2 * gg)
      = (γr * L - 1) * (1 - γr * μ) / (γr * (L + μ) - 1) * (1 - aa)
        + γr * (2 - γr * (L + μ)) / (γr * (L + μ) - 1) * (γr * gg - 2 * D)
        + 2 * γr * (γr * L - 1) / (γr * (L + μ) - 1)
            * (-D + ag - (1 / (2 * L) * gg + μ / (2 * (1 - μ / L)) * (aa - 2 / L * ag + 1 / L ^ 2 * gg)))
        + 2 * γr * (1 - γr * μ) / (γr * (L + μ) - 1)
            * (D - (1 / (2 * L) * gg + μ / (2 * (1 - μ / L)) * (aa - 2 / L * ag + 1 / L ^ 2 * gg))) := by
    have hLne : L ≠ 0 := hL.ne'
    have hdne : γr * (L + μ) - 1 ≠ 0 := hd.ne'
    have hLμne : L - μ ≠ 0 := hLμ.ne'
    have h1' : 1 - μ / L = (L - μ) / L := by field_simp
    rw [h1']
    field_simp
    ring
  rw [hpol, mul_zero, add_zero] at key
  linarith [P0, P1, P2, key]

/-! ## Polyak step, function values (adaptive_methods.polyak_steps_in_function_value) -/

theorem polyakf_init_den (v : Nat → E) (φ : Nat → ℝ) : EDict.den v φ polyakfInit = φ 1 - φ 0 - 1 := by
  unfold polyakfInit EDict.subConst
  rw [EDict.den_addConst, EDict.den_sub v φ _ _ (nodup_singleE _ _), denE_single, denE_single]
  push_cast; ring

theorem polyakf_step_den (v : Nat → E) (φ : Nat → ℝ) (L γ : Coef) :
    EDict.den v φ (polyakfStep L γ) =
      ‖v 2‖ ^ 2 - 2 * ((L : ℚ) : ℝ) * (2 - ((L : ℚ) : ℝ) * ((γ : ℚ) : ℝ)) * (φ 1 - φ 0) := by
  unfold polyakfStep PDict.sq
  rw [EDict.den_sub v φ _ _ (EDict.wf_smul _ _ (EDict.wf_sub _ _ (nodup_singleE _ _))), EDict.den_smul,
    EDict.den_sub v φ _ _ (nodup_singleE _ _), den_ip, real_inner_self_eq_norm_sq, denE_single, denE_single, denP_single]
  push_cast; ring

theorem polyakf_metric_den (v : Nat → E) (φ : Nat → ℝ) : EDict.den v φ polyakfMetric = φ 2 - φ 0 := by
  unfold polyakfMetric
  rw [EDict.den_sub v φ _ _ (nodup_singleE _ _), denE_single, denE_single]

/-- the closed form of the example is nonnegative on its range: `q(u) = u(3 − u(1 + m)) − 1 ≥ 0` for `1 ≤ u ≤ 2 − m`, `0 ≤ m ≤ 1`
(`u = γL`, `m = μ/L`) -/
theorem polyakf_rate_nonneg (u m : ℝ) (hm0 : 0 ≤ m) (hm1 : m ≤ 1) (hu1 : 1 ≤ u) (hu2 : u ≤ 2 - m) :
    0 ≤ u * (3 - u * (1 + m)) - 1 := by
  have h1 : 0 ≤ (u - 1) * (2 - m - u) := mul_nonneg (by linarith) (by linarith)
  have h2 : 0 ≤ (1 - m) ^ 3 := pow_nonneg (by linarith) 3
  have h3 : 0 ≤ m * (2 - m) * (2 - m - u) := mul_nonneg (mul_nonneg hm0 (by linarith)) (by linarith)
  nlinarith [mul_nonneg hm0 h1, h1, h2, h3]

/-- `γμ ≤ 1` on the range of the example (`u = γL ≤ 2 − m`, `m = μ/L`) -/
theorem polyakf_um_le_one (u m : ℝ) (hm0 : 0 ≤ m) (hu2 : u ≤ 2 - m) : u * m ≤ 1 := by
  nlinarith [mul_le_mul_of_nonneg_right hu2 hm0, sq_nonneg (1 - m)]

/-- the arithmetic core of the certificate (reals only): the closed form minus the metric is the nonnegative combination -/
theorem polyakf_core (Lr μ γr aa ag0 ag1 g00 g01 g11 D0 D1 : ℝ) (hL : 0 < Lr) (hμ : 0 < μ) (hLμ : 0 < Lr - μ)
    (hγpos : 0 < γr) (hγL : 1 ≤ γr * Lr) (hγμ : γr * μ ≤ 1)
    (hτ : 0 ≤ (γr * Lr - 1) * (Lr * γr * (3 - γr * (Lr + μ)) - 1))
    (hS01 : 0 ≤ -D0 + ag0 - (1 / (2 * Lr) * g00 + μ / (2 * (1 - μ / Lr)) * (aa - 2 / Lr * ag0 + 1 / Lr ^ 2 * g00)))
    (hS02 : 0 ≤ -D1 - (-ag1 + γr * g01) - (1 / (2 * Lr) * g11 + μ / (2 * (1 - μ / Lr)) *
      (aa - 2 * γr * ag0 + γr ^ 2 * g00 - 2 / Lr * (ag1 - γr * g01) + 1 / Lr ^ 2 * g11)))
    (hS12 : 0 ≤ (D0 - D1) - γr * g01 - (1 / (2 * Lr) * (g00 - 2 * g01 + g11) + μ / (2 * (1 - μ / Lr)) *
      (γr ^ 2 * g00 - 2 * γr / Lr * (g00 - g01) + 1 / Lr ^ 2 * (g00 - 2 * g01 + g11))))
    (hpol : g00 - 2 * Lr * (2 - Lr * γr) * D0 = 0) (hD0le : D0 ≤ 1)
    (hres : 0 ≤ g11 + (Lr * γr * μ) ^ 2 * aa + (γr * (Lr + μ) - 1) ^ 2 * g00 - 2 * (Lr * γr * μ) * ag1
        + 2 * (γr * (Lr + μ) - 1) * g01 - 2 * (Lr * γr * μ) * (γr * (Lr + μ) - 1) * ag0) :
    D1 ≤ (γr * Lr - 1) * (Lr * γr * (3 - γr * (Lr + μ)) - 1) := by
  have P0 := mul_nonneg hτ (by linarith : (0 : ℝ) ≤ 1 - D0)
  have P1 := mul_nonneg (mul_nonneg (mul_nonneg hμ.le hγpos.le) (by linarith : (0 : ℝ) ≤ γr * Lr - 1)) hS01
  have P2 := mul_nonneg (mul_nonneg hγpos.le hμ.le) hS02
  have P3 := mul_nonneg (by linarith : (0 : ℝ) ≤ 1 - γr * μ) hS12
  have P4 := mul_nonneg (by positivity : (0 : ℝ) ≤ 1 / (2 * (Lr - μ))) hres
  have key : (γr * Lr - 1) * (Lr * γr * (3 - γr * (Lr + μ)) - 1) - D1
      = (γr * Lr - 1) * (Lr * γr * (3 - γr * (Lr + μ)) - 1) * (1 - D0)
        + (-(γr * (Lr * γr + γr * μ - 2)) / 2) * (g00 - 2 * Lr * (2 - Lr * γr) * D0)
        + μ * γr * (γr * Lr - 1) * (-D0 + ag0 - (1 / (2 * Lr) * g00 + μ / (2 * (1 - μ / Lr)) * (aa - 2 / Lr * ag0 + 1 / Lr ^ 2 * g00)))
        + γr * μ * (-D1 - (-ag1 + γr * g01) - (1 / (2 * Lr) * g11 + μ / (2 * (1 - μ / Lr)) *
            (aa - 2 * γr * ag0 + γr ^ 2 * g00 - 2 / Lr * (ag1 - γr * g01) + 1 / Lr ^ 2 * g11)))
        + (1 - γr * μ) * ((D0 - D1) - γr * g01 - (1 / (2 * Lr) * (g00 - 2 * g01 + g11) + μ / (2 * (1 - μ / Lr)) *
            (γr ^ 2 * g00 - 2 * γr / Lr * (g00 - g01) + 1 / Lr ^ 2 * (g00 - 2 * g01 + g11))))
        + 1 / (2 * (Lr - μ)) * (g11 + (Lr * γr * μ) ^ 2 * aa + (γr * (Lr + μ) - 1) ^ 2 * g00 - 2 * (Lr * γr * μ) * ag1
            + 2 * (γr * (Lr + μ) - 1) * g01 - 2 * (Lr * γr * μ) * (γr * (Lr + μ) - 1) * ag0) := by
    have hLne : Lr ≠ 0 := hL.ne'
    have hLμne : Lr - μ ≠ 0 := hLμ.ne'
    have h1' : 1 - μ / Lr = (Lr - μ) / Lr := by field_simp
    rw [h1']
    field_simp
    ring
  rw [hpol, mul_zero, add_zero] at key
  have hfinal : 0 ≤ (γr * Lr - 1) * (Lr * γr * (3 - γr * (Lr + μ)) - 1) - D1 := by
    rw [key]
    exact add_nonneg (add_nonneg (add_nonneg (add_nonneg P0 P1) P2) P3) P4
  linarith

/-- **the tight rate of one Polyak step in function values is valid for the script's own model**: `f` `μ`-strongly convex and
`L`-smooth (`0 < μ < L`), `g(x⋆) = 0`, `1/L ≤ γ ≤ (2L − μ)/L²`; under every interpretation consistent with `f` that satisfies the
script's two constraints (`f(x0) − f⋆ ≤ 1` and `‖∇f(x0)‖² = 2L(2 − Lγ)(f(x0) − f⋆)`), the script's metric `f(x1) − f⋆` is at most
`(γL − 1)(Lγ(3 − γ(L + μ)) − 1)`, the closed form the example returns.  Certificate: `τ` on the initial condition,
`−γ(γ(L+μ) − 2)/2` on the Polyak rule, `μγ(γL − 1)`, `γμ`, `1 − γμ` on the interpolation inequalities `(⋆,0)`, `(⋆,1)`, `(0,1)`, and the
residual `‖g1 − Lγμ (x0 − x⋆) + (γ(L+μ) − 1) g0‖² / (2(L − μ))` -/
theorem polyakf_example_no_run_beats_bound (f : E → ℝ) (g : E → E) (μ : ℝ) (L γ : Coef) (hμ : 0 < μ)
    (hμL : μ < ((L : ℚ) : ℝ))
    (hγ1 : 1 / ((L : ℚ) : ℝ) ≤ ((γ : ℚ) : ℝ)) (hγ2 : ((γ : ℚ) : ℝ) ≤ (2 * ((L : ℚ) : ℝ) - μ) / ((L : ℚ) : ℝ) ^ 2)
    (hconv : ∀ x y, f y ≥ f x + ⟪g x, y - x⟫ + μ / 2 * ‖y - x‖ ^ 2)
    (hsm : ∀ x y, f y ≤ f x + ⟪g x, y - x⟫ + ((L : ℚ) : ℝ) / 2 * ‖y - x‖ ^ 2)
    (v : Nat → E) (φ : Nat → ℝ) (hstar : g (v 0) = 0) (hg : v 2 = g (v 1)) (hg' : v 3 = g (v 1 - ((γ : ℚ) : ℝ) • v 2))
    (h0 : φ 0 = f (v 0)) (h1 : φ 1 = f (v 1)) (h2 : φ 2 = f (v 1 - ((γ : ℚ) : ℝ) • v 2))
    (hinit : EDict.den v φ polyakfInit ≤ 0) (hstep : EDict.den v φ (polyakfStep L γ) = 0) :
    EDict.den v φ polyakfMetric ≤
      (((γ : ℚ) : ℝ) * ((L : ℚ) : ℝ) - 1) *
        (((L : ℚ) : ℝ) * ((γ : ℚ) : ℝ) * (3 - ((γ : ℚ) : ℝ) * (((L : ℚ) : ℝ) + μ)) - 1) := by
  rw [polyakf_init_den, h0, h1] at hinit
  rw [polyakf_step_den, h0, h1] at hstep
  rw [polyakf_metric_den, h0, h2]
  set Lr := ((L : ℚ) : ℝ) with hLr
  set γr := ((γ : ℚ) : ℝ) with hγr
  set x := v 1; set gx := v 2; set xs := v 0; set hx := v 3
  set xp := x - γr • gx with hxp
  have hL : 0 < Lr := lt_trans hμ hμL
  have hLμ : 0 < Lr - μ := by linarith
  have S01 := ssc_interp f g μ Lr hμ.le hμL hconv hsm xs x
  have S02 := ssc_interp f g μ Lr hμ.le hμL hconv hsm xs xp
  have S12 := ssc_interp f g μ Lr hμ.le hμL hconv hsm x xp
  rw [hstar, ← hg] at S01
  rw [hstar, ← hg'] at S02
  rw [← hg, ← hg'] at S12
  -- atoms: a = x − x⋆
  set aa := ‖x - xs‖ ^ 2 with haa
  set ag0 := ⟪gx, x - xs⟫ with hag0
  set ag1 := ⟪hx, x - xs⟫ with hag1
  set g00 := ‖gx‖ ^ 2 with hg00
  set g01 := ⟪gx, hx⟫ with hg01
  set g11 := ‖hx‖ ^ 2 with hg11
  -- pair (⋆, 0)
  have e01 : ⟪gx, xs - x⟫ = -ag0 := by rw [hag0, ← neg_sub x xs, inner_neg_right]
  have n01 : ‖(0 : E) - gx‖ ^ 2 = g00 := by rw [zero_sub, norm_neg]
  have q01 : ‖xs - x - (1 / Lr) • ((0 : E) - gx)‖ ^ 2 = aa - 2 / Lr * ag0 + 1 / Lr ^ 2 * g00 := by
    have : xs - x - (1 / Lr) • ((0 : E) - gx) = -((x - xs) - (1 / Lr) • gx) := by rw [zero_sub, smul_neg]; abel
    rw [this, norm_neg, @norm_sub_sq_real, real_inner_smul_right, norm_smul, mul_pow, Real.norm_eq_abs, sq_abs, real_inner_comm]
    ring
  -- pair (⋆, 1): x⁺ − x⋆ = a − γ g0
  have e02 : ⟪hx, xs - xp⟫ = -ag1 + γr * g01 := by
    have : xs - xp = -(x - xs) + γr • gx := by rw [hxp]; abel
    rw [this, inner_add_right, inner_neg_right, real_inner_smul_right, hag1, hg01, real_inner_comm gx hx]
  have n02 : ‖(0 : E) - hx‖ ^ 2 = g11 := by rw [zero_sub, norm_neg]
  have hw : ‖(x - xs) - γr • gx‖ ^ 2 = aa - 2 * γr * ag0 + γr ^ 2 * g00 := by
    rw [@norm_sub_sq_real, real_inner_smul_right, norm_smul, mul_pow, Real.norm_eq_abs, sq_abs, real_inner_comm]
    ring
  have hwi : ⟪(x - xs) - γr • gx, hx⟫ = ag1 - γr * g01 := by
    rw [inner_sub_left, real_inner_smul_left, real_inner_comm hx (x - xs)]
  have q02 : ‖xs - xp - (1 / Lr) • ((0 : E) - hx)‖ ^ 2
      = aa - 2 * γr * ag0 + γr ^ 2 * g00 - 2 / Lr * (ag1 - γr * g01) + 1 / Lr ^ 2 * g11 := by
    have : xs - xp - (1 / Lr) • ((0 : E) - hx) = -(((x - xs) - γr • gx) - (1 / Lr) • hx) := by
      rw [hxp, zero_sub, smul_neg]; abel
    rw [this, norm_neg, norm_sub_sq_real ((x - xs) - γr • gx) ((1 / Lr) • hx), real_inner_smul_right, hw, hwi, norm_smul, mul_pow,
      Real.norm_eq_abs, sq_abs]
    ring
  -- pair (0, 1): x − x⁺ = γ g0
  have e12 : ⟪hx, x - xp⟫ = γr * g01 := by
    rw [hxp, sub_sub_cancel, real_inner_smul_right, hg01, real_inner_comm]
  have n12 : ‖gx - hx‖ ^ 2 = g00 - 2 * g01 + g11 := by rw [@norm_sub_sq_real]
  have q12 : ‖x - xp - (1 / Lr) • (gx - hx)‖ ^ 2
      = γr ^ 2 * g00 - 2 * γr / Lr * (g00 - g01) + 1 / Lr ^ 2 * (g00 - 2 * g01 + g11) := by
    have : x - xp - (1 / Lr) • (gx - hx) = γr • gx - (1 / Lr) • (gx - hx) := by rw [hxp, sub_sub_cancel]
    rw [this, @norm_sub_sq_real, real_inner_smul_left, real_inner_smul_right, inner_sub_right, norm_smul, norm_smul, mul_pow,
      mul_pow, Real.norm_eq_abs, Real.norm_eq_abs, sq_abs, sq_abs, real_inner_self_eq_norm_sq, n12]
    ring
  rw [e01, n01, q01] at S01
  rw [e02, n02, q02] at S02
  rw [e12, n12, q12] at S12
  set D0 := f x - f xs with hD0
  set D1 := f xp - f xs with hD1
  -- signs
  have hγpos : 0 < γr := lt_of_lt_of_le (by positivity) hγ1
  have hγL : 1 ≤ γr * Lr := by
    have := mul_le_mul_of_nonneg_right hγ1 hL.le
    rwa [one_div, inv_mul_cancel₀ hL.ne'] at this
  have hγL2 : γr * Lr ≤ 2 - μ / Lr := by
    have := mul_le_mul_of_nonneg_right hγ2 hL.le
    have e : (2 * Lr - μ) / Lr ^ 2 * Lr = 2 - μ / Lr := by field_simp
    rwa [e] at this
  have hm0 : 0 ≤ μ / Lr := div_nonneg hμ.le hL.le
  have hm1 : μ / Lr ≤ 1 := (div_le_one hL).mpr hμL.le
  have hγμ : γr * μ ≤ 1 := by
    have h : γr * μ = (γr * Lr) * (μ / Lr) := by field_simp
    rw [h]; exact polyakf_um_le_one (γr * Lr) (μ / Lr) hm0 hγL2
  have hτ : 0 ≤ (γr * Lr - 1) * (Lr * γr * (3 - γr * (Lr + μ)) - 1) := by
    have hq := polyakf_rate_nonneg (γr * Lr) (μ / Lr) hm0 hm1 hγL hγL2
    have e : γr * Lr * (3 - γr * Lr * (1 + μ / Lr)) - 1 = Lr * γr * (3 - γr * (Lr + μ)) - 1 := by field_simp
    rw [e] at hq
    exact mul_nonneg (by linarith) hq
  -- slacks
  have hS01 : 0 ≤ -D0 + ag0 - (1 / (2 * Lr) * g00 + μ / (2 * (1 - μ / Lr)) * (aa - 2 / Lr * ag0 + 1 / Lr ^ 2 * g00)) := by
    rw [hD0]; linarith
  have hS02 : 0 ≤ -D1 - (-ag1 + γr * g01) - (1 / (2 * Lr) * g11 + μ / (2 * (1 - μ / Lr)) *
      (aa - 2 * γr * ag0 + γr ^ 2 * g00 - 2 / Lr * (ag1 - γr * g01) + 1 / Lr ^ 2 * g11)) := by
    rw [hD1]; linarith
  have hS12 : 0 ≤ (D0 - D1) - γr * g01 - (1 / (2 * Lr) * (g00 - 2 * g01 + g11) + μ / (2 * (1 - μ / Lr)) *
      (γr ^ 2 * g00 - 2 * γr / Lr * (g00 - g01) + 1 / Lr ^ 2 * (g00 - 2 * g01 + g11))) := by
    rw [hD0, hD1]; linarith
  have hpol : g00 - 2 * Lr * (2 - Lr * γr) * D0 = 0 := by rw [hD0]; linarith
  have hD0le : D0 ≤ 1 := by rw [hD0]; linarith
  -- residual: a perfect square
  have hres : 0 ≤ ‖hx - (Lr * γr * μ) • (x - xs) + (γr * (Lr + μ) - 1) • gx‖ ^ 2 := sq_nonneg _
  have hres' : ‖hx - (Lr * γr * μ) • (x - xs) + (γr * (Lr + μ) - 1) • gx‖ ^ 2
      = g11 + (Lr * γr * μ) ^ 2 * aa + (γr * (Lr + μ) - 1) ^ 2 * g00 - 2 * (Lr * γr * μ) * ag1
        + 2 * (γr * (Lr + μ) - 1) * g01 - 2 * (Lr * γr * μ) * (γr * (Lr + μ) - 1) * ag0 := by
    rw [@norm_add_sq_real, @norm_sub_sq_real, inner_sub_left, real_inner_smul_right, real_inner_smul_left, real_inner_smul_right,
      real_inner_smul_right, norm_smul, norm_smul, mul_pow, mul_pow, Real.norm_eq_abs, Real.norm_eq_abs, sq_abs, sq_abs,
      real_inner_comm gx hx, real_inner_comm gx (x - xs)]
    ring
  rw [hres'] at hres
  exact polyakf_core Lr μ γr aa ag0 ag1 g00 g01 g11 D0 D1 hL hμ hLμ hγpos hγL hγμ hτ hS01 hS02 hS12 hpol hD0le hres

end Pepit.C09M

#print axioms Pepit.C09M.polyakf_example_no_run_beats_bound

#print axioms Pepit.C09M.polyakd_example_no_run_beats_bound

#print axioms Pepit.C09M.agfc_example_no_run_beats_bound

#print axioms Pepit.C09M.gdl2_example_no_run_beats_bound

#print axioms Pepit.C09M.gfc_example_no_run_beats_bound

#print axioms Pepit.C09M.gdl1_example_no_run_beats_bound

#print axioms Pepit.C09M.gfsc_example_no_run_beats_bound

#print axioms Pepit.C09M.pg_example_no_run_beats_bound

#print axioms Pepit.C09M.gdc_example_no_run_beats_bound
#print axioms Pepit.C09M.subg_example_no_run_beats_bound
