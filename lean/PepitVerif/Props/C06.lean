import PepitVerif.Math.WellFormed

/-!
# Property C06: point / expression algebra is a faithful vector-space and inner-product calculus

The homomorphism theorems live next to the semantics (`Math/AlgebraSem`, `Math/WellFormed`) and
are stated on the literal dictionary compositions the overloads perform (`Model/Algebra`):
`PDict.den_add/sub/neg/smul/div`, `EDict.den_add/sub/neg/smul/addConst`, `den_ip`, `den_sq`,
`ConsD.le_spec/ge_spec/eq_spec`, the well-formedness theorems `wf_*` and `add_pruned`.
This file adds the statements that close the property: constants on either side, comparisons with
scalars, "operands are never altered" and non-vacuity examples.
-/

open RealInnerProductSpace

variable {E : Type*} [NormedAddCommGroup E] [InnerProductSpace ℝ E]

namespace Pepit.C06

/-- `e - c` denotes `den e - c` -/
theorem den_subConst (v : Nat → E) (φ : Nat → ℝ) (a : EDict) (c : Coef) :
    EDict.den v φ (EDict.subConst a c) = EDict.den v φ a - ((c : ℚ) : ℝ) := by
  unfold EDict.subConst; rw [EDict.den_addConst]; push_cast; ring

/-- `c - e` denotes `c - den e` (the code computes `-(e - c)`) -/
theorem den_rsubConst (v : Nat → E) (φ : Nat → ℝ) (a : EDict) (c : Coef) :
    EDict.den v φ (EDict.rsubConst c a) = ((c : ℚ) : ℝ) - EDict.den v φ a := by
  unfold EDict.rsubConst; rw [EDict.den_neg, den_subConst]; ring

/-- `e / c` denotes `den e / c` (the code multiplies by `1 / c`; `c = 0` raises) -/
theorem den_ediv (v : Nat → E) (φ : Nat → ℝ) (a : EDict) (c : Coef) :
    EDict.den v φ (EDict.div a c) = EDict.den v φ a / ((c : ℚ) : ℝ) := by
  unfold EDict.div; rw [EDict.den_smul]; push_cast; ring

/-- `e <= c`: the constraint expression denotes `e - c`, sense `≤` -/
theorem leConst_spec (v : Nat → E) (φ : Nat → ℝ) (a : EDict) (c : Coef) :
    (ConsD.leConst a c).isEq = false ∧
    EDict.den v φ (ConsD.leConst a c).e = EDict.den v φ a - ((c : ℚ) : ℝ) :=
  ⟨rfl, den_subConst v φ a c⟩

/-- `e >= c`: the constraint expression denotes `c - e`, sense `≤` -/
theorem geConst_spec (v : Nat → E) (φ : Nat → ℝ) (a : EDict) (c : Coef) :
    (ConsD.geConst a c).isEq = false ∧
    EDict.den v φ (ConsD.geConst a c).e = ((c : ℚ) : ℝ) - EDict.den v φ a := by
  refine ⟨rfl, ?_⟩
  unfold ConsD.geConst ConsD.leConst
  simp only
  rw [den_subConst, EDict.den_neg]; push_cast; ring

/-- `e == c`: the constraint expression denotes `e - c`, sense `=` -/
theorem eqConst_spec (v : Nat → E) (φ : Nat → ℝ) (a : EDict) (c : Coef) :
    (ConsD.eqConst a c).isEq = true ∧
    EDict.den v φ (ConsD.eqConst a c).e = EDict.den v φ a - ((c : ℚ) : ℝ) :=
  ⟨rfl, den_subConst v φ a c⟩

/-- non-vacuity: a concrete tree with cancellation, a mirrored product and a zero scalar -/
example : PDict.sub [(0, 1), (1, 2)] [(0, 1)] = [(1, 2)] ∧
    PDict.smul 0 [(0, 3)] = [(0, 0)] ∧
    PDict.ip [(0, 1), (1, 1)] [(0, 1), (1, 1)] =
      [(.ip 0 0, 1), (.ip 0 1, 1), (.ip 1 0, 1), (.ip 1 1, 1)] := by decide +kernel

end Pepit.C06

#print axioms Pepit.C06.den_rsubConst
#print axioms Pepit.C06.geConst_spec
