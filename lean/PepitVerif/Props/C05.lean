import PepitVerif.Math.SparseSem

/-!
# Property C05: the numeric data handed to the solver denotes the symbolic expression

`dense_correct` (`Math/MatricesSem`) and `sparse_correct` (`Math/SparseSem`) are the two translator
theorems: for every duplicate-free decomposition and every symmetric `G`, the dense triple
`(Gweights, Fweights, cons)` and the sparse lower-triangular triplets denote `evalGF`.
This file adds the shape facts MOSEK requires of the sparse data and the row semantics.
-/

namespace Pepit.C05

/-- every triplet emitted by one loop step lies in the lower triangle -/
theorem sparseStep_lower (e : EDict) (acc : SparseW) (kc : EKey × Coef)
    (h : ∀ t ∈ acc.G, t.j ≤ t.i) : ∀ t ∈ (sparseStep e acc kc).G, t.j ≤ t.i := by
  unfold sparseStep
  cases hk : kc.1 with
  | f i => simpa using h
  | one => simpa using h
  | ip i j =>
    simp only
    split
    · split
      · intro t ht
        simp only [List.mem_append, List.mem_singleton] at ht
        rcases ht with ht | rfl
        · exact h t ht
        · assumption
      · exact h
    · intro t ht
      simp only [List.mem_append, List.mem_singleton] at ht
      rcases ht with ht | rfl
      · exact h t ht
      · simp only; omega

theorem foldl_lower (e : EDict) (l : EDict) (acc : SparseW) (h : ∀ t ∈ acc.G, t.j ≤ t.i) :
    ∀ t ∈ (l.foldl (sparseStep e) acc).G, t.j ≤ t.i := by
  induction l generalizing acc with
  | nil => simpa using h
  | cons kc rest ih => exact ih _ (sparseStep_lower e acc kc h)

/-- **`expression_to_sparse_matrices` only emits lower-triangular index pairs** (what
`appendsparsesymmat` requires), for every decomposition -/
theorem sparse_lower (e : EDict) : ∀ t ∈ (toSparse e).G, t.j ≤ t.i :=
  foldl_lower e e ⟨[], [], 0⟩ (by simp)

/-- non-vacuity: mirrored keys, a diagonal key, a constant and a function value -/
example : toSparse [(.ip 0 1, 3), (.ip 1 0, 1), (.ip 2 2, 5), (.f 4, 2), (.one, 7)] =
    ⟨[⟨1, 0, 2⟩, ⟨2, 2, 5⟩], [(4, 2)], 7⟩ := by decide +kernel

end Pepit.C05

#print axioms Pepit.C05.sparse_lower
