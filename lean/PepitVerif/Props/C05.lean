import PepitVerif.Math.SparseSem
import PepitModel.World

/-!
# Property C05: the numeric data handed to the solver denotes the symbolic expression

`dense_correct` (`Math/MatricesSem`) and `sparse_correct` (`Math/SparseSem`) are the two translator
theorems: for every duplicate-free decomposition and every symmetric `G`, the dense triple
`(Gweights, Fweights, cons)` and the sparse lower-triangular triplets denote `evalGF`.
This file adds the shape facts MOSEK requires of the sparse data and the row semantics.
-/

namespace Pepit.C05

/-- every triplet emitted by one loop step lies in the lower triangle -/
theorem sparseStep_lower (e : EDict) (acc : SparseW) (kc : EKey × Coef)
    (h : ∀ t ∈ acc.G, t.j ≤ t.i) : ∀ t ∈ (sparseStep e acc kc).G, t.j ≤ t.i := by
  unfold sparseStep
  cases hk : kc.1 with
  | f i => simpa using h
  | one => simpa using h
  | ip i j =>
    simp only
    split
    · split
      · intro t ht
        simp only [List.mem_append, List.mem_singleton] at ht
        rcases ht with ht | rfl
        · exact h t ht
        · assumption
      · exact h
    · intro t ht
      simp only [List.mem_append, List.mem_singleton] at ht
      rcases ht with ht | rfl
      · exact h t ht
      · simp only; omega

theorem foldl_lower (e : EDict) (l : EDict) (acc : SparseW) (h : ∀ t ∈ acc.G, t.j ≤ t.i) :
    ∀ t ∈ (l.foldl (sparseStep e) acc).G, t.j ≤ t.i := by
  induction l generalizing acc with
  | nil => simpa using h
  | cons kc rest ih => exact ih _ (sparseStep_lower e acc kc h)

/-- **`expression_to_sparse_matrices` only emits lower-triangular index pairs** (what
`appendsparsesymmat` requires), for every decomposition -/
theorem sparse_lower (e : EDict) : ∀ t ∈ (toSparse e).G, t.j ≤ t.i :=
  foldl_lower e e ⟨[], [], 0⟩ (by simp)

/-- non-vacuity: mirrored keys, a diagonal key, a constant and a function value -/
example : toSparse [(.ip 0 1, 3), (.ip 1 0, 1), (.ip 2 2, 5), (.f 4, 2), (.one, 7)] =
    ⟨[⟨1, 0, 2⟩, ⟨2, 2, 5⟩], [(4, 2)], 7⟩ := by decide +kernel

end Pepit.C05

#print axioms Pepit.C05.sparse_lower

/-! ## what reaches the solver: the collection order of `_solve_with_wrapper` (`sendOrder`) -/

namespace Pepit.C05
open Pepit

theorem count_cons_map_cons (c : Nat) (l : List Nat) : (l.map Sent.cons).count (Sent.cons c) = l.count c := by
  induction l with
  | nil => rfl
  | cons a t ih =>
    by_cases h : a = c
    · subst h; simp [ih]
    · have : Sent.cons a ≠ Sent.cons c := fun e => h (by injection e)
      simp [List.count_cons, ih, h, this]

theorem count_cons_map_psd (c : Nat) (l : List Nat) : (l.map Sent.psd).count (Sent.cons c) = 0 := by
  induction l with
  | nil => rfl
  | cons a t ih => simp [List.count_cons, ih]

theorem count_psd_map_psd (m : Nat) (l : List Nat) : (l.map Sent.psd).count (Sent.psd m) = l.count m := by
  induction l with
  | nil => rfl
  | cons a t ih =>
    by_cases h : a = m
    · subst h; simp [ih]
    · have : Sent.psd a ≠ Sent.psd m := fun e => h (by injection e)
      simp [List.count_cons, ih, h, this]

theorem count_psd_map_cons (m : Nat) (l : List Nat) : (l.map Sent.cons).count (Sent.psd m) = 0 := by
  induction l with
  | nil => rfl
  | cons a t ih => simp [List.count_cons, ih]

/-- dropping the functions that have neither own constraints nor own LMIs loses nothing -/
theorem sum_filter_own (funs : List FunSent) (g : FunSent → Nat)
    (hg : ∀ f, (f.cons.isEmpty && f.psd.isEmpty) = true → g f = 0) :
    ((funs.filter (fun f => !f.cons.isEmpty || !f.psd.isEmpty)).map g).sum = (funs.map g).sum := by
  induction funs with
  | nil => rfl
  | cons f t ih =>
    by_cases h : (!f.cons.isEmpty || !f.psd.isEmpty) = true
    · simp [List.filter_cons, h, ih]
    · have h0 : g f = 0 := hg f (by
        cases h1 : f.cons.isEmpty <;> cases h2 : f.psd.isEmpty <;> simp [h1, h2] at h ⊢)
      simp [List.filter_cons, h, ih, h0]

/-- **every scalar constraint reaches the solver exactly as often as it was declared**: the number of
times `c` is sent is the number of times it occurs among the metric constraints, the problem's
constraints, the class constraints of leaf functions, the own constraints of all functions and the
constraints of the partitions — for every model -/
theorem sent_count_cons (mcons pepCons pepPsd : List Nat) (funs : List FunSent) (partCons : List (List Nat)) (c : Nat) :
    (sendOrder mcons pepCons pepPsd funs partCons).count (Sent.cons c) =
      mcons.count c + pepCons.count c
        + (((funs.filter (·.isLeaf)).map (fun f => f.classCons.count c)).sum)
        + ((funs.map (fun f => f.cons.count c)).sum)
        + ((partCons.map (fun l => l.count c)).sum) := by
  unfold sendOrder
  simp only [List.count_append, List.count_flatMap, count_cons_map_cons, count_cons_map_psd, Function.comp_def,
    Nat.add_zero]
  have hown : ∀ f : FunSent, (f.cons.isEmpty && f.psd.isEmpty) = true → f.cons.count c = 0 := by
    intro f hf
    have : f.cons = [] := by
      cases hc : f.cons with
      | nil => rfl
      | cons a t => simp [hc] at hf
    simp [this]
  rw [sum_filter_own funs (fun f => f.cons.count c) hown]
  try omega

/-- **every LMI reaches the solver exactly as often as it was declared** -/
theorem sent_count_psd (mcons pepCons pepPsd : List Nat) (funs : List FunSent) (partCons : List (List Nat)) (m : Nat) :
    (sendOrder mcons pepCons pepPsd funs partCons).count (Sent.psd m) =
      pepPsd.count m
        + (((funs.filter (·.isLeaf)).map (fun f => f.classPsd.count m)).sum)
        + ((funs.map (fun f => f.psd.count m)).sum) := by
  unfold sendOrder
  simp only [List.count_append, List.count_flatMap, count_psd_map_cons, count_psd_map_psd, Function.comp_def,
    Nat.zero_add, Nat.add_zero]
  have hown : ∀ f : FunSent, (f.cons.isEmpty && f.psd.isEmpty) = true → f.psd.count m = 0 := by
    intro f hf
    have : f.psd = [] := by
      cases hc : f.psd with
      | nil => rfl
      | cons a t => simp [hc] at hf
    simp [this]
  rw [sum_filter_own funs (fun f => f.psd.count m) hown]
  have : ((partCons.map (fun (_ : List Nat) => 0)).sum) = 0 := by simp
  simp only [List.map_const', List.sum_replicate, smul_eq_mul, mul_zero] at this ⊢
  try omega

/-- non-vacuity: one metric constraint, two problem constraints, one problem LMI, a leaf function with two
class constraints and one own constraint, a composite with an own LMI, one partition constraint -/
example : sendOrder [10] [11, 12] [0]
    [⟨[20, 21], [], [22], [], true⟩, ⟨[99], [], [], [1], false⟩] [[30]] =
  [.cons 10, .cons 11, .cons 12, .psd 0, .cons 20, .cons 21, .cons 22, .psd 1, .cons 30] := by decide

end Pepit.C05

#print axioms Pepit.C05.sent_count_cons
#print axioms Pepit.C05.sent_count_psd

/-! ### what the cvxpy back-end is given for one matrix inequality (`Model/Cvx`, tied to the real
`CvxpyWrapper` by the `dump.cvx` op of the collect stream) -/

namespace Pepit.C05

theorem mem_psdEntries (id n i j : Nat) (hi : i < n) (hj : j < n) : SolverCon.psdEntry id i j ∈ psdEntries id n := by
  unfold psdEntries
  rw [List.mem_flatMap]
  exact ⟨i, List.mem_range.mpr hi, List.mem_map.mpr ⟨j, List.mem_range.mpr hj, rfl⟩⟩

/-- **every entry of every declared matrix inequality reaches the solver**: for each LMI item of shape `n × n`
and ALL `i, j < n` — above, on and below the diagonal — the equality `M[i, j] == entry_ij` is among the
solver constraints (so the declared matrix, whose entries `(i, j)` and `(j, i)` may be written differently,
is forced to be the symmetric PSD variable `M`) -/
theorem lmi_entries_complete (items : List Item) (id n : Nat) (h : Item.psd id n ∈ items)
    (i j : Nat) (hi : i < n) (hj : j < n) :
    SolverCon.psdEntry id i j ∈ emit items ∧ SolverCon.psdMain id ∈ emit items := by
  unfold emit
  refine ⟨List.mem_cons_of_mem _ ?_, List.mem_cons_of_mem _ ?_⟩
  · rw [List.mem_flatMap]
    exact ⟨Item.psd id n, h, by simp only [emitItem]; exact List.mem_cons_of_mem _ (mem_psdEntries id n i j hi hj)⟩
  · rw [List.mem_flatMap]
    exact ⟨Item.psd id n, h, by simp [emitItem]⟩

/-- and every scalar constraint item gives exactly one solver constraint, of its own -/
theorem scalar_reaches (items : List Item) (id : Nat) (h : Item.cons id ∈ items) : SolverCon.scalar id ∈ emit items := by
  unfold emit
  refine List.mem_cons_of_mem _ ?_
  rw [List.mem_flatMap]
  exact ⟨Item.cons id, h, by simp [emitItem]⟩

/-- nothing else is emitted: every solver constraint is the Gram LMI or comes from a declared item -/
theorem emit_only (items : List Item) (c : SolverCon) (h : c ∈ emit items) :
    c = .gram ∨ (∃ id, c = .scalar id ∧ Item.cons id ∈ items) ∨
      (∃ id n, Item.psd id n ∈ items ∧ (c = .psdMain id ∨ ∃ i j, i < n ∧ j < n ∧ c = .psdEntry id i j)) := by
  unfold emit at h
  rcases List.mem_cons.mp h with h | h
  · exact Or.inl h
  · rw [List.mem_flatMap] at h
    obtain ⟨it, hit, hc⟩ := h
    cases it with
    | cons id =>
      simp only [emitItem, List.mem_singleton] at hc
      exact Or.inr (Or.inl ⟨id, hc, hit⟩)
    | psd id n =>
      simp only [emitItem, List.mem_cons] at hc
      rcases hc with hc | hc
      · exact Or.inr (Or.inr ⟨id, n, hit, Or.inl hc⟩)
      · unfold psdEntries at hc
        rw [List.mem_flatMap] at hc
        obtain ⟨i, hi, hc⟩ := hc
        rw [List.mem_map] at hc
        obtain ⟨j, hj, rfl⟩ := hc
        exact Or.inr (Or.inr ⟨id, n, hit, Or.inr ⟨i, j, List.mem_range.mp hi, List.mem_range.mp hj, rfl⟩⟩)

end Pepit.C05

#print axioms Pepit.C05.lmi_entries_complete
#print axioms Pepit.C05.emit_only
