import PepitModel.Eval
import PepitModel.Solve
import Mathlib.Tactic.Linarith

/-!
# Property C16 (model level): no number before a successful solve
-/

namespace Pepit

/-- the pristine evaluation state of a freshly built model: no solve yet, nothing cached -/
def EvalSt.Unsolved (s : EvalSt) : Prop := s.sols = #[] ∧ s.exVal = [] ∧ s.consVal = [] ∧ s.consDual = [] ∧ s.ptEpoch = []

theorem last_of_unsolved (s : EvalSt) (h : s.Unsolved) : s.last = Option.none := by
  unfold EvalSt.last; rw [h.1]; rfl

/-- an expression that mentions at least one leaf (function value or inner product) -/
def MentionsLeaf (e : EObj) : Prop := e.leaf.isSome ∨ ∃ kc ∈ e.d, kc.1 ≠ EKey.one

/-- **before any solve, evaluating an expression that mentions a leaf raises `ValueError`** —
for every world, every expression object, leaf or derived. -/
theorem unsolved_expr_raises (w : World) (s : EvalSt) (hs : s.Unsolved) (h : Nat) (e : EObj)
    (he : w.exs[h]? = some e) (hm : MentionsLeaf e) :
    evalExpr w s h = .error .valueError := by
  unfold evalExpr
  simp only [he]
  by_cases hl : e.leaf.isSome = true
  · simp [hl, hs.2.1, List.lookup]
  · simp only [hl, Bool.false_eq_true, if_false, last_of_unsolved s hs]
    rcases hm with hm | ⟨kc, hkc, hne⟩
    · exact absurd hm hl
    · have : ¬ (e.d.all (fun kc => kc.1 == EKey.one)) = true := by
        intro hall
        rw [List.all_eq_true] at hall
        have := hall kc hkc
        simp only [beq_iff_eq] at this
        exact hne this
      simp [this]

/-- constraints: `Constraint.eval()` before any solve raises `ValueError` (this was a
`TypeError` before the `fix:` commit on the `except` clause; the model follows the code) -/
theorem unsolved_cons_raises (w : World) (s : EvalSt) (hs : s.Unsolved) (h : Nat) (c : ConsObj)
    (e : EObj) (hc : w.cons[h]? = some c) (he : w.exs[c.e]? = some e) (hm : MentionsLeaf e) :
    evalCons w s h = .error .valueError := by
  unfold evalCons
  simp only [hc, unsolved_expr_raises w s hs c.e e he hm]

/-- duals: `eval_dual` before any solve raises `ValueError` -/
theorem unsolved_dual_raises (s : EvalSt) (hs : s.Unsolved) (h : Nat) :
    evalDual s h = .error .valueError := by
  unfold evalDual; rw [hs.2.2.2.1]; rfl

/-- **a solve that reports no value assigns nothing**: in the flow model of `_solve_with_wrapper`
(`Model/Solve`, compared with the real method by the flow stream) the failing path stops right after
the solver call: no multiplier is recovered, no instance is stored, nothing is raised, `None` is returned -/
theorem failed_solve_assigns_nothing :
    failedFlow.calls = [.solve 1] ∧ failedFlow.dualsFrom = 0 ∧ failedFlow.primalFrom = 0 ∧ failedFlow.raises = false :=
  ⟨rfl, rfl, rfl, rfl⟩

end Pepit

#print axioms Pepit.unsolved_expr_raises
#print axioms Pepit.unsolved_cons_raises
