import PepitModel.Eval
import PepitModel.Solve
import Mathlib.Tactic.Linarith

/-!
# Property C16 (model level): no number before a successful solve
-/

namespace Pepit

/-- the pristine evaluation state of a freshly built model: no solve yet, nothing cached -/
def EvalSt.Unsolved (s : EvalSt) : Prop :=
  s.sols = #[] ∧ s.exVal = [] ∧ s.consVal = [] ∧ s.consDual = [] ∧ s.ptEpoch = [] ∧ s.psdDual = []

theorem last_of_unsolved (s : EvalSt) (h : s.Unsolved) : s.last = Option.none := by
  unfold EvalSt.last; rw [h.1]; rfl

/-- an expression that mentions at least one leaf (function value or inner product) -/
def MentionsLeaf (e : EObj) : Prop := e.leaf.isSome ∨ ∃ kc ∈ e.d, kc.1 ≠ EKey.one

/-- **before any solve, evaluating an expression that mentions a leaf raises `ValueError`** —
for every world, every expression object, leaf or derived. -/
theorem unsolved_expr_raises (w : World) (s : EvalSt) (hs : s.Unsolved) (h : Nat) (e : EObj)
    (he : w.exs[h]? = some e) (hm : MentionsLeaf e) :
    evalExpr w s h = .error .valueError := by
  unfold evalExpr
  simp only [he]
  by_cases hl : e.leaf.isSome = true
  · simp [hl, hs.2.1, List.lookup]
  · simp only [hl, Bool.false_eq_true, if_false, last_of_unsolved s hs]
    rcases hm with hm | ⟨kc, hkc, hne⟩
    · exact absurd hm hl
    · have : ¬ (e.d.all (fun kc => kc.1 == EKey.one)) = true := by
        intro hall
        rw [List.all_eq_true] at hall
        have := hall kc hkc
        simp only [beq_iff_eq] at this
        exact hne this
      simp [this]

/-- constraints: `Constraint.eval()` before any solve raises `ValueError` (this was a
`TypeError` before the `fix:` commit on the `except` clause; the model follows the code) -/
theorem unsolved_cons_raises (w : World) (s : EvalSt) (hs : s.Unsolved) (h : Nat) (c : ConsObj)
    (e : EObj) (hc : w.cons[h]? = some c) (he : w.exs[c.e]? = some e) (hm : MentionsLeaf e) :
    evalCons w s h = .error .valueError := by
  unfold evalCons
  simp only [hc, unsolved_expr_raises w s hs c.e e he hm]

/-- duals: `eval_dual` before any solve raises `ValueError` -/
theorem unsolved_dual_raises (s : EvalSt) (hs : s.Unsolved) (h : Nat) :
    evalDual s h = .error .valueError := by
  unfold evalDual; rw [hs.2.2.2.1]; rfl

theorem unsolved_psd_dual_raises (s : EvalSt) (hs : s.Unsolved) (h : Nat) :
    evalPsdDual s h = .error .valueError := by
  unfold evalPsdDual; rw [hs.2.2.2.2.2]; rfl

/-- `mapM` in `Except` fails as soon as one element fails -/
theorem mapM_error_of_mem {α β ε : Type} (f : α → Except ε β) (err : ε) :
    ∀ (l : List α), (∃ a ∈ l, f a = .error err) → (∀ a ∈ l, ∀ e', f a = .error e' → e' = err) →
      l.mapM f = .error err := by
  intro l
  induction l with
  | nil => intro ⟨a, ha, _⟩; cases ha
  | cons hd tl ih =>
    intro hex hall
    rw [List.mapM_cons]
    cases hf : f hd with
    | error e' =>
      have := hall hd List.mem_cons_self e' hf
      subst this; rfl
    | ok b =>
      obtain ⟨a, ha, hfa⟩ := hex
      have hin : a ∈ tl := by
        rcases List.mem_cons.mp ha with rfl | h
        · rw [hf] at hfa; cases hfa
        · exact h
      have := ih ⟨a, hin, hfa⟩ (fun a' ha' => hall a' (List.mem_cons_of_mem _ ha'))
      simp only [bind, Except.bind, this]

/-- **matrices: `PSDMatrix.eval()` before any solve raises `ValueError` as soon as ANY entry — on, above
or below the diagonal — mentions a leaf** (every entry is evaluated; nothing is inferred by symmetry) -/
theorem unsolved_psd_raises (w : World) (s : EvalSt) (hs : s.Unsolved) (h : Nat) (m : PsdObj)
    (hm : w.psds[h]? = some m) (row : List Nat) (hrow : row ∈ m.entries) (eh : Nat) (heh : eh ∈ row) (e : EObj)
    (he : w.exs[eh]? = some e) (hl : MentionsLeaf e) :
    evalPsd w s h = .error .valueError := by
  unfold evalPsd
  simp only [hm]
  apply mapM_error_of_mem
  · refine ⟨row, hrow, ?_⟩
    apply mapM_error_of_mem
    · exact ⟨eh, heh, by simp only [unsolved_expr_raises w s hs eh e he hl]⟩
    · intro a _ e' h'
      split at h'
      · cases h'
      · cases h'; rfl
  · intro r _ e' h'
    -- every failure of a row is a `ValueError`
    have key : ∀ (l : List Nat) (e' : EvalErr),
        l.mapM (fun eh => match evalExpr w s eh with | .ok (v, _) => Except.ok v | .error _ => .error EvalErr.valueError)
          = .error e' → e' = .valueError := by
      intro l
      induction l with
      | nil => intro e' h; simp [List.mapM_nil, pure, Except.pure] at h
      | cons hd tl ih =>
        intro e' h
        rw [List.mapM_cons] at h
        cases hev : evalExpr w s hd with
        | error x => simp only [hev, bind, Except.bind] at h; cases h; rfl
        | ok vs =>
          simp only [hev, bind, Except.bind] at h
          cases htl : tl.mapM (fun eh => match evalExpr w s eh with | .ok (v, _) => Except.ok v | .error _ => .error EvalErr.valueError) with
          | error x => rw [htl] at h; cases h; exact ih _ htl
          | ok y => rw [htl] at h; simp [pure, Except.pure] at h
    exact key r e' h'

/-- **a solve that reports no value assigns nothing**: in the flow model of `_solve_with_wrapper`
(`Model/Solve`, compared with the real method by the flow stream) the failing path stops right after
the solver call: no multiplier is recovered, no instance is stored, nothing is raised, `None` is returned -/
theorem failed_solve_assigns_nothing :
    failedFlow.calls = [.solve 1] ∧ failedFlow.dualsFrom = 0 ∧ failedFlow.primalFrom = 0 ∧ failedFlow.raises = false :=
  ⟨rfl, rfl, rfl, rfl⟩

end Pepit

#print axioms Pepit.unsolved_expr_raises
#print axioms Pepit.unsolved_cons_raises
#print axioms Pepit.unsolved_psd_raises
