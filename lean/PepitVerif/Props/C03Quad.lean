import PepitVerif.Props.C03LMI

/-!
# Property C03: quadratic class and block-smooth class
-/

open RealInnerProductSpace Finset

variable {E : Type*} [NormedAddCommGroup E] [InnerProductSpace ℝ E]

section quadratic
/- `f x = fs + ½⟪x − xs, Q (x − xs)⟫`, `∇f x = Q (x − xs)`, `Q` self-adjoint with
`⟪L z − Q z, Q z − μ z⟫ ≥ 0` -/
variable (Q : E →ₗ[ℝ] E) (xs : E) (fs : ℝ) (hsym : ∀ u w, ⟪Q u, w⟫ = ⟪u, Q w⟫)

/-- **SmoothStronglyConvexQuadraticFunction**, value condition -/
theorem SmoothStronglyConvexQuadraticFunction.sound_value (μ L : ℚ) (xi xj : E) :
    QForm.den (sv xi (Q (xi - xs)) xj (Q (xj - xs)) xs)
      (fvOf (fs + 1 / 2 * ⟪xi - xs, Q (xi - xs)⟫) (fs + 1 / 2 * ⟪xj - xs, Q (xj - xs)⟫) fs)
      (Gen.SmoothStronglyConvexQuadraticFunction.value μ L) = 0 := by
  rw [den_SmoothStronglyConvexQuadraticFunction_value]
  simp only [Canon.quadValue, sv, fvOf]; ring

/-- symmetry condition -/
theorem SmoothStronglyConvexQuadraticFunction.sound_symmetry (μ L : ℚ) (xi xj : E) (fi fj : ℝ)
    (hsym : ∀ u w, ⟪Q u, w⟫ = ⟪u, Q w⟫) :
    QForm.den (sv xi (Q (xi - xs)) xj (Q (xj - xs)) xs) (fvOf fi fj fs)
      (Gen.SmoothStronglyConvexQuadraticFunction.symmetry μ L) = 0 := by
  rw [den_SmoothStronglyConvexQuadraticFunction_symmetry]
  simp only [Canon.quadSymmetry, sv]
  rw [← hsym (xi - xs) (xj - xs), real_inner_comm (Q (xi - xs)) (xj - xs)]; ring

/-- LMI: nonnegative quadratic form for any number of samples -/
theorem SmoothStronglyConvexQuadraticFunction.sound_lmi0 {n : Nat} (x : Fin n → E) (c : Fin n → ℝ)
    (fi fj : ℝ) (μ L : ℚ) (hsym : ∀ u w, ⟪Q u, w⟫ = ⟪u, Q w⟫)
    (hspec : ∀ z, 0 ≤ ⟪(L : ℝ) • z - Q z, Q z - (μ : ℝ) • z⟫) :
    0 ≤ ∑ i, ∑ j, c i * c j *
        QForm.den (sv (x i) (Q (x i - xs)) (x j) (Q (x j - xs)) xs) (fvOf fi fj fs)
          (Gen.SmoothStronglyConvexQuadraticFunction.lmi0_entry μ L) := by
  simp only [den_SmoothStronglyConvexQuadraticFunction_lmi0_entry, Canon.quadLmi, sv]
  set w : Fin n → E := fun i => x i - xs with hw
  set z := ∑ i, c i • w i with hz
  have hQz : Q z = ∑ i, c i • Q (w i) := by rw [hz, map_sum]; simp only [map_smul]
  have q1 := quadform_inner c (fun i => Q (w i)) w
  have q2 := quadform_inner c (fun i => Q (w i)) (fun i => Q (w i))
  have q3 := quadform_inner c w w
  simp only [← hQz, ← hz] at q1 q2 q3
  have expand : ∑ i, ∑ j, c i * c j *
      (((L : ℝ) + (μ : ℝ)) * ⟪Q (w i), w j⟫ - ⟪Q (w i), Q (w j)⟫ - (μ : ℝ) * (L : ℝ) * ⟪w i, w j⟫)
      = ((L : ℝ) + (μ : ℝ)) * ⟪Q z, z⟫ - ⟪Q z, Q z⟫ - (μ : ℝ) * (L : ℝ) * ⟪z, z⟫ := by
    rw [← q1, ← q2, ← q3]
    simp only [Finset.mul_sum, ← Finset.sum_sub_distrib]
    apply Finset.sum_congr rfl; intro i _
    apply Finset.sum_congr rfl; intro j _
    ring
  simp only [hw] at expand
  rw [expand]
  have := hspec z
  simp only [inner_sub_left, inner_sub_right, real_inner_smul_left, real_inner_smul_right] at this
  rw [← hsym z z] at this
  linarith

end quadratic

section block
/-- a coordinate-block projection: linear, idempotent, self-adjoint -/
structure IsBlockProj (P : E →ₗ[ℝ] E) : Prop where
  idem : ∀ u, P (P u) = P u
  selfAdj : ∀ u w, ⟪P u, w⟫ = ⟪u, P w⟫

/-- **BlockSmoothConvexFunction**: convex, and `Lk`-smooth along block `k` -/
theorem BlockSmoothConvexFunction.sound (f : E → ℝ) (g : E → E) (P : E →ₗ[ℝ] E) (hP : IsBlockProj P)
    (L0 L1 : ℚ) (hL : 0 < L0)
    (hconv : ∀ x y, f y ≥ f x + ⟪g x, y - x⟫)
    (hblock : ∀ x h, f (x + P h) ≤ f x + ⟪g x, P h⟫ + (L0 : ℝ) / 2 * ‖P h‖ ^ 2)
    (xi xj : E) :
    QForm.den (sv xi (g xi) xj (g xj) 0 0 (P (g xi)) (P (g xj))) (fvOf (f xi) (f xj))
      (Gen.BlockSmoothConvexFunction.smoothness_convexity_block L0 L1) ≤ 0 := by
  rw [den_BlockSmoothConvexFunction_block _ _ L0 L1 (ne_of_gt hL)]
  have hL' : (0 : ℝ) < (L0 : ℝ) := by exact_mod_cast hL
  simp only [Canon.blockSmooth, sv, fvOf]
  set e := g xi - g xj with he
  have hPe : P (g xi) - P (g xj) = P e := by rw [he, map_sub]
  rw [hPe]
  set hh := -((1 / (L0 : ℝ)) • e) with hhh
  have hPh : P hh = -((1 / (L0 : ℝ)) • P e) := by rw [hhh, map_neg, map_smul]
  have h1 := hconv xj (xi + P hh)
  have h2 := hblock xi hh
  have e1 : ⟪g xi, P hh⟫ = -(1 / (L0 : ℝ)) * ⟪g xi, P e⟫ := by
    rw [hPh, inner_neg_right, real_inner_smul_right]; ring
  have e2 : ‖P hh‖ ^ 2 = (1 / (L0 : ℝ)) ^ 2 * ⟪P e, P e⟫ := by
    rw [hPh, norm_neg, norm_smul, mul_pow, Real.norm_eq_abs, sq_abs, real_inner_self_eq_norm_sq]
  have e3 : ⟪g xj, xi + P hh - xj⟫ = ⟪g xj, xi - xj⟫ - (1 / (L0 : ℝ)) * ⟪g xj, P e⟫ := by
    have : xi + P hh - xj = (xi - xj) - (1 / (L0 : ℝ)) • P e := by rw [hPh]; abel
    rw [this, inner_sub_right, real_inner_smul_right]
  have e4 : ⟪P e, P e⟫ = ⟪g xi, P e⟫ - ⟪g xj, P e⟫ := by
    rw [hP.selfAdj e (P e), hP.idem, he, inner_sub_left]
  rw [e1, e2] at h2
  rw [e3] at h1
  have e5 : (L0 : ℝ) / 2 * ((1 / (L0 : ℝ)) ^ 2 * ⟪P e, P e⟫) = 1 / (2 * (L0 : ℝ)) * ⟪P e, P e⟫ := by
    field_simp
  rw [e5] at h2
  have e6 : (1 / (L0 : ℝ)) * ⟪P e, P e⟫ = (1 / (L0 : ℝ)) * ⟪g xi, P e⟫ - (1 / (L0 : ℝ)) * ⟪g xj, P e⟫ := by
    rw [e4]; ring
  have e7 : 1 / (2 * (L0 : ℝ)) * ⟪P e, P e⟫ = (1 / (L0 : ℝ)) * ⟪P e, P e⟫ - 1 / (2 * (L0 : ℝ)) * ⟪P e, P e⟫ := by
    field_simp; ring
  linarith

end block

#print axioms SmoothStronglyConvexQuadraticFunction.sound_lmi0
#print axioms BlockSmoothConvexFunction.sound
