import PepitVerif.Props.C03
import Mathlib.Data.Finset.Lattice.Fold
import Mathlib.Data.Fintype.Basic

/-!
# Property C04, sufficiency ("a finite primal value is attained by a real member of the class")

For the classes whose interpolating member has a closed form — `ConvexFunction`,
`ConvexLipschitzFunction`, `StronglyConvexFunction` — every finite family of samples that satisfies
the *regenerated* constraints (`Gen.*`) on every pair of distinct samples (every such pair is
instantiated: `mem_pairsOf`) is the trace of a real member: the pointwise maximum of the affine
(resp. quadratic) minorants.  Together with the `sound` theorems of C03 this makes the generated
conditions necessary and sufficient for these classes.  (For the smooth classes the interpolating
member is built by conjugation; that direction is literature-trusted, see the trusted base.)
-/

open RealInnerProductSpace

variable {E : Type*} [NormedAddCommGroup E] [InnerProductSpace ℝ E]
variable {ι : Type*} [Fintype ι] [Nonempty ι]

namespace Pepit.C04

/-- the candidate member: maximum of the minorants `f j + ⟪g j, y - x j⟫ + μ/2 ‖y - x j‖²` -/
noncomputable def maxMinorant (μ : ℝ) (x g : ι → E) (f : ι → ℝ) (y : E) : ℝ :=
  Finset.univ.sup' Finset.univ_nonempty (fun j => f j + ⟪g j, y - x j⟫ + μ / 2 * ‖y - x j‖ ^ 2)

theorem piece_le (μ : ℝ) (x g : ι → E) (f : ι → ℝ) (y : E) (j : ι) :
    f j + ⟪g j, y - x j⟫ + μ / 2 * ‖y - x j‖ ^ 2 ≤ maxMinorant μ x g f y :=
  Finset.le_sup' (fun j => f j + ⟪g j, y - x j⟫ + μ / 2 * ‖y - x j‖ ^ 2) (Finset.mem_univ j)

theorem maxMinorant_le (μ : ℝ) (x g : ι → E) (f : ι → ℝ) (y : E) (c : ℝ)
    (h : ∀ j, f j + ⟪g j, y - x j⟫ + μ / 2 * ‖y - x j‖ ^ 2 ≤ c) : maxMinorant μ x g f y ≤ c :=
  Finset.sup'_le _ _ (fun j _ => h j)

/-- the maximum takes the sample values at the sample points -/
theorem maxMinorant_interp (μ : ℝ) (x g : ι → E) (f : ι → ℝ)
    (h : ∀ i j, f i ≥ f j + ⟪g j, x i - x j⟫ + μ / 2 * ‖x i - x j‖ ^ 2) (i : ι) :
    maxMinorant μ x g f (x i) = f i := by
  apply le_antisymm
  · exact maxMinorant_le μ x g f (x i) (f i) (fun j => h i j)
  · have := piece_le μ x g f (x i) i
    simpa using this

/-- the sample (sub)gradients are (strong) subgradients of the maximum -/
theorem maxMinorant_subgrad (μ : ℝ) (x g : ι → E) (f : ι → ℝ)
    (h : ∀ i j, f i ≥ f j + ⟪g j, x i - x j⟫ + μ / 2 * ‖x i - x j‖ ^ 2) (i : ι) (y : E) :
    maxMinorant μ x g f y ≥ maxMinorant μ x g f (x i) + ⟪g i, y - x i⟫ + μ / 2 * ‖y - x i‖ ^ 2 := by
  rw [maxMinorant_interp μ x g f h i]
  exact piece_le μ x g f y i

/-- norm identity behind strong convexity of each piece -/
theorem norm_combo_sq (a b c : E) (t : ℝ) :
    ‖t • a + (1 - t) • b - c‖ ^ 2
      = t * ‖a - c‖ ^ 2 + (1 - t) * ‖b - c‖ ^ 2 - t * (1 - t) * ‖a - b‖ ^ 2 := by
  have e1 : t • a + (1 - t) • b - c = t • (a - c) + (1 - t) • (b - c) := by
    simp only [smul_sub, sub_smul, one_smul]; abel
  have e2 : a - b = (a - c) - (b - c) := by abel
  rw [e1, e2]
  generalize a - c = u
  generalize b - c = v
  rw [norm_add_sq_real, norm_sub_sq_real, norm_smul, norm_smul, real_inner_smul_left,
    real_inner_smul_right, mul_pow, mul_pow, Real.norm_eq_abs, Real.norm_eq_abs, sq_abs, sq_abs]
  ring

/-- the maximum is `μ`-strongly convex (convex when `μ = 0`) -/
theorem maxMinorant_convex (μ : ℝ) (x g : ι → E) (f : ι → ℝ) (a b : E) (t : ℝ) (h0 : 0 ≤ t) (h1 : t ≤ 1) :
    maxMinorant μ x g f (t • a + (1 - t) • b)
      ≤ t * maxMinorant μ x g f a + (1 - t) * maxMinorant μ x g f b - μ / 2 * t * (1 - t) * ‖a - b‖ ^ 2 := by
  apply maxMinorant_le
  intro j
  have ha := piece_le μ x g f a j
  have hb := piece_le μ x g f b j
  have e1 : t • a + (1 - t) • b - x j = t • (a - x j) + (1 - t) • (b - x j) := by
    simp only [smul_sub, sub_smul, one_smul]; abel
  have e2 : ⟪g j, t • a + (1 - t) • b - x j⟫ = t * ⟪g j, a - x j⟫ + (1 - t) * ⟪g j, b - x j⟫ := by
    rw [e1, inner_add_right, real_inner_smul_right, real_inner_smul_right]
  rw [e2, norm_combo_sq]
  have h1' : 0 ≤ 1 - t := by linarith
  nlinarith [mul_le_mul_of_nonneg_left ha h0, mul_le_mul_of_nonneg_left hb h1']

/-- with bounded sample gradients and `μ = 0` the maximum is `M`-Lipschitz -/
theorem maxMinorant_lipschitz (M : ℝ) (x g : ι → E) (f : ι → ℝ) (hg : ∀ j, ‖g j‖ ≤ M) (y z : E) :
    maxMinorant 0 x g f y ≤ maxMinorant 0 x g f z + M * ‖y - z‖ := by
  apply maxMinorant_le
  intro j
  have hz := piece_le 0 x g f z j
  have e : ⟪g j, y - x j⟫ = ⟪g j, z - x j⟫ + ⟪g j, y - z⟫ := by
    rw [← inner_add_right]; congr 1; abel
  have hcs : ⟪g j, y - z⟫ ≤ ‖g j‖ * ‖y - z‖ := real_inner_le_norm _ _
  have hn : 0 ≤ ‖y - z‖ := norm_nonneg _
  have := mul_le_mul_of_nonneg_right (hg j) hn
  simp only [zero_div, zero_mul, add_zero] at hz ⊢
  rw [e]; linarith

/-! ### statements on the regenerated constraints -/

/-- **ConvexFunction: the generated constraints are sufficient.**  Samples satisfying the regenerated
`convexity` constraint on every ordered pair of distinct samples are the values and subgradients of a
real convex function. -/
theorem ConvexFunction.interpolable (x g : ι → E) (f : ι → ℝ)
    (h : ∀ i j, i ≠ j →
      QForm.den (sv (x i) (g i) (x j) (g j)) (fvOf (f i) (f j)) Gen.ConvexFunction.convexity ≤ 0) :
    ∃ F : E → ℝ,
      (∀ a b t, 0 ≤ t → t ≤ 1 → F (t • a + (1 - t) • b) ≤ t * F a + (1 - t) * F b) ∧
      ∀ i, F (x i) = f i ∧ IsSubgrad F (x i) (g i) := by
  have h' : ∀ i j, f i ≥ f j + ⟪g j, x i - x j⟫ + (0 : ℝ) / 2 * ‖x i - x j‖ ^ 2 := by
    intro i j
    by_cases hij : i = j
    · subst hij; simp
    · have := h i j hij
      rw [den_ConvexFunction_convexity] at this
      simp only [Canon.convexity, sv, fvOf] at this
      linarith
  refine ⟨maxMinorant 0 x g f, ?_, ?_⟩
  · intro a b t h0 h1
    have := maxMinorant_convex 0 x g f a b t h0 h1
    simpa using this
  · intro i
    refine ⟨maxMinorant_interp 0 x g f h' i, ?_⟩
    intro y
    have := maxMinorant_subgrad 0 x g f h' i y
    simpa using this

/-- **ConvexLipschitzFunction: sufficient**, with the Lipschitz bound of the member -/
theorem ConvexLipschitzFunction.interpolable (M : ℚ) (hM : 0 ≤ M) (x g : ι → E) (f : ι → ℝ)
    (hc : ∀ i j, i ≠ j →
      QForm.den (sv (x i) (g i) (x j) (g j)) (fvOf (f i) (f j)) (Gen.ConvexLipschitzFunction.convexity M) ≤ 0)
    (hl : ∀ i, QForm.den (sv (x i) (g i) (x i) (g i)) (fvOf (f i) (f i))
      (Gen.ConvexLipschitzFunction.lipschitz_continuity M) ≤ 0) :
    ∃ F : E → ℝ,
      (∀ a b t, 0 ≤ t → t ≤ 1 → F (t • a + (1 - t) • b) ≤ t * F a + (1 - t) * F b) ∧
      (∀ y z, |F y - F z| ≤ (M : ℝ) * ‖y - z‖) ∧
      ∀ i, F (x i) = f i ∧ IsSubgrad F (x i) (g i) := by
  have hM' : (0 : ℝ) ≤ (M : ℝ) := by exact_mod_cast hM
  have h' : ∀ i j, f i ≥ f j + ⟪g j, x i - x j⟫ + (0 : ℝ) / 2 * ‖x i - x j‖ ^ 2 := by
    intro i j
    by_cases hij : i = j
    · subst hij; simp
    · have := hc i j hij
      rw [den_ConvexLipschitzFunction_convexity] at this
      simp only [Canon.convexity, sv, fvOf] at this
      linarith
  have hg : ∀ j, ‖g j‖ ≤ (M : ℝ) := by
    intro j
    have := hl j
    rw [den_ConvexLipschitzFunction_lipschitz_continuity] at this
    simp only [Canon.gradBound, sv, real_inner_self_eq_norm_sq] at this
    have h0 : 0 ≤ ‖g j‖ := norm_nonneg _
    nlinarith
  refine ⟨maxMinorant 0 x g f, ?_, ?_, ?_⟩
  · intro a b t h0 h1
    have := maxMinorant_convex 0 x g f a b t h0 h1
    simpa using this
  · intro y z
    have h1 := maxMinorant_lipschitz (M : ℝ) x g f hg y z
    have h2 := maxMinorant_lipschitz (M : ℝ) x g f hg z y
    rw [norm_sub_rev] at h2
    rw [abs_le]; constructor <;> linarith
  · intro i
    refine ⟨maxMinorant_interp 0 x g f h' i, ?_⟩
    intro y
    have := maxMinorant_subgrad 0 x g f h' i y
    simpa using this

/-- **StronglyConvexFunction: sufficient** -/
theorem StronglyConvexFunction.interpolable (μ : ℚ) (x g : ι → E) (f : ι → ℝ)
    (h : ∀ i j, i ≠ j →
      QForm.den (sv (x i) (g i) (x j) (g j)) (fvOf (f i) (f j)) (Gen.StronglyConvexFunction.strong_convexity μ) ≤ 0) :
    ∃ F : E → ℝ,
      (∀ a b t, 0 ≤ t → t ≤ 1 →
        F (t • a + (1 - t) • b) ≤ t * F a + (1 - t) * F b - (μ : ℝ) / 2 * t * (1 - t) * ‖a - b‖ ^ 2) ∧
      ∀ i, F (x i) = f i ∧ ∀ y, F y ≥ F (x i) + ⟪g i, y - x i⟫ + (μ : ℝ) / 2 * ‖y - x i‖ ^ 2 := by
  have h' : ∀ i j, f i ≥ f j + ⟪g j, x i - x j⟫ + (μ : ℝ) / 2 * ‖x i - x j‖ ^ 2 := by
    intro i j
    by_cases hij : i = j
    · subst hij; simp
    · have := h i j hij
      rw [den_StronglyConvexFunction_strong_convexity] at this
      simp only [Canon.strongConvexity, sv, fvOf, real_inner_self_eq_norm_sq] at this
      linarith
  exact ⟨maxMinorant (μ : ℝ) x g f, maxMinorant_convex (μ : ℝ) x g f,
    fun i => ⟨maxMinorant_interp (μ : ℝ) x g f h' i, maxMinorant_subgrad (μ : ℝ) x g f h' i⟩⟩

/-- non-vacuity: two samples of `|·|` on the real line (points ±1, subgradients ±1, values 1) meet the
hypothesis of `ConvexFunction.interpolable` -/
example : ∀ i j : Fin 2, i ≠ j →
    QForm.den (sv ((if i = 0 then (1 : ℝ) else -1)) (if i = 0 then (1 : ℝ) else -1)
        (if j = 0 then (1 : ℝ) else -1) (if j = 0 then (1 : ℝ) else -1)) (fvOf 1 1)
      Gen.ConvexFunction.convexity ≤ 0 := by
  intro i j hij
  rw [den_ConvexFunction_convexity]
  simp only [Canon.convexity, sv, fvOf]
  fin_cases i <;> fin_cases j <;> simp at hij ⊢

end Pepit.C04
