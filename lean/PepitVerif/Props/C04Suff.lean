import PepitVerif.Props.C03
import Mathlib.Data.Finset.Lattice.Fold
import Mathlib.Data.Fintype.Basic
import Mathlib.Analysis.Convex.Hull
import Mathlib.Analysis.Normed.Module.Convex
import Mathlib.Analysis.InnerProductSpace.Convex

/-!
# Property C04, sufficiency ("a finite primal value is attained by a real member of the class")

For the classes whose interpolating member has a closed form — `ConvexFunction`,
`ConvexLipschitzFunction`, `StronglyConvexFunction`, `ConvexSupportFunction`, `ConvexIndicatorFunction` — every finite family of samples that satisfies
the *regenerated* constraints (`Gen.*`) on every pair of distinct samples (every such pair is
instantiated: `mem_pairsOf`) is the trace of a real member: the pointwise maximum of the affine
(resp. quadratic) minorants.  Together with the `sound` theorems of C03 this makes the generated
conditions necessary and sufficient for these classes.  (For the smooth classes the interpolating
member is built by conjugation; that direction is literature-trusted, see the trusted base.)
-/

open RealInnerProductSpace

variable {E : Type*} [NormedAddCommGroup E] [InnerProductSpace ℝ E]
variable {ι : Type*} [Fintype ι] [Nonempty ι]

namespace Pepit.C04

/-- the candidate member: maximum of the minorants `f j + ⟪g j, y - x j⟫ + μ/2 ‖y - x j‖²` -/
noncomputable def maxMinorant (μ : ℝ) (x g : ι → E) (f : ι → ℝ) (y : E) : ℝ :=
  Finset.univ.sup' Finset.univ_nonempty (fun j => f j + ⟪g j, y - x j⟫ + μ / 2 * ‖y - x j‖ ^ 2)

theorem piece_le (μ : ℝ) (x g : ι → E) (f : ι → ℝ) (y : E) (j : ι) :
    f j + ⟪g j, y - x j⟫ + μ / 2 * ‖y - x j‖ ^ 2 ≤ maxMinorant μ x g f y :=
  Finset.le_sup' (fun j => f j + ⟪g j, y - x j⟫ + μ / 2 * ‖y - x j‖ ^ 2) (Finset.mem_univ j)

theorem maxMinorant_le (μ : ℝ) (x g : ι → E) (f : ι → ℝ) (y : E) (c : ℝ)
    (h : ∀ j, f j + ⟪g j, y - x j⟫ + μ / 2 * ‖y - x j‖ ^ 2 ≤ c) : maxMinorant μ x g f y ≤ c :=
  Finset.sup'_le _ _ (fun j _ => h j)

/-- the maximum takes the sample values at the sample points -/
theorem maxMinorant_interp (μ : ℝ) (x g : ι → E) (f : ι → ℝ)
    (h : ∀ i j, f i ≥ f j + ⟪g j, x i - x j⟫ + μ / 2 * ‖x i - x j‖ ^ 2) (i : ι) :
    maxMinorant μ x g f (x i) = f i := by
  apply le_antisymm
  · exact maxMinorant_le μ x g f (x i) (f i) (fun j => h i j)
  · have := piece_le μ x g f (x i) i
    simpa using this

/-- the sample (sub)gradients are (strong) subgradients of the maximum -/
theorem maxMinorant_subgrad (μ : ℝ) (x g : ι → E) (f : ι → ℝ)
    (h : ∀ i j, f i ≥ f j + ⟪g j, x i - x j⟫ + μ / 2 * ‖x i - x j‖ ^ 2) (i : ι) (y : E) :
    maxMinorant μ x g f y ≥ maxMinorant μ x g f (x i) + ⟪g i, y - x i⟫ + μ / 2 * ‖y - x i‖ ^ 2 := by
  rw [maxMinorant_interp μ x g f h i]
  exact piece_le μ x g f y i

/-- norm identity behind strong convexity of each piece -/
theorem norm_combo_sq (a b c : E) (t : ℝ) :
    ‖t • a + (1 - t) • b - c‖ ^ 2
      = t * ‖a - c‖ ^ 2 + (1 - t) * ‖b - c‖ ^ 2 - t * (1 - t) * ‖a - b‖ ^ 2 := by
  have e1 : t • a + (1 - t) • b - c = t • (a - c) + (1 - t) • (b - c) := by
    simp only [smul_sub, sub_smul, one_smul]; abel
  have e2 : a - b = (a - c) - (b - c) := by abel
  rw [e1, e2]
  generalize a - c = u
  generalize b - c = v
  rw [norm_add_sq_real, norm_sub_sq_real, norm_smul, norm_smul, real_inner_smul_left,
    real_inner_smul_right, mul_pow, mul_pow, Real.norm_eq_abs, Real.norm_eq_abs, sq_abs, sq_abs]
  ring

/-- the maximum is `μ`-strongly convex (convex when `μ = 0`) -/
theorem maxMinorant_convex (μ : ℝ) (x g : ι → E) (f : ι → ℝ) (a b : E) (t : ℝ) (h0 : 0 ≤ t) (h1 : t ≤ 1) :
    maxMinorant μ x g f (t • a + (1 - t) • b)
      ≤ t * maxMinorant μ x g f a + (1 - t) * maxMinorant μ x g f b - μ / 2 * t * (1 - t) * ‖a - b‖ ^ 2 := by
  apply maxMinorant_le
  intro j
  have ha := piece_le μ x g f a j
  have hb := piece_le μ x g f b j
  have e1 : t • a + (1 - t) • b - x j = t • (a - x j) + (1 - t) • (b - x j) := by
    simp only [smul_sub, sub_smul, one_smul]; abel
  have e2 : ⟪g j, t • a + (1 - t) • b - x j⟫ = t * ⟪g j, a - x j⟫ + (1 - t) * ⟪g j, b - x j⟫ := by
    rw [e1, inner_add_right, real_inner_smul_right, real_inner_smul_right]
  rw [e2, norm_combo_sq]
  have h1' : 0 ≤ 1 - t := by linarith
  nlinarith [mul_le_mul_of_nonneg_left ha h0, mul_le_mul_of_nonneg_left hb h1']

/-- with bounded sample gradients and `μ = 0` the maximum is `M`-Lipschitz -/
theorem maxMinorant_lipschitz (M : ℝ) (x g : ι → E) (f : ι → ℝ) (hg : ∀ j, ‖g j‖ ≤ M) (y z : E) :
    maxMinorant 0 x g f y ≤ maxMinorant 0 x g f z + M * ‖y - z‖ := by
  apply maxMinorant_le
  intro j
  have hz := piece_le 0 x g f z j
  have e : ⟪g j, y - x j⟫ = ⟪g j, z - x j⟫ + ⟪g j, y - z⟫ := by
    rw [← inner_add_right]; congr 1; abel
  have hcs : ⟪g j, y - z⟫ ≤ ‖g j‖ * ‖y - z‖ := real_inner_le_norm _ _
  have hn : 0 ≤ ‖y - z‖ := norm_nonneg _
  have := mul_le_mul_of_nonneg_right (hg j) hn
  simp only [zero_div, zero_mul, add_zero] at hz ⊢
  rw [e]; linarith

/-! ### statements on the regenerated constraints -/

/-- **ConvexFunction: the generated constraints are sufficient.**  Samples satisfying the regenerated
`convexity` constraint on every ordered pair of distinct samples are the values and subgradients of a
real convex function. -/
theorem ConvexFunction.interpolable (x g : ι → E) (f : ι → ℝ)
    (h : ∀ i j, i ≠ j →
      QForm.den (sv (x i) (g i) (x j) (g j)) (fvOf (f i) (f j)) Gen.ConvexFunction.convexity ≤ 0) :
    ∃ F : E → ℝ,
      (∀ a b t, 0 ≤ t → t ≤ 1 → F (t • a + (1 - t) • b) ≤ t * F a + (1 - t) * F b) ∧
      ∀ i, F (x i) = f i ∧ IsSubgrad F (x i) (g i) := by
  have h' : ∀ i j, f i ≥ f j + ⟪g j, x i - x j⟫ + (0 : ℝ) / 2 * ‖x i - x j‖ ^ 2 := by
    intro i j
    by_cases hij : i = j
    · subst hij; simp
    · have := h i j hij
      rw [den_ConvexFunction_convexity] at this
      simp only [Canon.convexity, sv, fvOf] at this
      linarith
  refine ⟨maxMinorant 0 x g f, ?_, ?_⟩
  · intro a b t h0 h1
    have := maxMinorant_convex 0 x g f a b t h0 h1
    simpa using this
  · intro i
    refine ⟨maxMinorant_interp 0 x g f h' i, ?_⟩
    intro y
    have := maxMinorant_subgrad 0 x g f h' i y
    simpa using this

/-- **ConvexLipschitzFunction: sufficient**, with the Lipschitz bound of the member -/
theorem ConvexLipschitzFunction.interpolable (M : ℚ) (hM : 0 ≤ M) (x g : ι → E) (f : ι → ℝ)
    (hc : ∀ i j, i ≠ j →
      QForm.den (sv (x i) (g i) (x j) (g j)) (fvOf (f i) (f j)) (Gen.ConvexLipschitzFunction.convexity M) ≤ 0)
    (hl : ∀ i, QForm.den (sv (x i) (g i) (x i) (g i)) (fvOf (f i) (f i))
      (Gen.ConvexLipschitzFunction.lipschitz_continuity M) ≤ 0) :
    ∃ F : E → ℝ,
      (∀ a b t, 0 ≤ t → t ≤ 1 → F (t • a + (1 - t) • b) ≤ t * F a + (1 - t) * F b) ∧
      (∀ y z, |F y - F z| ≤ (M : ℝ) * ‖y - z‖) ∧
      ∀ i, F (x i) = f i ∧ IsSubgrad F (x i) (g i) := by
  have hM' : (0 : ℝ) ≤ (M : ℝ) := by exact_mod_cast hM
  have h' : ∀ i j, f i ≥ f j + ⟪g j, x i - x j⟫ + (0 : ℝ) / 2 * ‖x i - x j‖ ^ 2 := by
    intro i j
    by_cases hij : i = j
    · subst hij; simp
    · have := hc i j hij
      rw [den_ConvexLipschitzFunction_convexity] at this
      simp only [Canon.convexity, sv, fvOf] at this
      linarith
  have hg : ∀ j, ‖g j‖ ≤ (M : ℝ) := by
    intro j
    have := hl j
    rw [den_ConvexLipschitzFunction_lipschitz_continuity] at this
    simp only [Canon.gradBound, sv, real_inner_self_eq_norm_sq] at this
    have h0 : 0 ≤ ‖g j‖ := norm_nonneg _
    nlinarith
  refine ⟨maxMinorant 0 x g f, ?_, ?_, ?_⟩
  · intro a b t h0 h1
    have := maxMinorant_convex 0 x g f a b t h0 h1
    simpa using this
  · intro y z
    have h1 := maxMinorant_lipschitz (M : ℝ) x g f hg y z
    have h2 := maxMinorant_lipschitz (M : ℝ) x g f hg z y
    rw [norm_sub_rev] at h2
    rw [abs_le]; constructor <;> linarith
  · intro i
    refine ⟨maxMinorant_interp 0 x g f h' i, ?_⟩
    intro y
    have := maxMinorant_subgrad 0 x g f h' i y
    simpa using this

/-- **StronglyConvexFunction: sufficient** -/
theorem StronglyConvexFunction.interpolable (μ : ℚ) (x g : ι → E) (f : ι → ℝ)
    (h : ∀ i j, i ≠ j →
      QForm.den (sv (x i) (g i) (x j) (g j)) (fvOf (f i) (f j)) (Gen.StronglyConvexFunction.strong_convexity μ) ≤ 0) :
    ∃ F : E → ℝ,
      (∀ a b t, 0 ≤ t → t ≤ 1 →
        F (t • a + (1 - t) • b) ≤ t * F a + (1 - t) * F b - (μ : ℝ) / 2 * t * (1 - t) * ‖a - b‖ ^ 2) ∧
      ∀ i, F (x i) = f i ∧ ∀ y, F y ≥ F (x i) + ⟪g i, y - x i⟫ + (μ : ℝ) / 2 * ‖y - x i‖ ^ 2 := by
  have h' : ∀ i j, f i ≥ f j + ⟪g j, x i - x j⟫ + (μ : ℝ) / 2 * ‖x i - x j‖ ^ 2 := by
    intro i j
    by_cases hij : i = j
    · subst hij; simp
    · have := h i j hij
      rw [den_StronglyConvexFunction_strong_convexity] at this
      simp only [Canon.strongConvexity, sv, fvOf, real_inner_self_eq_norm_sq] at this
      linarith
  exact ⟨maxMinorant (μ : ℝ) x g f, maxMinorant_convex (μ : ℝ) x g f,
    fun i => ⟨maxMinorant_interp (μ : ℝ) x g f h' i, maxMinorant_subgrad (μ : ℝ) x g f h' i⟩⟩

/-- non-vacuity: two samples of `|·|` on the real line (points ±1, subgradients ±1, values 1) meet the
hypothesis of `ConvexFunction.interpolable` -/
example : ∀ i j : Fin 2, i ≠ j →
    QForm.den (sv ((if i = 0 then (1 : ℝ) else -1)) (if i = 0 then (1 : ℝ) else -1)
        (if j = 0 then (1 : ℝ) else -1) (if j = 0 then (1 : ℝ) else -1)) (fvOf 1 1)
      Gen.ConvexFunction.convexity ≤ 0 := by
  intro i j hij
  rw [den_ConvexFunction_convexity]
  simp only [Canon.convexity, sv, fvOf]
  fin_cases i <;> fin_cases j <;> simp at hij ⊢

/-- **ConvexSupportFunction: sufficient.**  Samples satisfying the regenerated `fenchel_value`, `lipschitz_continuity`
and `convexity` constraints are the values and subgradients of the support function of the finite set
`{g_j}` — a convex, positively homogeneous, `M`-Lipschitz function -/
theorem ConvexSupportFunction.interpolable (M : ℚ) (hM : 0 ≤ M) (x g : ι → E) (f : ι → ℝ)
    (hf : ∀ i, QForm.den (sv (x i) (g i) (x i) (g i)) (fvOf (f i) (f i)) (Gen.ConvexSupportFunction.fenchel_value M) = 0)
    (hl : ∀ i, QForm.den (sv (x i) (g i) (x i) (g i)) (fvOf (f i) (f i)) (Gen.ConvexSupportFunction.lipschitz_continuity M) ≤ 0)
    (hc : ∀ i j, i ≠ j →
      QForm.den (sv (x i) (g i) (x j) (g j)) (fvOf (f i) (f j)) (Gen.ConvexSupportFunction.convexity M) ≤ 0) :
    ∃ F : E → ℝ,
      (∀ a b t, 0 ≤ t → t ≤ 1 → F (t • a + (1 - t) • b) ≤ t * F a + (1 - t) * F b) ∧
      (∀ y z, |F y - F z| ≤ (M : ℝ) * ‖y - z‖) ∧
      (∀ (c : ℝ) y, 0 ≤ c → F (c • y) = c * F y) ∧
      ∀ i, F (x i) = f i ∧ IsSubgrad F (x i) (g i) := by
  have hfi : ∀ i, f i = ⟪g i, x i⟫ := by
    intro i
    have := hf i
    rw [den_ConvexSupportFunction_fenchel_value] at this
    simp only [Canon.fenchel, sv, fvOf] at this
    linarith
  have hg : ∀ j, ‖g j‖ ≤ (M : ℝ) := by
    intro j
    have hM' : (0 : ℝ) ≤ (M : ℝ) := by exact_mod_cast hM
    have := hl j
    rw [den_ConvexSupportFunction_lipschitz_continuity] at this
    simp only [Canon.gradBound, sv, real_inner_self_eq_norm_sq] at this
    have h0 : 0 ≤ ‖g j‖ := norm_nonneg _
    nlinarith
  have hcv : ∀ i j, ⟪x j, g i⟫ ≤ ⟪x j, g j⟫ := by
    intro i j
    by_cases hij : i = j
    · subst hij; exact le_refl _
    · have := hc i j hij
      rw [den_ConvexSupportFunction_convexity] at this
      simp only [Canon.supportConvexity, sv, inner_sub_right] at this
      linarith
  -- the support function of {g_j}: pieces with zero offset
  set f0 : ι → ℝ := fun j => ⟪g j, x j⟫ with hf0
  have piece : ∀ y j, f0 j + ⟪g j, y - x j⟫ + (0 : ℝ) / 2 * ‖y - x j‖ ^ 2 = ⟪g j, y⟫ := by
    intro y j; simp only [hf0, inner_sub_right]; ring
  have h' : ∀ i j, f0 i ≥ f0 j + ⟪g j, x i - x j⟫ + (0 : ℝ) / 2 * ‖x i - x j‖ ^ 2 := by
    intro i j
    rw [piece (x i) j]
    simp only [hf0]
    rw [real_inner_comm (x i) (g j), real_inner_comm (x i) (g i)]
    exact hcv j i
  have hval : ∀ y, maxMinorant 0 x g f0 y = Finset.univ.sup' Finset.univ_nonempty (fun j => ⟪g j, y⟫) := by
    intro y; unfold maxMinorant; congr 1; funext j; exact piece y j
  refine ⟨maxMinorant 0 x g f0, ?_, ?_, ?_, ?_⟩
  · intro a b t h0 h1
    have := maxMinorant_convex 0 x g f0 a b t h0 h1
    simpa using this
  · intro y z
    have h1 := maxMinorant_lipschitz (M : ℝ) x g f0 hg y z
    have h2 := maxMinorant_lipschitz (M : ℝ) x g f0 hg z y
    rw [norm_sub_rev] at h2
    rw [abs_le]; constructor <;> linarith
  · intro c y hc0
    rw [hval, hval]
    apply le_antisymm
    · apply Finset.sup'_le
      intro j _
      rw [real_inner_smul_right]
      exact mul_le_mul_of_nonneg_left (Finset.le_sup' (fun j => ⟪g j, y⟫) (Finset.mem_univ j)) hc0
    · obtain ⟨j, _, hj⟩ := Finset.exists_mem_eq_sup' Finset.univ_nonempty (fun j => ⟪g j, y⟫)
      rw [hj, ← real_inner_smul_right]
      exact Finset.le_sup' (fun j => ⟪g j, c • y⟫) (Finset.mem_univ j)
  · intro i
    refine ⟨?_, ?_⟩
    · rw [maxMinorant_interp 0 x g f0 h' i, hfi i]
    · intro y
      have := maxMinorant_subgrad 0 x g f0 h' i y
      simpa using this

/-- **ConvexIndicatorFunction: sufficient.**  Samples satisfying the regenerated `value`, `convexity` (normal cone)
and `diameter` constraints are the trace of the indicator function of a convex set of diameter at most `D`: the
convex hull of the sample points -/
theorem ConvexIndicatorFunction.interpolable (D : ℚ) (hD : 0 ≤ D) (x g : ι → E) (f : ι → ℝ)
    (hv : ∀ i, QForm.den (sv (x i) (g i) (x i) (g i)) (fvOf (f i) (f i)) (Gen.ConvexIndicatorFunction.value D) = 0)
    (hn : ∀ i j, i ≠ j →
      QForm.den (sv (x i) (g i) (x j) (g j)) (fvOf (f i) (f j)) (Gen.ConvexIndicatorFunction.convexity D) ≤ 0)
    (hd : ∀ i j, i ≠ j →
      QForm.den (sv (x i) (g i) (x j) (g j)) (fvOf (f i) (f j)) (Gen.ConvexIndicatorFunction.diameter D) ≤ 0) :
    ∃ C : Set E, Convex ℝ C ∧ (∀ y ∈ C, ∀ z ∈ C, ‖y - z‖ ≤ (D : ℝ)) ∧
      ∀ i, x i ∈ C ∧ f i = 0 ∧ ∀ y ∈ C, ⟪g i, y - x i⟫ ≤ 0 := by
  have hD' : (0 : ℝ) ≤ (D : ℝ) := by exact_mod_cast hD
  refine ⟨convexHull ℝ (Set.range x), convex_convexHull ℝ _, ?_, ?_⟩
  · -- diameter: the distance to a fixed point is a convex function, bounded on the generators
    have hpair : ∀ i j, ‖x i - x j‖ ≤ (D : ℝ) := by
      intro i j
      by_cases hij : i = j
      · subst hij; simpa using hD'
      · have := hd i j hij
        rw [den_ConvexIndicatorFunction_diameter] at this
        simp only [Canon.diameter, sv, real_inner_self_eq_norm_sq] at this
        have h0 : 0 ≤ ‖x i - x j‖ := norm_nonneg _
        nlinarith
    have step1 : ∀ i, ∀ z ∈ convexHull ℝ (Set.range x), ‖x i - z‖ ≤ (D : ℝ) := by
      intro i z hz
      have hsub : Set.range x ⊆ Metric.closedBall (x i) (D : ℝ) := by
        rintro _ ⟨j, rfl⟩
        rw [Metric.mem_closedBall, dist_eq_norm, norm_sub_rev]; exact hpair i j
      have := convexHull_min hsub (convex_closedBall (x i) (D : ℝ)) hz
      rw [Metric.mem_closedBall, dist_eq_norm, norm_sub_rev] at this; exact this
    intro y hy z hz
    have hsub : Set.range x ⊆ Metric.closedBall z (D : ℝ) := by
      rintro _ ⟨j, rfl⟩
      rw [Metric.mem_closedBall, dist_eq_norm]; exact step1 j z hz
    have := convexHull_min hsub (convex_closedBall z (D : ℝ)) hy
    rw [Metric.mem_closedBall, dist_eq_norm] at this; exact this
  · intro i
    refine ⟨subset_convexHull ℝ _ ⟨i, rfl⟩, ?_, ?_⟩
    · have := hv i
      rw [den_ConvexIndicatorFunction_value] at this
      simpa [Canon.valueZero, fvOf] using this
    · -- normal cone: a half-space containing every sample point contains the hull
      intro y hy
      have hsub : Set.range x ⊆ {y | ⟪g i, y⟫ ≤ ⟪g i, x i⟫} := by
        rintro _ ⟨j, rfl⟩
        show ⟪g i, x j⟫ ≤ ⟪g i, x i⟫
        by_cases hij : j = i
        · subst hij; exact le_refl _
        · have := hn j i hij
          rw [den_ConvexIndicatorFunction_convexity] at this
          simp only [Canon.normalCone, sv, inner_sub_right] at this
          linarith
      have hconv : Convex ℝ {y : E | ⟪g i, y⟫ ≤ ⟪g i, x i⟫} := by
        intro a ha b hb s t hs ht hst
        show ⟪g i, s • a + t • b⟫ ≤ ⟪g i, x i⟫
        rw [inner_add_right, real_inner_smul_right, real_inner_smul_right]
        have ha' : ⟪g i, a⟫ ≤ ⟪g i, x i⟫ := ha
        have hb' : ⟪g i, b⟫ ≤ ⟪g i, x i⟫ := hb
        calc s * ⟪g i, a⟫ + t * ⟪g i, b⟫ ≤ s * ⟪g i, x i⟫ + t * ⟪g i, x i⟫ :=
              add_le_add (mul_le_mul_of_nonneg_left ha' hs) (mul_le_mul_of_nonneg_left hb' ht)
          _ = ⟪g i, x i⟫ := by rw [← add_mul, hst, one_mul]
      have := convexHull_min hsub hconv hy
      rw [inner_sub_right]
      have h2 : ⟪g i, y⟫ ≤ ⟪g i, x i⟫ := this
      linarith

end Pepit.C04
