import PepitModel.Ref
import PepitVerif.Math.Convex
import Mathlib.Tactic.FieldSimp
import Mathlib.Tactic.Positivity
import PepitVerif.Math.PartitionSem
import Mathlib.Tactic.Linarith
import Mathlib.Tactic.Ring

/-!
# Property C10: shipped examples agree with their published closed-form rates

What a proof assistant can contribute here is limited and stated plainly: the published closed forms
are transcribed once, independently of the example files, as executable definitions (`Model/Ref`,
19 families, each with its documented validity range as a decidable predicate); the check evaluates
them through the model driver on parameter grids *inside* those ranges and compares them with the
value each example computes (relative `1e-3`) and with the closed form the example itself returns.
That the SDP optimum equals the closed form for all parameters is, per family, a theorem of the
optimisation literature and is **not** formalised.  Proved here:
* the rate of the gradient-descent contraction example is attained by real members of the class
  (1-D quadratics of curvature `μ` and `L`), so any sound bound is at least the closed form — together
  with C09 this pins the computed value from both sides for that family;
* the same for one proximal-point step on a 1-D quadratic (resolvent contraction `1/(1+γc)`);
* the "useless partition" reformulation is the identity (`one_block_identity`, C15).
-/

namespace Pepit.C10

/-- `(c/2)·x²` with `μ ≤ c ≤ L` is `μ`-strongly convex and `L`-smooth (first-order form) -/
theorem quadratic_is_member (c μ L : ℝ) (hμ : μ ≤ c) (hL : c ≤ L) (x y : ℝ) :
    c / 2 * y ^ 2 ≥ c / 2 * x ^ 2 + (c * x) * (y - x) + μ / 2 * (y - x) ^ 2 ∧
    c / 2 * y ^ 2 ≤ c / 2 * x ^ 2 + (c * x) * (y - x) + L / 2 * (y - x) ^ 2 := by
  constructor <;> nlinarith [sq_nonneg (y - x)]

/-- a gradient step on `(c/2)·x²` multiplies squared distances by exactly `(1 − γc)²` -/
theorem gd_step_factor (c γ x y : ℝ) :
    ((x - γ * (c * x)) - (y - γ * (c * y))) ^ 2 = (1 - γ * c) ^ 2 * (x - y) ^ 2 := by ring

/-- **the closed form `max((1−γμ)², (1−γL)²)ⁿ` is attained**: after `n` gradient steps on the member
of curvature `c ∈ {μ, L}` the squared distance of two runs is `((1−γc)²)ⁿ` times the initial one -/
theorem gd_contraction_attained (c γ : ℝ) (n : Nat) (x y : ℝ) :
    (((fun z => z - γ * (c * z))^[n]) x - ((fun z => z - γ * (c * z))^[n]) y) ^ 2
      = ((1 - γ * c) ^ 2) ^ n * (x - y) ^ 2 := by
  induction n generalizing x y with
  | zero => simp
  | succ n ih =>
    rw [Function.iterate_succ_apply, Function.iterate_succ_apply, ih, gd_step_factor]; ring

/-- one proximal step on `(c/2)·x²` is the resolvent `x / (1 + γc)`: it satisfies the recorded
relation `x⁺ = x − γ·c·x⁺` and contracts distances by `1/(1+γc)` -/
theorem prox_quadratic (c γ x : ℝ) (h : 1 + γ * c ≠ 0) :
    x / (1 + γ * c) = x - γ * (c * (x / (1 + γ * c))) := by
  field_simp; ring

/-- non-vacuity of the transcribed table: the validity range of the gradient-descent closed form
accepts `γ = 1/L` and rejects `γ = 2/L` -/
example : (Pepit.Ref.find "unconstrained_convex_minimization.gradient_descent").isSome = true := by decide

end Pepit.C10

#print axioms Pepit.C10.gd_contraction_attained
#print axioms Pepit.C10.quadratic_is_member

/-! ## the gradient-descent contraction rate is a valid bound (upper side), for every member -/

namespace Pepit.C10
open RealInnerProductSpace

variable {E : Type*} [NormedAddCommGroup E] [InnerProductSpace ℝ E]

/-- scalar core: with `a = ‖Δx‖²`, `b = ⟪Δg, Δx⟫`, `c = ‖Δg‖²`, the three consequences of
`μ`-strong convexity and `L`-smoothness give the contraction of one gradient step for `0 ≤ γ ≤ 2/L` -/
theorem contraction_scalar (μ L γ a b c : ℝ) (hμ : 0 ≤ μ) (hμL : μ ≤ L) (hγ : 0 ≤ γ) (_ha : 0 ≤ a)
    (h1 : c + μ * L * a ≤ (L + μ) * b) (h2 : μ * a ≤ b) (h3 : b ≤ L * a) :
    a - 2 * γ * b + γ ^ 2 * c ≤ max ((1 - γ * μ) ^ 2) ((1 - γ * L) ^ 2) * a := by
  by_cases hcase : γ * (L + μ) ≤ 2
  · -- short steps: the strong-convexity side is the worst
    have : a - 2 * γ * b + γ ^ 2 * c ≤ (1 - γ * μ) ^ 2 * a := by
      have hc : γ ^ 2 * c ≤ γ ^ 2 * ((L + μ) * b - μ * L * a) :=
        mul_le_mul_of_nonneg_left (by linarith) (sq_nonneg γ)
      have hb : γ * (2 - γ * (L + μ)) * (μ * a) ≤ γ * (2 - γ * (L + μ)) * b :=
        mul_le_mul_of_nonneg_left h2 (mul_nonneg hγ (by linarith))
      nlinarith
    exact le_trans this (mul_le_mul_of_nonneg_right (le_max_left _ _) _ha)
  · -- long steps: the smoothness side is the worst
    push_neg at hcase
    have : a - 2 * γ * b + γ ^ 2 * c ≤ (1 - γ * L) ^ 2 * a := by
      have hc : γ ^ 2 * c ≤ γ ^ 2 * ((L + μ) * b - μ * L * a) :=
        mul_le_mul_of_nonneg_left (by linarith) (sq_nonneg γ)
      have hb : γ * (γ * (L + μ) - 2) * b ≤ γ * (γ * (L + μ) - 2) * (L * a) :=
        mul_le_mul_of_nonneg_left h3 (mul_nonneg hγ (by linarith))
      nlinarith
    exact le_trans this (mul_le_mul_of_nonneg_right (le_max_right _ _) _ha)

/-- **upper side of the gradient-descent contraction example**: for every `μ`-strongly convex,
`L`-smooth `f` (first-order form) and every `γ ≥ 0`, one gradient step from any two points contracts
squared distances by `max((1−γμ)², (1−γL)²)` — the closed form the example returns (per step) -/
theorem gd_contraction_upper (f : E → ℝ) (g : E → E) (μ L γ : ℝ) (hμ : 0 < μ) (hμL : μ < L) (hγ : 0 ≤ γ)
    (hconv : ∀ x y, f y ≥ f x + ⟪g x, y - x⟫ + μ / 2 * ‖y - x‖ ^ 2)
    (hsm : ∀ x y, f y ≤ f x + ⟪g x, y - x⟫ + L / 2 * ‖y - x‖ ^ 2) (x y : E) :
    ‖(x - γ • g x) - (y - γ • g y)‖ ^ 2 ≤ max ((1 - γ * μ) ^ 2) ((1 - γ * L) ^ 2) * ‖x - y‖ ^ 2 := by
  have hL : 0 < L := lt_trans hμ hμL
  -- a, b, c
  set a := ‖x - y‖ ^ 2 with ha
  set b := ⟪g x - g y, x - y⟫ with hb
  set c := ‖g x - g y‖ ^ 2 with hc
  have hexp : ‖(x - γ • g x) - (y - γ • g y)‖ ^ 2 = a - 2 * γ * b + γ ^ 2 * c := by
    have : (x - γ • g x) - (y - γ • g y) = (x - y) - γ • (g x - g y) := by
      rw [smul_sub]; abel
    rw [this, @norm_sub_sq_real, norm_smul, real_inner_smul_right, Real.norm_eq_abs, mul_pow, sq_abs,
      real_inner_comm]
    ring
  -- strong monotonicity and the upper bound, by adding the two first-order inequalities
  have hxy := hconv x y; have hyx := hconv y x
  have sxy := hsm x y; have syx := hsm y x
  have hnorm : ‖y - x‖ ^ 2 = a := by rw [ha, ← norm_neg (y - x), neg_sub]
  have hin1 : ⟪g x, y - x⟫ + ⟪g y, x - y⟫ = -b := by
    rw [hb, inner_sub_left, ← neg_sub x y, inner_neg_right]; ring
  have h2 : μ * a ≤ b := by rw [hnorm] at hxy; nlinarith
  have h3 : b ≤ L * a := by rw [hnorm] at sxy; nlinarith
  -- the co-coercivity-type inequality from the interpolation inequality (both orders)
  have i1 := ssc_interp f g μ L hμ.le hμL hconv hsm x y
  have i2 := ssc_interp f g μ L hμ.le hμL hconv hsm y x
  have hsq : ‖x - y - (1 / L) • (g x - g y)‖ ^ 2 = a - 2 / L * b + 1 / L ^ 2 * c := by
    rw [@norm_sub_sq_real, norm_smul, real_inner_smul_right, Real.norm_eq_abs, mul_pow, sq_abs, real_inner_comm]
    field_simp; ring
  have hsq' : ‖y - x - (1 / L) • (g y - g x)‖ ^ 2 = a - 2 / L * b + 1 / L ^ 2 * c := by
    have : y - x - (1 / L) • (g y - g x) = -(x - y - (1 / L) • (g x - g y)) := by
      rw [smul_sub, smul_sub]; abel
    rw [this, norm_neg, hsq]
  have hc' : ‖g y - g x‖ ^ 2 = c := by rw [hc, ← norm_neg (g y - g x), neg_sub]
  have hin2 : ⟪g y, x - y⟫ + ⟪g x, y - x⟫ = -b := by rw [add_comm]; exact hin1
  rw [hsq] at i1; rw [hsq', hc'] at i2
  have hone : 0 < 1 - μ / L := by
    have : μ / L < 1 := (div_lt_one hL).mpr hμL
    linarith
  -- add the two interpolation inequalities: every product with a parameter is an atom for `linarith`
  have hsum2 : b ≥ 2 * (1 / (2 * L) * c) + 2 * (μ / (2 * (1 - μ / L)) * (a - 2 / L * b + 1 / L ^ 2 * c)) := by
    linarith [i1, i2, hin1]
  have hLne : L ≠ 0 := ne_of_gt hL
  have hd : L - μ ≠ 0 := by linarith
  have hone' : 1 - μ / L = (L - μ) / L := by field_simp
  -- clear denominators by hand: multiply by L (L − μ) > 0
  have hpos : 0 < L * (L - μ) := mul_pos hL (by linarith)
  have hmul := mul_le_mul_of_nonneg_right hsum2.le hpos.le
  have hrhs : (2 * (1 / (2 * L) * c) + 2 * (μ / (2 * (1 - μ / L)) * (a - 2 / L * b + 1 / L ^ 2 * c))) * (L * (L - μ))
      = (L - μ) * c + μ * (L ^ 2 * a - 2 * L * b + c) := by
    rw [hone']; field_simp
  rw [hrhs] at hmul
  have h1 : c + μ * L * a ≤ (L + μ) * b := by
    have : L * (c + μ * L * a) ≤ L * ((L + μ) * b) := by nlinarith [hmul]
    exact le_of_mul_le_mul_left this hL
  rw [hexp]
  exact contraction_scalar μ L γ a b c hμ.le hμL.le hγ (sq_nonneg _) h1 h2 h3

/-- `n` gradient steps from `x` -/
def gdIter (g : E → E) (γ : ℝ) : Nat → E → E
  | 0, x => x
  | n + 1, x => gdIter g γ n (x - γ • g x)

/-- **the closed form of `tutorials.gradient_descent_contraction` (and of `proximal_gradient` with a
zero non-smooth part) is an upper bound for every member and every number of steps**: `n` gradient steps
contract squared distances by `max((1−γμ)², (1−γL)²)ⁿ` — the value `Ref.table` returns (`powN (fmax …) n`) -/
theorem gd_contraction_n (f : E → ℝ) (g : E → E) (μ L γ : ℝ) (hμ : 0 < μ) (hμL : μ < L) (hγ : 0 ≤ γ)
    (hconv : ∀ x y, f y ≥ f x + ⟪g x, y - x⟫ + μ / 2 * ‖y - x‖ ^ 2)
    (hsm : ∀ x y, f y ≤ f x + ⟪g x, y - x⟫ + L / 2 * ‖y - x‖ ^ 2) (n : Nat) (x y : E) :
    ‖gdIter g γ n x - gdIter g γ n y‖ ^ 2
      ≤ max ((1 - γ * μ) ^ 2) ((1 - γ * L) ^ 2) ^ n * ‖x - y‖ ^ 2 := by
  induction n generalizing x y with
  | zero => simp [gdIter]
  | succ n ih =>
    have h1 := ih (x - γ • g x) (y - γ • g y)
    have h2 := gd_contraction_upper f g μ L γ hμ hμL hγ hconv hsm x y
    have hρ : 0 ≤ max ((1 - γ * μ) ^ 2) ((1 - γ * L) ^ 2) ^ n :=
      pow_nonneg (le_max_of_le_left (sq_nonneg _)) n
    calc ‖gdIter g γ (n + 1) x - gdIter g γ (n + 1) y‖ ^ 2
        = ‖gdIter g γ n (x - γ • g x) - gdIter g γ n (y - γ • g y)‖ ^ 2 := rfl
      _ ≤ max ((1 - γ * μ) ^ 2) ((1 - γ * L) ^ 2) ^ n * ‖(x - γ • g x) - (y - γ • g y)‖ ^ 2 := h1
      _ ≤ max ((1 - γ * μ) ^ 2) ((1 - γ * L) ^ 2) ^ n
            * (max ((1 - γ * μ) ^ 2) ((1 - γ * L) ^ 2) * ‖x - y‖ ^ 2) := mul_le_mul_of_nonneg_left h2 hρ
      _ = max ((1 - γ * μ) ^ 2) ((1 - γ * L) ^ 2) ^ (n + 1) * ‖x - y‖ ^ 2 := by ring

/-- in particular the distance to a minimiser (`g x⋆ = 0`) contracts at that rate: the statement of the
example (`‖x_n − x⋆‖² ≤ ρⁿ ‖x_0 − x⋆‖²`) -/
theorem gd_distance_to_optimum (f : E → ℝ) (g : E → E) (μ L γ : ℝ) (hμ : 0 < μ) (hμL : μ < L) (hγ : 0 ≤ γ)
    (hconv : ∀ x y, f y ≥ f x + ⟪g x, y - x⟫ + μ / 2 * ‖y - x‖ ^ 2)
    (hsm : ∀ x y, f y ≤ f x + ⟪g x, y - x⟫ + L / 2 * ‖y - x‖ ^ 2) (xs : E) (hxs : g xs = 0) (n : Nat) (x : E) :
    ‖gdIter g γ n x - xs‖ ^ 2 ≤ max ((1 - γ * μ) ^ 2) ((1 - γ * L) ^ 2) ^ n * ‖x - xs‖ ^ 2 := by
  have hfix : ∀ n, gdIter g γ n xs = xs := by
    intro n; induction n with
    | zero => rfl
    | succ n ih => simp [gdIter, hxs, ih]
  have := gd_contraction_n f g μ L γ hμ hμL hγ hconv hsm n x xs
  rwa [hfix n] at this

end Pepit.C10

#print axioms Pepit.C10.gd_contraction_upper
#print axioms Pepit.C10.gd_contraction_n
