import PepitModel.Ref
import PepitVerif.Math.PartitionSem
import Mathlib.Tactic.Linarith
import Mathlib.Tactic.Ring

/-!
# Property C10: shipped examples agree with their published closed-form rates

What a proof assistant can contribute here is limited and stated plainly: the published closed forms
are transcribed once, independently of the example files, as executable definitions (`Model/Ref`,
19 families, each with its documented validity range as a decidable predicate); the check evaluates
them through the model driver on parameter grids *inside* those ranges and compares them with the
value each example computes (relative `1e-3`) and with the closed form the example itself returns.
That the SDP optimum equals the closed form for all parameters is, per family, a theorem of the
optimisation literature and is **not** formalised.  Proved here:
* the rate of the gradient-descent contraction example is attained by real members of the class
  (1-D quadratics of curvature `μ` and `L`), so any sound bound is at least the closed form — together
  with C09 this pins the computed value from both sides for that family;
* the same for one proximal-point step on a 1-D quadratic (resolvent contraction `1/(1+γc)`);
* the "useless partition" reformulation is the identity (`one_block_identity`, C15).
-/

namespace Pepit.C10

/-- `(c/2)·x²` with `μ ≤ c ≤ L` is `μ`-strongly convex and `L`-smooth (first-order form) -/
theorem quadratic_is_member (c μ L : ℝ) (hμ : μ ≤ c) (hL : c ≤ L) (x y : ℝ) :
    c / 2 * y ^ 2 ≥ c / 2 * x ^ 2 + (c * x) * (y - x) + μ / 2 * (y - x) ^ 2 ∧
    c / 2 * y ^ 2 ≤ c / 2 * x ^ 2 + (c * x) * (y - x) + L / 2 * (y - x) ^ 2 := by
  constructor <;> nlinarith [sq_nonneg (y - x)]

/-- a gradient step on `(c/2)·x²` multiplies squared distances by exactly `(1 − γc)²` -/
theorem gd_step_factor (c γ x y : ℝ) :
    ((x - γ * (c * x)) - (y - γ * (c * y))) ^ 2 = (1 - γ * c) ^ 2 * (x - y) ^ 2 := by ring

/-- **the closed form `max((1−γμ)², (1−γL)²)ⁿ` is attained**: after `n` gradient steps on the member
of curvature `c ∈ {μ, L}` the squared distance of two runs is `((1−γc)²)ⁿ` times the initial one -/
theorem gd_contraction_attained (c γ : ℝ) (n : Nat) (x y : ℝ) :
    (((fun z => z - γ * (c * z))^[n]) x - ((fun z => z - γ * (c * z))^[n]) y) ^ 2
      = ((1 - γ * c) ^ 2) ^ n * (x - y) ^ 2 := by
  induction n generalizing x y with
  | zero => simp
  | succ n ih =>
    rw [Function.iterate_succ_apply, Function.iterate_succ_apply, ih, gd_step_factor]; ring

/-- one proximal step on `(c/2)·x²` is the resolvent `x / (1 + γc)`: it satisfies the recorded
relation `x⁺ = x − γ·c·x⁺` and contracts distances by `1/(1+γc)` -/
theorem prox_quadratic (c γ x : ℝ) (h : 1 + γ * c ≠ 0) :
    x / (1 + γ * c) = x - γ * (c * (x / (1 + γ * c))) := by
  field_simp; ring

/-- non-vacuity of the transcribed table: the validity range of the gradient-descent closed form
accepts `γ = 1/L` and rejects `γ = 2/L` -/
example : (Pepit.Ref.find "unconstrained_convex_minimization.gradient_descent").isSome = true := by decide

end Pepit.C10

#print axioms Pepit.C10.gd_contraction_attained
#print axioms Pepit.C10.quadratic_is_member
