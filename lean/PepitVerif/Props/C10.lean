import PepitModel.Ref
import PepitVerif.Math.Convex
import Mathlib.Tactic.FieldSimp
import Mathlib.Tactic.Positivity
import PepitVerif.Math.PartitionSem
import Mathlib.Tactic.Linarith
import Mathlib.Tactic.Ring
import Mathlib.Analysis.SpecialFunctions.Pow.Real
import Mathlib.Analysis.SpecialFunctions.Sqrt
import Mathlib.Algebra.BigOperators.Group.Finset.Basic
import Mathlib.Algebra.Order.BigOperators.Group.Finset

/-!
# Property C10: shipped examples agree with their published closed-form rates

What a proof assistant can contribute here is limited and stated plainly: the published closed forms
are transcribed once, independently of the example files, as executable definitions (`Model/Ref`,
19 families, each with its documented validity range as a decidable predicate); the check evaluates
them through the model driver on parameter grids *inside* those ranges and compares them with the
value each example computes (relative `1e-3`) and with the closed form the example itself returns.
That the SDP optimum equals the closed form for all parameters is, per family, a theorem of the
optimisation literature and is **not** formalised.  Proved here:
* the rate of the gradient-descent contraction example is attained by real members of the class
  (1-D quadratics of curvature `μ` and `L`), so any sound bound is at least the closed form — together
  with C09 this pins the computed value from both sides for that family;
* the same for one proximal-point step on a 1-D quadratic (resolvent contraction `1/(1+γc)`);
* the "useless partition" reformulation is the identity (`one_block_identity`, C15).
-/

namespace Pepit.C10

/-- `(c/2)·x²` with `μ ≤ c ≤ L` is `μ`-strongly convex and `L`-smooth (first-order form) -/
theorem quadratic_is_member (c μ L : ℝ) (hμ : μ ≤ c) (hL : c ≤ L) (x y : ℝ) :
    c / 2 * y ^ 2 ≥ c / 2 * x ^ 2 + (c * x) * (y - x) + μ / 2 * (y - x) ^ 2 ∧
    c / 2 * y ^ 2 ≤ c / 2 * x ^ 2 + (c * x) * (y - x) + L / 2 * (y - x) ^ 2 := by
  constructor <;> nlinarith [sq_nonneg (y - x)]

/-- a gradient step on `(c/2)·x²` multiplies squared distances by exactly `(1 − γc)²` -/
theorem gd_step_factor (c γ x y : ℝ) :
    ((x - γ * (c * x)) - (y - γ * (c * y))) ^ 2 = (1 - γ * c) ^ 2 * (x - y) ^ 2 := by ring

/-- **the closed form `max((1−γμ)², (1−γL)²)ⁿ` is attained**: after `n` gradient steps on the member
of curvature `c ∈ {μ, L}` the squared distance of two runs is `((1−γc)²)ⁿ` times the initial one -/
theorem gd_contraction_attained (c γ : ℝ) (n : Nat) (x y : ℝ) :
    (((fun z => z - γ * (c * z))^[n]) x - ((fun z => z - γ * (c * z))^[n]) y) ^ 2
      = ((1 - γ * c) ^ 2) ^ n * (x - y) ^ 2 := by
  induction n generalizing x y with
  | zero => simp
  | succ n ih =>
    rw [Function.iterate_succ_apply, Function.iterate_succ_apply, ih, gd_step_factor]; ring

/-- one proximal step on `(c/2)·x²` is the resolvent `x / (1 + γc)`: it satisfies the recorded
relation `x⁺ = x − γ·c·x⁺` and contracts distances by `1/(1+γc)` -/
theorem prox_quadratic (c γ x : ℝ) (h : 1 + γ * c ≠ 0) :
    x / (1 + γ * c) = x - γ * (c * (x / (1 + γ * c))) := by
  field_simp; ring

/-- non-vacuity of the transcribed table: the validity range of the gradient-descent closed form
accepts `γ = 1/L` and rejects `γ = 2/L` -/
example : (Pepit.Ref.find "unconstrained_convex_minimization.gradient_descent").isSome = true := by decide

end Pepit.C10

#print axioms Pepit.C10.gd_contraction_attained
#print axioms Pepit.C10.quadratic_is_member

/-! ## the gradient-descent contraction rate is a valid bound (upper side), for every member -/

namespace Pepit.C10
open RealInnerProductSpace

variable {E : Type*} [NormedAddCommGroup E] [InnerProductSpace ℝ E]

/-- scalar core: with `a = ‖Δx‖²`, `b = ⟪Δg, Δx⟫`, `c = ‖Δg‖²`, the three consequences of
`μ`-strong convexity and `L`-smoothness give the contraction of one gradient step for `0 ≤ γ ≤ 2/L` -/
theorem contraction_scalar (μ L γ a b c : ℝ) (hμ : 0 ≤ μ) (hμL : μ ≤ L) (hγ : 0 ≤ γ) (_ha : 0 ≤ a)
    (h1 : c + μ * L * a ≤ (L + μ) * b) (h2 : μ * a ≤ b) (h3 : b ≤ L * a) :
    a - 2 * γ * b + γ ^ 2 * c ≤ max ((1 - γ * μ) ^ 2) ((1 - γ * L) ^ 2) * a := by
  by_cases hcase : γ * (L + μ) ≤ 2
  · -- short steps: the strong-convexity side is the worst
    have : a - 2 * γ * b + γ ^ 2 * c ≤ (1 - γ * μ) ^ 2 * a := by
      have hc : γ ^ 2 * c ≤ γ ^ 2 * ((L + μ) * b - μ * L * a) :=
        mul_le_mul_of_nonneg_left (by linarith) (sq_nonneg γ)
      have hb : γ * (2 - γ * (L + μ)) * (μ * a) ≤ γ * (2 - γ * (L + μ)) * b :=
        mul_le_mul_of_nonneg_left h2 (mul_nonneg hγ (by linarith))
      nlinarith
    exact le_trans this (mul_le_mul_of_nonneg_right (le_max_left _ _) _ha)
  · -- long steps: the smoothness side is the worst
    push_neg at hcase
    have : a - 2 * γ * b + γ ^ 2 * c ≤ (1 - γ * L) ^ 2 * a := by
      have hc : γ ^ 2 * c ≤ γ ^ 2 * ((L + μ) * b - μ * L * a) :=
        mul_le_mul_of_nonneg_left (by linarith) (sq_nonneg γ)
      have hb : γ * (γ * (L + μ) - 2) * b ≤ γ * (γ * (L + μ) - 2) * (L * a) :=
        mul_le_mul_of_nonneg_left h3 (mul_nonneg hγ (by linarith))
      nlinarith
    exact le_trans this (mul_le_mul_of_nonneg_right (le_max_right _ _) _ha)

/-- **upper side of the gradient-descent contraction example**: for every `μ`-strongly convex,
`L`-smooth `f` (first-order form) and every `γ ≥ 0`, one gradient step from any two points contracts
squared distances by `max((1−γμ)², (1−γL)²)` — the closed form the example returns (per step) -/
theorem gd_contraction_upper (f : E → ℝ) (g : E → E) (μ L γ : ℝ) (hμ : 0 < μ) (hμL : μ < L) (hγ : 0 ≤ γ)
    (hconv : ∀ x y, f y ≥ f x + ⟪g x, y - x⟫ + μ / 2 * ‖y - x‖ ^ 2)
    (hsm : ∀ x y, f y ≤ f x + ⟪g x, y - x⟫ + L / 2 * ‖y - x‖ ^ 2) (x y : E) :
    ‖(x - γ • g x) - (y - γ • g y)‖ ^ 2 ≤ max ((1 - γ * μ) ^ 2) ((1 - γ * L) ^ 2) * ‖x - y‖ ^ 2 := by
  have hL : 0 < L := lt_trans hμ hμL
  -- a, b, c
  set a := ‖x - y‖ ^ 2 with ha
  set b := ⟪g x - g y, x - y⟫ with hb
  set c := ‖g x - g y‖ ^ 2 with hc
  have hexp : ‖(x - γ • g x) - (y - γ • g y)‖ ^ 2 = a - 2 * γ * b + γ ^ 2 * c := by
    have : (x - γ • g x) - (y - γ • g y) = (x - y) - γ • (g x - g y) := by
      rw [smul_sub]; abel
    rw [this, @norm_sub_sq_real, norm_smul, real_inner_smul_right, Real.norm_eq_abs, mul_pow, sq_abs,
      real_inner_comm]
    ring
  -- strong monotonicity and the upper bound, by adding the two first-order inequalities
  have hxy := hconv x y; have hyx := hconv y x
  have sxy := hsm x y; have syx := hsm y x
  have hnorm : ‖y - x‖ ^ 2 = a := by rw [ha, ← norm_neg (y - x), neg_sub]
  have hin1 : ⟪g x, y - x⟫ + ⟪g y, x - y⟫ = -b := by
    rw [hb, inner_sub_left, ← neg_sub x y, inner_neg_right]; ring
  have h2 : μ * a ≤ b := by rw [hnorm] at hxy; nlinarith
  have h3 : b ≤ L * a := by rw [hnorm] at sxy; nlinarith
  -- the co-coercivity-type inequality from the interpolation inequality (both orders)
  have i1 := ssc_interp f g μ L hμ.le hμL hconv hsm x y
  have i2 := ssc_interp f g μ L hμ.le hμL hconv hsm y x
  have hsq : ‖x - y - (1 / L) • (g x - g y)‖ ^ 2 = a - 2 / L * b + 1 / L ^ 2 * c := by
    rw [@norm_sub_sq_real, norm_smul, real_inner_smul_right, Real.norm_eq_abs, mul_pow, sq_abs, real_inner_comm]
    field_simp; ring
  have hsq' : ‖y - x - (1 / L) • (g y - g x)‖ ^ 2 = a - 2 / L * b + 1 / L ^ 2 * c := by
    have : y - x - (1 / L) • (g y - g x) = -(x - y - (1 / L) • (g x - g y)) := by
      rw [smul_sub, smul_sub]; abel
    rw [this, norm_neg, hsq]
  have hc' : ‖g y - g x‖ ^ 2 = c := by rw [hc, ← norm_neg (g y - g x), neg_sub]
  have hin2 : ⟪g y, x - y⟫ + ⟪g x, y - x⟫ = -b := by rw [add_comm]; exact hin1
  rw [hsq] at i1; rw [hsq', hc'] at i2
  have hone : 0 < 1 - μ / L := by
    have : μ / L < 1 := (div_lt_one hL).mpr hμL
    linarith
  -- add the two interpolation inequalities: every product with a parameter is an atom for `linarith`
  have hsum2 : b ≥ 2 * (1 / (2 * L) * c) + 2 * (μ / (2 * (1 - μ / L)) * (a - 2 / L * b + 1 / L ^ 2 * c)) := by
    linarith [i1, i2, hin1]
  have hLne : L ≠ 0 := ne_of_gt hL
  have hd : L - μ ≠ 0 := by linarith
  have hone' : 1 - μ / L = (L - μ) / L := by field_simp
  -- clear denominators by hand: multiply by L (L − μ) > 0
  have hpos : 0 < L * (L - μ) := mul_pos hL (by linarith)
  have hmul := mul_le_mul_of_nonneg_right hsum2.le hpos.le
  have hrhs : (2 * (1 / (2 * L) * c) + 2 * (μ / (2 * (1 - μ / L)) * (a - 2 / L * b + 1 / L ^ 2 * c))) * (L * (L - μ))
      = (L - μ) * c + μ * (L ^ 2 * a - 2 * L * b + c) := by
    rw [hone']; field_simp
  rw [hrhs] at hmul
  have h1 : c + μ * L * a ≤ (L + μ) * b := by
    have : L * (c + μ * L * a) ≤ L * ((L + μ) * b) := by nlinarith [hmul]
    exact le_of_mul_le_mul_left this hL
  rw [hexp]
  exact contraction_scalar μ L γ a b c hμ.le hμL.le hγ (sq_nonneg _) h1 h2 h3

/-- `n` gradient steps from `x` -/
def gdIter (g : E → E) (γ : ℝ) : Nat → E → E
  | 0, x => x
  | n + 1, x => gdIter g γ n (x - γ • g x)

/-- **the closed form of `tutorials.gradient_descent_contraction` (and of `proximal_gradient` with a
zero non-smooth part) is an upper bound for every member and every number of steps**: `n` gradient steps
contract squared distances by `max((1−γμ)², (1−γL)²)ⁿ` — the value `Ref.table` returns (`powN (fmax …) n`) -/
theorem gd_contraction_n (f : E → ℝ) (g : E → E) (μ L γ : ℝ) (hμ : 0 < μ) (hμL : μ < L) (hγ : 0 ≤ γ)
    (hconv : ∀ x y, f y ≥ f x + ⟪g x, y - x⟫ + μ / 2 * ‖y - x‖ ^ 2)
    (hsm : ∀ x y, f y ≤ f x + ⟪g x, y - x⟫ + L / 2 * ‖y - x‖ ^ 2) (n : Nat) (x y : E) :
    ‖gdIter g γ n x - gdIter g γ n y‖ ^ 2
      ≤ max ((1 - γ * μ) ^ 2) ((1 - γ * L) ^ 2) ^ n * ‖x - y‖ ^ 2 := by
  induction n generalizing x y with
  | zero => simp [gdIter]
  | succ n ih =>
    have h1 := ih (x - γ • g x) (y - γ • g y)
    have h2 := gd_contraction_upper f g μ L γ hμ hμL hγ hconv hsm x y
    have hρ : 0 ≤ max ((1 - γ * μ) ^ 2) ((1 - γ * L) ^ 2) ^ n :=
      pow_nonneg (le_max_of_le_left (sq_nonneg _)) n
    calc ‖gdIter g γ (n + 1) x - gdIter g γ (n + 1) y‖ ^ 2
        = ‖gdIter g γ n (x - γ • g x) - gdIter g γ n (y - γ • g y)‖ ^ 2 := rfl
      _ ≤ max ((1 - γ * μ) ^ 2) ((1 - γ * L) ^ 2) ^ n * ‖(x - γ • g x) - (y - γ • g y)‖ ^ 2 := h1
      _ ≤ max ((1 - γ * μ) ^ 2) ((1 - γ * L) ^ 2) ^ n
            * (max ((1 - γ * μ) ^ 2) ((1 - γ * L) ^ 2) * ‖x - y‖ ^ 2) := mul_le_mul_of_nonneg_left h2 hρ
      _ = max ((1 - γ * μ) ^ 2) ((1 - γ * L) ^ 2) ^ (n + 1) * ‖x - y‖ ^ 2 := by ring

/-- in particular the distance to a minimiser (`g x⋆ = 0`) contracts at that rate: the statement of the
example (`‖x_n − x⋆‖² ≤ ρⁿ ‖x_0 − x⋆‖²`) -/
theorem gd_distance_to_optimum (f : E → ℝ) (g : E → E) (μ L γ : ℝ) (hμ : 0 < μ) (hμL : μ < L) (hγ : 0 ≤ γ)
    (hconv : ∀ x y, f y ≥ f x + ⟪g x, y - x⟫ + μ / 2 * ‖y - x‖ ^ 2)
    (hsm : ∀ x y, f y ≤ f x + ⟪g x, y - x⟫ + L / 2 * ‖y - x‖ ^ 2) (xs : E) (hxs : g xs = 0) (n : Nat) (x : E) :
    ‖gdIter g γ n x - xs‖ ^ 2 ≤ max ((1 - γ * μ) ^ 2) ((1 - γ * L) ^ 2) ^ n * ‖x - xs‖ ^ 2 := by
  have hfix : ∀ n, gdIter g γ n xs = xs := by
    intro n; induction n with
    | zero => rfl
    | succ n ih => simp [gdIter, hxs, ih]
  have := gd_contraction_n f g μ L γ hμ hμL hγ hconv hsm n x xs
  rwa [hfix n] at this

/-- **no real run beats the bound of the gradient-descent contraction example** (property C09 for this
family, all parameters, all members, all dimensions, all starting points): if `‖x0 − x⋆‖² ≤ R²` then after `n`
steps `‖x_n − x⋆‖² ≤ max((1−γμ)², (1−γL)²)ⁿ · R²`, the value the example returns (closed form, and — by the
correspondence checks — the computed one) for the initial condition `R² = 1` -/
theorem gd_no_run_beats_bound (f : E → ℝ) (g : E → E) (μ L γ : ℝ) (hμ : 0 < μ) (hμL : μ < L) (hγ : 0 ≤ γ)
    (hconv : ∀ x y, f y ≥ f x + ⟪g x, y - x⟫ + μ / 2 * ‖y - x‖ ^ 2)
    (hsm : ∀ x y, f y ≤ f x + ⟪g x, y - x⟫ + L / 2 * ‖y - x‖ ^ 2) (xs : E) (hxs : g xs = 0) (n : Nat) (x0 : E)
    (R2 : ℝ) (h0 : ‖x0 - xs‖ ^ 2 ≤ R2) :
    ‖gdIter g γ n x0 - xs‖ ^ 2 ≤ max ((1 - γ * μ) ^ 2) ((1 - γ * L) ^ 2) ^ n * R2 := by
  have h1 := gd_distance_to_optimum f g μ L γ hμ hμL hγ hconv hsm xs hxs n x0
  have hρ : 0 ≤ max ((1 - γ * μ) ^ 2) ((1 - γ * L) ^ 2) ^ n :=
    pow_nonneg (le_max_of_le_left (sq_nonneg _)) n
  exact le_trans h1 (mul_le_mul_of_nonneg_left h0 hρ)

end Pepit.C10

#print axioms Pepit.C10.gd_contraction_upper
#print axioms Pepit.C10.gd_contraction_n

/-! ## the subgradient method: the published bound `M R / √(n+1)` is valid for every member -/

section subgradient
open RealInnerProductSpace
variable {E : Type*} [NormedAddCommGroup E] [InnerProductSpace ℝ E]

namespace Pepit.C10

/-- the subgradient method: `x_{k+1} = x_k − γ g_k`, with `g_k` the subgradient used at step `k` -/
def subgIter (g : Nat → E) (γ : ℝ) (x0 : E) : Nat → E
  | 0 => x0
  | k + 1 => subgIter g γ x0 k - γ • g k

/-- the telescoped distance inequality of the subgradient method -/
theorem subg_telescope (f : E → ℝ) (g : Nat → E) (γ M : ℝ) (hγ : 0 ≤ γ) (x0 xs : E)
    (hsub : ∀ k y, f y ≥ f (subgIter g γ x0 k) + ⟪g k, y - subgIter g γ x0 k⟫)
    (hM : ∀ k, ‖g k‖ ≤ M) (n : Nat) :
    ‖subgIter g γ x0 (n + 1) - xs‖ ^ 2 + 2 * γ * (Finset.sum (Finset.range (n + 1)) (fun k => f (subgIter g γ x0 k) - f xs))
      ≤ ‖x0 - xs‖ ^ 2 + (n + 1) * (γ ^ 2 * M ^ 2) := by
  induction n with
  | zero =>
    simp only [Finset.range_one, Finset.sum_singleton, subgIter, Nat.cast_zero, zero_add, one_mul]
    have h1 := hsub 0 xs
    simp only [subgIter] at h1
    have e : x0 - γ • g 0 - xs = (x0 - xs) - γ • g 0 := by abel
    rw [e, @norm_sub_sq_real, real_inner_smul_right, norm_smul, mul_pow, Real.norm_eq_abs, sq_abs]
    have hg : ‖g 0‖ ^ 2 ≤ M ^ 2 := pow_le_pow_left₀ (norm_nonneg _) (hM 0) 2
    have hin : ⟪x0 - xs, g 0⟫ = -⟪g 0, xs - x0⟫ := by
      rw [real_inner_comm, ← neg_sub xs x0, inner_neg_right]
    rw [hin]
    nlinarith [mul_nonneg hγ hγ, mul_le_mul_of_nonneg_left hg (mul_nonneg hγ hγ)]
  | succ n ih =>
    rw [Finset.sum_range_succ]
    have h1 := hsub (n + 1) xs
    set xk := subgIter g γ x0 (n + 1) with hxk
    have hstep : subgIter g γ x0 (n + 1 + 1) = xk - γ • g (n + 1) := rfl
    rw [hstep]
    have e : xk - γ • g (n + 1) - xs = (xk - xs) - γ • g (n + 1) := by abel
    rw [e, @norm_sub_sq_real, real_inner_smul_right, norm_smul, mul_pow, Real.norm_eq_abs, sq_abs]
    have hg : ‖g (n + 1)‖ ^ 2 ≤ M ^ 2 := pow_le_pow_left₀ (norm_nonneg _) (hM (n + 1)) 2
    have hin : ⟪xk - xs, g (n + 1)⟫ = -⟪g (n + 1), xs - xk⟫ := by
      rw [real_inner_comm, ← neg_sub xs xk, inner_neg_right]
    rw [hin]
    push_cast
    nlinarith [mul_nonneg hγ hγ, mul_le_mul_of_nonneg_left hg (mul_nonneg hγ hγ), ih]

/-- **the closed form of `subgradient_method` is an upper bound for every member and every number of steps**: for a
convex function with subgradients bounded by `M` along the run, `‖x0 − x⋆‖ ≤ R` and any step `γ > 0`, the best
iterate satisfies `min_k f(x_k) − f⋆ ≤ (R² + (n+1) γ² M²) / (2 γ (n+1))` (stated for some `k ≤ n`) -/
theorem subgradient_bound (f : E → ℝ) (g : Nat → E) (γ M R : ℝ) (hγ : 0 < γ) (x0 xs : E)
    (hsub : ∀ k y, f y ≥ f (subgIter g γ x0 k) + ⟪g k, y - subgIter g γ x0 k⟫)
    (hM : ∀ k, ‖g k‖ ≤ M) (hR : ‖x0 - xs‖ ≤ R) (n : Nat) :
    ∃ k, k ≤ n ∧ f (subgIter g γ x0 k) - f xs ≤ (R ^ 2 + (n + 1) * (γ ^ 2 * M ^ 2)) / (2 * γ * (n + 1)) := by
  by_contra hcon
  push_neg at hcon
  have hall : ∀ k ∈ Finset.range (n + 1),
      (R ^ 2 + (n + 1) * (γ ^ 2 * M ^ 2)) / (2 * γ * (n + 1)) < f (subgIter g γ x0 k) - f xs := by
    intro k hk
    exact hcon k (Nat.lt_succ_iff.mp (Finset.mem_range.mp hk))
  have hsum := Finset.sum_lt_sum_of_nonempty (s := Finset.range (n + 1)) (by simp) hall
  rw [Finset.sum_const, Finset.card_range, nsmul_eq_mul] at hsum
  have htel := subg_telescope f g γ M hγ.le x0 xs hsub hM n
  have hR2 : ‖x0 - xs‖ ^ 2 ≤ R ^ 2 := pow_le_pow_left₀ (norm_nonneg _) hR 2
  have hn1 : (0 : ℝ) < (n : ℝ) + 1 := by positivity
  have hpos : 0 < 2 * γ * ((n : ℝ) + 1) := by positivity
  have hcancel : ((n + 1 : ℕ) : ℝ) * ((R ^ 2 + (n + 1) * (γ ^ 2 * M ^ 2)) / (2 * γ * (n + 1)))
      = (R ^ 2 + (n + 1) * (γ ^ 2 * M ^ 2)) / (2 * γ) := by
    push_cast; field_simp
  rw [hcancel] at hsum
  have h2 : (R ^ 2 + (n + 1) * (γ ^ 2 * M ^ 2)) < 2 * γ * Finset.sum (Finset.range (n + 1)) (fun k => f (subgIter g γ x0 k) - f xs) := by
    have := mul_lt_mul_of_pos_left hsum (by positivity : (0 : ℝ) < 2 * γ)
    have e : 2 * γ * ((R ^ 2 + (n + 1) * (γ ^ 2 * M ^ 2)) / (2 * γ)) = R ^ 2 + (n + 1) * (γ ^ 2 * M ^ 2) := by
      field_simp
    rwa [e] at this
  have h3 : 0 ≤ ‖subgIter g γ x0 (n + 1) - xs‖ ^ 2 := sq_nonneg _
  linarith

/-- with the step of the example, `γ = R / (M √(n+1))`, the bound is the published `M R / √(n+1)` -/
theorem subgradient_closed_form (M R : ℝ) (hM : 0 < M) (hR : 0 < R) (n : Nat) :
    (R ^ 2 + (n + 1) * ((R / (M * Real.sqrt (n + 1))) ^ 2 * M ^ 2)) / (2 * (R / (M * Real.sqrt (n + 1))) * (n + 1))
      = M * R / Real.sqrt (n + 1) := by
  have hn : (0 : ℝ) < (n : ℝ) + 1 := by positivity
  have hs : 0 < Real.sqrt ((n : ℝ) + 1) := Real.sqrt_pos.mpr hn
  have hsq : Real.sqrt ((n : ℝ) + 1) ^ 2 = (n : ℝ) + 1 := Real.sq_sqrt hn.le
  have hsne : Real.sqrt ((n : ℝ) + 1) ≠ 0 := ne_of_gt hs
  have hMne : M ≠ 0 := ne_of_gt hM
  have hRne : R ≠ 0 := ne_of_gt hR
  field_simp
  rw [hsq]
  ring

end Pepit.C10

end subgradient

/-! ## proximal gradient: the closed form of `proximal_gradient` (the GD factor) is valid for every member -/

section proxgrad
open RealInnerProductSpace
variable {E : Type*} [NormedAddCommGroup E] [InnerProductSpace ℝ E]

namespace Pepit.C10

/-- **proximal steps are nonexpansive**, in the form PEPit encodes them: `u = a − γ s_u`, `v = b − γ s_v` with
`s_u ∈ ∂h(u)`, `s_v ∈ ∂h(v)` for a convex `h` (subgradient inequalities) and `γ ≥ 0` -/
theorem prox_nonexpansive (h : E → ℝ) (γ : ℝ) (hγ : 0 ≤ γ) (a b u v su sv : E)
    (hu : u = a - γ • su) (hv : v = b - γ • sv)
    (hsu : ∀ y, h y ≥ h u + ⟪su, y - u⟫) (hsv : ∀ y, h y ≥ h v + ⟪sv, y - v⟫) :
    ‖u - v‖ ^ 2 ≤ ‖a - b‖ ^ 2 := by
  -- monotonicity of the subdifferential
  have h1 := hsu v
  have h2 := hsv u
  have hmono : 0 ≤ ⟪su - sv, u - v⟫ := by
    have e1 : ⟪su, v - u⟫ = -⟪su, u - v⟫ := by rw [← neg_sub u v, inner_neg_right]
    rw [inner_sub_left]; linarith
  have hab : a - b = (u - v) + γ • (su - sv) := by rw [hu, hv]; simp only [smul_sub]; abel
  rw [hab, @norm_add_sq_real, real_inner_smul_right, norm_smul, mul_pow, Real.norm_eq_abs, sq_abs]
  have h3 : 0 ≤ γ * ⟪u - v, su - sv⟫ := by rw [real_inner_comm]; exact mul_nonneg hγ hmono
  have h4 : 0 ≤ γ ^ 2 * ‖su - sv‖ ^ 2 := by positivity
  linarith

/-- **one proximal-gradient step contracts by the closed form of `proximal_gradient`** (the same factor as gradient
descent): `f` `μ`-strongly convex and `L`-smooth, `h` convex, any two starting points -/
theorem pg_contraction (f : E → ℝ) (g : E → E) (h : E → ℝ) (μ L γ : ℝ) (hμ : 0 < μ) (hμL : μ < L) (hγ : 0 ≤ γ)
    (hconv : ∀ x y, f y ≥ f x + ⟪g x, y - x⟫ + μ / 2 * ‖y - x‖ ^ 2)
    (hsm : ∀ x y, f y ≤ f x + ⟪g x, y - x⟫ + L / 2 * ‖y - x‖ ^ 2)
    (x y u v su sv : E)
    (hu : u = (x - γ • g x) - γ • su) (hv : v = (y - γ • g y) - γ • sv)
    (hsu : ∀ z, h z ≥ h u + ⟪su, z - u⟫) (hsv : ∀ z, h z ≥ h v + ⟪sv, z - v⟫) :
    ‖u - v‖ ^ 2 ≤ max ((1 - γ * μ) ^ 2) ((1 - γ * L) ^ 2) * ‖x - y‖ ^ 2 :=
  le_trans (prox_nonexpansive h γ hγ _ _ u v su sv hu hv hsu hsv)
    (gd_contraction_upper f g μ L γ hμ hμL hγ hconv hsm x y)

end Pepit.C10

end proxgrad

#print axioms Pepit.C10.subgradient_bound
#print axioms Pepit.C10.pg_contraction
