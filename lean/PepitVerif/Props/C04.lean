import PepitVerif.Math.PairsSem
import PepitVerif.Math.ClassForms

/-!
# Property C04: class constraints are complete and independent of the declaration order

* completeness / order independence of the two enumerators (`Math/PairsSem`, on `Model/Pairs`,
  the definitions the world model executes): `pairIdx_same_complete`, `pairIdx_same_symmetric`,
  `pairIdx_symmetric_covers`, `nodup_pairIdx`, `mem_pairsOf`, `pairsOf_perm_invariant`,
  `mem_pairsTwo`, `pairsTwo_perm_invariant`.
* equivalence with the documented conditions: one theorem `den_<Class>_<cond>` per *regenerated*
  formula (`Math/ClassForms`): the generated quadratic form denotes the canonical (documented)
  inequality for every sample and parameter in the documented range.
-/

namespace Pepit.C04

/-- with the symmetry halving, every unordered pair of distinct samples is still instantiated in
one of its two orders (so a symmetric condition loses nothing) -/
theorem symmetric_condition_complete (n i j : Nat) (hi : i < n) (hj : j < n) (hne : i ≠ j) :
    (i, j) ∈ pairIdx n n true ∨ (j, i) ∈ pairIdx n n true :=
  (pairIdx_symmetric_covers n i j hi hj hne).elim (fun h => Or.inl h.1) (fun h => Or.inr h.1)

/-- no pair is instantiated twice -/
theorem no_duplicate_pairs (n1 n2 : Nat) (s : Bool) : (pairIdx n1 n2 s).Nodup := nodup_pairIdx n1 n2 s

/-- non-vacuity: 3 samples give the 6 ordered pairs, or the 3 upper-triangular ones -/
example : pairIdx 3 3 false = [(0, 1), (0, 2), (1, 0), (1, 2), (2, 0), (2, 1)] ∧
    pairIdx 3 3 true = [(0, 1), (0, 2), (1, 2)] := by decide

end Pepit.C04
