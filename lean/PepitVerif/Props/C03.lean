import PepitVerif.Math.ClassForms
import PepitVerif.Math.Convex

/-!
# Property C03: class constraints never exclude a real member of the class

Every theorem is about a definition *regenerated from the source* (`Gen.*`), instantiated on
arbitrary samples of an arbitrary member, in an arbitrary real inner-product space.
`sv xi gi xj gj` / `fvOf fi fj` interpret the symbols of a condition by actual sample data.
-/

open RealInnerProductSpace

variable {E : Type*} [NormedAddCommGroup E] [InnerProductSpace ℝ E]

/-- interpretation of the point symbols by sample data -/
def sv (xi gi xj gj : E) (xs : E := 0) (v : E := 0) (gik : E := 0) (gjk : E := 0) : PSym → E
  | .xi => xi | .gi => gi | .xj => xj | .gj => gj | .xs => xs | .v => v | .gik => gik | .gjk => gjk
/-- interpretation of the value symbols -/
def fvOf (fi fj : ℝ) (fs : ℝ := 0) : FSym → ℝ
  | .fi => fi | .fj => fj | .fs => fs

/-- `g` is a subgradient of `f` at `x` -/
def IsSubgrad (f : E → ℝ) (x g : E) : Prop := ∀ y, f y ≥ f x + ⟪g, y - x⟫

section functions
variable (f : E → ℝ) (xi gi xj gj : E)

/-- **ConvexFunction** -/
theorem ConvexFunction.sound (hj : IsSubgrad f xj gj) :
    QForm.den (sv xi gi xj gj) (fvOf (f xi) (f xj)) Gen.ConvexFunction.convexity ≤ 0 := by
  rw [den_ConvexFunction_convexity]
  have := hj xi
  simp only [Canon.convexity, sv, fvOf]; linarith

/-- **StronglyConvexFunction** -/
theorem StronglyConvexFunction.sound (μ : ℚ)
    (hj : ∀ y, f y ≥ f xj + ⟪gj, y - xj⟫ + (μ : ℝ) / 2 * ‖y - xj‖ ^ 2) :
    QForm.den (sv xi gi xj gj) (fvOf (f xi) (f xj)) (Gen.StronglyConvexFunction.strong_convexity μ) ≤ 0 := by
  rw [den_StronglyConvexFunction_strong_convexity]
  have := hj xi
  simp only [Canon.strongConvexity, sv, fvOf, real_inner_self_eq_norm_sq]; linarith

/-- **ConvexLipschitzFunction** (bounded subgradients) -/
theorem ConvexLipschitzFunction.sound_lipschitz (M : ℚ) (hM : 0 ≤ M) (hg : ‖gi‖ ≤ (M : ℝ)) :
    QForm.den (sv xi gi xj gj) (fvOf (f xi) (f xj)) (Gen.ConvexLipschitzFunction.lipschitz_continuity M) ≤ 0 := by
  rw [den_ConvexLipschitzFunction_lipschitz_continuity]
  simp only [Canon.gradBound, sv, real_inner_self_eq_norm_sq]
  have h0 : 0 ≤ ‖gi‖ := norm_nonneg _
  nlinarith
theorem ConvexLipschitzFunction.sound_convexity (M : ℚ) (hj : IsSubgrad f xj gj) :
    QForm.den (sv xi gi xj gj) (fvOf (f xi) (f xj)) (Gen.ConvexLipschitzFunction.convexity M) ≤ 0 := by
  rw [den_ConvexLipschitzFunction_convexity]
  have := hj xi
  simp only [Canon.convexity, sv, fvOf]; linarith

/-- **ConvexIndicatorFunction** of a set `C` of diameter at most `D` -/
theorem ConvexIndicatorFunction.sound_value (D : ℚ) (hfi : f xi = 0) :
    QForm.den (sv xi gi xj gj) (fvOf (f xi) (f xj)) (Gen.ConvexIndicatorFunction.value D) = 0 := by
  rw [den_ConvexIndicatorFunction_value]; simp [Canon.valueZero, fvOf, hfi]
theorem ConvexIndicatorFunction.sound_convexity (D : ℚ) (C : Set E) (hxi : xi ∈ C)
    (hj : ∀ y ∈ C, ⟪gj, y - xj⟫ ≤ 0) :
    QForm.den (sv xi gi xj gj) (fvOf (f xi) (f xj)) (Gen.ConvexIndicatorFunction.convexity D) ≤ 0 := by
  rw [den_ConvexIndicatorFunction_convexity]; simpa [Canon.normalCone, sv] using hj xi hxi
theorem ConvexIndicatorFunction.sound_diameter (D : ℚ) (hD : 0 ≤ D) (hd : ‖xi - xj‖ ≤ (D : ℝ)) :
    QForm.den (sv xi gi xj gj) (fvOf (f xi) (f xj)) (Gen.ConvexIndicatorFunction.diameter D) ≤ 0 := by
  rw [den_ConvexIndicatorFunction_diameter]
  simp only [Canon.diameter, sv, real_inner_self_eq_norm_sq]
  have h0 : 0 ≤ ‖xi - xj‖ := norm_nonneg _
  nlinarith

/-- **ConvexQGFunction**: `xi = x⋆` is a minimiser (the stationary sample), `f y − f⋆ ≤ L/2‖y − x⋆‖²` -/
theorem ConvexQGFunction.sound_qg (L : ℚ) (hL : 0 < L) (hj : IsSubgrad f xj gj)
    (hqg : ∀ y, f y - f xi ≤ (L : ℝ) / 2 * ‖y - xi‖ ^ 2) :
    QForm.den (sv xi gi xj gj) (fvOf (f xi) (f xj)) (Gen.ConvexQGFunction.qg_convexity L) ≤ 0 := by
  rw [den_ConvexQGFunction_qg_convexity _ _ L (ne_of_gt hL)]
  have hL' : (0 : ℝ) < (L : ℝ) := by exact_mod_cast hL
  -- evaluate both bounds at z = x⋆ + gj / L
  have h1 := hj (xi + (1 / (L : ℝ)) • gj)
  have h2 := hqg (xi + (1 / (L : ℝ)) • gj)
  have e1 : xi + (1 / (L : ℝ)) • gj - xi = (1 / (L : ℝ)) • gj := by abel
  have e2 : ⟪gj, xi + (1 / (L : ℝ)) • gj - xj⟫ = ⟪gj, xi - xj⟫ + (1 / (L : ℝ)) * ⟪gj, gj⟫ := by
    have : xi + (1 / (L : ℝ)) • gj - xj = (xi - xj) + (1 / (L : ℝ)) • gj := by abel
    rw [this, inner_add_right, real_inner_smul_right]
  rw [e1, norm_smul, mul_pow, Real.norm_eq_abs, sq_abs] at h2
  rw [e2] at h1
  simp only [Canon.qg, sv, fvOf]
  have e3 : ‖gj‖ ^ 2 = ⟪gj, gj⟫ := (real_inner_self_eq_norm_sq gj).symm
  rw [e3] at h2
  have e4 : (L : ℝ) / 2 * ((1 / (L : ℝ)) ^ 2 * ⟪gj, gj⟫) = 1 / (2 * (L : ℝ)) * ⟪gj, gj⟫ := by field_simp
  have e5 : 1 / (L : ℝ) * ⟪gj, gj⟫ = 2 * (1 / (2 * (L : ℝ)) * ⟪gj, gj⟫) := by field_simp
  rw [e4] at h2
  linarith
theorem ConvexQGFunction.sound_convexity (L : ℚ) (hj : IsSubgrad f xj gj) :
    QForm.den (sv xi gi xj gj) (fvOf (f xi) (f xj)) (Gen.ConvexQGFunction.convexity L) ≤ 0 := by
  rw [den_ConvexQGFunction_convexity]
  have := hj xi
  simp only [Canon.convexity, sv, fvOf]; linarith

/-- **ConvexSupportFunction** of a set `C ⊆ B(0, M)`: `gi ∈ C` attains `σ_C(xi) = ⟪gi, xi⟫` -/
theorem ConvexSupportFunction.sound_fenchel (M : ℚ) (hfi : f xi = ⟪gi, xi⟫) :
    QForm.den (sv xi gi xj gj) (fvOf (f xi) (f xj)) (Gen.ConvexSupportFunction.fenchel_value M) = 0 := by
  rw [den_ConvexSupportFunction_fenchel_value]; simp [Canon.fenchel, sv, fvOf, hfi]
theorem ConvexSupportFunction.sound_lipschitz (M : ℚ) (hM : 0 ≤ M) (hg : ‖gi‖ ≤ (M : ℝ)) :
    QForm.den (sv xi gi xj gj) (fvOf (f xi) (f xj)) (Gen.ConvexSupportFunction.lipschitz_continuity M) ≤ 0 := by
  rw [den_ConvexSupportFunction_lipschitz_continuity]
  simp only [Canon.gradBound, sv, real_inner_self_eq_norm_sq]
  have h0 : 0 ≤ ‖gi‖ := norm_nonneg _
  nlinarith
theorem ConvexSupportFunction.sound_convexity (M : ℚ) (C : Set E) (hgi : gi ∈ C)
    (hj : ∀ c ∈ C, ⟪c, xj⟫ ≤ ⟪gj, xj⟫) :
    QForm.den (sv xi gi xj gj) (fvOf (f xi) (f xj)) (Gen.ConvexSupportFunction.convexity M) ≤ 0 := by
  rw [den_ConvexSupportFunction_convexity]
  have := hj gi hgi
  simp only [Canon.supportConvexity, sv, inner_sub_right]
  rw [real_inner_comm gi xj, real_inner_comm gj xj]; linarith

/-- **RsiEbFunction**: sample `i` is a stationary point `x⋆` (`gi = 0`) -/
theorem RsiEbFunction.sound_rsi (μ L : ℚ) (hrsi : ⟪gj, xj - xi⟫ ≥ (μ : ℝ) * ‖xj - xi‖ ^ 2) :
    QForm.den (sv xi 0 xj gj) (fvOf (f xi) (f xj)) (Gen.RsiEbFunction.rsi μ L) ≤ 0 := by
  rw [den_RsiEbFunction_rsi]
  simp only [Canon.strongMonotone, sv, zero_sub, inner_neg_left, real_inner_self_eq_norm_sq]
  have e1 : ⟪gj, xi - xj⟫ = -⟪gj, xj - xi⟫ := by rw [← neg_sub, inner_neg_right]
  have e2 : ‖xi - xj‖ = ‖xj - xi‖ := norm_sub_rev _ _
  rw [e1, e2]; linarith
theorem RsiEbFunction.sound_eb (μ L : ℚ) (hL : 0 ≤ L) (heb : ‖gj‖ ≤ (L : ℝ) * ‖xj - xi‖) :
    QForm.den (sv xi 0 xj gj) (fvOf (f xi) (f xj)) (Gen.RsiEbFunction.eb μ L) ≤ 0 := by
  rw [den_RsiEbFunction_eb]
  simp only [Canon.lipschitz, sv, zero_sub, inner_neg_left, inner_neg_right, neg_neg, real_inner_self_eq_norm_sq]
  have e2 : ‖xi - xj‖ = ‖xj - xi‖ := norm_sub_rev _ _
  rw [e2]
  have h0 : 0 ≤ ‖gj‖ := norm_nonneg _
  have h1 : 0 ≤ ‖xj - xi‖ := norm_nonneg _
  have hL' : (0 : ℝ) ≤ (L : ℝ) := by exact_mod_cast hL
  nlinarith [mul_nonneg hL' h1]

end functions

section smooth
variable (f : E → ℝ) (g : E → E) (xi xj : E)

/-- L-smooth convex functions, first-order form -/
structure SmoothConvexMember (L : ℝ) (f : E → ℝ) (g : E → E) : Prop where
  convex : ∀ x y, f y ≥ f x + ⟪g x, y - x⟫
  smooth : ∀ x y, f y ≤ f x + ⟪g x, y - x⟫ + L / 2 * ‖y - x‖ ^ 2

/-- L-smooth μ-strongly convex functions, first-order form -/
structure SmoothStronglyConvexMember (μ L : ℝ) (f : E → ℝ) (g : E → E) : Prop where
  strong : ∀ x y, f y ≥ f x + ⟪g x, y - x⟫ + μ / 2 * ‖y - x‖ ^ 2
  smooth : ∀ x y, f y ≤ f x + ⟪g x, y - x⟫ + L / 2 * ‖y - x‖ ^ 2

/-- **SmoothConvexFunction** -/
theorem SmoothConvexFunction.sound (L : ℚ) (hL : 0 < L) (hm : SmoothConvexMember (L : ℝ) f g) :
    QForm.den (sv xi (g xi) xj (g xj)) (fvOf (f xi) (f xj)) (Gen.SmoothConvexFunction.smoothness_convexity L) ≤ 0 := by
  rw [den_SmoothConvexFunction_smoothness_convexity _ _ L (ne_of_gt hL)]
  have hL' : (0 : ℝ) < (L : ℝ) := by exact_mod_cast hL
  have := sc_interp f g (L : ℝ) hL' hm.convex hm.smooth xi xj
  simp only [Canon.sc, sv, fvOf, real_inner_self_eq_norm_sq]; linarith

/-- **SmoothConvexLipschitzFunction** (smoothness-convexity part; the gradient bound is as for
`ConvexLipschitzFunction`) -/
theorem SmoothConvexLipschitzFunction.sound (L M : ℚ) (hL : 0 < L) (hm : SmoothConvexMember (L : ℝ) f g) :
    QForm.den (sv xi (g xi) xj (g xj)) (fvOf (f xi) (f xj))
      (Gen.SmoothConvexLipschitzFunction.smoothness_convexity L M) ≤ 0 := by
  rw [den_SmoothConvexLipschitzFunction_smoothness_convexity _ _ L M (ne_of_gt hL)]
  have hL' : (0 : ℝ) < (L : ℝ) := by exact_mod_cast hL
  have := sc_interp f g (L : ℝ) hL' hm.convex hm.smooth xi xj
  simp only [Canon.sc, sv, fvOf, real_inner_self_eq_norm_sq]; linarith

/-- **SmoothStronglyConvexFunction** -/
theorem SmoothStronglyConvexFunction.sound (μ L : ℚ) (hμ : 0 ≤ μ) (hμL : μ < L)
    (hm : SmoothStronglyConvexMember (μ : ℝ) (L : ℝ) f g) :
    QForm.den (sv xi (g xi) xj (g xj)) (fvOf (f xi) (f xj))
      (Gen.SmoothStronglyConvexFunction.smoothness_strong_convexity μ L) ≤ 0 := by
  have hL : 0 < L := lt_of_le_of_lt hμ hμL
  rw [den_SmoothStronglyConvexFunction_smoothness_strong_convexity _ _ μ L (ne_of_gt hL) (ne_of_lt hμL)]
  have hμ' : (0 : ℝ) ≤ (μ : ℝ) := by exact_mod_cast hμ
  have hμL' : (μ : ℝ) < (L : ℝ) := by exact_mod_cast hμL
  have := ssc_interp f g (μ : ℝ) (L : ℝ) hμ' hμL' hm.strong hm.smooth xi xj
  simp only [Canon.ssc, sv, fvOf, real_inner_self_eq_norm_sq]; linarith

end smooth

section operators
variable (xi gi xj gj : E) (fi fj : ℝ)

/-- **MonotoneOperator** -/
theorem MonotoneOperator.sound (h : 0 ≤ ⟪gi - gj, xi - xj⟫) :
    QForm.den (sv xi gi xj gj) (fvOf fi fj) Gen.MonotoneOperator.monotonicity ≤ 0 := by
  rw [den_MonotoneOperator_monotonicity]; simp only [Canon.monotone, sv]; linarith
/-- **StronglyMonotoneOperator** -/
theorem StronglyMonotoneOperator.sound (μ : ℚ) (h : (μ : ℝ) * ‖xi - xj‖ ^ 2 ≤ ⟪gi - gj, xi - xj⟫) :
    QForm.den (sv xi gi xj gj) (fvOf fi fj) (Gen.StronglyMonotoneOperator.strong_monotonicity μ) ≤ 0 := by
  rw [den_StronglyMonotoneOperator_strong_monotonicity]
  simp only [Canon.strongMonotone, sv, real_inner_self_eq_norm_sq]; linarith
/-- **CocoerciveOperator** -/
theorem CocoerciveOperator.sound (β : ℚ) (h : (β : ℝ) * ‖gi - gj‖ ^ 2 ≤ ⟪gi - gj, xi - xj⟫) :
    QForm.den (sv xi gi xj gj) (fvOf fi fj) (Gen.CocoerciveOperator.cocoercivity β) ≤ 0 := by
  rw [den_CocoerciveOperator_cocoercivity]
  simp only [Canon.cocoercive, sv, real_inner_self_eq_norm_sq]; linarith
/-- **CocoerciveStronglyMonotoneOperator** -/
theorem CocoerciveStronglyMonotoneOperator.sound_cocoercivity (μ β : ℚ)
    (h : (β : ℝ) * ‖gi - gj‖ ^ 2 ≤ ⟪gi - gj, xi - xj⟫) :
    QForm.den (sv xi gi xj gj) (fvOf fi fj) (Gen.CocoerciveStronglyMonotoneOperator.cocoercivity μ β) ≤ 0 := by
  rw [den_CocoerciveStronglyMonotoneOperator_cocoercivity]
  simp only [Canon.cocoercive, sv, real_inner_self_eq_norm_sq]; linarith
theorem CocoerciveStronglyMonotoneOperator.sound_strong_monotonicity (μ β : ℚ)
    (h : (μ : ℝ) * ‖xi - xj‖ ^ 2 ≤ ⟪gi - gj, xi - xj⟫) :
    QForm.den (sv xi gi xj gj) (fvOf fi fj) (Gen.CocoerciveStronglyMonotoneOperator.strong_monotonicity μ β) ≤ 0 := by
  rw [den_CocoerciveStronglyMonotoneOperator_strong_monotonicity]
  simp only [Canon.strongMonotone, sv, real_inner_self_eq_norm_sq]; linarith
/-- **LipschitzOperator** -/
theorem LipschitzOperator.sound (L : ℚ) (hL : 0 ≤ L) (h : ‖gi - gj‖ ≤ (L : ℝ) * ‖xi - xj‖) :
    QForm.den (sv xi gi xj gj) (fvOf fi fj) (Gen.LipschitzOperator.lipschitz_continuity L) ≤ 0 := by
  rw [den_LipschitzOperator_lipschitz_continuity]
  simp only [Canon.lipschitz, sv, real_inner_self_eq_norm_sq]
  have h0 : 0 ≤ ‖gi - gj‖ := norm_nonneg _
  have h1 : 0 ≤ ‖xi - xj‖ := norm_nonneg _
  have hL' : (0 : ℝ) ≤ (L : ℝ) := by exact_mod_cast hL
  nlinarith [mul_nonneg hL' h1]
/-- **LipschitzStronglyMonotoneOperator** -/
theorem LipschitzStronglyMonotoneOperator.sound_lipschitz (μ L : ℚ) (hL : 0 ≤ L)
    (h : ‖gi - gj‖ ≤ (L : ℝ) * ‖xi - xj‖) :
    QForm.den (sv xi gi xj gj) (fvOf fi fj) (Gen.LipschitzStronglyMonotoneOperator.lipschitz_continuity μ L) ≤ 0 := by
  rw [den_LipschitzStronglyMonotoneOperator_lipschitz_continuity]
  simp only [Canon.lipschitz, sv, real_inner_self_eq_norm_sq]
  have h0 : 0 ≤ ‖gi - gj‖ := norm_nonneg _
  have h1 : 0 ≤ ‖xi - xj‖ := norm_nonneg _
  have hL' : (0 : ℝ) ≤ (L : ℝ) := by exact_mod_cast hL
  nlinarith [mul_nonneg hL' h1]
theorem LipschitzStronglyMonotoneOperator.sound_strong_monotonicity (μ L : ℚ)
    (h : (μ : ℝ) * ‖xi - xj‖ ^ 2 ≤ ⟪gi - gj, xi - xj⟫) :
    QForm.den (sv xi gi xj gj) (fvOf fi fj) (Gen.LipschitzStronglyMonotoneOperator.strong_monotonicity μ L) ≤ 0 := by
  rw [den_LipschitzStronglyMonotoneOperator_strong_monotonicity]
  simp only [Canon.strongMonotone, sv, real_inner_self_eq_norm_sq]; linarith
/-- **NegativelyComonotoneOperator** -/
theorem NegativelyComonotoneOperator.sound (ρ : ℚ) (h : -((ρ : ℝ) * ‖gi - gj‖ ^ 2) ≤ ⟪gi - gj, xi - xj⟫) :
    QForm.den (sv xi gi xj gj) (fvOf fi fj) (Gen.NegativelyComonotoneOperator.negative_comonotonicity ρ) ≤ 0 := by
  rw [den_NegativelyComonotoneOperator_negative_comonotonicity]
  simp only [Canon.negComonotone, sv, real_inner_self_eq_norm_sq]; linarith
/-- **NonexpansiveOperator** -/
theorem NonexpansiveOperator.sound (h : ‖gi - gj‖ ≤ ‖xi - xj‖) :
    QForm.den (sv xi gi xj gj) (fvOf fi fj) Gen.NonexpansiveOperator.nonexpansiveness ≤ 0 := by
  rw [den_NonexpansiveOperator_nonexpansiveness]
  simp only [Canon.nonexpansive, sv, real_inner_self_eq_norm_sq]
  have h0 : 0 ≤ ‖gi - gj‖ := norm_nonneg _
  nlinarith
/-- infimal displacement vector `v` of a nonexpansive `T` (`gi = T xi`): `‖v‖² ≤ ⟪xi − T xi, v⟫` -/
theorem NonexpansiveOperator.sound_displacement (v : E) (h : ‖v‖ ^ 2 ≤ ⟪xi - gi, v⟫) :
    QForm.den (sv xi gi xj gj 0 v) (fvOf fi fj) Gen.NonexpansiveOperator.infimal_displacement_vector ≤ 0 := by
  rw [den_NonexpansiveOperator_infimal_displacement_vector]
  simp only [Canon.infimalDisplacement, sv, real_inner_self_eq_norm_sq]; linarith

/-- **LinearOperator**: `(xi, gi) = (x, M x)`, `(xj, gj) = (u, Mᵗ u)` with `⟪M x, u⟫ = ⟪x, Mᵗ u⟫` -/
theorem LinearOperator.sound_adjoint (L : ℚ) (h : ⟪gi, xj⟫ = ⟪xi, gj⟫) :
    QForm.den (sv xi gi xj gj) (fvOf fi fj) (Gen.LinearOperator.adjoint L) = 0 := by
  rw [den_LinearOperator_adjoint]; simp only [Canon.adjoint, sv]; linarith
/-- **SymmetricLinearOperator**: `gi = A xi`, `gj = A xj`, `A` self-adjoint -/
theorem SymmetricLinearOperator.sound_symmetry (μ L : ℚ) (h : ⟪xi, gj⟫ = ⟪gi, xj⟫) :
    QForm.den (sv xi gi xj gj) (fvOf fi fj) (Gen.SymmetricLinearOperator.symmetric_linearity μ L) = 0 := by
  rw [den_SymmetricLinearOperator_symmetric_linearity]
  simp only [Canon.symmetry, sv]; rw [real_inner_comm gi xj]; linarith
/-- **SkewSymmetricLinearOperator**: `⟪xi, A xj⟫ = −⟪A xi, xj⟫` -/
theorem SkewSymmetricLinearOperator.sound_antisymmetry (L : ℚ) (h : ⟪xi, gj⟫ = -⟪gi, xj⟫) :
    QForm.den (sv xi gi xj gj) (fvOf fi fj) (Gen.SkewSymmetricLinearOperator.antisymmetric_linearity L) = 0 := by
  rw [den_SkewSymmetricLinearOperator_antisymmetric_linearity]
  simp only [Canon.antisymmetry, sv]; rw [real_inner_comm gi xj]; linarith

end operators

/-- non-vacuity: `f = (L/2)‖·‖²` with `g = L • id` is a member (for `μ ≤ L`). -/
example (μ L : ℝ) (hμL : μ ≤ L) :
    SmoothStronglyConvexMember μ L (fun x : E => L / 2 * ‖x‖ ^ 2) (fun x => L • x) := by
  constructor
  · intro x y
    have h : ‖y‖ ^ 2 = ‖x‖ ^ 2 + 2 * ⟪x, y - x⟫ + ‖y - x‖ ^ 2 := by
      have : y = x + (y - x) := by abel
      conv_lhs => rw [this]
      rw [norm_add_sq_real]
    simp only [real_inner_smul_left]
    rw [h]
    nlinarith [mul_nonneg (sub_nonneg.mpr hμL) (sq_nonneg ‖y - x‖)]
  · intro x y
    have h : ‖y‖ ^ 2 = ‖x‖ ^ 2 + 2 * ⟪x, y - x⟫ + ‖y - x‖ ^ 2 := by
      have : y = x + (y - x) := by abel
      conv_lhs => rw [this]
      rw [norm_add_sq_real]
    simp only [real_inner_smul_left]
    rw [h]
    have e : L / 2 * (‖x‖ ^ 2 + 2 * ⟪x, y - x⟫ + ‖y - x‖ ^ 2)
        = L / 2 * ‖x‖ ^ 2 + L * ⟪x, y - x⟫ + L / 2 * ‖y - x‖ ^ 2 := by ring
    rw [e]
