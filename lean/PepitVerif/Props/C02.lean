import PepitVerif.Math.MatricesSem
import PepitModel.Eval
import Mathlib.Data.Matrix.Basic
import Mathlib.LinearAlgebra.Matrix.Trace

/-!
# Property C02: the primal output is one consistent instance

* `evalGF_gram`: what the SDP sees of an expression at the Gram matrix of an actual family of
  vectors is the denotation of the expression at those vectors — so the values of all derived
  objects are the same linear/bilinear combinations of the leaf values (the homomorphism theorems
  of C06 apply verbatim to `evalGF`, which is `Dict.denM` at another valuation).
* `evalGFRat_sound`: the executable evaluation of the model (`Model/Eval`, the one compared with
  the implementation's `eval()` by the correspondence streams) computes `evalGF` at the injected
  solution whenever it returns a value, and refuses (`none`, i.e. `ValueError`) exactly when the
  expression mentions a leaf created after the solve.
* `objective_is_min_metric`: in "maximise t subject to t ≤ m_k", the optimum is the smallest metric.
-/

open RealInnerProductSpace

variable {E : Type*} [NormedAddCommGroup E] [InnerProductSpace ℝ E]

namespace Pepit.C02

theorem keyValGF_gram (v : Nat → E) (φ : Nat → ℝ) :
    keyValGF (fun i j => ⟪v i, v j⟫) φ = keyVal v φ := by
  funext k; cases k <;> rfl

/-- **Gram bridge**: evaluating at the Gram matrix of the leaf vectors is evaluating at the vectors -/
theorem evalGF_gram (v : Nat → E) (φ : Nat → ℝ) (e : EDict) :
    EDict.evalGF (fun i j => ⟪v i, v j⟫) φ e = EDict.den v φ e := by
  unfold EDict.evalGF EDict.den; rw [keyValGF_gram]

/-- the real-valued reading of an injected rational solution -/
noncomputable def solG (sol : Solution) : Nat → Nat → ℝ := fun i j => (((sol.G.getD i []).getD j 0 : ℚ) : ℝ)
noncomputable def solF (sol : Solution) : Nat → ℝ := fun c => ((sol.F.getD c 0 : ℚ) : ℝ)

theorem evalGFRat_aux (sol : Solution) (d : EDict) :
    ∀ (acc : Option Coef) (r : Coef),
      d.foldl (fun acc kc => do
        let a ← acc
        match kc.1 with
        | .f c => if c < sol.nE then some (a + kc.2 * sol.F.getD c 0) else Option.none
        | .ip i j => do let g ← lookupG sol i j; some (a + kc.2 * g)
        | .one => some (a + kc.2)) acc = some r →
      ∃ a, acc = some a ∧ ((r : ℚ) : ℝ) = ((a : ℚ) : ℝ) + Dict.denM (keyValGF (solG sol) (solF sol)) d := by
  induction d with
  | nil => intro acc r h; exact ⟨r, h, by simp [Dict.denM]⟩
  | cons kc rest ih =>
    intro acc r h
    rw [List.foldl_cons] at h
    obtain ⟨a', ha', hr⟩ := ih _ r h
    cases acc with
    | none => simp at ha'
    | some a =>
      refine ⟨a, rfl, ?_⟩
      rw [hr]
      obtain ⟨k, c⟩ := kc
      cases k with
      | f i =>
        simp only [Option.bind_eq_bind, Option.bind_some] at ha'
        split at ha'
        · cases ha'
          simp only [Dict.denM, List.map_cons, List.sum_cons, keyValGF, solF, smul_eq_mul]
          push_cast; ring
        · simp at ha'
      | ip i j =>
        simp only [Option.bind_eq_bind, Option.bind_some] at ha'
        cases hg : lookupG sol i j with
        | none => simp [hg] at ha'
        | some g =>
          simp only [hg, Option.bind_some, Option.some.injEq] at ha'
          subst ha'
          have : g = (sol.G.getD i []).getD j 0 := by
            unfold lookupG at hg; split at hg <;> simp_all
          subst this
          simp only [Dict.denM, List.map_cons, List.sum_cons, keyValGF, solG, smul_eq_mul]
          push_cast; ring
      | one =>
        simp only [Option.bind_eq_bind, Option.bind_some, Option.some.injEq] at ha'
        subst ha'
        simp only [Dict.denM, List.map_cons, List.sum_cons, keyValGF, smul_eq_mul]
        push_cast; ring

/-- **the executable evaluation is `evalGF` at the injected solution** -/
theorem evalGFRat_sound (sol : Solution) (d : EDict) (r : Coef) (h : evalGFRat sol d = some r) :
    ((r : ℚ) : ℝ) = EDict.evalGF (solG sol) (solF sol) d := by
  obtain ⟨a, ha, hr⟩ := evalGFRat_aux sol d (some 0) r h
  cases ha
  rw [hr]; simp [EDict.evalGF]

/-- **objective = smallest metric**: `t` is feasible for `t ≤ m_k (∀k)` iff `t ≤ min`, hence the
maximal feasible `t` is the minimum of the metrics (`m0 :: ms` non-empty list of metric values) -/
theorem objective_is_min_metric (m0 : ℝ) (ms : List ℝ) :
    IsGreatest {t : ℝ | ∀ m ∈ m0 :: ms, t ≤ m} (ms.foldl min m0) := by
  have key : ∀ (ms : List ℝ) (m0 t : ℝ), t ≤ ms.foldl min m0 ↔ ∀ m ∈ m0 :: ms, t ≤ m := by
    intro ms
    induction ms with
    | nil => intro m0 t; simp
    | cons a rest ih =>
      intro m0 t
      rw [List.foldl_cons, ih]
      simp only [List.mem_cons, forall_eq_or_imp, le_min_iff]
      tauto
  constructor
  · exact (key ms m0 _).mp le_rfl
  · intro t ht; exact (key ms m0 t).mpr ht

/-- non-vacuity of the executable evaluation: `2·⟨p0,p1⟩ + 3·f0 − 1` at `G = [[1,2],[2,5]]`, `F = [4]` -/
example : evalGFRat ⟨[[1, 2], [2, 5]], [4], 2, 1⟩ [(.ip 0 1, 2), (.f 0, 3), (.one, -1)] = some 15 := by
  decide +kernel
/-- … and an expression mentioning a leaf created after the solve is refused -/
example : evalGFRat ⟨[[1, 2], [2, 5]], [4], 2, 1⟩ [(.ip 0 2, 1)] = none := by decide +kernel

end Pepit.C02

#print axioms Pepit.C02.evalGF_gram
#print axioms Pepit.C02.evalGFRat_sound
#print axioms Pepit.C02.objective_is_min_metric

/-! ## the leaf points reproduce the (projected) Gram matrix -/

namespace Pepit.C02
open Matrix

variable {n : Type*} [Fintype n] [DecidableEq n]

/-- **Gram factor**: `_eval_points_and_function_values` takes `G = V diag(λ) Vᵀ` (`numpy.linalg.eigh`),
clips `λ⁺ = max(λ, 0)`, forms `A = diag(√λ⁺) Vᵀ` and keeps the `R` factor of `A = Q R`
(`numpy.linalg.qr`, `QᵀQ = 1`).  Column `i` of `R` is the value of leaf point `i`.  Then the matrix of
inner products of the evaluated leaf points, `RᵀR`, is `V diag(λ⁺) Vᵀ` — the projection of the solver's
Gram matrix onto the PSD cone (and `G` itself when `λ ≥ 0`).  The contracts of `eigh` / `qr` are the
hypotheses. -/
theorem gram_factor (V Q R : Matrix n n ℝ) (lamp s : n → ℝ)
    (hs : ∀ i, s i * s i = lamp i)                       -- s = √λ⁺
    (hQ : Qᵀ * Q = 1) (hQR : Q * R = diagonal s * Vᵀ) :
    Rᵀ * R = V * diagonal lamp * Vᵀ := by
  have h1 : Rᵀ * R = (Q * R)ᵀ * (Q * R) := by
    rw [transpose_mul, Matrix.mul_assoc, ← Matrix.mul_assoc Qᵀ Q R, hQ, Matrix.one_mul]
  have hd : diagonal s * diagonal s = diagonal lamp := by
    rw [diagonal_mul_diagonal]; congr 1; funext i; exact hs i
  rw [h1, hQR, transpose_mul, transpose_transpose, diagonal_transpose, Matrix.mul_assoc,
    ← Matrix.mul_assoc (diagonal s) (diagonal s) Vᵀ, hd, Matrix.mul_assoc]

/-- entry form: `⟪value of leaf i, value of leaf j⟫ = (V diag(λ⁺) Vᵀ) i j` -/
theorem leaf_inner_products (V Q R : Matrix n n ℝ) (lamp s : n → ℝ) (hs : ∀ i, s i * s i = lamp i)
    (hQ : Qᵀ * Q = 1) (hQR : Q * R = diagonal s * Vᵀ) (i j : n) :
    (∑ k, R k i * R k j) = (V * diagonal lamp * Vᵀ) i j := by
  rw [← gram_factor V Q R lamp s hs hQ hQR]
  simp [Matrix.mul_apply, Matrix.transpose_apply]

/-- when the solver's Gram matrix is already PSD (`λ ≥ 0`, so `λ⁺ = λ`) the leaf points reproduce `G` itself -/
theorem leaf_inner_products_psd (G V Q R : Matrix n n ℝ) (lam s : n → ℝ) (hs : ∀ i, s i * s i = lam i)
    (hG : G = V * diagonal lam * Vᵀ) (hQ : Qᵀ * Q = 1) (hQR : Q * R = diagonal s * Vᵀ) :
    Rᵀ * R = G := by
  rw [hG]; exact gram_factor V Q R lam s hs hQ hQR

end Pepit.C02

#print axioms Pepit.C02.gram_factor
