import PepitModel.Eval
import Mathlib.Tactic.Linarith

/-!
# Property C13 (model level): values after solving again
-/

namespace Pepit

/-- **fresh objects report the latest solve**: a derived expression that has no cached value
evaluates, after any history of solves, to its value at the *latest* solution. -/
theorem fresh_expr_latest (w : World) (s : EvalSt) (h : Nat) (e : EObj) (sol : Solution)
    (he : w.exs[h]? = some e) (hleaf : e.leaf = Option.none) (hfresh : s.exVal.lookup h = Option.none)
    (hlast : s.last = some sol) (v : Coef) (hv : evalGFRat sol e.d = some v) :
    ∃ s', evalExpr w s h = .ok (v, s') := by
  unfold evalExpr
  simp only [hfresh, he, hleaf, Option.isSome_none, Bool.false_eq_true, if_false, hlast, hv]
  exact ⟨_, rfl⟩

/-- a cached object keeps reporting its cached number, whatever has been solved since -/
theorem cached_expr_stale (w : World) (s : EvalSt) (h : Nat) (v : Coef) (hc : s.exVal.lookup h = some v) :
    evalExpr w s h = .ok (v, s) := by
  unfold evalExpr; simp only [hc]

/-! ### the full statement fails: a concrete two-solve history -/

/-- one leaf point `x`, the derived expression `x * x` (handle 1; handle 0 is unused) -/
def staleWorld : World :=
  { pts := #[{ leaf := some 0, d := [(0, 1)] }],
    exs := #[{ leaf := Option.none, d := [(EKey.ip 0 0, 1)] }],
    nP := 1 }

def sol1 : Solution := { G := [[1]], F := [], nP := 1, nE := 0 }
def sol2 : Solution := { G := [[4]], F := [], nP := 1, nE := 0 }

/-- values of `x * x` read (i) after the first solve, (ii) by the same held object after the
second solve, (iii) the correct value at the second solution -/
def staleHistory : Option (Coef × Coef × Coef) :=
  match evalExpr staleWorld (({} : EvalSt).afterSolve staleWorld sol1) 0 with
  | .ok (v1, s1) =>
    match evalExpr staleWorld (s1.afterSolve staleWorld sol2) 0 with
    | .ok (v2, _) => (evalGFRat sol2 [(EKey.ip 0 0, 1)]).map (fun v3 => (v1, v2, v3))
    | .error _ => Option.none
  | .error _ => Option.none

/-- **`FullC13` is false of the current code**: the held object still answers 1 after the second
solve, whose solution gives 4. -/
theorem resolve_full_fails : staleHistory = some (1, 1, 4) := by decide +kernel

end Pepit

#print axioms Pepit.fresh_expr_latest
#print axioms Pepit.resolve_full_fails
