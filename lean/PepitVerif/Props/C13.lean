import PepitModel.Eval
import Mathlib.Tactic.Linarith

/-!
# Property C13 (model level): values after solving again
-/

namespace Pepit

/-- **derived objects report the latest solve**: a derived expression evaluates, after any history of
solves and evaluations (of itself or of anything else), to its value at the *latest* solution; before the
`fix:` commit on `eval()` this held only for objects that had never been evaluated (stale caches) -/
theorem expr_latest (w : World) (s : EvalSt) (h : Nat) (e : EObj) (sol : Solution)
    (he : w.exs[h]? = some e) (hleaf : e.leaf = Option.none)
    (hlast : s.last = some sol) (v : Coef) (hv : evalGFRat sol e.d = some v) :
    evalExpr w s h = .ok (v, s) := by
  unfold evalExpr
  simp only [he, hleaf, Option.isSome_none, Bool.false_eq_true, if_false, hlast, hv]

/-- evaluating never changes the evaluation state: nothing is cached that a later solve could make stale -/
theorem eval_pure (w : World) (s : EvalSt) (h : Nat) (v : Coef) (s' : EvalSt)
    (hev : evalExpr w s h = .ok (v, s')) : s' = s := by
  unfold evalExpr at hev
  split at hev
  · cases hev
  · split at hev
    · split at hev
      · cases hev; rfl
      · cases hev
    · split at hev
      · split at hev
        · cases hev; rfl
        · cases hev
      · split at hev
        · cases hev; rfl
        · cases hev

/-! ### the two-solve history that used to expose the stale cache -/

/-- one leaf point `x`, the derived expression `x * x` (handle 0) -/
def staleWorld : World :=
  { pts := #[{ leaf := some 0, d := [(0, 1)] }],
    exs := #[{ leaf := Option.none, d := [(EKey.ip 0 0, 1)] }],
    nP := 1 }

def sol1 : Solution := { G := [[1]], F := [], nP := 1, nE := 0 }
def sol2 : Solution := { G := [[4]], F := [], nP := 1, nE := 0 }

/-- values of `x * x` read (i) after the first solve, (ii) by the same held object after the
second solve, (iii) the value at the second solution -/
def staleHistory : Option (Coef × Coef × Coef) :=
  match evalExpr staleWorld (({} : EvalSt).afterSolve staleWorld sol1) 0 with
  | .ok (v1, s1) =>
    match evalExpr staleWorld (s1.afterSolve staleWorld sol2) 0 with
    | .ok (v2, _) => (evalGFRat sol2 [(EKey.ip 0 0, 1)]).map (fun v3 => (v1, v2, v3))
    | .error _ => Option.none
  | .error _ => Option.none

/-- the held object now answers 4 after the second solve (it answered 1 before the fix) -/
theorem resolve_history_latest : staleHistory = some (1, 4, 4) := by decide +kernel

/-! ### multipliers and leaves after a solve -/

theorem lookup_filterMap_key (h : Nat) :
    ∀ (l : List Nat), l.Nodup → ∀ (g : Nat → Option Coef) (rest : List (Nat × Coef)) (v : Coef),
      (h, v) ∈ l.filterMap (fun a => (g a).map (fun x => (a, x))) →
      ((l.filterMap (fun a => (g a).map (fun x => (a, x)))) ++ rest).lookup h = some v := by
  intro l
  induction l with
  | nil => intro _ g rest v hm; simp at hm
  | cons a t ih =>
    intro hnd g rest v hm
    rw [List.nodup_cons] at hnd
    rw [List.filterMap_cons] at hm ⊢
    cases hga : g a with
    | none => simp only [hga, Option.map_none] at hm ⊢; exact ih hnd.2 g rest v hm
    | some x =>
      simp only [hga, Option.map_some, List.mem_cons, Prod.mk.injEq] at hm
      simp only [hga, Option.map_some, List.cons_append]
      rcases hm with ⟨rfl, rfl⟩ | hm
      · simp [List.lookup]
      · have hne : h ≠ a := by
          intro e; subst e
          rw [List.mem_filterMap] at hm
          obtain ⟨b, hb, hb2⟩ := hm
          cases hgb : g b with
          | none => simp [hgb] at hb2
          | some y =>
            simp only [hgb, Option.map_some, Option.some.injEq, Prod.mk.injEq] at hb2
            exact hnd.1 (hb2.1 ▸ hb)
        have : (h == a) = false := by simpa using hne
        simp only [List.lookup, this]
        exact ih hnd.2 g rest v hm

/-- **leaves always report the latest solve**: after `afterSolve`, the value stored for a leaf
expression is the entry of the *new* `F`, whatever was stored before -/
theorem leaf_latest (w : World) (s : EvalSt) (sol : Solution) (h c : Nat) (e : EObj)
    (he : w.exs[h]? = some e) (hleaf : e.leaf = some c) :
    ((s.afterSolve w sol).exVal.lookup h) = some (sol.F.getD c 0) := by
  have hlv : leafValue w sol h = some (sol.F.getD c 0) := by simp [leafValue, he, hleaf]
  have hlt : h < w.exs.size := by
    by_contra hge
    have : w.exs[h]? = Option.none := by simp [Array.getElem?_eq_none (Nat.le_of_not_lt hge)]
    rw [this] at he; cases he
  have hmem : (h, sol.F.getD c 0) ∈ leafVals w sol := by
    unfold leafVals
    rw [List.mem_filterMap]
    exact ⟨h, List.mem_range.mpr hlt, by simp [hlv]⟩
  unfold EvalSt.afterSolve
  simp only
  unfold leafVals at hmem ⊢
  exact lookup_filterMap_key h _ List.nodup_range _ _ _ hmem

end Pepit

#print axioms Pepit.leaf_latest
#print axioms Pepit.expr_latest
#print axioms Pepit.resolve_history_latest
